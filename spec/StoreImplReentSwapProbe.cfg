\* PROBE (TLC must report SweeperOk violated): piecePutMixed with its last two steps swapped (isFree set before mxmemLink):
\* a collection started by the page request of mxmemLink sees a piece whose flag is set but which is not in the index.
SPECIFICATION Spec
CONSTANTS
  PgSize = 8
  HeadUnits = 2
  FixedSizes <- FS12
  MxHead = 1
  PgGroup = 2
  MixedPgGroup = 2
  MaxPages = 9
  ReqSizes = {3, 5, 12}
  Codes = {0}
  PtrFreeCodes = {1}
  Tags = {1}
  NRoots = 1
  MaxLive = 3
  MaxOps = 5
  GraphOps = TRUE
  Probe = "none"
  CarPerPage = 1
  Reentrant = TRUE
  FlagFirst = TRUE
  SplitPoint = FALSE
  CutAtRisk = TRUE
INVARIANT SweeperOk

VIEW View
CHECK_DEADLOCK FALSE
