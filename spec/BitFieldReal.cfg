SPECIFICATION Spec
CONSTANTS
  CB = 8
  NBs = {1, 4, 8}
  Mode = "boundary"
INVARIANTS UpOk DnOk FirstOk
CHECK_DEADLOCK FALSE
