SPECIFICATION Spec
CONSTANTS
  MaxParams = 2
  Types = {"FiWord", "FiChar", "FiSFlo", "FiDFlo"}
INVARIANTS MixedDialectsAgree
CHECK_DEADLOCK FALSE
