------------------------------ MODULE ScanPairs ------------------------------
(***************************************************************************)
(* C14 at the level of the scanner: white space, comments and escaped line  *)
(* breaks between two tokens do not change the tokens.                      *)
(*                                                                          *)
(* For every context token p and every pair (a, b) of the universe (all     *)
(* keywords and operators of token.c plus sample identifiers and literals)  *)
(* the text   p a <sep> b   is scanned (Scan.tla) with each separator:      *)
(*   sp   one blank          tab  a tab          sp2  two blanks            *)
(*   esc  blank, escape, line break, blank                                  *)
(*   esc2 blank, escape, line break, four blanks, tab                       *)
(*   com  blank, `--c` comment, line break, blank                           *)
(*   adj  nothing -- only where Layout!NeedBlank says a and b may touch     *)
(* SepIndependent: all separators give the tokens of `sp` (the comment and  *)
(* its newline removed).  The terminal action exports every case with the   *)
(* predicted tokens; the check feeds the same texts to the real scanner     *)
(* (`aldor -WD+lin`, "Starting with") -- drift only.                        *)
(***************************************************************************)
EXTENDS Layout

CONSTANTS Ctx            \* the context tokens p

Samples  == {"x", "ab", "x1", "0", "1", "2", "10", "1.5", "\"s\""}
Universe == AlphaKW \cup SymKW \cup Samples

SepNames == <<"sp", "tab", "sp2", "esc", "esc2", "com", "adj">>
SepChars(n) == CASE n = "sp"   -> <<" ">>
                 [] n = "tab"  -> <<"\t">>
                 [] n = "sp2"  -> <<" ", " ">>
                 [] n = "esc"  -> <<" ", "_", "\n", " ">>
                 [] n = "esc2" -> <<" ", "_", "\n", " ", " ", " ", " ", "\t">>
                 [] n = "com"  -> <<" ", "-", "-", "c", "\n", " ">>
                 [] n = "adj"  -> <<>>

PairText(p, a, b, n) == CharsOf[p] \o <<" ">> \o CharsOf[a] \o SepChars(n) \o CharsOf[b] \o <<"\n">>

KT(ts) == [i \in 1..Len(ts) |-> <<ts[i].k, ts[i].t>>]
(* the tokens without the comment separator and the newline that ends it *)
Plain(ts, n) ==
  IF n # "com" THEN KT(ts)
  ELSE LET i == CHOOSE j \in 1..(Len(ts) + 1) : j = Len(ts) + 1 \/ (ts[j].k = "com" /\ \A q \in 1..(j - 1) : ts[q].k # "com")
       IN IF i < Len(ts) /\ ts[i + 1].k = "kw" /\ ts[i + 1].t = NLT
          THEN KT(SubSeq(ts, 1, i - 1) \o SubSeq(ts, i + 2, Len(ts))) ELSE KT(ts)

Applicable(p, a, b, n) == n # "adj" \/ ~NeedBlank(p, a, b)

Result(p, a, b) == [n \in {SepNames[i] : i \in 1..Len(SepNames)} |->
                      IF Applicable(p, a, b, n) THEN ScanText(PairText(p, a, b, n)) ELSE <<>>]

Differing(p, a, b, res) == {n \in DOMAIN res : Applicable(p, a, b, n) /\ Plain(res[n], n) # Plain(res["sp"], "sp")}

VARIABLES pp, pa, pb, pstage, pdiff
pvars == <<pp, pa, pb, pstage, pdiff, tree, sty, stage, lines, tl, bal, node, strm, scan>>

PInit == /\ pp \in Ctx /\ pa \in Universe /\ pb \in Universe /\ pstage = "pair" /\ pdiff = {}
         /\ tree = <<>> /\ sty = <<>> /\ stage = "off" /\ lines = <<>> /\ tl = <<>> /\ bal = [err |-> 0, warn |-> 0]
         /\ node = Nil /\ strm = NoStreams /\ scan = NoScan

PCheck == /\ pstage = "pair" /\ pstage' = "done"
          /\ LET res == Result(pp, pa, pb)
                 d   == Differing(pp, pa, pb, res)
             IN /\ pdiff' = d
                /\ (Export => PrintT("PAIR " \o ToJson([p |-> pp, a |-> pa, b |-> pb, differ |-> d,
                                                        toks |-> [n \in DOMAIN res |-> [i \in 1..Len(res[n]) |-> <<res[n][i].k, res[n][i].t>>]]])))
          /\ UNCHANGED <<pp, pa, pb, tree, sty, stage, lines, tl, bal, node, strm, scan>>

PNext == PCheck
PSpec == PInit /\ [][PNext]_pvars

(* holds except for the recorded defect of scan.c (float context forgotten at a line start) *)
SepIndependent == pstage = "done" => pdiff = {}

(* every keyword, operator and sample has its characters in the table *)
ASSUME \A t \in Universe \cup Ctx : t \in DOMAIN CharsOf /\ Join(CharsOf[t]) = t
=============================================================================
