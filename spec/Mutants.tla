------------------------------- MODULE Mutants -------------------------------
(***************************************************************************)
(* C07, input class (b): corruptions of valid source texts.                 *)
(*                                                                          *)
(* IOEnv.PROGS names a JSON file with the valid texts (rendered generated   *)
(* programs, corpus files, piled layouts): [{id, b: [byte,...]}, ...].      *)
(* For every text the machine scans it once (SrcText!TokensOf, i.e. the     *)
(* transcription of include.c/scan.c) and then takes one mutation step:     *)
(*                                                                          *)
(*   token level (on the token list; the text is rebuilt by Unscan: first   *)
(*   token of a line at its column, one blank between tokens)               *)
(*     none        the control: Unscan of the unmutated tokens              *)
(*     del(i)      token i deleted            dup(i)   token i twice        *)
(*     swap(i)     tokens i, i+1 exchanged    ins(i,w) vocabulary token w   *)
(*     delbr(i)    an opening or closing bracket deleted                    *)
(*     insbr(i,w)  a bracket token inserted                                 *)
(*     indent(i,d) the first token of a line moved by d columns (breaks a   *)
(*                 pile when the line is inside #pile)                      *)
(*   character level (on the bytes; the mutant is scanned again)            *)
(*     delquote(q) one string quote removed (unterminated string)           *)
(*     insbyte(q,b) a byte inserted: NUL, 0xE9, 0x80, `_', 0x01, a quote    *)
(*     cut(q)      the text ends after byte q                               *)
(*                                                                          *)
(* Positions are sampled by Stride/Seed (every position when Stride = 1).   *)
(* Each mutant is exported (MUT line) with the certificates of invalidity   *)
(* of SrcText: for token-level mutants computed on the mutated token list   *)
(* (Unscan never lets two tokens touch and never puts a token behind a      *)
(* comment, so the rebuilt text scans to that list -- the thorough tier has *)
(* TLC re-scan the rebuilt bytes and compare), for character-level mutants  *)
(* on the mutated bytes.                                                    *)
(***************************************************************************)
EXTENDS SrcText, Json, IOUtils

CONSTANTS Stride,      \* token positions i with i % Stride = (Seed + p) % Stride are mutated
          CStride,     \* likewise for byte positions of insbyte / cut
          Seed,
          MaxQuotes    \* at most this many delquote mutants per text

Progs == JsonDeserialize(IOEnv.PROGS)
NProgs == Len(Progs)

None == [kind |-> "none", i |-> 0, n |-> 0]

VARIABLES p, toks, base, plain, m
vars == << p, toks, base, plain, m >>

---------------------------------------------------------------------------
(* the vocabulary of inserted tokens                                        *)
KwTokI(s)  == [k |-> "kw", t |-> s, c |-> 0]
Vocab == << KwTokI(";"), KwTokI(","), KwTokI("=="), KwTokI(":="), KwTokI("+->"), KwTokI("if"), KwTokI("then"),
            KwTokI("else"), KwTokI("repeat"), KwTokI("where"), KwTokI("add"), KwTokI("with"), KwTokI(":"),
            KwTokI("."), KwTokI("$"), KwTokI("@"), KwTokI("=>"), KwTokI("return"),
            [k |-> "id", t |-> "zz", c |-> 0], [k |-> "int", t |-> "42", c |-> 0], [k |-> "str", t |-> "\"s\"", c |-> 0] >>
Brackets == << KwTokI("("), KwTokI(")"), KwTokI("["), KwTokI("]"), KwTokI("{"), KwTokI("}"),
               KwTokI("(|"), KwTokI("|)"), KwTokI("[|"), KwTokI("|]"), KwTokI("{|"), KwTokI("|}") >>

IsNL(tok)      == IsKw(tok, NLT)
IsComment(tok) == tok.k \in {"com", "pre", "post"}
Plain(tok)     == tok.k # "sys" /\ ~IsNL(tok) /\ ~IsComment(tok)
IsBracket(tok) == IsOpener(tok) \/ IsCloser(tok)
FirstOfLine(tl, i) == i = 1 \/ IsNL(tl[i - 1]) \/ tl[i - 1].k = "sys"

Sampled(i, q, stride) == i % stride = (Seed + q) % stride

---------------------------------------------------------------------------
(* applying a token-level mutation                                          *)
Without(tl, i)   == SubSeq(tl, 1, i - 1) \o SubSeq(tl, i + 1, Len(tl))
InsBefore(tl, i, tok) == SubSeq(tl, 1, i - 1) \o << [tok EXCEPT !.c = tl[i].c] >> \o
                         << IF FirstOfLine(tl, i) THEN [tl[i] EXCEPT !.c = tl[i].c + 1] ELSE tl[i] >> \o
                         SubSeq(tl, i + 1, Len(tl))
Apply(tl, mu) ==
  CASE mu.kind = "none"  -> tl
    [] mu.kind \in {"del", "delbr"} -> Without(tl, mu.i)
    [] mu.kind = "dup"   -> SubSeq(tl, 1, mu.i) \o SubSeq(tl, mu.i, Len(tl))
    [] mu.kind = "swap"  -> [tl EXCEPT ![mu.i] = [tl[mu.i + 1] EXCEPT !.c = tl[mu.i].c],
                                       ![mu.i + 1] = [tl[mu.i] EXCEPT !.c = tl[mu.i + 1].c]]
    [] mu.kind = "ins"   -> InsBefore(tl, mu.i, Vocab[mu.n])
    [] mu.kind = "insbr" -> InsBefore(tl, mu.i, Brackets[mu.n])
    [] mu.kind = "indent" -> [tl EXCEPT ![mu.i].c = IF tl[mu.i].c + mu.n < 0 THEN 0 ELSE tl[mu.i].c + mu.n]

TokMutations(q, tl) ==
  LET P  == {i \in 1..Len(tl) : Plain(tl[i])}
      S  == {i \in P : Sampled(i, q, Stride)}
      \* a token may be put before i only if that does not place it behind a comment: i is a plain token
      Sw == {i \in S : i < Len(tl) /\ Plain(tl[i + 1])}
      Br == {i \in P : IsBracket(tl[i]) /\ Sampled(i, q, (Stride + 3) \div 4)}
      L1 == {i \in P : FirstOfLine(tl, i) /\ Sampled(i, q, (Stride + 1) \div 2)}
  IN  {[kind |-> "del", i |-> i, n |-> 0] : i \in S}
      \cup {[kind |-> "dup", i |-> i, n |-> 0] : i \in S}
      \cup {[kind |-> "swap", i |-> i, n |-> 0] : i \in Sw}
      \cup {[kind |-> "ins", i |-> i, n |-> ((i + Seed) % Len(Vocab)) + 1] : i \in S}
      \cup {[kind |-> "delbr", i |-> i, n |-> 0] : i \in Br}
      \cup {[kind |-> "insbr", i |-> i, n |-> ((i + Seed) % Len(Brackets)) + 1] : i \in S}
      \cup {[kind |-> "indent", i |-> i, n |-> d] : i \in L1, d \in {-1, 1, 4}}

(* the text of a token list: <<pad, spelling>> pairs, pad = -1 for a line   *)
(* end                                                                      *)
Unscan(tl) ==
  FoldLeft(LAMBDA acc, tok :
             IF IsNL(tok) THEN [out |-> acc.out \o << -1, "" >>, bol |-> TRUE]
             ELSE IF tok.k = "sys" THEN [out |-> acc.out \o << 0, tok.t, -1, "" >>, bol |-> TRUE]
             ELSE [out |-> acc.out \o << IF acc.bol THEN tok.c ELSE 1, tok.t >>, bol |-> FALSE],
           [out |-> <<>>, bol |-> TRUE], tl).out

---------------------------------------------------------------------------
(* character-level mutations                                                *)
InsBytes == << 0, 233, 128, 95, 1, 34 >>
Bytes(q) == Progs[q].b
CharMutations(q) ==
  LET b  == Bytes(q)
      LineStart(i) == CHOOSE j \in 1..i : (j = 1 \/ b[j - 1] = 10) /\ \A k \in (j + 1)..i : b[k - 1] # 10
      Qs == {i \in 1..Len(b) : b[i] = 34 /\ b[LineStart(i)] # 35}     \* not the quotes of #include "..."
      Qn == {i \in Qs : Cardinality({j \in Qs : j < i}) < MaxQuotes}
      S  == {i \in 1..Len(b) : Sampled(i, q, CStride)}
  IN  {[kind |-> "delquote", i |-> i, n |-> 0] : i \in Qn}
      \cup {[kind |-> "insbyte", i |-> i, n |-> InsBytes[((i \div CStride) % Len(InsBytes)) + 1]] : i \in S}
      \cup {[kind |-> "cut", i |-> i, n |-> 0] : i \in S}
ApplyBytes(b, mu) ==
  CASE mu.kind = "delquote" -> SubSeq(b, 1, mu.i - 1) \o SubSeq(b, mu.i + 1, Len(b))
    [] mu.kind = "insbyte"  -> SubSeq(b, 1, mu.i - 1) \o << mu.n >> \o SubSeq(b, mu.i, Len(b))
    [] mu.kind = "cut"      -> SubSeq(b, 1, mu.i)
CharLevel(mu) == mu.kind \in {"delquote", "insbyte", "cut"}

---------------------------------------------------------------------------
Init == /\ p \in 1..NProgs
        /\ toks = TokensOf(Chars(Bytes(p)))
        /\ base = CertOfTokens(toks)
        /\ plain = Faithful(Chars(Bytes(p)))      \* no #if regions, no escapes on # lines: the token list is the whole story
        /\ m = None
Next == /\ m = None
        /\ m' \in TokMutations(p, toks) \cup CharMutations(p)
        /\ UNCHANGED << p, toks, base, plain >>
Spec == Init /\ [][Next]_vars

\* One evaluation per state: the mutant is built and judged, the record is exported, and two laws are checked on it:
\*   the valid texts are valid as far as the specification can tell (the control has no certificate);
\*   deleting or inserting one bracket of a text without certificate is always certified.
Judged ==
  IF CharLevel(m)
  THEN LET j == Judge(ApplyBytes(Bytes(p), m))
       IN  PrintT("MUT " \o ToJson([id |-> Progs[p].id, kind |-> m.kind, i |-> m.i, n |-> m.n,
                                     b |-> j.b, c |-> j.c, r |-> j.r, f |-> j.f]))
  ELSE LET tl == Apply(toks, m)
           cs == IF plain THEN CertOfTokens(tl) ELSE {}
           ct == SetToSeq3(cs)
       IN  /\ PrintT("MUT " \o ToJson([id |-> Progs[p].id, kind |-> m.kind, i |-> m.i, n |-> m.n,
                                        u |-> Unscan(tl), c |-> ct, r |-> ct, f |-> <<>>]))
           /\ (m = None => cs = {})
           /\ ((m.kind \in {"delbr", "insbr"} /\ base = {} /\ plain) => "brackets" \in cs)
=============================================================================
