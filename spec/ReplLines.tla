------------------------------ MODULE ReplLines ------------------------------
(***************************************************************************)
(* How the interactive loop cuts its input into steps (property C13,       *)
(* DESIGN.md 3.12 / section 10): `aldor -Gloop' reads lines until          *)
(* scanIsContinued (scan.c) says that what it has read is complete; that   *)
(* chunk is one step of Repl.tla.  scanIsContinued is a small machine over *)
(* static variables; this module is its transcription:                     *)
(*                                                                         *)
(*   braces      unmatched ( and { seen so far (never negative between     *)
(*               lines: a surplus closer resets it)                        *)
(*   defining    the first line ended in `==': every following line that   *)
(*               starts with white space belongs to the definition         *)
(*   instr, esc  inside a string literal / after the escape character      *)
(*   (topLine is initialised to true and never cleared in scan.c, so it    *)
(*   does not appear.)                                                     *)
(*                                                                         *)
(* A record of the input file LINES (gen/replhist.py) is one session text: *)
(*   lines : the lines as sequences of character codes (with the newline)  *)
(*   ends  : the line numbers at which a step must end: the last line of    *)
(*           each form as the renderer laid it out                          *)
(*   real  : (optional) what the real scanIsContinued returned for each     *)
(*           line, recorded by harness/repl_cont.c                          *)
(* ReadLine is one call of scanIsContinued.  FormsAreSteps says that the   *)
(* loop cuts the text exactly at the ends of the forms: it is what makes   *)
(* `one form = one step' true for the multi-line layouts that the replay   *)
(* uses.  AgreesWithCode compares the transcription with the recorded      *)
(* results (implementation-shaped: reported as drift, never as a           *)
(* violation).                                                             *)
(***************************************************************************)
EXTENDS Naturals, Integers, Sequences, SequencesExt, TLC, Json, IOUtils

Recs == ndJsonDeserialize(IOEnv.LINES)

VARIABLES rid,     \* which record
          ln,      \* number of lines read
          sc,      \* the scanner's static state
          cuts,    \* line numbers after which the loop took a step
          agree    \* every result so far equals the recorded one (TRUE when nothing is recorded)
lvars == <<rid, ln, sc, cuts, agree>>

R == Recs[rid]

NL == 10  SP == 32  TAB == 9  HASH == 35  USCORE == 95  DQ == 34
LPAR == 40  RPAR == 41  LBRACE == 123  RBRACE == 125  SEMI == 59  EQ == 61

Sc0 == [braces |-> 0, defining |-> FALSE, instr |-> FALSE, esc |-> FALSE]

(* one character of the line; acc = [braces, instr, esc, semi, deq], nxt = the following character (0 at the end) *)
Char(acc, c, nxt) ==
  IF acc.esc THEN [acc EXCEPT !.esc = FALSE]
  ELSE IF acc.instr
       THEN IF c = USCORE THEN [acc EXCEPT !.esc = TRUE]
            ELSE IF c = DQ THEN [acc EXCEPT !.instr = FALSE]
            ELSE acc
  ELSE CASE c = USCORE -> [acc EXCEPT !.esc = TRUE]
         [] c = DQ     -> [acc EXCEPT !.instr = TRUE, !.deq = FALSE]
         [] c \in {LPAR, LBRACE} -> [acc EXCEPT !.braces = @ + 1]
         [] c \in {RPAR, RBRACE} -> [acc EXCEPT !.braces = @ - 1]
         [] c = SEMI   -> [acc EXCEPT !.semi = TRUE]
         [] c = EQ     -> IF nxt = EQ THEN [acc EXCEPT !.deq = TRUE] ELSE acc
         [] c \in {SP, NL} -> acc
         [] OTHER      -> [acc EXCEPT !.deq = FALSE]

(* scanIsContinued(line): [cont |-> result, s |-> state afterwards] *)
IsContinued(s, line) ==
  IF line[1] = HASH /\ s.braces = 0 THEN [cont |-> FALSE, s |-> s]
  ELSE IF line[1] = NL THEN [cont |-> TRUE, s |-> s]
  ELSE
    LET def0 == IF line[1] \notin {SP, NL, TAB} THEN FALSE ELSE s.defining
        n    == Len(line)
        a0   == [braces |-> s.braces, instr |-> s.instr, esc |-> s.esc, semi |-> FALSE, deq |-> FALSE]
        a    == FoldLeft(LAMBDA acc, i : Char(acc, line[i], IF i < n THEN line[i + 1] ELSE 0), a0, [i \in 1..n |-> i])
    IN IF a.braces < 0
       THEN [cont |-> FALSE, s |-> [braces |-> 0, defining |-> def0, instr |-> a.instr, esc |-> a.esc]]
       ELSE LET def1 == def0 \/ a.deq
                s1   == [braces |-> a.braces, defining |-> def1, instr |-> a.instr, esc |-> a.esc]
            IN IF def1 THEN [cont |-> TRUE, s |-> s1]
               ELSE IF a.braces > 0 \/ a.instr THEN [cont |-> TRUE, s |-> s1]
               ELSE [cont |-> FALSE, s |-> s1]

HasReal == "real" \in DOMAIN R

ReadLine ==
  /\ ln < Len(R.lines)
  /\ LET r == IsContinued(sc, R.lines[ln + 1]) IN
       /\ sc' = r.s
       /\ cuts' = IF r.cont THEN cuts ELSE Append(cuts, ln + 1)
       /\ agree' = (agree /\ (HasReal => R.real[ln + 1] = r.cont))
  /\ ln' = ln + 1
  /\ UNCHANGED rid

LInit == rid \in 1..Len(Recs) /\ ln = 0 /\ sc = Sc0 /\ cuts = <<>> /\ agree = TRUE
LSpec == LInit /\ [][ReadLine]_lvars

(* the loop takes its steps exactly at the ends of the forms *)
FormsAreSteps == ln = Len(R.lines) => cuts = R.ends
(* stepwise: never a cut inside a form, never a form end without a cut *)
CutsSoFar == cuts = SelectSeq(R.ends, LAMBDA e : e <= ln)
(* between two forms the scanner is back in its initial state *)
CleanBetweenForms == (ln > 0 /\ cuts # <<>> /\ cuts[Len(cuts)] = ln) => (sc.braces = 0 /\ ~sc.instr)
BracesNat == sc.braces >= 0
(* implementation-shaped: the transcription and scan.c agree on every line (checked with a separate configuration) *)
AgreesWithCode == agree
=============================================================================
