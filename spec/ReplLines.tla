------------------------------ MODULE ReplLines ------------------------------
(***************************************************************************)
(* How the interactive loop cuts its input into steps (property C13,       *)
(* DESIGN.md 3.12 / section 10): `aldor -Gloop' reads lines until          *)
(* scanIsContinued (scan.c) says that what it has read is complete; that   *)
(* chunk is one step of Repl.tla.  scanIsContinued is a small machine over *)
(* static variables; its transcription is the module ReplScan.             *)
(*                                                                         *)
(* A record of the input file LINES (gen/replhist.py) is one session text: *)
(*   lines : the lines as sequences of character codes (with the newline)  *)
(*   ends  : the line numbers at which a step must end: the last line of    *)
(*           each form as the renderer laid it out                          *)
(*   real  : (optional) what the real scanIsContinued returned for each     *)
(*           line, recorded by harness/repl_cont.c                          *)
(* ReadLine is one call of scanIsContinued.  FormsAreSteps says that the   *)
(* loop cuts the text exactly at the ends of the forms: it is what makes   *)
(* `one form = one step' true for the multi-line layouts that the replay   *)
(* uses.  AgreesWithCode compares the transcription with the recorded      *)
(* results (implementation-shaped: reported as drift, never as a           *)
(* violation).                                                             *)
(***************************************************************************)
EXTENDS ReplScan, TLC, Json, IOUtils

Recs == ndJsonDeserialize(IOEnv.LINES)

VARIABLES rid,     \* which record
          ln,      \* number of lines read
          sc,      \* the scanner's static state
          cuts,    \* line numbers after which the loop took a step
          agree    \* every result so far equals the recorded one (TRUE when nothing is recorded)
lvars == <<rid, ln, sc, cuts, agree>>

R == Recs[rid]

HasReal == "real" \in DOMAIN R

ReadLine ==
  /\ ln < Len(R.lines)
  /\ LET r == IsContinued(sc, R.lines[ln + 1]) IN
       /\ sc' = r.s
       /\ cuts' = IF r.cont THEN cuts ELSE Append(cuts, ln + 1)
       /\ agree' = (agree /\ (HasReal => R.real[ln + 1] = r.cont))
  /\ ln' = ln + 1
  /\ UNCHANGED rid

LInit == rid \in 1..Len(Recs) /\ ln = 0 /\ sc = Sc0 /\ cuts = <<>> /\ agree = TRUE
LSpec == LInit /\ [][ReadLine]_lvars

(* the loop takes its steps exactly at the ends of the forms *)
FormsAreSteps == ln = Len(R.lines) => cuts = R.ends
(* stepwise: never a cut inside a form, never a form end without a cut *)
CutsSoFar == cuts = SelectSeq(R.ends, LAMBDA e : e <= ln)
(* between two forms the scanner is back in its initial state *)
CleanBetweenForms == (ln > 0 /\ cuts # <<>> /\ cuts[Len(cuts)] = ln) => (sc.braces = 0 /\ ~sc.instr)
BracesNat == sc.braces >= 0
(* implementation-shaped: the transcription and scan.c agree on every line (checked with a separate configuration) *)
AgreesWithCode == agree
=============================================================================
