\* Exhaustive configuration of the property-level storage model, quick tier (request sizes 1..2).
SPECIFICATION Spec
CONSTANTS
  Align = 2
  NRoots = 1
  PtrFreeCodes = {1}
  SlotBase = 0
  SlotBytes = 2
  MaxSlots = 1
  Heap = 6
  ReqSizes = {1, 2}
  Slack = 1
  Codes = {0, 1}
  Tags = {1, 2}
  MaxLive = 2
INVARIANTS TypeOK Disjoint AlignedAll SizeOk SlotsOk InHeap
PROPERTIES ContentPreserved OnlyGarbageCollected RemovalsExplained
VIEW View
