-------------------------------- MODULE Obs --------------------------------
(***************************************************************************)
(* The generic monitor for "the observation is a function of the input     *)
(* only" (DESIGN.md 3.11, Appendix A).  Used wherever a property is an     *)
(* equality between runs and no independent expected value exists: the     *)
(* same program under different optimisation settings or back ends (C02,   *)
(* C03), the same input compiled twice (C08), the same constant folded,    *)
(* unfolded and reloaded from an object file (C19).                        *)
(*                                                                         *)
(*   seen : Input -> Observation      what was observed first for an input *)
(*                                                                         *)
(* Observe(i, cfg, o) is enabled iff o agrees with what was seen for i;    *)
(* cfg (which configuration produced o) does not influence the outcome --  *)
(* that is the property -- and is carried only for reporting.  A trace     *)
(* specification either uses Observe as its action (a disagreeing event    *)
(* then blocks the trace: rejection) or uses Agrees/Record to flag the     *)
(* disagreement in a variable of its own.                                  *)
(*                                                                         *)
(* Inputs and observations are any TLC-comparable values of one kind each  *)
(* (strings, numbers, tuples of numbers such as a digest split into words  *)
(* below 2^31).  TraceObs.tla is the ready-made trace specification for    *)
(* events {"ev":"Observe","input":i,"cfg":c,"digest":[...]}.               *)
(***************************************************************************)
EXTENDS TLC

VARIABLE seen

ObsInit == seen = <<>>                      \* the function with empty domain

Known(i)      == i \in DOMAIN seen
Agrees(i, o)  == ~Known(i) \/ seen[i] = o
Record(i, o)  == seen' = IF Known(i) THEN seen ELSE seen @@ (i :> o)

Observe(i, cfg, o) == /\ Agrees(i, o)
                      /\ Record(i, o)

(* seen only ever grows, and never changes where it is defined *)
ObsStable == [][\A i \in DOMAIN seen : i \in DOMAIN seen' /\ seen'[i] = seen[i]]_seen

=============================================================================
