-------------------------- MODULE TraceBigIntImpl --------------------------
(***************************************************************************)
(* Drift measurement, never a verdict: the algorithm model BigIntImpl.tla  *)
(* (Knuth D as written in iintDivide) is instantiated at the radix of the  *)
(* BIGINT_DO_DEBUG build (2^7) and run on the very operands of the divide  *)
(* events recorded from that build.  Compared per event:                   *)
(*   - the quotient and remainder digit vectors the model computes with    *)
(*     the values the code produced,                                       *)
(*   - the model's path labels with the labels the code printed itself     *)
(*     (bintDEBUG lines: d = 1, uj0 == v1, rhat overflow, add back).       *)
(* The counts are printed; the check records them under `drift`.           *)
(***************************************************************************)
EXTENDS BigZ, Json, IOUtils, TLC

Trc == ndJsonDeserialize(IOEnv.TRACE)

VARIABLES l, same, diffRes, diffPath, firstDiff
vars == <<l, same, diffRes, diffPath, firstDiff>>

M == INSTANCE BigIntImpl WITH LGR <- 7, LGI <- 28, DA <- 1, DB <- 1, SIGNS <- "all", MUT <- "",
                              ph <- 0, a <- 0, b <- 0, op <- 0

(* little-endian radix-128 places of a magnitude, as xintStore leaves them (zero is one place 0) *)
Places(mag) == IF mag = <<>> THEN <<0>> ELSE Rev(MToDigits(mag, 128))
Common == {"d1", "ujeqv1", "rhatov", "addback"}

Step ==
  /\ l <= Len(Trc)
  /\ l' = l + 1
  /\ LET e == Trc[l]
         r == M!IDivide(Places(e.a.d), Places(e.b.d))
         okRes == MFromRadixPow2(r.q, 7) = e.q.d /\ MFromRadixPow2(r.r, 7) = e.r.d /\ r.ok
         got == {e.paths[i] : i \in 1..Len(e.paths)} \cap Common
         okPath == (r.p \cap Common) = got
     IN /\ same' = IF okRes /\ okPath THEN same + 1 ELSE same
        /\ diffRes' = IF okRes THEN diffRes ELSE diffRes + 1
        /\ diffPath' = IF okRes /\ ~okPath THEN diffPath + 1 ELSE diffPath
        /\ firstDiff' = IF firstDiff = 0 /\ ~(okRes /\ okPath) THEN e.ln ELSE firstDiff

Finish == /\ l = Len(Trc) + 1
          /\ PrintT(ToJson([n |-> Len(Trc), same |-> same, result_differs |-> diffRes, path_differs |-> diffPath, first |-> firstDiff]))
          /\ l' = l + 1 /\ UNCHANGED <<same, diffRes, diffPath, firstDiff>>

Init == l = 1 /\ same = 0 /\ diffRes = 0 /\ diffPath = 0 /\ firstDiff = 0
Next == Step \/ Finish
Spec == Init /\ [][Next]_vars
=============================================================================
