---- MODULE TraceLibFile_TTrace_1791099808 ----
EXTENDS Sequences, TLCExt, Toolbox, Naturals, TLC, TraceLibFile

_expression ==
    LET TraceLibFile_TEExpression == INSTANCE TraceLibFile_TEExpression
    IN TraceLibFile_TEExpression!expression
----

_trace ==
    LET TraceLibFile_TETrace == INSTANCE TraceLibFile_TETrace
    IN TraceLibFile_TETrace!trace
----

_inv ==
    ~(
        TLCGet("level") = Len(_TETrace)
        /\
        phase = ("writing")
        /\
        diag = (FALSE)
        /\
        want = ({})
        /\
        fin = (FALSE)
        /\
        l = (3)
        /\
        fill = (0)
        /\
        got = (<<>>)
        /\
        wtbl = ((0 :> [name |-> 4, off |-> 0, len |-> 0] @@ 1 :> [name |-> 4, off |-> 0, len |-> 0] @@ 2 :> [name |-> 4, off |-> 0, len |-> 0] @@ 3 :> [name |-> 4, off |-> 0, len |-> 0]))
        /\
        rhdr = ([ns |-> 0, tbl |-> (0 :> [name |-> 4, off |-> 0, len |-> 0] @@ 1 :> [name |-> 4, off |-> 0, len |-> 0] @@ 2 :> [name |-> 4, off |-> 0, len |-> 0] @@ 3 :> [name |-> 4, off |-> 0, len |-> 0]), magic |-> 0, vmaj |-> 0, vmin |-> 0, sum |-> 0, short |-> FALSE])
        /\
        taint = (FALSE)
        /\
        disk = (<<>>)
        /\
        orig = (<<>>)
        /\
        nrej = (1)
        /\
        wns = (0)
        /\
        outcome = ("")
        /\
        dmg = ([kind |-> "none", cls |-> "none", pos |-> 0])
    )
----

_init ==
    /\ phase = _TETrace[1].phase
    /\ dmg = _TETrace[1].dmg
    /\ outcome = _TETrace[1].outcome
    /\ l = _TETrace[1].l
    /\ taint = _TETrace[1].taint
    /\ disk = _TETrace[1].disk
    /\ fill = _TETrace[1].fill
    /\ wtbl = _TETrace[1].wtbl
    /\ rhdr = _TETrace[1].rhdr
    /\ nrej = _TETrace[1].nrej
    /\ fin = _TETrace[1].fin
    /\ got = _TETrace[1].got
    /\ orig = _TETrace[1].orig
    /\ wns = _TETrace[1].wns
    /\ want = _TETrace[1].want
    /\ diag = _TETrace[1].diag
----

_next ==
    /\ \E i,j \in DOMAIN _TETrace:
        /\ \/ /\ j = i + 1
              /\ i = TLCGet("level")
        /\ phase  = _TETrace[i].phase
        /\ phase' = _TETrace[j].phase
        /\ dmg  = _TETrace[i].dmg
        /\ dmg' = _TETrace[j].dmg
        /\ outcome  = _TETrace[i].outcome
        /\ outcome' = _TETrace[j].outcome
        /\ l  = _TETrace[i].l
        /\ l' = _TETrace[j].l
        /\ taint  = _TETrace[i].taint
        /\ taint' = _TETrace[j].taint
        /\ disk  = _TETrace[i].disk
        /\ disk' = _TETrace[j].disk
        /\ fill  = _TETrace[i].fill
        /\ fill' = _TETrace[j].fill
        /\ wtbl  = _TETrace[i].wtbl
        /\ wtbl' = _TETrace[j].wtbl
        /\ rhdr  = _TETrace[i].rhdr
        /\ rhdr' = _TETrace[j].rhdr
        /\ nrej  = _TETrace[i].nrej
        /\ nrej' = _TETrace[j].nrej
        /\ fin  = _TETrace[i].fin
        /\ fin' = _TETrace[j].fin
        /\ got  = _TETrace[i].got
        /\ got' = _TETrace[j].got
        /\ orig  = _TETrace[i].orig
        /\ orig' = _TETrace[j].orig
        /\ wns  = _TETrace[i].wns
        /\ wns' = _TETrace[j].wns
        /\ want  = _TETrace[i].want
        /\ want' = _TETrace[j].want
        /\ diag  = _TETrace[i].diag
        /\ diag' = _TETrace[j].diag

\* Uncomment the ASSUME below to write the states of the error trace
\* to the given file in Json format. Note that you can pass any tuple
\* to `JsonSerialize`. For example, a sub-sequence of _TETrace.
    \* ASSUME
    \*     LET J == INSTANCE Json
    \*         IN J!JsonSerialize("TraceLibFile_TTrace_1791099808.json", _TETrace)

=============================================================================

 Note that you can extract this module `TraceLibFile_TEExpression`
  to a dedicated file to reuse `expression` (the module in the 
  dedicated `TraceLibFile_TEExpression.tla` file takes precedence 
  over the module `TraceLibFile_TEExpression` below).

---- MODULE TraceLibFile_TEExpression ----
EXTENDS Sequences, TLCExt, Toolbox, Naturals, TLC, TraceLibFile

expression == 
    [
        \* To hide variables of the `TraceLibFile` spec from the error trace,
        \* remove the variables below.  The trace will be written in the order
        \* of the fields of this record.
        phase |-> phase
        ,dmg |-> dmg
        ,outcome |-> outcome
        ,l |-> l
        ,taint |-> taint
        ,disk |-> disk
        ,fill |-> fill
        ,wtbl |-> wtbl
        ,rhdr |-> rhdr
        ,nrej |-> nrej
        ,fin |-> fin
        ,got |-> got
        ,orig |-> orig
        ,wns |-> wns
        ,want |-> want
        ,diag |-> diag
        
        \* Put additional constant-, state-, and action-level expressions here:
        \* ,_stateNumber |-> _TEPosition
        \* ,_phaseUnchanged |-> phase = phase'
        
        \* Format the `phase` variable as Json value.
        \* ,_phaseJson |->
        \*     LET J == INSTANCE Json
        \*     IN J!ToJson(phase)
        
        \* Lastly, you may build expressions over arbitrary sets of states by
        \* leveraging the _TETrace operator.  For example, this is how to
        \* count the number of times a spec variable changed up to the current
        \* state in the trace.
        \* ,_phaseModCount |->
        \*     LET F[s \in DOMAIN _TETrace] ==
        \*         IF s = 1 THEN 0
        \*         ELSE IF _TETrace[s].phase # _TETrace[s-1].phase
        \*             THEN 1 + F[s-1] ELSE F[s-1]
        \*     IN F[_TEPosition - 1]
    ]

=============================================================================



Parsing and semantic processing can take forever if the trace below is long.
 In this case, it is advised to uncomment the module below to deserialize the
 trace from a generated binary file.

\*
\*---- MODULE TraceLibFile_TETrace ----
\*EXTENDS IOUtils, TLC, TraceLibFile
\*
\*trace == IODeserialize("TraceLibFile_TTrace_1791099808.bin", TRUE)
\*
\*=============================================================================
\*

---- MODULE TraceLibFile_TETrace ----
EXTENDS TLC, TraceLibFile

trace == 
    <<
    ([phase |-> "writing",diag |-> FALSE,want |-> {},fin |-> FALSE,l |-> 1,fill |-> 0,got |-> <<>>,wtbl |-> (0 :> [name |-> 4, off |-> 0, len |-> 0] @@ 1 :> [name |-> 4, off |-> 0, len |-> 0] @@ 2 :> [name |-> 4, off |-> 0, len |-> 0] @@ 3 :> [name |-> 4, off |-> 0, len |-> 0]),rhdr |-> [ns |-> 0, tbl |-> (0 :> [name |-> 4, off |-> 0, len |-> 0] @@ 1 :> [name |-> 4, off |-> 0, len |-> 0] @@ 2 :> [name |-> 4, off |-> 0, len |-> 0] @@ 3 :> [name |-> 4, off |-> 0, len |-> 0]), magic |-> 0, vmaj |-> 0, vmin |-> 0, sum |-> 0, short |-> FALSE],taint |-> FALSE,disk |-> <<>>,orig |-> <<>>,nrej |-> 0,wns |-> 0,outcome |-> "",dmg |-> [kind |-> "none", cls |-> "none", pos |-> 0]]),
    ([phase |-> "writing",diag |-> FALSE,want |-> {},fin |-> FALSE,l |-> 2,fill |-> 0,got |-> <<>>,wtbl |-> (0 :> [name |-> 4, off |-> 0, len |-> 0] @@ 1 :> [name |-> 4, off |-> 0, len |-> 0] @@ 2 :> [name |-> 4, off |-> 0, len |-> 0] @@ 3 :> [name |-> 4, off |-> 0, len |-> 0]),rhdr |-> [ns |-> 0, tbl |-> (0 :> [name |-> 4, off |-> 0, len |-> 0] @@ 1 :> [name |-> 4, off |-> 0, len |-> 0] @@ 2 :> [name |-> 4, off |-> 0, len |-> 0] @@ 3 :> [name |-> 4, off |-> 0, len |-> 0]), magic |-> 0, vmaj |-> 0, vmin |-> 0, sum |-> 0, short |-> FALSE],taint |-> FALSE,disk |-> <<>>,orig |-> <<>>,nrej |-> 0,wns |-> 0,outcome |-> "",dmg |-> [kind |-> "none", cls |-> "none", pos |-> 0]]),
    ([phase |-> "writing",diag |-> FALSE,want |-> {},fin |-> FALSE,l |-> 3,fill |-> 0,got |-> <<>>,wtbl |-> (0 :> [name |-> 4, off |-> 0, len |-> 0] @@ 1 :> [name |-> 4, off |-> 0, len |-> 0] @@ 2 :> [name |-> 4, off |-> 0, len |-> 0] @@ 3 :> [name |-> 4, off |-> 0, len |-> 0]),rhdr |-> [ns |-> 0, tbl |-> (0 :> [name |-> 4, off |-> 0, len |-> 0] @@ 1 :> [name |-> 4, off |-> 0, len |-> 0] @@ 2 :> [name |-> 4, off |-> 0, len |-> 0] @@ 3 :> [name |-> 4, off |-> 0, len |-> 0]), magic |-> 0, vmaj |-> 0, vmin |-> 0, sum |-> 0, short |-> FALSE],taint |-> FALSE,disk |-> <<>>,orig |-> <<>>,nrej |-> 1,wns |-> 0,outcome |-> "",dmg |-> [kind |-> "none", cls |-> "none", pos |-> 0]])
    >>
----


=============================================================================

---- CONFIG TraceLibFile_TTrace_1791099808 ----
CONSTANTS
    READER = "Required"
    SUM = TRUE
    PRINT = FALSE

INVARIANT
    _inv

CHECK_DEADLOCK
    \* CHECK_DEADLOCK off because of PROPERTY or INVARIANT above.
    FALSE

INIT
    _init

NEXT
    _next

CONSTANT
    _TETrace <- _trace

ALIAS
    _expression
=============================================================================
\* Generated on Sun Oct 04 07:43:29 UTC 2026