SPECIFICATION Spec
INVARIANT Functional
CHECK_DEADLOCK FALSE
