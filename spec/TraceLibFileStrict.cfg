SPECIFICATION TraceSpec
CONSTANTS
  READER = "Required"
  SUM = TRUE
  PRINT = FALSE
  VALS = {3}
INVARIANT NoReject
CHECK_DEADLOCK FALSE
