\* The reader C17 demands, on the format AS DESIGNED (no integrity cells): TLC exports the
\* (cell class, damage kind, outcome) triples; those outside {Same, Rejected} are what no
\* reader can refuse without a format change.
SPECIFICATION Spec
CONSTANTS
  READER = "Required"
  SUM = FALSE
  PRINT = TRUE
  VALS = {3}
INVARIANTS TypeOK SameIsSame IntactAccepted WriterContiguous
CHECK_DEADLOCK FALSE
