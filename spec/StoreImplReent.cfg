\* store.c with the collections that start in the middle of stoFree / stoAlloc (mxmemLink's page request): the order
\* the code uses (link, then flag).  One carrier per housekeeping page, so every new free size asks for a page.
\* Collections that would give back a section which is not one free linked piece (known finding) are cut off; see
\* StoreImplReentReturnProbe.cfg; the split point of pieceGetMixed is left to StoreImplReentSplitProbe.cfg.
SPECIFICATION Spec
CONSTANTS
  PgSize = 8
  HeadUnits = 2
  FixedSizes <- FS12
  MxHead = 1
  PgGroup = 2
  MixedPgGroup = 2
  MaxPages = 9
  ReqSizes = {3, 5, 12}
  Codes = {0}
  PtrFreeCodes = {1}
  Tags = {1}
  NRoots = 1
  MaxLive = 3
  MaxOps = 5
  GraphOps = TRUE
  Probe = "none"
  CarPerPage = 1
  Reentrant = TRUE
  FlagFirst = FALSE
  SplitPoint = FALSE
  CutAtRisk = TRUE
INVARIANTS AuditInv SweeperOk AbsInv ClientOk
PROPERTY Refines
VIEW View
CHECK_DEADLOCK FALSE
