SPECIFICATION Spec
CONSTANTS SIntW = 64
          WordW = 64
          Stride = 3
          Stride3 = 2
          Offset = 0
          OpFilter = {}
CHECK_DEADLOCK FALSE
