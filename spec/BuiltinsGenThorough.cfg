SPECIFICATION Spec
CONSTANTS SIntW = 64
          WordW = 64
          Stride = 5
          Stride3 = 2
          Offset = 0
          OpFilter = {}
CHECK_DEADLOCK FALSE
