SPECIFICATION Spec
CONSTANTS
  MaxParams = 3
  Types = {"FiWord", "FiSInt", "FiPtr", "FiBool", "FiChar", "FiByte", "FiHInt", "FiSFlo", "FiDFlo"}
INVARIANTS PrinterFaithful SameDialectAgrees MixedOnlyNarrow ListsShape
CHECK_DEADLOCK FALSE
