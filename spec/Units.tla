------------------------------- MODULE Units -------------------------------
(***************************************************************************)
(* Derivation paths of a compilation unit (property C05).                  *)
(*                                                                         *)
(* A unit can be kept in three saved forms                                 *)
(*     ao   machine-independent object (lib.c: symbol section + flat FOAM) *)
(*     fm   FOAM as text (foamWrSExpr / foamRdSExpr)                       *)
(*     al   archive of .ao members (ar format, archive.c)                  *)
(* and every saved form can be handed back to the compiler                 *)
(* (axlcomp.c:compSavedFile) to produce the generated texts c, lsp, fm, a  *)
(* saved form again, the interpretation of the unit (run) or the linked    *)
(* executable (exe).  The machine below has one action per such step:      *)
(*     Compile(src -> X, q)   Reload(ao|fm -> X)   Resave(fm -> fm)        *)
(*     Archive(ao -> al)      Extract(al -> ao)    Observe(final kind)     *)
(*     Split(src -> library unit + client unit)    LinkRun                 *)
(*                                                                         *)
(* An artefact is a record                                                 *)
(*   [kind, defs, level, name, wide, symes]                                *)
(* defs  = the abstract program identity: the set of top-level definitions *)
(*         the unit contains (0 = the file-level statements, 1..NFuns =    *)
(*         the definitions that may be moved into a library unit);         *)
(* level = the optimisation level the FOAM was produced at (optimisation   *)
(*         happens once, before the unit is saved; a reload does not       *)
(*         optimise again);                                                *)
(* name  = the input file name the generator records in its output;        *)
(* wide  = how machine integers wider than 31 bits are written: "lit" as a *)
(*         literal, "red" as the portable expression of foamSIntReduce     *)
(*         (the flat FOAM buffer of an .ao can only hold 32-bit words);    *)
(* symes = the symbol section is present (needed to import the unit).      *)
(* name and wide are the two differences the property permits; Norm drops  *)
(* exactly those.  Commute: an artefact of a kind and level reached by any *)
(* path has the same Norm as the one generated directly from the source;   *)
(* Resave is the identity on the whole record (byte identity).             *)
(* The predictions for name/wide/symes are implementation-shaped (drift    *)
(* information in the check, never a verdict).                             *)
(*                                                                         *)
(* TLC enumerates every path (chain of saved forms of length <= MaxLen x   *)
(* level x final kind) and every split (subset of the movable definitions  *)
(* x library form x levels of the two units x route) and prints them as    *)
(* JSON; gen/units.py performs each with the real compiler.                *)
(***************************************************************************)
EXTENDS Naturals, Sequences, FiniteSets, TLC, Json

CONSTANTS Levels,     \* e.g. {"Q0", "Q2", "Q9"}
          MaxLen,     \* longest chain of saved forms
          NFuns,      \* movable top-level definitions (split part)
          DoPaths, DoSplits   \* which half to enumerate (BOOLEAN)

Saved  == {"ao", "fm", "al"}
Texts  == {"c", "lsp", "fm"}
Runs   == {"run", "exe"}
Finals == Texts \cup Runs
All    == 0..NFuns
None   == [kind |-> "none"]

(* which step takes a saved form to which kind                              *)
StepName(from, to) ==
  CASE from = "src"                     -> "Compile"
    [] from = "fm" /\ to = "fm"         -> "Resave"
    [] from = "ao" /\ to = "al"         -> "Archive"
    [] from = "al" /\ to = "ao"         -> "Extract"
    [] OTHER                            -> "Reload"
(* ao -> ao is refused by the driver ("Output would clobber input file") and an archive is  *)
(* not an input of a compilation: its members are extracted or imported                     *)
Legal(from, to) ==
  \/ from = "src" /\ to \in {"ao", "fm"} \cup Finals
  \/ from = "ao"  /\ to \in {"fm", "al"} \cup Finals
  \/ from = "fm"  /\ to \in {"fm", "ao"} \cup Finals
  \/ from = "al"  /\ to = "ao"

Ext(kind) == IF kind = "src" THEN "as" ELSE kind

(* the content model of one step                                            *)
Source(q) == [kind |-> "src", defs |-> All, level |-> q, name |-> "as", wide |-> "lit", symes |-> TRUE]
Derive(a, to) ==
  CASE to = "ao" /\ a.kind = "al" -> [a EXCEPT !.kind = "ao"]                                  \* Extract: the member's bytes
    [] to = "al"                  -> [a EXCEPT !.kind = "al"]                                  \* Archive: the file's bytes
    [] to = "ao"                  -> [a EXCEPT !.kind = "ao", !.wide = "red", !.symes = (a.kind = "src"), !.name = Ext(a.kind)]
    [] to = "fm" /\ a.kind = "fm" -> a                                                         \* Resave
    [] to = "fm"                  -> [a EXCEPT !.kind = "fm", !.symes = FALSE, !.name = "none"] \* FOAM text records no file name
    [] OTHER                      -> [a EXCEPT !.kind = to, !.name = Ext(a.kind), !.symes = FALSE]

Norm(a) == [kind |-> a.kind, defs |-> a.defs, level |-> a.level]

VARIABLES level,    \* level of the compilation (fixed by the first step)
          chain,    \* the saved forms visited so far
          cur,      \* the current artefact
          steps,    \* the steps performed (exported)
          obs,      \* the final artefact, or None
          split     \* the split being built, or None
vars == <<level, chain, cur, steps, obs, split>>

Init == /\ level \in Levels /\ chain = <<>> /\ cur = Source(level) /\ steps = <<>> /\ obs = None /\ split = None

Step(to) == [act |-> StepName(cur.kind, to), from |-> cur.kind, to |-> to]

(* src -> saved, saved -> saved                                              *)
Save(to) ==
  /\ DoPaths /\ obs = None /\ split = None /\ to \in Saved /\ Legal(cur.kind, to) /\ Len(chain) < MaxLen
  /\ cur' = Derive(cur, to) /\ chain' = Append(chain, to) /\ steps' = Append(steps, Step(to))
  /\ UNCHANGED <<level, obs, split>>

PathRec == [level |-> level, chain |-> chain, final |-> obs.kind, steps |-> steps,
            name |-> obs.name, wide |-> obs.wide]

(* any form -> final kind; the path is complete and is exported              *)
Observe(to) ==
  /\ DoPaths /\ obs = None /\ split = None /\ to \in Finals /\ Legal(cur.kind, to)
  /\ ~(cur.kind = "fm" /\ to = "fm")            \* fm -> fm is the saved-form step Resave; observed through the next step
  /\ obs' = Derive(cur, to) /\ steps' = Append(steps, Step(to))
  /\ UNCHANGED <<level, chain, cur, split>>

ExportPath == /\ obs # None /\ split = None /\ PrintT("PATH " \o ToJson(PathRec)) /\ UNCHANGED vars

---------------------------------------------------------------------------
(* Separate compilation.  The library unit takes the definitions L (not the  *)
(* file-level statements), is compiled at its own level and kept as .ao or   *)
(* inside an archive; the client takes the rest and imports the library      *)
(* (which needs the symbol section); both are linked / loaded together.      *)

Lib(L, q, form) == LET ao == Derive([Source(q) EXCEPT !.defs = L], "ao")
                   IN IF form = "al" THEN Derive(ao, "al") ELSE ao
Client(L, q)    == [Source(q) EXCEPT !.defs = All \ L]

Split(L, ql, qc, form) ==
  /\ DoSplits /\ obs = None /\ split = None /\ chain = <<>>
  /\ L # {} /\ L \subseteq 1..NFuns /\ level = qc
  /\ split' = [lib |-> Lib(L, ql, form), client |-> Client(L, qc), linked |-> None, route |-> "none"]
  /\ UNCHANGED <<level, chain, cur, steps, obs>>

LinkRun(route) ==
  /\ split # None /\ split.linked = None /\ route \in Runs
  /\ split.lib.symes                                         \* an importable library
  /\ split' = [split EXCEPT !.route = route,
                            !.linked = [kind |-> route, defs |-> split.lib.defs \cup split.client.defs, level |-> "mixed"]]
  /\ UNCHANGED <<level, chain, cur, steps, obs>>

SetSeq(S) == LET RECURSIVE F(_)  F(T) == IF T = {} THEN <<>> ELSE LET x == CHOOSE y \in T : \A z \in T : y <= z IN <<x>> \o F(T \ {x})
             IN F(S)
SplitRec == [lib |-> SetSeq(split.lib.defs), form |-> split.lib.kind, qlib |-> split.lib.level,
             qclient |-> split.client.level, route |-> split.route]
ExportSplit == /\ split # None /\ split.linked # None /\ PrintT("SPLIT " \o ToJson(SplitRec)) /\ UNCHANGED vars

Next == \/ \E to \in Saved : Save(to)
        \/ \E to \in Finals : Observe(to)
        \/ \E L \in SUBSET (1..NFuns), ql \in Levels, form \in {"ao", "al"} : Split(L, ql, level, form)
        \/ \E r \in Runs : LinkRun(r)
        \/ ExportPath \/ ExportSplit

Spec == Init /\ [][Next]_vars

---------------------------------------------------------------------------
TypeOK == /\ level \in Levels /\ Len(chain) <= MaxLen /\ \A i \in 1..Len(chain) : chain[i] \in Saved
          /\ cur.kind \in Saved \cup {"src"} /\ (chain # <<>> => cur.kind = chain[Len(chain)])

(* what is generated from any saved form equals what is generated directly from the source,   *)
(* up to the recorded input file name and the spelling of wide machine integers               *)
Commute == obs # None => Norm(obs) = Norm(Derive(Source(level), obs.kind))

(* every saved form on every path still denotes the whole program at the level of the compilation *)
SavedDenotes == cur.defs = All /\ cur.level = level

(* re-saving FOAM text is the identity on the whole artefact (byte identity)                  *)
ResaveIdentity == [][(cur.kind = "fm" /\ cur'.kind = "fm" /\ Len(chain') = Len(chain) + 1) => cur' = cur]_vars

(* archive and extract move bytes                                                             *)
ArchiveIdentity == [][(Len(chain') = Len(chain) + 1 /\ {cur.kind, cur'.kind} = {"ao", "al"})
                        => [cur' EXCEPT !.kind = "x"] = [cur EXCEPT !.kind = "x"]]_vars

(* a saved form that came through FOAM text has lost its symbol section: it can be run and     *)
(* compiled on, but it cannot serve as a library                                               *)
SymesOnlyFromSource == cur.symes => \A i \in 1..Len(chain) : chain[i] # "fm"

(* the split program is the whole program                                                     *)
SplitWhole == (split # None /\ split.linked # None) => split.linked.defs = All
SplitDisjoint == split # None => split.lib.defs \cap split.client.defs = {} /\ 0 \in split.client.defs
=============================================================================
