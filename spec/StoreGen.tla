------------------------------ MODULE StoreGen ------------------------------
(***************************************************************************)
(* Behaviour export for replay (C10, technique B).  StoreAbs is run over   *)
(* *symbolic* addresses: the k-th block ever allocated lives at k*Stride,  *)
(* request sizes are abstract size classes 1..NSizes (the harness maps     *)
(* each class to concrete byte counts on the boundaries of the allocator's *)
(* size classes), a resize keeps the symbolic address, and a collection    *)
(* keeps exactly the reachable blocks (so a script never touches a block   *)
(* the real collector might have reclaimed).  Every history of exactly     *)
(* Depth operations is a distinct state (the history `h' is part of the    *)
(* state); terminal states print h as JSON.  All shorter histories are     *)
(* prefixes of the printed ones and are therefore executed as well.        *)
(*                                                                         *)
(* Operations in h:  <<"A", id, code, sizeclass>>  <<"F", id>>             *)
(*   <<"R", id, sizeclass>>  <<"K", id, code>>  <<"W", id, target, delta>> *)
(*   <<"S", root, target, delta>>  <<"C">>        target = 0 means Null,   *)
(*   delta = 0 start of the target block, 1 its last requested byte.       *)
(* No-op steps (same root value, same field value, recode to the same      *)
(* code) are left out.                                                     *)
(***************************************************************************)
EXTENDS StoreAbs, Json

CONSTANTS Depth, NSizes, GenCodes, MaxBlocks, MaxLiveGen, Stride, WithGraph

VARIABLES h, cnt

gvars == <<live, roots, last, h, cnt>>

Id(a) == a \div Stride
TargetsNow == {<<0, 0>>} \cup {<<Id(a), d>> : a \in Live, d \in {0, 1}}
TAddr(t) == IF t[1] = 0 THEN Null
            ELSE t[1] * Stride + (IF t[2] = 0 THEN 0 ELSE live[t[1] * Stride].req - 1)

GInit == Init /\ h = <<>> /\ cnt = 0

More == Len(h) < Depth

GAlloc == \E c \in GenCodes, n \in 1..NSizes :
             /\ More /\ cnt < MaxBlocks /\ Cardinality(Live) < MaxLiveGen
             /\ Alloc(c, n, (cnt + 1) * Stride, n, 1)
             /\ cnt' = cnt + 1
             /\ h' = Append(h, <<"A", cnt + 1, c, n>>)
GFree == \E a \in Live :
             /\ More /\ Free(a) /\ h' = Append(h, <<"F", Id(a)>>) /\ UNCHANGED cnt
GResize == \E a \in Live, n \in 1..NSizes :
             /\ More /\ Resize(a, n, a, n, live[a].code, TRUE)
             /\ h' = Append(h, <<"R", Id(a), n>>) /\ UNCHANGED cnt
GRecode == \E a \in Live, c \in GenCodes :
             /\ More /\ WithGraph /\ c # live[a].code /\ Recode(a, c, a)
             /\ h' = Append(h, <<"K", Id(a), c>>) /\ UNCHANGED cnt
GWrite == \E a \in Live, t \in TargetsNow :
             /\ More /\ WithGraph
             /\ Len(live[a].slots) >= 1
             /\ live[a].slots[1] # TAddr(t)
             /\ (t[2] = 1 => live[t[1] * Stride].req > 1)
             /\ Write(a, 1, TAddr(t))
             /\ h' = Append(h, <<"W", Id(a), t[1], t[2]>>) /\ UNCHANGED cnt
GSetRoot == \E k \in 1..NRoots, t \in TargetsNow :
             /\ More /\ WithGraph
             /\ roots[k] # TAddr(t)
             /\ (t[2] = 1 => live[t[1] * Stride].req > 1)
             /\ SetRoot(k, TAddr(t))
             /\ h' = Append(h, <<"S", k, t[1], t[2]>>) /\ UNCHANGED cnt
GCollect == /\ More /\ Live # {}
            /\ (Len(h) > 0 => h[Len(h)][1] # "C")
            /\ Collect(Reach)
            /\ h' = Append(h, <<"C">>) /\ UNCHANGED cnt
GEmit == /\ Len(h) = Depth
         /\ PrintT(ToJson(h))
         /\ UNCHANGED gvars

GNext == GAlloc \/ GFree \/ GResize \/ GRecode \/ GWrite \/ GSetRoot \/ GCollect \/ GEmit

GenSpec == GInit /\ [][GNext]_gvars

GenInv == Disjoint /\ AlignedAll /\ SizeOk /\ SlotsOk
=============================================================================
