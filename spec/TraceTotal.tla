----------------------------- MODULE TraceTotal -----------------------------
(***************************************************************************)
(* C07: trace validation of compiler runs on arbitrary source text.         *)
(*                                                                          *)
(* Every run is a run of TraceDriver (Reset, the H3 hook events, Observed)  *)
(* and must be a behaviour of Driver: it ends in Exit, HonestExit holds on  *)
(* the observed outcome (exit status 0 <=> no error line was printed), a    *)
(* requested output exists after exit 0 and no code output exists after an  *)
(* error.  Two things are added for C07; both are fields that the harness   *)
(* writes into the Observed event of the run:                               *)
(*                                                                          *)
(*   fault  what the harness saw of a fault: "" or one of                   *)
(*          "signal", "program-fault", "bug", "assert", "sanitizer",        *)
(*          "unexpected-signal", "out-of-memory".  The compiler catches     *)
(*          SIGSEGV/SIGABRT/... itself and turns them into an error message *)
(*          plus exit 1, which would look honest; no step of this module    *)
(*          matches an Observed event with a fault (nor one with a signal   *)
(*          or a time-out: Hang), so such a run is not a behaviour (Total). *)
(*   cert   the certificates of invalidity that TLC derived for the source  *)
(*          text of the run (SrcText!Cert, Mutants, Directives) -- a        *)
(*          sequence of names, empty when the specification does not        *)
(*          certify the text invalid.  InvalidDiagnosed: a run on a         *)
(*          certified-invalid text printed at least one error.              *)
(*                                                                          *)
(* Verdicts.  A batch holds tens of thousands of runs and -continue prints  *)
(* the whole behaviour up to every invariant violation, so the outcome of a *)
(* run is judged where it becomes known: the Observed step evaluates every  *)
(* invariant of Driver in its successor state and prints one JUDGED line    *)
(* (index of the event, names of the invariants that do not hold).  The     *)
(* invariants of the configuration cover all other states (Mid...).  A run  *)
(* no step matches is reported by STUCK as in TraceDriver.                  *)
(***************************************************************************)
EXTENDS TraceDriver

\* the state reached by the Observed step of a run whose text is certified invalid has printedError
InvalidDiagnosed(e) == Len(e.cert) > 0 => printedError

Failing(e) == (IF TypeOK THEN {} ELSE {"TypeOK"})
              \cup (IF HonestExit THEN {} ELSE {"HonestExit"})
              \cup (IF CompleteOnSuccess THEN {} ELSE {"CompleteOnSuccess"})
              \cup (IF NoOutputAfterError THEN {} ELSE {"NoOutputAfterError"})
              \cup (IF FailureSurfaces THEN {} ELSE {"FailureSurfaces"})
              \cup (IF NothingOpenAtSuccess THEN {} ELSE {"NothingOpenAtSuccess"})
              \cup (IF PendingIsReported THEN {} ELSE {"PendingIsReported"})
              \cup (IF InvalidDiagnosed(e) THEN {} ELSE {"InvalidDiagnosed"})

TrObservedT == /\ TrObserved
               /\ Ev.fault = ""
               /\ \E i \in {l} :        \* i is a value, so that the prime below does not reach into Trc[l]
                    LET bad == Failing(Trc[i])'
                    IN  bad # {} => PrintT(<<"JUDGED", i, bad>>)

TraceCoreT == \/ TrReset \/ TrFileStart \/ TrFileEnd \/ TrPhStart \/ TrPhEnd \/ TrMsg \/ TrOpen
              \/ TrClose \/ TrCleanup \/ TrLink \/ TrInterp \/ TrExit \/ TrObservedT

TrRejectedT ==
    /\ l <= Len(Trc) /\ Trc[l].ev # "End" /\ ~ENABLED TraceCoreT
    /\ PrintT(<<"STUCK", l>>)
    /\ l' = NextRun(l)
    /\ UNCHANGED << vars, blind >>

TraceNextT == TraceCoreT \/ TrRejectedT \/ TrEnd
TraceSpecT == TraceInit /\ [][TraceNextT]_tvars

\* every state that is not the successor of an Observed step (those are judged by JUDGED)
AtObserved == l > 1 /\ Trc[l - 1].ev = "Observed"
MidTypeOK             == AtObserved \/ TypeOK
MidHonestExit         == AtObserved \/ HonestExit
MidNoOutputAfterError == AtObserved \/ NoOutputAfterError
MidFailureSurfaces    == AtObserved \/ FailureSurfaces
MidNothingOpen        == AtObserved \/ NothingOpenAtSuccess
MidPendingIsReported  == AtObserved \/ PendingIsReported
MidCompleteOnSuccess  == AtObserved \/ CompleteOnSuccess
=============================================================================
