----------------------------- MODULE TraceTotal -----------------------------
(***************************************************************************)
(* C07: trace validation of compiler runs on arbitrary source text.         *)
(*                                                                          *)
(* Every run is a run of TraceDriver (Reset, the H3 hook events, Observed)  *)
(* and must be a behaviour of Driver: it ends in Exit, HonestExit holds on  *)
(* the observed outcome (exit status 0 <=> no error line was printed), a    *)
(* requested output exists after exit 0 and no code output exists after an  *)
(* error.  Two things are added for C07; both are fields that the harness   *)
(* writes into the Observed event of the run:                               *)
(*                                                                          *)
(*   fault  what the harness saw of a fault: "" or one of                   *)
(*          "signal", "program-fault", "bug", "assert", "sanitizer",        *)
(*          "unexpected-signal".  The compiler catches SIGSEGV/SIGABRT/...  *)
(*          itself and turns them into an error message plus exit 1, which  *)
(*          would look honest; no step of this module matches an Observed   *)
(*          event with a fault (nor one with a signal or a time-out: Hang), *)
(*          so such a run is not a behaviour (Total).                       *)
(*   cert   the certificates of invalidity that TLC derived for the source  *)
(*          text of the run (SrcText!Cert, Mutants!MCert, Directives!DCert) *)
(*          -- a sequence of names, empty when the specification does not   *)
(*          certify the text invalid.  InvalidDiagnosed: a run on a         *)
(*          certified-invalid text printed at least one error.              *)
(***************************************************************************)
EXTENDS TraceDriver

TrObservedT == /\ TrObserved
               /\ Ev.fault = ""

TraceCoreT == \/ TrReset \/ TrFileStart \/ TrFileEnd \/ TrPhStart \/ TrPhEnd \/ TrMsg \/ TrOpen
              \/ TrClose \/ TrCleanup \/ TrLink \/ TrInterp \/ TrExit \/ TrObservedT

TrRejectedT ==
    /\ l <= Len(Trc) /\ Trc[l].ev # "End" /\ ~ENABLED TraceCoreT
    /\ PrintT(<<"STUCK", l>>)
    /\ l' = NextRun(l)
    /\ UNCHANGED << vars, blind >>

TraceNextT == TraceCoreT \/ TrRejectedT \/ TrEnd
TraceSpecT == TraceInit /\ [][TraceNextT]_tvars

\* the state reached by the Observed step of a run whose text is certified invalid has printedError
JustObserved     == l > 1 /\ Trc[l - 1].ev = "Observed" /\ exit # NoExit
InvalidDiagnosed == (JustObserved /\ Len(Trc[l - 1].cert) > 0) => printedError
=============================================================================
