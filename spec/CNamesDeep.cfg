SPECIFICATION Spec
CONSTANTS
  Chars = {"a", "b", "!", "_", " "}
  MaxLen = 6
  IdLens = {0, 3, 4, 7, 8, 12}
  HMod = 3
  Indices = {0, 1, 9, 10, 11, 100}
  MaxIdxLen = 4
  MinIdLen = 7
INVARIANTS CollisionExact IndexedDistinct Sanity GlobalsDistinctUnlimited NameKeyedExact NameKeyedDistinctUnlimited
CHECK_DEADLOCK FALSE
