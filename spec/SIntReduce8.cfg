\* Eval(Reduce(c)) = c for W = 8, pieces of 3 bits, domain: all
SPECIFICATION Spec
CONSTANTS
  W = 8
  P = 3
  Domain = "all"
INVARIANTS InDomain Theorem Storage
CHECK_DEADLOCK FALSE
