---------------------------- MODULE TraceSrcPos ----------------------------
(***************************************************************************)
(* Conformance of the real compiler's diagnostics with SrcPos/Include at   *)
(* the REAL widths (CNO = 14, LNO = 48).                          (C15)    *)
(*                                                                         *)
(* IOEnv.TRACE names an ndjson file with one CASE per line:                *)
(*   id     case number                                                    *)
(*   top    name of the file given to the compiler                         *)
(*   files  name -> sequence of abstract items, every item has the fields  *)
(*          k    "lines" | "include" | "line" | "if" | "elseif" | "else" | *)
(*               "endif" | "assert" | "unknown"                            *)
(*          n    run length (lines) / line number (#line)                  *)
(*          toks planted tokens [j, c, id] (lines)                         *)
(*          f    file name (include, line; "" = none)                      *)
(*          on   property asserted (if / elseif)                           *)
(*          id   tag of a message planted on the directive line (0 = none) *)
(*   eofid  tag for "end of file in #if" errors (0 = none expected)        *)
(*   obs    the diagnostics the compiler printed: [mk, file, line, ln,     *)
(*          col, tx]: mk = tag of the planted fault whose marker occurs in *)
(*          the message (0 = none), file/line from `"file", line N:'       *)
(*          (-M no-source run), ln/col from `[Ln Cm]' (default run), tx =  *)
(*          index of severity+text in the family's text table             *)
(*   btx    tag -> tx of that fault's message in the family's base layout  *)
(*   bcol   tag -> column reported for it in the base layout               *)
(*   flen   name -> number of lines, for every file present on disk        *)
(*   order  the tags of obs in the order of generation (message serials)   *)
(*   reps   the REPORTS printed in the styles that show the source, each    *)
(*          [sort, preview, pre, groups]: sort = messages sorted (not       *)
(*          -Mno-sort), preview = -Mpreview, pre = the groups printed as    *)
(*          previews, groups = the final report.  A group is                *)
(*          [head, file, line, echo, src, align, carets, leads]: head = a   *)
(*          `"file", line N:' heading was printed, echo = index of the      *)
(*          source text shown (0 = nothing visible), src = index of the     *)
(*          text line N of that file really has on disk (0 = no such line   *)
(*          or an empty one),                                               *)
(*          align = the caret line starts under the echoed text, carets =   *)
(*          columns of the `^' marks relative to the echoed text, leads =   *)
(*          [mk, ln, col] of the `[Ln Cm]' leads under the heading.         *)
(*                                                                         *)
(* For every case the Include machine is run over the files (one step per  *)
(* item), which yields the table and the remembered planted positions.     *)
(* Then TLC decides:  Expect(w) = Decode(T, Pack(Packer, w.g, w.c)) under  *)
(* the configuration's Packer/Policy/EofPolicy, and the case MATCHES iff   *)
(* the printed diagnostics are exactly the planted ones at the expected    *)
(* file/line/column with the base layout's texts.  The check runs this     *)
(* module twice: with the required design (a mismatch is a violation of    *)
(* C15; PosFaithful is an invariant there, so the required design is also  *)
(* checked against the includer's bookkeeping at the real widths on every  *)
(* case) and with the code as written (a violation that matches it exactly *)
(* is the documented defect, anything else is new).                        *)
(***************************************************************************)
EXTENDS Report, Json, IOUtils

Trc == ndJsonDeserialize(IOEnv.TRACE)

VARIABLES l,      \* current case
          ix      \* per include-stack frame: index of the next item

tvars == << ivars, items, l, ix >>

Case      == Trc[l]
ItemsOf(f) == Case.files[f]
CurIx     == ix[Len(ix)]
AtEnd     == CurIx > Len(ItemsOf(Top.file))
Item      == ItemsOf(Top.file)[CurIx]
Advance   == [ix EXCEPT ![Len(ix)] = CurIx + 1]

TInit ==
  /\ l = 1
  /\ ix = << 1 >>
  /\ items = 0
  /\ InitFor(Trc[1].top)

ReadItem ==
  /\ l <= Len(Trc) /\ ~done
  /\ IF AtEnd
     THEN /\ DoEOF(Case.eofid)
          /\ ix' = IF Len(ix) > 1 THEN SubSeq(ix, 1, Len(ix) - 1) ELSE ix
     ELSE LET it == Item IN
          /\ CASE it.k = "lines"   -> DoLines(it.n, it.toks)
               [] it.k = "include" -> DoInclude(it.f, it.id)
               [] it.k = "line"    -> DoLineDir(it.n, it.f)
               [] it.k = "if"      -> DoIf(it.on, it.id)
               [] it.k = "elseif"  -> DoElseif(it.on, it.id)
               [] it.k = "else"    -> DoElse(it.id)
               [] it.k = "endif"   -> DoEndif(it.id)
               [] it.k = "assert"  -> DoAssert(it.id)
               [] it.k = "unknown" -> DoUnknown(it.id)
          /\ ix' = IF Len(stack') > Len(stack) THEN Append(Advance, 1) ELSE Advance
  /\ UNCHANGED << l, items >>

----------------------------------------------------------------------------
Planted == SelectSeq(wits, LAMBDA w : w.id > 0)
Obs     == Case.obs
ObsIx   == 1..Len(Obs)

Expect(w) == Decode(T, Pack(Packer, w.g, w.c))

\* observation o is the message of planted position w at the expected place
Agrees(o, w) ==
  LET e == Expect(w) IN
  /\ o.mk = w.id
  /\ o.tx = Case.btx[w.id]
  /\ IF e.special THEN o.file = "" /\ o.line = -1 /\ o.ln = -1
     ELSE /\ o.file = e.file /\ o.line = e.line /\ o.ln = e.line
          /\ IF w.c <= MaxCol THEN o.col = e.col
             ELSE IF Packer = "required"
                  THEN o.col = Case.bcol[w.id]     \* any function of the column alone: unchanged
                  ELSE o.col = e.col

Matches ==
  /\ Len(Obs) = Len(Planted)
  /\ \A i \in 1..Len(Planted) : \E j \in ObsIx : Agrees(Obs[j], Planted[i])
  /\ \A j \in ObsIx : \E i \in 1..Len(Planted) : Obs[j].mk = Planted[i].id
  /\ \A i, j \in 1..Len(Planted) : i # j => Planted[i].id # Planted[j].id

----------------------------------------------------------------------------
(* The report (spec/Report.tla) the configuration's design prints for the   *)
(* planted messages in the observed order of generation.                    *)
FLenT(f)    == IF f \in DOMAIN Case.flen THEN Case.flen[f] ELSE 0
WitOf(id)   == LET s == SelectSeq(Planted, LAMBDA w : w.id = id) IN s[1]
Msgs        == [i \in 1..Len(Case.order) |->
                  LET w == WitOf(Case.order[i]) IN
                  [p |-> Pack(Packer, w.g, w.c), tx |-> Case.btx[w.id], id |-> w.id, c |-> w.c]]
Intended    == [i \in 1..Len(Case.order) |->
                  LET w == WitOf(Case.order[i]) IN
                  [g |-> w.g, rf |-> w.rf, rl |-> w.rl, c |-> w.c, tx |-> Case.btx[w.id], id |-> w.id]]
\* the column shown for a message (cf. Agrees)
ColT(m) == IF m.c <= MaxCol \/ Packer # "required" THEN SposChar(m.p) ELSE Case.bcol[m.id]

GroupAgrees(o, e) ==
  /\ o.head = e.head /\ o.file = e.file /\ o.line = e.line
  /\ e.echo # 0 => e.echo = o.line                      \* the design shows the line the heading names, or none
  /\ o.echo = (IF e.echo # 0 THEN o.src ELSE 0)         \* what is shown is the text of THAT line of THAT file
  /\ o.align
  /\ Len(o.carets) = Len(e.carets) /\ \A j \in 1..Len(e.carets) : o.carets[j] = e.carets[j]
  /\ Len(o.leads) = Len(e.leads)
  /\ \A j \in 1..Len(e.leads) :
        o.leads[j].mk = e.leads[j].id /\ o.leads[j].ln = e.leads[j].ln /\ o.leads[j].col = e.leads[j].col

GroupsAgree(os, es) == Len(os) = Len(es) /\ \A i \in 1..Len(es) : GroupAgrees(os[i], es[i])

\* one run of the compiler: the previews (if any), then the report, with one line cache
RepExpected(r) ==
  LET pv == IF r.preview THEN Preview(T, Msgs, FLenT, ColT, CacheInit) ELSE [cs |-> CacheInit, out |-> << >>] IN
  [pre |-> pv.out, groups |-> Report(T, Msgs, r.sort, FLenT, ColT, pv.cs).out]

RepAgrees(r) ==
  LET e == RepExpected(r) IN GroupsAgree(r.pre, e.pre) /\ GroupsAgree(r.groups, e.groups)

\* evaluated only when the messages themselves are the planted ones (Matches)
RepMatches == Matches => \A k \in 1..Len(Case.reps) : RepAgrees(Case.reps[k])

\* the design's report is the required one (ReportFaithful on this case)
RepFaithful ==
  Matches => \A sort \in BOOLEAN :
     Report(T, Msgs, sort, FLenT, LAMBDA m : SposChar(m.p), CacheInit).out =
        ReqReport(Intended, sort, FLenT, LAMBDA w : ColFun(Packer, w.c))

\* groups of the design's reports (in the styles of the case) that name no file although their position is an
\* ordinary one
Headless(gs) == Cardinality({i \in 1..Len(gs) : ~gs[i].head /\ gs[i].leads[1].ln # -1})
NoHead == IF Matches
          THEN FoldLeft(LAMBDA n, r : LET e == RepExpected(r) IN n + Headless(e.pre) + Headless(e.groups), 0, Case.reps)
          ELSE 0

\* planted positions the configuration's own design does not report faithfully
Unfaithful == SelectSeq(Planted, LAMBDA w : ~(Representable(w) /\ Faithful(T, At(w, w.c), Packer)))

Verdict ==
  [id      |-> Case.id,
   match   |-> Matches,
   rmatch  |-> RepMatches,
   rfaith  |-> RepFaithful,
   nohead  |-> NoHead,
   report  |-> IF Matches THEN Report(T, Msgs, TRUE, FLenT, ColT, CacheInit).out ELSE << >>,
   nplanted |-> Len(Planted),
   nobs    |-> Len(Obs),
   expect  |-> [i \in 1..Len(Planted) |->
                  LET e == Expect(Planted[i]) IN
                  [id |-> Planted[i].id, file |-> e.file, line |-> e.line, col |-> e.col,
                   c |-> Planted[i].c, rf |-> Planted[i].rf, rl |-> Planted[i].rl]],
   unfaithful_ovf   |-> Len(SelectSeq(Unfaithful, LAMBDA w : w.c > MaxCol)),
   unfaithful_other |-> Len(SelectSeq(Unfaithful, LAMBDA w : w.c <= MaxCol)),
   segments |-> Len(T.t)]

Finish ==
  /\ l <= Len(Trc) /\ done
  /\ PrintT("VERDICT " \o ToJson(Verdict))
  /\ l' = l + 1
  /\ ix' = << 1 >>
  /\ items' = items + 1
  /\ IF l < Len(Trc) THEN ResetFor(Trc[l + 1].top)
     ELSE UNCHANGED ivars

TNext == ReadItem \/ Finish

TSpec == TInit /\ [][TNext]_tvars

\* violated exactly when every case has been evaluated
NotDone == l <= Len(Trc)
=============================================================================
