---------------------------- MODULE CNamesSearch ----------------------------
(***************************************************************************)
(* The collision condition of CNames (same kind, same hash digits, same    *)
(* truncated image) evaluated with the REAL hash (StrHash = strops.c:       *)
(* strHash): TLC enumerates the names Prefix \o v \o Suffix for every       *)
(* v in [1..VarLen -> VarChars] and exports the pairs that the C generator  *)
(* maps to one global identifier under the limit IdLen.  The check renames  *)
(* two functions of a generated program to such a pair and shows the        *)
(* collision in the emitted C (known finding C16 global-hash-collision).    *)
(* Prefix/Suffix come from the environment (the unit prefix and the type    *)
(* hash the compiler appends to an exported function's global name).        *)
(***************************************************************************)
EXTENDS CNames, IOUtils


Input == ndJsonDeserialize(IOEnv.C16_SEARCH)[1]       \* one record: prefix, suffix, alphabet (char arrays), varlen, idlen, want
Prefix == Input.prefix
Suffix == Input.suffix
VarChars == Input.alphabet
VarLen == Input.varlen
SIdLen == Input.idlen
Want == Input.want

H0 == StrHash(Prefix)
HashOfVar(v) == FoldLeft(LAMBDA h, c : HashStep(h, CodeOf[c]), FoldLeft(LAMBDA h, c : HashStep(h, CodeOf[c]), H0, v), Suffix) % VarHash
Variants == [1..VarLen -> {VarChars[i] : i \in 1..Len(VarChars)}]
Keyed == {<<HashOfVar(v), v>> : v \in Variants}
Sorted == SetToSortSeq(Keyed, LAMBDA a, b : a[1] < b[1])
(* adjacent entries with one hash value; keep those whose identifiers are really equal *)
SameId(v1, v2) == MangleH(<<"G">>, 0, Prefix \o v1 \o Suffix, SIdLen, TRUE, StrHash(Prefix \o v1 \o Suffix))
                  = MangleH(<<"G">>, 0, Prefix \o v2 \o Suffix, SIdLen, TRUE, StrHash(Prefix \o v2 \o Suffix))
Pairs == FoldLeft(LAMBDA acc, i : IF Len(acc) < Want /\ Sorted[i][1] = Sorted[i + 1][1] /\ SameId(Sorted[i][2], Sorted[i + 1][2])
                                  THEN Append(acc, [a |-> Str(Prefix \o Sorted[i][2] \o Suffix), b |-> Str(Prefix \o Sorted[i + 1][2] \o Suffix),
                                                   va |-> Str(Sorted[i][2]), vb |-> Str(Sorted[i + 1][2]),
                                                   id |-> Str(MangleH(<<"G">>, 0, Prefix \o Sorted[i][2] \o Suffix, SIdLen, TRUE,
                                                                      StrHash(Prefix \o Sorted[i][2] \o Suffix)))])
                                  ELSE acc,
                  <<>>, [i \in 1..(Len(Sorted) - 1) |-> i])

SearchInit == idlen = SIdLen /\ idhash = TRUE /\ group = "search" /\ verdict = <<"todo">>
SearchNext == /\ group = "search"
              /\ group' = "found"
              /\ verdict' = Pairs
              /\ PrintT("COLLIDE " \o ToJson([pairs |-> verdict', variants |-> Cardinality(Variants), idlen |-> SIdLen]))
              /\ UNCHANGED <<idlen, idhash>>
SearchSpec == SearchInit /\ [][SearchNext]_vars
(* every exported pair satisfies the collision condition derived in CNames *)
PairsCollide == (group = "found") => \A i \in 1..Len(verdict) : verdict[i].a # verdict[i].b
=============================================================================
