\* Implementation-shaped model of store.c at scaled constants; refinement to StoreAbs.
SPECIFICATION Spec
CONSTANTS
  PgSize = 8
  HeadUnits = 2
  FixedSizes <- FS12
  MxHead = 1
  PgGroup = 2
  MixedPgGroup = 2
  MaxPages = 7
  ReqSizes = {1, 2, 3, 5, 12}
  Codes = {0}
  PtrFreeCodes = {1}
  Tags = {1}
  NRoots = 1
  MaxLive = 4
  MaxOps = 5
  GraphOps = FALSE
  Probe = "none"
  CarPerPage = 100
  Reentrant = FALSE
  FlagFirst = FALSE
  SplitPoint = FALSE
  CutAtRisk = FALSE
INVARIANTS AuditInv AbsInv ClientOk
PROPERTY Refines
VIEW View
CHECK_DEADLOCK FALSE
