SPECIFICATION Spec
CONSTANTS
  READER = "Required"
  SUM = FALSE
  PRINT = TRUE
INVARIANTS TypeOK SameIsSame IntactAccepted
CHECK_DEADLOCK FALSE
