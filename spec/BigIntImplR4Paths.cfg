CONSTANTS LGR = 2  LGI = 4  DA = 4  DB = 3  SIGNS = "all"  MUT = ""
INIT PInit
NEXT PNext
VIEW PView
CHECK_DEADLOCK FALSE
