SPECIFICATION TraceSpec
CONSTANTS
  Chars = {"a"}
  MaxLen = 1
  IdLens = {0}
  HMod = 3
  Indices = {0}
  MaxIdxLen = 1
  MinIdLen = 7
POSTCONDITION TraceAccepted
CHECK_DEADLOCK FALSE
