\* non-vacuity: TLC must refute NeverFailsAfterFault (a run with an injected fault that ends in a non-zero exit exists)
SPECIFICATION Spec
CONSTANTS
  MaxFiles = 1
  MaxFaults = 1
  MaxErrs = 1
  Strict = TRUE
  MultiPart = FALSE
  PostUsed = {}
  ChecksIo = TRUE
  MaxKinds = 1
  CleanupKept = FALSE
  PhasesUsed = {"load", "include", "scan", "syscmd", "linear", "parse", "abnorm", "macex", "abcheck", "scobind", "tinfer", "genfoam", "optfoam", "putao", "putlisp", "putjava", "putc", "putobject"}
  KindsUsed = {"ai", "ap", "asy", "ao", "fm", "lsp", "c", "java", "main"}
INVARIANTS NeverFailsAfterFault
CHECK_DEADLOCK TRUE
