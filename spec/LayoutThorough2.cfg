\* C14 thorough, part 2: all block trees with <= 4 statements, nesting <= 4, over a reduced set of 10 shapes that keeps
\* every class the 2-D rules distinguish (then/else/add bracket a single line, == does not, where follows a block,
\* the three-hole if chain); 8 styles per tree.
SPECIFICATION Spec
CONSTANTS
  MaxN = 4
  MaxDepth = 4
  TreeSource = "enum"
  StyleSet = "latin"
  Seed = 0
  ScanChars = TRUE
  Export = TRUE
  Use0 = {"L3", "L5", "L6"}
  Use1 = {"D1", "I1", "A1", "Q1"}
  Use2 = {"I2", "Q2"}
  Use3 = {"I3"}
INVARIANTS LeadOK StageOK
CHECK_DEADLOCK FALSE
