------------------------------- MODULE Layout --------------------------------
(***************************************************************************)
(* C14 "Parsing does not depend on layout".                                 *)
(*                                                                          *)
(* An abstract program is a block tree: a block is a non-empty sequence of  *)
(* statements, a statement is an instance of a shape (a sequence of token   *)
(* runs and holes) whose holes are filled with blocks.  Render(tree, style) *)
(* lays the tree out as source lines according to the layout rules of the   *)
(* Aldor User Guide (langsyn.tex "Piles", formal.tex "Layout"):             *)
(*   - blank lines, comment lines and trailing `--` comments are ignored;   *)
(*   - white space between tokens is ignored, an escaped line break is      *)
(*     white space;                                                         *)
(*   - inside `#pile`: lines indented the same amount form a pile, the pile *)
(*     is bracketed if it has more than one line or follows then/else/with/ *)
(*     add, a more indented line continues the previous one, no separator   *)
(*     after `,` or an opener nor before then/else or a closer;             *)
(*   - inside { } layout is not significant at all.                         *)
(* Only these rules are used by Render, so every rendering of one tree is   *)
(* by the language definition the same program.                             *)
(*                                                                          *)
(* The machine takes one (tree, style) through the compiler front end: the  *)
(* characters through include.c/scan.c/syscmd.c (module Scan), the tokens   *)
(* through linear.c (module Linear), one action per function.  Property     *)
(* LayoutIndependent: the scanner delivers the tokens of the program, and   *)
(* the token stream that leaves the lineariser is, after reading            *)
(* SetTab/BackSet/BackTab as { ; }, the canonical stream of the tree -- for *)
(* every tree within the bound and every style.                             *)
(* The terminal action exports the rendering (the exact characters of every *)
(* line) together with the predicted stage streams; the check replays them  *)
(* through `aldor -Fap` and `aldor -WD+lin`.                                *)
(***************************************************************************)
EXTENDS Scan, Linear, LayoutVocab, Json

CONSTANTS MaxN,        \* trees with at most MaxN statements in total ...
          MaxDepth,    \* ... and block nesting at most MaxDepth
          Use0, Use1, Use2, Use3,   \* the shapes (by number of holes) the enumeration uses
          TreeSource,  \* "enum": all trees within the bound; "enum+extra": and LayoutVocab!ExtraTrees;
                       \* "progs": LayoutVocab!ProgTrees (real programs, see gen/layout_progs.py)
          StyleSet,    \* name of the style family, see Styles
          Seed,        \* spreads the derived style dimensions
          ScanChars,   \* TRUE: tokens come from the character-level scanner (Scan.tla)
          Export       \* TRUE: print one RENDER line per terminal state

---------------------------------------------------------------------------
(* Vocabulary: LayoutVocab (generated from gen/layout.py) has the statement *)
(* shapes, made of real Aldor tokens.  KindOf is what the language          *)
(* definition makes of a spelling; with ScanChars the character-level model *)
(* of scan.c decides instead and the two are compared (ScanReport).         *)
LayoutKW == {NL, PILE, ENDPILE, SETTAB, BACKSET, BACKTAB}
KindOf(s) == IF s \in AlphaKW \cup SymKW \cup LayoutKW THEN "kw"
             ELSE IF s \in Comments THEN "com"
             ELSE IF s \in IntLits THEN "int"
             ELSE IF s \in StrLits THEN "str"
             ELSE IF s \in FloatLits THEN "float"
             ELSE "id"
TokOf(s, c) == [k |-> KindOf(s), t |-> s, c |-> c]

---------------------------------------------------------------------------
(* All block trees with exactly n statements and nesting <= d.              *)
RECURSIVE BlocksN(_, _), StmtsN(_, _)
StmtsN(m, d) ==
  (IF m = 1 THEN {[sh |-> s, bl |-> <<>>] : s \in Use0} ELSE {})
  \cup (IF d > 0 /\ m >= 2
        THEN {[sh |-> s, bl |-> <<b>>] : s \in Use1, b \in BlocksN(m - 1, d - 1)} ELSE {})
  \cup (IF d > 0 /\ m >= 3
        THEN UNION {{[sh |-> s, bl |-> <<b1, b2>>] :
                       s \in Use2, b1 \in BlocksN(m1, d - 1), b2 \in BlocksN(m - 1 - m1, d - 1)}
                    : m1 \in 1..(m - 2)} ELSE {})
  \cup (IF d > 0 /\ m >= 4
        THEN UNION {{[sh |-> s, bl |-> <<b1, b2, b3>>] :
                       s \in Use3, b1 \in BlocksN(mm[1], d - 1), b2 \in BlocksN(mm[2], d - 1),
                       b3 \in BlocksN(m - 1 - mm[1] - mm[2], d - 1)}
                    : mm \in {x \in (1..(m - 3)) \X (1..(m - 3)) : x[1] + x[2] <= m - 2}} ELSE {})
BlocksN(n, d) ==
  IF n = 0 THEN {<<>>}
  ELSE UNION {{<<s>> \o r : s \in StmtsN(m, d), r \in BlocksN(n - m, d)} : m \in 1..n}

(* "enum": every tree within the bound, plus the hand-picked larger trees of *)
(* LayoutVocab!ExtraTrees (multi-statement blocks before `else`/`where`,     *)
(* the three-hole if chain, domain-like nests) that the bound leaves out.    *)
Trees == IF TreeSource = "progs" THEN {ProgTrees[i] : i \in 1..Len(ProgTrees)}
         ELSE UNION {BlocksN(n, MaxDepth - 1) : n \in 1..MaxN}
              \cup (IF TreeSource = "enum+extra" THEN {ExtraTrees[i] : i \in 1..Len(ExtraTrees)} ELSE {})

(* a small number that differs between most trees: spreads secondary style  *)
(* dimensions over the trees                                                 *)
RECURSIVE TreeHash(_)
TreeHash(b) == FoldLeft(LAMBDA acc, s :
                          (acc * 7 + ShapeNo[s.sh] + 3 * FoldLeft(LAMBDA a2, bb : a2 + TreeHash(bb), 0, s.bl)) % 1009,
                        Len(b), b)

---------------------------------------------------------------------------
(* Styles                                                                   *)
(*  mode   braced: no #pile, every bracketed block in { } with `;`;         *)
(*         piled: #pile, every block a pile; mixedK: #pile, piles down to   *)
(*         nesting K, { } below                                             *)
(*  cont   how long token runs are continued: not / deeper and deeper lines *)
(*         / after each comma at one indentation / escaped line breaks      *)
(*  w      indentation width 1..8                                           *)
(*  noise  blank, white-space-only and comment lines, trailing comments     *)
(*  fbreak `else ...` of a one-line if on its own line at the same column   *)
(*  tsemi  `;` also after the last statement of a { } block                 *)
(*  allman `{` on its own line (braced mode only)                           *)
(*  endpile closing #endpile present                                        *)
(*  tabs   leading white space: spaces / tabs / blanks then tabs / per line *)
(*  spacing between tokens: minimal / one blank / wider and tabs            *)
(*  escv   which variant the escaped line breaks start with (EscVariants)    *)
Modes  == {"braced", "piled", "mixed1", "mixed2"}
Conts  == {"none", "stair", "hang", "esc"}
Noises == {"none", "blank", "ws", "com0", "comD", "trail", "mix"}

HasPile(mode) == mode # "braced"
PiledDepth(mode) == CASE mode = "braced" -> 0 [] mode = "piled" -> 99 [] mode = "mixed1" -> 1 [] mode = "mixed2" -> 2

ModeSeq  == <<"braced", "piled", "mixed1", "mixed2">>
ContSeq  == <<"none", "stair", "hang", "esc">>
NoiseSeq == <<"none", "blank", "com0", "trail", "comD", "ws", "mix">>
TabSeq   == <<"spaces", "tabs", "mixed", "alt">>
SpaceSeq == <<"one", "min", "wide">>

(* the secondary dimensions as a function of a number *)
Derived(mode, cont, h0) ==
  LET h == h0 + Seed IN
  [mode |-> mode, cont |-> cont,
   w       |-> 1 + (h % 8),
   noise   |-> NoiseSeq[1 + ((h \div 8) % 7)],
   fbreak  |-> (h \div 3) % 2 = 0,
   tsemi   |-> (h \div 5) % 2 = 0,
   allman  |-> mode = "braced" /\ (h \div 7) % 2 = 0,
   endpile |-> (h \div 2) % 2 = 0,
   tabs    |-> TabSeq[1 + (h % 4)],
   spacing |-> SpaceSeq[1 + ((h \div 4) % 3)],
   escv    |-> (h \div 6) % 4]

ModeNo == [braced |-> 0, piled |-> 1, mixed1 |-> 2, mixed2 |-> 3]
ContNo == [none |-> 0, stair |-> 1, hang |-> 2, esc |-> 3]

Styles(tree) ==
  LET h == TreeHash(tree) IN
  CASE StyleSet = "base" ->      \* every mode x every continuation, the rest spread over the trees
         {Derived(m, c, h + 11 * ModeNo[m] + 5 * ContNo[c]) : m \in Modes, c \in Conts}
    [] StyleSet = "latin" ->     \* 8 of the 16: every mode twice, every continuation twice, rotated by the tree
         {Derived(ModeSeq[1 + i], ContSeq[1 + ((i + h + 2 * j) % 4)], h + 11 * i + 5 * j) : i \in 0..3, j \in 0..1}
    [] StyleSet = "two" ->
         {Derived("braced", "none", h), Derived("piled", "none", h + 1)}
    [] StyleSet = "random" ->    \* 20 styles drawn by the seed, always at least one braced and one piled
         {Derived(ModeSeq[1 + (i % 4)], ContSeq[1 + ((i \div 4 + h + Seed) % 4)], h + 37 * i) : i \in 0..19}
    [] StyleSet = "full" ->      \* the whole cross product of the pile-relevant dimensions
         {[mode |-> m, cont |-> c, w |-> w, noise |-> n, fbreak |-> fb, tsemi |-> fb,
           allman |-> (m = "braced" /\ ~fb), endpile |-> fb,
           tabs |-> TabSeq[1 + (w % 4)], spacing |-> SpaceSeq[1 + (w % 3)], escv |-> w % 4] :
          m \in Modes, c \in Conts, w \in 1..8, n \in Noises, fb \in BOOLEAN}

---------------------------------------------------------------------------
(* Rendering: tree -> physical lines [ind, toks, esc, kind]                 *)
CodeLine(ind, toks) == [ind |-> ind, toks |-> toks, esc |-> FALSE, kind |-> "code", etail |-> <<>>]
AppendToLast(lines, toks) == [lines EXCEPT ![Len(lines)].toks = @ \o toks]
SetEscLast(lines) == [lines EXCEPT ![Len(lines)].esc = TRUE]

(* Cut a token run into the pieces that go on separate lines.               *)
Chunks(run, cont) ==
  IF cont = "none" THEN <<run>>
  ELSE FoldLeft(LAMBDA acc, i :
                  LET cur == acc[Len(acc)]
                      cut == IF cont = "hang" THEN Len(cur) >= 1 /\ cur[Len(cur)] = ","
                             ELSE Len(cur) >= 3 /\ cur[Len(cur)] \notin PileKW
                  IN IF cut THEN Append(acc, <<run[i]>>)
                     ELSE [acc EXCEPT ![Len(acc)] = Append(cur, run[i])],
                <<<<run[1]>>>>, Ix(2, Len(run)))

(* Indentation of the next continuation line of a statement whose first    *)
(* line is lines[from] and whose nested blocks are indented to D.           *)
(*  stair: deeper than every line of the statement so far (and than D);     *)
(*  hang : all at D + 1 -- legal because every such break follows a `,`;    *)
(*  esc  : anything, the line break is escaped -- every other one exactly   *)
(*         the column of the statement's first line (a pile sibling, were   *)
(*         the line break real).                                            *)
MaxInd(lines, from, D) ==
  FoldLeft(LAMBDA m, i : IF lines[i].ind > m THEN lines[i].ind ELSE m, D, Ix(from, Len(lines)))
ContIndent(cont, lines, from, D, j) ==
  CASE cont = "stair" -> MaxInd(lines, from, D) + 1
    [] cont = "hang"  -> D + 1
    [] cont = "esc"   -> IF j % 2 = 1 THEN lines[from].ind ELSE (7 * j + D) % 12
    [] OTHER -> D + j

(* Put a run on the lines: start a new line at indentation `at` (at >= 0)   *)
(* or go on on the current last line (at = -1).                             *)
PutRun(lines, from, at, run, cont, D) ==
  LET ch == Chunks(run, cont)
      l1 == IF at >= 0 THEN Append(lines, CodeLine(at, ch[1])) ELSE AppendToLast(lines, ch[1])
  IN FoldLeft(LAMBDA acc, j :
                Append(IF cont = "esc" THEN SetEscLast(acc) ELSE acc,
                       CodeLine(ContIndent(cont, acc, from, D, j - 1), ch[j])),
              l1, Ix(2, Len(ch)))

WrapNeeded(block, ctxLast) == Len(block) > 1 \/ ctxLast \in PileKW

RECURSIVE RenderBlock(_, _, _, _, _), RenderStmt(_, _, _, _, _)

(* Lines of a block at indentation D.  pd > 0: the block is a pile.  pd = 0 *)
(* it is written with braces; `sep`: put `;` after the statements.          *)
RenderBlock(block, D, pd, sep, sty) ==
  FoldLeft(LAMBDA acc, j :
             LET ls == RenderStmt(block[j], D, pd, sty, acc)
             IN IF sep /\ (j < Len(block) \/ sty.tsemi) THEN AppendToLast(ls, <<";">>) ELSE ls,
           <<>>, Ix(1, Len(block)))

(* The lines of one statement appended to `lines0`.  B is its indentation,  *)
(* pd the pile depth of the block it stands in.                             *)
RenderStmt(stmt, B, pd, sty, lines0) ==
  LET items  == Shape[stmt.sh]
      hasMid == \E p \in 2..Len(items) :
                   ~items[p].b /\ items[p - 1].b /\ items[p].toks[1] \notin {"then", "else"}
      D   == IF hasMid THEN B + 2 * sty.w ELSE B + sty.w
      M   == B + sty.w
      bpd == IF pd > 0 THEN pd - 1 ELSE 0
      holeNo(p) == Cardinality({q \in 1..p : items[q].b})
      lastOf(p) == items[p].toks[Len(items[p].toks)]
      braced(p) == items[p].b /\ bpd = 0 /\ WrapNeeded(stmt.bl[holeNo(p)], lastOf(p - 1))
      st == FoldLeft(LAMBDA acc, p :
              IF ~items[p].b
              THEN \* a token run
                   LET at == IF p = 1 THEN B
                             ELSE IF items[p - 1].b
                             THEN (IF braced(p - 1) THEN -1
                                   ELSE IF items[p].toks[1] \in {"then", "else"} THEN B ELSE M)
                             ELSE (IF sty.fbreak THEN B ELSE -1)
                       open == p < Len(items) /\ braced(p + 1)
                       run  == IF open /\ ~sty.allman THEN Append(items[p].toks, "{") ELSE items[p].toks
                       ls   == PutRun(acc, Len(lines0) + 1, at, run, sty.cont, D)
                   IN IF open /\ sty.allman THEN Append(ls, CodeLine(B, <<"{">>)) ELSE ls
              ELSE \* a block
                   LET blk == stmt.bl[holeNo(p)]
                       ls  == acc \o RenderBlock(blk, D, bpd, braced(p), sty)
                   IN IF braced(p) THEN Append(ls, CodeLine(B, <<"}">>)) ELSE ls,
            lines0, Ix(1, Len(items)))
  IN st

SysLine(s) == [ind |-> 0, toks |-> <<s>>, esc |-> FALSE, kind |-> "sys", etail |-> <<>>]

RenderCode(tree, sty) ==
  IF HasPile(sty.mode)
  THEN <<SysLine(PILE)>> \o RenderBlock(tree, 0, PiledDepth(sty.mode), FALSE, sty)
       \o (IF sty.endpile THEN <<SysLine(ENDPILE)>> ELSE <<>>)
  ELSE RenderBlock(tree, 0, 0, TRUE, sty)

(* Blank lines, white-space lines, comment lines and trailing comments at   *)
(* every line boundary (not inside an escaped line break).                  *)
NoiseKind(noise, i) == IF noise = "mix" THEN NoiseSeq[1 + (i % 6)] ELSE noise
NoiseLine(kind) ==
  CASE kind = "blank" -> <<[ind |-> 0,  toks |-> <<>>,      esc |-> FALSE, kind |-> "noise", etail |-> <<>>]>>
    [] kind = "ws"    -> <<[ind |-> 5,  toks |-> <<>>,      esc |-> FALSE, kind |-> "noise", etail |-> <<>>]>>
    [] kind = "com0"  -> <<[ind |-> 0,  toks |-> <<"--c">>, esc |-> FALSE, kind |-> "noise", etail |-> <<>>]>>
    [] kind = "comD"  -> <<[ind |-> 11, toks |-> <<"-- c">>, esc |-> FALSE, kind |-> "noise", etail |-> <<>>]>>
    [] OTHER -> <<>>
AddNoise(lines, noise) ==
  FoldLeft(LAMBDA acc, i :
             LET l  == lines[i]
                 k  == NoiseKind(noise, i)
                 inEsc == i > 1 /\ (lines[i - 1].esc \/ lines[i - 1].kind = "escblank")
                 l2 == IF k = "trail" /\ ~l.esc /\ l.kind = "code" THEN [l EXCEPT !.toks = Append(@, "--c")] ELSE l
             IN (IF inEsc THEN acc ELSE acc \o NoiseLine(k)) \o <<l2>>,
           <<>>, Ix(1, Len(lines)))
  \o NoiseLine(NoiseKind(noise, Len(lines) + 1))

(* Variants of an escaped line break (formal.tex: "An escape character      *)
(* followed by one or more white space characters causes the white space to *)
(* be ignored"), cycling over the escaped lines of a rendering:             *)
(*   0 `_` directly before the line break                                   *)
(*   1 blanks / tabs between `_` and the line break                         *)
(*   2 an empty or white-space-only line after the escaped break (still     *)
(*     escaped white space: no newline token)                               *)
(*   3 a second escaped break: a line that holds nothing but `_`            *)
EscVariants(lines, v) ==
  FoldLeft(LAMBDA acc, i :
             LET l == lines[i]
                 k == (i + v) % 4
             IN IF ~l.esc \/ k = 0 THEN Append(acc, l)
                ELSE IF k = 1 THEN Append(acc, [l EXCEPT !.etail = IF i % 2 = 0 THEN <<"s">> ELSE <<"t", "s">>])
                ELSE IF k = 2 THEN acc \o <<l, [ind |-> IF i % 2 = 0 THEN 0 ELSE 3, toks |-> <<>>, esc |-> FALSE,
                                                 kind |-> "escblank", etail |-> <<>>]>>
                ELSE acc \o <<l, [ind |-> i % 5, toks |-> <<>>, esc |-> TRUE, kind |-> "esconly",
                                  etail |-> IF i % 3 = 0 THEN <<"s">> ELSE <<>>]>>,
           <<>>, Ix(1, Len(lines)))

Render(tree, sty) == AddNoise(EscVariants(RenderCode(tree, sty), sty.escv), sty.noise)

---------------------------------------------------------------------------
(* The characters of a line: leading white space, tokens, separators.      *)
(* "s" is a blank, "t" a tab.                                               *)
Rep(c, n) == [i \in 1..n |-> c]
BlanksTab(i) == Rep("s", 7 - (((i + 6) * 3) % 7)) \o <<"t">>
Lead(ind, tabs, i) ==
  CASE tabs = "spaces" -> Rep("s", ind)
    [] tabs = "tabs"   -> Rep("t", ind \div 8) \o Rep("s", ind % 8)
    \* blanks then a tab: any number of blanks below 8 in front of a tab reaches the next tab stop; the number
    \* changes from line to line (1..7, so also the boundary case of 7 blanks where the tab advances one column)
    [] tabs = "mixed"  -> IF ind >= 8 THEN BlanksTab(i) \o Rep("t", (ind \div 8) - 1) \o Rep("s", ind % 8)
                          ELSE Rep("s", ind)
    [] tabs = "alt"    -> \* line by line a different way to reach the same column
                          IF i % 3 = 0 THEN Rep("s", ind)
                          ELSE IF i % 3 = 1 \/ ind < 8 THEN Rep("t", ind \div 8) \o Rep("s", ind % 8)
                          ELSE BlanksTab(i) \o Rep("t", (ind \div 8) - 1) \o Rep("s", ind % 8)
(* include.c:inclCalcIndentLevel on the codes *)
IndentLevel(lead) == FoldLeft(LAMBDA i, c : IF c = "s" THEN i + 1 ELSE ((i \div 8) + 1) * 8, 0, lead)

(* Which neighbours may touch.  The language definition (formal.tex,       *)
(* Tokens): longest match; brackets, comma and semicolon never combine with *)
(* a neighbour; `.` followed by digits is no float after an identifier, a   *)
(* literal or a closer; a word and a symbol do not combine.  (Scan.tla's    *)
(* DFA confirms every omission: ScanReport here, all pairs in ScanPairs.) *)
Punct == {"(", ")", ",", ";", "[", "]", "{", "}"}
Wordy(t) == t \in AlphaKW \/ KindOf(t) \in {"id", "int", "float", "str"}
BarFirst == {"|", "|)", "|]", "|}", "||"}          \* (| [| {| |) |] |} are tokens of their own
NeedBlank(p, t1, t2) ==            \* p: the token before t1 ("" if none)
  IF (t1 \in {"(", "[", "{"} /\ t2 \in BarFirst) \/ (t1 = "|" /\ t2 \in {")", "]", "}"}) THEN TRUE
  ELSE IF t1 \in Punct \/ t2 \in Punct THEN FALSE
  ELSE IF t1 = "." THEN ~(KindOf(t2) \in {"id", "int"} /\ (KindOf(p) \in {"id", "int", "float", "str"} \/ p \in {")", "]", "}"}))
  ELSE IF t2 = "." THEN KindOf(t1) \in {"int", "float"} \/ t1 \in {"0", "1"} \/ ~Wordy(t1)
  ELSE ~((Wordy(t1) /\ t2 \in SymKW /\ KindOf(t1) \notin {"int", "float"}) \/ (t1 \in SymKW /\ Wordy(t2) /\ KindOf(t2) # "float"))
Sep(p, t1, t2, spacing, i) ==
  CASE spacing = "min"  -> IF NeedBlank(p, t1, t2) THEN <<"s">> ELSE <<>>
    [] spacing = "one"  -> <<"s">>
    [] spacing = "wide" -> IF i % 2 = 0 THEN <<"s", "s">> ELSE <<"t">>

TextLine(l, sty, n) ==
  [lead |-> IF l.kind = "sys" THEN <<>> ELSE Lead(l.ind, sty.tabs, n),
   toks |-> l.toks,
   seps |-> [i \in 1..(IF Len(l.toks) = 0 THEN 0 ELSE Len(l.toks) - 1) |->
               Sep(IF i = 1 THEN "" ELSE l.toks[i - 1], l.toks[i], l.toks[i + 1], sty.spacing, i)],
   esc  |-> l.esc, etail |-> l.etail]
Text(lines, sty) == [i \in 1..Len(lines) |-> TextLine(lines[i], sty, i)]

(* the characters *)
WsChars(codes) == [i \in 1..Len(codes) |-> IF codes[i] = "s" THEN " " ELSE "\t"]
LineChars(tx) ==
  WsChars(tx.lead)
  \o FoldLeft(LAMBDA acc, i : acc \o (IF i > 1 THEN WsChars(tx.seps[i - 1]) ELSE <<>>) \o CharsOf[tx.toks[i]],
              <<>>, Ix(1, Len(tx.toks)))
  \o (IF tx.esc THEN (IF Len(tx.toks) = 0 THEN <<"_">> ELSE <<" ", "_">>) \o WsChars(tx.etail) ELSE <<>>) \o <<"\n">>
Chars(text) == FoldLeft(LAMBDA acc, tx : acc \o LineChars(tx), <<>>, text)

---------------------------------------------------------------------------
(* What the language definition says these lines consist of (token level): *)
(* tokens with the column of the first one, a newline token after every     *)
(* line that is not a system command and does not end in an escape.         *)
LineTokens(l) ==
  IF l.kind = "sys" THEN <<KwTok(l.toks[1], 0)>>
  ELSE IF l.kind \in {"escblank", "esconly"} THEN <<>>       \* escaped white space
  ELSE [i \in 1..Len(l.toks) |-> TokOf(l.toks[i], IF i = 1 THEN l.ind ELSE -1)]
       \o (IF l.esc THEN <<>> ELSE <<KwTok(NL, -1)>>)
Tokens(lines) == FoldLeft(LAMBDA acc, l : acc \o LineTokens(l), <<>>, lines)

(* Does the scanner (Scan.tla, from the characters) deliver these tokens?   *)
(* Kinds and spellings of all, columns of the tokens that start a line.     *)
ScanDiffAt(got, want) ==
  LET n == IF Len(got) < Len(want) THEN Len(got) ELSE Len(want)
      bad == {i \in 1..n : got[i].k # want[i].k \/ got[i].t # want[i].t \/ (want[i].c >= 0 /\ got[i].c # want[i].c)}
  IN IF bad = {} THEN (IF Len(got) = Len(want) THEN 0 ELSE n + 1)
     ELSE CHOOSE i \in bad : \A j \in bad : i <= j
ScanReport(got, want) ==
  LET i == ScanDiffAt(got, want)
      sp(tl) == [j \in 1..Len(tl) |-> tl[j].t]
      win(tl) == SubSeq(sp(tl), i, IF i + 1 <= Len(tl) THEN i + 1 ELSE Len(tl))
  IN IF i = 0 THEN [ok |-> TRUE, want |-> <<>>, got |-> <<>>, gotkind |-> "", column |-> FALSE]
     ELSE [ok |-> FALSE, want |-> win(want), got |-> win(got),
           gotkind |-> IF i <= Len(got) THEN got[i].k ELSE "end",
           column |-> i <= Len(got) /\ i <= Len(want) /\ got[i].k = want[i].k /\ got[i].t = want[i].t]

---------------------------------------------------------------------------
(* The canonical stream of a tree: braces exactly where the Guide's rules   *)
(* bracket a pile.                                                          *)
RECURSIVE CanonBlock(_, _, _), CanonStmt(_)
CanonStmt(stmt) ==
  LET items == Shape[stmt.sh]
      holeNo(p) == Cardinality({q \in 1..p : items[q].b})
  IN FoldLeft(LAMBDA acc, p :
                IF items[p].b
                THEN acc \o CanonBlock(stmt.bl[holeNo(p)], items[p - 1].toks[Len(items[p - 1].toks)], FALSE)
                ELSE acc \o items[p].toks,
              <<>>, Ix(1, Len(items)))
CanonBlock(block, ctxLast, top) ==
  LET body == FoldLeft(LAMBDA acc, j : (IF j > 1 THEN Append(acc, ";") ELSE acc) \o CanonStmt(block[j]),
                       <<>>, Ix(1, Len(block)))
  IN IF ~top /\ WrapNeeded(block, ctxLast) THEN <<"{">> \o body \o <<"}">> ELSE body
Canon(tree) == CanonBlock(tree, "", TRUE)

(* Reading the lineariser's output as a brace program:                      *)
(*  - a SetTab ... BackTab pair around the whole stream is the program      *)
(*    itself (Goal -> Labeled -> Block -> Piled(Expression));               *)
(*  - SetTab BackSet BackTab are { ; } (Piled/Curly in axl.z);              *)
(*  - a `;` before BackSet/BackTab closes an Expression of a pile line      *)
(*    (enlist1a allows a trailing separator).                               *)
RECURSIVE MatchOf(_, _, _)
MatchOf(s, i, depth) ==            \* index of the BackTab matching the SetTab before position i
  IF i > Len(s) THEN 0
  ELSE IF s[i] = SETTAB THEN MatchOf(s, i + 1, depth + 1)
  ELSE IF s[i] = BACKTAB THEN (IF depth = 0 THEN i ELSE MatchOf(s, i + 1, depth - 1))
  ELSE MatchOf(s, i + 1, depth)
StripOuter(s) == IF Len(s) >= 2 /\ s[1] = SETTAB /\ MatchOf(s, 2, 0) = Len(s) THEN SubSeq(s, 2, Len(s) - 1) ELSE s
Norm(s0) ==
  LET a == FoldLeft(LAMBDA acc, i :
                      IF s0[i] = ";" /\ i < Len(s0) /\ s0[i + 1] \in {BACKSET, BACKTAB} THEN acc ELSE Append(acc, s0[i]),
                    <<>>, Ix(1, Len(s0)))
      s == StripOuter(a)
  IN [i \in 1..Len(s) |-> CASE s[i] = SETTAB -> "{" [] s[i] = BACKSET -> ";" [] s[i] = BACKTAB -> "}" [] OTHER -> s[i]]

---------------------------------------------------------------------------
(* The machine                                                              *)
VARIABLES tree, sty, stage, lines, tl, bal, node, strm, scan
vars == <<tree, sty, stage, lines, tl, bal, node, strm, scan>>

NoStreams == [starting |-> <<>>, ending |-> <<>>, mid |-> <<>>, leaving |-> <<>>]
NoScan    == [ok |-> TRUE, want |-> <<>>, got |-> <<>>, gotkind |-> "", column |-> FALSE]

Init == /\ tree \in Trees
        /\ sty \in Styles(tree)
        /\ stage = "tree"
        /\ lines = <<>> /\ tl = <<>> /\ bal = [err |-> 0, warn |-> 0] /\ node = Nil /\ strm = NoStreams
        /\ scan = NoScan

Step(from, to) == stage = from /\ stage' = to

(* Render: the layout.  include.c + scan.c + syscmd.c: characters to tokens *)
(* (with ScanChars; otherwise the tokens the language definition assigns).  *)
(* Then linearize() of linear.c, one action per function.                   *)
DoRender     == Step("tree", "rendered")  /\ lines' = Render(tree, sty) /\ UNCHANGED <<tree, sty, tl, bal, node, strm, scan>>
DoScan       == /\ Step("rendered", "scanned")
                /\ tl' = IF ScanChars THEN ScanText(Chars(Text(lines, sty))) ELSE Tokens(lines)
                /\ scan' = IF ScanChars THEN ScanReport(tl', Tokens(lines)) ELSE NoScan
                /\ strm' = [strm EXCEPT !.starting = Spell(tl')] /\ UNCHANGED <<tree, sty, lines, bal, node>>
DoXComments  == Step("scanned", "xcomments") /\ tl' = XComments(tl) /\ UNCHANGED <<tree, sty, lines, bal, node, strm, scan>>
DoXBlank     == Step("xcomments", "xblank") /\ tl' = XBlankLines(tl) /\ UNCHANGED <<tree, sty, lines, bal, node, strm, scan>>
DoBalance    == Step("xblank", "balanced") /\ bal' = CheckBalance(tl) /\ UNCHANGED <<tree, sty, lines, tl, node, strm, scan>>
DoFrTokens   == Step("balanced", "lntree") /\ node' = FrTokenList(tl) /\ UNCHANGED <<tree, sty, lines, tl, bal, strm, scan>>
DoRules2D    == Step("lntree", "rules2d") /\ node' = Rules2D(node) /\ UNCHANGED <<tree, sty, lines, tl, bal, strm, scan>>
DoToTokens   == Step("rules2d", "ending") /\ tl' = XNewLines(ToTokenList(node)) /\ node' = Nil
                /\ strm' = [strm EXCEPT !.ending = Spell(tl')] /\ UNCHANGED <<tree, sty, lines, bal, scan>>
DoISep       == Step("ending", "mid") /\ tl' = ISepAfterDontPiles(tl)
                /\ strm' = [strm EXCEPT !.mid = Spell(tl')] /\ UNCHANGED <<tree, sty, lines, bal, node, scan>>
DoXSep       == Step("mid", "leaving") /\ tl' = XSep(tl)
                /\ strm' = [strm EXCEPT !.leaving = Spell(tl')] /\ UNCHANGED <<tree, sty, lines, bal, node, scan>>

(* The property, per rendering: the scanner delivers the tokens of the      *)
(* program whatever the layout, and the lineariser's output read as a brace *)
(* program is the canonical stream of the tree.                             *)
Holds == scan.ok /\ Norm(strm.leaving) = Canon(tree) /\ bal.err = 0

DoExport == /\ Step("leaving", "done")
            /\ (Export => PrintT("RENDER " \o ToJson([tree |-> tree, sty |-> sty, text |-> Text(lines, sty),
                                                       streams |-> strm, scan |-> scan,
                                                       holds |-> Holds])))
            /\ UNCHANGED <<tree, sty, lines, tl, bal, node, strm, scan>>

Next == DoRender \/ DoScan \/ DoXComments \/ DoXBlank \/ DoBalance \/ DoFrTokens \/ DoRules2D
        \/ DoToTokens \/ DoISep \/ DoXSep \/ DoExport
Spec == Init /\ [][Next]_vars

---------------------------------------------------------------------------
(* Properties                                                               *)

(* C14 on the model.  As an INVARIANT this stops TLC at the first layout    *)
(* that the transcribed code treats differently; the export configurations  *)
(* instead carry `holds` per rendering so that all of them are seen.        *)
LayoutIndependent == stage \in {"leaving", "done"} => Holds
ScanIndependent   == stage # "tree" /\ stage # "rendered" => scan.ok

(* the lead of every rendered line has the column the renderer meant        *)
LeadOK == stage = "rendered" =>
            \A i \in 1..Len(lines) : lines[i].kind = "sys" \/ IndentLevel(Lead(lines[i].ind, sty.tabs, i)) = lines[i].ind

(* per-stage facts of linear.c *)
StageOK ==
  /\ stage = "xcomments" => \A i \in 1..Len(tl) : tl[i].k # "com"
  /\ stage = "xblank" => /\ (Len(tl) > 0 => ~IsKw(tl[1], NL))
                         /\ \A i \in 2..Len(tl) : IsKw(tl[i], NL) => ~IsKw(tl[i - 1], NL) /\ ~IsKw(tl[i - 1], PILE)
  /\ stage \in {"ending", "mid", "leaving", "done"} =>
        \A i \in 1..Len(tl) : tl[i].k # "com" /\ tl[i].t \notin {NL, PILE, ENDPILE}
  /\ stage \in {"leaving", "done"} =>
        /\ (Len(tl) > 0 => ~IsKw(tl[1], ";") /\ ~IsKw(tl[Len(tl)], ";"))
        /\ \A i \in 1..(Len(tl) - 1) : IsKw(tl[i], ";") => ~IsNonStarter(tl[i + 1])
        /\ \A i \in 1..(Len(tl) - 1) : IsKw(tl[i], "}") => IsKw(tl[i + 1], ";") \/ IsNonStarter(tl[i + 1])

(* the words of the program survive in order: only layout tokens are added  *)
(* or removed                                                               *)
WordsKept == stage \in {"leaving", "done"} =>
               SelectSeq(strm.leaving, LAMBDA s : s \notin {SETTAB, BACKSET, BACKTAB, ";", "{", "}"})
               = SelectSeq(Canon(tree), LAMBDA s : s \notin {";", "{", "}"})
=============================================================================
