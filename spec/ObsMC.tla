------------------------------- MODULE ObsMC -------------------------------
(***************************************************************************)
(* The Obs monitor against its own specification, exhaustively on small    *)
(* constants: an arbitrary producer emits observations (input,             *)
(* configuration, value) in any order; the monitor processes them the way  *)
(* TraceObs/TraceDet do (Record keeps the FIRST observation of an input,   *)
(* a later differing one is rejected and reported with the configuration   *)
(* that produced the first).  Checked:                                     *)
(*   Complete : some observation was rejected  <=>  the history is not a   *)
(*              function of the input (two observations of one input       *)
(*              differ) -- nothing is missed although only the first       *)
(*              observation is remembered;                                 *)
(*   Witness  : every report names two observations of the history with    *)
(*              the same input, the reported configurations, and different *)
(*              values;                                                    *)
(*   Minimal  : an input whose observations all agree is never reported.   *)
(***************************************************************************)
EXTENDS Obs, Naturals, Sequences, FiniteSets

CONSTANTS Inputs, Cfgs, Values, MaxLen

VARIABLES hist,     \* what the producer emitted so far: sequence of [i, c, o]
          who,      \* ghost: input -> configuration of the first observation
          reports   \* set of [i, first, other] for rejected observations

vars == <<seen, hist, who, reports>>

Init == ObsInit /\ hist = <<>> /\ who = <<>> /\ reports = {}

Emit(i, c, o) ==
  /\ Len(hist) < MaxLen
  /\ hist' = Append(hist, [i |-> i, c |-> c, o |-> o])
  /\ Record(i, o)
  /\ who' = IF Known(i) THEN who ELSE who @@ (i :> c)
  /\ reports' = IF Agrees(i, o) THEN reports ELSE reports \cup {[i |-> i, first |-> who[i], other |-> c]}

Next == \E i \in Inputs, c \in Cfgs, o \in Values : Emit(i, c, o)
Spec == Init /\ [][Next]_vars

Ix == 1..Len(hist)
Functional == \A a, b \in Ix : hist[a].i = hist[b].i => hist[a].o = hist[b].o

Complete == (reports # {}) <=> ~Functional
Witness  == \A r \in reports : \E a, b \in Ix : /\ a < b
                                                /\ hist[a].i = r.i /\ hist[b].i = r.i
                                                /\ hist[a].c = r.first /\ hist[b].c = r.other
                                                /\ hist[a].o # hist[b].o
                                                /\ \A x \in 1..(a - 1) : hist[x].i # r.i      \* a is the first observation of r.i
Minimal  == \A i \in Inputs : (\A a, b \in Ix : hist[a].i = i /\ hist[b].i = i => hist[a].o = hist[b].o)
                              => \A r \in reports : r.i # i
(* probe (expected to be violated): shows that rejections are reachable, i.e. Complete is not vacuous *)
NeverRejects == reports = {}
SeenIsFirst == \A i \in DOMAIN seen : \E a \in Ix : /\ hist[a].i = i /\ hist[a].o = seen[i] /\ hist[a].c = who[i]
                                                    /\ \A x \in 1..(a - 1) : hist[x].i # i
=============================================================================
