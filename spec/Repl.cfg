SPECIFICATION RSpec
CONSTANTS
  Modes = {"ltr"}
  Fuel = 3000
INVARIANTS ReplEqBatch SessionPrefix FormOutputsAlign SessionStateEqBatch DiagCount WellOrdered CallsDefined RNoStuck Bounded
PROPERTIES RejectKeepsSession AcceptIsSilent
CHECK_DEADLOCK FALSE
