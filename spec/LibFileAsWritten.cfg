\* lib.c as written: TLC exports the (cell class, damage kind, outcome) triples of every finished
\* read; the ones outside {Same, Rejected} tell the binding where to aim.
SPECIFICATION Spec
CONSTANTS
  READER = "AsWritten"
  SUM = FALSE
  PRINT = TRUE
  VALS = {3}
INVARIANTS TypeOK SameIsSame IntactAccepted WriterContiguous
CHECK_DEADLOCK FALSE
