\* C15 trace evaluation at the real widths, design = aswritten
CONSTANTS
  CNO = 14
  LNO = 48
  Packer = "aswritten"
  Policy = "aswritten"
  EofPolicy = "aswritten"
  FileNames = {}
  TopFile = ""
  LineNames = {}
  LineNums = {}
  Cols = {}
  RunLens = {}
  MaxLines = 0
  MaxIf = 0
  MaxItems = 0
  Feat = {}
  AvoidEofIf = FALSE
  AvoidCollide = FALSE
INIT TInit
NEXT TNext
CHECK_DEADLOCK FALSE
INVARIANT NotDone
