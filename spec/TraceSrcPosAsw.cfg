\* C15 trace evaluation at the real widths, design = the code as written NOW: the column packer and the line-table
\* policy were repaired in /repo (findings colovf, collide: fixed), the EOF-in-#if position and the heading of a line
\* that cannot be read are still as written (open findings)
CONSTANTS
  CNO = 14
  LNO = 48
  Packer = "required"
  Policy = "required"
  EofPolicy = "aswritten"
  HeadPolicy = "aswritten"
  Grouping = "gline"
  SrcLen = 0
  ColSeq <- ColSeqTwo
  MaxSel = 0
  FileNames = {}
  TopFile = ""
  LineNames = {}
  LineNums = {}
  Cols = {}
  RunLens = {}
  MaxLines = 0
  MaxIf = 0
  MaxItems = 0
  Feat = {}
  AvoidEofIf = FALSE
  AvoidCollide = FALSE
INIT TInit
NEXT TNext
CHECK_DEADLOCK FALSE
INVARIANT NotDone
