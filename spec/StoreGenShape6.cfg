\* Behaviour export for replay (see StoreGen.tla): alloc/free/resize/collect over 3 size classes, depth 6
SPECIFICATION GenSpec
CONSTANTS
  Align = 1
  NRoots = 1
  PtrFreeCodes = {1}
  SlotBase = 0
  SlotBytes = 1
  MaxSlots = 1
  Depth = 6
  NSizes = 3
  GenCodes = {0}
  MaxBlocks = 6
  MaxLiveGen = 3
  Stride = 16
  WithGraph = FALSE
INVARIANT GenInv
CHECK_DEADLOCK FALSE
