\* DriverLayerMP with the common header of a split C output ("h", opened before the first C file, closed after the last): 1 file, <= 2 faults, safety only
SPECIFICATION Spec
CONSTANTS
  MaxFiles = 1
  MaxFaults = 2
  MaxErrs = 1
  Strict = FALSE
  MultiPart = TRUE
  PostUsed = {"link", "interp"}
  ChecksIo = TRUE
  MaxKinds = 3
  CleanupKept = TRUE
  PhasesUsed = {"putao", "putc"}
  KindsUsed = {"ao", "c", "h"}
INVARIANTS TypeOK HonestExit CompleteOnSuccess NoOutputAfterError FailureSurfaces NothingOpenAtSuccess PendingIsReported
CHECK_DEADLOCK TRUE
