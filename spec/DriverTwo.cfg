\* thorough: two files, all subsets of <= 2 kinds and the full set, <= 2 faults, exact phase order
SPECIFICATION Spec
CONSTANTS
  MaxFiles = 2
  MaxFaults = 2
  MaxErrs = 1
  Strict = TRUE
  MultiPart = FALSE
  PostUsed = {}
  ChecksIo = TRUE
  MaxKinds = 2
  CleanupKept = FALSE
  PhasesUsed = {"load", "include", "scan", "syscmd", "linear", "parse", "abnorm", "macex", "abcheck", "scobind", "tinfer", "genfoam", "optfoam", "putao", "putlisp", "putjava", "putc", "putobject"}
  KindsUsed = {"ai", "ap", "asy", "ao", "fm", "lsp", "c", "java", "main"}
INVARIANTS TypeOK HonestExit CompleteOnSuccess NoOutputAfterError FailureSurfaces NothingOpenAtSuccess PendingIsReported
CHECK_DEADLOCK TRUE
