----------------------------- MODULE BigIntImpl -----------------------------
(***************************************************************************)
(* The big-integer algorithms of aldor/aldor/src/bigint.c AS WRITTEN, with *)
(* the radix as a constant (the code's own BINT_LG_RADIX; 32 in            *)
(* production, 7 under BIGINT_DO_DEBUG; 2 and 3 here), checked to REFINE   *)
(* the mathematical integers of BigZ.tla.                                  *)
(*                                                                         *)
(* A value is either immediate  [imm |-> TRUE, v |-> n]   (|n| <= IMAX)    *)
(* or stored                    [imm |-> FALSE, neg, d]                    *)
(* with d the little-endian digit vector placev[0..placec-1] in radix R.   *)
(* Modelled, statement by statement:                                       *)
(*   xintStoreI / xintCopyInI, xintImmedIfCan, bintLength, bintLT,         *)
(*   bintPlus / bintMinus (fast path, sign dispatch, operand swap),        *)
(*   iintPlus / iintMinus (PlusStep / MinusStep carry chains, normalise),  *)
(*   bintTimes (half-word fast path, 0/1/-1, sign dispatch), iintTimes     *)
(*   (schoolbook loop with TimesStep), iintTimesS, iintDivideS,            *)
(*   bintDivide (sign dispatch) and iintDivide: Knuth's Algorithm D with   *)
(*   normalisation factor d, q-hat from the two leading digits, the        *)
(*   correction loop, multiply-subtract, add-back, un-normalisation.       *)
(* Every operation returns [x |-> result, p |-> set of PATH LABELS,        *)
(* ok |-> all assert()s of the C text held and every digit stayed < R].    *)
(*                                                                         *)
(* Property (invariant Check): for all operands a, b whose magnitudes have *)
(* at most DA / DB digits, both signs, both representations:               *)
(*   Abs(result) = BigZ result  (Refines BigZ),  result is normalised      *)
(*   (immediate iff it fits, no leading zero place), asserts hold,         *)
(*   quotient truncated toward zero, remainder has the dividend's sign.    *)
(* The path labels are exported (configuration *Paths.cfg) as operand      *)
(* patterns for the harness; they are implementation-shaped and only ever  *)
(* reported as drift.                                                      *)
(***************************************************************************)
EXTENDS BigZ, TLC, Json

CONSTANTS LGR,      \* BINT_LG_RADIX
          LGI,      \* INT_LG_IMMED = bitsizeof(IInt) - 2
          DA, DB,   \* operand sizes in digits
          SIGNS,    \* "all": left operands of both signs; "nonneg": only a >= 0 (right operands always both signs)
          MUT       \* "" = the code as written; otherwise a deliberately wrong variant (self-test of the model)

R    == Pow2[LGR]
IMAX == Pow2[LGI] - 1                 \* INT_MAX_IMMED
HALF == Pow2[LGI \div 2] - 1          \* INT_MAX_HALF
WBITS == LGI + 2                      \* bitsizeof(IInt)

VARIABLES ph, a, b, op      \* op is used by the path export only
vars == <<ph, a, b, op>>

---------------------------------------------------------------------------
(* representation                                                           *)
Imm(n) == [imm |-> TRUE, v |-> n]
Sto(neg, d) == [imm |-> FALSE, neg |-> neg, d |-> d]

Get(d, i) == d[i + 1]                                   \* C index
Put(d, i, x) == [d EXCEPT ![i + 1] = x]

DVal(d) == FoldLeft(LAMBDA acc, j : acc * R + d[Len(d) + 1 - j], 0, Ix(1, Len(d)))
RECURSIVE DigitsOf(_)
DigitsOf(n) == IF n = 0 THEN <<>> ELSE <<n % R>> \o DigitsOf(n \div R)
NAbs(n) == IF n < 0 THEN -n ELSE n
Val(x) == IF x.imm THEN x.v ELSE (IF x.neg THEN -DVal(x.d) ELSE DVal(x.d))

IsImmedInt(n) == -IMAX <= n /\ n <= IMAX                 \* INT_IS_IMMED
IsHalfInt(n) == -HALF <= n /\ n <= HALF                  \* INT_IS_HALF

(* the canonical (normalised) representation of an integer                  *)
Rep(n) == IF IsImmedInt(n) THEN Imm(n) ELSE Sto(n < 0, DigitsOf(NAbs(n)))
Normalised(x) == x = Rep(Val(x))
DigitsOk(d) == \A i \in 1..Len(d) : d[i] >= 0 /\ d[i] < R

(* xintStoreI + xintCopyInI: at least one place; zero is stored as <<0>>    *)
StoreI(n) == Sto(n < 0, IF NAbs(n) < R THEN <<NAbs(n)>> ELSE DigitsOf(NAbs(n)))
Store(x) == IF x.imm THEN StoreI(x.v) ELSE x
NegRep(x) == IF x.imm THEN Imm(-x.v) ELSE Sto(~x.neg, x.d)       \* BINT_NEGATE
IsNegRep(x) == IF x.imm THEN x.v < 0 ELSE x.neg                    \* bintIsNeg

(* xintImmedIfCan *)
ImmedIfCan(x) ==
  IF x.imm THEN x ELSE
  LET pb == Len(x.d)  u == DVal(x.d) IN
  IF pb = 0 THEN Imm(0)
  ELSE IF pb <= 2 \/ pb * LGR <= WBITS
       THEN (IF u > IMAX THEN x ELSE Imm(IF x.neg THEN -u ELSE u))
       ELSE x

(* bintNew *)
New(n) == IF IsImmedInt(n) THEN Imm(n) ELSE StoreI(n)

RECURSIVE ULen(_)
ULen(u) == IF u < 2 THEN 1 ELSE 1 + ULen(u \div 2)                 \* uintLength: zero has one bit
BLength(x) == IF x.imm THEN ULen(NAbs(x.v)) ELSE LGR * (Len(x.d) - 1) + ULen(x.d[Len(x.d)])

(* bintLT on two stored non-negative numbers *)
DLt(x, y) ==
  IF Len(x) # Len(y) THEN Len(x) < Len(y)
  ELSE LET df == SelectSeq([j \in 1..Len(x) |-> Len(x) + 1 - j], LAMBDA i : x[i] # y[i])
       IN IF df = <<>> THEN FALSE ELSE x[df[1]] < y[df[1]]

StripZeros(d) == LET nz == SelectSeq([j \in 1..Len(d) |-> Len(d) + 1 - j], LAMBDA i : d[i] # 0)
                 IN IF nz = <<>> THEN <<>> ELSE SubSeq(d, 1, nz[1])

---------------------------------------------------------------------------
(* the digit loops                                                          *)

(* iintPlus: x at least as long as y; PlusStep chain                        *)
IPlus(x, y) ==
  LET ac == Len(x)  bc == Len(y)
      st == FoldLeft(LAMBDA acc, i : LET s == x[i] + (IF i <= bc THEN y[i] ELSE 0) + acc[1]
                                     IN <<IF s >= R THEN 1 ELSE 0, Append(acc[2], IF s >= R THEN s - R ELSE s),
                                          acc[3] \cup (IF i > bc /\ acc[1] = 1 THEN {"ripple"} ELSE {})>>,
                     <<0, <<>>, {}>>, Ix(1, ac))
  IN [d |-> IF st[1] = 1 THEN Append(st[2], 1) ELSE st[2],
      p |-> st[3] \cup (IF st[1] = 1 THEN {"carryout"} ELSE {}),
      ok |-> ac >= bc]

(* iintMinus: x >= y >= 0; MinusStep = PlusStep with the complement, kp1 = k + 1 *)
IMinus(x, y) ==
  LET ac == Len(x)  bc == Len(y)
      st == FoldLeft(LAMBDA acc, i : LET s == x[i] + (R - 1 - (IF i <= bc THEN y[i] ELSE 0)) + acc[1]
                                     IN <<IF s >= R THEN 1 ELSE 0, Append(acc[2], IF s >= R THEN s - R ELSE s),
                                          acc[3] \cup (IF i > bc /\ acc[1] = 0 THEN {"borrowripple"} ELSE {})>>,
                     <<1, <<>>, {}>>, Ix(1, ac))
      d == StripZeros(st[2])
  IN [d |-> d,
      p |-> st[3] \cup (IF Len(d) < ac THEN {"shrinks"} ELSE {}),
      ok |-> ac >= bc /\ st[1] = 1]                        \* assert(kp1 == 1)

(* iintTimes: schoolbook, the longer operand in the inner loop; TimesStep   *)
ITimes(x0, y0) ==
  LET sw == Len(x0) < Len(y0)
      x  == IF sw THEN y0 ELSE x0
      y  == IF sw THEN x0 ELSE y0
      ac == Len(x)  bc == Len(y)
      row(r, j) ==
        IF y[j + 1] = 0 THEN Put(r, ac + j, 0)
        ELSE LET st == FoldLeft(LAMBDA acc, i : LET t == x[i + 1] * y[j + 1] + Get(acc[2], i + j) + acc[1]
                                                IN <<t \div R, Put(acc[2], i + j, t % R)>>,
                                <<0, r>>, [i \in 1..ac |-> i - 1])
             IN Put(st[2], ac + j, IF MUT = "times-drop-carry" /\ j = bc - 1 THEN 0 ELSE st[1])
      full == FoldLeft(LAMBDA r, j : row(r, j), [i \in 1..(ac + bc) |-> 0], [j \in 1..bc |-> j - 1])
      d == StripZeros(full)
  IN [d |-> d, p |-> (IF sw THEN {"swap"} ELSE {}) \cup (IF Len(d) < ac + bc THEN {"topzero"} ELSE {}),
      ok |-> DigitsOk(full)]

(* iintTimesS: multiply by one digit, append the carry if any *)
ITimesS(x, m) ==
  LET st == FoldLeft(LAMBDA acc, i : LET t == x[i] * m + acc[1] IN <<t \div R, Append(acc[2], t % R)>>,
                     <<0, <<>> >>, Ix(1, Len(x)))
  IN IF st[1] # 0 THEN Append(st[2], st[1]) ELSE st[2]

(* iintDivideS: divide by one digit; placec drops by one if the top place is 0 *)
IDivideS(x, m) ==
  LET n == Len(x)
      st == FoldLeft(LAMBDA acc, j : LET t == acc[1] * R + x[n + 1 - j]
                                     IN <<t % m, Put(acc[2], n - j, t \div m)>>,
                     <<0, x>>, Ix(1, n))
      q == st[2]
  IN [q |-> IF n > 0 /\ q[n] = 0 THEN SubSeq(q, 1, n - 1) ELSE q, r |-> st[1]]

---------------------------------------------------------------------------
(* iintDivide: Knuth D.  u, v stored non-negative digit vectors, v's top    *)
(* place non-zero.  Returns digit vectors q, r as left by the C code, the   *)
(* path labels and the assertion flag.                                      *)
IDivide(u0, v0) ==
  LET n  == Len(v0)
      m  == Len(u0) - n
      nm == Len(u0)
  IN
  IF n = 1 THEN
       LET s == IDivideS(u0, v0[1])
       IN [q |-> s.q, r |-> <<s.r>>, p |-> {"n1"}, ok |-> TRUE]
  ELSE IF DLt(u0, v0) THEN [q |-> <<>>, r |-> u0, p |-> {"ult"}, ok |-> TRUE]
  ELSE
  LET v1o == v0[n]
      d   == IF v1o >= R \div 2 THEN 1 ELSE R \div (v1o + 1)
      un  == IF d = 1 THEN u0 ELSE ITimesS(u0, d)
      v   == IF d = 1 THEN v0 ELSE ITimesS(v0, d)
      u1  == IF Len(un) = nm THEN Append(un, 0) ELSE un
      v1  == v[n]
      v2  == v[n - 1]
      pre == Len(u1) = nm + 1 /\ Len(v) = n                              \* the two asserts after D1
      (* one quotient digit; acc = [u, q, p, ok] *)
      Digit(acc, kj) ==
        LET u   == acc.u
            uj0 == Get(u, nm - kj)  uj1 == Get(u, nm - kj - 1)  uj2 == Get(u, nm - kj - 2)
            e0  == IF uj0 = v1
                   THEN [q |-> R - 1, rh |-> IF uj1 + v1 >= R THEN uj1 + v1 - R ELSE uj1 + v1, k |-> uj1 + v1 >= R, c |-> 0, st |-> FALSE, af |-> FALSE]
                   ELSE [q |-> (uj0 * R + uj1) \div v1, rh |-> (uj0 * R + uj1) % v1, k |-> FALSE, c |-> 0, st |-> FALSE, af |-> FALSE]
            (* one turn of the correction loop; st = stopped, c = decrements, af = assert(i <= 2) failed *)
            turn(e, i) ==
              IF e.st \/ e.k THEN e
              ELSE IF i > 2 THEN [e EXCEPT !.af = TRUE, !.st = TRUE]
              ELSE LET pr == v2 * e.q  hh == pr \div R  hl == pr % R
                       gt == hh > e.rh \/ (hh = e.rh /\ (IF MUT = "qhat-weak-test" THEN FALSE ELSE hl > uj2))
                   IN IF ~gt THEN [e EXCEPT !.st = TRUE]
                      ELSE [e EXCEPT !.q = e.q - 1, !.rh = IF e.rh + v1 >= R THEN e.rh + v1 - R ELSE e.rh + v1,
                                     !.k = e.rh + v1 >= R, !.c = e.c + 1]
            e3  == turn(turn(turn(e0, 1), 2), 3)
            qhat == e3.q
            (* D4 multiply and subtract, least significant place first; acc2 = <<k, u>> *)
            ms == FoldLeft(LAMBDA s, t :
                     LET vi  == IF t < n THEN Get(v, t) ELSE 0
                         pos == m - kj + t
                         pr  == qhat * vi   uh == pr \div R   ul == pr % R
                         x1  == Get(s[2], pos) + (R - 1 - ul) + 1
                         k1  == x1 >= R
                         y1  == IF k1 THEN x1 - R ELSE x1
                         x2  == y1 + (R - 1 - s[1]) + 1
                         k2  == x2 >= R
                         y2  == IF k2 THEN x2 - R ELSE x2
                     IN <<uh + (IF k1 THEN 0 ELSE 1) + (IF k2 THEN 0 ELSE 1), Put(s[2], pos, y2)>>,
                   <<0, u>>, [t \in 1..(n + 1) |-> t - 1])
            back == ms[1] # 0 /\ MUT # "no-addback"
            (* D6 add back *)
            ab == FoldLeft(LAMBDA s, t :
                     LET vi  == IF t < n THEN Get(v, t) ELSE 0
                         pos == m - kj + t
                         x1  == vi + Get(s[2], pos) + s[1]
                     IN <<IF x1 >= R THEN 1 ELSE 0, Put(s[2], pos, IF x1 >= R THEN x1 - R ELSE x1)>>,
                   <<0, ms[2]>>, [t \in 1..(n + 1) |-> t - 1])
        IN [u  |-> IF back THEN ab[2] ELSE ms[2],
            q  |-> Put(acc.q, m - kj, IF back THEN qhat - 1 ELSE qhat),
            p  |-> acc.p \cup (IF uj0 = v1 THEN {"ujeqv1"} ELSE {})
                         \cup (IF e3.c = 1 THEN {"corr1"} ELSE IF e3.c = 2 THEN {"corr2"} ELSE {})
                         \cup (IF e3.k THEN {"rhatov"} ELSE {})
                         \cup (IF back THEN {"addback"} ELSE {}),
            ok |-> acc.ok /\ ~e3.af /\ qhat >= 0 /\ qhat < R /\ uj0 <= v1 /\ DigitsOk(ms[2])]
      lp == FoldLeft(Digit, [u |-> u1, q |-> [i \in 1..(m + 1) |-> 0], p |-> {}, ok |-> pre], [kj \in 1..(m + 1) |-> kj - 1])
      (* D8 un-normalise the low n places; v is restored the same way *)
      rr == IDivideS(SubSeq(lp.u, 1, n), d).q
      vb == IDivideS(v, d).q
  IN [q |-> StripZeros(lp.q), r |-> StripZeros(rr),
      p |-> lp.p \cup (IF d = 1 THEN {"d1"} ELSE {"dnorm"}) \cup (IF Len(un) = nm + 1 THEN {"dcarry"} ELSE {}),
      ok |-> lp.ok /\ vb = v0 /\ (IF pre THEN \A i \in (n + 1)..(nm + 1) : lp.u[i] = 0 ELSE FALSE)]

---------------------------------------------------------------------------
(* the public operations                                                    *)

SignCase(x, y) == IF IsNegRep(x) THEN (IF IsNegRep(y) THEN "nn" ELSE "np") ELSE (IF IsNegRep(y) THEN "pn" ELSE "pp")
ResLab(x) == IF x.imm THEN "res.imm" ELSE "res.sto"
OpLab(x, y) == {IF x.imm THEN "a.imm" ELSE "a.sto", IF y.imm THEN "b.imm" ELSE "b.sto"}

(* both operands stored and non-negative *)
PlusGen(x, y) ==
  LET sw == BLength(x) < BLength(y)
      s  == IF sw THEN IPlus(y.d, x.d) ELSE IPlus(x.d, y.d)
      r  == ImmedIfCan(Sto(FALSE, s.d))
  IN [x |-> r, p |-> s.p \cup (IF sw THEN {"swap"} ELSE {}), ok |-> s.ok]
MinusGen(x, y) ==
  LET neg == DLt(x.d, y.d)
      s   == IF neg THEN IMinus(y.d, x.d) ELSE IMinus(x.d, y.d)
      r   == ImmedIfCan(Sto(neg, s.d))
  IN [x |-> r, p |-> s.p \cup (IF neg THEN {"swap"} ELSE {}), ok |-> s.ok]
NegRes(o) == [o EXCEPT !.x = NegRep(o.x)]

BPlus(x0, y0) ==
  LET fast == x0.imm /\ y0.imm /\ x0.v + y0.v >= 0 /\ x0.v + y0.v < R /\ IsImmedInt(x0.v + y0.v)
  IN IF fast THEN [x |-> Imm(x0.v + y0.v), p |-> {"fast"}, ok |-> TRUE]
     ELSE LET x == Store(x0)  y == Store(y0)
              xa == Sto(FALSE, x.d)  ya == Sto(FALSE, y.d)
              o == IF x.neg /\ y.neg THEN NegRes(PlusGen(xa, ya))
                   ELSE IF x.neg THEN MinusGen(ya, xa)
                   ELSE IF y.neg THEN MinusGen(xa, ya)
                   ELSE PlusGen(xa, ya)
          IN [o EXCEPT !.p = o.p \cup {SignCase(x0, y0), ResLab(o.x)} \cup OpLab(x0, y0)]

BMinus(x0, y0) ==
  LET fast == x0.imm /\ y0.imm /\ IsImmedInt(x0.v - y0.v)
  IN IF fast THEN [x |-> Imm(x0.v - y0.v), p |-> {"fast"}, ok |-> TRUE]
     ELSE LET x == Store(x0)  y == Store(y0)
              xa == Sto(FALSE, x.d)  ya == Sto(FALSE, y.d)
              o == IF x.neg /\ y.neg THEN MinusGen(ya, xa)
                   ELSE IF x.neg THEN NegRes(PlusGen(xa, ya))
                   ELSE IF y.neg THEN PlusGen(xa, ya)
                   ELSE MinusGen(xa, ya)
          IN [o EXCEPT !.p = o.p \cup {SignCase(x0, y0), ResLab(o.x)} \cup OpLab(x0, y0)]

CopyRep(x) == x
BTimes(x0, y0) ==
  IF x0.imm /\ y0.imm /\ IsHalfInt(x0.v) /\ IsHalfInt(y0.v) THEN [x |-> New(x0.v * y0.v), p |-> {"half"}, ok |-> TRUE]
  ELSE IF x0.imm /\ x0.v = 0 THEN [x |-> Imm(0), p |-> {"zero"}, ok |-> TRUE]
  ELSE IF x0.imm /\ x0.v = 1 THEN [x |-> CopyRep(y0), p |-> {"one"}, ok |-> TRUE]
  ELSE IF x0.imm /\ x0.v = -1 THEN [x |-> NegRep(y0), p |-> {"minusone"}, ok |-> TRUE]
  ELSE IF y0.imm /\ y0.v = 0 THEN [x |-> Imm(0), p |-> {"zero"}, ok |-> TRUE]
  ELSE IF y0.imm /\ y0.v = 1 THEN [x |-> CopyRep(x0), p |-> {"one"}, ok |-> TRUE]
  ELSE IF y0.imm /\ y0.v = -1 THEN [x |-> NegRep(x0), p |-> {"minusone"}, ok |-> TRUE]
  ELSE LET x == Store(x0)  y == Store(y0)
           t == ITimes(x.d, y.d)
           r == ImmedIfCan(Sto(FALSE, t.d))
           rs == IF x.neg # y.neg THEN NegRep(r) ELSE r
       IN [x |-> rs, p |-> t.p \cup {SignCase(x0, y0), ResLab(rs)} \cup OpLab(x0, y0), ok |-> t.ok]

(* bintDivide: [q, r, p, ok]; y0 # 0 *)
BDivide(x0, y0) ==
  LET x == Store(x0)  y == Store(y0)
      dv == IDivide(x.d, y.d)
      q0 == ImmedIfCan(Sto(FALSE, dv.q))
      r0 == ImmedIfCan(Sto(FALSE, dv.r))
      q  == IF x.neg # y.neg THEN NegRep(q0) ELSE q0
      r  == IF x.neg THEN NegRep(r0) ELSE r0
  IN [q |-> q, r |-> r,
      p |-> dv.p \cup {SignCase(x0, y0), IF q.imm THEN "q.imm" ELSE "q.sto", IF r.imm THEN "r.imm" ELSE "r.sto"} \cup OpLab(x0, y0),
      ok |-> dv.ok]

---------------------------------------------------------------------------
(* refinement                                                               *)
(* abstraction function: the integer a representation stands for, as a BigZ  *)
(* value (all values here are far below 2^31, so Val is computed natively)  *)
ToZ(x) == FromInt(Val(x))

GoodRes(o, want) == /\ o.ok
                    /\ (~o.x.imm => DigitsOk(o.x.d))
                    /\ Eq(ToZ(o.x), want)
                    /\ Normalised(o.x)

RefPlus(x, y)  == GoodRes(BPlus(x, y), Add(ToZ(x), ToZ(y)))
RefMinus(x, y) == GoodRes(BMinus(x, y), Sub(ToZ(x), ToZ(y)))
RefTimes(x, y) == GoodRes(BTimes(x, y), Mul(ToZ(x), ToZ(y)))
RefDivide(x, y) ==
  LET o == BDivide(x, y)  A == ToZ(x)  B0 == ToZ(y)  Q == ToZ(o.q)  Rm == ToZ(o.r)
  IN /\ o.ok
     /\ (~o.q.imm => DigitsOk(o.q.d)) /\ (~o.r.imm => DigitsOk(o.r.d))
     /\ Eq(A, Add(Mul(Q, B0), Rm)) /\ Lt(Abs(Rm), Abs(B0))
     /\ (IsZero(Rm) \/ Rm.neg = A.neg) /\ (IsZero(Q) \/ Q.neg = (A.neg # B0.neg))
     /\ Normalised(o.q) /\ Normalised(o.r)

(* the representation switch itself *)
RefRep(n) == /\ Val(Rep(n)) = n /\ Val(Store(Rep(n))) = n /\ ImmedIfCan(Store(Rep(n))) = Rep(n)
             /\ New(n) = Rep(n) /\ Eq(ToZ(Rep(n)), FromInt(n))
             /\ BLength(Rep(n)) = (IF n = 0 THEN 1 ELSE BitLen(FromInt(n)))
             /\ BLength(Store(Rep(n))) = BLength(Rep(n))

MaxA == Pow2[LGR * DA] - 1
MaxB == Pow2[LGR * DB] - 1
RangeA == IF SIGNS = "all" THEN (-MaxA)..MaxA ELSE 0..MaxA
RangeB == (-MaxB)..MaxB

CheckA(n) ==
  /\ RefRep(n)
  /\ \A k \in RangeB :
       LET x == Rep(n)  y == Rep(k) IN
       /\ RefPlus(x, y) /\ RefPlus(y, x) /\ RefMinus(x, y) /\ RefMinus(y, x)
       /\ RefTimes(x, y) /\ RefTimes(y, x)
       /\ (k # 0 => RefDivide(x, y))
       /\ (n # 0 /\ NAbs(n) <= MaxB => RefDivide(y, x))

---------------------------------------------------------------------------
(* state machine 1: exhaustive refinement check (one state per left operand)*)
G == 32
Init == ph = 0 /\ a = 0 /\ b = 0 /\ op = 0
Next == \/ ph = 0 /\ ph' = 1 /\ a' \in 0..(G - 1) /\ UNCHANGED <<b, op>>
        \/ ph = 1 /\ ph' = 2 /\ a' \in {v \in RangeA : v % G = a} /\ UNCHANGED <<b, op>>
        \/ ph = 2 /\ UNCHANGED vars
Check == ph = 2 => CheckA(a)

(* state machine 2: path export.  One state per (operation, a, b); the VIEW  *)
(* keeps one state per (operation, path, residue), and each kept state      *)
(* prints its operands as digit-class patterns.                             *)
Cls(dg) == IF dg = 0 THEN "0" ELSE IF dg = 1 THEN "1" ELSE IF dg = R - 1 THEN "m" ELSE IF dg = R - 2 THEN "n"
           ELSE IF dg = R \div 2 THEN "h" ELSE IF dg = R \div 2 - 1 THEN "g" ELSE "x"
Pat(n) == LET d == DigitsOf(NAbs(n)) IN [neg |-> n < 0, cls |-> [i \in 1..Len(d) |-> Cls(d[i])]]
OpNames == <<"plus", "minus", "times", "divide">>
PathOf(o, n, k) ==
  LET x == Rep(n)  y == Rep(k)
  IN IF o = 1 THEN BPlus(x, y).p ELSE IF o = 2 THEN BMinus(x, y).p ELSE IF o = 3 THEN BTimes(x, y).p
     ELSE IF k = 0 THEN {"none"} ELSE BDivide(x, y).p
PInit == ph = 0 /\ a = 0 /\ b = 0 /\ op = 0
PNext == \/ ph = 0 /\ ph' = 1 /\ a' \in 0..(G - 1) /\ b' = 0 /\ op' = 0
         \/ ph = 1 /\ ph' = 2 /\ a' \in {v \in RangeA : v % G = a} /\ b' \in RangeB /\ op' \in 1..4
         \/ ph = 2 /\ ph' = 3 /\ UNCHANGED <<a, b, op>>
               /\ PrintT(ToJson([path |-> PathOf(op, a, b), op |-> OpNames[op], a |-> Pat(a), b |-> Pat(b), lgr |-> LGR]))
         \/ ph = 3 /\ UNCHANGED <<ph, a, b, op>>
PView == IF ph = 0 THEN <<0, 0, {}, 0>> ELSE IF ph = 1 THEN <<1, a, {}, 0>>
         ELSE <<ph, op, PathOf(op, a, b), (a + 3 * b) % 3>>
=============================================================================
