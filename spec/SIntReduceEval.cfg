SPECIFICATION ESpec
CONSTANTS
  W = 64
  P = 31
  Domain = "boundary"
CHECK_DEADLOCK FALSE
