----------------------------- MODULE WordCheck -----------------------------
(***************************************************************************)
(* Exhaustive sanity check of Word.tla against TLC's native integers.      *)
(* For the small width W (8 in WordCheck.cfg: one radix-2^11 digit; 13 in  *)
(* WordCheck13.cfg: two digits, so the digit-level bit operations and the  *)
(* wrap cross a digit boundary) every pair (a, b) of RangeA x RangeB is    *)
(* visited and every Word operator is compared with its definition written *)
(* with native +, *, \div, % on small numbers.                             *)
(***************************************************************************)
EXTENDS Word, TLC

CONSTANTS W,        \* width under test, <= 14 so that products stay below 2^31
          FullA,    \* TRUE: a ranges over all W-bit values; FALSE: over a boundary set
          FullB     \* the same for b

VARIABLES a, b, ph, za, zb     \* za, zb: the BigZ forms of a, b (state variables: evaluated once)

Lo == -Pow2[W - 1]
Hi == Pow2[W - 1] - 1
BndB == {0, 1, -1, 2, -2, 3, -3, 7, -7, Hi, Hi - 1, Lo, Lo + 1}
        \cup UNION {{Pow2[k], Pow2[k] - 1, Pow2[k] + 1, -Pow2[k], -Pow2[k] - 1, 1 - Pow2[k]} : k \in 1..(W - 2)}
RangeA == IF FullA THEN Lo..Hi ELSE {x \in BndB : x >= Lo /\ x <= Hi}
RangeB == IF FullB THEN Lo..Hi ELSE {x \in BndB : x >= Lo /\ x <= Hi}

(* native reference definitions *)
NWrap(n) == ((n + Pow2[W - 1]) % Pow2[W]) - Pow2[W - 1]
NU(n)    == n % Pow2[W]                                  \* unsigned view
NBit(n, i) == (NU(n) \div Pow2[i]) % 2
RECURSIVE NBitSum(_, _, _, _)
NBitSum(F(_, _), x, y, i) == IF i = W THEN 0
                             ELSE Pow2[i] * F(NBit(x, i), NBit(y, i)) + NBitSum(F, x, y, i + 1)
NAnd(x, y) == NWrap(NBitSum(LAMBDA p, q : p * q, x, y, 0))
NOr(x, y)  == NWrap(NBitSum(LAMBDA p, q : IF p + q > 0 THEN 1 ELSE 0, x, y, 0))
NXor(x, y) == NWrap(NBitSum(LAMBDA p, q : (p + q) % 2, x, y, 0))
NAbs(n)  == IF n < 0 THEN -n ELSE n
NSgn(n)  == IF n < 0 THEN -1 ELSE IF n > 0 THEN 1 ELSE 0
NQuo(x, y) == NSgn(x) * NSgn(y) * (NAbs(x) \div NAbs(y))
NRem(x, y) == x - y * NQuo(x, y)
RECURSIVE NGcd(_, _)
NGcd(x, y) == IF y = 0 THEN x ELSE NGcd(y, x % y)
RECURSIVE NLen(_)
NLen(n) == IF n = 0 THEN 0 ELSE 1 + NLen(n \div 2)

ZA == za
ZB == zb

Init == a = 0 /\ b = 0 /\ ph = 0 /\ za = Zero /\ zb = Zero
Next == \/ /\ ph = 0 /\ a' \in RangeA /\ b' = 0 /\ ph' = 1 /\ za' = FromInt(a') /\ zb' = Zero
        \/ /\ ph = 1 /\ b' \in RangeB /\ a' = a /\ ph' = 2 /\ za' = za /\ zb' = FromInt(b')
Spec == Init /\ [][Next]_<<a, b, ph, za, zb>>

Wraps ==
  /\ ToInt(SWrap(FromInt(a + b), W)) = NWrap(a + b)
  /\ ToInt(UWrap(ZA, W)) = NU(a)
  /\ InS(ZA, W) /\ InU(UWrap(ZA, W), W)
  /\ ~InS(FromInt(Hi + 1), W) /\ ~InS(FromInt(Lo - 1), W)
  /\ ToInt(SMin(W)) = Lo /\ ToInt(SMax(W)) = Hi /\ ToInt(UMax(W)) = Pow2[W] - 1

Arith ==
  /\ ToInt(WPlus(ZA, ZB, W))  = NWrap(a + b)
  /\ ToInt(WMinus(ZA, ZB, W)) = NWrap(a - b)
  /\ ToInt(WTimes(ZA, ZB, W)) = NWrap(a * b)
  /\ ToInt(WNegate(ZA, W))    = NWrap(-a)
  /\ ToInt(WTimesPlus(ZA, ZB, ZA, W)) = NWrap(a * b + a)
  /\ ToInt(WGcd(ZA, ZB, W)) = NWrap(NGcd(NAbs(a), NAbs(b)))

Division ==
  /\ DivDefined(ZA, ZB, W) = (b # 0 /\ ~(a = Lo /\ b = -1))
  /\ DivDefined(ZA, ZB, W) =>
       /\ ToInt(WQuo(ZA, ZB)) = NQuo(a, b)
       /\ ToInt(WRem(ZA, ZB)) = NRem(a, b)
       /\ InS(WQuo(ZA, ZB), W) /\ InS(WRem(ZA, ZB), W)
       \* the division identity, truncation, sign of the remainder
       /\ a = b * ToInt(WQuo(ZA, ZB)) + ToInt(WRem(ZA, ZB))
       /\ NAbs(ToInt(WRem(ZA, ZB))) < NAbs(b)
       /\ (ToInt(WRem(ZA, ZB)) = 0 \/ NSgn(ToInt(WRem(ZA, ZB))) = NSgn(a))

Bits ==
  /\ ToInt(WAnd(ZA, ZB, W)) = NAnd(a, b)
  /\ ToInt(WOr(ZA, ZB, W))  = NOr(a, b)
  /\ ToInt(WXor(ZA, ZB, W)) = NXor(a, b)
  /\ ToInt(WNot(ZA, W)) = -a - 1
  /\ \A i \in 0..(W - 1) : WBit(ZA, i, W) = (NBit(a, i) = 1)
  \* de Morgan and the arithmetic identity a + b = (a xor b) + 2 (a and b)
  /\ Eq(WNot(WAnd(ZA, ZB, W), W), WOr(WNot(ZA, W), WNot(ZB, W), W))
  /\ Eq(WPlus(ZA, ZB, W), WPlus(WXor(ZA, ZB, W), WShl(WAnd(ZA, ZB, W), 1, W), W))
  /\ WIsEven(ZA) = (a % 2 = 0) /\ WIsOdd(ZA) = (a % 2 = 1)
  /\ WLength(ZA) = NLen(NAbs(a))

Shifts ==
  \A k \in 0..(W - 1) :
    /\ ToInt(WShl(ZA, k, W)) = NWrap(a * Pow2[k])          \* shift up = multiplication by 2^k
    /\ ToInt(WShr(ZA, k)) = a \div Pow2[k]                 \* arithmetic shift = floor division
    /\ ToInt(WShrU(ZA, k, W)) = NU(a) \div Pow2[k]

Doubles ==
  LET ua == NU(a)  ub == NU(b)
      UA == FromInt(ua)  UB == FromInt(ub)
      td == UTimesDouble(UA, UB, W)
      ps == UPlusStep(UA, UB, One, W)
      ts == UTimesStep(UA, UB, UA, UB, W)
  IN /\ ToInt(td[1]) * Pow2[W] + ToInt(td[2]) = ua * ub
     /\ InU(td[1], W) /\ InU(td[2], W)
     /\ ToInt(ps[1]) * Pow2[W] + ToInt(ps[2]) = ua + ub + 1
     /\ ToInt(ps[1]) \in {0, 1}
     /\ ToInt(ts[1]) * Pow2[W] + ToInt(ts[2]) = ua * ub + ua + ub
     /\ InU(ts[1], W) /\ InU(ts[2], W)
     /\ (ub # 0 =>
           LET dd == UDivideDouble(UA, UB, UB, W)     \* (ua*2^W + ub) / ub
               n  == ua * Pow2[W] + ub
           IN /\ (ToInt(dd[1]) * Pow2[W] + ToInt(dd[2])) * ub + ToInt(dd[3]) = n
              /\ ToInt(dd[3]) < ub /\ InU(dd[1], W) /\ InU(dd[2], W))

Narrow ==
  /\ W > 4 => ToInt(WNarrowS(ZA, W - 3)) = ((a + Pow2[W - 4]) % Pow2[W - 3]) - Pow2[W - 4]
  /\ W > 4 => ToInt(WNarrowU(ZA, W - 3)) = a % Pow2[W - 3]

AllOk == ph = 2 => (Wraps /\ Arith /\ Division /\ Bits /\ Shifts /\ Doubles /\ Narrow)
=============================================================================
