----------------------------- MODULE TraceUnits -----------------------------
(***************************************************************************)
(* Trace validation for Units.tla (property C05).  The trace (ndjson, file *)
(* named by the environment variable TRACE) records what gen/units.py did  *)
(* with the real compiler, one event per Units action:                     *)
(*   Begin   {prog, level}                  a new path / split starts      *)
(*   Step    {to, ok, raw}                  Save(to): src|saved -> saved   *)
(*   Final   {to, ok, nb, nt, subst, od, conf}   Observe(to)               *)
(*   Split   {lib, form, qlib, ok}          Split(L, qlib, level, form)    *)
(*   LinkRun {route, ok, od, conf}          LinkRun(route)                 *)
(* raw = digest of the saved form's bytes (for an archive: of its member); *)
(* nb  = digest of the generated text after normalising the recorded input *)
(*       file name; nt = digest of its token sequence after each           *)
(*       foamSIntReduce expression was replaced by the value TLC computed  *)
(*       for it (SIntReduceEval); subst = number of such replacements;     *)
(* od  = digest of what a run printed and its exit class; conf = the run   *)
(*       printed what TLC derived from AldorSem for the program.           *)
(* Each event must be a step of the Units machine (else "illegal"), must   *)
(* have succeeded, and TLC decides                                         *)
(*   Commute   a text from a saved form equals the text generated directly  *)
(*             from the source at the same level: byte-wise (nb) when it   *)
(*             holds no re-expressed constant, else token-wise (nt);       *)
(*   Identity  Resave, Archive and Extract reproduce the bytes (raw);      *)
(*   Behaviour every run conforms and prints what the direct run printed;  *)
(*             the split program prints what the whole program printed.    *)
(* A failed obligation prints a BAD line (the harness turns it into a      *)
(* VIOLATION) and the validation continues; the SUMMARY line closes it.    *)
(*                                                                         *)
(* Coverage obligations of the codec classes (FoamCodec.tla, SefoCodec.tla):*)
(*   Need  {fields: [{field, bound}], leaves: [kind]}   what TLC exported   *)
(*         as to be reached: every field kind of the FOAM byte codec a      *)
(*         source program can drive beyond one byte, and every leaf kind    *)
(*         of a type expression;                                            *)
(*   Reach {fields: [{field, max}]}   at the start of a path through saved  *)
(*         forms: the largest value of each field kind in the FOAM text     *)
(*         generated directly from the source at the path's level.  The     *)
(*         path through .ao is then a witness for these field kinds;        *)
(*   Split events of library + client programs carry leaves: the leaf kinds *)
(*         of the type expressions the library exports.                     *)
(* At the end every needed (field, bound) must have been reached by a unit  *)
(* that was saved as .ao (a Step to ao was performed: whatever goes wrong   *)
(* from there on is a BAD line), and every needed leaf kind by a split      *)
(* program whose library was compiled; a gap prints a GAP line (the harness *)
(* treats it as a machinery error: the binding did not cover what the       *)
(* specification enumerates).                                               *)
(* Run with -workers 1.                                                    *)
(***************************************************************************)
EXTENDS Units, IOUtils

Trc == ndJsonDeserialize(IOEnv.TRACE)

VARIABLES l,        \* next event
          prog,     \* program of the current path
          seen,     \* <<prog, level, kind>> -> [nb, nt, od] of the directly generated artefact
          rawcur,   \* raw digest of the current saved form
          dead,     \* the current path has failed: its remaining events are skipped
          nbad,
          need,     \* [fields |-> set of <<field, bound>>, leaves |-> set of kinds] still to be reached
          wide      \* <<field, max>> pairs of the program whose paths are being performed

tvars == <<vars, l, prog, seen, rawcur, dead, nbad, need, wide>>
cov == <<need, wide>>

Ev == Trc[l]
IsEvent(n) == l <= Len(Trc) /\ Trc[l].ev = n
ToSet(s) == {s[i] : i \in DOMAIN s}

Bad(why) == /\ PrintT("BAD " \o ToJson([l |-> l, why |-> why]))
            /\ nbad' = nbad + 1
Good == nbad' = nbad

TraceInit == /\ l = 1 /\ prog = "" /\ seen = <<>> /\ rawcur = <<>> /\ dead = FALSE /\ nbad = 0
             /\ need = [fields |-> {}, leaves |-> {}] /\ wide = {}
             /\ level \in Levels /\ level = CHOOSE q \in Levels : TRUE
             /\ chain = <<>> /\ cur = Source(level) /\ steps = <<>> /\ obs = None /\ split = None

TrBegin ==
  /\ IsEvent("Begin")
  /\ IF Ev.level \in Levels
     THEN /\ level' = Ev.level /\ cur' = Source(Ev.level) /\ dead' = FALSE /\ Good
     ELSE /\ level' = level /\ cur' = Source(level) /\ dead' = TRUE /\ Bad("unknown level")
  /\ chain' = <<>> /\ steps' = <<>> /\ obs' = None /\ split' = None
  /\ prog' = Ev.prog /\ rawcur' = <<>> /\ l' = l + 1 /\ UNCHANGED seen
  /\ wide' = (IF Ev.prog = prog THEN wide ELSE {}) /\ UNCHANGED need

Skip == /\ l <= Len(Trc) /\ dead /\ Trc[l].ev # "Begin"
        /\ l' = l + 1 /\ UNCHANGED <<vars, prog, seen, rawcur, dead, nbad, cov>>

Kill(why) == /\ Bad(why) /\ dead' = TRUE /\ l' = l + 1 /\ UNCHANGED <<vars, prog, seen, rawcur, wide>>

CanSave(to) == DoPaths /\ obs = None /\ split = None /\ to \in Saved /\ Legal(cur.kind, to) /\ Len(chain) < MaxLen

TrStep ==
  /\ IsEvent("Step") /\ ~dead
  /\ need' = IF CanSave(Ev.to) /\ Ev.to = "ao" /\ cur.kind = "src"
              THEN [need EXCEPT !.fields = {x \in @ : ~\E w \in wide : w[1] = x[1] /\ w[2] >= x[2]}] ELSE need
  /\ IF ~CanSave(Ev.to) THEN Kill("illegal step")
     ELSE IF ~Ev.ok THEN Kill("step failed")
     ELSE /\ Save(Ev.to)
          /\ rawcur' = Ev.raw
          /\ IF StepName(cur.kind, Ev.to) \in {"Resave", "Archive", "Extract"} /\ Ev.raw # rawcur
             THEN Bad("identity: " \o StepName(cur.kind, Ev.to) \o " changed the bytes")
             ELSE Good
          /\ l' = l + 1 /\ UNCHANGED <<prog, seen, dead, wide>>

CanObserve(to) == /\ DoPaths /\ obs = None /\ split = None /\ to \in Finals /\ Legal(cur.kind, to)
                  /\ ~(cur.kind = "fm" /\ to = "fm")

Key(k) == <<prog, level, k>>
Digests == [nb |-> Ev.nb, nt |-> Ev.nt, od |-> Ev.od]

TextAgrees == IF Ev.subst = 0 THEN Ev.nb = seen[Key(Ev.to)].nb ELSE Ev.nt = seen[Key(Ev.to)].nt
RunAgrees  == Ev.od = seen[Key(Ev.to)].od

TrFinal ==
  /\ IsEvent("Final") /\ ~dead /\ UNCHANGED need
  /\ IF ~CanObserve(Ev.to) THEN Kill("illegal step")
     ELSE IF ~Ev.ok THEN Kill("step failed")
     ELSE /\ Observe(Ev.to)
          /\ IF chain = <<>>
             THEN /\ seen' = IF Key(Ev.to) \in DOMAIN seen THEN seen ELSE seen @@ (Key(Ev.to) :> Digests)
                  /\ IF Ev.to \in Runs /\ ~Ev.conf THEN Bad("behaviour: the directly compiled program does not conform")
                     ELSE Good
             ELSE /\ UNCHANGED seen
                  /\ IF Key(Ev.to) \notin DOMAIN seen THEN Bad("no directly generated artefact to compare with")
                     ELSE IF Ev.to \in Texts /\ ~TextAgrees THEN Bad("commute: text from the saved form differs")
                     ELSE IF Ev.to \in Runs /\ ~Ev.conf THEN Bad("behaviour: the run does not conform")
                     ELSE IF Ev.to \in Runs /\ ~RunAgrees THEN Bad("behaviour: the run differs from the direct run")
                     ELSE Good
          /\ l' = l + 1 /\ UNCHANGED <<prog, rawcur, dead, wide>>

TrNeed ==
  /\ IsEvent("Need")
  /\ need' = [fields |-> need.fields \cup {<<Ev.fields[i].field, Ev.fields[i].bound>> : i \in DOMAIN Ev.fields},
              leaves |-> need.leaves \cup ToSet(Ev.leaves)]
  /\ l' = l + 1 /\ UNCHANGED <<vars, prog, seen, rawcur, dead, nbad, wide>>

TrReach ==
  /\ IsEvent("Reach") /\ ~dead
  /\ wide' = {<<Ev.fields[i].field, Ev.fields[i].max>> : i \in DOMAIN Ev.fields}
  /\ l' = l + 1 /\ UNCHANGED <<vars, prog, seen, rawcur, dead, nbad, need>>

TrSplit ==
  /\ IsEvent("Split") /\ ~dead
  /\ need' = IF "leaves" \in DOMAIN Ev THEN [need EXCEPT !.leaves = @ \ ToSet(Ev.leaves)] ELSE need
  /\ LET L == ToSet(Ev.lib) IN
     IF ~(DoSplits /\ obs = None /\ split = None /\ chain = <<>> /\ L # {} /\ L \subseteq 1..NFuns
          /\ Ev.qlib \in Levels /\ Ev.form \in {"ao", "al"}) THEN Kill("illegal step")
     ELSE IF ~Ev.ok THEN Kill("step failed")
     ELSE /\ Split(L, Ev.qlib, level, Ev.form) /\ Good
          /\ l' = l + 1 /\ UNCHANGED <<prog, seen, rawcur, dead, wide>>

TrLinkRun ==
  /\ IsEvent("LinkRun") /\ ~dead /\ UNCHANGED need
  /\ IF ~(split # None /\ split.linked = None /\ Ev.route \in Runs /\ split.lib.symes) THEN Kill("illegal step")
     ELSE IF ~Ev.ok THEN Kill("step failed")
     ELSE /\ LinkRun(Ev.route)
          /\ IF ~Ev.conf THEN Bad("behaviour: the split program does not conform")
             ELSE IF Key(Ev.route) \in DOMAIN seen /\ Ev.od # seen[Key(Ev.route)].od
                  THEN Bad("behaviour: the split program differs from the whole program")
             ELSE Good
          /\ l' = l + 1 /\ UNCHANGED <<prog, seen, rawcur, dead, wide>>

Finish ==
  /\ l = Len(Trc) + 1
  /\ \A x \in need.fields : PrintT("GAP " \o ToJson([field |-> x[1], bound |-> x[2]]))
  /\ \A x \in need.leaves : PrintT("GAP " \o ToJson([leaf |-> x]))
  /\ PrintT("SUMMARY " \o ToJson([events |-> Len(Trc), bad |-> nbad, gaps |-> Cardinality(need.fields) + Cardinality(need.leaves)]))
  /\ l' = l + 1 /\ UNCHANGED <<vars, prog, seen, rawcur, dead, nbad, cov>>

TraceNext == TrBegin \/ Skip \/ TrStep \/ TrFinal \/ TrSplit \/ TrLinkRun \/ TrNeed \/ TrReach \/ Finish
TraceSpec == TraceInit /\ [][TraceNext]_tvars

(* evaluated in every state of the trace: the invariants of Units *)
NoBad == nbad = 0
=============================================================================
