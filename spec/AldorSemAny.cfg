SPECIFICATION ExportSpec
CONSTANTS
  Modes = {"any"}
  Fuel = 1500
INVARIANT NoStuck
CHECK_DEADLOCK FALSE
