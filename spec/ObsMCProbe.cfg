SPECIFICATION Spec
CONSTANTS
  Inputs = {i1, i2}
  Cfgs = {c1, c2, c3}
  Values = {o1, o2}
  MaxLen = 4
INVARIANT NeverRejects
CHECK_DEADLOCK FALSE
