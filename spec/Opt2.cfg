SPECIFICATION Spec
CONSTANTS MaxToggles = 2
INVARIANTS TypeOK AllOffIsEmpty Q0IsAllOff OIsQ2
CHECK_DEADLOCK FALSE
