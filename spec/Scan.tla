-------------------------------- MODULE Scan ---------------------------------
(***************************************************************************)
(* Characters to tokens, as aldor/aldor/src/include.c (lines, indentation,  *)
(* system-command lines), scan.c (the token DFA with its escape handling    *)
(* and float-context state) and syscmd.c (#pile / #endpile) do it.          *)
(*                                                                          *)
(* A character is a one-character string.  A source text is a sequence of   *)
(* characters.  The result of ScanText is the token list that reaches the   *)
(* lineariser (module Linear): records [k |-> kind, t |-> spelling,         *)
(* c |-> column].                                                           *)
(*                                                                          *)
(* Transcribed: inclCalcIndentLevel (tab stops of 8), scStartLine,          *)
(* scAdvance0/scAdvance/scAdvance1 (an escape followed by white space is    *)
(* skipped, across lines; any other escaped character becomes a word        *)
(* character), scSkipSpace, scanTokenCases, scanWord (keyTag), scanNumber   *)
(* (radix, point, exponent; 0 and 1 are identifiers; floatCanFollow),       *)
(* scanString, scanComment, scanDoc, scanSpecial (keyLongest), scanNewLine, *)
(* scanSysCommand.  Not transcribed: warnings, #if/#include, bytes outside  *)
(* the printable ASCII set, the TK_Blank (`?x`) token.                      *)
(***************************************************************************)
EXTENDS Naturals, Integers, Sequences, SequencesExt, FiniteSets

Lower == {"a","b","c","d","e","f","g","h","i","j","k","l","m","n","o","p","q","r","s","t","u","v","w","x","y","z"}
Upper == {"A","B","C","D","E","F","G","H","I","J","K","L","M","N","O","P","Q","R","S","T","U","V","W","X","Y","Z"}
Digit == {"0","1","2","3","4","5","6","7","8","9"}
Space == {" ", "\t", "\n"}                    \* isspace() on the characters we generate
SymCh == {"'", "`", "&", ",", ";", "$", "#", "@", ":", "*", ".", "=", ">", "<", "^", "~", "+", "-", "/", "\\",
          "[", "{", "(", "]", "}", ")", "|"}
IsAlpha(c) == c \in Lower \cup Upper
IsDigit(c) == c \in Digit
IsAlnum(c) == IsAlpha(c) \/ IsDigit(c)
IsUpper(c) == c \in Upper
IsPrint(c) == IsAlnum(c) \/ c \in SymCh \cup {" ", "_", "\"", "%", "!", "?"}
WordCh(c)  == IsAlnum(c) \/ c \in {"%", "!", "?"}

Join(cs) == FoldLeft(LAMBDA a, b : a \o b, "", cs)

(* token.c:tokInfoTable -- the spellings that are keywords                  *)
AlphaKW == {"add", "and", "always", "assert", "break", "but", "by", "case", "catch", "default",
            "define", "delay", "do", "else", "except", "export", "exquo", "extend", "finally",
            "fix", "for", "fluid", "free", "from", "generate", "goto", "has", "if", "import",
            "in", "inline", "is", "isnt", "iterate", "let", "local", "macro", "mod", "never",
            "not", "of", "or", "pretend", "quo", "ref", "rem", "repeat", "return", "rule",
            "select", "then", "throw", "to", "try", "where", "while", "with", "yield"}
SymSeqs == { <<"'">>, <<"`">>, <<"&">>, <<",">>, <<";">>, <<"$">>, <<"#">>, <<"@">>,
             <<":","=">>, <<":">>, <<":","*">>, <<":",":">>, <<"*">>, <<"*","*">>, <<".">>, <<".",".">>,
             <<"=">>, <<"=","=">>, <<"=","=",">">>, <<"=",">">>, <<">">>, <<">",">">>, <<">","=">>,
             <<"<">>, <<"<","<">>, <<"<","=">>, <<"<","-">>, <<"^">>, <<"^","=">>, <<"~">>, <<"~","=">>,
             <<"+">>, <<"+","-">>, <<"+","-",">">>, <<"+","-",">","*">>, <<"-">>, <<"-",">">>, <<"-",">","*">>,
             <<"/">>, <<"/","\\">>, <<"\\">>, <<"\\","/">>,
             <<"[">>, <<"[","|">>, <<"{">>, <<"{","|">>, <<"(">>, <<"(","|">>, <<"]">>, <<"}">>, <<")">>,
             <<"|">>, <<"|","]">>, <<"|","}">>, <<"|",")">>, <<"|","|">> }
SymKW == {Join(s) : s \in SymSeqs}
CloserKW == {"]", "}", ")", "|]", "|}", "|)"}

NLT == "<NL>"                       \* the spelling used for KW_NewLine (as in Linear.tla)

---------------------------------------------------------------------------
(* include.c: split into lines; a line whose first character is # is a      *)
(* system command; otherwise leading blanks and tabs become the indentation *)
IndentOf(lead) == FoldLeft(LAMBDA i, c : IF c = " " THEN i + 1 ELSE ((i \div 8) + 1) * 8, 0, lead)

RawLines(text) ==        \* each line keeps its "\n"; a last line without "\n" is kept as it is
  LET st == FoldLeft(LAMBDA acc, c :
                       IF c = "\n" THEN [done |-> Append(acc.done, Append(acc.cur, c)), cur |-> <<>>]
                       ELSE [acc EXCEPT !.cur = Append(@, c)],
                     [done |-> <<>>, cur |-> <<>>], text)
  IN IF st.cur = <<>> THEN st.done ELSE Append(st.done, st.cur)

RECURSIVE LeadLen(_, _)
LeadLen(ln, i) == IF i <= Len(ln) /\ ln[i] \in {" ", "\t"} THEN LeadLen(ln, i + 1) ELSE i - 1

SrcLine(ln) ==
  IF ln[1] = "#" THEN [sys |-> TRUE, ind |-> 0, txt |-> ln]
  ELSE LET k == LeadLen(ln, 1) IN [sys |-> FALSE, ind |-> IndentOf(SubSeq(ln, 1, k)), txt |-> SubSeq(ln, k + 1, Len(ln))]
Include(text) == LET rl == RawLines(text) IN [i \in 1..Len(rl) |-> SrcLine(rl[i])]

---------------------------------------------------------------------------
(* The scanner works on the concatenation of the line texts; `col` is       *)
(* scLineChar for every character, `first` the positions where a line       *)
(* starts, `sys` those where a system-command line starts.                  *)
Flat(sl) ==
  FoldLeft(LAMBDA acc, l :
             LET n0  == Len(acc.ch)
                 cols == FoldLeft(LAMBDA cs, i :
                                    IF i = 1 THEN <<l.ind>>
                                    ELSE LET p == cs[i - 1]
                                         IN Append(cs, IF l.txt[i] = "\t"
                                                       THEN (IF (p + 1) % 8 = 0 THEN p + 8 ELSE (((p + 1) + 7) \div 8) * 8 - 1)
                                                       ELSE p + 1),
                                  <<>>, [i \in 1..Len(l.txt) |-> i])
             IN [ch |-> acc.ch \o l.txt, col |-> acc.col \o cols,
                 first |-> acc.first \cup {n0 + 1},
                 sys |-> IF l.sys THEN acc.sys \cup {n0 + 1} ELSE acc.sys],
           [ch |-> <<>>, col |-> <<>>, first |-> {}, sys |-> {}], sl)

(* scFloatState *)
AnyFloat == "AnyFloat"  NoPreDotFloat == "NoPreDotFloat"  NoDotFloat == "NoDotFloat"

(* floatCanFollow(tk) *)
FloatCanFollow(tok) ==
  IF tok.k = "kw" /\ tok.t = "." THEN NoDotFloat
  ELSE IF tok.k \in {"id", "int", "float", "str"} THEN NoPreDotFloat
  ELSE IF tok.k = "kw" /\ tok.t \in CloserKW THEN NoPreDotFloat
  ELSE AnyFloat

---------------------------------------------------------------------------
(* Movement.  A scanner state is [p |-> position, esc |-> scIsEscaped,      *)
(* fs |-> scFloatState]; F is the flattened source.  Crossing into a new    *)
(* line calls scStartLine, which sets scFloatState = AnyFloat.              *)
Peek(F, p) == IF p <= Len(F.ch) THEN F.ch[p] ELSE "<END>"

(* scAdvance0 from p: next position and whether a line start was crossed    *)
Crossed(F, p) == (p + 1) \in F.first

RECURSIVE SkipWs(_, _, _)
SkipWs(F, p, crossed) ==           \* while (isspace(peek)) scAdvance0()
  IF Peek(F, p) \in Space THEN SkipWs(F, p + 1, crossed \/ Crossed(F, p)) ELSE [p |-> p, crossed |-> crossed]

(* scAdvance1: at an escape character (not in a comment)                    *)
RECURSIVE Adv1(_, _, _)
Adv1(F, q, crossed) ==
  IF Peek(F, q) # "_" THEN [p |-> q, esc |-> FALSE, crossed |-> crossed]
  ELSE LET r == q + 1
           c1 == crossed \/ Crossed(F, q)
       IN IF Peek(F, r) \in Space
          THEN LET w == SkipWs(F, r, c1) IN Adv1(F, w.p, w.crossed)
          ELSE [p |-> r, esc |-> TRUE, crossed |-> c1]

(* scAdvance *)
Adv(F, s, inCom) ==
  LET q  == s.p + 1
      c0 == Crossed(F, s.p)
      r  == IF inCom THEN [p |-> q, esc |-> FALSE, crossed |-> c0] ELSE Adv1(F, q, c0)
  IN [p |-> r.p, esc |-> r.esc, fs |-> IF r.crossed THEN AnyFloat ELSE s.fs]

RECURSIVE AdvN(_, _, _)
AdvN(F, s, n) == IF n = 0 THEN s ELSE AdvN(F, Adv(F, s, FALSE), n - 1)

RECURSIVE SkipSpace(_, _)
SkipSpace(F, s) == IF Peek(F, s.p) \in {" ", "\t"} THEN SkipSpace(F, Adv(F, s, FALSE)) ELSE s

TokPos(F, s) == (IF s.p <= Len(F.col) THEN F.col[s.p] ELSE 0) - (IF s.esc THEN 1 ELSE 0)

---------------------------------------------------------------------------
(* The scanners; each returns [tok |-> token, s |-> state after it]         *)
Tok(k, cs, c) == [k |-> k, t |-> Join(cs), c |-> c]

(* scanWord *)
RECURSIVE WordLoop(_, _, _)
WordLoop(F, s, buf) ==
  LET c == Peek(F, s.p)
  IN IF c = "<END>" \/ (~WordCh(c) /\ ~s.esc) THEN [buf |-> buf, s |-> s]
     ELSE WordLoop(F, Adv(F, s, FALSE), Append(buf, c))
ScanWord(F, s) ==
  LET r  == WordLoop(F, s, <<>>)
      w  == Join(r.buf)
      kw == w \in AlphaKW \cup SymKW
  IN [tok |-> [k |-> IF ~s.esc /\ kw THEN "kw" ELSE "id", t |-> w, c |-> TokPos(F, s)], s |-> r.s]

(* scanNumber *)
DigitVal == [d \in Digit |-> CASE d = "0" -> 0 [] d = "1" -> 1 [] d = "2" -> 2 [] d = "3" -> 3 [] d = "4" -> 4
                                [] d = "5" -> 5 [] d = "6" -> 6 [] d = "7" -> 7 [] d = "8" -> 8 [] d = "9" -> 9]
NumVal(buf) == FoldLeft(LAMBDA a, d : IF a > 1000 THEN a ELSE a * 10 + DigitVal[d], 0, buf)
RECURSIVE DigitLoop(_, _, _, _)
DigitLoop(F, s, buf, up) ==        \* digits (and upper-case letters if up)
  LET c == Peek(F, s.p)
  IN IF IsDigit(c) \/ (up /\ IsUpper(c)) THEN DigitLoop(F, Adv(F, s, FALSE), Append(buf, c), up)
     ELSE [buf |-> buf, s |-> s]

IntOrId(buf, rpos, nd, c0) ==      \* 0 and 1 are identifiers, the radix is ignored
  IF nd = 1 /\ buf[rpos + 1] \in {"0", "1"} THEN [k |-> "id", t |-> buf[rpos + 1], c |-> c0]
  ELSE Tok("int", buf, c0)

ScanNumber(F, s0) ==
  LET c0 == TokPos(F, s0)
      d1 == DigitLoop(F, s0, <<>>, FALSE)
      nd1 == Len(d1.buf)
      hasradix == Peek(F, d1.s.p) = "r"
  IN IF hasradix /\ (NumVal(d1.buf) < 2 \/ NumVal(d1.buf) > 36)
     THEN [tok |-> Tok("err", d1.buf, c0), s |-> d1.s]                       \* ALDOR_E_ScanBadRadix
     ELSE
     LET s1   == IF hasradix THEN Adv(F, d1.s, FALSE) ELSE d1.s
         b1   == IF hasradix THEN Append(d1.buf, "r") ELSE d1.buf
         rpos == IF hasradix THEN nd1 + 1 ELSE 0
         cA   == Peek(F, s1.p)
     IN IF hasradix /\ ~IsDigit(cA) /\ ~IsUpper(cA) /\ cA # "."
        THEN [tok |-> Tok("err", b1, c0), s |-> s1]                          \* ALDOR_E_ScanBadAftRad
        ELSE
        LET d2 == IF hasradix THEN DigitLoop(F, s1, b1, TRUE) ELSE [buf |-> b1, s |-> s1]
            nd == IF hasradix THEN Len(d2.buf) - Len(b1) ELSE nd1
            c  == Peek(F, d2.s.p)
            haspoint == c = "."
        IN IF haspoint /\ (d2.s.fs = NoDotFloat \/ Peek(F, d2.s.p + 1) = ".")
           THEN [tok |-> IF nd = 0 THEN Tok("err", d2.buf, c0) ELSE IntOrId(d2.buf, rpos, nd, c0), s |-> d2.s]
           ELSE
           LET s3 == IF haspoint THEN Adv(F, d2.s, FALSE) ELSE d2.s
               b3 == IF haspoint THEN Append(d2.buf, ".") ELSE d2.buf
               d3 == IF haspoint THEN DigitLoop(F, s3, b3, hasradix) ELSE [buf |-> b3, s |-> s3]
               nd3 == nd + (Len(d3.buf) - Len(b3))
               ce == Peek(F, d3.s.p)
               hasexpon == ce \in {"e", "E"}
           IN IF nd3 = 0 THEN [tok |-> Tok("err", d3.buf, c0), s |-> d3.s]  \* ALDOR_E_ScanNoDigits
              ELSE IF ~hasexpon
              THEN [tok |-> IF haspoint THEN Tok("float", d3.buf, c0) ELSE IntOrId(d3.buf, rpos, nd3, c0), s |-> d3.s]
              ELSE LET s4 == Adv(F, d3.s, FALSE)
                       b4 == Append(d3.buf, ce)
                       sg == Peek(F, s4.p) \in {"+", "-"}
                       s5 == IF sg THEN Adv(F, s4, FALSE) ELSE s4
                       b5 == IF sg THEN Append(b4, Peek(F, s4.p)) ELSE b4
                   IN IF ~IsDigit(Peek(F, s5.p)) THEN [tok |-> Tok("err", b5, c0), s |-> s5]   \* ALDOR_E_ScanBadExpon
                      ELSE LET d6 == DigitLoop(F, s5, b5, FALSE) IN [tok |-> Tok("float", d6.buf, c0), s |-> d6.s]

(* scanString: the token text is printed with its quotes (tokPrint)         *)
RECURSIVE StrLoop(_, _, _)
StrLoop(F, s, buf) ==
  LET c == Peek(F, s.p)
  IN IF ~s.esc /\ c = "\"" THEN [buf |-> buf, s |-> s, ok |-> TRUE]
     ELSE IF ~s.esc /\ (c = "\n" \/ c = "<END>") THEN [buf |-> buf, s |-> s, ok |-> FALSE]
     ELSE StrLoop(F, Adv(F, s, FALSE), Append(buf, c))
ScanString(F, s0) ==
  LET c0 == TokPos(F, s0)
      r  == StrLoop(F, Adv(F, s0, FALSE), <<>>)
  IN IF r.ok THEN [tok |-> Tok("str", <<"\"">> \o r.buf \o <<"\"">>, c0), s |-> Adv(F, r.s, FALSE)]
     ELSE [tok |-> Tok("err", r.buf, c0), s |-> r.s]

(* scanComment, scanDoc: to the end of the line, escapes are not processed  *)
RECURSIVE RestOfLine(_, _, _)
RestOfLine(F, s, buf) ==
  LET c == Peek(F, s.p)
  IN IF c = "\n" \/ c = "<END>" THEN [buf |-> buf, s |-> s] ELSE RestOfLine(F, Adv(F, s, TRUE), Append(buf, c))
ScanComment(F, s0) ==
  LET r == RestOfLine(F, Adv(F, Adv(F, s0, TRUE), TRUE), <<>>)
  IN [tok |-> Tok("com", <<"-", "-">> \o r.buf, TokPos(F, s0)), s |-> [r.s EXCEPT !.esc = FALSE]]
ScanDoc(F, s0) ==
  LET s2  == Adv(F, Adv(F, s0, TRUE), TRUE)
      pre == Peek(F, s2.p) = "+"
      r   == RestOfLine(F, IF pre THEN Adv(F, s2, TRUE) ELSE s2, <<>>)
  IN [tok |-> Tok(IF pre THEN "pre" ELSE "post", (IF pre THEN <<"+", "+", "+">> ELSE <<"+", "+">>) \o r.buf, TokPos(F, s0)),
      s |-> [r.s EXCEPT !.esc = FALSE]]

(* scanSpecial: keyLongest on the raw characters, then advance over them    *)
LongestSym(F, p) ==
  LET fits(n) == p + n - 1 <= Len(F.ch) /\ SubSeq(F.ch, p, p + n - 1) \in SymSeqs
  IN IF fits(4) THEN 4 ELSE IF fits(3) THEN 3 ELSE IF fits(2) THEN 2 ELSE IF fits(1) THEN 1 ELSE 0
ScanError(F, s) == [tok |-> Tok("err", <<Peek(F, s.p)>>, TokPos(F, s)), s |-> Adv(F, s, FALSE)]
ScanSpecial(F, s) ==
  LET n == LongestSym(F, s.p)
  IN IF n = 0 THEN ScanError(F, s)
     ELSE [tok |-> Tok("kw", SubSeq(F.ch, s.p, s.p + n - 1), TokPos(F, s)), s |-> AdvN(F, s, n)]

(* scanNewLine *)
ScanNewLine(F, s) == [tok |-> [k |-> "kw", t |-> NLT, c |-> TokPos(F, s)], s |-> Adv(F, s, FALSE)]

(* scanSysCommand: the rest of the line, the newline is eaten               *)
ScanSysCommand(F, s0) ==
  LET r == RestOfLine(F, s0, <<>>)
  IN [tok |-> Tok("sys", r.buf, TokPos(F, s0)), s |-> Adv(F, r.s, FALSE)]

(* scanTokenCases; sysok: scIsSysCmd (true only before anything of a        *)
(* system-command line has been consumed)                                   *)
ScanTokenCases(F, s0, sysok) ==
  IF sysok /\ s0.p \in F.sys THEN ScanSysCommand(F, s0)
  ELSE LET s  == SkipSpace(F, s0)
           c  == Peek(F, s.p)
           cn == Peek(F, s.p + 1)
       IN IF c = "<END>" THEN [tok |-> [k |-> "end", t |-> "", c |-> 0], s |-> s]
          ELSE IF c = "\n" THEN ScanNewLine(F, s)
          ELSE IF IsAlpha(c) \/ c = "%" \/ c = "?" \/ s.esc THEN ScanWord(F, s)
          ELSE IF IsDigit(c) THEN ScanNumber(F, s)
          ELSE IF c = "\"" THEN ScanString(F, s)
          ELSE IF c = "." /\ IsDigit(cn) /\ s.fs = AnyFloat THEN ScanNumber(F, s)
          ELSE IF c = "-" /\ cn = "-" THEN ScanComment(F, s)
          ELSE IF c = "+" /\ cn = "+" THEN ScanDoc(F, s)
          ELSE IF IsPrint(c) THEN ScanSpecial(F, s)
          ELSE ScanError(F, s)

(* scan(): all tokens.  After each token scFloatState = floatCanFollow(tk); *)
(* scStartLine (first line, and whenever a line start is reached by         *)
(* scAdvance0) sets it to AnyFloat.                                         *)
RECURSIVE ScanLoop(_, _, _)
ScanLoop(F, s, acc) ==
  LET atLineStart == s.p \in F.first
      r == ScanTokenCases(F, s, atLineStart)
  IN IF r.tok.k = "end" THEN acc
     ELSE ScanLoop(F, [r.s EXCEPT !.fs = FloatCanFollow(r.tok)], Append(acc, r.tok))

Scan(sl) == LET F == Flat(sl) IN ScanLoop(F, [p |-> 1, esc |-> FALSE, fs |-> AnyFloat], <<>>)

(* syscmd.c:scmdProcessTokens: #pile / #endpile become keyword tokens, any  *)
(* other system command produces no token                                   *)
SysCmd(tl) ==
  FoldLeft(LAMBDA acc, k :
             IF k.k # "sys" THEN Append(acc, k)
             ELSE IF k.t = "#pile" THEN Append(acc, [k |-> "kw", t |-> "#pile", c |-> 0])
             ELSE IF k.t = "#endpile" THEN Append(acc, [k |-> "kw", t |-> "#endpile", c |-> 0])
             ELSE acc,
           <<>>, tl)

ScanText(text) == SysCmd(Scan(Include(text)))
=============================================================================
