------------------------------ MODULE DnfImpl ------------------------------
(***************************************************************************)
(* Implementation-shaped model of dnf.c: the algorithms as written         *)
(* (dnfAndMerge, dnfAndImplies, dnfAndImpliesNegation,                     *)
(* dnfAndCancelNegation, dnfOrMerge, dnfOr, dnfAnd, dnfNot, dnfImplies),   *)
(* on the same values the code holds (a DNF is a sequence of clauses, a    *)
(* clause a sequence of signed atoms ordered by atom number).              *)
(*                                                                         *)
(* Fixed = FALSE is the code of the pinned commit, including what          *)
(* dnfAndCancelNegation really does (it steps over a literal of the other  *)
(* clause in its "less than" branch and writes past the clause it          *)
(* allocated; the clause keeps the length it was allocated with).          *)
(* Fixed = TRUE is the code with hooks/fix-C20-dnf-cancel-negation.diff.   *)
(*                                                                         *)
(* TLC checks ImplOk (the DNF is equivalent to the formula) for every      *)
(* formula of depth <= Depth: it fails for Fixed = FALSE (this is how the  *)
(* defect shows at design level, without running any C) and holds for      *)
(* Fixed = TRUE.  Implementation-shaped: TraceDnf compares the code's      *)
(* DNFs with Impl(f) and reports differences as DRIFT, never as BAD.       *)
(***************************************************************************)
EXTENDS Dnf

CONSTANT Fixed

Null == <<0>>                    \* a clause pointer that is NULL (0 is not an atom)
AbsV(t) == IF t < 0 THEN -t ELSE t
AtomLT(a, b) == AbsV(a) < AbsV(b)

RECURSIVE MergeFrom(_, _, _, _)
MergeFrom(x, y, i, j) ==
  IF i > Len(x) THEN SubSeq(y, j, Len(y))
  ELSE IF j > Len(y) THEN SubSeq(x, i, Len(x))
  ELSE IF AtomLT(x[i], y[j]) THEN LET r == MergeFrom(x, y, i + 1, j) IN IF r = Null THEN Null ELSE <<x[i]>> \o r
  ELSE IF AtomLT(y[j], x[i]) THEN LET r == MergeFrom(x, y, i, j + 1) IN IF r = Null THEN Null ELSE <<y[j]>> \o r
  ELSE IF x[i] = y[j] THEN MergeFrom(x, y, i + 1, j)
  ELSE Null                                            \* a literal and its negation
AndMerge(x, y) == IF x = <<>> THEN y ELSE IF y = <<>> THEN x ELSE MergeFrom(x, y, 1, 1)

RECURSIVE ImplFrom(_, _, _, _, _)
ImplFrom(x, y, i, j, s) ==       \* s = 1: dnfAndImplies, s = -1: dnfAndImpliesNegation
  IF i > Len(x) \/ j > Len(y) THEN j > Len(y)
  ELSE IF AtomLT(x[i], y[j]) THEN ImplFrom(x, y, i + 1, j, s)
  ELSE IF x[i] = s * y[j] THEN ImplFrom(x, y, i + 1, j + 1, s)
  ELSE FALSE
AndImplies(x, y) == Len(x) >= Len(y) /\ ImplFrom(x, y, 1, 1, 1)
AndImpliesNeg(x, y) == /\ (Fixed => Len(y) = 1)
                       /\ Len(x) >= Len(y) /\ ImplFrom(x, y, 1, 1, -1)

\* everything dnfAndCancelNegation stores into result->argv, in order
RECURSIVE CancelWrites(_, _, _, _)
CancelWrites(x, y, i, j) ==
  IF i > Len(x) THEN <<>>
  ELSE IF j > Len(y) THEN SubSeq(x, i, Len(x))
  ELSE IF AtomLT(x[i], y[j]) THEN <<x[i]>> \o CancelWrites(x, y, i + 1, IF Fixed THEN j ELSE j + 1)
  ELSE IF x[i] = -y[j] THEN CancelWrites(x, y, i + 1, j + 1)
  ELSE <<>>                                            \* assert(false)
CancelNeg(x, y) == SubSeq(CancelWrites(x, y, 1, 1), 1, Len(x) - Len(y))     \* argc stays as allocated
CancelOverflows(x, y) == Len(CancelWrites(x, y, 1, 1)) > Len(x) - Len(y)

\* dnfOrMerge: for i, for j, in place
OrMerge(cs) ==
  LET n == Len(cs)
      pairs == [k \in 1..(n * n) |-> <<((k - 1) \div n) + 1, ((k - 1) % n) + 1>>]
      final == FoldLeft(LAMBDA s, p :
                 LET i == p[1]  j == p[2]
                     s1 == IF i # j /\ s[i] # Null /\ s[j] # Null /\ AndImplies(s[i], s[j])
                           THEN [s EXCEPT ![i] = Null] ELSE s
                 IN  IF i # j /\ s1[i] # Null /\ s1[j] # Null /\ AndImpliesNeg(s1[i], s1[j])
                     THEN [s1 EXCEPT ![i] = CancelNeg(s1[i], s1[j])] ELSE s1,
                 cs, pairs)
  IN  SelectSeq(final, LAMBDA c : c # Null)

IsTrue(d)  == Len(d) = 1 /\ d[1] = <<>>
IsFalse(d) == Len(d) = 0
DTrue  == << <<>> >>
DFalse == <<>>

ImplOr(x, y)  == IF IsTrue(x) \/ IsTrue(y) THEN DTrue
                 ELSE IF IsFalse(x) THEN y ELSE IF IsFalse(y) THEN x
                 ELSE OrMerge(x \o y)
ImplAnd(x, y) == IF IsFalse(x) \/ IsFalse(y) THEN DFalse
                 ELSE IF IsTrue(x) THEN y ELSE IF IsTrue(y) THEN x
                 ELSE OrMerge([k \in 1..(Len(x) * Len(y)) |->
                                 AndMerge(x[((k - 1) \div Len(y)) + 1], y[((k - 1) % Len(y)) + 1])])
ImplNot(x)    == IF IsFalse(x) THEN DTrue ELSE IF IsTrue(x) THEN DFalse
                 ELSE FoldLeft(LAMBDA rr, c : ImplAnd(rr, [k \in 1..Len(c) |-> <<-c[k]>>]), DTrue, x)

Impl(fm) == EvalWith(fm, LAMBDA t : IF t = TT THEN DTrue ELSE IF t = FF THEN DFalse ELSE << <<t>> >>,
                        ImplNot, ImplAnd, ImplOr)

ImplImplies(x, y) == \A i \in 1..Len(x) : \E j \in 1..Len(y) : AndImplies(x[i], y[j])

\* checked over GenSpec of Dnf.tla (all formulas of depth <= Depth)
ImplOk == MkOk(f, Impl(f))
\* the syntactic implication test never says yes wrongly (it is incomplete, which Dnf.tla's truth tables show)
ImplImpliesSound == ImplImplies(Impl(f), Impl(g)) => ImpliesTruth(Impl(f), Impl(g))
=============================================================================
