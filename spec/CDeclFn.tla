------------------------------ MODULE CDeclFn ------------------------------
(***************************************************************************)
(* The C printer options -Cold / -Cstandard: what a function head must look *)
(* like in each dialect for each KIND of parameter, and what C makes of it.  *)
(* (No variables; CDecl.tla enumerates signatures, CDeclEval.tla evaluates   *)
(* the programs of the declarator family and judges recorded heads.)         *)
(*                                                                          *)
(* genc.c:gc0Param builds one CCO_Param node per parameter:                  *)
(*     [id, spec, decl]  =  (argv[0], argv[1], argv[2])                      *)
(*   value of scalar type T        id = P<i>_<n>  spec = <<T>>       decl = <<id>>        *)
(*   raw machine array of T (Arr)  id = P<i>_<n>  spec = <<T>>       decl = <<"*", id>>   *)
(*   slot of a multiple return     id = R<i>      spec = <<T, "*">>  decl = <<id>>        *)
(* ccode.c:ccoPrParam prints a node                                          *)
(*   standard C   in the parentheses:  spec decl                             *)
(*   old C        in the parentheses:  id          after them:  spec decl ;  *)
(* and a prototype / cast prints the parameter types in standard C and        *)
(* nothing in old C.                                                          *)
(***************************************************************************)
EXTENDS Naturals, Integers, Sequences, FiniteSets

Scalars == {"FiWord", "FiSInt", "FiPtr", "FiBool", "FiChar", "FiByte", "FiHInt", "FiSFlo", "FiDFlo", "FiEnv", "FiClos", "FiBInt"}
Shapes == {"val", "arr", "ret"}
(* a parameter kind: [shape, t] *)
Kind(shape, t) == [shape |-> shape, t |-> t]

(* the C type the callee must see *)
Intended(k) == [base |-> k.t, ptr |-> IF k.shape = "val" THEN 0 ELSE 1]

(* the node genc.c builds *)
Node(k, id) == [id |-> id,
                spec |-> IF k.shape = "ret" THEN <<k.t, "*">> ELSE <<k.t>>,
                decl |-> IF k.shape = "arr" THEN <<"*", id>> ELSE <<id>>]

(* ---- the printer (ccoPrParam, CCOX_HdParam / CCOX_HdDecl), as token sequences ---- *)
HeadList(dialect, nodes) ==
  [i \in 1..Len(nodes) |-> IF dialect = "std" THEN nodes[i].spec \o nodes[i].decl ELSE <<nodes[i].id>>]
DeclList(dialect, nodes) ==
  IF dialect = "std" THEN <<>> ELSE [i \in 1..Len(nodes) |-> nodes[i].spec \o nodes[i].decl]

(* ---- what C understands ---- *)
Stars(toks) == Cardinality({i \in 1..Len(toks) : toks[i] = "*"})
NameOf(toks) == toks[Len(toks)]                       \* in these declarations the declared identifier is the last token
TypeOf(toks) == [base |-> toks[1], ptr |-> Stars(toks)]
ImplicitInt == [base |-> "int", ptr |-> 0]            \* old C: a parameter without a declaration is an int
(* type of the i-th parameter as the C compiler reads the head *)
ReadParam(dialect, head, decls, i) ==
  IF dialect = "std" THEN [name |-> NameOf(head[i]), type |-> TypeOf(head[i])]
  ELSE LET nm == head[i][1]
           ds == {j \in 1..Len(decls) : NameOf(decls[j]) = nm}
       IN [name |-> nm, type |-> IF ds = {} THEN ImplicitInt ELSE TypeOf(decls[CHOOSE j \in ds : TRUE]), ndecl |-> Cardinality(ds)]

(* the requirement on the printer: every parameter is read back with its intended type, declared once *)
HeadFaithful(dialect, kinds, ids) ==
  LET nodes == [i \in 1..Len(kinds) |-> Node(kinds[i], ids[i])]
      head == HeadList(dialect, nodes)
      decls == DeclList(dialect, nodes)
  IN \A i \in 1..Len(kinds) :
       LET r == ReadParam(dialect, head, decls, i) IN
       /\ r.name = ids[i] /\ r.type = Intended(kinds[i])
       /\ (dialect = "old" => r.ndecl = 1)

(* ---- calling convention: what is passed and what is expected ---- *)
(* default argument promotions of C (a call without prototype, and the parameters of an old-style definition) *)
Promote(t) == IF t.ptr > 0 THEN t
              ELSE IF t.base = "FiSFlo" THEN [base |-> "double", ptr |-> 0]
              ELSE IF t.base \in {"FiChar", "FiByte", "FiHInt"} THEN [base |-> "int", ptr |-> 0]
              ELSE t
(* how the machine passes a value of a C type (the System V / every common ABI distinction that matters) *)
Class(t) == IF t.ptr > 0 THEN "INT" ELSE IF t.base = "FiSFlo" THEN "F32" ELSE IF t.base \in {"FiDFlo", "double"} THEN "F64" ELSE "INT"
(* genc.c:gc0TypeRequiresDecl: the call is made through a cast that carries parameter types *)
RequiresDecl(t) == t.ptr = 0 /\ t.base \in {"FiByte", "FiSFlo", "FiDFlo", "FiHInt", "FiChar"}
UsesProto(kinds) == \E i \in 1..Len(kinds) : RequiresDecl(Intended(kinds[i]))
(* the type of the i-th argument as the CALLER passes it: old C prints no parameter types into the cast, so the call is *)
(* unprototyped; standard C prints them when the cast is used (other arguments are cast to FiWord), else the call goes   *)
(* through the unprototyped fiCCall<n> macros                                                                           *)
Passed(dialect, kinds, i) ==
  LET t == Intended(kinds[i]) IN
  IF dialect = "old" \/ ~UsesProto(kinds) THEN Promote(t)
  ELSE IF RequiresDecl(t) THEN t ELSE [base |-> "FiWord", ptr |-> 0]
(* the type the CALLEE takes the i-th argument as: an old-style definition takes the promoted type and converts *)
Expected(dialect, kinds, i) ==
  LET t == Intended(kinds[i]) IN IF dialect = "old" THEN Promote(t) ELSE t
CallAgrees(callerD, calleeD, kinds) ==
  \A i \in 1..Len(kinds) : Class(Passed(callerD, kinds, i)) = Class(Expected(calleeD, kinds, i))
=============================================================================
