SPECIFICATION Spec
CONSTANTS
  IdLenNat = {0, 30, 31, 40, 64, 8}
  SMaxNat = {0, 1, 5, 50}
  MaxOpts = 6
  FreeLen = 3
  ConfStdC = TRUE
INVARIANTS TypeOK LastWins NoNegative DefaultsInScope SplitDecision
CHECK_DEADLOCK FALSE
