--------------------------- MODULE TraceSefoCodec ---------------------------
(***************************************************************************)
(* Trace validation for SefoCodec.tla (property C05).  The trace (ndjson,  *)
(* environment variable TRACE) holds                                       *)
(*   Tags    {ab, tf, tfclass, tfsymes}   the tag tables of the compiled   *)
(*           absyn.h / tform.h (harness/foamcodec_drv.c tags)              *)
(*   Section {lib, bytes}   the type section of an object file the real    *)
(*           compiler wrote (lib.c:libPutSymeTypes -> tformToBuffer)       *)
(* TLC reads every section with the skipper and the reader of the          *)
(* specification: the skipper must arrive exactly at the end after the     *)
(* announced number of types, the reader must consume for every type what  *)
(* the skipper skipped (writer, reader and skipper agree on every node),   *)
(* and the literal kinds that occur are reported (LEAVES line: the check   *)
(* requires that the libraries it built cover every leaf kind).            *)
(***************************************************************************)
EXTENDS SefoCodec, IOUtils

Trc == ndJsonDeserialize(IOEnv.TRACE)
VARIABLES l, nbad
tvars == <<vars, l, nbad>>
Ev == Trc[l]
IsEvent(n) == l <= Len(Trc) /\ Trc[l].ev = n

Report(S) == /\ \A w \in S : PrintT("BAD " \o ToJson([l |-> l, why |-> w]))
             /\ nbad' = nbad + Cardinality(S)

ClassOf(t) == IF t \in TfSym THEN "sym" ELSE IF t \in TfAbSyn THEN "absyn" ELSE "node"
TrTags ==
  /\ IsEvent("Tags")
  /\ Report({w \in {"abstract syntax tags differ from the specification's", "type form tags differ from the specification's"} :
               \/ w = "abstract syntax tags differ from the specification's" /\ Ev.ab # AbOrder
               \/ w = "type form tags differ from the specification's"
                    /\ ~(Ev.tf = TfOrder /\ \A i \in 1..Len(TfOrder) : /\ Ev.tfclass[i] = ClassOf(TfOrder[i])
                                                                       /\ (Ev.tfsymes[i] = 1) = (TfOrder[i] \in TfHasSymes))})
  /\ l' = l + 1 /\ UNCHANGED vars

RECURSIVE LeavesOf(_)
LeavesOf(x) == (IF x.t \in DOMAIN LitKind THEN {LitKind[x.t]} ELSE IF x.t = "Id" THEN {"id"} ELSE {})
               \cup UNION {LeavesOf(x.a[k]) : k \in 1..Len(x.a)}

(* TLC evaluates a LET definition again at every use: the index and the types read are bound by \E over a one-element set,
   which evaluates them once (the skipper alone is linear in the section; per use it would make the step quadratic) *)
TrSection ==
  /\ IsEvent("Section")
  /\ \E ix \in {Index(Ev.bytes)} :
     \E rd \in {FoldLeft(LAMBDA acc, k : Append(acc, RdTForm(Ev.bytes, ix[1][k])), <<>>, Ix(Len(ix[1])))} :
       LET b   == Ev.bytes
           pos == Append(ix[1], ix[2])
           lv  == UNION {LeavesOf(rd[k][1].x) : k \in {j \in 1..Len(rd) : rd[j][1].tag \in TfAbSyn}}
                  \cup UNION {UNION {UNION {LeavesOf(rd[k][1].conds[i][j]) : j \in 1..Len(rd[k][1].conds[i])} : i \in 1..Len(rd[k][1].conds)}
                              : k \in 1..Len(rd)}
       IN /\ Report({w \in {"the skipping reader does not arrive at the end of the section", "reader and skipper disagree on the length of a type"} :
                       \/ w = "the skipping reader does not arrive at the end of the section" /\ ix[2] # Len(b) + 1
                       \/ w = "reader and skipper disagree on the length of a type"
                            /\ ix[2] = Len(b) + 1 /\ \E k \in 1..Len(rd) : rd[k][2] # pos[k + 1]})
          /\ PrintT("LEAVES " \o ToJson([l |-> l, lib |-> Ev.lib, types |-> Len(rd), leaves |-> lv]))
          \* the recorded section as a state of the machine of SefoCodec.tla: the types as read are the section that was written
          /\ buf' = b /\ idx' = ix /\ got' = rd /\ sec' = [k \in 1..Len(rd) |-> rd[k][1]] /\ phase' = "fetched"
  /\ l' = l + 1

Finish ==
  /\ l = Len(Trc) + 1
  /\ PrintT("SUMMARY " \o ToJson([events |-> Len(Trc), bad |-> nbad]))
  /\ l' = l + 1 /\ UNCHANGED <<vars, nbad>>

TraceInit == l = 1 /\ nbad = 0 /\ sec = <<>> /\ phase = "pick" /\ buf = <<>> /\ idx = <<>> /\ got = <<>>
TraceNext == TrTags \/ TrSection \/ Finish
TraceSpec == TraceInit /\ [][TraceNext]_tvars

(* IndexOK of SefoCodec.tla on the recorded state: the writer of the specification lays the types that were read out at the
   positions where the real writer put them (when no BAD line was printed) *)
RecordedIndexOK == (phase = "fetched" /\ nbad = 0) => IndexOK
=============================================================================
