SPECIFICATION TSpec
CONSTANTS
  Variant = "retag"
  Export = FALSE
INVARIANTS TableAsWithout
CHECK_DEADLOCK FALSE
