SPECIFICATION Spec
CONSTANTS SIntW = 8
          WordW = 8
          FullA = TRUE
          FullB = TRUE
INVARIANT AllOk
CHECK_DEADLOCK FALSE
