SPECIFICATION Spec
CONSTANTS SIntW = 8
          WordW = 8
          FullB = TRUE
INVARIANT AllOk
CHECK_DEADLOCK FALSE
