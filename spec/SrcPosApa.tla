----------------------------- MODULE SrcPosApa -----------------------------
(***************************************************************************)
(* C15, additional obligation for Apalache: the pack/unpack pair of        *)
(* SrcPos.tla at the REAL widths (CNO = 14, LNO = 48), for every global    *)
(* line below END_LINE_NO and every column.  The operators repeat          *)
(* SrcPos!PackRequired / PackAsWritten / SposGlobalLine / SposChar with    *)
(* the constants written out (Apalache has no use for the recursive        *)
(* Bitwise operators; with column 1 in sposSet no bit-or is involved).     *)
(*   apalache-mc check --length=0 --inv=ReqFaithful SrcPosApa.tla  holds   *)
(*   apalache-mc check --length=0 --inv=AswFaithful SrcPosApa.tla  fails   *)
(***************************************************************************)
EXTENDS Integers

VARIABLES
  \* @type: Int;
  g,
  \* @type: Int;
  c

ColLim  == 16384                     \* 2^14
LineLim == 281474976710656           \* 2^48
WordLim == 9223372036854775808       \* 2^63: p >> 1 of a 64-bit word

Init == /\ g \in Int /\ c \in Int
        /\ g >= 1 /\ g < LineLim - 1
        /\ c >= 1 /\ c <= 1000000000
Next == UNCHANGED << g, c >>

Min2(a, b) == IF a <= b THEN a ELSE b

LcRequired  == (g % LineLim) * ColLim + Min2(c, ColLim - 1)
LcAsWritten == ((g * ColLim + 1) + (c - 1)) % WordLim

LineOf(lc) == (lc \div ColLim) % LineLim
ColOf(lc)  == lc % ColLim

ReqFaithful == /\ LineOf(LcRequired) = g
               /\ (c < ColLim => ColOf(LcRequired) = c)
               /\ ColOf(LcRequired) = Min2(c, ColLim - 1)

AswFaithful == LineOf(LcAsWritten) = g

AswFaithfulFit == c < ColLim => (LineOf(LcAsWritten) = g /\ ColOf(LcAsWritten) = c)
=============================================================================
