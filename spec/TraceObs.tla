------------------------------ MODULE TraceObs ------------------------------
(***************************************************************************)
(* Trace validation against Obs.tla.  The trace (ndjson, file named by the *)
(* environment variable TRACE) consists of                                 *)
(*     {"ev":"Observe","input":i,"cfg":c,"digest":d}                       *)
(*     {"ev":"Reset"}                                forget everything     *)
(* where i and c are strings or numbers and d is any JSON value (usually   *)
(* an array of integers below 2^31).  Two Observe events with the same     *)
(* input and different digests violate the invariant Functional; the       *)
(* offending event number and both configurations are printed.             *)
(* Run with -workers 1; acceptance = the SUMMARY line was printed and no   *)
(* invariant was violated.                                                 *)
(***************************************************************************)
EXTENDS Obs, Json, IOUtils, Sequences, Naturals

VARIABLES l,        \* next event
          who,      \* input -> cfg that produced seen[input] (reporting only)
          bad       \* "" or the description of the disagreement

Trc == ndJsonDeserialize(IOEnv.TRACE)

Init == l = 1 /\ ObsInit /\ who = <<>> /\ bad = ""

StepObserve ==
  /\ l <= Len(Trc) /\ Trc[l].ev = "Observe"
  /\ LET e == Trc[l] IN
       /\ Record(e.input, e.digest)
       /\ who' = IF Known(e.input) THEN who ELSE who @@ (e.input :> e.cfg)
       /\ bad' = IF Agrees(e.input, e.digest) THEN bad
                 ELSE ToString(<<"event", l, "input", e.input, "cfg", e.cfg, "differs from cfg", who[e.input]>>)
       /\ IF Agrees(e.input, e.digest) THEN TRUE
          ELSE PrintT("DISAGREE " \o ToString(<<l, e.input, e.cfg, who[e.input]>>))
  /\ l' = l + 1

StepReset ==
  /\ l <= Len(Trc) /\ Trc[l].ev = "Reset"
  /\ seen' = <<>> /\ who' = <<>> /\ l' = l + 1 /\ UNCHANGED bad

Finish ==
  /\ l = Len(Trc) + 1
  /\ PrintT("SUMMARY " \o ToJson([events |-> Len(Trc)]))
  /\ l' = l + 1 /\ UNCHANGED <<seen, who, bad>>

Next == StepObserve \/ StepReset \/ Finish
Spec == Init /\ [][Next]_<<l, seen, who, bad>>

Functional == bad = ""
=============================================================================
