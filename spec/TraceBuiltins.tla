---------------------------- MODULE TraceBuiltins ----------------------------
(***************************************************************************)
(* Trace validation for C04 (DESIGN.md Appendix A, TraceBCall).            *)
(* The trace (ndjson, file named by the environment variable TRACE) has    *)
(*   {"ev":"BCall","who":"fint"|"cfold"|<route>,"op":name,"args":[v..],    *)
(*    "res":[v..]}     one builtin application as evaluated by the code    *)
(*        v ::= {"b":n} | {"c":code} | {"i":[sign,d1,d2,...]} (radix 2^11) *)
(*            | {"s":[codes]} | {"f":"hex"}                                *)
(*   {"ev":"Observe","input":i,"cfg":c,"digest":d}   agreement monitor     *)
(*   {"ev":"Reset"}                                                        *)
(* A BCall event is checked when the operation is in the table, the        *)
(* operands are values of the declared types inside the domain, and the    *)
(* specification gives a value there (Specified): then the logged result   *)
(* must be Def(op, args), and a boolean result must be canonical (0/1); an *)
(* application to a non-canonical boolean operand is skipped (the event    *)
(* that produced that operand is the one rejected).                        *)
(* Every other BCall event is accepted and counted as skipped.  Observe    *)
(* events go through Obs.tla: two observations of one input must agree.    *)
(* A failing event does not stop the validation: it is printed as          *)
(*   REJECT {...}   or   DISAGREE {...}                                    *)
(* and counted, so that one run reports every distinct failure.  Run with  *)
(* -workers 1; acceptance = the SUMMARY line was printed with rejected = 0 *)
(* and disagreed = 0 (the check decides on exactly these TLC outputs).     *)
(***************************************************************************)
EXTENDS Builtins, Obs, Json, IOUtils

VARIABLES l, who, cnt

Trc == ndJsonDeserialize(IOEnv.TRACE)

Dec(v, t) ==
  CASE t = "Bool" -> v.b # 0
    [] t = "Char" -> v.c
    [] IsIntType(t) -> Z(v.i[1] = 1, Tail(v.i))
    [] t = "Str" -> v.s
    [] OTHER -> v.f
WellFormed(v, t) ==
  CASE t = "Bool" -> "b" \in DOMAIN v
    [] t = "Char" -> "c" \in DOMAIN v /\ v.c \in 0..255
    [] IsIntType(t) -> "i" \in DOMAIN v /\ HasType(Dec(v, t), t)
    [] t = "Str" -> "s" \in DOMAIN v
    [] OTHER -> "f" \in DOMAIN v
Canonical(v, t) == t = "Bool" => v.b \in {0, 1}

Applicable(e) ==
  /\ e.op \in DefinedOps
  /\ LET s == Sig(e.op) IN
       /\ Len(e.args) = Len(s.args) /\ Len(e.res) = Len(s.res)
       /\ \A i \in 1..Len(s.args) : WellFormed(e.args[i], s.args[i]) /\ Canonical(e.args[i], s.args[i])
       /\ \A i \in 1..Len(s.res) : WellFormed(e.res[i], s.res[i])
       /\ LET a == [i \in 1..Len(s.args) |-> Dec(e.args[i], s.args[i])]
          IN InDomain(e.op, a) /\ Specified(e.op, a)

Conforms(e) ==
  LET s == Sig(e.op)
      a == [i \in 1..Len(s.args) |-> Dec(e.args[i], s.args[i])]
      r == [i \in 1..Len(s.res) |-> Dec(e.res[i], s.res[i])]
  IN /\ Def(e.op, a) = r
     /\ \A i \in 1..Len(s.res) : Canonical(e.res[i], s.res[i])

Expected(e) ==
  LET s == Sig(e.op)
      a == [i \in 1..Len(s.args) |-> Dec(e.args[i], s.args[i])]
      d == Def(e.op, a)
  IN [i \in 1..Len(s.res) |-> IF IsIntType(s.res[i]) THEN <<IF d[i].neg THEN 1 ELSE 0>> \o d[i].mag ELSE d[i]]

Init == l = 1 /\ ObsInit /\ who = <<>>
        /\ cnt = [checked |-> 0, skipped |-> 0, rejected |-> 0, observed |-> 0, disagreed |-> 0]

StepBCall ==
  /\ l <= Len(Trc) /\ Trc[l].ev = "BCall"
  /\ LET e == Trc[l] IN
       IF ~Applicable(e) THEN cnt' = [cnt EXCEPT !.skipped = @ + 1]
       ELSE IF Conforms(e) THEN cnt' = [cnt EXCEPT !.checked = @ + 1]
       ELSE /\ cnt' = [cnt EXCEPT !.checked = @ + 1, !.rejected = @ + 1]
            /\ PrintT("REJECT " \o ToJson([line |-> l, who |-> e.who, op |-> e.op, args |-> e.args,
                                            res |-> e.res, expected |-> Expected(e)]))
  /\ l' = l + 1 /\ UNCHANGED <<seen, who>>

StepObserve ==
  /\ l <= Len(Trc) /\ Trc[l].ev = "Observe"
  /\ LET e == Trc[l] IN
       /\ Record(e.input, e.digest)
       /\ who' = IF Known(e.input) THEN who ELSE who @@ (e.input :> e.cfg)
       /\ IF Agrees(e.input, e.digest) THEN cnt' = [cnt EXCEPT !.observed = @ + 1]
          ELSE /\ cnt' = [cnt EXCEPT !.observed = @ + 1, !.disagreed = @ + 1]
               /\ PrintT("DISAGREE " \o ToJson([line |-> l, input |-> e.input, cfg |-> e.cfg, first |-> who[e.input]]))
  /\ l' = l + 1

StepReset ==
  /\ l <= Len(Trc) /\ Trc[l].ev = "Reset"
  /\ seen' = <<>> /\ who' = <<>> /\ l' = l + 1 /\ UNCHANGED cnt

Finish ==
  /\ l = Len(Trc) + 1
  /\ PrintT("SUMMARY " \o ToJson([events |-> Len(Trc)] @@ cnt))
  /\ l' = l + 1 /\ UNCHANGED <<seen, who, cnt>>

Next == StepBCall \/ StepObserve \/ StepReset \/ Finish
Spec == Init /\ [][Next]_<<l, seen, who, cnt>>

(* every event is of a known kind: otherwise the trace blocks before SUMMARY *)
Progress == l <= Len(Trc) => Trc[l].ev \in {"BCall", "Observe", "Reset"}
=============================================================================
