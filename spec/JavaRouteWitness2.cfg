SPECIFICATION MCSpec
CONSTANTS
  Levels = {9}
  Routes = {"interp", "java"}
  Progs = {"p1"}
  Digests = {7, 8}
  Builds = {"ok", "javac"}
INVARIANTS NeverRoutesOnly
CHECK_DEADLOCK FALSE
