\* C15 report layouts for the replay (thorough): 2 files + #line names incl. the top file, 5 lines after the prelude
CONSTANTS
  CNO = 2
  LNO = 5
  Packer = "required"
  Policy = "required"
  EofPolicy = "required"
  HeadPolicy = "required"
  Grouping = "gline"
  SrcLen = 3
  ColSeq <- ColSeqTwo
  MaxSel = 2
  Pre = 3
  FileNames = {"ra.as", "rb.as"}
  TopFile = "ra.as"
  LineNames = {"ra.as", "rb.as", "ro.src"}
  LineNums = {2, 4, 5}
  Cols = {1}
  RunLens = {1, 2}
  MaxLines = 8
  MaxIf = 1
  MaxItems = 7
  Feat = {"line"}
  AvoidEofIf = TRUE
  AvoidCollide = FALSE
INIT GInit
NEXT GNext
CHECK_DEADLOCK FALSE
INVARIANT TypeOK
INVARIANT PosFaithful
INVARIANT PreludeOk
INVARIANT Export
