\* C14 thorough, part 1: all block trees with <= 3 statements, nesting <= 3, over all 18 shapes, plus the
\* larger hand-picked trees; every mode x every continuation (16 styles) per tree.
SPECIFICATION Spec
CONSTANTS
  MaxN = 3
  MaxDepth = 3
  TreeSource = "enum+extra"
  StyleSet = "base"
  Seed = 0
  ScanChars = TRUE
  Export = TRUE
  Use0 = {"L1", "L2", "L3", "L4", "L5", "L6", "L7"}
  Use1 = {"D1", "I1", "W1", "F1", "M1", "Q1", "A1", "C1"}
  Use2 = {"I2", "Q2"}
  Use3 = {"I3"}
INVARIANTS LeadOK StageOK
CHECK_DEADLOCK FALSE
