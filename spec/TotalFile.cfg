SPECIFICATION Spec
INVARIANTS Exported
CHECK_DEADLOCK FALSE
