-------------------------------- MODULE Calls --------------------------------
(***************************************************************************)
(* C07, input class (b''), call shapes: a small model of function           *)
(* signatures and applications (user guide, "Keyword arguments", "Default   *)
(* arguments", "Multiple values") and what it CERTIFIES about a call.       *)
(*                                                                          *)
(* A signature has n <= 4 positional parameters a, b, c, d with types from  *)
(* {I, B, S} (SingleInteger, Boolean, String), the last d of them with a    *)
(* default value ("a definition which supplies a default for one parameter  *)
(* must supply one for each of the following"), and returns one value (I)   *)
(* or two (I, B).  An application has arguments, each positional or         *)
(* `name == value', each value an expression of exactly one type -- or, a   *)
(* call that returns two values.  The receiving context declares its        *)
(* variables: `r: T := f(..)' or `(p: T1, q: T2) := f(..)'.                 *)
(*                                                                          *)
(* Accepts(sig, args) -- the rules of the guide:                            *)
(*   * a positional argument supplies the parameter at its position and has *)
(*     its type                                                             *)
(*   * a keyword is the name of a parameter that is not supplied by         *)
(*     position, no keyword occurs twice, the value has the parameter's type*)
(*   * (the guide also says that keyword arguments "must appear after any   *)
(*     arguments supplied by position alone"; the compiler binds positional *)
(*     arguments by their place in the list and does not insist, so an      *)
(*     application that breaks only this rule is NOT certified invalid --   *)
(*     InOrder is exported as a feature)                                    *)
(*   * every parameter is supplied by position, by keyword or by default    *)
(*   * an argument list that is one two-valued expression supplies two      *)
(*     positional arguments (`divide f(100, 93)'); a two-valued expression  *)
(*     among other arguments supplies no parameter of type I, B or S        *)
(* The application is valid when some visible signature of the function     *)
(* (one, or two overloads) accepts the arguments and returns what the       *)
(* context receives.  Certificate "no-signature": none does -- the text is  *)
(* invalid, so a diagnostic is required.                                    *)
(*                                                                          *)
(* Enumeration: every base application that the signature accepts (n, which *)
(* parameters have defaults, how many are supplied by position, which of    *)
(* the others by keyword and in which order, the overload context), and     *)
(* every application that differs from a base by ONE defect:                *)
(*   type-pos i / type-kw i   the value has another type                    *)
(*   kw-unknown i             the keyword names no parameter                *)
(*   kw-dup-pos / kw-twice i  a parameter is supplied twice                 *)
(*   drop-pos / drop-kw i     an argument is missing                        *)
(*   extra-pos                a superfluous positional argument             *)
(*   kw-first                 a keyword argument in front of the positional *)
(*   multi-in-list i          a two-valued expression as one of several     *)
(*   spread / spread-bad      the whole list replaced by one two-valued     *)
(*                            expression (right / wrong second type)        *)
(*   ret-type / ret-more / ret-less   the context receives something else   *)
(* Whether a defect really makes the application invalid is decided by      *)
(* Accepts (a dropped argument may have a default, an overload may accept   *)
(* the changed call): no certificate then, the text is a control.           *)
(***************************************************************************)
EXTENDS Naturals, Sequences, SequencesExt, FiniteSets, TLC, Json

CONSTANTS MaxParams,          \* n <= MaxParams <= 4
          Pats,               \* type patterns used (subset of 1..3)
          Ovs,                \* overload contexts used (subset of {"none", "arity", "types", "ret"})
          Stride, Seed,       \* applications with Hash % Stride = Seed % Stride are exported
          Export

PName == << "a", "b", "c", "d", "e" >>
Pattern(p) == CASE p = 1 -> << "I", "B", "S", "I", "B" >>
                [] p = 2 -> << "I", "I", "B", "B", "S" >>
                [] p = 3 -> << "S", "B", "I", "S", "I" >>
OtherTy(t) == CASE t = "I" -> "B" [] t = "B" -> "S" [] t = "S" -> "I"
RetOf(rk) == IF rk = 1 THEN << "I" >> ELSE << "I", "B" >>

Sig(n, d, pat, ret) == [ps |-> [i \in 1..n |-> [nm |-> PName[i], ty |-> Pattern(pat)[i], df |-> i > n - d]], ret |-> ret]
Pos(t) == [kw |-> "", tys |-> << t >>]
Kw(nm, t) == [kw |-> nm, tys |-> << t >>]

---------------------------------------------------------------------------
(* the rules                                                                *)
AcceptsPlain(sig, args) ==
  LET n  == Len(sig.ps)
      P  == {i \in 1..Len(args) : args[i].kw = ""}      \* a positional argument supplies the parameter at its own position
      K  == {i \in 1..Len(args) : args[i].kw # ""}
  IN  /\ \A i \in P : i <= n /\ args[i].tys[1] = sig.ps[i].ty
      /\ \A i \in K : \E j \in (1..n) \ P : sig.ps[j].nm = args[i].kw /\ sig.ps[j].ty = args[i].tys[1]
      /\ \A i, j \in K : i # j => args[i].kw # args[j].kw
      /\ \A j \in (1..n) \ P : sig.ps[j].df \/ \E i \in K : args[i].kw = sig.ps[j].nm
\* the guide's order rule on top of it
InOrder(args) == \A i, j \in 1..Len(args) : (args[i].kw = "" /\ args[j].kw # "") => i < j

Accepts(sig, args) ==
  IF \E i \in 1..Len(args) : Len(args[i].tys) # 1
  THEN /\ Len(args) = 1 /\ args[1].kw = ""
       /\ AcceptsPlain(sig, [i \in 1..Len(args[1].tys) |-> Pos(args[1].tys[i])])
  ELSE AcceptsPlain(sig, args)

ValidIn(sigs, args, lhs) == \E i \in 1..Len(sigs) : Accepts(sigs[i], args) /\ sigs[i].ret = lhs

---------------------------------------------------------------------------
(* the state: one application                                               *)
VARIABLES n, d, pat, rk,    \* the signature
          npos, kws,        \* the base application: the first npos parameters by position, then the parameters kws
                            \* (a sequence of indices) by keyword, the others by default
          ov,               \* the overload context
          df                \* the defect [k |-> kind, i |-> position]
vars == << n, d, pat, rk, npos, kws, ov, df >>

Asc(S) == SetToSortSeq(S, LAMBDA u, v : u < v)
KwSeqs(S) == IF Cardinality(S) <= 1 THEN {Asc(S)} ELSE {Asc(S), Reverse(Asc(S))}

Base == Sig(n, d, pat, RetOf(rk))
Sigs == CASE ov = "none"  -> << Base >>
          [] ov = "arity" -> << Base, [ps |-> [i \in 1..(n + 1) |-> [nm |-> PName[i], ty |-> Pattern(pat)[i], df |-> FALSE]],
                                       ret |-> Base.ret] >>
          [] ov = "types" -> << Base, [ps |-> [i \in 1..n |-> [nm |-> PName[i], ty |-> OtherTy(Pattern(pat)[i]), df |-> FALSE]],
                                       ret |-> Base.ret] >>
          [] ov = "ret"   -> << Base, [ps |-> Base.ps, ret |-> << OtherTy(Base.ret[1]) >> \o Tail(Base.ret)] >>

BaseArgs == [i \in 1..npos |-> Pos(Base.ps[i].ty)] \o [q \in 1..Len(kws) |-> Kw(Base.ps[kws[q]].nm, Base.ps[kws[q]].ty)]
NK == Len(kws)

Defects ==
  { [k |-> "none", i |-> 0] }
  \cup { [k |-> "type-pos", i |-> i] : i \in 1..npos }
  \cup { [k |-> "type-kw", i |-> i] : i \in 1..NK }
  \cup { [k |-> "kw-unknown", i |-> i] : i \in 1..NK }
  \cup (IF npos >= 1 THEN { [k |-> "kw-dup-pos", i |-> npos], [k |-> "drop-pos", i |-> npos] } ELSE {})
  \cup { [k |-> "kw-twice", i |-> i] : i \in 1..NK }
  \cup { [k |-> "drop-kw", i |-> i] : i \in 1..NK }
  \cup { [k |-> "extra-pos", i |-> npos + 1] }
  \cup (IF npos >= 1 /\ NK >= 1 THEN { [k |-> "kw-first", i |-> 1] } ELSE {})
  \cup { [k |-> "multi-in-list", i |-> i] : i \in 1..npos }
  \cup { [k |-> "spread", i |-> 0], [k |-> "spread-bad", i |-> 0] }
  \cup { [k |-> "ret-type", i |-> 1], [k |-> "ret-more", i |-> 0] }
  \cup (IF rk = 2 THEN { [k |-> "ret-type", i |-> 2], [k |-> "ret-less", i |-> 0] } ELSE {})

Init == /\ n \in 0..MaxParams /\ d \in 0..n /\ pat \in Pats /\ rk \in {1, 2}
        /\ npos \in 0..n
        /\ \E S \in SUBSET ((npos + 1)..n) :
              /\ \A j \in ((npos + 1)..n) \ S : j > n - d        \* what is not supplied has a default
              /\ kws \in KwSeqs(S)
        /\ ov \in Ovs /\ (ov = "types" => n >= 1)
        /\ df \in Defects
Next == UNCHANGED vars
Spec == Init /\ [][Next]_vars

---------------------------------------------------------------------------
(* the application with its defect                                          *)
Without(s, i) == SubSeq(s, 1, i - 1) \o SubSeq(s, i + 1, Len(s))
TyAt(i) == IF i <= n THEN Base.ps[i].ty ELSE "I"
Args ==
  LET a == BaseArgs
      k == df.k
      i == df.i
  IN  CASE k = "type-pos"   -> [a EXCEPT ![i].tys = << OtherTy(a[i].tys[1]) >>]
        [] k = "type-kw"    -> [a EXCEPT ![npos + i].tys = << OtherTy(a[npos + i].tys[1]) >>]
        [] k = "kw-unknown" -> [a EXCEPT ![npos + i].kw = "z"]
        [] k = "kw-dup-pos" -> Append(a, Kw(Base.ps[i].nm, Base.ps[i].ty))
        [] k = "kw-twice"   -> Append(a, a[npos + i])
        [] k = "drop-pos"   -> Without(a, i)
        [] k = "drop-kw"    -> Without(a, npos + i)
        [] k = "extra-pos"  -> SubSeq(a, 1, npos) \o << Pos(TyAt(npos + 1)) >> \o SubSeq(a, npos + 1, Len(a))
        [] k = "kw-first"   -> << a[npos + 1] >> \o SubSeq(a, 1, npos) \o SubSeq(a, npos + 2, Len(a))
        [] k = "multi-in-list" -> [a EXCEPT ![i].tys = << a[i].tys[1], TyAt(i + 1) >>]
        [] k = "spread"     -> << [kw |-> "", tys |-> << TyAt(1), TyAt(2) >>] >>
        [] k = "spread-bad" -> << [kw |-> "", tys |-> << TyAt(1), OtherTy(TyAt(2)) >>] >>
        [] OTHER            -> a
Lhs ==
  LET r == Base.ret
  IN  CASE df.k = "ret-type" -> [r EXCEPT ![df.i] = OtherTy(r[df.i])]
        [] df.k = "ret-more" -> Append(r, "S")
        [] df.k = "ret-less" -> << r[1] >>
        [] OTHER             -> r

Valid == ValidIn(Sigs, Args, Lhs)
Cert == IF Valid THEN << >> ELSE << "no-signature" >>

Code(s) == CASE s = "none" -> 0 [] s = "arity" -> 1 [] s = "types" -> 2 [] s = "ret" -> 3
             [] s = "type-pos" -> 4 [] s = "type-kw" -> 5 [] s = "kw-unknown" -> 6 [] s = "kw-dup-pos" -> 7
             [] s = "kw-twice" -> 8 [] s = "drop-pos" -> 9 [] s = "drop-kw" -> 10 [] s = "extra-pos" -> 11
             [] s = "kw-first" -> 12 [] s = "multi-in-list" -> 13 [] s = "spread" -> 14 [] s = "spread-bad" -> 15
             [] s = "ret-type" -> 16 [] s = "ret-more" -> 17 [] s = "ret-less" -> 18
Hash == FoldLeft(LAMBDA acc, v : (acc * 37 + v) % 10007, 1,
                 << n, d, pat, rk, npos, Code(ov), Code(df.k), df.i >> \o kws)
Selected == Hash % Stride = Seed % Stride
\* where the statement stands (rendering only): 0 top level, 1 in a function body, 2 in the branch of an if
Place == (Hash \div 7) % 3

Exported ==
  (Export /\ Selected) =>
     PrintT("CALL " \o ToJson([sigs |-> Sigs, args |-> Args, lhs |-> Lhs, c |-> Cert, dk |-> df.k, di |-> df.i,
                               ov |-> ov, place |-> Place, h |-> Hash, ord |-> IF InOrder(Args) THEN 1 ELSE 0,
                               id |-> << n, d, pat, rk, npos >> \o kws]))

---------------------------------------------------------------------------
(* design-level laws                                                        *)
\* a base application is accepted, and by the base signature only
BaseValid == df.k = "none" => /\ Valid
                              /\ \A i \in 2..Len(Sigs) : ~(Accepts(Sigs[i], Args) /\ Sigs[i].ret = Lhs)
\* without overloads these defects always make the application invalid
AlwaysBad == (ov = "none" /\ df.k \in {"type-pos", "type-kw", "kw-unknown", "kw-dup-pos", "kw-twice",
                                       "spread-bad", "ret-type", "ret-more", "ret-less"}) => ~Valid
\* a dropped argument is missed exactly when its parameter has no default
DropLaw == (ov = "none" /\ df.k = "drop-kw") => (Valid <=> Base.ps[kws[df.i]].df)
\* defaults are trailing
Trailing == \A i, j \in 1..n : (i < j /\ Base.ps[i].df) => Base.ps[j].df
=============================================================================
