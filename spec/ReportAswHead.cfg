\* C15 report, heading as written (none when the source line cannot be read): EXPECTED violation of ReportFaithful
CONSTANTS
  CNO = 2
  LNO = 4
  Packer = "required"
  Policy = "required"
  EofPolicy = "required"
  HeadPolicy = "aswritten"
  Grouping = "gline"
  SrcLen = 3
  ColSeq <- ColSeqOvf
  MaxSel = 3
  FileNames = {"a", "b"}
  TopFile = "a"
  LineNames = {"b", "o"}
  LineNums = {1, 4}
  Cols = {1, 3, 4, 9}
  RunLens = {1, 2}
  MaxLines = 8
  MaxIf = 1
  MaxItems = 4
  Feat = {"line"}
  AvoidEofIf = FALSE
  AvoidCollide = FALSE
INIT Init
NEXT Next
CHECK_DEADLOCK FALSE
INVARIANT TypeOK
INVARIANT PosFaithful
INVARIANT LineIdentity
INVARIANT ReportFaithful
