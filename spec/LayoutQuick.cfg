\* C14 quick tier: all block trees with <= 3 statements and nesting <= 3 over the shapes below plus 12 larger hand-picked trees, 8 styles each (every mode twice, every continuation twice);
\* every rendering is exported (RENDER lines) with the value of the property (holds) for the replay.
SPECIFICATION Spec
CONSTANTS
  MaxN = 3
  MaxDepth = 3
  TreeSource = "enum+extra"
  StyleSet = "latin"
  Seed = 0
  ScanChars = TRUE
  Export = TRUE
  Use0 = {"L2", "L3", "L5", "L6", "L7"}
  Use1 = {"D1", "I1", "Q1", "A1", "C1"}
  Use2 = {"I2", "Q2"}
  Use3 = {"I3"}
INVARIANTS LeadOK StageOK
CHECK_DEADLOCK FALSE
