SPECIFICATION MCSpec
CONSTANTS
  Levels = {1, 3}
  Routes = {"interp", "java"}
  Progs = {"p1"}
  Digests = {7, 8}
  Builds = {"ok", "compile", "javac", "timeout"}
INVARIANTS TypeOK Sound NoFalseAlarm Statement RoutesAgree
PROPERTIES WantStable ObsStable
CHECK_DEADLOCK FALSE
