SPECIFICATION Spec
CONSTANTS
  SkipLits = {"int", "str"}
  Export = FALSE
INVARIANTS IndexOK
CHECK_DEADLOCK FALSE
