\* C15 two-run form, required design, 3 files, run lengths {1,2,4}, <= 4 items + the insertion (thorough)
CONSTANTS
  CNO = 2
  LNO = 3
  Packer = "required"
  Policy = "required"
  EofPolicy = "required"
  FileNames = {"a", "b", "c"}
  TopFile = "a"
  LineNames = {"a", "b"}
  LineNums = {1, 4}
  Cols = {1, 3, 4, 9}
  RunLens = {1, 2, 4}
  MaxLines = 12
  MaxIf = 1
  MaxItems = 4
  Feat = {"line", "if", "misc"}
  AvoidEofIf = FALSE
  AvoidCollide = FALSE
  InsLens = {1, 3}
INIT Init
NEXT Next
CHECK_DEADLOCK FALSE
INVARIANT ShiftFaithful
