-------------------------------- MODULE COpts --------------------------------
(***************************************************************************)
(* The C-generation options of the compiler as a machine (ccomp.c:ccOption, *)
(* genc.c:genCSetSMax/genCSetIdLen/genCSetIdHash, emit.c:emitTheC).         *)
(* State = the five settings the options write; one action per option as    *)
(* spelled on the command line (-Cstandard, -Cold, -Clines, -Cno-lines,     *)
(* -Cidhash, -Cno-idhash, -Csmax=<n>, -Cidlen=<n>); a later option          *)
(* overwrites an earlier one of its group.  TLC enumerates the option       *)
(* sequences, checks the invariants and exports the configuration space     *)
(* that property C16 quantifies over, each with an option sequence that     *)
(* reaches it.  FileNames is the implementation-shaped prediction of the    *)
(* names emitTheC gives the parts of a split unit (drift only).             *)
(***************************************************************************)
EXTENDS Naturals, Integers, Sequences, FiniteSets, TLC, Json, CSplitFn

CONSTANTS IdLenNat,      \* non-negative arguments tried for -Cidlen=<n> (-1 is added: the code maps negatives to 1)
          SMaxNat,       \* non-negative arguments tried for -Csmax=<n>
          MaxOpts,       \* longest option sequence explored
          FreeLen,       \* sequences up to this length are explored in every order
          ConfStdC       \* ccDoStandardCFlag = -1 means: the value of "generate-stdc" in aldor.conf for the platform (true on linux)

IdLenArgs == IdLenNat \cup {-1}
SMaxArgs == SMaxNat \cup {-1}
DefaultIdLen == 30        \* genc.c: static int gcvIdLen = 30
DefaultSMax  == 0         \* genc.c: static int gcvSMax = 0

VARIABLES std, lines, idhash, idlen, smax, debug, opts
vars == <<std, lines, idhash, idlen, smax, debug, opts>>

Init == /\ std = "unset" /\ lines = FALSE /\ idhash = TRUE
        /\ idlen = DefaultIdLen /\ smax = DefaultSMax /\ debug = FALSE /\ opts = <<>>

Num(n) == IF n < 0 THEN "-" \o ToString(-n) ELSE ToString(n)
GroupOf(o) == CASE o = "-Zdb" -> 0
                [] o \in {"-Cstandard", "-Cold"} -> 1
                [] o \in {"-Clines", "-Cno-lines"} -> 4
                [] o \in {"-Cidhash", "-Cno-idhash"} -> 5
                [] \E n \in SMaxArgs : o = "-Csmax=" \o Num(n) -> 3
                [] OTHER -> 2
(* every sequence up to FreeLen options is explored, longer ones only in the canonical order of the *)
(* groups (-Zdb, std, idlen, smax, lines, idhash), one option per group: the product C16 names       *)
CanonicalSeq(s) == \A i \in 1..(Len(s) - 1) : GroupOf(s[i]) < GroupOf(s[i + 1])
Room(o) == Len(opts) < MaxOpts /\ (Len(opts) < FreeLen \/ CanonicalSeq(Append(opts, o)))

SetStd(b)    == Room(IF b THEN "-Cstandard" ELSE "-Cold") /\ std' = (IF b THEN "standard" ELSE "old")
                /\ opts' = Append(opts, IF b THEN "-Cstandard" ELSE "-Cold") /\ UNCHANGED <<lines, idhash, idlen, smax, debug>>
SetLines(b)  == Room(IF b THEN "-Clines" ELSE "-Cno-lines") /\ lines' = b
                /\ opts' = Append(opts, IF b THEN "-Clines" ELSE "-Cno-lines") /\ UNCHANGED <<std, idhash, idlen, smax, debug>>
SetIdHash(b) == Room(IF b THEN "-Cidhash" ELSE "-Cno-idhash") /\ idhash' = b
                /\ opts' = Append(opts, IF b THEN "-Cidhash" ELSE "-Cno-idhash") /\ UNCHANGED <<std, lines, idlen, smax, debug>>
(* genCSetSMax / genCSetIdLen: a negative argument becomes 1 *)
SetSMax(n)   == Room("-Csmax=" \o Num(n)) /\ smax' = (IF n < 0 THEN 1 ELSE n)
                /\ opts' = Append(opts, "-Csmax=" \o Num(n)) /\ UNCHANGED <<std, lines, idhash, idlen, debug>>
SetIdLen(n)  == Room("-Cidlen=" \o Num(n)) /\ idlen' = (IF n < 0 THEN 1 ELSE n)
                /\ opts' = Append(opts, "-Cidlen=" \o Num(n)) /\ UNCHANGED <<std, lines, idhash, smax, debug>>

(* -Zdb (cmdline.c:cmdDoOptDebug -> emit.c:emitSetDebug): line numbers reach the C only if this is on too *)
SetDebug     == Room("-Zdb") /\ debug' = TRUE /\ opts' = Append(opts, "-Zdb") /\ UNCHANGED <<std, lines, idhash, idlen, smax>>

Next == \/ \E b \in BOOLEAN : SetStd(b) \/ SetLines(b) \/ SetIdHash(b)
        \/ SetDebug
        \/ \E n \in SMaxArgs : SetSMax(n)
        \/ \E n \in IdLenArgs : SetIdLen(n)

(* ---- derived ---- *)
StdC == IF std = "unset" THEN ConfStdC ELSE std = "standard"
(* what C16 quantifies over: hashed global names, a limit that is no limit or at least the default *)
InScope == idhash /\ (idlen = 0 \/ idlen >= DefaultIdLen)
(* emit.c:emitTheC: ccmode |= emitDoLineNos && ccLineNos() -- `-Clines' alone changes nothing *)
EffLines == lines /\ debug
(* splitting happens only with a positive statement limit (gc0OverSMax) *)
MaySplit == smax > 0
(* whether a unit is split is a function of its statement estimate S and the limit (CSplitFn.tla; the machine that    *)
(* cuts the unit, with the facts every site of genc.c / emit.c derives from the decision, is CSplit.tla; the limits at *)
(* which a unit of measured S is replayed come from CSplitPlan.tla)                                                     *)
SplitsUnit(S) == OverSMax(S, smax)
UnitParts(S)  == NParts(S, smax)

(* emitTheC: a unit of n C parts (n >= 1).  One part: <base>.c.  More: <base>.h holds the shared     *)
(* declarations, the first part is <base>.c, part k (k >= 2) is the first five characters of the      *)
(* base, then k-1 written with at least three digits.                                                 *)
Pad3(k) == IF k < 10 THEN "00" \o ToString(k) ELSE IF k < 100 THEN "0" \o ToString(k) ELSE ToString(k)
FileNames(base5, base, n) ==
  IF n <= 1 THEN <<base \o ".c">>
  ELSE <<base \o ".h", base \o ".c">> \o [k \in 1..(n - 1) |-> base5 \o Pad3(k) \o ".c"]

Group(o) == GroupOf(o)
Canonical == CanonicalSeq(opts)
Override  == Len(opts) = 2 /\ Group(opts[1]) = Group(opts[2])

UnitFiles(base5, base, S) == FileNames(base5, base, UnitParts(S))
Config == [opts |-> opts, std |-> StdC, lines |-> lines, debug |-> debug, efflines |-> EffLines, idhash |-> idhash, idlen |-> idlen, smax |-> smax,
           inscope |-> InScope, canonical |-> Canonical, files3 |-> FileNames("p", "p", IF MaySplit THEN 3 ELSE 1),
           smallest_split_unit |-> (IF MaySplit THEN smax + 1 ELSE 0)]
Export == (Canonical \/ Override) /\ PrintT("CONFIG " \o ToJson(Config)) /\ UNCHANGED vars

Spec == Init /\ [][Next \/ Export]_vars

(* ---- invariants of the option machine ---- *)
TypeOK == /\ std \in {"unset", "old", "standard"} /\ lines \in BOOLEAN /\ idhash \in BOOLEAN
          /\ idlen \in Nat /\ smax \in Nat
(* the state is a function of the LAST option of each group *)
LastOf(g) == LET is == {i \in 1..Len(opts) : Group(opts[i]) = g} IN IF is = {} THEN "" ELSE opts[CHOOSE i \in is : \A j \in is : j <= i]
LastWins ==
  /\ StdC = (IF LastOf(1) = "" THEN ConfStdC ELSE LastOf(1) = "-Cstandard")
  /\ lines = (LastOf(4) = "-Clines")
  /\ debug = (LastOf(0) = "-Zdb")
  /\ idhash = (LastOf(5) # "-Cno-idhash")
  /\ (LastOf(2) = "" => idlen = DefaultIdLen) /\ (LastOf(3) = "" => smax = DefaultSMax)
  /\ \A n \in IdLenArgs : LastOf(2) = "-Cidlen=" \o Num(n) => idlen = (IF n < 0 THEN 1 ELSE n)
  /\ \A n \in SMaxArgs  : LastOf(3) = "-Csmax=" \o Num(n)  => smax = (IF n < 0 THEN 1 ELSE n)
(* no option sequence leaves the limits negative *)
NoNegative == idlen >= 0 /\ smax >= 0
DefaultsInScope == opts = <<>> => InScope /\ ~MaySplit /\ StdC = ConfStdC
(* the split decision: only under a positive limit, exactly for the units whose estimate exceeds it; a unit of exactly *)
(* smax statements is ONE file, one of smax + 1 is header + two files; the number of files never decreases with S      *)
SplitDecision == \A S \in 0..(3 * smax + 2) :
                   /\ SplitsUnit(S) = (MaySplit /\ S > smax)
                   /\ (SplitsUnit(S) => UnitParts(S) >= 2 /\ (UnitParts(S) - 1) * smax < S /\ S <= UnitParts(S) * smax)
                   /\ (~SplitsUnit(S) => UnitParts(S) = 1 /\ Len(UnitFiles("p", "p", S)) = 1)
                   /\ (SplitsUnit(S) => Len(UnitFiles("p", "p", S)) = UnitParts(S) + 1)
                   /\ (S > 0 => UnitParts(S - 1) <= UnitParts(S))
=============================================================================
