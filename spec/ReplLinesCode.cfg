SPECIFICATION LSpec
INVARIANTS AgreesWithCode
CHECK_DEADLOCK FALSE
