------------------------------- MODULE Linear -------------------------------
(***************************************************************************)
(* The lineariser of the Aldor compiler (aldor/aldor/src/linear.c): the     *)
(* pass that turns the newline and indentation information of a `#pile`     *)
(* region into SetTab / BackSet / BackTab tokens (which the grammar axl.z   *)
(* treats like { ; }), removes comments and newlines, and fixes up `;`      *)
(* after `}`.  One operator per function of linear.c, in the order in which *)
(* linearize() calls them:                                                  *)
(*                                                                          *)
(*   XComments  XBlankLines  CheckBalance  FrTokenList  Rules2D             *)
(*   ToTokenList  XNewLines  ISepAfterDontPiles  XSep                       *)
(*                                                                          *)
(* A token is a record [k |-> kind, t |-> spelling, c |-> column].  Kinds:  *)
(* "id" "kw" "int" "float" "str" "com" "pre" "post" "err".  Keywords,       *)
(* including the layout tokens, have k = "kw" and the spellings of          *)
(* token.c:tokInfoTable; newline / #pile / #endpile / SetTab / BackSet /    *)
(* BackTab are spelled NL PILE ENDPILE SETTAB BACKSET BACKTAB below.        *)
(*                                                                          *)
(* The LNodeTree of linear.c is kept as a tree:                             *)
(*   [k |-> "t", ind, has, tok]            LN_1Tok                          *)
(*   [k |-> "s", ind, has, args]           LN_NTok and LN_NNodes            *)
(*   [k |-> "p", ind, has, args]           LN_DoPile                        *)
(* (NTok and NNodes differ only in storage; every function of linear.c that *)
(* inspects a node does the same on both.)                                  *)
(*                                                                          *)
(* This module is implementation-shaped: it says what linear.c does, not    *)
(* what the language promises.  The promise (LayoutIndependent) is stated   *)
(* in Layout.tla, which renders abstract programs into layouts and pushes   *)
(* them through these operators.                                            *)
(***************************************************************************)
EXTENDS Naturals, Integers, Sequences, SequencesExt, FiniteSets

NL      == "<NL>"
PILE    == "#pile"
ENDPILE == "#endpile"
SETTAB  == "<SETTAB>"
BACKSET == "<BACKSET>"
BACKTAB == "<BACKTAB>"

Moot == -1                      \* MootIndentation

IsKw(tok, s) == tok.k = "kw" /\ tok.t = s
KwTok(s, c)  == [k |-> "kw", t |-> s, c |-> c]

(* token.c:tokInfoTable, columns F (isOpener), G (isCloser), H (isFollower) *)
Openers   == {"[", "[|", "{", "{|", "(", "(|"}
Closers   == {"]", "}", ")", "|]", "|}", "|)"}
Followers == {"and", "always", "but", "catch", "else", "finally", "from", "in", "of", "or",
              "pretend", "then", "to", "where", ",", "$", ":=", ":", ":*", "::", ".",
              "==", "==>", "+->", "+->*"}
IsOpener(tok)     == tok.k = "kw" /\ tok.t \in Openers
IsCloser(tok)     == tok.k = "kw" /\ tok.t \in Closers
IsFollower(tok)   == tok.k = "kw" /\ tok.t \in Followers
IsNonStarter(tok) == IsFollower(tok) \/ IsCloser(tok)

(* linear.c:isPileRequired *)
PileKW == {"then", "else", "with", "add", "try", "but", "catch", "finally", "always"}

Ix(lo, hi) == [i \in 1..(IF hi >= lo THEN hi - lo + 1 ELSE 0) |-> lo + i - 1]

---------------------------------------------------------------------------
(* linXTokens(tl, TK_Comment), linXTokens(tl, KW_NewLine)                   *)
XComments(tl) == SelectSeq(tl, LAMBDA k : k.k # "com")
XNewLines(tl) == SelectSeq(tl, LAMBDA k : ~IsKw(k, NL))

(* linXBlankLines: leading newlines go; after a newline or a #pile every   *)
(* directly following newline goes.                                         *)
XBlankLines(tl) ==
  FoldLeft(LAMBDA acc, k :
             IF IsKw(k, NL) /\ (acc = <<>> \/ IsKw(acc[Len(acc)], NL) \/ IsKw(acc[Len(acc)], PILE))
             THEN acc ELSE Append(acc, k),
           <<>>, tl)

---------------------------------------------------------------------------
(* linCheckBalance: [err |-> number of errors, warn |-> number of warnings] *)
(* lastOpener is "" for the pseudo opener (TK_Blank) of the outermost call. *)
RECURSIVE Bal0(_, _, _, _)
Bal0(tl, i, opener, depth) ==          \* returns [i, err, warn]
  IF i > Len(tl)
  THEN [i |-> i,
        err  |-> IF opener # "" /\ opener # PILE THEN 1 ELSE 0,
        warn |-> IF opener # "" /\ depth > 1 THEN 1 ELSE 0]
  ELSE LET tok == tl[i] IN
       IF IsKw(tok, PILE) \/ IsKw(tok, "{")
       THEN LET r == Bal0(tl, i + 1, tok.t, depth + 1)
                s == Bal0(tl, r.i, opener, depth)
            IN [i |-> s.i, err |-> r.err + s.err, warn |-> r.warn + s.warn]
       ELSE IF IsKw(tok, ENDPILE)
       THEN IF opener = PILE THEN [i |-> i + 1, err |-> 0, warn |-> 0]
            ELSE LET s == Bal0(tl, i + 1, opener, depth)
                 IN [i |-> s.i, err |-> s.err + 1, warn |-> s.warn]
       ELSE IF IsKw(tok, "}")
       THEN IF opener = "{" THEN [i |-> i + 1, err |-> 0, warn |-> 0]
            ELSE LET s == Bal0(tl, i + 1, opener, depth)
                 IN [i |-> s.i, err |-> s.err + 1, warn |-> s.warn]
       ELSE Bal0(tl, i + 1, opener, depth)

CheckBalance(tl) == LET r == Bal0(tl, 1, "", 0) IN [err |-> r.err, warn |-> r.warn]

---------------------------------------------------------------------------
(* LNodeTree                                                                *)
NonCom   == "NonCom"
NonBlank == "NonBlank"

TokHas(tok) == IF tok.k = "com" \/ IsKw(tok, NL) THEN {}
               ELSE IF tok.k \in {"pre", "post"} THEN {NonBlank}
               ELSE {NonBlank, NonCom}

Leaf(tok) == [k |-> "t", ind |-> tok.c, has |-> TokHas(tok), tok |-> tok]
Empty     == [k |-> "s", ind |-> 0, has |-> {}, args |-> <<>>]
NoTok     == [k |-> "none", t |-> "", c |-> 0]       \* the NULL Token

LinIsBlank(n) == NonBlank \notin n.has
LinIsCom(n)   == NonCom \notin n.has

HasAll(ch) == UNION {ch[j].has : j \in 1..Len(ch)}

RECURSIVE FirstTok(_)
FirstTok(n) == IF n.k = "t" THEN n.tok
               ELSE IF Len(n.args) = 0 THEN NoTok ELSE FirstTok(n.args[1])

RECURSIVE LastTok(_)
LastTok(n) == IF n.k = "t" THEN n.tok
              ELSE IF Len(n.args) = 0 THEN NoTok ELSE LastTok(n.args[Len(n.args)])

RECURSIVE LastTokLessNL(_), LastLessNLFrom(_, _)
LastLessNLFrom(args, j) ==
  IF j = 0 THEN NoTok
  ELSE LET tok == LastTokLessNL(args[j])
       IN IF tok.k # "none" /\ ~IsKw(tok, NL) THEN tok ELSE LastLessNLFrom(args, j - 1)
LastTokLessNL(n) == IF n.k = "t" THEN (IF IsKw(n.tok, NL) THEN NoTok ELSE n.tok)
                    ELSE LastLessNLFrom(n.args, Len(n.args))

(* linKeyword(org, key): a keyword at the position of org                   *)
LinKeyword(org, key) == KwTok(key, IF org.k = "none" THEN 0 ELSE org.c)

(* lntConcat / lntSeparate / lntWrap; Nil stands for the NULL tree          *)
Nil == [k |-> "nil"]
Concat(l, r) == IF l.k = "nil" THEN r ELSE IF r.k = "nil" THEN l
                ELSE [k |-> "s", ind |-> l.ind, has |-> l.has \cup r.has, args |-> <<l, r>>]
Separate(l, sep, r) ==
  LET st == LinKeyword(LastTok(l), sep)
  IN [k |-> "s", ind |-> l.ind, has |-> l.has \cup TokHas(st) \cup r.has, args |-> <<l, Leaf(st), r>>]
Wrap(open, n, close) ==
  LET ot == LinKeyword(FirstTok(n), open)
      ct == LinKeyword(LastTok(n), close)
  IN [k |-> "s", ind |-> n.ind, has |-> TokHas(ot) \cup n.has \cup TokHas(ct),
      args |-> <<Leaf(ot), n, Leaf(ct)>>]

(* lntToTokenList: the frontier; a DoPile node puts a newline between its   *)
(* children (none is left after Rules2D).                                   *)
RECURSIVE ToTokenList(_)
ToTokenList(n) ==
  IF n.k = "nil" THEN <<>>
  ELSE IF n.k = "t" THEN <<n.tok>>
  ELSE IF n.k = "s"
  THEN FoldLeft(LAMBDA acc, a : acc \o ToTokenList(a), <<>>, n.args)
  ELSE FoldLeft(LAMBDA acc, j :
                  LET s == acc \o ToTokenList(n.args[j])
                  IN IF j < Len(n.args)
                     THEN Append(s, LinKeyword(IF s = <<>> THEN NoTok ELSE s[Len(s)], NL)) ELSE s,
                <<>>, Ix(1, Len(n.args)))

---------------------------------------------------------------------------
(* linIndentation: the column of the first token of a line, skipping a      *)
(* leading `@ label`; Moot if that token is a newline or missing.           *)
LinIndentation(tl, i) ==
  LET j == IF i <= Len(tl) /\ IsKw(tl[i], "@") THEN (IF i + 1 <= Len(tl) THEN i + 2 ELSE i + 1) ELSE i
  IN IF j <= Len(tl) /\ ~IsKw(tl[j], NL) THEN tl[j].c ELSE Moot

(* lntFrTL_MakeLine *)
MakeLine(ch, in0) == IF Len(ch) = 1 THEN ch[1]
                     ELSE [k |-> "s", ind |-> in0, has |-> HasAll(ch), args |-> ch]

(* The recursive-descent conversion TokenList -> LNodeTree.  dp, dd are the *)
(* static counters depthDoPileNo, depthDontPileNo.  Every operator returns  *)
(* [n |-> node, i |-> index of the first unconsumed token].                 *)
RECURSIVE FrDoPile(_, _, _, _), FrDoPileLines(_, _, _, _, _), FrDoLine(_, _, _, _),
          FrDoLineLoop(_, _, _, _, _), FrDontPile(_, _, _, _), FrDontLine(_, _, _, _, _),
          FrDontLineLoop(_, _, _, _, _, _, _)

FrDoPile(tl, i, dp, dd) ==
  LET in0 == LinIndentation(tl, i)
      r   == FrDoPileLines(tl, i + 1, dp + 1, dd, <<Leaf(tl[i])>>)
      j   == r.i
      end == j <= Len(tl) /\ IsKw(tl[j], ENDPILE)
      ch  == IF end THEN Append(r.ch, Leaf(tl[j]))
             ELSE IF j > Len(tl) THEN Append(r.ch, Leaf(KwTok(ENDPILE, 0))) ELSE r.ch
  IN [n |-> [k |-> "p", ind |-> in0, has |-> HasAll(ch), args |-> ch],
      i |-> IF end THEN j + 1 ELSE j]

FrDoPileLines(tl, i, dp, dd, acc) ==
  IF i <= Len(tl) /\ ~IsKw(tl[i], ENDPILE)
  THEN LET r == FrDoLine(tl, i, dp, dd) IN FrDoPileLines(tl, r.i, dp, dd, Append(acc, r.n))
  ELSE [ch |-> acc, i |-> i]

FrDoLine(tl, i, dp, dd) ==
  IF i > Len(tl) THEN [n |-> Empty, i |-> i]
  ELSE LET r == FrDoLineLoop(tl, i, dp, dd, <<>>)
       IN [n |-> MakeLine(r.ch, LinIndentation(tl, i)), i |-> r.i]

FrDoLineLoop(tl, i, dp, dd, acc) ==
  LET tok  == tl[i]
      isEP == IsKw(tok, ENDPILE)
      step == IF IsKw(tok, PILE) THEN LET r == FrDoPile(tl, i, dp, dd) IN [ch |-> Append(acc, r.n), i |-> r.i]
              ELSE IF IsKw(tok, "{") THEN LET r == FrDontPile(tl, i, dp, dd) IN [ch |-> Append(acc, r.n), i |-> r.i]
              ELSE IF isEP THEN [ch |-> acc, i |-> i]
              ELSE [ch |-> Append(acc, Leaf(tok)), i |-> i + 1]
      more == /\ ~IsKw(tok, NL)
              /\ (~isEP \/ dp = 0)
              /\ (~IsKw(tok, "}") \/ dd = 0)
              /\ step.i <= Len(tl)
  IN IF more THEN FrDoLineLoop(tl, step.i, dp, dd, step.ch) ELSE step

FrDontPile(tl, i, dp, dd) ==
  LET in0 == LinIndentation(tl, i)
      r   == FrDontLine(tl, i + 1, TRUE, dp, dd + 1)
      j   == r.i
      end == j <= Len(tl) /\ IsKw(tl[j], "}")
      ch  == IF end THEN <<Leaf(tl[i]), r.n, Leaf(tl[j])>> ELSE <<Leaf(tl[i]), r.n>>
  IN [n |-> [k |-> "s", ind |-> in0, has |-> HasAll(ch), args |-> ch],
      i |-> IF end THEN j + 1 ELSE j]

FrDontLine(tl, i, stacking, dp, dd) ==
  IF i > Len(tl) THEN [n |-> Empty, i |-> i]
  ELSE LET r == FrDontLineLoop(tl, i, stacking, dp, dd, 0, <<>>)
       IN [n |-> IF Len(r.ch) = 0
                 THEN [k |-> "s", ind |-> LinIndentation(tl, i), has |-> {}, args |-> <<>>]
                 ELSE MakeLine(r.ch, LinIndentation(tl, i)),
           i |-> r.i]

FrDontLineLoop(tl, i, stacking, dp, dd, depth, acc) ==
  IF i > Len(tl) THEN [ch |-> acc, i |-> i]
  ELSE LET tok == tl[i] IN
       IF IsKw(tok, PILE)
       THEN LET r == FrDoPile(tl, i, dp, dd)
            IN FrDontLineLoop(tl, r.i, stacking, dp, dd, depth, Append(acc, r.n))
       ELSE LET d2 == IF stacking /\ IsKw(tok, "{") THEN depth + 1
                      ELSE IF stacking /\ IsKw(tok, "}") THEN depth - 1 ELSE depth
            IN IF d2 < 0 THEN [ch |-> acc, i |-> i]
               ELSE FrDontLineLoop(tl, i + 1, stacking, dp, dd, d2, Append(acc, Leaf(tok)))

FrTokenList(tl) == FrDontLine(tl, 1, FALSE, 0, 0).n

---------------------------------------------------------------------------
(* The 2-D rules                                                            *)

(* isPileRequired(context, lnt)                                             *)
IsPileRequired(context) ==
  LET tok == IF context.k = "nil" THEN NoTok ELSE LastTokLessNL(context)
  IN tok.k = "kw" /\ tok.t \in PileKW

(* isBackSetRequired(context, lnt1, lnt2)                                   *)
IsBackSetRequired(l1, l2) ==
  LET tok1 == LastTokLessNL(l1)
      tok2 == FirstTok(l2)
  IN IF LinIsCom(l1) \/ LinIsBlank(l1) \/ LinIsBlank(l2) THEN FALSE        \* rule 1
     ELSE IF tok1.k = "none" \/ tok2.k = "none" THEN TRUE
     ELSE IF IsKw(tok1, ",") \/ IsOpener(tok1) THEN FALSE                     \* rule 2
     ELSE IF IsFollower(tok2) \/ IsCloser(tok2) THEN FALSE                    \* rule 3
     ELSE TRUE

(* joinUp(context, tll): [n |-> node, bs |-> number of BackSets inserted]   *)
JoinUp(context, tll) ==
  LET st == FoldLeft(LAMBDA acc, j :
                       IF IsBackSetRequired(tll[j - 1], tll[j])
                       THEN [n |-> Separate(acc.n, BACKSET, tll[j]), bs |-> acc.bs + 1]
                       ELSE [n |-> Concat(acc.n, tll[j]), bs |-> acc.bs],
                     [n |-> tll[1], bs |-> 0], Ix(2, Len(tll)))
  IN IF st.bs > 0 \/ IsPileRequired(context) THEN Wrap(SETTAB, st.n, BACKTAB) ELSE st.n

(* lin2DRulesPile0(context, lnt, &iS, &iE): lines = the children of the     *)
(* DoPile node; returns [n |-> result, i |-> new iS].                       *)
RECURSIVE Pile0(_, _, _, _), Pile0Loop(_, _, _, _, _)
Pile0Loop(lines, i, iE, indentS, sofar) ==       \* returns [sofar, i]
  IF i > iE THEN [sofar |-> sofar, i |-> i]
  ELSE LET l0 == lines[i] IN
       IF LinIsBlank(l0) \/ l0.ind = Moot
       THEN Pile0Loop(lines, i + 1, iE, indentS, Append(sofar, l0))
       ELSE IF l0.ind < indentS THEN [sofar |-> sofar, i |-> i]
       ELSE IF l0.ind = indentS THEN Pile0Loop(lines, i + 1, iE, indentS, Append(sofar, l0))
       ELSE LET r == Pile0(sofar[Len(sofar)], lines, i, iE)
            IN Pile0Loop(lines, r.i, iE, indentS, [sofar EXCEPT ![Len(sofar)] = r.n])
Pile0(context, lines, iS, iE) ==
  IF iS > iE THEN [n |-> Empty, i |-> iS]
  ELSE LET r == Pile0Loop(lines, iS, iE, lines[iS].ind, <<>>)
       IN [n |-> Concat(context, JoinUp(context, r.sofar)), i |-> r.i]

RECURSIVE PileRest(_, _, _, _)
PileRest(rnt, lines, iS, iE) ==
  IF iS <= iE THEN LET r == Pile0(rnt, lines, iS, iE) IN PileRest(r.n, lines, r.i, iE) ELSE rnt

(* lin2DRulesPile *)
RulesPile(p) ==
  LET n   == Len(p.args)
      isK(j, s) == j >= 1 /\ j <= n /\ p.args[j].k = "t" /\ IsKw(p.args[j].tok, s)
      hasStarter == isK(1, PILE)
      hasEnder   == isK(n, ENDPILE)
      iS == IF hasStarter THEN 2 ELSE 1
      iE == IF hasStarter /\ hasEnder THEN n - 1 ELSE n
      r  == Pile0(Nil, p.args, iS, iE)
  IN PileRest(r.n, p.args, r.i, iE)

(* lin2DRules *)
RECURSIVE Rules2D(_)
Rules2D(n) ==
  IF n.k = "t" THEN n
  ELSE LET ch == [j \in 1..Len(n.args) |-> Rules2D(n.args[j])]
       IN IF n.k = "s" THEN [n EXCEPT !.args = ch] ELSE RulesPile([n EXCEPT !.args = ch])

---------------------------------------------------------------------------
(* linISepAfterDontPiles: a `;` after every `}` that is followed by         *)
(* something other than `;`.                                                *)
ISepAfterDontPiles(tl) ==
  FoldLeft(LAMBDA acc, i :
             IF IsKw(tl[i], "}") /\ i < Len(tl) /\ ~IsKw(tl[i + 1], ";")
             THEN acc \o <<tl[i], LinKeyword(tl[i], ";")>> ELSE Append(acc, tl[i]),
           <<>>, Ix(1, Len(tl)))

(* linXSep: leading `;` go; a `;` that is last or stands before a follower  *)
(* or closer goes.  (The C loop steps over the element after a deleted `;`; *)
(* that element is a non-starter or nothing, hence never itself a `;`, so   *)
(* the decision for each `;` depends on its original successor only.)       *)
RECURSIVE LeadingSemis(_, _)
LeadingSemis(tl, i) == IF i <= Len(tl) /\ IsKw(tl[i], ";") THEN LeadingSemis(tl, i + 1) ELSE i - 1
XSep(tl0) ==
  LET tl == SubSeq(tl0, LeadingSemis(tl0, 1) + 1, Len(tl0))
  IN FoldLeft(LAMBDA acc, i :
                IF i >= 2 /\ IsKw(tl[i], ";") /\ (i = Len(tl) \/ IsNonStarter(tl[i + 1]))
                THEN acc ELSE Append(acc, tl[i]),
              <<>>, Ix(1, Len(tl)))

---------------------------------------------------------------------------
(* linearize(), all stages; the record keeps what -WD+lin prints.           *)
Linearize(tl0) ==
  LET a   == XComments(tl0)
      b   == XBlankLines(a)
      bal == CheckBalance(b)
      t   == FrTokenList(b)
      u   == Rules2D(t)
      e   == XNewLines(ToTokenList(u))
      m   == ISepAfterDontPiles(e)
      x   == XSep(m)
  IN [starting |-> tl0, balance |-> bal, ending |-> e, mid |-> m, leaving |-> x]

Spell(tl) == [i \in 1..Len(tl) |-> tl[i].t]
=============================================================================
