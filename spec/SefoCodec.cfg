SPECIFICATION Spec
CONSTANTS
  SkipLits = {"int", "flt", "str"}
  Export = TRUE
INVARIANTS TypeOK IndexOK FetchOK
CHECK_DEADLOCK FALSE
