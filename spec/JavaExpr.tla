------------------------------ MODULE JavaExpr ------------------------------
(***************************************************************************)
(* C12: expressions over the machine-level builtins on the Java route.     *)
(*                                                                         *)
(* An expression is a tree of builtin applications (FOAM BCall) over       *)
(* operand leaves.  Its value is given by the definitions of Builtins.tla  *)
(* (the module C04 uses), read at the word size of the platform: the Java  *)
(* back end represents SInt by `int` (32 bits), the interpreter by a       *)
(* 64-bit word.  Builtins is instantiated at both sizes; an expression is  *)
(* a member of C12's family iff every application in it is inside the      *)
(* domain of its operation and specified at both sizes and the two values  *)
(* are equal: for those the language assigns one value whatever the word   *)
(* size, and the Java route and the interpreter must both produce it.      *)
(*                                                                         *)
(* The second half states what the Java text generated for such a tree     *)
(* has to respect.  genjava.c maps a builtin either to a call              *)
(* (foamj.Math.gcd(a, b), a.negate(): operands sit between the call's own  *)
(* parentheses) or to a Java operator expression; javacode.c prints the    *)
(* operator tree as text.  The text is read back by javac with the         *)
(* precedence and associativity of the Java language (JLS 15), so an       *)
(* operand that is itself an operator expression must be parenthesised     *)
(* exactly when Java would otherwise group the tokens differently          *)
(* (Required), and two prefix minus signs must not fuse into `--`.         *)
(* Reparse gives the tree javac reads when a required pair of parentheses  *)
(* is missing; the generator (JavaExprGen) uses it to choose operands on   *)
(* which the two readings have different values.                           *)
(***************************************************************************)
EXTENDS BigZ, FiniteSets, TLC

B32 == INSTANCE Builtins WITH SIntW <- 32, WordW <- 32
B64 == INSTANCE Builtins WITH SIntW <- 64, WordW <- 64

---------------------------------------------------------------------------
(* Trees.  leaf: [k |-> "leaf", t |-> type, v |-> value]                    *)
(*         node: [k |-> "op", op |-> builtin, args |-> <<tree, ...>>]       *)
Leaf(t, v)   == [k |-> "leaf", t |-> t, v |-> v]
Node(o, as)  == [k |-> "op", op |-> o, args |-> as]
IsLeaf(t)    == t.k = "leaf"
(* the signature table does not depend on the word size; it is tabulated once (an instantiated module's            *)
(* definitions are not cached by TLC)                                                                              *)
Tab          == B32!Table
SigF         == [o \in {Tab[i].op : i \in 1..Len(Tab)} |-> Tab[CHOOSE i \in 1..Len(Tab) : Tab[i].op = o]]
SigOf(o)     == SigF[o]
DefOps       == B32!DefinedOps
TypeOf(t)    == IF IsLeaf(t) THEN t.t ELSE SigOf(t.op).res[1]

RECURSIVE WellTyped(_)
WellTyped(t) ==
  IF IsLeaf(t) THEN t.t \in {"Bool", "Char", "Byte", "HInt", "SInt", "Word", "BInt"}
  ELSE /\ t.op \in DefOps
       /\ Len(t.args) = Len(SigOf(t.op).args)
       /\ \A i \in 1..Len(t.args) :
             /\ WellTyped(t.args[i])
             /\ TypeOf(t.args[i]) = SigOf(t.op).args[i]
             /\ (~IsLeaf(t.args[i]) => Len(SigOf(t.args[i].op).res) = 1)

HasT(w, v, ty)  == IF w = 32 THEN B32!HasType(v, ty) ELSE B64!HasType(v, ty)
InDom(w, o, a)  == IF w = 32 THEN B32!InDomain(o, a) /\ B32!Specified(o, a)
                             ELSE B64!InDomain(o, a) /\ B64!Specified(o, a)
DefW(w, o, a)   == IF w = 32 THEN B32!Def(o, a) ELSE B64!Def(o, a)

Undef == [ok |-> FALSE, r |-> <<>>]
(* value of a well-typed tree at word size w: [ok, r] with r the tuple of results *)
RECURSIVE Ev(_, _)
Ev(w, t) ==
  IF IsLeaf(t) THEN (IF HasT(w, t.v, t.t) THEN [ok |-> TRUE, r |-> <<t.v>>] ELSE Undef)
  ELSE LET sub == [i \in 1..Len(t.args) |-> Ev(w, t.args[i])] IN
       IF \E i \in 1..Len(sub) : ~sub[i].ok THEN Undef
       ELSE LET a == [i \in 1..Len(sub) |-> sub[i].r[1]] IN
            IF (\A i \in 1..Len(a) : HasT(w, a[i], SigOf(t.op).args[i])) /\ InDom(w, t.op, a)
            THEN [ok |-> TRUE, r |-> DefW(w, t.op, a)] ELSE Undef

(* A Word (unsigned) is observed through its signed reading -- the harness prints it as an SInt --, so a Word      *)
(* result belongs to the family only when the two readings coincide on a 32-bit platform.                           *)
Observable(t, r) == \A i \in 1..Len(r) : SigOf(t.op).res[i] = "Word" => Lt(r[i], Pow2Z(31))
(* the family: one value whatever the word size *)
Member(t) == /\ WellTyped(t) /\ ~IsLeaf(t)
             /\ LET a == Ev(32, t)  b == Ev(64, t) IN a.ok /\ b.ok /\ a.r = b.r /\ Observable(t, a.r)
Value(t)  == Ev(32, t).r

(* Operations the Java run time does not implement (foamj/Math.java: `throw new RuntimeException()`, marked          *)
(* unimplemented by its authors) are outside the subset the Java back end supports.                                 *)
NotInJavaSubset == {"SIntLength", "SIntTimesModInv", "BIntSIPower", "BIntBIPower", "BIntPowerMod",
                    "WordPlusStep", "WordTimesStep", "FormatBInt", "ScanSInt", "ScanBInt"}

---------------------------------------------------------------------------
(* How genjava.c renders a builtin (gjBValInfoTable).                       *)
(*   bin   a1 SYM a2            bink  a1 SYM K           un   SYM a1         *)
(*   tp    a1 * a2 + a3         om    (a1 SYM a2) % a3   cast (TYPE) a1      *)
(*   app   a call: an atom of the expression grammar                        *)
JKind(o) ==
  CASE o \in {"SIntPlus", "SIntMinus", "SIntTimes", "SIntQuo", "SIntRem", "SIntMod", "SIntShiftUp", "SIntShiftDn",
              "SIntAnd", "SIntOr", "SIntXOr", "SIntEQ", "SIntNE", "SIntLT", "SIntLE",
              "BoolAnd", "BoolOr", "BoolEQ", "BoolNE"} -> "bin"
    [] o \in {"SIntPrev", "SIntNext", "SIntNot", "SIntIsZero", "SIntIsNeg", "SIntIsPos"} -> "bink"
    [] o \in {"SIntNegate", "BoolNot"} -> "un"
    [] o = "SIntTimesPlus" -> "tp"
    [] o \in {"SIntPlusMod", "SIntMinusMod", "SIntTimesMod"} -> "om"
    [] o \in {"SIntToHInt", "SIntToByte", "HIntToSInt", "ByteToSInt"} -> "cast"
    [] OTHER -> "app"
JSym(o) ==
  CASE o \in {"SIntPlus", "SIntNext", "SIntPlusMod"} -> "+"
    [] o \in {"SIntMinus", "SIntPrev", "SIntNegate", "SIntMinusMod"} -> "-"
    [] o \in {"SIntTimes", "SIntTimesMod"} -> "*"
    [] o = "SIntQuo" -> "/"
    [] o \in {"SIntRem", "SIntMod"} -> "%"
    [] o = "SIntShiftUp" -> "<<"
    [] o = "SIntShiftDn" -> ">>"
    [] o \in {"SIntAnd", "BoolAnd"} -> "&"
    [] o \in {"SIntOr", "BoolOr"} -> "|"
    [] o \in {"SIntXOr", "SIntNot"} -> "^"
    [] o \in {"SIntEQ", "BoolEQ", "SIntIsZero"} -> "=="
    [] o \in {"SIntNE", "BoolNE"} -> "!="
    [] o \in {"SIntLT", "SIntIsNeg"} -> "<"
    [] o = "SIntLE" -> "<="
    [] o = "SIntIsPos" -> ">"
    [] o = "BoolNot" -> "!"
    [] OTHER -> "()"
OperatorOps == {o \in DefOps : JKind(o) # "app"}

(* The Java language (JLS 15.7-15.26): binding strength of the binary operators, all of them left-associative;      *)
(* prefix operators and casts bind tighter than every binary operator.                                             *)
JPrec(s) ==
  CASE s \in {"*", "/", "%"} -> 12
    [] s \in {"+", "-"} -> 11
    [] s \in {"<<", ">>"} -> 10
    [] s \in {"<", "<=", ">", ">="} -> 9
    [] s \in {"==", "!="} -> 8
    [] s = "&" -> 7
    [] s = "^" -> 6
    [] s = "|" -> 5
    [] s = "&&" -> 4
    [] s = "||" -> 3
Prefix == 13

(* The operator directly above argument slot i in the text of builtin o: <<kind, symbol, side>>.                   *)
SlotCtx(o, i) ==
  CASE JKind(o) \in {"bin", "bink"} -> <<"bin", JSym(o), IF i = 1 THEN "L" ELSE "R">>
    [] JKind(o) = "un" -> <<"un", JSym(o), "R">>
    [] JKind(o) = "cast" -> <<"un", "cast", "R">>
    [] JKind(o) = "tp" -> IF i = 3 THEN <<"bin", "+", "R">> ELSE <<"bin", "*", IF i = 1 THEN "L" ELSE "R">>
    [] JKind(o) = "om" -> IF i = 3 THEN <<"bin", "%", "R">> ELSE <<"bin", JSym(o), IF i = 1 THEN "L" ELSE "R">>
    [] OTHER -> <<"app", "()", "R">>
(* The operator at the root of the text of builtin o: <<kind, symbol>>.                                            *)
RootOp(o) ==
  CASE JKind(o) \in {"bin", "bink"} -> <<"bin", JSym(o)>>
    [] JKind(o) = "un" -> <<"un", JSym(o)>>
    [] JKind(o) = "cast" -> <<"un", "cast">>
    [] JKind(o) = "tp" -> <<"bin", "+">>
    [] JKind(o) = "om" -> <<"bin", "%">>
    [] OTHER -> <<"app", "()">>

(* Must an operand with root operator c be parenthesised under the context p ?                                      *)
Required(p, c) ==
  CASE p[1] = "app" \/ c[1] = "app" -> FALSE                    \* inside a call's parentheses / an atom
    [] p[1] = "bin" /\ c[1] = "bin" -> IF p[3] = "L" THEN JPrec(c[2]) < JPrec(p[2]) ELSE JPrec(c[2]) <= JPrec(p[2])
    [] p[1] = "un"  /\ c[1] = "bin" -> TRUE                     \* -a + b  is  (-a) + b
    [] p[1] = "un"  /\ c[1] = "un"  -> p[2] = "-" /\ c[2] = "-" \* the tokens - - must not become --
    [] OTHER -> FALSE                                           \* a prefix operand of a binary operator

---------------------------------------------------------------------------
(* The printer of javacode.c (model): its own precedence numbers (jcClss[]: & | ^ share one level) and the rule    *)
(* of jc0PrintOperand / jc0PrintWithParens / jc0NeedsParens.                                                       *)
PPrec(k, s) ==
  IF k = "un" THEN (IF s = "cast" THEN 16 ELSE 13)
  ELSE CASE s \in {"*", "/", "%"} -> 12
         [] s \in {"+", "-"} -> 11
         [] s \in {"<<", ">>"} -> 10
         [] s \in {"<", "<=", ">", ">="} -> 9
         [] s \in {"==", "!="} -> 8
         [] s \in {"&", "|", "^"} -> 7
         [] s \in {"&&", "||"} -> 4
PrinterParens(p, c) ==
  IF c[1] = "app" \/ p[1] = "app" THEN FALSE
  ELSE LET pp == PPrec(p[1], p[2])  pc == PPrec(c[1], c[2]) IN
       IF p[1] = "un" THEN pp > pc
       ELSE \/ pp > pc
            \/ pp = pc /\ ~(p[3] = "L" /\ p[2] = c[2])           \* every binary class is JCO_LR
(* Pairs that never reach the printer: the FOAM simplifier rewrites -(-x) to x at every optimisation level          *)
(* (observed at -Q1 .. -Q9), so a prefix minus is never the operand of a prefix minus.  On that pair the rule       *)
(* above would print `--x`; the check reports it as a latent slip of the printer, not as a violation.               *)
Simplified(p, c) == p[1] = "un" /\ c[1] = "un" /\ p[2] = "-" /\ c[2] = "-"
(* the printer's rule never omits parentheses the Java grammar requires *)
PrinterSoundAt(p, c) == (Required(p, c) /\ ~Simplified(p, c)) => PrinterParens(p, c)
LatentAt(p, c) == Required(p, c) /\ Simplified(p, c) /\ ~PrinterParens(p, c)

---------------------------------------------------------------------------
(* What javac reads when the parentheses around the operand in slot i of    *)
(* t (an operator expression) are missing.  Defined for bin/bink/un/cast     *)
(* parents and bin/bink children, which is where Required can hold with a    *)
(* well-typed re-reading; elsewhere the result is NoTree.                   *)
(*   right operand:  x P (y C z)   is read   (x P y) C z                     *)
(*   left operand:   (y C z) P x   is read   y C (z P x)                     *)
(*   prefix:         P (y C z)     is read   (P y) C z                       *)
NoTree == [k |-> "none"]
KLeaf(o) == Leaf("SInt", CASE o = "SIntNot" -> FromInt(-1) [] o \in {"SIntPrev", "SIntNext"} -> One [] OTHER -> Zero)
(* a binary operator text SYM applied to two trees, as a builtin tree (by the type of the left operand) *)
BinOf(sym, a, b) ==
  LET ty == TypeOf(a) IN
  CASE sym = "+" -> Node("SIntPlus", <<a, b>>)   [] sym = "-" -> Node("SIntMinus", <<a, b>>)
    [] sym = "*" -> Node("SIntTimes", <<a, b>>)  [] sym = "/" -> Node("SIntQuo", <<a, b>>)
    [] sym = "%" -> Node("SIntRem", <<a, b>>)    [] sym = "<<" -> Node("SIntShiftUp", <<a, b>>)
    [] sym = ">>" -> Node("SIntShiftDn", <<a, b>>)
    [] sym = "&" -> Node(IF ty = "Bool" THEN "BoolAnd" ELSE "SIntAnd", <<a, b>>)
    [] sym = "|" -> Node(IF ty = "Bool" THEN "BoolOr" ELSE "SIntOr", <<a, b>>)
    [] sym = "^" -> Node(IF ty = "Bool" THEN "BoolNE" ELSE "SIntXOr", <<a, b>>)
    [] sym = "==" -> Node(IF ty = "Bool" THEN "BoolEQ" ELSE "SIntEQ", <<a, b>>)
    [] sym = "!=" -> Node(IF ty = "Bool" THEN "BoolNE" ELSE "SIntNE", <<a, b>>)
    [] sym = "<" -> Node("SIntLT", <<a, b>>)     [] sym = "<=" -> Node("SIntLE", <<a, b>>)
    [] sym = ">" -> Node("SIntLT", <<b, a>>)
(* the text of an operator builtin as one binary operator over two operand trees: <<symbol, left, right>>          *)
Split(t) ==
  CASE JKind(t.op) = "bin"  -> <<JSym(t.op), t.args[1], t.args[2]>>
    [] JKind(t.op) = "bink" -> <<JSym(t.op), t.args[1], KLeaf(t.op)>>
    [] JKind(t.op) = "tp"   -> <<"+", BinOf("*", t.args[1], t.args[2]), t.args[3]>>
    [] JKind(t.op) = "om"   -> <<"%", BinOf(JSym(t.op), t.args[1], t.args[2]), t.args[3]>>
HasSplit(t) == ~IsLeaf(t) /\ JKind(t.op) \in {"bin", "bink", "tp", "om"}
(* child c = y C z unparenthesised next to `other` under the binary operator psym *)
Regroup(psym, other, side, c) ==
  LET sp == Split(c) IN
  IF side = "R" THEN BinOf(sp[1], BinOf(psym, other, sp[2]), sp[3])
                ELSE BinOf(sp[1], sp[2], BinOf(psym, sp[3], other))
Reparse(t, i) ==
  LET c == t.args[i]  k == JKind(t.op) IN
  IF ~HasSplit(c) THEN NoTree
  ELSE CASE k \in {"un", "cast"} -> LET sp == Split(c) IN BinOf(sp[1], Node(t.op, <<sp[2]>>), sp[3])
         [] k \in {"bin", "bink"} ->
              IF i = 2 THEN Regroup(JSym(t.op), Split(t)[2], "R", c) ELSE Regroup(JSym(t.op), Split(t)[3], "L", c)
         [] k = "tp" -> IF i = 3 THEN Regroup("+", Split(t)[2], "R", c)
                        ELSE BinOf("+", Regroup("*", t.args[3 - i], IF i = 2 THEN "R" ELSE "L", c), t.args[3])
         [] k = "om" -> IF i = 3 THEN Regroup("%", Split(t)[2], "R", c)
                        ELSE BinOf("%", Regroup(JSym(t.op), t.args[3 - i], IF i = 2 THEN "R" ELSE "L", c), t.args[3])
         [] OTHER -> NoTree
(* the two readings can be told apart by running: the re-reading is ill-typed (javac rejects it), leaves the        *)
(* domain, or has another value *)
Distinguishes(t, i) ==
  LET m == Reparse(t, i) IN
  IF m.k = "none" THEN FALSE
  ELSE IF ~WellTyped(m) THEN TRUE
  ELSE LET a == Ev(32, m) IN ~a.ok \/ a.r # Value(t)
=============================================================================
