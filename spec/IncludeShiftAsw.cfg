\* C15 two-run form, code as written outside the three defect classes: ShiftFaithfulFit must hold
CONSTANTS
  CNO = 2
  LNO = 3
  Packer = "aswritten"
  Policy = "aswritten"
  EofPolicy = "aswritten"
  FileNames = {"a", "b"}
  TopFile = "a"
  LineNames = {"a", "x"}
  LineNums = {1, 4}
  Cols = {1, 3, 4, 9}
  RunLens = {1, 4}
  MaxLines = 12
  MaxIf = 1
  MaxItems = 4
  Feat = {"line", "if", "misc"}
  AvoidEofIf = TRUE
  AvoidCollide = TRUE
  InsLens = {1, 3}
INIT Init
NEXT Next
CHECK_DEADLOCK FALSE
INVARIANT ShiftFaithfulFit
