------------------------------- MODULE DetCfg -------------------------------
(***************************************************************************)
(* The configuration space of property C08 ("compiler output is a function *)
(* of its input only") as a machine.  A configuration fixes everything     *)
(* that is NOT the input: which collector setting the compiler runs with   *)
(* (command-line flag, and hook H1's forced schedule "collect at every     *)
(* allocation n with n mod k = j"), whether the address space is           *)
(* randomised, the working directory, the environment, whether the files   *)
(* of a group are compiled in one invocation or one at a time, and the     *)
(* repetition number.  The machine chooses one axis per step; a completed  *)
(* configuration is exported (CONFIG line, JSON) together with its         *)
(* concretisation -- what the harness must do to realise it -- and the     *)
(* input size classes on which it is affordable.  TLC enumerates the whole *)
(* space; the check takes its configurations from this export only.        *)
(* A second branch of the same machine composes the BATCHES of the inv     *)
(* axis (which kind of file precedes which in one invocation, BATCH lines) *)
(* and the module fixes the VIEWS of every output that are observed: the   *)
(* full text and projections that the one recorded defect of that axis     *)
(* cannot change (Projections, RenumberingMayExplain).                     *)
(*                                                                         *)
(* Facts about the code this model stands on (axlcomp.c:compCmd/compInit,  *)
(* store.c:stoCtl/stoGc/stoVerifForcedGc):                                 *)
(*  - the collector is ON unless -Wno-gc is given ("-Wgc" is the explicit  *)
(*    spelling of the default; both together = on, with a remark);         *)
(*  - with -Wno-gc stoMustTag is false and stoGc() returns at once, so a   *)
(*    forced schedule is meaningful only when the collector is on;         *)
(*  - in the compiler process the schedule of ALDOR_VERIF_GC=k:j is active *)
(*    from the first allocation only if ALDOR_VERIF_GC_ALWAYS is set.      *)
(***************************************************************************)
EXTENDS Naturals, Sequences, FiniteSets, TLC, Json

CONSTANTS Ks,        \* the periods k of forced schedules
          MaxRep,    \* repetitions 1..MaxRep
          MaxBatch   \* the longest batch composition enumerated (files in one invocation)

Axes      == {"gc", "aslr", "cwd", "env", "inv", "rep"}
AxisOrder == <<"gc", "aslr", "cwd", "env", "inv", "rep">>

(* offsets tried for a period: first, middle, last residue *)
Offsets(k) == {0, k \div 2, k - 1}

GcFlags  == {"none", "-Wgc", "-Wno-gc"}
CollectorOn(g) == g.flag # "-Wno-gc"
GcOk(g) == /\ g.flag \in GcFlags /\ g.k \in Ks \cup {0}
           /\ IF g.k = 0 THEN g.j = 0 ELSE g.j \in Offsets(g.k) /\ CollectorOn(g)

Values(a) == CASE a = "aslr" -> {"off", "on"}
               [] a = "cwd"  -> {"A", "B"}
               [] a = "env"  -> {"empty", "polluted"}
               [] a = "inv"  -> {"sep", "batch"}
               [] a = "rep"  -> 1..MaxRep

(* a complete configuration, as it also appears in the cfg field of trace events *)
Valid(c) == /\ DOMAIN c = Axes
            /\ GcOk(c.gc)
            /\ \A a \in Axes \ {"gc"} : c[a] \in Values(a)

Baseline == [gc |-> [flag |-> "none", k |-> 0, j |-> 0], aslr |-> "off", cwd |-> "A", env |-> "empty", inv |-> "sep", rep |-> 1]

(* ---- what is observed: outputs and their projections -------------------- *)
(* Every output kind is observed as its full text AND through projections: functions of the text   *)
(* that do not change when the slot numbers of the lexicals of one environment format are          *)
(* permuted.  That permutation is the one recorded defect of the batch axis (a file that follows a *)
(* file which loaded the same library numbers the lexicals that hold its imported domains in       *)
(* another order); it is visible in the full text only.  Any OTHER state carried from one file of  *)
(* an invocation to the next -- a list of included C headers, a literal / label / name counter, an *)
(* assertion or option set by an earlier file, message state -- changes a projection, and a        *)
(* projection that differs is an ordinary rejected observation.  gen/detproj.py computes them.     *)
OutKinds == {"ao", "fm", "c", "lsp", "java", "msg", "exit"}
FullText == "text"
Projections(kind) ==
  CASE kind = "c"    -> {"includes", "decls", "structs", "funcs", "literals", "canon", "syntax"}
    [] kind = "fm"   -> {"tags", "globals", "consts", "formats", "literals", "progs", "canon"}
    [] kind = "lsp"  -> {"tags", "declare", "structs", "literals", "canon"}
    [] kind = "java" -> {"imports", "members", "literals", "canon"}
    [] kind = "ao"   -> {"sections", "ids", "foamsize"}
    [] OTHER         -> {}
(* what an Observe event may name *)
ValidView(kind, proj) == kind \in OutKinds /\ (proj = FullText \/ proj \in Projections(kind))
(* the recorded renumbering is a difference of full texts of code outputs between a separate and a  *)
(* batched compilation: nothing else may be explained by it                                          *)
RenumberingMayExplain(kind, proj, axes) ==
  proj = FullText /\ kind \in {"ao", "fm", "c", "lsp", "java"} /\ "inv" \in axes

(* ---- the batch family: which kinds of file precede which ------------------------------------------ *)
(* A file kind names what a file does to the state of the compiler process that a later file could   *)
(* meet: loads no library at all / an ordinary program / many string, big-integer and float literals *)
(* / Foreign C imports naming one set of headers / another, overlapping set / one header of those    *)
(* only / assertions, piles and directory directives / diagnostics.  Every kind has two              *)
(* representatives; a batch is a sequence of (kind, representative) of length 2..MaxBatch, so the    *)
(* same file twice, two different files of a kind and every order of two kinds are all batches.      *)
(* The sequences are taken up to renaming of representatives (representative 2 of a kind only after  *)
(* representative 1 of it).                                                                          *)
FileKinds == {"tiny", "clean", "lits", "fhdrA", "fhdrB", "fuse", "prag", "err"}
Slots     == [kind : FileKinds, rep : {1, 2}]
CanAdd(b, s) == s.rep = 2 => \E j \in 1..Len(b) : b[j].kind = s.kind /\ b[j].rep = 1
BatchOk(b) == /\ Len(b) \in 2..MaxBatch
              /\ \A i \in 1..Len(b) : b[i] \in Slots /\ CanAdd(SubSeq(b, 1, i - 1), b[i])
Precedes(b, k1, k2) == \E i \in 1..(Len(b) - 1) : b[i].kind = k1 /\ b[i + 1].kind = k2
SameTwice(b)        == \E i, j \in 1..Len(b) : i < j /\ b[i] = b[j]
BatchId(b) == LET Nm(s) == s.kind \o ToString(s.rep)
              IN  IF Len(b) = 2 THEN Nm(b[1]) \o "+" \o Nm(b[2])
                  ELSE IF Len(b) = 3 THEN Nm(b[1]) \o "+" \o Nm(b[2]) \o "+" \o Nm(b[3])
                  ELSE Nm(b[1]) \o "+" \o Nm(b[2]) \o "+" \o Nm(b[3]) \o "+" \o Nm(b[4])
(* the two-file batches alone already put every kind directly before every kind, with the same file *)
(* and with another file of the kind *)
Pairs == {b \in [1..2 -> Slots] : BatchOk(b)}
PairsCover == /\ \A k1, k2 \in FileKinds : \E b \in Pairs : Precedes(b, k1, k2)
              /\ \A k \in FileKinds : \E b \in Pairs : b[1].kind = k /\ SameTwice(b)
              /\ \A k \in FileKinds : \E b \in Pairs : b[1].kind = k /\ b[2].kind = k /\ ~SameTwice(b)

(* ---- the machine ------------------------------------------------------- *)
VARIABLES cfg,    \* the axes chosen so far (function from a prefix of AxisOrder)
          pc,     \* number of axes chosen
          batch   \* the batch composition chosen so far (sequence of Slots)
vars == <<cfg, pc, batch>>

Init == cfg = <<>> /\ pc = 0 /\ batch = <<>>

Choose(v) == /\ pc < Len(AxisOrder) /\ batch = <<>>
             /\ cfg' = cfg @@ (AxisOrder[pc + 1] :> v)
             /\ pc' = pc + 1
             /\ UNCHANGED batch

(* the other branch from the initial state: compose a batch, one file per step *)
AddFile == /\ pc = 0 /\ Len(batch) < MaxBatch
           /\ \E s \in Slots : CanAdd(batch, s) /\ batch' = Append(batch, s)
           /\ UNCHANGED <<cfg, pc>>
ExportBatch == /\ Len(batch) >= 2
               /\ PrintT("BATCH " \o ToJson([id |-> BatchId(batch), files |-> batch, twice |-> SameTwice(batch)]))
               /\ UNCHANGED vars

ChooseGc == /\ pc = 0
            /\ \/ \E f \in GcFlags : Choose([flag |-> f, k |-> 0, j |-> 0])
               \/ \E f \in {"none", "-Wgc"}, k \in Ks : \E j \in Offsets(k) : Choose([flag |-> f, k |-> k, j |-> j])
ChooseOther == /\ pc > 0 /\ pc < Len(AxisOrder)
               /\ \E v \in Values(AxisOrder[pc + 1]) : Choose(v)

Complete == pc = Len(AxisOrder)

(* ---- concretisation: what the harness does for a configuration --------- *)
N2S(n) == ToString(n)
GcId(g) == IF g.k = 0 THEN g.flag ELSE g.flag \o "+forced" \o N2S(g.k) \o ":" \o N2S(g.j)
Id(c) == "gc=" \o GcId(c.gc) \o ",aslr=" \o c.aslr \o ",cwd=" \o c.cwd \o ",env=" \o c.env
         \o ",inv=" \o c.inv \o ",rep=" \o N2S(c.rep)

Args(c)    == IF c.gc.flag = "none" THEN <<>> ELSE <<c.gc.flag>>
EnvAdd(c)  == IF c.gc.k = 0 THEN <<>>
              ELSE <<<<"ALDOR_VERIF_GC", N2S(c.gc.k) \o ":" \o N2S(c.gc.j)>>, <<"ALDOR_VERIF_GC_ALWAYS", "1">>>>
Wrapper(c) == IF c.aslr = "off" THEN <<"setarch", "-R">> ELSE <<>>

(* measured cost model (one collection scans the whole compiler heap): a schedule with period k   *)
(* multiplies the compile time by about 1 + 1000/k on a program that includes the library, so     *)
(* short periods are applied to library-free ("tiny") inputs only                                 *)
(* the batch family ("fam") is there for the inv axis: it is not run under forced schedules          *)
Classes(c) == IF c.gc.k = 0 THEN {"tiny", "gen", "corpus", "fam"}
              ELSE IF c.gc.k >= 1000 THEN {"tiny", "gen", "corpus"}
              ELSE IF c.gc.k >= 50 THEN {"tiny", "gen"}
              ELSE {"tiny"}

(* ---- comparing two configurations (used by TraceDet) -------------------- *)
(* the axes on which two configurations differ.  Every run with ASLR on has an address-space       *)
(* layout of its own, so "aslr" is among the differing axes as soon as one of the two runs was     *)
(* randomised; two runs that are equal on every axis but rep and both have ASLR off are the same    *)
(* deterministic process started twice: only time, process id and uninitialised storage differ.    *)
DiffAxes(c1, c2) == {a \in Axes : c1[a] # c2[a]} \cup (IF c1.aslr = "on" \/ c2.aslr = "on" THEN {"aslr"} ELSE {})
Dist(c)          == Cardinality({a \in Axes : c[a] # Baseline[a]})
(* the two runs are the same process image started twice: same command line, environment and       *)
(* directory, no randomisation.  Everything that depends on addresses only is equal in such runs.   *)
SameImage(c1, c2) == DiffAxes(c1, c2) \subseteq {"rep"}

(* ---- the space as a set (constant level), the star around the baseline ---------------------------- *)
AllGc   == {[flag |-> f, k |-> 0, j |-> 0] : f \in GcFlags}
           \cup UNION {{[flag |-> f, k |-> k, j |-> j] : j \in Offsets(k)} : f \in {"none", "-Wgc"}, k \in Ks}
Configs == {c \in [gc : AllGc, aslr : Values("aslr"), cwd : Values("cwd"), env : Values("env"), inv : Values("inv"),
                   rep : Values("rep")] : Valid(c)}
Star    == {c \in Configs : Dist(c) <= 1}
(* every value of every axis is met by a configuration that differs from the baseline on that axis only *)
StarCovers == /\ \A g \in AllGc : \E c \in Star : c.gc = g
              /\ \A a \in Axes \ {"gc"} : \A v \in Values(a) : \E c \in Star : c[a] = v
(* the machine reaches exactly the set *)
MachineInSpace == Complete => cfg \in Configs
ASSUME PrintT("NCONFIGS " \o ToString(Cardinality(Configs)) \o " STAR " \o ToString(Cardinality(Star)))
ASSUME PrintT("VIEWS " \o ToJson([k \in OutKinds |-> Projections(k)]))
ASSUME PrintT("FILEKINDS " \o ToJson(FileKinds))

Export == /\ Complete
          /\ PrintT("CONFIG " \o ToJson([id |-> Id(cfg), cfg |-> cfg, args |-> Args(cfg), envadd |-> EnvAdd(cfg),
                                          wrapper |-> Wrapper(cfg), classes |-> Classes(cfg), dist |-> Dist(cfg),
                                          collector |-> CollectorOn(cfg.gc)]))
          /\ UNCHANGED vars

Next == ChooseGc \/ ChooseOther \/ AddFile
Spec == Init /\ [][Next \/ Export \/ ExportBatch]_vars

(* ---- invariants ------------------------------------------------------- *)
TypeOK == /\ pc \in 0..Len(AxisOrder)
          /\ Len(batch) <= MaxBatch /\ (batch # <<>> => pc = 0)
          /\ \A i \in 1..Len(batch) : batch[i] \in Slots
          /\ DOMAIN cfg = {AxisOrder[i] : i \in 1..pc}
          /\ (pc >= 1 => GcOk(cfg.gc))
          /\ \A i \in 2..pc : cfg[AxisOrder[i]] \in Values(AxisOrder[i])
CompleteIsValid       == Complete => Valid(cfg)
(* a forced schedule is never combined with a switched-off collector (it would be a no-op) *)
ForcedNeedsCollector  == (pc >= 1 /\ cfg.gc.k > 0) => CollectorOn(cfg.gc)
(* the concretisation distinguishes what the axes distinguish *)
ConcreteFaithful      == Complete =>
                           /\ (Wrapper(cfg) = <<>>) = (cfg.aslr = "on")
                           /\ (EnvAdd(cfg) = <<>>) = (cfg.gc.k = 0)
                           /\ (Args(cfg) = <<>>) = (cfg.gc.flag = "none")
                           /\ Classes(cfg) # {} /\ "tiny" \in Classes(cfg)
(* every exported batch is a batch of the family, and the machine reaches every pair *)
BatchesOk             == Len(batch) >= 2 => BatchOk(batch)
ViewsSound            == /\ \A k \in OutKinds : FullText \notin Projections(k) /\ ValidView(k, FullText)
                         /\ \A k \in {"ao", "fm", "c", "lsp", "java"} : Projections(k) # {}
                         /\ \A k \in OutKinds : \A p \in Projections(k) : ~RenumberingMayExplain(k, p, Axes)
                         /\ ~RenumberingMayExplain("msg", FullText, Axes) /\ ~RenumberingMayExplain("c", FullText, Axes \ {"inv"})
BaselineValid         == Valid(Baseline) /\ DiffAxes(Baseline, Baseline) = {}
DiffSound             == Complete => /\ DiffAxes(cfg, cfg) = (IF cfg.aslr = "on" THEN {"aslr"} ELSE {})
                                     /\ DiffAxes(cfg, Baseline) = DiffAxes(Baseline, cfg)
                                     /\ (Dist(cfg) = 0) = (cfg = Baseline)
                                     /\ SameImage(cfg, cfg) = (cfg.aslr = "off")
                                     /\ (SameImage(cfg, Baseline) => Dist(cfg) <= 1)
=============================================================================
