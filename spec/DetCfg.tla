------------------------------- MODULE DetCfg -------------------------------
(***************************************************************************)
(* The configuration space of property C08 ("compiler output is a function *)
(* of its input only") as a machine.  A configuration fixes everything     *)
(* that is NOT the input: which collector setting the compiler runs with   *)
(* (command-line flag, and hook H1's forced schedule "collect at every     *)
(* allocation n with n mod k = j"), whether the address space is           *)
(* randomised, the working directory, the environment, whether the files   *)
(* of a group are compiled in one invocation or one at a time, and the     *)
(* repetition number.  The machine chooses one axis per step; a completed  *)
(* configuration is exported (CONFIG line, JSON) together with its         *)
(* concretisation -- what the harness must do to realise it -- and the     *)
(* input size classes on which it is affordable.  TLC enumerates the whole *)
(* space; the check takes its configurations from this export only.        *)
(*                                                                         *)
(* Facts about the code this model stands on (axlcomp.c:compCmd/compInit,  *)
(* store.c:stoCtl/stoGc/stoVerifForcedGc):                                 *)
(*  - the collector is ON unless -Wno-gc is given ("-Wgc" is the explicit  *)
(*    spelling of the default; both together = on, with a remark);         *)
(*  - with -Wno-gc stoMustTag is false and stoGc() returns at once, so a   *)
(*    forced schedule is meaningful only when the collector is on;         *)
(*  - in the compiler process the schedule of ALDOR_VERIF_GC=k:j is active *)
(*    from the first allocation only if ALDOR_VERIF_GC_ALWAYS is set.      *)
(***************************************************************************)
EXTENDS Naturals, Sequences, FiniteSets, TLC, Json

CONSTANTS Ks,        \* the periods k of forced schedules
          MaxRep     \* repetitions 1..MaxRep

Axes      == {"gc", "aslr", "cwd", "env", "inv", "rep"}
AxisOrder == <<"gc", "aslr", "cwd", "env", "inv", "rep">>

(* offsets tried for a period: first, middle, last residue *)
Offsets(k) == {0, k \div 2, k - 1}

GcFlags  == {"none", "-Wgc", "-Wno-gc"}
CollectorOn(g) == g.flag # "-Wno-gc"
GcOk(g) == /\ g.flag \in GcFlags /\ g.k \in Ks \cup {0}
           /\ IF g.k = 0 THEN g.j = 0 ELSE g.j \in Offsets(g.k) /\ CollectorOn(g)

Values(a) == CASE a = "aslr" -> {"off", "on"}
               [] a = "cwd"  -> {"A", "B"}
               [] a = "env"  -> {"empty", "polluted"}
               [] a = "inv"  -> {"sep", "batch"}
               [] a = "rep"  -> 1..MaxRep

(* a complete configuration, as it also appears in the cfg field of trace events *)
Valid(c) == /\ DOMAIN c = Axes
            /\ GcOk(c.gc)
            /\ \A a \in Axes \ {"gc"} : c[a] \in Values(a)

Baseline == [gc |-> [flag |-> "none", k |-> 0, j |-> 0], aslr |-> "off", cwd |-> "A", env |-> "empty", inv |-> "sep", rep |-> 1]

(* ---- the machine ------------------------------------------------------- *)
VARIABLES cfg,    \* the axes chosen so far (function from a prefix of AxisOrder)
          pc      \* number of axes chosen
vars == <<cfg, pc>>

Init == cfg = <<>> /\ pc = 0

Choose(v) == /\ pc < Len(AxisOrder)
             /\ cfg' = cfg @@ (AxisOrder[pc + 1] :> v)
             /\ pc' = pc + 1

ChooseGc == /\ pc = 0
            /\ \/ \E f \in GcFlags : Choose([flag |-> f, k |-> 0, j |-> 0])
               \/ \E f \in {"none", "-Wgc"}, k \in Ks : \E j \in Offsets(k) : Choose([flag |-> f, k |-> k, j |-> j])
ChooseOther == /\ pc > 0 /\ pc < Len(AxisOrder)
               /\ \E v \in Values(AxisOrder[pc + 1]) : Choose(v)

Complete == pc = Len(AxisOrder)

(* ---- concretisation: what the harness does for a configuration --------- *)
N2S(n) == ToString(n)
GcId(g) == IF g.k = 0 THEN g.flag ELSE g.flag \o "+forced" \o N2S(g.k) \o ":" \o N2S(g.j)
Id(c) == "gc=" \o GcId(c.gc) \o ",aslr=" \o c.aslr \o ",cwd=" \o c.cwd \o ",env=" \o c.env
         \o ",inv=" \o c.inv \o ",rep=" \o N2S(c.rep)

Args(c)    == IF c.gc.flag = "none" THEN <<>> ELSE <<c.gc.flag>>
EnvAdd(c)  == IF c.gc.k = 0 THEN <<>>
              ELSE <<<<"ALDOR_VERIF_GC", N2S(c.gc.k) \o ":" \o N2S(c.gc.j)>>, <<"ALDOR_VERIF_GC_ALWAYS", "1">>>>
Wrapper(c) == IF c.aslr = "off" THEN <<"setarch", "-R">> ELSE <<>>

(* measured cost model (one collection scans the whole compiler heap): a schedule with period k   *)
(* multiplies the compile time by about 1 + 1000/k on a program that includes the library, so     *)
(* short periods are applied to library-free ("tiny") inputs only                                 *)
Classes(c) == IF c.gc.k = 0 THEN {"tiny", "gen", "corpus"}
              ELSE IF c.gc.k >= 1000 THEN {"tiny", "gen", "corpus"}
              ELSE IF c.gc.k >= 50 THEN {"tiny", "gen"}
              ELSE {"tiny"}

(* ---- comparing two configurations (used by TraceDet) -------------------- *)
(* the axes on which two configurations differ.  Every run with ASLR on has an address-space       *)
(* layout of its own, so "aslr" is among the differing axes as soon as one of the two runs was     *)
(* randomised; two runs that are equal on every axis but rep and both have ASLR off are the same    *)
(* deterministic process started twice: only time, process id and uninitialised storage differ.    *)
DiffAxes(c1, c2) == {a \in Axes : c1[a] # c2[a]} \cup (IF c1.aslr = "on" \/ c2.aslr = "on" THEN {"aslr"} ELSE {})
Dist(c)          == Cardinality({a \in Axes : c[a] # Baseline[a]})
(* the two runs are the same process image started twice: same command line, environment and       *)
(* directory, no randomisation.  Everything that depends on addresses only is equal in such runs.   *)
SameImage(c1, c2) == DiffAxes(c1, c2) \subseteq {"rep"}

(* ---- the space as a set (constant level), the star around the baseline ---------------------------- *)
AllGc   == {[flag |-> f, k |-> 0, j |-> 0] : f \in GcFlags}
           \cup UNION {{[flag |-> f, k |-> k, j |-> j] : j \in Offsets(k)} : f \in {"none", "-Wgc"}, k \in Ks}
Configs == {c \in [gc : AllGc, aslr : Values("aslr"), cwd : Values("cwd"), env : Values("env"), inv : Values("inv"),
                   rep : Values("rep")] : Valid(c)}
Star    == {c \in Configs : Dist(c) <= 1}
(* every value of every axis is met by a configuration that differs from the baseline on that axis only *)
StarCovers == /\ \A g \in AllGc : \E c \in Star : c.gc = g
              /\ \A a \in Axes \ {"gc"} : \A v \in Values(a) : \E c \in Star : c[a] = v
(* the machine reaches exactly the set *)
MachineInSpace == Complete => cfg \in Configs
ASSUME PrintT("NCONFIGS " \o ToString(Cardinality(Configs)) \o " STAR " \o ToString(Cardinality(Star)))

Export == /\ Complete
          /\ PrintT("CONFIG " \o ToJson([id |-> Id(cfg), cfg |-> cfg, args |-> Args(cfg), envadd |-> EnvAdd(cfg),
                                          wrapper |-> Wrapper(cfg), classes |-> Classes(cfg), dist |-> Dist(cfg),
                                          collector |-> CollectorOn(cfg.gc)]))
          /\ UNCHANGED vars

Next == ChooseGc \/ ChooseOther
Spec == Init /\ [][Next \/ Export]_vars

(* ---- invariants ------------------------------------------------------- *)
TypeOK == /\ pc \in 0..Len(AxisOrder)
          /\ DOMAIN cfg = {AxisOrder[i] : i \in 1..pc}
          /\ (pc >= 1 => GcOk(cfg.gc))
          /\ \A i \in 2..pc : cfg[AxisOrder[i]] \in Values(AxisOrder[i])
CompleteIsValid       == Complete => Valid(cfg)
(* a forced schedule is never combined with a switched-off collector (it would be a no-op) *)
ForcedNeedsCollector  == (pc >= 1 /\ cfg.gc.k > 0) => CollectorOn(cfg.gc)
(* the concretisation distinguishes what the axes distinguish *)
ConcreteFaithful      == Complete =>
                           /\ (Wrapper(cfg) = <<>>) = (cfg.aslr = "on")
                           /\ (EnvAdd(cfg) = <<>>) = (cfg.gc.k = 0)
                           /\ (Args(cfg) = <<>>) = (cfg.gc.flag = "none")
                           /\ Classes(cfg) # {} /\ "tiny" \in Classes(cfg)
BaselineValid         == Valid(Baseline) /\ DiffAxes(Baseline, Baseline) = {}
DiffSound             == Complete => /\ DiffAxes(cfg, cfg) = (IF cfg.aslr = "on" THEN {"aslr"} ELSE {})
                                     /\ DiffAxes(cfg, Baseline) = DiffAxes(Baseline, cfg)
                                     /\ (Dist(cfg) = 0) = (cfg = Baseline)
                                     /\ SameImage(cfg, cfg) = (cfg.aslr = "off")
                                     /\ (SameImage(cfg, Baseline) => Dist(cfg) <= 1)
=============================================================================
