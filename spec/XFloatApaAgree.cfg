SPECIFICATION ASpec
INVARIANTS AgreeFr AgreeTo AgreeParts Inv
CHECK_DEADLOCK FALSE
