------------------------------- MODULE LibFile -------------------------------
(***************************************************************************)
(* The compiler's object-file format (.ao) as it is WRITTEN and READ by     *)
(* aldor/aldor/src/lib.c, at the granularity of lib.c's operations:         *)
(*                                                                          *)
(*   writer   libAddSection+libPutSection  -> PutSection                    *)
(*            libPutHeader (seek 0, LAST)  -> PutHeader   (the commit point)*)
(*            libClose                     -> Close                         *)
(*   environ. process killed / disk full   -> Crash   (file = flushed prefix*)
(*                                                     of what was written) *)
(*            truncation / one-cell change -> Damage  (of a closed file)    *)
(*   reader   libGetHeader                 -> GetHeader                     *)
(*            libChkHeader                 -> ChkHeader                     *)
(*            libGetSection + its decoder  -> GetSection  (one per section) *)
(*            end of the compilation       -> Finish                        *)
(*                                                                          *)
(* A file is a sequence of cells (a cell stands for one header field or one *)
(* payload byte).  Layout, as in lib.c:                                     *)
(*   1 magic  2 verMajor  3 verMinor  4 numSect                             *)
(*   then TblN table entries (name, offset, length); unused entries are     *)
(*   (NameLimit, 0, 0); [then one header check cell when SUM]               *)
(*   then the sections, contiguous from HdrSize.                            *)
(* A section payload is <<count, item_1 .. item_count>> [+ check cell when  *)
(* SUM]: the decoders of lib.c/foam.c trust counts embedded in the data.    *)
(*                                                                          *)
(* Two readers:                                                             *)
(*   READER = "AsWritten"  what lib.c does: fread results are ignored (a    *)
(*        short read leaves the buffer tail at the allocator's fill value), *)
(*        libGetHeader ignores the result of libChkHeader, libGetSection    *)
(*        trusts offset and length, decoders trust the count.               *)
(*   READER = "Required"   what property C17 demands: every check that      *)
(*        fails stops the compilation with a diagnostic.                    *)
(* SUM = TRUE adds integrity cells to the format: without them NO reader    *)
(* can refuse a changed payload cell (TLC shows this with Required/SUM=F).  *)
(*                                                                          *)
(* Outcome of a consuming compilation: Same | Rejected | Garbage | Fault    *)
(* (the binding adds Hang and Silent, which no spec action produces).       *)
(* Property:  DamagedRefused.                                               *)
(***************************************************************************)
EXTENDS Naturals, Integers, Sequences, FiniteSets, TLC, Json

CONSTANTS READER,      \* "AsWritten" | "Required"
          SUM,         \* BOOLEAN: format carries integrity cells
          PRINT,       \* BOOLEAN: export (class, kind, outcome) of every finished read
          VALS         \* item seeds the writer may choose per section (payload variety)

---------------------------------------------------------------------------
(* Format constants (small stand-ins for 0420, 28.0, LIB_NAME_LIMIT = 17). *)
Magic     == 7
VerMajor  == 2
VerMinor  == 1
NameLimit == 4                      \* section names 0..3; NameLimit = "no name"
TblN      == NameLimit              \* LIB_INDEX_LIMIT = LIB_NAME_LIMIT
M         == 31                     \* cells are 0..M-1; check cells are sums mod M
Cell      == 0 .. (M - 1)
MaxAlloc  == 24                     \* a length above this cannot be allocated (strAlloc fails)
HdrSize   == 4 + 3 * TblN + (IF SUM THEN 1 ELSE 0)
WriteOrder == <<2, 0, 3>>           \* names in the order the writer emits them; name 1 is never written
NSect     == Len(WriteOrder)
Fill      == {0, M - 1}             \* what the tail of a short-read buffer may hold (allocator fill)

Outcomes  == {"Same", "Rejected", "Garbage", "Fault"}
Allowed   == {"Same", "Rejected"}   \* what C17 admits for a damaged file

SumOf(s)  == LET RECURSIVE S(_)
                 S(i) == IF i = 0 THEN 0 ELSE (s[i] + S(i - 1)) % M
             IN S(Len(s))

---------------------------------------------------------------------------
(* Vocabulary of the binding (gen/libfile.py records raw observations of a *)
(* consuming compilation of a damaged REAL file; TraceLibFile.tla turns    *)
(* them into outcomes and verdicts with the operators below).               *)

Formats     == {"ao", "al", "fm"}
DamageKinds == {"none", "trunc", "subst"}

AoClasses == {"magic", "verMajor", "verMinor", "numSect",
              "tbl.name", "tbl.offset", "tbl.length", "tblu.name", "tblu.offset", "tblu.length",
              "sect.first", "sect.interior", "sect.last", "end"}
(* an archive: ar magic, per-member ar_hdr fields, the "//" name table, padding, and the  *)
(* cells of each member, which is an .ao image                                            *)
AlClasses == {"ar.magic", "arhdr.name", "arhdr.date", "arhdr.uid", "arhdr.gid", "arhdr.mode",
              "arhdr.size", "arhdr.fmag", "ar.names", "ar.symtab", "ar.pad", "end"}
             \cup {"member." \o c : c \in AoClasses}
(* FOAM text: the tokens of the s-expression syntax *)
FmClasses == {"fm.open", "fm.close", "fm.space", "fm.string.quote", "fm.string.char",
              "fm.symbol.first", "fm.symbol.interior", "fm.symbol.last",
              "fm.number.first", "fm.number.interior", "fm.number.last", "end"}
ClassesOf(fmt) == CASE fmt = "ao" -> AoClasses [] fmt = "al" -> AlClasses [] fmt = "fm" -> FmClasses
                    [] OTHER -> {}

(* The outcome of a real consuming compilation, from what was observed.     *)
(*   timeout  it did not terminate within the limit                          *)
(*   sig      it was killed by a signal (0 = none)                           *)
(*   fault    it reported an internal fault itself ("Program fault", "Bug:") *)
(*   exit     exit status; diag: an error message was printed                *)
(*   same     stdout and every generated file byte-equal to the intact run   *)
Classify(timeout, sig, fault, exit, diag, same) ==
  IF timeout THEN "Hang"
  ELSE IF sig # 0 \/ fault THEN "Fault"
  ELSE IF exit = 0 THEN (IF same THEN "Same" ELSE "Garbage")
  ELSE IF diag THEN "Rejected"
  ELSE "Silent"                   \* non-zero exit without any diagnostic

(* The verdict: C17 admits Same or Rejected for a damaged file; the intact  *)
(* control must be Same (otherwise the harness, not the compiler, is off).  *)
Admissible(kind, o) == IF kind = "none" THEN o = "Same" ELSE o \in Allowed

---------------------------------------------------------------------------
(* Writer side *)

Payload(k, v) == LET body == <<k>> \o [i \in 1..k |-> (v + i) % M]
                 IN IF SUM THEN Append(body, SumOf(body)) ELSE body

EmptyEntry == [name |-> NameLimit, off |-> 0, len |-> 0]
EmptyTable == [i \in 0..(TblN - 1) |-> EmptyEntry]

HeaderCells(ns, tbl) ==
  LET flat == [j \in 1..(3 * TblN) |->
                 LET e == tbl[(j - 1) \div 3] IN
                 CASE (j - 1) % 3 = 0 -> e.name
                   [] (j - 1) % 3 = 1 -> e.off
                   [] OTHER           -> e.len]
      body == <<Magic, VerMajor, VerMinor, ns>> \o flat
  IN IF SUM THEN Append(body, SumOf(body)) ELSE body

Zeros(n) == [i \in 1..n |-> 0]

---------------------------------------------------------------------------
VARIABLES
  disk,      \* the file: sequence of cells
  wtbl,      \* writer's in-memory section table   (lib->hdr.Section)
  wns,       \* writer's in-memory numSect
  orig,      \* what a complete read of the intact file yields: name -> items
  phase,     \* "writing" | "closed" | "crashed" | "ready" | "hdr" | "chk" | "sect" | "done"
  dmg,       \* [kind, pos, cls]: how the file under the reader was damaged
  rhdr,      \* reader's parsed header
  fill,      \* fill value of short-read buffer tails in this run
  diag,      \* an error has been reported (error count > 0): exit status will be non-zero
  taint,     \* data from beyond end of file has been used
  want,      \* names still to be fetched
  got,       \* decoded so far: name -> items
  outcome    \* "" until the compilation ends

vars == <<disk, wtbl, wns, orig, phase, dmg, rhdr, fill, diag, taint, want, got, outcome>>

NoDmg   == [kind |-> "none", pos |-> 0, cls |-> "none"]
NoHdr   == [magic |-> 0, vmaj |-> 0, vmin |-> 0, ns |-> 0, tbl |-> EmptyTable, sum |-> 0, short |-> FALSE]
NoItems == [n \in {} |-> <<>>]

Init == /\ disk = <<>> /\ wtbl = EmptyTable /\ wns = 0 /\ orig = NoItems
        /\ phase = "writing" /\ dmg = NoDmg /\ rhdr = NoHdr /\ fill = 0
        /\ diag = FALSE /\ taint = FALSE /\ want = {} /\ got = NoItems /\ outcome = ""

(* libAddSection + libPutSection: the offset is the end of the previous     *)
(* section (HdrSize for the first); seeking there and writing leaves the     *)
(* header area a hole of zeros until PutHeader.                              *)
PutSection(k, v) ==
  /\ phase = "writing" /\ wns < NSect
  /\ LET name == WriteOrder[wns + 1]
         off  == IF wns = 0 THEN HdrSize ELSE wtbl[wns - 1].off + wtbl[wns - 1].len
         p    == Payload(k, v)
         base == IF Len(disk) < off THEN disk \o Zeros(off - Len(disk)) ELSE disk
     IN /\ disk' = base \o p
        /\ wtbl' = [wtbl EXCEPT ![wns] = [name |-> name, off |-> off, len |-> Len(p)]]
        /\ wns'  = wns + 1
        /\ orig' = (name :> [i \in 1..k |-> (v + i) % M]) @@ orig
  /\ UNCHANGED <<phase, dmg, rhdr, fill, diag, taint, want, got, outcome>>

(* libPutHeader + libClose: overwrite cells 1..HdrSize.  The commit point.  *)
PutHeader ==
  /\ phase = "writing" /\ wns = NSect
  /\ disk' = [i \in 1..Len(disk) |-> IF i <= HdrSize THEN HeaderCells(wns, wtbl)[i] ELSE disk[i]]
  /\ phase' = "closed"
  /\ UNCHANGED <<wtbl, wns, orig, dmg, rhdr, fill, diag, taint, want, got, outcome>>

(* The writer dies: everything fwrite+fflush'ed so far is on disk, the last  *)
(* write possibly only in part (disk full / power), and the header - written *)
(* last, in one piece - possibly only as a prefix over the hole of zeros.    *)
Crash ==
  /\ phase = "writing"
  /\ \/ \E n \in 0..Len(disk) : disk' = SubSeq(disk, 1, n)
     \/ /\ wns = NSect
        /\ \E n \in 0..HdrSize :
             disk' = [i \in 1..Len(disk) |-> IF i <= n THEN HeaderCells(wns, wtbl)[i] ELSE disk[i]]
  /\ phase' = "crashed" /\ dmg' = [kind |-> "crash", pos |-> wns, cls |-> "crash"]
  /\ UNCHANGED <<wtbl, wns, orig, rhdr, fill, diag, taint, want, got, outcome>>

---------------------------------------------------------------------------
(* Cell classes of a closed valid file: the vocabulary shared with the     *)
(* binding (gen/libfile.py maps every byte offset of a real file to one).  *)

SectOf(i) == CHOOSE e \in 0..(NSect - 1) : wtbl[e].off < i /\ i <= wtbl[e].off + wtbl[e].len

CellClass(i) ==
  IF i > Len(disk) THEN "end"
  ELSE IF i = 1 THEN "magic" ELSE IF i = 2 THEN "verMajor" ELSE IF i = 3 THEN "verMinor"
  ELSE IF i = 4 THEN "numSect"
  ELSE IF i <= 4 + 3 * TblN THEN
         LET e == (i - 5) \div 3   f == (i - 5) % 3
             fn == CASE f = 0 -> "name" [] f = 1 -> "offset" [] OTHER -> "length"
         IN (IF e < wns THEN "tbl." ELSE "tblu.") \o fn
  ELSE IF i <= HdrSize THEN "hdr.sum"
  ELSE LET e == SectOf(i)  r == i - wtbl[e].off IN
       IF r = 1 THEN "sect.first" ELSE IF r = wtbl[e].len THEN "sect.last" ELSE "sect.interior"

(* Damage(f) of DESIGN.md Appendix A: every truncation, every one-cell      *)
(* substitution; plus the intact control.                                    *)
Damage ==
  /\ phase = "closed"
  /\ \/ /\ dmg' = NoDmg /\ disk' = disk
     \/ \E n \in 0..(Len(disk) - 1) :
          /\ disk' = SubSeq(disk, 1, n)
          /\ dmg' = [kind |-> "trunc", pos |-> n, cls |-> CellClass(n + 1)]
     \/ \E i \in 1..Len(disk) : \E c \in Cell \ {disk[i]} :
          /\ disk' = [disk EXCEPT ![i] = c]
          /\ dmg' = [kind |-> "subst", pos |-> i, cls |-> CellClass(i)]
  /\ phase' = "ready"
  /\ UNCHANGED <<wtbl, wns, orig, rhdr, fill, diag, taint, want, got, outcome>>

---------------------------------------------------------------------------
(* Reader side *)

Required == READER = "Required"

End(o) == /\ outcome' = o /\ phase' = "done"

(* FILE_GET_CHARS(f, s, cc): fread whose result is ignored; the buffer tail  *)
(* keeps the fill value.  off is 0-based.                                    *)
ReadAt(off, n) == [i \in 1..n |-> IF off + i <= Len(disk) THEN disk[off + i] ELSE fill]
IsShort(off, n) == off + n > Len(disk)

StartRead ==
  /\ phase \in {"ready", "crashed"}
  /\ \E f \in Fill : fill' = f
  /\ phase' = "hdr"
  /\ UNCHANGED <<disk, wtbl, wns, orig, dmg, rhdr, diag, taint, want, got, outcome>>

(* libGetHeader up to (not including) its call of libChkHeader. *)
GetHeader ==
  /\ phase = "hdr"
  /\ LET hb == ReadAt(0, HdrSize) IN
     rhdr' = [magic |-> hb[1], vmaj |-> hb[2], vmin |-> hb[3], ns |-> hb[4],
              tbl   |-> [e \in 0..(TblN - 1) |-> [name |-> hb[5 + 3 * e], off |-> hb[6 + 3 * e], len |-> hb[7 + 3 * e]]],
              sum   |-> IF SUM THEN (IF SumOf(SubSeq(hb, 1, HdrSize - 1)) = hb[HdrSize] THEN 1 ELSE 0) ELSE 1,
              short |-> IsShort(0, HdrSize)]
  /\ phase' = "chk"
  /\ UNCHANGED <<disk, wtbl, wns, orig, dmg, fill, diag, taint, want, got, outcome>>

(* "Set up the section indices": for i ascending, Index[name_i] := i, so the *)
(* LAST entry carrying a name wins.  TblN = none.                            *)
Index(h, n) == LET S == {e \in 0..(TblN - 1) : h.tbl[e].name = n}
               IN IF S = {} THEN TblN ELSE CHOOSE e \in S : \A e2 \in S : e2 <= e

(* libChkHeader, in the order of its tests.  Result:                         *)
(*   "ok" | "fatal" (comsgFatal: exits) | "bug" (bug(): aborts) | "bad"       *)
ChkResult(h) ==
  IF h.magic # Magic THEN "bad"
  ELSE IF h.vmaj < VerMajor \/ (h.vmaj = VerMajor /\ h.vmin < VerMinor) THEN "fatal"
  ELSE IF ~(h.ns <= TblN) THEN "bad"
  ELSE IF \E i \in 0..(h.ns - 1) :
             /\ \A i2 \in 0..(i - 1) : h.tbl[i2].name < NameLimit /\ Index(h, h.tbl[i2].name) = i2
             /\ h.tbl[i].name >= NameLimit
       THEN "bad"
  ELSE IF \E i \in 0..(h.ns - 1) : Index(h, h.tbl[i].name) # i THEN "bug"
  ELSE IF h.tbl[0].off # HdrSize THEN "bad"
  ELSE IF \E i \in 1..(h.ns - 1) : h.tbl[i].off # h.tbl[i - 1].off + h.tbl[i - 1].len THEN "bad"
  ELSE "ok"

(* What a reader that meets C17 checks in addition (all computable from the  *)
(* file alone): the header was read completely, unused entries are canonical,*)
(* the last section ends exactly at end of file, the header check cell.      *)
ExtraOk(h) ==
  /\ ~h.short
  /\ h.ns >= 1
  /\ \A e \in h.ns..(TblN - 1) : h.tbl[e] = EmptyEntry
  /\ h.tbl[h.ns - 1].off + h.tbl[h.ns - 1].len = Len(disk)
  /\ h.sum = 1

Wanted(h) == {n \in 0..(NameLimit - 1) : n \in DOMAIN orig \/ Index(h, n) # TblN}
MinOf(S)  == CHOOSE n \in S : \A n2 \in S : n <= n2

ChkHeader ==
  /\ phase = "chk"
  /\ LET r == ChkResult(rhdr) IN
     IF r = "fatal" THEN End("Rejected") /\ UNCHANGED <<diag, want>>
     ELSE IF Required THEN
       IF r = "ok" /\ ExtraOk(rhdr)
       THEN phase' = "sect" /\ want' = Wanted(rhdr) /\ UNCHANGED <<diag, outcome>>
       ELSE End("Rejected") /\ UNCHANGED <<diag, want>>
     ELSE \* as written: bug() aborts; a false result is reported and then ignored
       IF r = "bug" THEN End("Fault") /\ UNCHANGED <<diag, want>>
       ELSE /\ diag' = (r = "bad") /\ phase' = "sect" /\ want' = Wanted(rhdr) /\ UNCHANGED outcome
  /\ UNCHANGED <<disk, wtbl, wns, orig, dmg, rhdr, fill, taint, got>>

(* libGetSection(name) followed by the section's decoder.                    *)
GetSection ==
  /\ phase = "sect" /\ want # {}
  /\ LET n   == MinOf(want)
         e   == Index(rhdr, n)
         ent == IF e = TblN THEN EmptyEntry ELSE rhdr.tbl[e]
         present == ent.off # 0                       \* libHasSection
         buf == ReadAt(ent.off, ent.len)
         short == IsShort(ent.off, ent.len)
         body == IF SUM /\ ent.len >= 1 THEN SubSeq(buf, 1, ent.len - 1) ELSE buf
         sumok == ~SUM \/ (ent.len >= 1 /\ SumOf(body) = buf[ent.len])
         k   == IF Len(body) >= 1 THEN body[1] ELSE 0
         items == [i \in 1..k |-> body[1 + i]]
     IN
     IF ~present THEN
        \* a consumer fetches what it expects; a section that is expected and
        \* absent gives a null buffer (as written) / is refused (required)
        IF n \in DOMAIN orig
        THEN End(IF Required THEN "Rejected" ELSE "Fault") /\ UNCHANGED <<want, got, taint>>
        ELSE want' = want \ {n} /\ UNCHANGED <<got, taint, outcome, phase>>
     ELSE IF Required THEN
        IF short \/ ~sumok \/ Len(body) < 1 \/ k + 1 # Len(body)
        THEN End("Rejected") /\ UNCHANGED <<want, got, taint>>
        ELSE want' = want \ {n} /\ got' = (n :> items) @@ got /\ UNCHANGED <<taint, outcome, phase>>
     ELSE \* as written
        IF ent.len > MaxAlloc THEN End("Rejected") /\ UNCHANGED <<want, got, taint>>   \* strAlloc: out of memory (fatal)
        ELSE IF Len(body) < 1 \/ k + 1 > Len(body)
        THEN End("Fault") /\ UNCHANGED <<want, got, taint>>                            \* bufGetn assertion / wild read
        ELSE /\ want' = want \ {n} /\ got' = (n :> items) @@ got
             /\ taint' = (taint \/ (short /\ ent.off + k + 1 > Len(disk)))
             /\ UNCHANGED <<outcome, phase>>
  /\ UNCHANGED <<disk, wtbl, wns, orig, dmg, rhdr, fill, diag>>

(* End of the consuming compilation: exit status = error count.              *)
Finish ==
  /\ phase = "sect" /\ want = {}
  /\ End(IF diag THEN "Rejected"
         ELSE IF got = orig /\ ~taint THEN "Same" ELSE "Garbage")
  /\ UNCHANGED <<disk, wtbl, wns, orig, dmg, rhdr, fill, diag, taint, want, got>>

(* Terminal: export the case for the binding (where to aim, drift table).    *)
Export ==
  /\ phase = "done"
  /\ PRINT
  /\ PrintT(ToJson([reader |-> READER, sum |-> SUM, kind |-> dmg.kind, cls |-> dmg.cls, outcome |-> outcome]))
  /\ phase' = "exported"
  /\ UNCHANGED <<disk, wtbl, wns, orig, dmg, rhdr, fill, diag, taint, want, got, outcome>>

Next == \/ \E k \in 1..2 : \E v \in VALS : PutSection(k, v)
        \/ PutHeader \/ Crash \/ Damage
        \/ StartRead \/ GetHeader \/ ChkHeader \/ GetSection \/ Finish \/ Export

Spec == Init /\ [][Next]_vars

---------------------------------------------------------------------------
(* Properties *)

TypeOK == /\ phase \in {"writing", "closed", "crashed", "ready", "hdr", "chk", "sect", "done", "exported"}
          /\ outcome \in Outcomes \cup {""}
          /\ \A i \in 1..Len(disk) : disk[i] \in Cell
          /\ dmg.kind \in {"none", "trunc", "subst", "crash"}

Done == phase \in {"done", "exported"}

(* C17: every truncation and every single-cell substitution of a valid file *)
(* is either harmless or refused.                                           *)
DamagedRefused == (Done /\ dmg.kind \in {"trunc", "subst"}) => outcome \in Allowed

(* "Same" is only ever claimed when the decoded content IS the original.    *)
SameIsSame == (Done /\ outcome = "Same") => (got = orig /\ ~taint)

(* The intact file is accepted (the readers are not vacuous).               *)
IntactAccepted == (Done /\ dmg.kind = "none") => outcome = "Same"

(* A file left by a writer that died before the commit point is refused.    *)
CrashRefused == (Done /\ dmg.kind = "crash") => outcome \in Allowed

(* The writer's own invariant (what libPutHeader asserts through            *)
(* libChkHeader): offsets contiguous from HdrSize.                          *)
WriterContiguous ==
  /\ (wns >= 1 => wtbl[0].off = HdrSize)
  /\ \A e \in 1..(wns - 1) : wtbl[e].off = wtbl[e - 1].off + wtbl[e - 1].len
  /\ (phase = "closed" => wtbl[wns - 1].off + wtbl[wns - 1].len = Len(disk))
=============================================================================
