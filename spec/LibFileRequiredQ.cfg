\* The reader C17 demands, on the format with integrity cells: DamagedRefused must HOLD.
SPECIFICATION Spec
CONSTANTS
  READER = "Required"
  SUM = TRUE
  PRINT = FALSE
  VALS = {3}
INVARIANTS TypeOK DamagedRefused SameIsSame IntactAccepted CrashRefused WriterContiguous
CHECK_DEADLOCK FALSE
