\* the driver as written (results of fclose/fflush ignored): TLC must REFUTE CompleteOnSuccess
SPECIFICATION Spec
CONSTANTS
  MaxFiles = 1
  MaxFaults = 1
  MaxErrs = 1
  Strict = TRUE
  MultiPart = FALSE
  PostUsed = {}
  ChecksIo = FALSE
  MaxKinds = 1
  CleanupKept = FALSE
  PhasesUsed = {"load", "include", "scan", "syscmd", "linear", "parse", "abnorm", "macex", "abcheck", "scobind", "tinfer", "genfoam", "optfoam", "putao", "putlisp", "putjava", "putc", "putobject"}
  KindsUsed = {"ai", "ap", "asy", "ao", "fm", "lsp", "c", "java", "main"}
INVARIANTS TypeOK HonestExit CompleteOnSuccess
CHECK_DEADLOCK TRUE
