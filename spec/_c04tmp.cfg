SPECIFICATION Spec
CONSTANTS SIntW = 64
          WordW = 64
          Stride = 64
          Stride3 = 16
          Offset = 5
          OpFilter = {"SIntPlus", "BoolEQ", "CharLower", "BIntTimes", "SIntDivide", "FormatSInt", "ArrToSInt", "SFloPlus", "SIntTimesMod", "ScanSInt", "WordTimesStep"}
INVARIANT Typed
CHECK_DEADLOCK FALSE
