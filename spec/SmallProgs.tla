----------------------------- MODULE SmallProgs -----------------------------
(***************************************************************************)
(* The exhaustively enumerated small family of C01: every expression of    *)
(* the typed grammar below, up to the depth bound, over two variables and  *)
(* a boundary alphabet of literals.  TLC enumerates the set and exports    *)
(* each member; gen/smallprogs.py only packs the exported expressions into *)
(* programs (`x := ..; y := ..; print << e` for each e), which are then    *)
(* evaluated by AldorSem under EVERY operand order and replayed.           *)
(***************************************************************************)
EXTENDS Naturals, Sequences, TLC, Json, FiniteSets

CONSTANT Level      \* 1: op(leaf, leaf); 2: additionally op(level-1 term, leaf) and conditionals

D(n) == CASE n = 0 -> <<0>> [] n = 1 -> <<1>> [] n = 2 -> <<2>> [] n = 7 -> <<7>>
          [] n = 3 -> <<2, 1, 4, 7, 4, 8, 3, 6, 4, 7>>                                  \* 2^31 - 1
          [] n = 4 -> <<2, 1, 4, 7, 4, 8, 3, 6, 4, 8>>                                  \* 2^31
          [] n = 5 -> <<9, 2, 2, 3, 3, 7, 2, 0, 3, 6, 8, 5, 4, 7, 7, 5, 8, 0, 7>>       \* 2^63 - 1
          [] n = 6 -> <<4, 6, 1, 1, 6, 8, 6, 0, 1, 8, 4, 2, 7, 3, 8, 7, 9, 0, 4>>       \* 2^62
Lit(t, neg, n) == [e |-> "lit", t |-> t, neg |-> neg, ds |-> D(n)]
SILeaf == {Lit("si", FALSE, n) : n \in {0, 1, 2, 3, 4, 5, 6}} \cup {Lit("si", TRUE, n) : n \in {1, 5}}
          \cup {[e |-> "var", x |-> "x"], [e |-> "var", x |-> "y"]}
BILeaf == {Lit("bi", FALSE, n) : n \in {0, 1, 4, 5}} \cup {Lit("bi", TRUE, n) : n \in {1, 5}}
          \cup {[e |-> "var", x |-> "u"]}

Prim(op, args) == [e |-> "prim", op |-> op, args |-> args]
SIBin == {"si.add", "si.sub", "si.mul"}
BIBin == {"bi.add", "bi.sub", "bi.mul"}
SIDiv == {"si.quo", "si.rem", "si.mod"}
Divisors == {Lit("si", FALSE, 2), Lit("si", FALSE, 7), Lit("si", FALSE, 3)}

SI1 == {Prim(op, <<a, b>>) : op \in SIBin, a \in SILeaf, b \in SILeaf}
       \cup {Prim("si.neg", <<a>>) : a \in SILeaf}
       \cup {Prim(op, <<a, b>>) : op \in SIDiv, a \in SILeaf, b \in Divisors}
BI1 == {Prim(op, <<a, b>>) : op \in BIBin, a \in BILeaf, b \in BILeaf}
       \cup {Prim("si.tobi", <<a>>) : a \in SILeaf}
Cmp1 == {Prim(op, <<a, b>>) : op \in {"si.lt", "si.le", "si.eq"}, a \in SILeaf, b \in SILeaf}

Pick(S, k) == {x \in S : TRUE}      \* (all)
SI2 == {Prim(op, <<a, b>>) : op \in SIBin, a \in SI1, b \in {Lit("si", FALSE, 1), Lit("si", FALSE, 5), [e |-> "var", x |-> "y"]}}
       \cup {[e |-> "if", c |-> c, a |-> a, b |-> b, t |-> "si"] :
               c \in Cmp1, a \in {Lit("si", FALSE, 1)}, b \in {Lit("si", FALSE, 0)}}
BI2 == {Prim(op, <<a, b>>) : op \in BIBin, a \in BI1, b \in {Lit("bi", FALSE, 5), [e |-> "var", x |-> "u"]}}

Exprs == IF Level = 1 THEN SI1 \cup BI1 ELSE SI1 \cup BI1 \cup SI2 \cup BI2

VARIABLE ex
Init == ex \in Exprs
Next == PrintT("EXPR " \o ToJson(ex)) /\ UNCHANGED ex
Spec == Init /\ [][Next]_ex
=============================================================================
