\* Eval(Reduce(c)) = c for W = 64, pieces of 31 bits, domain: boundary
SPECIFICATION Spec
CONSTANTS
  W = 64
  P = 31
  Domain = "boundary"
INVARIANTS InDomain Theorem Storage
CHECK_DEADLOCK FALSE
