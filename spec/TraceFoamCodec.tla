--------------------------- MODULE TraceFoamCodec ---------------------------
(***************************************************************************)
(* Trace validation for FoamCodec.tla (property C05).  The trace (ndjson,  *)
(* environment variable TRACE) is what harness/foamcodec_drv.c recorded    *)
(* from the real routines of foam.c for the node family TLC exported:      *)
(*   Tags  {origin, limit, span, names, argf, nary}   the tag table of the *)
(*         compiled foam.h / foamInfoTable                                 *)
(*   Case  {id, node, fault, signal, bytes, tend, back, hdr, unit, wb,     *)
(*          constc, posv, fmts}                                            *)
(* node = the case as exported; bytes = what foamToBuffer wrote; back/tend *)
(* = what foamFrBuffer returned and where it stopped; hdr = the fields     *)
(* foamGetProgHdrFrBuffer returned; wb = the bytes of the wrapper unit     *)
(* around the node (the unit itself when node is a Unit); constc / posv =  *)
(* foamConstcFrBuffer / foamConstvFrBuffer on it (they run the skipping    *)
(* reader); fmts = foamFormatsFrBuffer.                                    *)
(* One event is one behaviour pick -> chosen -> written -> read of the      *)
(* machine of FoamCodec.tla, with the real bytes as buf and the real        *)
(* readers' results as back; TLC decides                                    *)
(*   denotes   the real bytes, read by the decoder of the specification,    *)
(*             are the node (the saved form is the same program);           *)
(*   readers   RoundTrip of FoamCodec on the recorded state;                *)
(*   positions the constant positions the real skipping reader computed     *)
(*             are those of the specification's skipping reader on the      *)
(*             same bytes, and there is the constant's value;               *)
(* A failed obligation prints a BAD line (the harness turns it into a      *)
(* VIOLATION); DRIFT lines report bytes that differ from the encoding in   *)
(* the format foamTagFormat is transcribed to choose (information).        *)
(***************************************************************************)
EXTENDS FoamCodec, IOUtils

Trc == ndJsonDeserialize(IOEnv.TRACE)

VARIABLES l, nbad
tvars == <<vars, l, nbad>>

Ev == Trc[l]
IsEvent(n) == l <= Len(Trc) /\ Trc[l].ev = n

ArgfSeq(t) == Info[t].pre \o (IF Info[t].rest # "" THEN <<Info[t].rest, "*">> ELSE <<>>)
Modelled == DOMAIN Info

TraceInit == l = 1 /\ nbad = 0 /\ node = NilN /\ phase = "pick" /\ fmt = 0 /\ buf = <<>> /\ back = None

Report(S) == /\ \A w \in S : PrintT("BAD " \o ToJson([l |-> l, why |-> w]))
             /\ nbad' = nbad + Cardinality(S)

TrTags ==
  /\ IsEvent("Tags")
  /\ Report({w \in {"tag numbering differs from the specification's", "format arithmetic differs", "format letters differ"} :
               \/ w = "tag numbering differs from the specification's" /\ Ev.names # TagOrder
               \/ w = "format arithmetic differs" /\ ~(Ev.origin = Origin /\ Ev.limit = Limit /\ Ev.span = Span /\ Ev.taglimit = Origin + 5 * Span)
               \/ w = "format letters differ" /\ Ev.names = TagOrder /\ \E t \in Modelled : Ev.argf[TagNo[t] + 1] # ArgfSeq(t)})
  /\ l' = l + 1 /\ UNCHANGED vars

(* the wrapper unit the harness builds around a node that is not a unit *)
DeclC == Node("Decl", II(<<8, 1, 0, 4>>))
Wrap(n) == Node("Unit", <<Node("DFmt", <<Node("DDecl", <<I(1)>>), Node("DDecl", <<I(2), DeclC, DeclC>>)>>),
                          Node("DDef", <<Node("Def", <<Node("Const", <<I(0)>>), n>>), Node("Def", <<Node("Const", <<I(1)>>), NilN>>)>>)>>)

WholeUnit == IF Ev.unit THEN Ev.node ELSE Wrap(Ev.node)
UnitBytes == IF Ev.unit THEN Ev.bytes ELSE Ev.wb
NConst    == Len(WholeUnit.a[1].a[2].a) - 1
Defs      == WholeUnit.a[2].a
(* position (0-based, as the implementation counts) of the value of constant number c according to the specification's skipper *)
SpecPos(ps, c) == LET S == {j \in 1..Len(ps) : ps[j][1] = c} IN IF S = {} THEN -1 ELSE ps[CHOOSE j \in S : TRUE][2] - 1
RhsOf(c) == LET S == {j \in 1..Len(Defs) : Defs[j].a[1] = Node("Const", <<I(c)>>)} IN Defs[CHOOSE j \in S : TRUE].a[2]

(* d, du, ps: Decode(Ev.bytes), Decode(UnitBytes), ConstPositions(UnitBytes) -- bound once by TrCase (TLC evaluates a LET
   definition again at every use, which made the positions of a 257-constant unit quadratic) *)
Verdicts(d, du, ps) ==
  IF Ev.fault # "" THEN {"fault in the " \o Ev.fault}
  ELSE    {w \in {"denotes: the bytes written do not decode to the node", "readers: the tree reader returns another node",
                  "readers: the tree reader stops elsewhere", "readers: the header reader returns other fields",
                  "positions: count of constants", "positions: the skipping reader finds the constants elsewhere",
                  "positions: no constant value at the position", "readers: the formats of the unit"} :
             \/ w = "denotes: the bytes written do not decode to the node" /\ ~(d[1] = Ev.node /\ d[2] = Len(Ev.bytes) + 1)
             \/ w = "readers: the tree reader returns another node" /\ Ev.back # Ev.node
             \/ w = "readers: the tree reader stops elsewhere" /\ Ev.tend # Len(Ev.bytes)
             \/ w = "readers: the header reader returns other fields" /\ Ev.hdr # HeaderOf(Ev.node)
             \/ w = "positions: count of constants" /\ du[1] = WholeUnit /\ Ev.constc # NConst
             \/ w = "positions: the skipping reader finds the constants elsewhere"
                  /\ du[1] = WholeUnit /\ Ev.constc = NConst /\ \E c \in 0..(NConst - 1) : Ev.posv[c + 1] # SpecPos(ps, c)
             \/ w = "positions: no constant value at the position"
                  /\ du[1] = WholeUnit /\ Ev.constc = NConst
                  /\ \E c \in 0..(NConst - 1) : Ev.posv[c + 1] = SpecPos(ps, c) /\ Dec(UnitBytes, Ev.posv[c + 1] + 1, 1)[1] # RhsOf(c)
             \/ w = "readers: the formats of the unit" /\ Ev.unit /\ Ev.fmts # Ev.node.a[1]}

TrCase ==
  /\ IsEvent("Case")
  /\ node' = Ev.node /\ buf' = Ev.bytes /\ fmt' = FormatAt(Ev.bytes, 1) /\ phase' = "read"
  /\ back' = IF Ev.fault # "" THEN None
             ELSE [tree |-> Ev.back, tend |-> Ev.tend + 1,
                   send |-> IF Ev.unit \/ Ev.constc # 2 THEN Ev.tend + 1 ELSE Ev.posv[2] - 2 - Ev.posv[1] + 1, hdr |-> Ev.hdr]
  /\ IF Ev.fault # "" THEN Report(Verdicts(<<>>, <<>>, <<>>))
     ELSE \E d \in {Decode(Ev.bytes)} : \E du \in {Decode(UnitBytes)} : \E ps \in {ConstPositions(UnitBytes)} : Report(Verdicts(d, du, ps))
  /\ IF Ev.fault = "" /\ Admissible(Ev.node, AsWritten(Ev.node)) /\ Ev.bytes # Encode(Ev.node, AsWritten(Ev.node))
     THEN PrintT("DRIFT " \o ToJson([l |-> l, id |-> Ev.id, format |-> FormatAt(Ev.bytes, 1), transcribed |-> AsWritten(Ev.node)]))
     ELSE TRUE
  /\ l' = l + 1

Finish ==
  /\ l = Len(Trc) + 1
  /\ PrintT("SUMMARY " \o ToJson([events |-> Len(Trc), bad |-> nbad]))
  /\ l' = l + 1 /\ UNCHANGED <<vars, nbad>>

TraceNext == TrTags \/ TrCase \/ Finish
TraceSpec == TraceInit /\ [][TraceNext]_tvars

(* RoundTrip of FoamCodec.tla on the recorded states is part of Verdicts (readers); here it is an invariant as well, for the
   cases without a BAD line: a state that has no verdict satisfies the specification's own invariant *)
RecordedRoundTrip == (phase = "read" /\ back # None /\ nbad = 0) => RoundTrip
=============================================================================
