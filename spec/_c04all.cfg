SPECIFICATION Spec
CONSTANTS SIntW = 64
          WordW = 64
          Stride = 97
          Stride3 = 29
          Offset = 5
          OpFilter = {}
INVARIANT Typed
CHECK_DEADLOCK FALSE
