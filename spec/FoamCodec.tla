----------------------------- MODULE FoamCodec -----------------------------
(***************************************************************************)
(* The byte encoding of FOAM (property C05; foam.c: foamTagFormat,          *)
(* foamToBuffer, foamFrBuffer, foamProgHdrFrBuffer, foamFrBuffer0 and the   *)
(* position functions built on it; fint.c reads the same bytes as its      *)
(* `tape').  It is the form in which a unit lives in an .ao file, in an     *)
(* .al member and in front of the interpreter.                              *)
(*                                                                         *)
(* A node is a record [tag, a]; a is the argument sequence, described per   *)
(* tag by format letters (foamInfoTable):                                   *)
(*   t p D b  one byte        h o  two bytes          w  four bytes         *)
(*   X F      four bytes (F = number of labels of a Prog: sets labelFmt)     *)
(*   L        a label, written in labelFmt                                   *)
(*   i        an index / count, written in THE NODE'S FORMAT                 *)
(*   s        a string: its length in the node's format, then the bytes      *)
(*   n        a big integer: sign byte, place count in the node's format,    *)
(*            then 2 bytes per place                                         *)
(*   C        a node                                                         *)
(* A node of an n-ary tag also writes its argument count in its format.      *)
(*                                                                         *)
(* THE WIDTH CHOICE.  There are five formats                                 *)
(*     0  four bytes   1  one byte   2,3,4  nothing: the value is 0,1,2      *)
(* and the format f of a node is added to its tag byte: byte = tag + f*Span *)
(* (tags below Origin have no room for one: always format 0).  There is no   *)
(* two-byte format: 256 and 65536 are both `wide'.  ONE format governs all    *)
(* compressible fields of a node (count, every i, every s / n length), so     *)
(* the writer has to choose a format that fits ALL of them:                  *)
(*     Admissible(n, f)  ==  every governed value v of n has Fits(f, v)       *)
(* The machine below makes that choice an explicit step: pick a node, choose *)
(* a format, write, then read with each of the three readers.  The property  *)
(* (for C05: a saved unit is the same program) is                            *)
(*     RoundTrip   for EVERY admissible choice the tree reader returns the   *)
(*                 node, and the skipping reader and the header reader      *)
(*                 consume exactly the bytes written;                       *)
(*     ChoiceOK    the choice the implementation makes (AsWritten: a         *)
(*                 transcription of foamTagFormat) is admissible.            *)
(* ChoiceOK fails for Prog and TR, whose format is chosen from the argument  *)
(* count alone although they carry an i field, and for BInt, whose format is *)
(* chosen from the number of 32-bit places while the number of 16-bit places *)
(* is written (configuration FoamCodecAsWritten.cfg shows it; known findings *)
(* of C05); FoamCodec.cfg sets Hazard to those three tags and holds.         *)
(*                                                                         *)
(* TLC enumerates the node family Cases: every field kind x the boundary    *)
(* values 0 1 2 3 254 255 256 257 65535 65536, and exports                   *)
(*   CASE  node + admissible formats + the as-written format + bytes         *)
(*         (replayed into the real routines by harness/foamcodec_drv.c and   *)
(*         validated by TraceFoamCodec.tla)                                  *)
(*   FIELD field kind x boundary (the program-level binding must produce a   *)
(*         unit that reaches it: gen/wideunits.py, event Reach of           *)
(*         TraceUnits.tla).                                                  *)
(***************************************************************************)
EXTENDS Naturals, Sequences, FiniteSets, TLC, Json, SequencesExt

CONSTANTS Hazard,      \* tags exempted from ChoiceOK (known defect) -- {} shows the defect
          BigCount,    \* largest argument count enumerated (256 quick, 65536 deep)
          Export       \* BOOLEAN: print CASE / FIELD lines

---------------------------------------------------------------------------
(* the tag table: order of enum foamTag (foam.h), letters of foamInfoTable  *)

TagOrder == << "Nil", "Char", "Bool", "Byte", "HInt", "SInt", "SFlo", "DFlo", "Word", "Arb",
               "Int8", "Int16", "Int32", "Int64", "Int128",
               "NOp", "BVal", "Ptr", "CProg", "CEnv", "Loose", "EEnsure", "EInfo", "Kill", "Free", "Return", "Cast",
               "ANew", "RRNew", "RRec", "Clos", "Set", "Def", "AElt", "If", "Goto", "Throw", "Catch", "Protect", "Unit",
               "PushEnv", "PopEnv", "MFmt", "RRFmt", "JavaObj",
               "Unimp", "GDecl", "Decl", "BInt",
               "Par", "Loc", "Glo", "Fluid", "Const", "Env", "EEnv", "RNew", "PRef", "TRNew", "RRElt", "Label",
               "Lex", "RElt", "IRElt", "TRElt", "EElt", "CFCall", "OFCall",
               "DDecl", "DFluid", "DEnv", "DDef", "DFmt", "Rec", "Arr", "TR", "Select", "PCall", "BCall", "CCall",
               "OCall", "Seq", "Values", "Prog" >>
TagNo == [t \in {TagOrder[i] : i \in 1..Len(TagOrder)} |-> (CHOOSE i \in 1..Len(TagOrder) : TagOrder[i] = t) - 1]
Origin == TagNo["Unimp"]                 \* FFO_ORIGIN = FOAM_VECTOR_START
Limit  == Len(TagOrder)                  \* FOAM_LIMIT
Span   == Limit - Origin                 \* FFO_SPAN
IndexStart == TagNo["Par"]
IndexLimit == TagNo["Lex"]
NaryStart  == TagNo["DDecl"]

(* pre: letters of the leading arguments; rest: letter of the repeated tail of an n-ary tag ("" = fixed arity) *)
F(pre, rest) == [pre |-> pre, rest |-> rest]
Info == [ Nil |-> F(<<>>, ""), Char |-> F(<<"b">>, ""), Bool |-> F(<<"b">>, ""), Byte |-> F(<<"b">>, ""),
          HInt |-> F(<<"h">>, ""), SInt |-> F(<<"w">>, ""), Word |-> F(<<"w">>, ""),
          NOp |-> F(<<>>, ""), BVal |-> F(<<"o">>, ""), Return |-> F(<<"C">>, ""), Cast |-> F(<<"t", "C">>, ""),
          EEnsure |-> F(<<"C">>, ""), RRNew |-> F(<<"i", "C">>, ""), Clos |-> F(<<"C", "C">>, ""), Set |-> F(<<"C", "C">>, ""),
          Def |-> F(<<"C", "C">>, ""), AElt |-> F(<<"t", "C", "C">>, ""), If |-> F(<<"C", "L">>, ""), Goto |-> F(<<"L">>, ""),
          Unit |-> F(<<"C", "C">>, ""), PushEnv |-> F(<<"i", "C">>, ""), PopEnv |-> F(<<>>, ""), MFmt |-> F(<<"i", "C">>, ""),
          Unimp |-> F(<<"s">>, ""), GDecl |-> F(<<"t", "s", "w", "i", "b", "p">>, ""), Decl |-> F(<<"t", "s", "w", "i">>, ""),
          BInt |-> F(<<"n">>, ""),
          Par |-> F(<<"i">>, ""), Loc |-> F(<<"i">>, ""), Glo |-> F(<<"i">>, ""), Fluid |-> F(<<"i">>, ""), Const |-> F(<<"i">>, ""),
          Env |-> F(<<"i">>, ""), EEnv |-> F(<<"i", "C">>, ""), RNew |-> F(<<"i">>, ""), PRef |-> F(<<"i", "C">>, ""),
          TRNew |-> F(<<"i", "C">>, ""), RRElt |-> F(<<"i", "C", "C">>, ""), Label |-> F(<<"i">>, ""),
          Lex |-> F(<<"i", "i">>, ""), RElt |-> F(<<"i", "C", "i">>, ""), IRElt |-> F(<<"i", "C", "i">>, ""),
          TRElt |-> F(<<"i", "C", "C", "i">>, ""), EElt |-> F(<<"i", "C", "i", "i">>, ""),
          DDecl |-> F(<<"D">>, "C"), DFluid |-> F(<<>>, "i"), DEnv |-> F(<<>>, "i"), DDef |-> F(<<>>, "C"), DFmt |-> F(<<>>, "C"),
          Rec |-> F(<<"i">>, "C"), Arr |-> F(<<"t">>, "w"), TR |-> F(<<"i">>, "C"), Select |-> F(<<"C">>, "L"),
          PCall |-> F(<<"p", "t">>, "C"), BCall |-> F(<<"o">>, "C"), CCall |-> F(<<"t", "C">>, "C"),
          OCall |-> F(<<"t", "C", "C">>, "C"), Seq |-> F(<<>>, "C"), Values |-> F(<<>>, "C"),
          Prog |-> F(<<"X", "F", "t", "i", "w", "w", "w", "w">>, "C") ]

IsNary(t)  == Info[t].rest # ""
Letter(t, k) == IF k <= Len(Info[t].pre) THEN Info[t].pre[k] ELSE Info[t].rest
(* an argument is a node or a number [v |-> n] (TLC cannot compare a record with a number, so numbers are wrapped) *)
Node(t, a) == [tag |-> t, a |-> a]
I(n)  == [v |-> n]
II(s) == [k \in 1..Len(s) |-> I(s[k])]
NilN == Node("Nil", <<>>)

---------------------------------------------------------------------------
(* formats and the fields they govern                                       *)

Formats == 0..4
Fits(f, v) == CASE f = 0 -> TRUE [] f = 1 -> v <= 255 [] OTHER -> v = f - 2
Narrowest(v, imm) == IF imm /\ v < 3 THEN 2 + v ELSE IF v <= 255 THEN 1 ELSE 0
WidthName(v, imm) == IF imm /\ v < 3 THEN "imm" ELSE IF v <= 255 THEN "byte" ELSE "word"

(* the values of node n that are written in n's own format *)
Governed(n) ==
  LET t == n.tag
      own == {n.a[k].v : k \in {j \in 1..Len(n.a) : Letter(t, j) \in {"i", "s", "n"}}}
  IN IF IsNary(t) THEN own \cup {Len(n.a)} ELSE own

(* which formats a tag byte can carry: byte = tag + f * Span names the tag again only for tags from Origin on.
   An immediate format stands for ONE value: every governed field of the node is then read as that value. *)
TagFormats(t) == IF TagNo[t] < Origin THEN {0} ELSE Formats
Admissible(n, f) == f \in TagFormats(n.tag) /\ \A v \in Governed(n) : Fits(f, v)

MaxOf(S) == IF S = {} THEN 0 ELSE CHOOSE x \in S : \A y \in S : y <= x
MinOf(S) == CHOOSE x \in S : \A y \in S : x <= y

(* foamTagFormat as written *)
AsWritten(n) ==
  LET t == n.tag  no == TagNo[t] IN
  IF no < IndexStart
  THEN IF no < Origin THEN 0
       ELSE IF t = "Unimp" THEN Narrowest(n.a[1].v, FALSE)
       ELSE IF t \in {"Decl", "GDecl"} THEN Narrowest(MaxOf({n.a[2].v, n.a[4].v}), FALSE)
       ELSE Narrowest((n.a[1].v + 1) \div 2, FALSE)        \* BInt: the count of the 32-bit places of the internal
                                                            \* representation, although the 16-bit places are written
  ELSE IF t \in {"DEnv", "DFluid"} THEN MinOf({Narrowest(Len(n.a), FALSE)} \cup {Narrowest(n.a[k].v, FALSE) : k \in 1..Len(n.a)})
  ELSE IF t = "Rec" THEN IF Len(n.a) > 1 THEN 0       \* the loop of foamTagFormat looks at the sub-trees as if they were
                         ELSE Narrowest(n.a[1].v, FALSE)  \* numbers: wide as soon as there is one
  ELSE IF no < IndexLimit \/ IsNary(t) THEN Narrowest(IF IsNary(t) THEN Len(n.a) ELSE n.a[1].v, TRUE)
  ELSE Narrowest(MaxOf({n.a[k].v : k \in {j \in 1..Len(n.a) : Letter(t, j) = "i"}}), FALSE)      \* Lex RElt IRElt TRElt EElt

---------------------------------------------------------------------------
(* bytes                                                                    *)

LE2(v) == <<v % 256, (v \div 256) % 256>>
LE4(v) == <<v % 256, (v \div 256) % 256, (v \div 65536) % 256, (v \div 16777216) % 256>>
PutInt(f, v) == CASE f = 0 -> LE4(v) [] f = 1 -> <<v % 256>> [] OTHER -> <<>>
Rep(n, x) == [i \in 1..n |-> x]

LabelFmtFor(nl) == IF nl <= 255 THEN 1 ELSE 0

(* the writer: foamToBuffer.  lf = the label format in force (a global of foam.c, set by the F field of the last Prog).
   Children are written in the format the implementation chooses; the top node in the format f that was chosen for it. *)
RECURSIVE Enc(_, _, _)
EncArg(t, k, xx, f, lf) ==       \* <<bytes, lf'>>
  LET c == Letter(t, k)
      x == IF c = "C" THEN 0 ELSE xx.v IN
  CASE c \in {"t", "p", "D", "b"} -> <<<<x % 256>>, lf>>
    [] c \in {"h", "o"}           -> <<LE2(x), lf>>
    [] c \in {"w", "X"}           -> <<LE4(x), lf>>
    [] c = "F"                    -> <<LE4(x), LabelFmtFor(x)>>
    [] c = "L"                    -> <<PutInt(lf, x), lf>>
    [] c = "i"                    -> <<PutInt(f, x), lf>>
    [] c = "s"                    -> <<PutInt(f, x) \o Rep(x, 120), lf>>
    [] c = "n"                    -> <<<<0>> \o PutInt(f, x) \o Rep(2 * x, 1), lf>>
    [] c = "C"                    -> Enc(xx, AsWritten(xx), lf)
Enc(n, f, lf) ==
  LET t == n.tag
      head == <<TagNo[t] + f * Span>> \o (IF IsNary(t) THEN PutInt(f, Len(n.a)) ELSE <<>>)
      r == FoldLeft(LAMBDA acc, k : LET x == EncArg(t, k, n.a[k], f, acc[2]) IN <<acc[1] \o x[1], x[2]>>,
                    <<head, lf>>, [k \in 1..Len(n.a) |-> k])
  IN IF t # "Prog" THEN r
     ELSE \* the X field is patched afterwards with the distance from itself to the end of the Prog
          LET off == LE4(Len(r[1]) - Len(head))
          IN <<[j \in 1..Len(r[1]) |-> IF j > Len(head) /\ j <= Len(head) + 4 THEN off[j - Len(head)] ELSE r[1][j]], r[2]>>
Encode(n, f) == Enc(n, f, 1)[1]

(* the readers.  A reading position is 1-based; GetInt returns <<value, next position>> *)
GetInt(f, b, p) == CASE f = 0 -> <<b[p] + 256 * b[p + 1] + 65536 * b[p + 2] + 16777216 * b[p + 3], p + 4>>
                     [] f = 1 -> <<b[p], p + 1>>
                     [] OTHER -> <<f - 2, p>>
TagAt(b, p)    == LET y == b[p] IN IF y < Origin THEN y ELSE Origin + ((y - Origin) % Span)
FormatAt(b, p) == LET y == b[p] IN IF y < Origin THEN 0 ELSE (y - Origin) \div Span
FixedArgc(t)   == Len(Info[t].pre)

(* foamFrBuffer: <<node, next position, lf'>> *)
RECURSIVE Dec(_, _, _)
DecArg(t, k, f, b, p, lf) ==     \* <<value, p', lf'>>
  LET c == Letter(t, k) IN
  CASE c \in {"t", "p", "D", "b"} -> <<b[p], p + 1, lf>>
    [] c \in {"h", "o"}           -> <<b[p] + 256 * b[p + 1], p + 2, lf>>
    [] c = "w"                    -> <<GetInt(0, b, p)[1], p + 4, lf>>
    [] c = "X"                    -> <<0, p + 4, lf>>                      \* the offset is thrown away in tree form
    [] c = "F"                    -> LET v == GetInt(0, b, p)[1] IN <<v, p + 4, LabelFmtFor(v)>>
    [] c = "L"                    -> LET r == GetInt(lf, b, p) IN <<r[1], r[2], lf>>
    [] c = "i"                    -> LET r == GetInt(f, b, p) IN <<r[1], r[2], lf>>
    [] c = "s"                    -> LET r == GetInt(f, b, p) IN <<r[1], r[2] + r[1], lf>>
    [] c = "n"                    -> LET r == GetInt(f, b, p + 1) IN <<r[1], r[2] + 2 * r[1], lf>>
    [] c = "C"                    -> Dec(b, p, lf)
Dec(b, p, lf) ==
  LET t  == TagOrder[TagAt(b, p) + 1]
      f  == FormatAt(b, p)
      cn == IF IsNary(t) THEN GetInt(f, b, p + 1) ELSE <<FixedArgc(t), p + 1>>
      r  == FoldLeft(LAMBDA acc, k : LET x == DecArg(t, k, f, b, acc[2], acc[3]) IN <<Append(acc[1], IF Letter(t, k) = "C" THEN x[1] ELSE I(x[1])), x[2], x[3]>>,
                     <<<<>>, cn[2], lf>>, [k \in 1..cn[1] |-> k])
  IN <<Node(t, r[1]), r[2], r[3]>>
Decode(b) == Dec(b, 1, 1)

(* foamFrBuffer0: the skipping reader -- <<next position, lf'>> *)
RECURSIVE Skp(_, _, _)
SkpArg(t, k, f, b, p, lf) ==
  LET c == Letter(t, k) IN
  CASE c \in {"t", "p", "D", "b"} -> <<p + 1, lf>>
    [] c \in {"h", "o"}           -> <<p + 2, lf>>
    [] c \in {"w", "X"}           -> <<p + 4, lf>>
    [] c = "F"                    -> <<p + 4, LabelFmtFor(GetInt(0, b, p)[1])>>
    [] c = "L"                    -> <<GetInt(lf, b, p)[2], lf>>
    [] c = "i"                    -> <<GetInt(f, b, p)[2], lf>>
    [] c = "s"                    -> LET r == GetInt(f, b, p) IN <<r[2] + r[1], lf>>
    [] c = "n"                    -> LET r == GetInt(f, b, p + 1) IN <<r[2] + 2 * r[1], lf>>
    [] c = "C"                    -> Skp(b, p, lf)
Skp(b, p, lf) ==
  LET t  == TagOrder[TagAt(b, p) + 1]
      f  == FormatAt(b, p)
      cn == IF IsNary(t) THEN GetInt(f, b, p + 1) ELSE <<FixedArgc(t), p + 1>>
  IN FoldLeft(LAMBDA acc, k : SkpArg(t, k, f, b, acc[1], acc[2]), <<cn[2], lf>>, [k \in 1..cn[1] |-> k])
SkipEnd(b) == Skp(b, 1, 1)[1]

(* foamProgHdrFrBuffer: the leading non-node fields of a Prog, nothing of its sub-trees *)
HeaderOf(n) == IF n.tag # "Prog" THEN <<>> ELSE [k \in 1..8 |-> IF k = 1 THEN 0 ELSE n.a[k].v]
DecHeader(b) ==
  LET t == TagOrder[TagAt(b, 1) + 1]
      f == FormatAt(b, 1)
  IN IF t # "Prog" THEN <<>>
     ELSE LET cn == GetInt(f, b, 2)
          IN FoldLeft(LAMBDA acc, k : LET x == DecArg(t, k, f, b, acc[2], acc[3]) IN <<Append(acc[1], x[1]), x[2], x[3]>>,
                      <<<<>>, cn[2], 1>>, [k \in 1..8 |-> k])[1]

---------------------------------------------------------------------------
(* positions of the constants of a unit: foamConstcFrBuffer / foamConstvFrBuffer                         *)
(* a unit is (Unit (DFmt (DDecl globals) (DDecl constants) ...) (DDef (Def (Const i) rhs) ...))          *)

ConstCount(b) ==          \* tag of Unit, tag of DFmt + count, skip constsSlot = 1 DDecl, tag of DDecl + count, minus the D field
  LET f1 == FormatAt(b, 2)
      c1 == GetInt(f1, b, 3)
      p  == Skp(b, c1[2], 1)[1]
      f2 == FormatAt(b, p)
  IN GetInt(f2, b, p + 1)[1] - 1

ConstPositions(b) ==      \* sequence of <<constant number, position of its right-hand side>> in definition order
  LET p0 == Skp(b, 2, 1)[1]                    \* skip the formats
      f  == FormatAt(b, p0)
      cn == GetInt(f, b, p0 + 1)
  IN FoldLeft(LAMBDA acc, k :
                LET q  == acc[2] + 1                 \* behind the tag of Def
                    t  == TagOrder[TagAt(b, q) + 1]
                    j  == GetInt(FormatAt(b, q), b, q + 1)
                    e  == Skp(b, j[2], 1)[1]
                IN <<IF t = "Const" THEN Append(acc[1], <<j[1], j[2]>>) ELSE acc[1], e>>,
              <<<<>>, cn[2]>>, [k \in 1..cn[1] |-> k])[1]

---------------------------------------------------------------------------
(* the node family                                                          *)

B     == {0, 1, 2, 3, 254, 255, 256, 257, 65535, 65536}
BS    == {0, 2, 255, 256, 65536}                      \* second / third index of the several-index nodes
Cnt   == {0, 1, 2, 3, 4, 255, 256, 257} \cup {BigCount}
Kids(k) == Rep(k, NilN)

IdxCases    == {Node(t, <<I(v)>>) : t \in {"Par", "Loc", "Glo", "Fluid", "Const", "Env", "RNew", "Label"}, v \in B}
               \cup {Node(t, <<I(v), NilN>>) : t \in {"EEnv", "PRef", "TRNew"}, v \in B}
               \cup {Node("RRElt", <<I(v), NilN, NilN>>) : v \in B}
MidxCases   == {Node("Lex", <<I(u), I(v)>>) : u \in B, v \in B}
               \cup {Node(t, <<I(u), NilN, I(v)>>) : t \in {"RElt", "IRElt"}, u \in B, v \in BS}
               \cup {Node(t, <<I(u), NilN, I(v)>>) : t \in {"RElt"}, u \in BS, v \in B}
               \cup {Node("TRElt", <<I(u), NilN, NilN, I(v)>>) : u \in BS, v \in BS}
               \cup {Node("EElt", <<I(u), NilN, I(v), I(w)>>) : u \in BS, v \in BS, w \in BS}
FixCases    == {NilN, Node("NOp", <<>>), Node("PopEnv", <<>>)}
               \cup {Node(t, <<I(v), NilN>>) : t \in {"PushEnv", "MFmt", "RRNew"}, v \in B}       \* i fields of tags without format
               \cup {Node("SInt", <<I(v)>>) : v \in {0, 255, 256, 65536, 2147483647}}
               \cup {Node("HInt", <<I(v)>>) : v \in {0, 255, 256, 65535}}
               \cup {Node("Char", <<I(v)>>) : v \in {0, 65, 255}}
               \cup {Node("BVal", <<I(v)>>) : v \in {0, 255, 256, 300}}
               \cup {Node("Cast", <<I(5), Node("Loc", <<I(v)>>)>>) : v \in {2, 3, 256}}
               \cup {Node("Set", <<Node("Lex", <<I(0), I(v)>>), Node("Par", <<I(v)>>)>>) : v \in {0, 255, 256}}
CountCases  == {Node(t, Kids(k)) : t \in {"Seq", "Values", "DDef", "DFmt"}, k \in Cnt}
               \cup {Node("DDecl", <<I(1)>> \o Kids(k)) : k \in Cnt}
               \cup {Node("BCall", <<I(7)>> \o Kids(k)) : k \in Cnt}
               \cup {Node("CCall", <<I(5), NilN>> \o Kids(k)) : k \in Cnt \ {BigCount}}
               \cup {Node("PCall", <<I(1), I(5), NilN>> \o Kids(k)) : k \in Cnt \ {BigCount}}
               \cup {Node("OCall", <<I(5), NilN, NilN>> \o Kids(k)) : k \in Cnt \ {BigCount}}
               \cup {Node("Arr", <<I(2)>> \o Rep(k, I(97))) : k \in Cnt}
IlistCases  == {Node(t, Rep(k, I(e))) : t \in {"DEnv", "DFluid"}, k \in {0, 1, 2, 3, 255, 256}, e \in BS}
               \cup {Node(t, <<I(e)>> \o Rep(k, I(4))) : t \in {"DEnv", "DFluid"}, k \in {1, 2, 254, 255, 256}, e \in BS}
               \cup {Node(t, Rep(k, I(4)) \o <<I(e)>>) : t \in {"DEnv"}, k \in {1, 2, 254, 255}, e \in BS}
RecCases    == {Node(t, <<I(v)>> \o Kids(k)) : t \in {"Rec", "TR"}, v \in BS \cup {1, 3}, k \in {0, 1, 2, 3, 255, 256}}
VecCases    == {Node("Unimp", <<I(s)>>) : s \in {0, 1, 2, 3, 255, 256, 257}}
               \cup {Node("BInt", <<I(s)>>) : s \in {1, 2, 3, 255, 256, 257}}
               \cup {Node("Decl", II(<<5, s, 0, i>>)) : s \in {0, 1, 255, 256, 257}, i \in B}
               \cup {Node("GDecl", II(<<5, s, 0, i, 1, 2>>)) : s \in {0, 255, 256}, i \in BS}
(* a Prog with nl labels whose body uses the last one; i = the format of its value list *)
ProgN(nl, i, nloc) ==
  Node("Prog", II(<<0, nl, 5, i, 0, 0, 0, 0>>) \o
               <<Node("DDecl", <<I(2)>>), Node("DDecl", <<I(3)>> \o Rep(nloc, Node("Decl", II(<<5, 1, 0, 4>>)))),
                 Node("DFluid", <<>>), Node("DEnv", II(<<4, 4>>)),
                 Node("Seq", IF nl = 0 THEN <<Node("Return", <<NilN>>)>>
                             ELSE <<Node("If", <<NilN, I(nl - 1)>>), Node("Goto", <<I(nl - 1)>>), Node("Label", <<I(nl - 1)>>),
                                    Node("Select", <<NilN, I(0), I(nl - 1)>>), Node("Return", <<Node("Loc", <<I(nloc)>>)>>)>>)>>)
ProgCases   == {ProgN(nl, i, 1) : nl \in {0, 1, 2, 255, 256, 257, 65536}, i \in {0, 4, 255, 256, 65536}}
               \cup {ProgN(3, 4, nloc) : nloc \in {0, 255, 256}}
(* a unit with k constants: every third is not a program; constant numbers are permuted (definitions need not be in order) *)
UnitN(k, nl) ==
  Node("Unit", <<Node("DFmt", <<Node("DDecl", <<I(1), Node("GDecl", II(<<5, 3, 0, 4, 1, 2>>))>>),
                               Node("DDecl", <<I(2)>> \o Rep(k, Node("Decl", II(<<5, 2, 0, 4>>)))),
                               Node("DDecl", <<I(4)>>)>>),
                 Node("DDef", <<Node("Def", <<Node("Glo", <<I(0)>>), NilN>>)>> \o
                              [j \in 1..k |-> Node("Def", <<Node("Const", <<I(k - j)>>),
                                                           IF j % 3 = 0 THEN Node("SInt", <<I(j)>>) ELSE ProgN(nl, 4, 0)>>)])>>)
UnitCases   == {UnitN(k, nl) : k \in {1, 2, 3, 4, 255, 256, 257}, nl \in {0, 256}}

Cases == IdxCases \cup MidxCases \cup FixCases \cup CountCases \cup IlistCases \cup RecCases \cup VecCases \cup ProgCases \cup UnitCases

---------------------------------------------------------------------------
(* field kinds a source program can drive beyond one byte; the program-level binding needs a witness unit for each *)
SourceFields == { "idx:Loc", "idx:Par", "idx:Glo", "idx:Const", "idx:Label", "idx:RNew", "midx:Lex", "midx:RElt", "midx:EElt",
                  "count:DDecl", "count:DFmt", "count:DDef", "count:Seq", "count:Arr", "ilist:DEnv",
                  "decl:str", "decl:fmt", "prog:labels", "prog:fmt", "bint:places", "fix:MFmt" }
FieldRec(k, v) == [field |-> k, bound |-> v, width |-> WidthName(v, FALSE)]

---------------------------------------------------------------------------
VARIABLES node, phase, fmt, buf, back
vars == <<node, phase, fmt, buf, back>>
None == [none |-> TRUE]

Init == node \in Cases /\ phase = "pick" /\ fmt = 0 /\ buf = <<>> /\ back = None

(* the width choice: any admissible format (what is required), the implementation's among them or not *)
Choose(f) == /\ phase = "pick" /\ (Admissible(node, f) \/ f = AsWritten(node))
             /\ fmt' = f /\ phase' = "chosen" /\ UNCHANGED <<node, buf, back>>
Write     == /\ phase = "chosen" /\ buf' = Encode(node, fmt) /\ phase' = "written" /\ UNCHANGED <<node, fmt, back>>
Read      == /\ phase = "written"
             /\ back' = [tree |-> Decode(buf)[1], tend |-> Decode(buf)[2], send |-> SkipEnd(buf), hdr |-> DecHeader(buf)]
             /\ phase' = "read" /\ UNCHANGED <<node, fmt, buf>>
CaseRec   == [node |-> node, adm |-> {f \in Formats : Admissible(node, f)}, asw |-> AsWritten(node), len |-> Len(buf)]
ExportCase == /\ phase = "read" /\ fmt = AsWritten(node) /\ Export
              /\ PrintT("CASE " \o ToJson(CaseRec)) /\ phase' = "done" /\ UNCHANGED <<node, fmt, buf, back>>
Next == (\E f \in Formats : Choose(f)) \/ Write \/ Read \/ ExportCase
Spec == Init /\ [][Next]_vars

ExportFields == Export => \A k \in SourceFields : \A v \in {255, 256, 257} : PrintT("FIELD " \o ToJson(FieldRec(k, v)))
ASSUME ExportFields

---------------------------------------------------------------------------
TypeOK == phase \in {"pick", "chosen", "written", "read", "done"} /\ fmt \in Formats

(* every admissible choice is read back exactly, by every reader *)
RoundTrip == (phase \in {"read", "done"} /\ Admissible(node, fmt)) =>
                /\ back.tree = node
                /\ back.tend = Len(buf) + 1
                /\ back.send = Len(buf) + 1
                /\ back.hdr = HeaderOf(node)

(* positions of the constants of a unit, computed with the skipping reader, are where the tree reader finds them *)
PositionsOK == (phase \in {"read", "done"} /\ node.tag = "Unit" /\ Admissible(node, fmt)) =>
                  LET k  == Len(node.a[2].a) - 1
                      ps == ConstPositions(buf)
                  IN /\ ConstCount(buf) = k
                     /\ Len(ps) = k
                     /\ \A j \in 1..k : /\ ps[j][1] = k - j
                                        /\ Dec(buf, ps[j][2], 1)[1] = node.a[2].a[j + 1].a[2]

(* the implementation's choice is admissible *)
ChoiceOK == node.tag \notin Hazard => Admissible(node, AsWritten(node))

(* an inadmissible choice is NOT read back: the requirement is not vacuous *)
Sharp == (phase \in {"read", "done"} /\ ~Admissible(node, fmt)) => back.tree # node

=============================================================================
