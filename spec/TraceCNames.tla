---------------------------- MODULE TraceCNames ----------------------------
(***************************************************************************)
(* Trace validation for C16's naming half.  The check records, for every    *)
(* (program, configuration) it compiled, which C identifier each file-scope *)
(* entity and each run-time link name got:                                   *)
(*   {"ev":"Names","prog":p,"cfg":c,"binds":[[scope, entity, cname],...]}    *)
(* (entity = the identifier the same program position carries when nothing   *)
(* is truncated; scope = "file" or "link").  Property level (C16): inside    *)
(* one scope two distinct entities never carry one C name -- Distinct of     *)
(* CNames, evaluated here on what the compiler really emitted.  Every        *)
(* conflict is exported ("CONFLICT ...") and reported as a violation.        *)
(*   {"ev":"Spell","items":[[kind, index, name, hv, idlen, observed],...]}   *)
(* compares the emitted spelling with CNames!MangleH and the hash computed   *)
(* by the C code (harness/strhash_drv.c) with CNames!StrHash: drift only.    *)
(***************************************************************************)
EXTENDS CNames, IOUtils

Trc == ndJsonDeserialize(IOEnv.TRACE)

VARIABLES l, nconf, ndrift, nbind, nspell
tvars == <<l, nconf, ndrift, nbind, nspell>>

IsEvent(n) == l <= Len(Trc) /\ Trc[l].ev = n /\ l' = l + 1

(* [scope, entity, cname] triples -> the (scope, cname) keys that stand for more than one entity *)
Conflicts(binds) ==
  LET B == {<<binds[i][1], binds[i][2], binds[i][3]>> : i \in 1..Len(binds)}
      K == {<<t[1], t[3]>> : t \in B}
      E == {<<t[1], t[2]>> : t \in B}
  IN IF Cardinality(K) = Cardinality(B) THEN {}          \* a bijection between entities and names
     ELSE {k \in K : Cardinality({t[2] : t \in {u \in B : u[1] = k[1] /\ u[3] = k[2]}}) > 1}
EntitiesOf(binds, k) == {binds[i][2] : i \in {j \in 1..Len(binds) : binds[j][1] = k[1] /\ binds[j][3] = k[2]}}

TraceNames ==
  /\ IsEvent("Names")
  /\ LET e == Trc[l]
         cs == Conflicts(e.binds)
     IN /\ nconf' = nconf + Cardinality(cs)
        /\ nbind' = nbind + Len(e.binds)
        /\ \A k \in cs : PrintT("CONFLICT " \o ToJson([prog |-> e.prog, cfg |-> e.cfg, scope |-> k[1], cname |-> k[2],
                                                        entities |-> EntitiesOf(e.binds, k)]))
  /\ UNCHANGED <<ndrift, nspell>>

SpellBad(it) ==      \* it = <<kind, index, name, hv, idlen, observed>> (character arrays)
  \/ MangleH(it[1], it[2], it[3], it[5], TRUE, it[4]) # it[6]
  \/ (IsGlobalKind(it[1]) /\ StrHash(it[3]) # it[4])
TraceSpell ==
  /\ IsEvent("Spell")
  /\ LET e == Trc[l]
         bad == {i \in 1..Len(e.items) : SpellBad(e.items[i])}
     IN /\ ndrift' = ndrift + Cardinality(bad)
        /\ nspell' = nspell + Len(e.items)
        /\ \A i \in bad : PrintT("DRIFT " \o ToJson([kind |-> Str(e.items[i][1]), index |-> e.items[i][2], name |-> Str(e.items[i][3]),
                                                      idlen |-> e.items[i][5], observed |-> Str(e.items[i][6]),
                                                      predicted |-> Str(MangleH(e.items[i][1], e.items[i][2], e.items[i][3], e.items[i][5], TRUE, e.items[i][4])),
                                                      hash_c |-> e.items[i][4], hash_spec |-> StrHash(e.items[i][3])]))
  /\ UNCHANGED <<nconf, nbind>>

TraceEnd == /\ l = Len(Trc) + 1 /\ l' = l + 1
            /\ PrintT("TRACEEND " \o ToJson([events |-> Len(Trc), conflicts |-> nconf, drift |-> ndrift, binds |-> nbind, spelled |-> nspell]))
            /\ UNCHANGED <<nconf, ndrift, nbind, nspell>>

TraceInit == l = 1 /\ nconf = 0 /\ ndrift = 0 /\ nbind = 0 /\ nspell = 0 /\ idlen = 0 /\ idhash = TRUE /\ group = "trace" /\ verdict = <<>>
TraceNext == (TraceNames \/ TraceSpell \/ TraceEnd) /\ UNCHANGED vars
TraceSpec == TraceInit /\ [][TraceNext]_<<tvars, vars>>
(* the property: no conflict in anything the compiler emitted (the check reports each exported conflict) *)
NoConflict == nconf = 0
TraceAccepted == TLCGet("stats").diameter = Len(Trc) + 2
=============================================================================
