CONSTANT N = 80
INIT Init
NEXT Next
INVARIANT Check
CHECK_DEADLOCK FALSE
