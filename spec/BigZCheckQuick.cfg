CONSTANT N = 140
INIT Init
NEXT Next
INVARIANT Check
CHECK_DEADLOCK FALSE
