\* C14: the real programs of gen/layout_progs.py (LayoutVocab generated with them), styles drawn by the seed.
SPECIFICATION Spec
CONSTANTS
  MaxN = 0
  MaxDepth = 1
  TreeSource = "progs"
  StyleSet = "random"
  Seed = 0
  ScanChars = TRUE
  Export = TRUE
  Use0 = {}
  Use1 = {}
  Use2 = {}
  Use3 = {}
INVARIANTS LeadOK StageOK
CHECK_DEADLOCK FALSE
