SPECIFICATION TraceSpec
CONSTANTS
  SkipLits = {"int", "flt", "str"}
  Export = FALSE
INVARIANT RecordedIndexOK
CHECK_DEADLOCK FALSE
