SPECIFICATION Spec
CONSTANTS
  NCat = 4
  MaxAr = 3
  Rets = {"Integer", "SingleInteger"}
INVARIANT RuleIsContravariance
CHECK_DEADLOCK FALSE
