------------------------------ MODULE ReplTab ------------------------------
(***************************************************************************)
(* The file-level symbol table of the interactive loop across steps, and   *)
(* the roll-back of a rejected step (property C13, second sentence: `a     *)
(* form that is rejected leaves the session able to evaluate the remaining *)
(* forms exactly as if the rejected form had not been entered').           *)
(*                                                                         *)
(* The table is a map  name -> set of meanings.  A meaning is              *)
(*      [s |-> signature, by |-> step that created it, v |-> value].       *)
(* Several meanings of one name live side by side: overloads of a          *)
(* function (f: SI->SI, f: Str->SI), the exports of imported domains (<<,  *)
(* =, bracket, apply, # of SingleInteger, String, List SI, Array SI) and   *)
(* the exports that come implicitly with a Record / Union / Enumeration    *)
(* type the first time a step mentions it.                                 *)
(*                                                                         *)
(* A step is processed in phases:                                          *)
(*   Begin    scope binding: the meanings the form declares (and the       *)
(*            exports its types bring) are added, tagged with the step;    *)
(*            meanings that are already there are not touched; a           *)
(*            definition of a (name, signature) the session already has is *)
(*            a redefinition: the loop asks (`Redefine? (y/n)'): answer n  *)
(*            refuses the form, answer y displaces the old meaning         *)
(*   Accept   the form type checks against the table: it is evaluated      *)
(*   Reject   it does not: one diagnostic, then                            *)
(*   Undo     the roll-back, an action of its own.  Its postcondition      *)
(*            (UndoRestores) is: the table equals the table before the     *)
(*            step.                                                        *)
(* `ref' is the table of the session in which the rejected forms were      *)
(* never entered (it is changed by accepted steps only), `outR' that       *)
(* session's output: TableAsWithout / OutputAsWithout are the property.    *)
(*                                                                         *)
(* Variant "bytag" is the required design (remove the meanings tagged with *)
(* the rejected step, put back what it displaced).  Two plausible wrong    *)
(* designs are kept as negative controls, TLC must refute them:            *)
(*   "byname"  the roll-back drops the whole entry of every name the step  *)
(*             touched                                                     *)
(*   "retag"   a step that mentions a meaning already present re-tags it,  *)
(*             so the roll-back takes an older meaning away                *)
(*                                                                         *)
(* Sessions (TABCFG, written by gen/replsess.py): the definitions Defs in  *)
(* one of the given orders; at every position at most MaxBad forms of the  *)
(* catalogue Bads, which overlap the names defined so far in the ways      *)
(* listed at Class; after a rejected form (directly, or after the next     *)
(* definition: gap) every meaning the session has is USED (each overload   *)
(* called, each constant printed, each imported domain's <<, =, bracket,   *)
(* apply, # exercised) and every meaning the rejected form tried to create *)
(* is used too (that use must be rejected); at the end everything is used  *)
(* again.  Each finished session is exported ("TSESS ...") and replayed    *)
(* into `aldor -Gloop'.                                                    *)
(***************************************************************************)
EXTENDS Naturals, Integers, Sequences, SequencesExt, FiniteSets, TLC, Json, IOUtils

CONSTANTS Variant,      \* "bytag" | "byname" | "retag"
          Export        \* TRUE: print finished sessions

TC == ndJsonDeserialize(IOEnv.TABCFG)[1]   \* [orders, bads, maxbad, gaps]

---------------------------------------------------------------------------
(* the universe of forms                                                   *)

F(k, n, t, v, ds, body, ill, ans) ==
  [k |-> k, n |-> n, t |-> t, v |-> v, ds |-> ds, body |-> body, ill |-> ill, ans |-> ans]

(* well-typed definitions of the program, entered once each *)
Defs == <<
  F("fun", "f", "SI",     <<11>>,     <<>>, "arg", "", ""),
  F("fun", "f", "Str",    <<12>>,     <<>>, "arg", "", ""),
  F("con", "c", "SI",     <<13>>,     <<>>, "",    "", ""),
  F("imp", "",  "",       <<>>,       <<"ListSI">>, "", "", ""),
  F("con", "l", "ListSI", <<21, 22>>, <<>>, "",    "", ""),
  F("con", "r", "Rec1",   <<31, 32>>, <<>>, "",    "", ""),
  F("fun", "g", "SI",     <<0>>,      <<>>, "fc",  "", ""),      \* g(a) == f(a) + c
  F("imp", "",  "",       <<>>,       <<"ArraySI">>, "", "", ""),
  F("con", "e", "Enum1",  <<1>>,      <<>>, "",    "", ""),
  F("con", "w", "Uni1",   <<41>>,     <<>>, "",    "", "") >>

(* the catalogue of forms that must be rejected in every session state (ill: what is wrong with the body;   *)
(* ans: the answer typed to the loop's `Redefine?' question when the form redefines)                          *)
Bads == <<
  F("fun", "f", "Bool",   <<0>>, <<>>, "",   "lit",   ""),       \* 1  overload of f, wrong result type
  F("fun", "f", "Bool",   <<0>>, <<>>, "",   "undef", ""),       \* 2  overload of f, undefined name in the body
  F("fun", "g", "Str",    <<0>>, <<>>, "",   "call",  ""),       \* 3  overload of g, body calls f with two arguments
  F("fun", "f", "SI",     <<0>>, <<>>, "",   "lit",   "y"),      \* 4  redefinition of f: SI->SI, confirmed, ill-typed
  F("fun", "f", "SI",     <<90>>, <<>>, "arg", "",    "n"),      \* 5  redefinition of f: SI->SI, well typed, refused
  F("con", "c", "SI",     <<0>>, <<>>, "",   "lit",   "y"),      \* 6  redefinition of c, confirmed, ill-typed
  F("con", "c", "SI",     <<91>>, <<>>, "",  "",      "n"),      \* 7  redefinition of c, well typed, refused
  F("con", "c", "Str",    <<0>>, <<>>, "",   "lit",   ""),       \* 8  c again with another type
  F("con", "f", "SI",     <<0>>, <<>>, "",   "lit",   ""),       \* 9  a constant called like the function
  F("con", "u", "Rec2",   <<0>>, <<>>, "",   "lit",   ""),       \* 10 constant of a new Record type
  F("con", "x", "Uni2",   <<0>>, <<>>, "",   "lit",   ""),       \* 11 constant of a new Union type
  F("con", "y", "Enum2",  <<0>>, <<>>, "",   "lit",   ""),       \* 12 constant of a new Enumeration type (an element is called c)
  F("con", "z", "Rec1",   <<0>>, <<>>, "",   "lit",   ""),       \* 13 constant of the Record type that r has
  F("con", "m", "ListSI", <<0>>, <<>>, "",   "lit",   ""),       \* 14 constant of an imported library type
  F("imp", "",  "",       <<>>,  <<"ListSI", "Zork">>, "", "", ""),        \* 15 import: known, unknown
  F("imp", "",  "",       <<>>,  <<"Zork", "ArraySI">>, "", "", ""),       \* 16 import: unknown, known
  F("imp", "",  "",       <<>>,  <<"SI", "Str", "Zork">>, "", "", "") >>   \* 17 import: the preamble's domains and an unknown one

Known      == {"SI", "Str", "ListSI", "ArraySI"}       \* domains of the library
Structured == {"Rec1", "Rec2", "Uni1", "Uni2", "Enum1", "Enum2"}   \* types whose exports come with their first mention
Ops(d) ==
  CASE d = "SI"      -> {"+", "=", "<<"}
    [] d = "Str"     -> {"<<", "=", "#", "apply"}
    [] d = "ListSI"  -> {"bracket", "apply", "=", "<<", "#"}
    [] d = "ArraySI" -> {"bracket", "apply", "=", "<<", "#", "new"}
    [] d \in {"Rec1", "Rec2"} -> {"bracket", "apply", "=", "record"}
    [] d = "Uni1"    -> {"bracket", "apply", "case", "union", "p", "q"}
    [] d = "Uni2"    -> {"bracket", "apply", "case", "union", "a", "b"}
    [] d = "Enum1"   -> {"=", "p", "q"}
    [] d = "Enum2"   -> {"=", "a", "b", "c"}
    [] OTHER         -> {}
UserNames == {"f", "g", "c", "l", "r", "e", "w", "u", "x", "y", "z", "m"}
OpNames   == {"+", "=", "<<", "#", "apply", "bracket", "new", "record", "union", "case", "p", "q", "a", "b"}
Names     == UserNames \cup OpNames

Sig(fm) == IF fm.k = "fun" THEN fm.t \o "->SI" ELSE fm.t

(* what scope binding makes of a form: the (name, signature, value) triples it declares or brings in *)
DomAdds(d) == {[n |-> op, s |-> d, v |-> <<>>] : op \in Ops(d)}
SeqSet(s) == {s[i] : i \in DOMAIN s}
Adds(fm) ==
  CASE fm.k = "fun" -> {[n |-> fm.n, s |-> Sig(fm), v |-> fm.v]}
    [] fm.k = "con" -> {[n |-> fm.n, s |-> fm.t, v |-> fm.v]} \cup (IF fm.t \in Structured THEN DomAdds(fm.t) ELSE {})
    [] fm.k = "imp" -> UNION {DomAdds(d) : d \in SeqSet(fm.ds) \cap Known}
    [] OTHER        -> {}

---------------------------------------------------------------------------
VARIABLES tab,      \* the symbol table: name -> set of meanings
          ref,      \* the table of the session without the rejected forms
          step,     \* number of the current / last step
          phase,    \* "idle" | "check" | "undo"
          cur,      \* the form of the current step
          saved,    \* the table before the current step
          displ,    \* what the current step displaced (confirmed redefinition): set of <<name, meaning>>
          dlg,      \* the current step met the `Redefine?' question
          hist,     \* the session so far: <<[f, ok, dlg, cls, o]>>
          out, outR,\* output of the session / of the session without the rejected forms
          agree,    \* so far every use got the same verdict from tab and from ref
          oi, pos,  \* which order, how many of its definitions were entered
          nbad,     \* rejected catalogue forms so far
          queue,    \* forms that must come next
          fin       \* the final round of uses was queued
tvars == <<tab, ref, step, phase, cur, saved, displ, dlg, hist, out, outR, agree, oi, pos, nbad, queue, fin>>

Order == TC.orders[oi]

Has(tb, n, s)  == \E e \in tb[n] : e.s = s
Get(tb, n, s)  == CHOOSE e \in tb[n] : e.s = s
Imported(tb, d) == \A op \in Ops(d) : Has(tb, op, d)
Redefines(fm, tb) == fm.k \in {"fun", "con"} /\ Has(tb, fm.n, Sig(fm))

(* the preamble of every session: import from SingleInteger, String *)
Tab0 == [n \in Names |-> {[s |-> d, by |-> 0, v |-> <<>>] : d \in {d \in {"SI", "Str"} : n \in Ops(d)}}]

---------------------------------------------------------------------------
(* uses                                                                    *)
U(n, t) == F("use", n, t, <<>>, <<>>, "", "", "")
UsePre    == U("", "pre")
UseDom(d) == U("", d)
UseOf(fm) == U(fm.n, Sig(fm))

(* the meanings a use needs (besides << of String, which every session has) *)
Needs(u) ==
  CASE u.t = "pre"     -> DomAdds("SI") \cup DomAdds("Str")
    [] u.n = ""        -> DomAdds(u.t)
    [] u.t = "SI"      -> {[n |-> u.n, s |-> "SI", v |-> <<>>], [n |-> "<<", s |-> "SI", v |-> <<>>]}
    [] u.t = "Str"     -> {[n |-> u.n, s |-> "Str", v |-> <<>>]}
    [] u.t = "ListSI"  -> {[n |-> u.n, s |-> "ListSI", v |-> <<>>]} \cup DomAdds("ListSI")
    [] u.t \in {"Rec1", "Rec2"} -> {[n |-> u.n, s |-> u.t, v |-> <<>>], [n |-> "apply", s |-> u.t, v |-> <<>>]}
    [] u.t \in {"Uni1", "Uni2"} -> {[n |-> u.n, s |-> u.t, v |-> <<>>], [n |-> "case", s |-> u.t, v |-> <<>>],
                                    [n |-> "apply", s |-> u.t, v |-> <<>>]}
    [] u.t \in {"Enum1", "Enum2"} -> {[n |-> u.n, s |-> u.t, v |-> <<>>], [n |-> "=", s |-> u.t, v |-> <<>>]}
    [] OTHER           -> {[n |-> u.n, s |-> u.t, v |-> <<>>], [n |-> "<<", s |-> "SI", v |-> <<>>]}     \* a function: called, result printed
UseOk(u, tb) == \A m \in Needs(u) : Has(tb, m.n, m.s)

(* what an accepted use prints (atoms: integers, strings, booleans, [list |-> ...]) *)
ResF(tb, n, s) == Get(tb, n, s).v[1] + 1              \* every function body is K(a) + v, K(canonical argument) = 1
UseOut(u, tb) ==
  CASE u.t = "pre"     -> <<3, "s", FALSE>>                                      \* 1 + 2, "s", 1 = 2
    [] u.n = "" /\ u.t = "ListSI"  -> <<[list |-> <<5, 6>>], 2>>                 \* [5, 6], #[5, 6]
    [] u.n = "" /\ u.t = "ArraySI" -> <<2>>                                      \* #new(2, 7)
    [] u.n = ""        -> <<>>
    [] u.t \in {"SI", "Str"} -> <<Get(tb, u.n, u.t).v[1]>>
    [] u.t = "ListSI"  -> LET v == Get(tb, u.n, u.t).v IN <<[list |-> v], Len(v), v[1], TRUE>>     \* l, #l, l.1, l = l
    [] u.t \in {"Rec1", "Rec2"} -> Get(tb, u.n, u.t).v                           \* r.a, r.b
    [] u.t \in {"Uni1", "Uni2"} -> <<TRUE, Get(tb, u.n, u.t).v[1]>>              \* w case p, w.p
    [] u.t \in {"Enum1", "Enum2"} -> <<Get(tb, u.n, u.t).v[1] = 1, Get(tb, u.n, u.t).v[1] = 2>>    \* e = p, e = q
    [] u.n = "g"       -> <<ResF(tb, "f", "SI->SI") + Get(tb, "c", "SI").v[1]>>  \* g(1) = f(1) + c
    [] OTHER           -> <<ResF(tb, u.n, u.t)>>

(* every meaning the session has, used: the preamble's domains, each definition in the order of Defs, each imported domain *)
UseAll(tb) ==
  <<UsePre>> \o
  FoldLeft(LAMBDA acc, i : LET d == Defs[i] IN
              IF d.k = "imp" THEN (IF Imported(tb, d.ds[1]) THEN Append(acc, UseDom(d.ds[1])) ELSE acc)
              ELSE IF Has(tb, d.n, Sig(d)) THEN Append(acc, UseOf(d)) ELSE acc,
           <<>>, [i \in 1..Len(Defs) |-> i])
(* the meanings a rejected form tried to create and the session does not have: used as well (must be rejected) *)
Ghosts(fm, tb) ==
  IF fm.k = "imp"
  THEN FoldLeft(LAMBDA acc, i : IF fm.ds[i] \in Known /\ ~Imported(tb, fm.ds[i]) THEN Append(acc, UseDom(fm.ds[i])) ELSE acc,
                <<>>, [i \in 1..Len(fm.ds) |-> i])
  ELSE IF Has(tb, fm.n, Sig(fm)) THEN <<>> ELSE <<UseOf(fm)>>

---------------------------------------------------------------------------
(* typing of a form against a table                                         *)
BodyOk(fm, tb) == fm.body = "fc" => (Has(tb, "f", "SI->SI") /\ Has(tb, "c", "SI") /\ Has(tb, "+", "SI"))
WellTyped(fm, tb) ==
  IF fm.k = "use" THEN UseOk(fm, tb)
  ELSE /\ fm.ill = ""
       /\ fm.k = "imp" => SeqSet(fm.ds) \subseteq Known
       /\ BodyOk(fm, tb)

(* in which way a rejected form overlaps what the session already has *)
Class(fm, tb) ==
  CASE fm.k = "use" -> "use-of-missing-meaning"
    [] fm.k = "imp" -> IF \E d \in SeqSet(fm.ds) \cap Known : Imported(tb, d) THEN "import-mixed-known-imported" ELSE "import-mixed-known-new"
    [] Redefines(fm, tb) -> IF fm.ans = "n" THEN "redefinition-refused" ELSE "redefinition-confirmed"
    [] tb[fm.n] # {} /\ fm.k = "fun" -> "overload-of-existing-name"
    [] tb[fm.n] # {} -> "redeclaration-other-type"
    [] fm.t \in Structured /\ Imported(tb, fm.t) -> "constant-of-known-structured-type"
    [] fm.t \in Structured /\ (\E a \in DomAdds(fm.t) : tb[a.n] # {}) -> "new-structured-type-overlapping-imports"
    [] OTHER -> "fresh-names"

---------------------------------------------------------------------------
(* one step                                                                 *)
Entry(a, now) == [s |-> a.s, by |-> now, v |-> a.v]

(* scope binding of form fm as step `now' on table tb: [tab, displ, dlg] *)
Bind(tb, fm, now, variant) ==
  LET redef  == Redefines(fm, tb)
      refuse == redef /\ fm.ans = "n"
      old    == IF redef /\ ~refuse THEN {<<fm.n, e>> : e \in {e \in tb[fm.n] : e.s = Sig(fm)}} ELSE {}
      new    == IF refuse THEN {}
                ELSE {a \in Adds(fm) : ~Has(tb, a.n, a.s) \/ (redef /\ a.n = fm.n /\ a.s = Sig(fm))}
      again  == IF refuse THEN {} ELSE Adds(fm) \ new           \* mentioned by the form, already present
  IN [displ |-> old, dlg |-> redef,
      tab |-> [n \in Names |->
                 LET kept == {e \in tb[n] : <<n, e>> \notin old}
                     k2   == IF variant = "retag"
                             THEN {IF \E a \in again : a.n = n /\ a.s = e.s THEN [e EXCEPT !.by = now] ELSE e : e \in kept}
                             ELSE kept
                 IN k2 \cup {Entry(a, now) : a \in {a \in new : a.n = n}}]]

Begin(fm) ==
  /\ phase = "idle"
  /\ LET r == Bind(tab, fm, step + 1, Variant) IN
        /\ tab' = r.tab /\ displ' = r.displ /\ dlg' = r.dlg
  /\ step' = step + 1
  /\ saved' = tab
  /\ cur' = fm
  /\ phase' = "check"
  /\ UNCHANGED <<ref, hist, out, outR, agree, oi>>

(* the library types a form mentions that the session has not imported yet *)
NewLib(fm, tb) == {d \in (SeqSet(fm.ds) \cap Known) \cup (IF fm.k = "con" /\ fm.t \in Known THEN {fm.t} ELSE {}) : ~Imported(tb, d)}

(* a redefinition of a (name, signature) of which an earlier redefinition was refused *)
SecondTry(fm) == /\ Redefines(fm, ref)
                 /\ \E i \in DOMAIN hist : /\ ~hist[i].ok /\ hist[i].dlg /\ hist[i].f.ans = "n"
                                           /\ hist[i].f.n = fm.n /\ Sig(hist[i].f) = Sig(fm)

Item(ok) == [f |-> cur, ok |-> ok, dlg |-> dlg, cls |-> IF ok THEN "" ELSE Class(cur, ref), lib |-> NewLib(cur, ref),
             re2 |-> SecondTry(cur),
             o |-> IF ok /\ cur.k = "use" THEN UseOut(cur, tab) ELSE <<>>]

Accepted == WellTyped(cur, tab) /\ ~(dlg /\ cur.ans = "n")

Accept ==
  /\ phase = "check" /\ Accepted
  /\ hist' = Append(hist, Item(TRUE))
  /\ out' = IF cur.k = "use" THEN Append(out, UseOut(cur, tab)) ELSE out
  /\ outR' = IF cur.k = "use" /\ UseOk(cur, ref) THEN Append(outR, UseOut(cur, ref)) ELSE outR
  /\ agree' = (agree /\ (cur.k = "use" => UseOk(cur, ref)))
  /\ ref' = Bind(ref, cur, step, "bytag").tab     \* the step becomes part of the session without the rejected forms
  /\ phase' = "idle"
  /\ UNCHANGED <<tab, step, cur, saved, displ, dlg, oi, pos, nbad, queue, fin>>

Reject ==
  /\ phase = "check" /\ ~Accepted
  /\ hist' = Append(hist, Item(FALSE))
  /\ agree' = (agree /\ (cur.k = "use" => ~UseOk(cur, ref)))
  /\ phase' = "undo"
  /\ UNCHANGED <<tab, ref, step, cur, saved, displ, dlg, out, outR, oi, pos, nbad, queue, fin>>

(* the roll-back of the rejected step *)
Undo ==
  /\ phase = "undo"
  /\ tab' = [n \in Names |->
               IF Variant = "byname"
               THEN IF \E e \in tab[n] : e.by = step THEN {} ELSE tab[n]
               ELSE {e \in tab[n] : e.by # step} \cup {p[2] : p \in {p \in displ : p[1] = n}}]
  /\ phase' = "idle"
  /\ UNCHANGED <<ref, step, cur, saved, displ, dlg, hist, out, outR, agree, oi, pos, nbad, queue, fin>>

---------------------------------------------------------------------------
(* the session: which form comes next                                       *)
Mark(b) == F("expand", "", "", <<b>>, <<>>, "", "", "")

(* a catalogue form is offered when it is rejected in the present state for the reason the catalogue gives *)
Offered(b) == Bads[b].ans = "n" => Redefines(Bads[b], ref)

Forced ==
  /\ phase = "idle" /\ queue # <<>>
  /\ LET h == Head(queue) IN
       IF h.k = "expand"
       THEN /\ queue' = Ghosts(Bads[h.v[1]], ref) \o UseAll(ref) \o Tail(queue)
            /\ UNCHANGED <<tab, ref, step, phase, cur, saved, displ, dlg, hist, out, outR, agree, oi, pos, nbad, fin>>
       ELSE /\ Begin(h)
            /\ queue' = Tail(queue)
            /\ pos' = IF h.k \in {"fun", "con", "imp"} THEN pos + 1 ELSE pos      \* (the definition queued by `gap')
            /\ UNCHANGED <<nbad, fin>>

NextDef ==
  /\ phase = "idle" /\ queue = <<>> /\ pos < Len(Order)
  /\ Begin(Defs[Order[pos + 1]])
  /\ pos' = pos + 1
  /\ UNCHANGED <<queue, nbad, fin>>

EnterBad(b, gap) ==
  /\ phase = "idle" /\ queue = <<>> /\ nbad < TC.maxbad /\ ~fin
  /\ Offered(b)
  /\ gap = 1 => pos < Len(Order)
  /\ Begin(Bads[b])
  /\ nbad' = nbad + 1
  /\ queue' = (IF gap = 1 THEN <<Defs[Order[pos + 1]]>> ELSE <<>>) \o <<Mark(b)>>
  /\ UNCHANGED <<pos, fin>>

FinalUses ==
  /\ phase = "idle" /\ queue = <<>> /\ pos = Len(Order) /\ ~fin
  /\ queue' = UseAll(ref)
  /\ fin' = TRUE
  /\ UNCHANGED <<tab, ref, step, phase, cur, saved, displ, dlg, hist, out, outR, agree, oi, pos, nbad>>

Record == [order |-> Order, hist |-> hist, nbad |-> nbad]
Finish ==
  /\ phase = "idle" /\ queue = <<>> /\ pos = Len(Order) /\ fin
  /\ Export => PrintT("TSESS " \o ToJson(Record))
  /\ phase' = "end"
  /\ UNCHANGED <<tab, ref, step, cur, saved, displ, dlg, hist, out, outR, agree, oi, pos, nbad, queue, fin>>

TInit ==
  /\ oi \in 1..Len(TC.orders)
  /\ tab = Tab0 /\ ref = Tab0 /\ step = 0 /\ phase = "idle"
  /\ cur = U("", "pre") /\ saved = Tab0 /\ displ = {} /\ dlg = FALSE
  /\ hist = <<>> /\ out = <<>> /\ outR = <<>> /\ agree = TRUE
  /\ pos = 0 /\ nbad = 0 /\ queue = <<>> /\ fin = FALSE

TNext == \/ Forced \/ NextDef \/ Accept \/ Reject \/ Undo \/ FinalUses \/ Finish
         \/ \E b \in SeqSet(TC.bads), gap \in SeqSet(TC.gaps) : EnterBad(b, gap)

TSpec == TInit /\ [][TNext]_tvars

---------------------------------------------------------------------------
(* properties                                                               *)

(* the postcondition of the roll-back: the table equals the table before the step *)
UndoRestores == [][phase = "undo" => tab' = saved]_tvars
(* C13: between two steps the table is that of the session in which the rejected forms were never entered ... *)
TableAsWithout == phase \in {"idle", "end"} => tab = ref
(* ... every use got the verdict it gets there and printed what it prints there *)
OutputAsWithout == agree /\ (phase \in {"idle", "end"} => out = outR)
(* a rejected step prints nothing and is the only thing that changes nothing *)
RejectSilent == [][phase' = "undo" => out' = out]_tvars
(* accepted steps only add: earlier meanings are never lost (no accepted redefinition in this family) *)
Monotone == [][(phase = "check" /\ phase' = "idle") =>
                 \A n \in Names : \A e \in saved[n] : e \in tab'[n]]_tvars
(* the forms of the catalogue are rejected, the definitions and the uses of existing meanings accepted *)
VerdictsAsIntended ==
  \A i \in DOMAIN hist :
     LET it == hist[i] IN
       /\ (it.f.k # "use" /\ (it.f.ill # "" \/ it.f.ans # "" \/ (it.f.k = "imp" /\ ~(SeqSet(it.f.ds) \subseteq Known)))) => ~it.ok
Bounded == nbad <= TC.maxbad /\ pos <= Len(Order)
(* every name keeps at most one meaning per signature *)
OnePerSig == \A n \in Names : \A e1, e2 \in tab[n] : e1.s = e2.s => e1 = e2
=============================================================================
