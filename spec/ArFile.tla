-------------------------------- MODULE ArFile --------------------------------
(***************************************************************************)
(* The archive layer of C17: a library archive (.al) is a GNU `ar' file     *)
(* written by the system `ar' and READ by aldor/aldor/src/archive.c:        *)
(*    arRdFormat      -> RdFormat     (magic string; unknown magic = empty)  *)
(*    arRdItemArch0   -> RdItem       (one member header: name, numbers,     *)
(*                                     size, fmag; computes the next header) *)
(*    arReadNameTable -> inside RdItem when the name is "//"                 *)
(*    arRdItemArch    -> name resolution ("/K" = offset K in the name table) *)
(*    arFind + libExtract -> Extract  (one per member the client needs)      *)
(* A file is a sequence of cells.  Layout of the valid archive:              *)
(*    <<ArMagic>>                                                            *)
(*    <<DirName, date, dsize, Fmag>> \o name table cells   (the "//" member) *)
(*    <<name,    date, size,  Fmag>> \o member image [\o pad]  per member    *)
(* A header is 4 cells (60 bytes in reality, even), members are aligned on 2 *)
(* cells.  Numeric fields hold "text": a cell >= NonNum is not a number      *)
(* (arReadNumber reports ALDOR_E_ArBadNumber).  A member image is the        *)
(* abstraction of an .ao file (LibFile.tla): <<LibMagic, L, d_1 .. d_L>>     *)
(* [+ check cell when SUM], self-delimiting through L.                       *)
(*                                                                           *)
(* READER = "AsWritten": archive.c - after a reported error the loop goes on *)
(*   with size 0; fmag is read and not looked at; "/K" is used without a     *)
(*   bound; the name table and the members are read with unchecked freads.   *)
(* READER = "Required": every failing check refuses the file.               *)
(* Property: DamagedRefused, as in LibFile.tla.                              *)
(***************************************************************************)
EXTENDS Naturals, Sequences, FiniteSets, TLC, Json

CONSTANTS READER, SUM, PRINT

ArMagic  == 9
Fmag     == 8
DirName  == 15                      \* the name "//"
RefBase  == 10                      \* RefBase + k is the name "/k"
LibMagic == 7
NonNum   == 16                      \* cells NonNum..M-1 are not digits
M        == 20
Cell     == 0 .. (M - 1)
HdrN     == 4
Fill     == {0, M - 1}
ShortA   == 1                       \* member A has the inline name 1
LongB    == 3                       \* member B's name, stored in the name table, terminated by 0
Date     == 2

Allowed  == {"Same", "Rejected"}

SumOf(s) == LET RECURSIVE S(_)
                S(i) == IF i = 0 THEN 0 ELSE (s[i] + S(i - 1)) % M
            IN S(Len(s))

Image(L, v) == LET body == <<LibMagic, L>> \o [i \in 1..L |-> (v + i) % NonNum]
               IN IF SUM THEN Append(body, SumOf(body)) ELSE body
Pad(s)      == IF Len(s) % 2 = 1 THEN <<0>> ELSE <<>>
Member(name, img) == <<name, Date, Len(img), Fmag>> \o img \o Pad(img)

NameTable == <<LongB, 0>>
ValidFile(la, lb, v) ==
  <<ArMagic>> \o <<DirName, Date, Len(NameTable), Fmag>> \o NameTable
             \o Member(ShortA, Image(la, v)) \o Member(RefBase + 0, Image(lb, v + 5))

Orig(la, lb, v) == (ShortA :> [i \in 1..la |-> (v + i) % NonNum]) @@ (LongB :> [i \in 1..lb |-> (v + 5 + i) % NonNum])

---------------------------------------------------------------------------
VARIABLES disk, valid, orig, phase, dmg, fill, diag, taint, next, names, members, want, got, outcome

vars == <<disk, valid, orig, phase, dmg, fill, diag, taint, next, names, members, want, got, outcome>>

NoDmg == [kind |-> "none", pos |-> 0, cls |-> "none"]
Empty == [n \in {} |-> 0]

Init == /\ \E la \in 1..2 : \E lb \in 1..2 : \E v \in {1, 4} :
             /\ disk = ValidFile(la, lb, v) /\ valid = ValidFile(la, lb, v) /\ orig = Orig(la, lb, v)
        /\ phase = "closed" /\ dmg = NoDmg /\ fill = 0 /\ diag = FALSE /\ taint = FALSE
        /\ next = 0 /\ names = <<>> /\ members = Empty /\ want = {} /\ got = Empty /\ outcome = ""

(* cell classes of the valid archive (shared with gen/libfile.py) *)
RECURSIVE ClassAt(_, _, _)
ClassAt(i, p, who) ==            \* p = 0-based position of a member header
  IF p >= Len(valid) THEN "end"
  ELSE LET size == valid[p + 3]
           dataend == p + HdrN + size
           nxt == dataend + ((dataend + 1) % 2)     \* headers start at odd 1-based positions + 1
       IN IF i = p + 1 THEN "arhdr.name" ELSE IF i = p + 2 THEN "arhdr.date"
          ELSE IF i = p + 3 THEN "arhdr.size" ELSE IF i = p + 4 THEN "arhdr.fmag"
          ELSE IF i <= dataend THEN
                 (IF valid[p + 1] = DirName THEN "ar.names"
                  ELSE LET r == i - (p + HdrN) IN
                       IF r = 1 THEN "member.magic" ELSE IF r = 2 THEN "member.count"
                       ELSE IF r = size THEN "member.last" ELSE "member.interior")
          ELSE IF i <= nxt THEN "ar.pad"
          ELSE ClassAt(i, nxt, who)
CellClass(i) == IF i > Len(valid) THEN "end" ELSE IF i = 1 THEN "ar.magic" ELSE ClassAt(i, 1, 0)

Damage ==
  /\ phase = "closed"
  /\ \/ /\ dmg' = NoDmg /\ disk' = disk
     \/ \E n \in 0..(Len(disk) - 1) :
          /\ disk' = SubSeq(disk, 1, n) /\ dmg' = [kind |-> "trunc", pos |-> n, cls |-> CellClass(n + 1)]
     \/ \E i \in 1..Len(disk) : \E c \in Cell \ {disk[i]} :
          /\ disk' = [disk EXCEPT ![i] = c] /\ dmg' = [kind |-> "subst", pos |-> i, cls |-> CellClass(i)]
  /\ \E f \in Fill : fill' = f
  /\ phase' = "fmt"
  /\ UNCHANGED <<valid, orig, diag, taint, next, names, members, want, got, outcome>>

---------------------------------------------------------------------------
Required == READER = "Required"
End(o)   == outcome' = o /\ phase' = "done"
ReadAt(off, n)  == [i \in 1..n |-> IF off + i <= Len(disk) THEN disk[off + i] ELSE fill]
IsShort(off, n) == off + n > Len(disk)
Align(p) == p + ((p + 1) % 2)         \* 0-based offsets of headers are odd (1, 7, ...): magic is one cell

(* arRdFormat: an unknown magic leaves format/size 0: the archive is "empty" *)
RdFormat ==
  /\ phase = "fmt"
  /\ IF Len(disk) >= 1 /\ disk[1] = ArMagic
     THEN next' = 1 /\ phase' = "items" /\ UNCHANGED outcome
     ELSE IF Required THEN End("Rejected") /\ UNCHANGED next
          ELSE next' = Len(disk) /\ phase' = "items" /\ UNCHANGED outcome
  /\ UNCHANGED <<disk, valid, orig, dmg, fill, diag, taint, names, members, want, got>>

(* Resolve "/k" in the name table: cells from k up to the terminator 0. *)
RECURSIVE NameFrom(_, _)
NameFrom(t, k) == IF k > Len(t) \/ t[k] = 0 THEN <<>> ELSE <<t[k]>> \o NameFrom(t, k + 1)

(* one member header (arRdItemArch0 + arRdItemArch) *)
RdItem ==
  /\ phase = "items"
  /\ IF next >= Len(disk)                                   \* arSeek: pos >= size ends the loop
     THEN /\ phase' = "extract" /\ want' = DOMAIN orig
          /\ UNCHANGED <<next, names, members, diag, outcome>>
     ELSE
       LET hb    == ReadAt(next, HdrN)
           short == IsShort(next, HdrN)
           nm    == hb[1]
           dateok == hb[2] < NonNum
           sizeok == hb[3] < NonNum
           size  == IF sizeok THEN hb[3] ELSE 0             \* arReadNumber: *plong = 0 after the error
           pos   == next + HdrN
           nxt   == Align(pos + size)
       IN
       IF Required THEN
         IF short \/ ~dateok \/ ~sizeok \/ hb[4] # Fmag \/ pos + size > Len(disk)
            \/ (nm >= RefBase /\ nm < DirName /\ (nm - RefBase + 1 > Len(names) \/ NameFrom(names, nm - RefBase + 1) = <<>>))
            \/ (nm = DirName /\ (size = 0 \/ ReadAt(pos, size)[size] # 0))
         THEN End("Rejected") /\ UNCHANGED <<next, names, members, diag, want>>
         ELSE /\ next' = nxt /\ UNCHANGED <<diag, outcome, phase, want>>
              /\ IF nm = DirName THEN names' = ReadAt(pos, size) /\ UNCHANGED members
                 ELSE LET key == IF nm >= RefBase /\ nm < DirName THEN NameFrom(names, nm - RefBase + 1)[1] ELSE nm IN
                      /\ members' = members @@ (key :> [pos |-> pos, size |-> size]) /\ UNCHANGED names   \* arFindEntry: first wins
       ELSE \* as written
         IF short THEN
            \* ALDOR_E_ArTruncated; the name buffer is "" and its second byte is whatever the
            \* allocator left: arRdItemArch then takes the "//" or the "/K" branch on garbage
            \/ End("Fault") /\ UNCHANGED <<next, names, members, diag, want>>
            \/ /\ diag' = TRUE /\ next' = Len(disk) /\ UNCHANGED <<names, members, outcome, phase, want>>
         ELSE
            /\ diag' = (diag \/ ~dateok \/ ~sizeok)
            /\ next' = nxt
            /\ IF nm = DirName
               THEN names' = ReadAt(pos, size) /\ UNCHANGED <<members, outcome, phase, want>>
               ELSE IF nm >= RefBase /\ nm < DirName
               THEN IF nm - RefBase + 1 > Len(names)
                    THEN End("Fault") /\ UNCHANGED <<names, members, want>>      \* ar->names + idx: wild pointer
                    ELSE LET nf == NameFrom(names, nm - RefBase + 1) IN
                         /\ members' = members @@ ((IF nf = <<>> THEN 0 ELSE nf[1]) :> [pos |-> pos, size |-> size])
                         /\ UNCHANGED <<names, outcome, phase, want>>
               ELSE /\ members' = members @@ (nm :> [pos |-> pos, size |-> size])
                    /\ UNCHANGED <<names, outcome, phase, want>>
  /\ UNCHANGED <<disk, valid, orig, dmg, fill, taint, got>>

(* arFind(name) + libExtract(pos): the member is read as a library.          *)
Extract ==
  /\ phase = "extract" /\ want # {}
  /\ LET n == CHOOSE x \in want : \A y \in want : x <= y IN
     IF n \notin DOMAIN members
     THEN End("Rejected") /\ UNCHANGED <<want, got, taint, diag>>       \* "Could not open file" (fatal)
     ELSE LET m   == members[n]
              hd  == ReadAt(m.pos, 2)
              L   == hd[2]
              img == ReadAt(m.pos, L + 2 + (IF SUM THEN 1 ELSE 0))
              body == SubSeq(img, 1, L + 2)
              data == [i \in 1..L |-> img[2 + i]]
              short == IsShort(m.pos, Len(img))
          IN
          IF Required THEN
            IF short \/ hd[1] # LibMagic \/ Len(img) # m.size \/ (SUM /\ SumOf(body) # img[Len(img)])
            THEN End("Rejected") /\ UNCHANGED <<want, got, taint, diag>>
            ELSE want' = want \ {n} /\ got' = (n :> data) @@ got /\ UNCHANGED <<taint, diag, outcome, phase>>
          ELSE
            /\ diag' = (diag \/ hd[1] # LibMagic)                       \* libChkHeader result ignored
            /\ taint' = (taint \/ short)
            /\ want' = want \ {n} /\ got' = (n :> data) @@ got /\ UNCHANGED <<outcome, phase>>
  /\ UNCHANGED <<disk, valid, orig, dmg, fill, next, names, members>>

Finish ==
  /\ phase = "extract" /\ want = {}
  /\ End(IF diag THEN "Rejected"
         ELSE IF got = orig /\ ~taint THEN "Same" ELSE "Garbage")
  /\ UNCHANGED <<disk, valid, orig, dmg, fill, diag, taint, next, names, members, want, got>>

Export ==
  /\ phase = "done" /\ PRINT
  /\ PrintT(ToJson([reader |-> READER, sum |-> SUM, kind |-> dmg.kind, cls |-> dmg.cls, outcome |-> outcome]))
  /\ phase' = "exported"
  /\ UNCHANGED <<disk, valid, orig, dmg, fill, diag, taint, next, names, members, want, got, outcome>>

Next == Damage \/ RdFormat \/ RdItem \/ Extract \/ Finish \/ Export
Spec == Init /\ [][Next]_vars

---------------------------------------------------------------------------
Done == phase \in {"done", "exported"}
TypeOK == /\ \A i \in 1..Len(disk) : disk[i] \in Cell
          /\ outcome \in {"", "Same", "Rejected", "Garbage", "Fault"}
DamagedRefused == (Done /\ dmg.kind \in {"trunc", "subst"}) => outcome \in Allowed
SameIsSame     == (Done /\ outcome = "Same") => (got = orig /\ ~taint)
IntactAccepted == (Done /\ dmg.kind = "none") => outcome = "Same"
=============================================================================
