-------------------------------- MODULE Opt --------------------------------
(***************************************************************************)
(* The optimiser *control* of the compiler as a machine (optfoam.c):       *)
(* state = the flags of optControl[], the level and the inline limit;      *)
(* actions = the command-line options -Qn, -Q<name>, -Qno-<name>, -Qall,   *)
(* -Qno-all, -Qinline-all, -O; Schedule = the pass sequence optimizeFoam    *)
(* runs for a state.  TLC enumerates the configuration space that property *)
(* C02 quantifies over and exports every configuration with an option      *)
(* sequence that reaches it and its schedule.  The schedule is an           *)
(* implementation-shaped prediction (compared with -WD+optf as drift-only   *)
(* information: it shows which passes really ran); what C02 demands is      *)
(* behavioural and is decided with AldorSem.                                *)
(***************************************************************************)
EXTENDS Naturals, Integers, Sequences, TLC, Json, FiniteSets

CONSTANTS MaxToggles      \* how many -Q<name>/-Qno-<name> options follow the level option

FlagNames == <<"inline", "inline-all", "cfold", "ffold", "hfold", "deadvar", "dassign", "peep", "cprop", "cse",
               "env", "emerge", "emerge-rr", "flow", "cast", "cc", "del-assert", "cc-fnonstd", "killp", "argsub">>
Flags == {FlagNames[i] : i \in 1..Len(FlagNames)}

(* optControl[].value: the columns Q0 .. Q4 (levels above 4 use column 4) *)
LevelOn(name, col) ==
  CASE name = "inline"     -> col >= 2
    [] name = "inline-all" -> col >= 3
    [] name \in {"cfold", "hfold", "deadvar", "peep"} -> col >= 1
    [] name \in {"ffold", "dassign", "cprop", "cse", "env", "emerge", "emerge-rr", "flow", "cast", "cc", "del-assert"} -> col >= 2
    [] OTHER -> FALSE          \* cc-fnonstd, killp, argsub: off at every level

InlineLimitAt(lev) ==
  CASE lev <= 1 -> 0 [] lev = 2 -> 500 [] lev = 3 -> 600 [] lev = 4 -> 800
    [] lev = 5 -> 1000 [] lev = 6 -> 1400 [] lev = 7 -> 1800 [] lev = 8 -> 3000 [] OTHER -> -1

Col(lev) == IF lev > 4 THEN 4 ELSE lev

VARIABLES flags, level, inlimit, opts, toggles
vars == <<flags, level, inlimit, opts, toggles>>

SetLevelState(lev) == [n \in Flags |-> LevelOn(n, Col(lev))]

Init == /\ flags = SetLevelState(1) /\ level = 1 /\ inlimit = InlineLimitAt(1)
        /\ opts = <<>> /\ toggles = 0

SetLevel(lev) == /\ Len(opts) = 0
                 /\ flags' = SetLevelState(lev) /\ level' = lev /\ inlimit' = InlineLimitAt(lev)
                 /\ opts' = <<"-Q" \o ToString(lev)>> /\ UNCHANGED toggles
(* -O is optSetStdOptimization: the same as -Q2 *)
SetO == /\ Len(opts) = 0
        /\ flags' = SetLevelState(2) /\ level' = 2 /\ inlimit' = InlineLimitAt(2)
        /\ opts' = <<"-O">> /\ UNCHANGED toggles
Toggle(name, on) ==
  /\ Len(opts) > 0 /\ toggles < MaxToggles
  /\ flags' = IF name = "inline-all" /\ on THEN [flags EXCEPT !["inline-all"] = TRUE, !["inline"] = TRUE]
              ELSE [flags EXCEPT ![name] = on]
  /\ opts' = Append(opts, IF on THEN "-Q" \o name ELSE "-Qno-" \o name)
  /\ toggles' = toggles + 1 /\ UNCHANGED <<level, inlimit>>
SetAll(on) ==
  /\ Len(opts) > 0 /\ toggles < MaxToggles
  /\ flags' = [n \in Flags |-> on]
  /\ opts' = Append(opts, IF on THEN "-Qall" ELSE "-Qno-all")
  /\ toggles' = toggles + 1 /\ UNCHANGED <<level, inlimit>>

Next == \/ \E lev \in 0..9 : SetLevel(lev)
        \/ SetO
        \/ \E n \in Flags, on \in BOOLEAN : Toggle(n, on)
        \/ \E on \in BOOLEAN : SetAll(on)

(* the pass sequence of optimizeFoam for the current state.  The loops that depend on   *)
(* the program (`while newConsts && optInline`) appear as the marker "expr-inline*".    *)
Iters == IF level > 5 THEN 5 ELSE IF level = 0 THEN 1 ELSE level
Fold == flags["cfold"] \/ flags["ffold"]
P(c, name) == IF c THEN <<name>> ELSE <<>>
LoopBody == P(flags["cprop"], "cprop") \o P(flags["peep"], "peep") \o P(Fold, "cfold") \o P(flags["cse"], "cse")
            \o P(flags["flow"], "jflow") \o P(flags["dassign"], "dead assign") \o P(flags["deadvar"], "deadvar")
RECURSIVE Rep(_, _)
Rep(s, n) == IF n = 0 THEN <<>> ELSE s \o Rep(s, n - 1)
Schedule ==
  P(flags["deadvar"], "deadvar") \o P(flags["inline"], "inline") \o P(Fold, "cfold")
  \o P(Fold /\ flags["inline"], "expr inline*")
  \o P(flags["hfold"], "hfold") \o P(flags["emerge-rr"], "emerge-rr") \o P(flags["emerge"], "emerge")
  \o P(flags["deadvar"], "deadvar") \o P(flags["env"], "env. opts") \o P(flags["cast"], "retype")
  \o Rep(LoopBody, Iters)
  \o P(flags["env"], "env. opts") \o P(flags["peep"], "peep")

Config == [opts |-> opts, level |-> level, on |-> {n \in Flags : flags[n]}, schedule |-> Schedule]
Export == Len(opts) > 0 /\ PrintT("CONFIG " \o ToJson(Config)) /\ UNCHANGED vars

Spec == Init /\ [][Next \/ Export]_vars

(* sanity of the control machine itself *)
TypeOK == /\ level \in 0..9 /\ flags \in [Flags -> BOOLEAN]
(* inline-all implies inline whenever it was switched on by its own option or by a level *)
AllOffIsEmpty == (\A n \in Flags : ~flags[n]) => Schedule = <<>>
Q0IsAllOff == (opts = <<"-Q0">>) => (\A n \in Flags : ~flags[n])
OIsQ2 == (opts = <<"-O">>) => flags = SetLevelState(2)
=============================================================================
