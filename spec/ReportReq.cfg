\* C15 report, required design, scaled widths (2,3), 2 files + 1 #line-only name, <= 8 lines, <= 4 items, reports of <= 3 lines x 3 columns: ReportFaithful must hold
CONSTANTS
  CNO = 2
  LNO = 4
  Packer = "required"
  Policy = "required"
  EofPolicy = "required"
  HeadPolicy = "required"
  Grouping = "gline"
  SrcLen = 3
  ColSeq <- ColSeqOvf
  MaxSel = 3
  FileNames = {"a", "b"}
  TopFile = "a"
  LineNames = {"b", "o"}
  LineNums = {1, 4}
  Cols = {1, 3, 4, 9}
  RunLens = {1, 2}
  MaxLines = 8
  MaxIf = 1
  MaxItems = 4
  Feat = {"line"}
  AvoidEofIf = FALSE
  AvoidCollide = FALSE
INIT Init
NEXT Next
CHECK_DEADLOCK FALSE
INVARIANT TypeOK
INVARIANT PosFaithful
INVARIANT LineIdentity
INVARIANT ReportFaithful
