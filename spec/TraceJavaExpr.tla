--------------------------- MODULE TraceJavaExpr ---------------------------
(***************************************************************************)
(* Trace validation for C12's builtin-expression family (JavaExpr.tla).    *)
(* The trace (ndjson, file named by the environment variable TRACE) has    *)
(* one event per distinct observation:                                     *)
(*   {"ev":"Eval","id":n,"who":"java-Q1,java-Q3","tree":T,"ok":b,"res":R}  *)
(*      T   the expression in the JSON form of JavaExprGen (leaves carry   *)
(*          their values: integers <<sign, d1, d2, ..>> radix 2^11)        *)
(*      who the configurations (route-level) that produced the result      *)
(*      ok  the run produced a well-formed result line for this case       *)
(*          (false: the route stopped on it -- Java exception, fault --    *)
(*          or printed something that is no value of the result type)      *)
(*      R   the printed values, in the same encoding                       *)
(* An event is judged iff its tree is a member of the family (one value    *)
(* whatever the word size, JavaExpr!Member); then the observed values must *)
(* be JavaExpr!Value(tree).  Observations of non-members are counted as    *)
(* outside (the harness only runs members, so outside > 0 means the        *)
(* generator and the validator disagree: the check treats it as a          *)
(* machinery error).  A failing event does not stop the validation: it is  *)
(* printed as REJECT {...} with the expected values.  Acceptance = the     *)
(* SUMMARY line with rejected = 0.  Run with -workers 1.                   *)
(***************************************************************************)
EXTENDS JavaExpr, Json, IOUtils

VARIABLES l, cnt

Trc == ndJsonDeserialize(IOEnv.TRACE)

DecVal(v, ty) == IF B32!IsIntType(ty) THEN Z(v[1] = 1, Tail(v)) ELSE v
RECURSIVE DecTree(_)
DecTree(j) == IF j.k = "leaf" THEN Leaf(j.t, DecVal(j.v, j.t))
              ELSE Node(j.op, [i \in 1..Len(j.args) |-> DecTree(j.args[i])])
EncVal(v, ty) == IF B32!IsIntType(ty) THEN B32!ZJ(v) ELSE v

ResTypes(t) == SigOf(t.op).res
Shaped(e, t) == /\ ~IsLeaf(t) /\ t.op \in DefOps
                /\ e.ok => Len(e.res) = Len(ResTypes(t))
Conforms(e, t) ==
  /\ e.ok
  /\ [i \in 1..Len(e.res) |-> DecVal(e.res[i], ResTypes(t)[i])] = Value(t)
Expected(t) == [i \in 1..Len(ResTypes(t)) |-> EncVal(Value(t)[i], ResTypes(t)[i])]

Init == l = 1 /\ cnt = [checked |-> 0, outside |-> 0, rejected |-> 0]

StepEval ==
  /\ l <= Len(Trc) /\ Trc[l].ev = "Eval"
  /\ LET e == Trc[l]  t == DecTree(e.tree) IN
       /\ WellTyped(t) /\ Shaped(e, t)                   \* otherwise the trace is malformed: Progress fails
       /\ IF ~Member(t) THEN /\ cnt' = [cnt EXCEPT !.outside = @ + 1]
                             /\ PrintT("OUTSIDE " \o ToJson([line |-> l, id |-> e.id]))
          ELSE IF Conforms(e, t) THEN cnt' = [cnt EXCEPT !.checked = @ + 1]
          ELSE /\ cnt' = [cnt EXCEPT !.checked = @ + 1, !.rejected = @ + 1]
               /\ PrintT("REJECT " \o ToJson([line |-> l, id |-> e.id, who |-> e.who, expected |-> Expected(t)]))
  /\ l' = l + 1

Finish ==
  /\ l = Len(Trc) + 1
  /\ PrintT("SUMMARY " \o ToJson([events |-> Len(Trc)] @@ cnt))
  /\ l' = l + 1 /\ UNCHANGED cnt

Next == StepEval \/ Finish
Spec == Init /\ [][Next]_<<l, cnt>>

(* every event is a well-formed observation of a well-typed tree: otherwise the trace blocks before SUMMARY *)
Progress == l <= Len(Trc) =>
               /\ Trc[l].ev = "Eval"
               /\ LET t == DecTree(Trc[l].tree) IN WellTyped(t) /\ Shaped(Trc[l], t)
=============================================================================
