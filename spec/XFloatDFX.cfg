SPECIFICATION Spec
CONSTANTS
  EB = 11
  FB = 52
  XEB = 15
  XFB = 64
  FracMode = "boundary"
  Origins = {"foreign"}
  MaxTrips = 1
INVARIANTS
  TypeOK
  Survives
  SurvivesBitExact
  PartsIdentity
  PartsMeaning
  FileForm
  FileDenotes
  LoadSane
CHECK_DEADLOCK FALSE
