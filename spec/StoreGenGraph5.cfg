\* Behaviour export for replay (see StoreGen.tla): with pointer fields, roots, recode; 2 size classes, depth 5
SPECIFICATION GenSpec
CONSTANTS
  Align = 1
  NRoots = 1
  PtrFreeCodes = {1}
  SlotBase = 0
  SlotBytes = 1
  MaxSlots = 1
  Depth = 5
  NSizes = 2
  GenCodes = {0, 1}
  MaxBlocks = 3
  MaxLiveGen = 3
  Stride = 16
  WithGraph = TRUE
INVARIANT GenInv
CHECK_DEADLOCK FALSE
