------------------------------ MODULE TraceDet ------------------------------
(***************************************************************************)
(* Trace validation for property C08: the Obs monitor (through TraceObs)   *)
(* over observations whose cfg field is a configuration record of          *)
(* DetCfg.tla.  Every Observe event must carry a valid configuration; an   *)
(* Observe that the monitor rejects (same input, different digest than     *)
(* the first observation) is recorded with both configurations and the     *)
(* set of axes on which they differ (DetCfg!DiffAxes).  The DET line       *)
(* printed at the end is the verdict: accepted iff `disagreements' is      *)
(* empty and `invalid' is 0.  TraceDetStrict.cfg additionally states the   *)
(* property as the invariant Functional (TLC stops at the first rejected   *)
(* Observe and prints the two configurations).                             *)
(* Event: {"ev":"Observe","input":"<file>|<kind>[:<proj>][|in-batch:<id>]", *)
(*         "kind":k,"proj":p,"cfg":{gc:{flag,k,j},aslr,cwd,env,inv,rep},    *)
(*         "digest":[w0,w1,w2,w3]}   (words < 2^31; [-1,-1,-1,-1] = the     *)
(*         output does not exist).  kind/proj name the view of the output    *)
(* that was digested: the full text ("text") or one of DetCfg!Projections;  *)
(* an event naming another view is invalid.  A rejected Observe carries     *)
(* `run' (the group / batch composition of the run, reporting only) and    *)
(* `renumbering': whether the recorded renumbering of lexicals (DetCfg!     *)
(* RenumberingMayExplain) could explain it at all -- never for a projection. *)
(***************************************************************************)
EXTENDS TraceObs, FiniteSets, Integers

CONSTANTS Ks, MaxRep
MaxBatch == 2
C == INSTANCE DetCfg WITH cfg <- <<>>, pc <- 0, batch <- <<>>      \* only its constant-level operators are used here

VARIABLES dis,      \* the rejected Observe events, in order
          invalid,  \* number of events whose cfg is not a configuration of DetCfg
          unordered \* number of events that come before an observation of the same input nearer to the baseline

DigestOk(d) == /\ Len(d) = 4
               /\ \/ \A i \in 1..4 : d[i] = -1
                  \/ \A i \in 1..4 : d[i] >= 0

SetToSeq(S) == LET RECURSIVE F(_)
                   F(T) == IF T = {} THEN <<>> ELSE LET x == CHOOSE y \in T : TRUE IN <<x>> \o F(T \ {x})
               IN F(S)

ViewOk(e) == /\ "kind" \in DOMAIN e /\ "proj" \in DOMAIN e
             /\ C!ValidView(e.kind, e.proj)

DetInit == Init /\ dis = <<>> /\ invalid = 0 /\ unordered = 0

DetObserve ==
  /\ StepObserve
  /\ LET e == Trc[l]
         ok == C!Valid(e.cfg) /\ DigestOk(e.digest) /\ ViewOk(e)
     IN /\ invalid' = IF ok THEN invalid ELSE invalid + 1
        /\ unordered' = IF ok /\ Known(e.input) /\ C!Valid(who[e.input]) /\ C!Dist(e.cfg) < C!Dist(who[e.input])
                        THEN unordered + 1 ELSE unordered
        /\ dis' = IF Agrees(e.input, e.digest) \/ ~ok THEN dis
                  ELSE Append(dis, [event |-> l, input |-> e.input,
                                    cfg |-> C!Id(e.cfg), first |-> C!Id(who[e.input]),
                                    axes |-> SetToSeq(C!DiffAxes(who[e.input], e.cfg)),
                                    kind |-> e.kind, proj |-> e.proj, run |-> IF "run" \in DOMAIN e THEN e.run ELSE "",
                                    renumbering |-> C!RenumberingMayExplain(e.kind, e.proj, C!DiffAxes(who[e.input], e.cfg)),
                                    image |-> IF C!SameImage(who[e.input], e.cfg) THEN "same" ELSE "differs"])

DetReset  == StepReset /\ UNCHANGED <<dis, invalid, unordered>>

DetFinish == /\ l = Len(Trc) + 1
             /\ PrintT("DET " \o ToJson([events |-> Len(Trc), inputs |-> Cardinality(DOMAIN seen),
                                          invalid |-> invalid, disagreements |-> dis]))
             /\ l' = l + 1 /\ UNCHANGED <<seen, who, bad, dis, invalid, unordered>>

DetNext == DetObserve \/ DetReset \/ DetFinish
DetSpec == DetInit /\ [][DetNext]_<<l, seen, who, bad, dis, invalid, unordered>>

ValidCfgs  == invalid = 0
(* the reported `first' of an input is its observation nearest to the baseline (the harness feeds them in that order), *)
(* so that the axes named in a report are as few as the runs allow                                                    *)
NearestFirst == unordered = 0
(* the monitor's own guarantee: what was seen first for an input is never replaced *)
FirstStays == [][\A i \in DOMAIN who : i \in DOMAIN who' => who'[i] = who[i]]_<<who>>
=============================================================================
