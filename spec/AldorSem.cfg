SPECIFICATION ExportSpec
CONSTANTS
  Modes = {"ltr", "rtl"}
  Fuel = 4000
INVARIANT NoStuck
CHECK_DEADLOCK FALSE
