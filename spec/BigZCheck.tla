----------------------------- MODULE BigZCheck -----------------------------
(***************************************************************************)
(* Guards the oracle.  BigZ.tla is the mathematical reference of C11 (and  *)
(* C04, C01): every verdict of TraceBigInt is a BigZ computation.  Here    *)
(* TLC compares every BigZ operator with TLC's native (32-bit) integers:   *)
(*   - exhaustively over all pairs of Small = -N..N (N = 300 in the cfg),  *)
(*   - over all pairs of Sel, values up to 30 bits around powers of two    *)
(*     and around the digit boundaries B, B^2 of the BigZ radix.           *)
(* One state per left operand, reached through G group states so that the *)
(* work is spread over the TLC workers (initial states alone would be      *)
(* evaluated by one thread); the invariant quantifies over the right       *)
(* operand.                                                                *)
(***************************************************************************)
EXTENDS BigZ, TLC

CONSTANT N
VARIABLES ph, a

Small == (-N)..N

P2(k) == Pow2[k]
Sel == LET pos == UNION {{P2(k) - 2, P2(k) - 1, P2(k), P2(k) + 1, P2(k) + 2} : k \in {7, 10, 11, 12, 16, 21, 22, 23, 29}}
                   \cup {P2(30) - 2, P2(30) - 1, 123456789, 1000000007, 999999999, 715827882, 357913941,
                         2047 * 2048 + 2047, 2048 * 2048 - 1, 2048 * 2048, 2048 * 2048 + 1, 255 * 2048 * 2048 + 5}
       IN pos \cup {-x : x \in pos}

---------------------------------------------------------------------------
(* native reference operators                                              *)
NAbs(n) == IF n < 0 THEN -n ELSE n
NSign(n) == IF n < 0 THEN -1 ELSE IF n = 0 THEN 0 ELSE 1
NQuo(x, y) == NSign(x) * NSign(y) * (NAbs(x) \div NAbs(y))        \* truncated toward zero
NRem(x, y) == x - NQuo(x, y) * y
NModPos(x, y) == x % NAbs(y)                                      \* TLA+ % is non-negative for a positive modulus
RECURSIVE NGcd(_, _)
NGcd(x, y) == IF y = 0 THEN NAbs(x) ELSE NGcd(y, NAbs(x) % NAbs(y))
RECURSIVE NBitLen(_)
NBitLen(n) == IF n = 0 THEN 0 ELSE 1 + NBitLen(n \div 2)
RECURSIVE NDigits(_, _)
NDigits(n, r) == IF n < r THEN <<n>> ELSE Append(NDigits(n \div r, r), n % r)   \* most significant first
NCmp(x, y) == IF x < y THEN -1 ELSE IF x > y THEN 1 ELSE 0
NFloorDiv(x, d) == x \div d                                        \* TLA+ \div is floor for d > 0
RECURSIVE NPowMod(_, _, _)
NPowMod(x, e, m) == IF e = 0 THEN 1 % m ELSE ((x % m) * NPowMod(x, e - 1, m)) % m

ToInt(z) == IF z.neg THEN -MToNat(z.mag) ELSE MToNat(z.mag)
MaxI == P2(30) + (P2(30) - 1)                                     \* 2^31 - 1
MulFits(x, y) == x = 0 \/ y = 0 \/ NAbs(x) <= MaxI \div NAbs(y)

Radices == {2, 3, 7, 10, 16, 36}
Shifts == {0, 1, 2, 5, 10, 11, 12, 21, 22, 23, 29, 30}

---------------------------------------------------------------------------
Good(z, n) == IsZ(z) /\ Len(z.mag) <= 3 /\ ToInt(z) = n

Unary(x) ==
  LET X == FromInt(x) IN
  /\ Good(X, x)
  /\ Good(Neg(X), -x) /\ Good(Abs(X), NAbs(x))
  /\ Sign(X) = NSign(x) /\ IsZero(X) = (x = 0)
  /\ BitLen(X) = NBitLen(NAbs(x))
  /\ \A r \in Radices :
       /\ MToDigits(X.mag, r) = NDigits(NAbs(x), r)
       /\ MFromDigits(NDigits(NAbs(x), r), r) = X.mag
       /\ MFromDigitsFast(NDigits(NAbs(x), r), r) = X.mag
       /\ MFromDigitsFast(<<0, 0, 0>> \o NDigits(NAbs(x), r), r) = X.mag
  /\ \A k \in Shifts :
       /\ (NBitLen(NAbs(x)) + k <= 30 => Good(Shl(X, k), x * P2(k)))
       /\ Good(ShrFloor(X, k), NFloorDiv(x, P2(k)))
       /\ Good(ShrMag(X, k), NSign(x) * (NAbs(x) \div P2(k)))
       /\ Good(ModPow2(X, k), x % P2(k))
       /\ BitMag(X, k) = (NAbs(x) \div P2(k)) % 2
       /\ BitTwos(X, k) = NFloorDiv(x, P2(k)) % 2
       /\ Good(Z(FALSE, MLowBits(X.mag, k)), NAbs(x) % P2(k))
  /\ (NAbs(x) < P2(21)) =>
     Good(Z(FALSE, MFromRadixPow2(NDigits(NAbs(x), 128), 7)),
          LET ds == NDigits(NAbs(x), 128)     \* read the base-128 digits as little endian
          IN FoldLeft(LAMBDA acc, j : acc * 128 + ds[Len(ds) + 1 - j], 0, Ix(1, Len(ds))))
  /\ \A d \in {1, 2, 3, 10, 1000, 2047, 2048, 2049, 100000} :
       /\ (MulFits(NAbs(x), d) => Good(Z(FALSE, MMulSmall(X.mag, d)), NAbs(x) * d))
       /\ (MulFits(NAbs(x), d) /\ NAbs(x) * d <= MaxI - 99999 => Good(Z(FALSE, MMulAddSmall(X.mag, d, 99999)), NAbs(x) * d + 99999))
       /\ Good(Z(FALSE, MDivSmall(X.mag, d).q), NAbs(x) \div d)
       /\ MDivSmall(X.mag, d).r = NAbs(x) % d

Binary(x, y) ==
  LET X == FromInt(x)  Y == FromInt(y) IN
  /\ Cmp(X, Y) = NCmp(x, y) /\ Eq(X, Y) = (x = y) /\ Lt(X, Y) = (x < y) /\ Le(X, Y) = (x <= y)
  /\ Good(Add(X, Y), x + y)
  /\ Good(Sub(X, Y), x - y)
  /\ (MulFits(x, y) => Good(Mul(X, Y), x * y))
  /\ (y # 0 => /\ Good(QuoRem(X, Y).q, NQuo(x, y))
               /\ Good(QuoRem(X, Y).r, NRem(x, y))
               /\ Good(ModPos(X, Y), NModPos(x, y)))
  /\ Good(Gcd(X, Y), NGcd(x, y))

(* powers: small bases and exponents, native arithmetic must not overflow  *)
Powers(x) ==
  LET X == FromInt(x) IN
  /\ \A e \in 0..4 : (NAbs(x) <= 200 => Good(PowNat(X, e), PowSmall(x, e)))
  /\ (NAbs(x) <= 40 =>
        \A e \in {0, 1, 2, 3, 6, 13} : \A m \in {1, 2, 3, 7, 10, 97, 1000, -97} :
           Good(PowModPos(X, FromInt(e), FromInt(m)), NPowMod(x % NAbs(m), e, NAbs(m))))

CheckA ==
  /\ Unary(a)
  /\ Powers(a)
  /\ (a \in Small => \A b \in Small : Binary(a, b))
  /\ (a \in Sel => \A b \in Sel : Binary(a, b))

(* a value wider than TLC's integers, to make sure that the digit code is  *)
(* really independent of the native range: (2^100+1)*(2^100-1) = 2^200-1   *)
Wide ==
  LET p == Pow2Z(100)
      m == Mul(Add(p, One), Sub(p, One))
  IN /\ Eq(m, Sub(Pow2Z(200), One))
     /\ BitLen(m) = 200
     /\ Eq(QuoRem(m, Add(p, One)).q, Sub(p, One)) /\ IsZero(QuoRem(m, Add(p, One)).r)
     /\ Eq(Gcd(m, Sub(Pow2Z(150), One)), Sub(Pow2Z(50), One))        \* gcd(2^200-1, 2^150-1) = 2^50-1
     /\ MFromDigitsFast(MToDigits(m.mag, 10), 10) = m.mag
     /\ Len(MToDigits(m.mag, 10)) = 61
     /\ Eq(PowNat(FromInt(-3), 40), Z(FALSE, MFromDigits(<<1,2,1,5,7,6,6,5,4,5,9,0,5,6,9,2,8,8,0,1>>, 10)))
ASSUME Wide

G == 64
Init == ph = 0 /\ a = 0
Next == \/ ph = 0 /\ ph' = 1 /\ a' \in 0..(G - 1)
        \/ ph = 1 /\ ph' = 2 /\ a' \in {v \in Small \cup Sel : v % G = a}
        \/ ph = 2 /\ UNCHANGED <<ph, a>>
Check == ph = 2 => CheckA
=============================================================================
