------------------------------- MODULE Word -------------------------------
(***************************************************************************)
(* W-bit two's-complement machine words on top of BigZ.                    *)
(*                                                                         *)
(* A word value is a BigZ integer z with -2^(W-1) <= z < 2^(W-1) (signed   *)
(* view, used for SInt/HInt) or 0 <= z < 2^W (unsigned view, used for      *)
(* Byte/Word/Char).  The width W is an *argument* of every operator, so    *)
(* one specification can speak about 64-bit SInt, 16-bit HInt and 8-bit    *)
(* Byte at the same time, and the same text is checked exhaustively at     *)
(* W = 8 against TLC's native integers (WordCheck.tla).                    *)
(*                                                                         *)
(* and/or/xor/not work on the radix-2^11 digit vectors of the unsigned     *)
(* view (Bitwise community module on single digits), never through         *)
(* arithmetic identities; the identities are what WordCheck verifies.      *)
(***************************************************************************)
EXTENDS BigZ, Bitwise

SMin(W) == Neg(Pow2Z(W - 1))
SMax(W) == Sub(Pow2Z(W - 1), One)
UMax(W) == Sub(Pow2Z(W), One)
InS(z, W) == Le(SMin(W), z) /\ Le(z, SMax(W))
InU(z, W) == ~z.neg /\ BitLen(z) <= W

(* unsigned and signed views of an arbitrary integer, modulo 2^W            *)
UWrap(z, W) == ModPow2(z, W)
SWrap(z, W) == LET u == UWrap(z, W)
               IN IF MBit(u.mag, W - 1) = 1 THEN Sub(u, Pow2Z(W)) ELSE u

---------------------------------------------------------------------------
(* Arithmetic: exact result, then wrap.                                     *)
WPlus(x, y, W)   == SWrap(Add(x, y), W)
WMinus(x, y, W)  == SWrap(Sub(x, y), W)
WTimes(x, y, W)  == SWrap(Mul(x, y), W)
WNegate(x, W)    == SWrap(Neg(x), W)
WTimesPlus(x, y, z, W) == SWrap(Add(Mul(x, y), z), W)

(* Division truncates toward zero; the remainder has the dividend's sign.   *)
(* Defined for y # 0 and (x, y) # (SMin, -1) (the quotient 2^(W-1) is not   *)
(* a W-bit value and the hardware traps).                                   *)
DivDefined(x, y, W) == ~IsZero(y) /\ ~(Eq(x, SMin(W)) /\ Eq(y, Neg(One)))
WQuo(x, y) == QuoRem(x, y).q
WRem(x, y) == QuoRem(x, y).r

WGcd(x, y, W) == SWrap(Gcd(x, y), W)        \* gcd(SMin, 0) = 2^(W-1) wraps

---------------------------------------------------------------------------
(* Bit operations on the unsigned view, digit by digit.                     *)
NDig(W)    == (W + LgB - 1) \div LgB
TopBits(W) == W - (NDig(W) - 1) * LgB                 \* bits in the top digit, 1..11
TopMask(W) == Pow2[TopBits(W)] - 1

UDigits(x, W) == LET u == UWrap(x, W).mag IN [i \in 1..NDig(W) |-> Dig(u, i)]
OfDigits(ds, W) == SWrap(Z(FALSE, MNorm(ds)), W)

WAnd(x, y, W) == LET a == UDigits(x, W)  b == UDigits(y, W)
                 IN OfDigits([i \in 1..NDig(W) |-> a[i] & b[i]], W)
WOr(x, y, W)  == LET a == UDigits(x, W)  b == UDigits(y, W)
                 IN OfDigits([i \in 1..NDig(W) |-> a[i] | b[i]], W)
WXor(x, y, W) == LET a == UDigits(x, W)  b == UDigits(y, W)
                 IN OfDigits([i \in 1..NDig(W) |-> a[i] ^^ b[i]], W)
WNot(x, W)    == LET a == UDigits(x, W)
                 IN OfDigits([i \in 1..NDig(W) |->
                                 IF i = NDig(W) THEN a[i] ^^ TopMask(W) ELSE a[i] ^^ (B - 1)], W)

(* bit k of the two's-complement pattern, 0 <= k < W                        *)
WBit(x, k, W) == MBit(UWrap(x, W).mag, k) = 1

(* shifts, 0 <= k < W: left shift drops the bits that leave the word;       *)
(* right shift is arithmetic (sign extending) = floor(x / 2^k)              *)
WShl(x, k, W) == SWrap(Shl(x, k), W)
WShr(x, k)    == ShrFloor(x, k)
(* logical right shift of the unsigned view                                  *)
WShrU(x, k, W) == ShrFloor(UWrap(x, W), k)

(* number of bits of |x|; Length(SMin) = W, Length(0) = 0                    *)
WLength(x) == BitLen(x)

WIsEven(x) == MBit(x.mag, 0) = 0         \* parity of |x| = parity of x
WIsOdd(x)  == MBit(x.mag, 0) = 1

(* sign/zero extension and truncation between widths                        *)
WNarrowS(x, W2) == SWrap(x, W2)
WNarrowU(x, W2) == UWrap(x, W2)

---------------------------------------------------------------------------
(* Double-word unsigned operations (Word builtins).  All values unsigned.    *)
UTimesDouble(a, b, W) ==          \* <<hi, lo>> with a*b = hi*2^W + lo
  LET p == Mul(a, b) IN <<ShrFloor(p, W), UWrap(p, W)>>
UDivideDoubleDefined(nhi, nlo, d, W) == ~IsZero(d)
UDivideDouble(nhi, nlo, d, W) ==  \* <<qhi, qlo, r>> with nhi*2^W + nlo = (qhi*2^W + qlo)*d + r
  LET n == Add(Shl(nhi, W), nlo)  qr == QuoRem(n, d)
  IN <<ShrFloor(qr.q, W), UWrap(qr.q, W), qr.r>>
UPlusStep(a, b, kin, W) ==        \* <<kout, r>> with a + b + kin = kout*2^W + r
  LET s == Add(Add(a, b), kin) IN <<ShrFloor(s, W), UWrap(s, W)>>
UTimesStep(a, b, c, kin, W) ==    \* <<kout, r>> with a*b + c + kin = kout*2^W + r
  LET s == Add(Add(Mul(a, b), c), kin) IN <<ShrFloor(s, W), UWrap(s, W)>>

---------------------------------------------------------------------------
(* Conversion between small TLC integers and words (checks, tables).         *)
ToInt(z) == IF z.neg THEN -MToNat(z.mag) ELSE MToNat(z.mag)     \* |z| < 2^31

=============================================================================
