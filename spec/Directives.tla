----------------------------- MODULE Directives -----------------------------
(***************************************************************************)
(* C07, input class (b), directive soups: every sequence of at most MaxLen  *)
(* lines over a small alphabet of includer / system-command lines, and what *)
(* the specification certifies about it.                                    *)
(*                                                                          *)
(* Alphabet (the text of each line is chosen by gen/c07_inputs.py; every    *)
(* soup starts with the fixed line `#assert t`):                            *)
(*   IFT IFF IFQ      #if t / #if f / #if q     (t asserted, f never, q by  *)
(*   ELIFT ELIFF      #elseif t / #elseif f      ASSERTQ / UNASSERTQ)       *)
(*   ELSE ENDIF       #else / #endif                                        *)
(*   ASSERTQ UNASSERTQ                                                      *)
(*   OK               a comment line                                        *)
(*   BAD              a line with an unterminated string (Scan: error token) *)
(*   MISSING          #include of a file that does not exist                *)
(*   ERROR            #error text                                           *)
(*   QUIT             #quit                                                 *)
(*                                                                          *)
(* The #if machine is include.c's (inclHandleIf/Elseif/Else/Endif with the  *)
(* states NoIf, ActiveIf, InactiveIf, FormerlyActiveIf; a line counts when  *)
(* INCLUDING(ifState)).  Certificates of invalidity:                        *)
(*   "if-balance"  #elseif/#else/#endif outside #if, or end of file in #if  *)
(*   "errtok"      an active BAD line                                       *)
(*   "include"     an active MISSING line                                   *)
(*   "error"       an active ERROR line                                     *)
(* Required reading of #quit: the text ends there (nothing after it is      *)
(* looked at), what stands before it is judged as usual.  AsRead is what    *)
(* the code does (the includer sees the whole file before #quit is acted    *)
(* on in the syscmd phase, which ends the process before the parser runs):  *)
(* implementation-shaped, exported for the keys of findings only.           *)
(***************************************************************************)
EXTENDS Naturals, Sequences, SequencesExt, FiniteSets, TLC, Json

CONSTANTS MaxLen, ShardLen, NShards, ShardNo,   \* as in Total.tla
          Export

Alphabet == << "IFT", "IFF", "IFQ", "ELIFT", "ELIFF", "ELSE", "ENDIF", "ASSERTQ", "UNASSERTQ",
               "OK", "BAD", "MISSING", "ERROR", "QUIT" >>

VARIABLE ls
NA       == Len(Alphabet)
Strs(n)  == {[i \in 1..n |-> Alphabet[f[i]]] : f \in [1..n -> 1..NA]}
Code(a)  == CHOOSE k \in 1..NA : Alphabet[k] = a
Idx(s)   == FoldLeft(LAMBDA a, c : a * NA + (Code(c) - 1), 0, s)
Starts   == {s \in Strs(ShardLen) : Idx(s) % NShards = ShardNo}
            \cup (IF ShardNo = 0 THEN UNION {Strs(n) : n \in 0..(ShardLen - 1)} ELSE {})

Init == ls \in Starts
Next == /\ Len(ls) < MaxLen /\ Len(ls) >= ShardLen
        /\ \E a \in 1..Len(Alphabet) : ls' = Append(ls, Alphabet[a])
Spec == Init /\ [][Next]_ls

---------------------------------------------------------------------------
Including(st) == st \in {"NoIf", "ActiveIf"}
Top(stk)      == stk[Len(stk)]
SetTop(stk, s) == [stk EXCEPT ![Len(stk)] = s]
Pop(stk)      == SubSeq(stk, 1, Len(stk) - 1)

\* one line; acc = [stk, q (is q asserted), errs (certificates so far), quit (an active #quit was met)]
Step(acc, ln, stopAtQuit) ==
  LET st  == Top(acc.stk)
      inc == Including(st)
      holds(pr) == pr = "t" \/ (pr = "q" /\ acc.q)
      doIf(pr) == [acc EXCEPT !.stk = Append(acc.stk, IF inc THEN (IF holds(pr) THEN "ActiveIf" ELSE "InactiveIf")
                                                       ELSE "FormerlyActiveIf")]
      doElif(pr) == IF st = "NoIf" THEN [acc EXCEPT !.errs = @ \cup {"if-balance"}]
                    ELSE IF st = "InactiveIf" THEN (IF holds(pr) THEN [acc EXCEPT !.stk = SetTop(acc.stk, "ActiveIf")] ELSE acc)
                    ELSE [acc EXCEPT !.stk = SetTop(acc.stk, "FormerlyActiveIf")]
      with(c) == [acc EXCEPT !.errs = @ \cup {c}]
  IN IF acc.quit /\ stopAtQuit THEN acc
     ELSE CASE ln = "IFT"   -> doIf("t")
            [] ln = "IFF"   -> doIf("f")
            [] ln = "IFQ"   -> doIf("q")
            [] ln = "ELIFT" -> doElif("t")
            [] ln = "ELIFF" -> doElif("f")
            [] ln = "ELSE"  -> IF st = "NoIf" THEN with("if-balance")
                               ELSE IF st = "ActiveIf" THEN [acc EXCEPT !.stk = SetTop(acc.stk, "InactiveIf")]
                               ELSE IF st = "InactiveIf" THEN [acc EXCEPT !.stk = SetTop(acc.stk, "ActiveIf")]
                               ELSE acc
            [] ln = "ENDIF" -> IF st = "NoIf" THEN with("if-balance") ELSE [acc EXCEPT !.stk = Pop(acc.stk)]
            [] ln = "ASSERTQ"   -> IF inc THEN [acc EXCEPT !.q = TRUE] ELSE acc
            [] ln = "UNASSERTQ" -> IF inc THEN [acc EXCEPT !.q = FALSE] ELSE acc
            [] ln = "OK"      -> acc
            [] ln = "BAD"     -> IF inc THEN with("errtok") ELSE acc
            [] ln = "MISSING" -> IF inc THEN with("include") ELSE acc
            [] ln = "ERROR"   -> IF inc THEN with("error") ELSE acc
            [] ln = "QUIT"    -> IF inc THEN [acc EXCEPT !.quit = TRUE] ELSE acc

Run(lines, stopAtQuit) ==
  LET a == FoldLeft(LAMBDA acc, ln : Step(acc, ln, stopAtQuit),
                    [stk |-> <<"NoIf">>, q |-> FALSE, errs |-> {}, quit |-> FALSE], lines)
  IN  [a EXCEPT !.errs = IF Len(a.stk) > 1 /\ ~(a.quit /\ stopAtQuit) THEN @ \cup {"if-balance"} ELSE @]

\* required: the text ends at an active #quit
DCert(lines) == Run(lines, TRUE).errs

\* as written: the includer reads everything (balance and missing includes are reported whatever follows); #error
\* lines are acted on in order until the #quit; the parser, which would report the error token, never runs after a #quit
DAsRead(lines) ==
  LET all == Run(lines, FALSE)
      upto == Run(lines, TRUE)
  IN  (all.errs \cap {"if-balance", "include"})
      \cup (upto.errs \cap {"error"})
      \cup (IF all.quit THEN {} ELSE all.errs \cap {"errtok"})

Names == <<"if-balance", "errtok", "include", "error">>
ToSeq(S) == SelectSeq(Names, LAMBDA x : x \in S)
HasQuit(lines) == Run(lines, FALSE).quit

Exported == Export => PrintT("DIR " \o ToJson([l |-> ls, c |-> ToSeq(DCert(ls)), r |-> ToSeq(DAsRead(ls)),
                                               f |-> IF HasQuit(ls) THEN <<"quit">> ELSE <<>>]))

\* design-level: without an active #quit the two readings coincide; the required one never certifies more than
\* the whole-file reading has
QuitOnly  == ~HasQuit(ls) => DAsRead(ls) = DCert(ls)
Monotone  == DCert(ls) \ {"if-balance"} \subseteq Run(ls, FALSE).errs
StackOK   == Len(Run(ls, FALSE).stk) >= 1
=============================================================================
