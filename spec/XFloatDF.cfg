SPECIFICATION Spec
CONSTANTS
  EB = 11
  FB = 52
  XEB = 15
  XFB = 64
  FracMode = "lite"
  Origins = {"native"}
  MaxTrips = 2
INVARIANTS
  TypeOK
  Survives
  SurvivesBitExact
  PartsIdentity
  PartsMeaning
  FileForm
  FileDenotes
  LoadSane
CHECK_DEADLOCK FALSE
