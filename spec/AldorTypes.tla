----------------------------- MODULE AldorTypes -----------------------------
(***************************************************************************)
(* Static semantics of the abstract programs of AldorSem.tla: WellTyped(p) *)
(* is evaluated by TLC on every generated program (so a generator defect   *)
(* is a machinery error, never a verdict about the compiler) and on every  *)
(* planted-fault mutant of C06 (so the verdict "this mutant must be        *)
(* rejected" comes from the typing rules, not from the mutation catalogue).*)
(*                                                                         *)
(* Types are tuples: <<"si">> <<"bi">> <<"bool">> <<"str">> <<"unit">>     *)
(* <<"list", t>> <<"arr", t>> <<"rec", i>> <<"un", i>> <<"fn", ts, t>>      *)
(* <<"gen", t>>; the typed export of gen/typed.py adds a field `ty` to     *)
(* literals and normalises every type field to this form.                  *)
(***************************************************************************)
EXTENDS Naturals, Sequences, TLC, Json, IOUtils, FiniteSets, SequencesExt

Progs == ndJsonDeserialize(IOEnv.PROGS)

SI == <<"si">>  BI == <<"bi">>  BOOL == <<"bool">>  STR == <<"str">>  UNIT == <<"unit">>
ERR == <<"error">>
ANY == <<"any">>          \* the type of break / iterate / return / error: fits everywhere

Ok(t) == t # ERR
(* a value of type a is acceptable where b is required *)
Fits(a, b) == Ok(a) /\ Ok(b) /\ (a = b \/ a = ANY)
Join(a, b) == IF a = ANY THEN b ELSE IF b = ANY THEN a ELSE IF a = b THEN a ELSE ERR

(* The renderer spells the library operations with Aldor's overloaded operators, so the      *)
(* typing of an application follows the operator (field `fam`, the part of the abstract       *)
(* operation name after the dot) and the operand types, as the compiler sees it:              *)
(*   + - * quo rem mod : (T, T) -> T        T in {SI, BI}                                      *)
(*   unary -           : T -> T             T in {SI, BI}                                      *)
(*   < <= > >=         : (T, T) -> Boolean  T in {SI, BI, Boolean}                             *)
(*   = ~=              : (T, T) -> Boolean  T in {SI, BI, Boolean, String}                     *)
(*   x :: Integer      : T -> BI            T in {SI, BI}                                      *)
(*   a ^ (n :: Integer): (T, U) -> T        T, U in {SI, BI}                                   *)
(*   not               : Boolean -> Boolean                                                    *)
(* (each line was confirmed against the unchanged compiler with hand-written probes)           *)
Num == {SI, BI}
PrimType(fam, ts) ==
  CASE fam \in {"add", "sub", "mul", "quo", "rem", "mod"} ->
         IF Len(ts) = 2 /\ ts[1] \in Num /\ ts[2] = ts[1] THEN ts[1] ELSE ERR
    [] fam \in {"and", "or", "xor"} -> IF Len(ts) = 2 /\ ts[1] = SI /\ ts[2] = SI THEN SI ELSE ERR     \* /\ \/ xor on SingleInteger
    [] fam = "neg" -> IF Len(ts) = 1 /\ ts[1] \in Num THEN ts[1] ELSE ERR
    [] fam \in {"lt", "le", "gt", "ge"} ->
         IF Len(ts) = 2 /\ ts[1] \in Num \cup {BOOL} /\ ts[2] = ts[1] THEN BOOL ELSE ERR
    [] fam \in {"eq", "ne"} ->
         IF Len(ts) = 2 /\ ts[1] \in Num \cup {BOOL, STR} /\ ts[2] = ts[1] THEN BOOL ELSE ERR
    [] fam \in {"odd", "even", "zero"} -> IF Len(ts) = 1 /\ ts[1] \in Num THEN BOOL ELSE ERR
    [] fam = "tobi" -> IF Len(ts) = 1 /\ ts[1] \in Num THEN BI ELSE ERR
    [] fam = "pow" -> IF Len(ts) = 2 /\ ts[1] \in Num /\ ts[2] \in Num THEN ts[1] ELSE ERR
    [] fam = "not" -> IF Len(ts) = 1 /\ ts[1] = BOOL THEN BOOL ELSE ERR
    [] fam = "cat" -> IF Len(ts) = 2 /\ ts[1] = STR /\ ts[2] = STR THEN STR ELSE ERR        \* concat(s, t)
    [] fam = "len" -> IF Len(ts) = 1 /\ ts[1] = STR THEN SI ELSE ERR                        \* #s
    [] OTHER -> ERR

(* Context: G variables (name -> [t, asg]), ret: return type or ERR (no return allowed),  *)
(* loop: inside a loop, yl: yield type or ERR.                                              *)
Ctx(G, ret, loop, yl) == [G |-> G, ret |-> ret, loop |-> loop, yl |-> yl, cat |-> 0, pcat |-> 0]
BindV(C, x, t, asg) == [C EXCEPT !.G = (x :> [t |-> t, asg |-> asg]) @@ C.G]

(* the value types an exception carries: <<>> for a plain one *)
ExnPayload(P, ex) ==
  IF "exnp" \notin DOMAIN P THEN <<>>
  ELSE LET m == {i \in 1..Len(P.exnp) : P.exnp[i].exn = ex} IN
       IF m = {} THEN <<>> ELSE <<P.exnp[CHOOSE i \in m : TRUE].t>>
BindPs(C, ps, ts) == [C EXCEPT !.G = [n \in {ps[i] : i \in 1..Len(ps)} |->
                                       [t |-> ts[CHOOSE i \in 1..Len(ps) : ps[i] = n], asg |-> FALSE]] @@ C.G]

AllFit(ts, want) == Len(ts) = Len(want) /\ \A i \in 1..Len(ts) : Fits(ts[i], want[i])

FindOp(seq, name) == LET m == {i \in 1..Len(seq) : seq[i].name = name} IN IF m = {} THEN 0 ELSE CHOOSE i \in m : TRUE
(* the category a domain expression belongs to (0 = ill-formed) *)
RECURSIVE DomCat(_, _, _)
DomCat(dx, C, P) ==
  CASE dx.d = "base"  -> IF dx.i \in 1..Len(P.doms) /\ P.doms[dx.i].pcat = 0 THEN P.doms[dx.i].cat ELSE 0
    [] dx.d = "app"   -> IF dx.i \in 1..Len(P.doms) /\ P.doms[dx.i].pcat # 0 /\ dx.arg.d \in {"base", "app"}
                            /\ DomCat(dx.arg, C, P) = P.doms[dx.i].pcat THEN P.doms[dx.i].cat ELSE 0
    [] dx.d = "self"  -> C.cat
    [] dx.d = "param" -> C.pcat
    [] OTHER -> 0

RECURSIVE TypeOf(_, _, _), TypeSeq(_, _, _, _), TypesOf(_, _, _)

(* does the call x (positional argument types ts, keyword arguments x.kw) fit function f?  Every parameter after the     *)
(* positional ones is named by exactly one keyword argument of fitting type or has a default value (f.defs[i] # none)  *)
HasDefault(f, i) == "defs" \in DOMAIN f /\ f.defs[i].e # "none"
CallFits(x, ts, f, C, P) ==
  LET n == Len(f.pts) np == Len(ts) kws == IF "kw" \in DOMAIN x THEN x.kw ELSE <<>> IN
  IF kws = <<>> /\ np = n THEN AllFit(ts, f.pts)
  ELSE /\ np <= n /\ (\A i \in 1..np : Fits(ts[i], f.pts[i]))
       /\ (\A k \in 1..Len(kws) : \E i \in (np + 1)..n : f.ps[i] = kws[k].p /\ Fits(TypeOf(kws[k].v, C, P), f.pts[i]))
       /\ (\A k1, k2 \in 1..Len(kws) : kws[k1].p = kws[k2].p => k1 = k2)
       /\ (\A i \in (np + 1)..n : (\E k \in 1..Len(kws) : kws[k].p = f.ps[i]) \/ HasDefault(f, i))
(* the filter of `for x in s | c`: a Boolean over the loop variable *)
FiltOk(x, C1, P) == ("filt" \notin DOMAIN x) \/ x.filt.e = "none" \/ Fits(TypeOf(x.filt, C1, P), BOOL)
TypesOf(es, C, P) == [i \in 1..Len(es) |-> TypeOf(es[i], C, P)]

(* the elements of { e1; ...; en }: every element must be typable; an exit `c => v` needs a  *)
(* Boolean c and a v that fits the value type of the sequence                                 *)
TypeSeq(es, want, C, P) ==
  IF Len(es) = 0 THEN UNIT
  ELSE LET h == es[1] IN
       IF h.e = "exit"
       THEN IF Fits(TypeOf(h.c, C, P), BOOL) /\ (want = UNIT \/ Fits(TypeOf(h.v, C, P), want)) /\ Ok(TypeOf(h.v, C, P))
            THEN (IF Len(es) = 1 THEN UNIT ELSE TypeSeq(Tail(es), want, C, P)) ELSE ERR
       ELSE LET t == TypeOf(h, C, P) IN
            IF ~Ok(t) THEN ERR
            ELSE IF Len(es) = 1 THEN t ELSE TypeSeq(Tail(es), want, C, P)

TypeOf(x, C, P) ==
  LET e == x.e IN
  CASE e = "lit"  -> x.ty
    [] e = "bool" -> BOOL
    [] e = "str"  -> STR
    [] e = "unit" -> UNIT
    [] e = "var"  -> IF x.x \in DOMAIN C.G THEN C.G[x.x].t ELSE ERR
    [] e = "prim" -> LET ts == TypesOf(x.args, C, P) IN
                     IF \A i \in 1..Len(ts) : Ok(ts[i]) /\ ts[i] # ANY THEN PrimType(x.fam, ts) ELSE ERR
    [] e = "if" ->
         LET c == TypeOf(x.c, C, P) a == TypeOf(x.a, C, P) b == TypeOf(x.b, C, P) IN
         IF ~Fits(c, BOOL) \/ ~Ok(a) \/ ~Ok(b) THEN ERR
         ELSE IF x.t = UNIT THEN UNIT ELSE IF Fits(a, x.t) /\ Fits(b, x.t) THEN x.t ELSE ERR
    [] e \in {"and", "or"} -> IF Fits(TypeOf(x.a, C, P), BOOL) /\ Fits(TypeOf(x.b, C, P), BOOL) THEN BOOL ELSE ERR
    [] e = "seq" -> LET t == TypeSeq(x.es, x.t, C, P) IN
                    IF ~Ok(t) THEN ERR ELSE IF x.t = UNIT THEN UNIT ELSE IF Fits(t, x.t) THEN x.t ELSE ERR
    [] e = "asg" -> IF x.x \in DOMAIN C.G /\ C.G[x.x].asg /\ Fits(TypeOf(x.v, C, P), C.G[x.x].t) THEN C.G[x.x].t ELSE ERR
    [] e = "let" -> IF Fits(TypeOf(x.v, C, P), x.t) THEN TypeOf(x.body, BindV(C, x.x, x.t, TRUE), P) ELSE ERR
    \* several values: <<"tup", <<t1, .., tn>>>>; a multiple assignment needs n distinct assignable variables of fitting types
    \* [body for x in src | cond] : List(T) where body : T; x is a constant of the element type (SI for a segment lo..hi; src a list or a generator)
    [] e = "collect" ->
         LET et == IF x.src.e = "range"
                   THEN (IF Fits(TypeOf(x.src.lo, C, P), SI) /\ Fits(TypeOf(x.src.hi, C, P), SI) THEN SI ELSE ERR)
                   ELSE LET st == TypeOf(x.src, C, P) IN IF Ok(st) /\ st[1] \in {"list", "gen"} THEN st[2] ELSE ERR
             C1 == BindV(C, x.x, et, FALSE)
         IN IF Ok(et) /\ (x.cond.e = "none" \/ Fits(TypeOf(x.cond, C1, P), BOOL))
               /\ x.t[1] = "list" /\ Fits(TypeOf(x.body, C1, P), x.t[2])
            THEN x.t ELSE ERR
    \* domains with a private representation (P.adts[k+1] = [name, rep, ops]); values have type <<"adt", k>>;
    \* per : Rep -> % and rep : % -> Rep exist inside the domain's own operations only (marker "%adt" in the context)
    [] e = "acall" ->
         IF "adts" \in DOMAIN P /\ x.adt + 1 \in 1..Len(P.adts)
         THEN LET A == P.adts[x.adt + 1] i == FindOp(A.ops, x.op) IN
              IF i # 0 /\ AllFit(TypesOf(x.args, C, P), A.ops[i].pts) THEN A.ops[i].rt ELSE ERR
         ELSE ERR
    [] e = "per" -> IF "%adt" \in DOMAIN C.G /\ C.G["%adt"].t = <<"adt", x.adt>> /\ Fits(TypeOf(x.v, C, P), P.adts[x.adt + 1].rep)
                    THEN <<"adt", x.adt>> ELSE ERR
    [] e = "rep" -> IF "%adt" \in DOMAIN C.G /\ C.G["%adt"].t = <<"adt", x.adt>> /\ TypeOf(x.v, C, P) = <<"adt", x.adt>>
                    THEN P.adts[x.adt + 1].rep ELSE ERR
    \* body where { x: T == v; .. }: constants of the body; their values are typed in the outer context
    [] e = "where" ->
         LET C1 == [C EXCEPT !.G = [n \in {x.defs[i].x : i \in 1..Len(x.defs)} |->
                                      [t |-> x.defs[CHOOSE i \in 1..Len(x.defs) : x.defs[i].x = n].t, asg |-> FALSE]] @@ C.G]
         IN IF (\A i \in 1..Len(x.defs) : Fits(TypeOf(x.defs[i].v, C, P), x.defs[i].t)) /\ Fits(TypeOf(x.body, C1, P), x.t)
            THEN x.t ELSE ERR
    [] e = "tuple" -> LET ts == TypesOf(x.args, C, P) IN
                      IF Len(ts) >= 2 /\ (\A i \in 1..Len(ts) : Ok(ts[i]) /\ ts[i] # ANY /\ ts[i][1] # "tup") THEN <<"tup", ts>> ELSE ERR
    [] e = "masg" -> LET vt == TypeOf(x.v, C, P) IN
                     IF Ok(vt) /\ vt[1] = "tup" /\ Len(vt[2]) = Len(x.xs)
                        /\ (\A i \in 1..Len(x.xs) : x.xs[i] \in DOMAIN C.G /\ C.G[x.xs[i]].asg /\ Fits(vt[2][i], C.G[x.xs[i]].t))
                        /\ (\A i, j \in 1..Len(x.xs) : x.xs[i] = x.xs[j] => i = j)
                     THEN UNIT ELSE ERR
    \* overloading: the functions that share the called function's Aldor name are the candidates; the call is
    \* well typed iff exactly one candidate accepts the argument types (Resolve)
    [] e = "call" ->
         IF x.fi \in 1..Len(P.funs)
         THEN LET ts == TypesOf(x.args, C, P)
                  cands == {j \in 1..Len(P.funs) : P.funs[j].oname = P.funs[x.fi].oname /\ CallFits(x, ts, P.funs[j], C, P)}
              \* (a mutated call may legitimately resolve to another function of the same name: its type is
              \* that function's result type and the context decides)
              IN IF Cardinality(cands) = 1 THEN P.funs[CHOOSE j \in cands : TRUE].rt ELSE ERR
         ELSE ERR
    [] e = "callv" ->
         LET f == TypeOf(x.f, C, P) IN
         IF Ok(f) /\ f[1] = "fn" /\ AllFit(TypesOf(x.args, C, P), f[2]) THEN f[3] ELSE ERR
    [] e = "print" ->
         IF \A i \in 1..Len(x.args) : TypeOf(x.args[i], C, P) \in {SI, BI, STR, BOOL} THEN UNIT ELSE ERR
    [] e = "list" -> IF \A i \in 1..Len(x.args) : Fits(TypeOf(x.args[i], C, P), x.t[2]) THEN x.t ELSE ERR
    [] e = "cons" -> IF Fits(TypeOf(x.h, C, P), x.t[2]) /\ Fits(TypeOf(x.tl, C, P), x.t) THEN x.t ELSE ERR
    [] e = "first" -> LET l == TypeOf(x.l, C, P) IN IF Ok(l) /\ l[1] = "list" THEN l[2] ELSE ERR
    [] e = "rest"  -> LET l == TypeOf(x.l, C, P) IN IF Ok(l) /\ l[1] = "list" THEN l ELSE ERR
    [] e = "empty" -> LET l == TypeOf(x.l, C, P) IN IF Ok(l) /\ l[1] = "list" THEN BOOL ELSE ERR
    [] e = "len"   -> LET l == TypeOf(x.l, C, P) IN IF Ok(l) /\ l[1] = "list" THEN SI ELSE ERR
    [] e = "alen"  -> LET a == TypeOf(x.a, C, P) IN IF Ok(a) /\ a[1] = "arr" THEN SI ELSE ERR
    [] e = "newarr" -> IF Fits(TypeOf(x.n, C, P), SI) /\ Fits(TypeOf(x.init, C, P), x.t[2]) THEN x.t ELSE ERR
    [] e = "aref" -> LET a == TypeOf(x.a, C, P) IN
                     IF Ok(a) /\ a[1] = "arr" /\ Fits(TypeOf(x.i, C, P), SI) THEN a[2] ELSE ERR
    [] e = "aset" -> LET a == TypeOf(x.a, C, P) IN
                     IF Ok(a) /\ a[1] = "arr" /\ Fits(TypeOf(x.i, C, P), SI) /\ Fits(TypeOf(x.v, C, P), a[2]) THEN a[2] ELSE ERR
    [] e = "mkrec" -> IF x.t[2] + 1 \in 1..Len(P.recs) /\ AllFit(TypesOf(x.args, C, P), P.recs[x.t[2] + 1]) THEN x.t ELSE ERR
    [] e = "rget" -> LET r == TypeOf(x.r, C, P) IN
                     IF Ok(r) /\ r[1] = "rec" /\ x.i \in 1..Len(P.recs[r[2] + 1]) THEN P.recs[r[2] + 1][x.i] ELSE ERR
    [] e = "rset" -> LET r == TypeOf(x.r, C, P) IN
                     IF Ok(r) /\ r[1] = "rec" /\ x.i \in 1..Len(P.recs[r[2] + 1])
                        /\ Fits(TypeOf(x.v, C, P), P.recs[r[2] + 1][x.i]) THEN P.recs[r[2] + 1][x.i] ELSE ERR
    \* [tag == v]@U names the branch: v must have that branch's type (branches may share a type)
    [] e = "mkun" -> LET bs == P.uns[x.t[2] + 1] IN
                     IF x.tag \in 1..Len(bs) /\ Fits(TypeOf(x.v, C, P), bs[x.tag]) THEN x.t ELSE ERR
    [] e = "uis"  -> LET u == TypeOf(x.u, C, P) IN
                     IF Ok(u) /\ u[1] = "un" /\ x.tag \in 1..Len(P.uns[u[2] + 1]) THEN BOOL ELSE ERR
    [] e = "uget" -> LET u == TypeOf(x.u, C, P) IN
                     IF Ok(u) /\ u[1] = "un" /\ x.tag \in 1..Len(P.uns[u[2] + 1]) THEN P.uns[u[2] + 1][x.tag] ELSE ERR
    [] e = "lam" ->
         LET C1 == [G |-> [n \in DOMAIN C.G \cup {x.ps[i] : i \in 1..Len(x.ps)} |->
                             IF \E i \in 1..Len(x.ps) : x.ps[i] = n
                             THEN [t |-> x.pts[CHOOSE i \in 1..Len(x.ps) : x.ps[i] = n], asg |-> FALSE] ELSE C.G[n]],
                    ret |-> x.rt, loop |-> FALSE, yl |-> ERR, cat |-> C.cat, pcat |-> C.pcat]
         IN IF Fits(TypeOf(x.body, C1, P), x.rt) THEN <<"fn", x.pts, x.rt>> ELSE ERR
    [] e = "gen" -> IF Ok(TypeOf(x.body, [C EXCEPT !.ret = ERR, !.loop = FALSE, !.yl = x.et], P)) THEN <<"gen", x.et>> ELSE ERR
    [] e = "yield" -> IF Ok(C.yl) /\ Fits(TypeOf(x.v, C, P), C.yl) THEN UNIT ELSE ERR
    [] e = "while" -> IF Fits(TypeOf(x.c, C, P), BOOL) /\ Ok(TypeOf(x.body, [C EXCEPT !.loop = TRUE], P)) THEN UNIT ELSE ERR
    [] e = "for" -> IF Fits(TypeOf(x.lo, C, P), SI) /\ Fits(TypeOf(x.hi, C, P), SI)
                       /\ FiltOk(x, BindV(C, x.x, SI, FALSE), P)
                       /\ Ok(TypeOf(x.body, BindV([C EXCEPT !.loop = TRUE], x.x, SI, FALSE), P)) THEN UNIT ELSE ERR
    [] e = "forin" -> LET s == TypeOf(x.src, C, P) IN
                      IF Ok(s) /\ s[1] \in {"list", "gen"}
                         /\ FiltOk(x, BindV(C, x.x, s[2], FALSE), P)
                         /\ Ok(TypeOf(x.body, BindV([C EXCEPT !.loop = TRUE], x.x, s[2], FALSE), P)) THEN UNIT ELSE ERR
    \* for x1 in s1 for x2 in s2 .. | c repeat body: every iterator is a segment (SI) or a list; all names are visible in c and body
    [] e = "pfor" ->
         LET ets == [j \in 1..Len(x.its) |->
                       IF x.its[j].k = "range"
                       THEN (IF Fits(TypeOf(x.its[j].lo, C, P), SI) /\ Fits(TypeOf(x.its[j].hi, C, P), SI) THEN SI ELSE ERR)
                       ELSE LET s == TypeOf(x.its[j].src, C, P) IN IF Ok(s) /\ s[1] = "list" THEN s[2] ELSE ERR]
             C1 == [C EXCEPT !.G = [n \in {x.its[j].x : j \in 1..Len(x.its)} |->
                                      [t |-> ets[CHOOSE j \in 1..Len(x.its) : x.its[j].x = n], asg |-> FALSE]] @@ C.G]
         IN IF (\A j \in 1..Len(x.its) : Ok(ets[j])) /\ FiltOk(x, C1, P) /\ Ok(TypeOf(x.body, [C1 EXCEPT !.loop = TRUE], P))
            THEN UNIT ELSE ERR
    [] e \in {"break", "iterate"} -> IF C.loop THEN ANY ELSE ERR
    [] e = "ret" -> IF Ok(C.ret) /\ Fits(TypeOf(x.v, C, P), C.ret) THEN ANY ELSE ERR
    [] e = "error" -> ANY
    [] e = "assert" -> IF Fits(TypeOf(x.c, C, P), BOOL) THEN UNIT ELSE ERR
    \* op(args)$D: D must be a domain of a known category that exports op with these argument types;
    \* D(A) requires A to satisfy the category of D's parameter
    \* an unqualified use of an exported operation (the program imports the domains P.dimports): well typed iff exactly
    \* one imported domain exports an operation of that name accepting the arguments -- two domains of one category make
    \* the name ambiguous
    [] e = "dcall" /\ "unqual" \in DOMAIN x ->
         LET ts == TypesOf(x.args, C, P)
             imps == IF "dimports" \in DOMAIN P THEN P.dimports ELSE <<>>
             cands == {k \in 1..Len(imps) :
                         LET D == P.doms[imps[k]] i == FindOp(P.cats[D.cat].ops, x.op) IN
                         D.pcat = 0 /\ i # 0 /\ AllFit(ts, P.cats[D.cat].ops[i].pts)}
         IN IF Cardinality(cands) = 1
            THEN LET D == P.doms[imps[CHOOSE k \in cands : TRUE]] IN P.cats[D.cat].ops[FindOp(P.cats[D.cat].ops, x.op)].rt
            ELSE ERR
    [] e = "dcall" /\ "unqual" \notin DOMAIN x ->
         LET c == DomCat(x.dom, C, P) IN
         IF c = 0 THEN ERR
         ELSE LET i == FindOp(P.cats[c].ops, x.op) IN
              IF i = 0 THEN ERR
              ELSE IF AllFit(TypesOf(x.args, C, P), P.cats[c].ops[i].pts) THEN P.cats[c].ops[i].rt ELSE ERR
    \* a macro use is typed as its body with the parameters standing for the argument types
    [] e = "mac" ->
         IF x.mi \in 1..Len(P.macs) /\ Len(x.args) = Len(P.macs[x.mi].ps)
         THEN LET m == P.macs[x.mi] ts == TypesOf(x.args, C, P)
                  Gm == [n \in {m.ps[i] : i \in 1..Len(m.ps)} |->
                           [t |-> ts[CHOOSE i \in 1..Len(m.ps) : m.ps[i] = n], asg |-> FALSE]]
              \* expansion is textual: an argument the body does not mention disappears, so only the
              \* arguments that are used are typed (an ill-typed argument makes every use of its parameter ill typed)
              IN TypeOf(m.body, Ctx(Gm, ERR, FALSE, ERR), P)
         ELSE ERR
    \* { macro m(ps) == body2; e }: the new body has the type of the macro it redefines (typed like a use of m whose
    \* arguments have the declared parameter types); e is typed as usual
    [] e = "lmac" ->
         IF x.mi \in 1..Len(P.macs)
         THEN LET m == P.macs[x.mi]
                  Gm == [n \in {m.ps[i] : i \in 1..Len(m.ps)} |->
                           [t |-> m.pts[CHOOSE i \in 1..Len(m.ps) : m.ps[i] = n], asg |-> FALSE]]
              IN IF Fits(TypeOf(x.mbody, Ctx(Gm, ERR, FALSE, ERR), P), m.rt) THEN TypeOf(x.body, C, P) ELSE ERR
         ELSE ERR
    \* an exception is thrown with exactly the values its declaration carries (P.exnp: the exceptions with a payload)
    [] e = "throw" -> IF (\E i \in 1..Len(P.exns) : P.exns[i] = x.exn) /\ AllFit(TypesOf(x.args, C, P), ExnPayload(P, x.exn))
                      THEN ANY ELSE ERR
    \* a handler sees the carried values as constants named by its parameters
    [] e = "try" ->
         IF Fits(TypeOf(x.body, [C EXCEPT !.loop = FALSE, !.ret = ERR], P), x.t)
            /\ (\A i \in 1..Len(x.hs) : (x.hs[i].exn = "*" \/ \E j \in 1..Len(P.exns) : P.exns[j] = x.hs[i].exn)
                    /\ Len(x.hs[i].ps) \in {0, Len(ExnPayload(P, x.hs[i].exn))}      \* a handler may ignore the carried value
                    /\ Fits(TypeOf(x.hs[i].body,
                                   IF x.hs[i].ps = <<>> THEN [C EXCEPT !.loop = FALSE, !.ret = ERR]
                                   ELSE BindPs([C EXCEPT !.loop = FALSE, !.ret = ERR], x.hs[i].ps, ExnPayload(P, x.hs[i].exn)), P), x.t))
            /\ (x.fin.e = "none" \/ Ok(TypeOf(x.fin, [C EXCEPT !.loop = FALSE, !.ret = ERR], P)))
         THEN x.t ELSE ERR
    [] OTHER -> ERR

(* functions: parameters are by-value locals (assignable), the body fits the declared result                     *)
FunOk(f, G, P) ==
  LET C == [G |-> [n \in DOMAIN G \cup {f.ps[i] : i \in 1..Len(f.ps)} |->
                     IF \E i \in 1..Len(f.ps) : f.ps[i] = n
                     THEN [t |-> f.pts[CHOOSE i \in 1..Len(f.ps) : f.ps[i] = n], asg |-> TRUE] ELSE G[n]],
            ret |-> IF f.rt[1] \in {"gen", "fn"} THEN ERR ELSE f.rt, loop |-> FALSE, yl |-> ERR, cat |-> 0, pcat |-> 0]
  IN Len(f.ps) = Len(f.pts) /\ Fits(TypeOf(f.body, C, P), f.rt)
     /\ (("defs" \in DOMAIN f) => Len(f.defs) = Len(f.ps)
            /\ \A i \in 1..Len(f.ps) : f.defs[i].e = "none" \/ Fits(TypeOf(f.defs[i], Ctx(G, ERR, FALSE, ERR), P), f.pts[i]))

(* file level: forms in `order`; a global is visible to the forms after its definition; a      *)
(* function sees the globals defined before it.  Function names are constants of the file.     *)
RECURSIVE FormsOk(_, _, _)
FormsOk(i, G, P) ==
  IF i > Len(P.order) THEN TRUE
  ELSE LET k == P.order[i][1] j == P.order[i][2] IN
       IF k = "f" THEN FunOk(P.funs[j + 1], G, P) /\ FormsOk(i + 1, G, P)
       ELSE LET d == P.top[j + 1] IN
            IF d.d = "var"
            THEN Fits(TypeOf(d.init, Ctx(G, ERR, FALSE, ERR), P), d.t)
                 \* `x: T == v` defines a constant: it cannot be assigned to, neither here nor through `free x` in a function
                 /\ FormsOk(i + 1, (d.x :> [t |-> d.t, asg |-> ~("const" \in DOMAIN d /\ d.const)]) @@ G, P)
            ELSE Ok(TypeOf(d.x, Ctx(G, ERR, FALSE, ERR), P)) /\ FormsOk(i + 1, G, P)

(* categories and domains: a definition must match the signature its category declares, its body  *)
(* must have the declared result type, and every operation of the category must be defined by    *)
(* the domain or have a default (a domain that lacks a required export is ill typed)              *)
OpOk(o, cat, pcat, P) ==
  LET i == FindOp(P.cats[cat].ops, o.name)
      C == [G |-> [n \in {o.ps[k] : k \in 1..Len(o.ps)} |-> [t |-> o.pts[CHOOSE k \in 1..Len(o.ps) : o.ps[k] = n], asg |-> FALSE]],
            ret |-> ERR, loop |-> FALSE, yl |-> ERR, cat |-> cat, pcat |-> pcat]
  IN i # 0 /\ Len(o.ps) = Len(o.pts) /\ o.pts = P.cats[cat].ops[i].pts /\ o.rt = P.cats[cat].ops[i].rt
     /\ Fits(TypeOf(o.body, C, P), o.rt)
DomsOk(P) ==
  /\ \A c \in 1..Len(P.cats) : \A k \in 1..Len(P.cats[c].defaults) : OpOk(P.cats[c].defaults[k], c, 0, P)
  /\ \A d \in 1..Len(P.doms) :
        LET D == P.doms[d] IN
        /\ D.cat \in 1..Len(P.cats) /\ D.pcat \in 0..Len(P.cats)
        /\ \A k \in 1..Len(D.ops) : OpOk(D.ops[k], D.cat, D.pcat, P)
        /\ \A k \in 1..Len(P.cats[D.cat].ops) :
              FindOp(D.ops, P.cats[D.cat].ops[k].name) # 0 \/ FindOp(P.cats[D.cat].defaults, P.cats[D.cat].ops[k].name) # 0

AdtOpOk(o, k, P) ==
  LET C == [G |-> [n \in {o.ps[j] : j \in 1..Len(o.ps)} \cup {"%adt"} |->
                     IF n = "%adt" THEN [t |-> <<"adt", k>>, asg |-> FALSE]
                     ELSE [t |-> o.pts[CHOOSE j \in 1..Len(o.ps) : o.ps[j] = n], asg |-> FALSE]],
            ret |-> ERR, loop |-> FALSE, yl |-> ERR, cat |-> 0, pcat |-> 0]
  IN Len(o.ps) = Len(o.pts) /\ Fits(TypeOf(o.body, C, P), o.rt)
AdtsOk(P) == ("adts" \notin DOMAIN P) \/
  \A a \in 1..Len(P.adts) : \A j \in 1..Len(P.adts[a].ops) :
     AdtOpOk(P.adts[a].ops[j], a - 1, P) /\ (\A j2 \in 1..Len(P.adts[a].ops) : P.adts[a].ops[j2].name = P.adts[a].ops[j].name => j2 = j)

(* the names of the functions are bound as constants (not assignable) from the start *)
WellTyped(P) == DomsOk(P) /\ AdtsOk(P) /\ FormsOk(1, [n \in {P.funs[i].oname : i \in 1..Len(P.funs)} |->
                               [t |-> <<"const">>, asg |-> FALSE]], P)

VARIABLE pid
Init == pid \in 1..Len(Progs)
Next == PrintT("TYPED " \o ToJson([id |-> Progs[pid].id, ok |-> WellTyped(Progs[pid])])) /\ UNCHANGED pid
Spec == Init /\ [][Next]_pid
=============================================================================
