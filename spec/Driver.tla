------------------------------- MODULE Driver -------------------------------
(***************************************************************************)
(* The batch driver of the Aldor compiler (axlcomp.c:compFilesLoop) seen   *)
(* as a state machine: files, phases, diagnostics, output files, exit      *)
(* status -- together with an environment that may make any open, write    *)
(* or close of an output file fail (IoFault).                              *)
(*                                                                         *)
(* This is the model of the REQUIRED behaviour (properties C18, C07, C06):  *)
(* a failed open/write/close must surface as a diagnostic, and a run that  *)
(* printed an error must not exit 0.  One action per public operation of   *)
(* the code:                                                               *)
(*   StartFile/EndFile  phase.c:phStartAll/phEndAll (compFileInit/Fini)    *)
(*   Phase(p)/PhEnd     phase.c:phStart/phEnd       (compPhaseXxx)         *)
(*   Msg(kind)          comsg.c:comsgVRemark/VWarning/VError/VFatal        *)
(*   OpenOut(f,k)       file.c:fileMustOpen called from emit.c:emitTheXxx  *)
(*   WriteOut(f,k)      the fprintf/fwrite calls between open and close    *)
(*   CloseOut(f,k,rc)   fclose in emit.c / lib.c:libClose                  *)
(*   Cleanup(f,k)       emit.c:emitCleanup (from compExitHandler)          *)
(*   Link, Interp       emit.c:emitLink, emitInterp                        *)
(*   Exit(s)            main.c return / util.c:exitFailure                 *)
(*   IoFault(f,k,m)     the environment                                    *)
(*                                                                         *)
(* Two layers.  The property-level layer (Strict = FALSE) fixes only what  *)
(* the property statements need: outputs are written inside phases of the  *)
(* file they belong to, no code output once the file has an error, a       *)
(* failed I/O operation is followed by an error/fatal message before the   *)
(* process exits, exit status 0 iff no error was printed.  The             *)
(* implementation-shaped layer (Strict = TRUE) adds the exact phase order  *)
(* of compFileFront/Middle/Back, the phase in which each kind is written   *)
(* and the early returns (compIsMoreAfterInclude/Syntax).  Both layers are *)
(* model checked; real traces are validated against the property-level     *)
(* layer only (TraceDriver.tla).                                           *)
(***************************************************************************)
EXTENDS Naturals, Integers, FiniteSets, Sequences, TLC

CONSTANTS MaxFiles,     \* number of source files on the command line: 1..MaxFiles
          MaxFaults,    \* bound on the number of IoFault steps of the environment
          MaxErrs,      \* error counters saturate here
          Strict,       \* BOOLEAN, see above
          MultiPart,    \* BOOLEAN: a kind may be opened again after a complete part (split C, several java classes)
          PostUsed,     \* subset of {"link","interp"}: TLC chooses `post' (what follows the last file) among its subsets
          KindsUsed,    \* the output kinds TLC chooses `requested' from (all nine, or fewer for the 2-file configuration)
          CleanupKept,  \* BOOLEAN: emitCleanup may also remove complete outputs (those not kept); FALSE for model
                        \* checking, where removing any subset of the complete outputs only multiplies states
          MaxKinds,     \* `requested' ranges over the non-empty subsets of KindsUsed with at most MaxKinds
                        \* elements, and KindsUsed itself
          ChecksIo,     \* BOOLEAN.  TRUE: the required behaviour.  FALSE: the driver as written at the pinned
                        \* commit, which drops the result of every fclose/fflush/fwrite (emit.c, lib.c); used
                        \* only by DriverAsWritten.cfg, where TLC is expected to refute CompleteOnSuccess
          PhasesUsed    \* the phases TLC may start (all of them, or a few for the property-level layer,
                        \* where phases may be skipped and the full alphabet would give 2^19 orders)

\* "h": the common header <unit>.h of a C output that is split into several files (-Csmax); it is due -- a member of
\* `requested' -- whenever "c" is asked for and the unit is split, is opened before the first C file and closed after the last
Kinds     == {"ai", "ap", "asy", "ao", "fm", "lsp", "c", "java", "main", "h"}
FileKinds == Kinds \ {"main"}                      \* written once per source file
CodeKinds == {"asy", "ao", "fm", "lsp", "c", "java", "main", "h"}   \* need an error-free front end
OutStates == {"absent", "open", "complete", "partial", "removed"}
IoModes   == {"ok", "failOpen", "failWrite", "failClose"}
MsgKinds  == {"remark", "warning", "error", "fatal"}
NoExit    == -1

\* compFileFront / compFileMiddle / compFileSave / compFileBack, in order (phase.c:phInfo names)
PhaseSeq == << "load", "include", "scan", "syscmd", "linear", "parse", "abnorm", "macex", "abnorm",
               "abcheck", "scobind", "tinfer", "genfoam", "optfoam", "putao", "putlisp", "putjava",
               "putc", "putobject" >>
NPhases  == Len(PhaseSeq)
Phases   == {PhaseSeq[i] : i \in 1..NPhases}
NoPhase  == "none"

\* smallest position after r at which phase p occurs; 0 if there is none
NextRank(r, p) == LET S == {i \in (r+1)..NPhases : PhaseSeq[i] = p}
                  IN  IF S = {} THEN 0 ELSE CHOOSE i \in S : \A j \in S : i <= j

PhaseOf(k) == CASE k = "ai"                     -> "include"
                [] k = "ap"                     -> "abcheck"
                [] k \in {"asy", "ao", "fm"}    -> "putao"
                [] k = "lsp"                    -> "putlisp"
                [] k = "java"                   -> "putjava"
                [] k \in {"c", "main", "h"}     -> "putc"

\* positions after which compFileFront tests comsgErrorCount()
Checkpoints == {2, 6, 8, 10, 11, 12}

AllOuts   == (1..(MaxFiles + 1)) \X Kinds
NoPending == << 0, "none" >>
LinkOut   == << 0, "link" >>

VARIABLES nfiles,        \* files on the command line
          post,          \* subset of {"link","interp"}: -Fx / -Ginterp were given
          requested,     \* output kinds asked for with -F
          file,          \* index of the file being / last compiled (nfiles+1 = the generated main file)
          fstate,        \* "idle" | "running"
          rank,          \* position in PhaseSeq of the last phase started for this file
          phase,         \* the phase in progress, or NoPhase
          errs,          \* per file: source errors reported (saturating)
          printedError,  \* ghost: an (Error) / (Fatal Error) line was produced
          out,           \* [AllOuts -> OutStates]
          io,            \* [AllOuts -> IoModes]: the environment's choice
          nfaults,
          written,       \* outputs whose content has been handed to stdio
          wfail,         \* outputs for which a write failed (stdio error flag)
          pendingIo,     \* an I/O failure that has not yet been reported, or NoPending
          dying,         \* a fatal message was issued: only clean-up and exit remain
          postDone,      \* subset of Post
          exit           \* NoExit | 0 | 1 (any non-zero status)

vars == << nfiles, post, requested, file, fstate, rank, phase, errs, printedError, out, io, nfaults,
           written, wfail, pendingIo, dying, postDone, exit >>

-----------------------------------------------------------------------------
MainFile      == nfiles + 1
Requested(f, k) == /\ k \in requested
                   /\ IF k = "main" THEN f = MainFile ELSE f \in 1..nfiles
ReqOuts       == {o \in AllOuts : Requested(o[1], o[2])}
FileNeeds     == requested \ {"main"}
Inc(n)        == IF n < MaxErrs THEN n + 1 ELSE n
NoCodeOutput(f) == \A k \in CodeKinds : out[<<f, k>>] \in {"absent", "removed"}
Alive         == exit = NoExit /\ ~dying
\* An unreported I/O failure (pendingIo) does not block the driver from going on -- the statement of
\* C18 is about the outcome: it blocks Exit until some error/fatal message has been issued.
Quiet         == Alive
LastFile      == IF "main" \in requested /\ ~printedError THEN MainFile ELSE nfiles

TypeOK ==
    /\ nfiles \in 1..MaxFiles /\ requested \subseteq Kinds
    /\ file \in 0..(MaxFiles + 1) /\ fstate \in {"idle", "running"}
    /\ rank \in 0..NPhases /\ phase \in Phases \cup {NoPhase}
    /\ errs \in [1..(MaxFiles + 1) -> 0..MaxErrs]
    /\ printedError \in BOOLEAN /\ dying \in BOOLEAN
    /\ out \in [AllOuts -> OutStates] /\ io \in [AllOuts -> IoModes]
    /\ nfaults \in 0..MaxFaults
    /\ written \subseteq AllOuts /\ wfail \subseteq AllOuts
    /\ pendingIo \in AllOuts \cup {NoPending, LinkOut}
    /\ post \subseteq {"link", "interp"} /\ postDone \subseteq post
    /\ exit \in {NoExit, 0, 1}

Init ==
    /\ nfiles \in 1..MaxFiles /\ post \in SUBSET PostUsed
    /\ requested \in {S \in SUBSET KindsUsed : S # {} /\ (Cardinality(S) <= MaxKinds \/ S = KindsUsed)}
    /\ "h" \in requested => "c" \in requested          \* the header exists only as a part of a split C output
    /\ file = 0 /\ fstate = "idle" /\ rank = 0 /\ phase = NoPhase
    /\ errs = [f \in 1..(MaxFiles + 1) |-> 0]
    /\ printedError = FALSE /\ dying = FALSE
    /\ out = [o \in AllOuts |-> "absent"] /\ io = [o \in AllOuts |-> "ok"]
    /\ nfaults = 0 /\ written = {} /\ wfail = {}
    /\ pendingIo = NoPending /\ postDone = {} /\ exit = NoExit

-----------------------------------------------------------------------------
(* files and phases *)

StartFile ==
    /\ Quiet /\ fstate = "idle" /\ file < LastFile
    /\ file' = file + 1 /\ fstate' = "running" /\ phase' = NoPhase
    /\ rank' = IF ~Strict THEN 0 ELSE IF file + 1 = MainFile THEN 17 ELSE 1
    /\ UNCHANGED << nfiles, post, requested, errs, printedError, out, io, nfaults, written, wfail,
                    pendingIo, dying, postDone, exit >>

\* what compIsMoreAfterInclude / compIsMoreAfterSyntax say when there is no error
MoreAfter(r) == CASE r = 2  -> FileNeeds \ {"ai"} # {}
                  [] r = 10 -> FileNeeds \cap {"asy", "ao", "fm", "lsp", "c", "java"} # {}
                  [] OTHER  -> TRUE

Phase(p) ==
    /\ Quiet /\ fstate = "running" /\ phase = NoPhase
    /\ NextRank(rank, p) # 0
    /\ Strict => /\ NextRank(rank, p) = rank + 1
                 /\ ~(rank \in Checkpoints /\ errs[file] > 0)
                 /\ MoreAfter(rank)
    /\ rank' = NextRank(rank, p) /\ phase' = p
    /\ UNCHANGED << nfiles, post, requested, file, fstate, errs, printedError, out, io, nfaults, written,
                    wfail, pendingIo, dying, postDone, exit >>

EmittedOrExcused(f, k) == out[<<f, k>>] \in {"complete", "partial", "removed"}

PhEnd ==
    /\ Quiet /\ fstate = "running" /\ phase # NoPhase
    /\ \A k \in Kinds : out[<<file, k>>] # "open"
    /\ Strict => \A k \in Kinds : (/\ Requested(file, k) /\ PhaseOf(k) = phase
                                     /\ ~(k \in CodeKinds /\ errs[file] > 0)) => EmittedOrExcused(file, k)
    /\ phase' = NoPhase
    /\ UNCHANGED << nfiles, post, requested, file, fstate, rank, errs, printedError, out, io, nfaults,
                    written, wfail, pendingIo, dying, postDone, exit >>

\* compFileFini.  A file ends early only because it has errors; otherwise everything
\* requested from it has been emitted (with success, or with a failure that was reported).
EndFile ==
    /\ Quiet /\ fstate = "running" /\ phase = NoPhase
    /\ \/ errs[file] > 0
       \/ \A k \in Kinds : Requested(file, k) => EmittedOrExcused(file, k)
    /\ Strict => \/ rank = NPhases
                 \/ rank \in Checkpoints /\ errs[file] > 0
                 \/ ~MoreAfter(rank)
    /\ fstate' = "idle"
    /\ UNCHANGED << nfiles, post, requested, file, rank, phase, errs, printedError, out, io, nfaults,
                    written, wfail, pendingIo, dying, postDone, exit >>

-----------------------------------------------------------------------------
(* diagnostics *)

Msg(kind) ==
    /\ exit = NoExit
    /\ CASE kind \in {"remark", "warning"} ->
              UNCHANGED << errs, printedError, pendingIo, dying >>
         [] kind = "error" ->
              /\ ~dying
              /\ IF pendingIo # NoPending
                 THEN \* the report of an I/O failure: not a source error of the file
                      /\ pendingIo' = NoPending
                      /\ UNCHANGED errs
                 ELSE \* a source error; required: no code output of this file exists
                      /\ file >= 1 => NoCodeOutput(file)
                      /\ errs' = IF file >= 1 THEN [errs EXCEPT ![file] = Inc(@)] ELSE errs
                      /\ UNCHANGED pendingIo
              /\ printedError' = TRUE
              /\ UNCHANGED dying
         [] kind = "fatal" ->
              /\ ~dying
              /\ printedError' = TRUE /\ dying' = TRUE /\ pendingIo' = NoPending
              /\ UNCHANGED errs
    /\ UNCHANGED << nfiles, post, requested, file, fstate, rank, phase, out, io, nfaults, written, wfail,
                    postDone, exit >>

-----------------------------------------------------------------------------
(* output files *)

CanOpen(f, k) ==
    /\ Quiet /\ fstate = "running" /\ phase # NoPhase /\ f = file
    /\ Requested(f, k)
    /\ out[<<f, k>>] \in (IF MultiPart THEN {"absent", "complete"} ELSE {"absent"})
    /\ k \in CodeKinds => errs[f] = 0
    /\ Strict => phase = PhaseOf(k)

\* The environment decides, at the latest when the operation happens, that the open, a
\* write or the close of output (f,k) is going to fail.
IoFault(f, k, m) ==
    /\ f >= 1 /\ m \in IoModes \ {"ok"}
    /\ io[<<f, k>>] = "ok" /\ nfaults < MaxFaults
    /\ CASE m = "failOpen"  -> CanOpen(f, k)
         [] m = "failWrite" -> Alive /\ out[<<f, k>>] = "open" /\ <<f, k>> \notin written
         [] m = "failClose" -> Alive /\ out[<<f, k>>] = "open" /\ <<f, k>> \in written
    /\ io' = [io EXCEPT ![<<f, k>>] = m] /\ nfaults' = nfaults + 1
    /\ UNCHANGED << nfiles, post, requested, file, fstate, rank, phase, errs, printedError, out, written,
                    wfail, pendingIo, dying, postDone, exit >>

OpenOut(f, k) ==
    /\ f >= 1 /\ CanOpen(f, k)
    /\ IF io[<<f, k>>] = "failOpen"
       THEN \* nothing was created; the failure has to be reported
            /\ pendingIo' = <<f, k>>
            /\ out' = [out EXCEPT ![<<f, k>>] = "removed"]
            /\ io' = [io EXCEPT ![<<f, k>>] = "ok"]
       ELSE /\ out' = [out EXCEPT ![<<f, k>>] = "open"]
            /\ UNCHANGED << pendingIo, io >>
    /\ UNCHANGED << nfiles, post, requested, file, fstate, rank, phase, errs, printedError, nfaults,
                    written, wfail, dying, postDone, exit >>

WriteOut(f, k) ==
    /\ f >= 1 /\ Alive /\ out[<<f, k>>] = "open" /\ <<f, k>> \notin written
    /\ written' = written \cup {<<f, k>>}
    /\ wfail' = IF io[<<f, k>>] = "failWrite" THEN wfail \cup {<<f, k>>} ELSE wfail
    /\ UNCHANGED << nfiles, post, requested, file, fstate, rank, phase, errs, printedError, out, io,
                    nfaults, pendingIo, dying, postDone, exit >>

\* rc is what fclose returned.  The close fails when the environment said so; after a
\* failed write the final flush may or may not fail as well.
CloseOut(f, k, rc) ==
    /\ f >= 1 /\ Alive /\ out[<<f, k>>] = "open" /\ <<f, k>> \in written
    /\ rc \in {0, -1}
    /\ io[<<f, k>>] = "failClose" => rc # 0
    /\ io[<<f, k>>] = "ok" => rc = 0
    /\ LET bad == rc # 0 \/ <<f, k>> \in wfail
       IN  /\ out' = [out EXCEPT ![<<f, k>>] = IF bad THEN "partial" ELSE "complete"]
           /\ pendingIo' = IF bad /\ ChecksIo THEN <<f, k>> ELSE pendingIo
    \* the stream is gone: its bookkeeping is dropped (what happened is kept in out and pendingIo)
    /\ written' = written \ {<<f, k>>} /\ wfail' = wfail \ {<<f, k>>}
    /\ io' = [io EXCEPT ![<<f, k>>] = "ok"]
    /\ UNCHANGED << nfiles, post, requested, file, fstate, rank, phase, errs, printedError, nfaults,
                    dying, postDone, exit >>

\* emitCleanup, reached through exitFailure only
Cleanup(f, k) ==
    /\ exit = NoExit /\ dying
    /\ out[<<f, k>>] \in (IF CleanupKept THEN {"open", "partial", "complete"} ELSE {"open", "partial"})
    /\ out' = [out EXCEPT ![<<f, k>>] = "removed"]
    /\ UNCHANGED << nfiles, post, requested, file, fstate, rank, phase, errs, printedError, io, nfaults,
                    written, wfail, pendingIo, dying, postDone, exit >>

-----------------------------------------------------------------------------
(* after the last file *)

AllFilesDone == fstate = "idle" /\ file >= LastFile /\ file >= nfiles

Link(ok) ==
    /\ Quiet /\ AllFilesDone /\ ~printedError
    /\ "link" \in post \ postDone
    /\ postDone' = postDone \cup {"link"}
    /\ pendingIo' = IF ok THEN pendingIo ELSE LinkOut
    /\ UNCHANGED << nfiles, post, requested, file, fstate, rank, phase, errs, printedError, out, io,
                    nfaults, written, wfail, dying, exit >>

\* fintFile; a run-time failure of the interpreted program is reported by the interpreter
\* itself and ends in exitFailure
Interp(ok) ==
    /\ Quiet /\ AllFilesDone /\ ~printedError
    /\ "interp" \in post \ postDone /\ ("link" \in post => "link" \in postDone)
    /\ postDone' = postDone \cup {"interp"}
    /\ printedError' = ~ok /\ dying' = ~ok
    /\ pendingIo' = IF ok THEN pendingIo ELSE NoPending
    /\ UNCHANGED << nfiles, post, requested, file, fstate, rank, phase, errs, out, io, nfaults, written,
                    wfail, exit >>

\* An I/O failure that no message has followed (pendingIo) rules out the successful exit only:
\* the statement of C18 asks for an error report and a non-zero status, not for one report per failure.
Exit(s) ==
    /\ exit = NoExit
    /\ s \in {0, 1}
    /\ pendingIo = NoPending \/ (printedError /\ s = 1)
    /\ \/ /\ dying /\ s = 1                                   \* exitFailure
       \/ /\ ~dying /\ AllFilesDone                           \* return from compFilesLoop
          /\ printedError \/ postDone = post
          /\ s = IF printedError THEN 1 ELSE 0
    /\ exit' = s
    /\ UNCHANGED << nfiles, post, requested, file, fstate, rank, phase, errs, printedError, out, io,
                    nfaults, written, wfail, pendingIo, dying, postDone >>

Terminated == exit # NoExit /\ UNCHANGED vars

-----------------------------------------------------------------------------
Next ==
    \/ StartFile \/ EndFile \/ PhEnd
    \/ \E p \in PhasesUsed : Phase(p)
    \/ \E m \in MsgKinds : Msg(m)
    \* streams are opened, written and closed for the current file only (CanOpen); emitCleanup walks all files
    \/ \E k \in Kinds : OpenOut(file, k)
    \/ \E k \in Kinds : WriteOut(file, k)
    \/ \E k \in Kinds, rc \in {0, -1} : CloseOut(file, k, rc)
    \/ \E k \in Kinds, m \in IoModes \ {"ok"} : IoFault(file, k, m)
    \/ \E o \in AllOuts : Cleanup(o[1], o[2])
    \/ \E ok \in BOOLEAN : Link(ok) \/ Interp(ok)
    \/ \E s \in {0, 1} : Exit(s)
    \/ Terminated

Spec     == Init /\ [][Next]_vars
FairSpec == Spec /\ WF_vars(Next)

-----------------------------------------------------------------------------
(* the properties *)

\* C07/C18: status 0 iff no error was printed
HonestExit == exit # NoExit => ((exit = 0) <=> ~printedError)

\* C18: a successful exit means every requested output was written completely
CompleteOnSuccess == exit = 0 => \A o \in ReqOuts : out[o] = "complete"

\* C06: a file with source errors leaves no code output behind
NoOutputAfterError == \A f \in 1..(MaxFiles + 1) : errs[f] > 0 => NoCodeOutput(f)

\* C18, second half: a failed write/flush/close surfaces as an error before the exit
FailureSurfaces == exit # NoExit =>
                      \A o \in AllOuts : (out[o] = "partial" \/ o \in wfail) => printedError /\ exit # 0

\* nothing is left half way at a successful exit
NothingOpenAtSuccess == exit = 0 => \A o \in AllOuts : out[o] \notin {"open", "partial"}

\* an unreported failure rules out the successful exit
PendingIsReported == pendingIo # NoPending => exit # 0

\* C07: every behaviour ends in Exit (and the module has no Fault / Bug / Hang action)
Total == <>(exit # NoExit)

\* non-vacuity witnesses, checked to be VIOLATED by the self-test configurations
NeverSucceeds        == exit # 0
NeverFailsAfterFault == ~(exit = 1 /\ nfaults > 0)
=============================================================================
