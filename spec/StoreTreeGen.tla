---------------------------- MODULE StoreTreeGen ----------------------------
(***************************************************************************)
(* Behaviour export at the REAL constants of store.c for the housekeeping  *)
(* structures (C10): the free tree with MixedBTreeT = 16 (15..31 keys per  *)
(* node), 5 nodes of 776 bytes and 256 carriers of 16 bytes per            *)
(* housekeeping page of 4096 bytes.                                        *)
(*                                                                         *)
(* A behaviour is one allocator history over a single large mixed section  *)
(* (one giant block G is allocated and freed first, so that every later    *)
(* request is served from the free tree and the tree's key set is exactly  *)
(* the set of sizes of the free pieces of that section):                   *)
(*   build    n big blocks of pairwise different sizes (3 .. n+2 quanta,   *)
(*            placed in the order `lay'), each followed by a small live    *)
(*            separator block, so that freed big blocks cannot coalesce    *)
(*   free     the big blocks in the order `f1': n distinct sizes enter the *)
(*            tree (leaf splits, further housekeeping pages, root growth)  *)
(*   realloc  m of the sizes are asked for again in the order `a' (every   *)
(*            third one a quantum smaller: best fit, taken whole), then k  *)
(*            sizes that are no longer there (best fit from the next       *)
(*            larger piece, split, remainder re-entered)                   *)
(*   refree   those m + k blocks in the order `f2'                         *)
(*   merge    the separators in the order `fs': each free merges with both *)
(*            neighbours (two sizes leave the tree, their sum enters)      *)
(* A scenario is a sequence of such rounds in one heap (the second round   *)
(* finds the pools' free lists in the order the first one left them).      *)
(* The module keeps the section's pieces in address order (pcs) next to    *)
(* the tree so that every step knows which sizes piecePutMixed /           *)
(* pieceGetMixed unlink and link.  TLC checks StoreTree's invariants in    *)
(* every state of every behaviour, accumulates the sub-case labels, and    *)
(* the terminal state prints the history, the labels and the pools' sizes  *)
(* as JSON; gen/store_scale.py turns the history into a script for         *)
(* harness/store_drv.c.                                                    *)
(***************************************************************************)
EXTENDS StoreTree, Json

CONSTANTS Scens,    \* the scenarios: records [name, rounds]; rounds: sequence of [n, lay, f1, m, a, k, f2, fs]
          Sparse    \* TRUE: the invariants that walk the whole tree and both pools (BTreeOk, Corr, PoolOk) are evaluated
                    \* after every step that restructured something and after every 8th step, not after every step (PiecesOk likewise)

VARIABLES sc,       \* the scenario of this behaviour
          pc,       \* index of the next operation
          pcs,      \* pieces of the section in address order: [q: quanta, s: "B" | "F", id: block id]
          hist,     \* operations so far: <<"A", id, quanta>> | <<"F", id>>
          seen,     \* labels so far
          mx        \* [nodes, keys, amb]: most nodes in use, most distinct sizes, ambiguous placements

gvars == <<t, keys, wit, sc, pc, pcs, hist, seen, mx>>

SepQ == 2

(* permutations of 1..n by name *)
Perm(name, n, i) ==
    CASE name = "asc"  -> i
      [] name = "desc" -> n + 1 - i
      [] name = "zig"  -> IF i % 2 = 1 THEN (i + 1) \div 2 ELSE n + 1 - (i \div 2)
      [] name = "mid"  -> LET m == (n + 1) \div 2 IN IF i % 2 = 0 THEN m + (i \div 2) ELSE m - ((i - 1) \div 2)
      [] name = "s7"   -> ((i * 7) % n) + 1
      [] name = "s11"  -> ((i * 11) % n) + 1
      [] name = "s37"  -> ((i * 37) % n) + 1
      [] name = "s101" -> ((i * 101) % n) + 1

RoundLen(R) == 4 * R.n + 2 * R.m + 2 * R.k

(* quanta the giant block must have for a round *)
RoundNeed(R) == (R.n * (R.n + 1)) \div 2 + 4 * R.n + R.k * (R.n + 3) + 64

RECURSIVE MaxNeed(_, _)
MaxNeed(rs, i) == IF i > Len(rs) THEN 0 ELSE LET a == RoundNeed(rs[i]) b == MaxNeed(rs, i + 1) IN IF a >= b THEN a ELSE b
RQ(s) == MaxNeed(s.rounds, 1)

RECURSIVE TotalLen(_, _)
TotalLen(rs, i) == IF i > Len(rs) THEN 0 ELSE RoundLen(rs[i]) + TotalLen(rs, i + 1)
Total(s) == TotalLen(s.rounds, 1)

(* operation j (1-based) of round R *)
RoundOp(R, j) ==
    LET n == R.n IN
    IF j <= 2 * n THEN
        LET i == (j + 1) \div 2 IN IF j % 2 = 1 THEN <<"A", i, 2 + Perm(R.lay, n, i)>> ELSE <<"A", n + i, SepQ>>
    ELSE IF j <= 3 * n THEN <<"F", Perm(R.f1, n, j - 2 * n)>>
    ELSE IF j <= 3 * n + R.m THEN
        LET c == j - 3 * n IN <<"A", 2 * n + c, 2 + Perm(R.a, n, c) - (IF c % 3 = 0 THEN 1 ELSE 0)>>
    ELSE IF j <= 3 * n + R.m + R.k THEN
        LET c == j - 3 * n - R.m IN <<"A", 2 * n + R.m + c, 2 + Perm(R.a, n, c)>>
    ELSE IF j <= 3 * n + 2 * R.m + 2 * R.k THEN
        LET c == j - 3 * n - R.m - R.k IN <<"F", 2 * n + Perm(R.f2, R.m + R.k, c)>>
    ELSE <<"F", n + Perm(R.fs, n, j - 3 * n - 2 * R.m - 2 * R.k)>>

RECURSIVE OpIn(_, _, _)
OpIn(rs, i, j) == IF j <= RoundLen(rs[i]) THEN RoundOp(rs[i], j) ELSE OpIn(rs, i + 1, j - RoundLen(rs[i]))
OpAt(s, j) == OpIn(s.rounds, 1, j)

---------------------------------------------------------------------------
IsPerm(name, n) == {Perm(name, n, i) : i \in 1..n} = 1..n
RoundOk(r) == /\ IsPerm(r.lay, r.n) /\ IsPerm(r.f1, r.n) /\ IsPerm(r.a, r.n) /\ IsPerm(r.fs, r.n) /\ IsPerm(r.f2, r.m + r.k)
              /\ r.m <= r.n /\ r.k <= r.n /\ r.n >= 1

GInit == /\ sc \in Scens
         /\ \A i \in 1..Len(sc.rounds) : Assert(RoundOk(sc.rounds[i]), <<"not a permutation in scenario", sc.name>>)
         /\ pc = 1
         /\ pcs = <<[q |-> RQ(sc), s |-> "F", id |-> 0]>>
         /\ LET t1 == Link(TInit, RQ(sc)) IN
            /\ t = Done(t1)
            /\ seen = t1.tg
         /\ keys = (RQ(sc) :> 1)
         /\ wit = [op |-> "Put", z |-> RQ(sc), got |-> 0, tags |-> {}]
         /\ hist = <<>>
         /\ mx = [nodes |-> 1, keys |-> 1, amb |-> 0]

IdxOf(id) == CHOOSE i \in 1..Len(pcs) : pcs[i].id = id /\ pcs[i].s = "B"
FreeOf(z) == {i \in 1..Len(pcs) : pcs[i].s = "F" /\ pcs[i].q = z}

Track(t1) ==
    /\ seen' = seen \cup t1.tg
    /\ mx' = [nodes |-> IF Cardinality(DOMAIN t1.nd) > mx.nodes THEN Cardinality(DOMAIN t1.nd) ELSE mx.nodes,
              keys  |-> IF Cardinality(DOMAIN keys') > mx.keys THEN Cardinality(DOMAIN keys') ELSE mx.keys,
              amb   |-> mx.amb + (IF "gen:ambiguous-piece" \in t1.tg THEN 1 ELSE 0)]

(* stoAlloc of nb quanta (header included), served by pieceGetMixed from the tree *)
GAlloc(id, nb) ==
    LET r  == Get(t, nb)
        F  == FreeOf(r.z)
        p  == SetMin(F)
        np == IF r.z > nb + 1 THEN <<[q |-> nb, s |-> "B", id |-> id], [q |-> r.z - nb, s |-> "F", id |-> 0]>>
              ELSE <<[q |-> r.z, s |-> "B", id |-> id]>>
        t1 == IF Cardinality(F) > 1 THEN Tag(r.tr, "gen:ambiguous-piece") ELSE r.tr
    IN /\ r.z # 0              \* the giant section always has room (otherwise the behaviour stops: deadlock check is on)
       /\ pcs' = SubSeq(pcs, 1, p - 1) \o np \o SubSeq(pcs, p + 1, Len(pcs))
       /\ t' = Done(t1)
       /\ keys' = AbsGet(keys, nb)
       /\ wit' = [op |-> "Get", z |-> nb, got |-> r.z, tags |-> t1.tg]
       /\ Track(t1)

(* stoFree: piecePutMixed merges with a free next piece, then with a free previous piece *)
GFree(id) ==
    LET p   == IdxOf(id)
        nf  == p < Len(pcs) /\ pcs[p + 1].s = "F"
        pf  == p > 1 /\ pcs[p - 1].s = "F"
        t1  == IF nf THEN Unlink(t, pcs[p + 1].q) ELSE t
        t2  == IF pf THEN Unlink(t1, pcs[p - 1].q) ELSE t1
        sum == pcs[p].q + (IF nf THEN pcs[p + 1].q ELSE 0) + (IF pf THEN pcs[p - 1].q ELSE 0)
        t3  == Tag(Link(t2, sum), IF nf /\ pf THEN "put:merge-both" ELSE IF nf THEN "put:merge-next"
                                  ELSE IF pf THEN "put:merge-prev" ELSE "put:merge-none")
        k1  == IF nf THEN AbsUnlink(keys, pcs[p + 1].q) ELSE keys
        k2  == IF pf THEN AbsUnlink(k1, pcs[p - 1].q) ELSE k1
        lo  == IF pf THEN p - 1 ELSE p
        hi  == IF nf THEN p + 1 ELSE p
    IN /\ pcs' = SubSeq(pcs, 1, lo - 1) \o <<[q |-> sum, s |-> "F", id |-> 0]>> \o SubSeq(pcs, hi + 1, Len(pcs))
       /\ t' = Done(t3)
       /\ keys' = AbsLink(k2, sum)
       /\ wit' = [op |-> "Put", z |-> sum, got |-> 0, tags |-> t3.tg]
       /\ Track(t3)

GStep == /\ pc <= Total(sc)
         /\ LET op == OpAt(sc, pc) IN
            /\ IF op[1] = "A" THEN GAlloc(op[2], op[3]) ELSE GFree(op[2])
            /\ hist' = Append(hist, op)
         /\ pc' = pc + 1
         /\ UNCHANGED sc

GEmit == /\ pc = Total(sc) + 1
         /\ PrintT(ToJson([name |-> sc.name, rq |-> RQ(sc), labels |-> seen, nodepages |-> t.npg, carpages |-> t.cpg,
                           maxnodes |-> mx.nodes, maxkeys |-> mx.keys, ambiguous |-> mx.amb,
                           endkeys |-> Cardinality(DOMAIN keys), ops |-> hist]))
         /\ pc' = pc + 1
         /\ UNCHANGED <<t, keys, wit, sc, pcs, hist, seen, mx>>

GNext == GStep \/ GEmit

GenSpec == GInit /\ [][GNext]_gvars

(* the free pieces of the section are what the tree holds *)
PiecesOk ==
    LET FI == {i \in 1..Len(pcs) : pcs[i].s = "F"} IN
    /\ {pcs[i].q : i \in FI} = DOMAIN keys
    /\ \A z \in {y \in DOMAIN keys : keys[y] > 1} : Cardinality(FreeOf(z)) = keys[z]
    /\ Cardinality(FI) = Cardinality(DOMAIN keys) + Cardinality({<<y, j>> \in UNION {{<<x, i>> : i \in 2..keys[x]} : x \in {y \in DOMAIN keys : keys[y] > 1}} : TRUE})
    /\ \A i \in 1..(Len(pcs) - 1) : ~(pcs[i].s = "F" /\ pcs[i + 1].s = "F")

Structural == {"node:new-page", "node:last-of-page", "node:recycled", "car:new-page", "car:last-of-page", "car:recycled",
               "ins:split-leaf", "ins:split-interior", "ins:root-grows", "ins:root-grows-again",
               "del:interior-by-predecessor", "del:interior-by-successor", "del:interior-unsplit", "del:rotate-down",
               "del:rotate-up", "del:unsplit-leaf", "del:unsplit-interior", "del:root-shrinks", "get:split-entry-reused",
               "get:split-delete-insert", "gen:ambiguous-piece"}
Heavy == ~Sparse \/ wit.tags \cap Structural # {} \/ pc % 8 = 0 \/ pc > Total(sc)

GenInv == /\ (Heavy => BTreeOk /\ Corr /\ PoolOk /\ PiecesOk)
          /\ SearchOk /\ NoBug

(* at the end of a scenario everything is one free piece again *)
EndOk == pc = Total(sc) + 2 => Len(pcs) = 1 /\ pcs[1].s = "F" /\ pcs[1].q = RQ(sc)

---------------------------------------------------------------------------
(* scenario sets (a .cfg cannot spell records)                             *)

R(n, lay, f1, m, a, k, f2, fs) == [n |-> n, lay |-> lay, f1 |-> f1, m |-> m, a |-> a, k |-> k, f2 |-> f2, fs |-> fs]

(* small-constant scenarios (T = 2, 2 nodes / 2 carriers per page): trees of height 3 and 4 *)
ScensSmall ==
    {[name |-> "small-" \o ToString(n) \o "-" \o f1 \o "-" \o a,
      rounds |-> <<R(n, "s7", f1, n \div 2, a, n \div 4, "zig", "mid"), R(n - 1, "desc", a, n \div 3, f1, n \div 5, "asc", "s11")>>]
     : n \in {9, 20, 41}, f1 \in {"asc", "desc", "zig", "mid", "s37"}, a \in {"asc", "desc", "s11"}}

(* real constants.  Every n is coprime to 7, 11, 37 and 101 and every m + k is a prime, so that each     *)
(* order name is a permutation (GInit asserts it).  A monotone order over 530 sizes makes the root of  *)
(* the tree split a second time (height 3); 300 sizes fill a carrier page (256) and four node pages.   *)
Names == <<"asc", "desc", "zig", "mid", "s7", "s11", "s37", "s101">>
Nm(i) == Names[(i % 8) + 1]

ScensBig(v) ==
    {[name |-> "t530-v" \o ToString(v),
      rounds |-> <<R(530, IF v % 3 = 1 THEN "desc" ELSE "asc", IF v % 3 = 2 THEN "desc" ELSE "asc", 176, Nm(3 + v), 87, Nm(2 + v), Nm(5 + v))>>]}

ScensMid(v) ==
    {[name |-> "t300-" \o ToString(j) \o "-v" \o ToString(v),
      rounds |-> <<R(300, Nm(v + j), Nm(v + 3 * j + 1), 150, Nm(v + 5 * j + 2), 61, Nm(v + j + 3), Nm(v + 7 * j + 4))>>] : j \in 1..4}
    \cup {[name |-> "t120x2-v" \o ToString(v),
           rounds |-> <<R(120, Nm(v + 4), Nm(v), 60, Nm(v + 1), 29, Nm(v + 2), Nm(v + 5)),
                        R(113, Nm(v + 3), Nm(v + 6), 40, Nm(v + 7), 39, Nm(v + 4), Nm(v + 1))>>]}

ScensBig0 == ScensBig(0)
ScensBig1 == ScensBig(1)
ScensBig2 == ScensBig(2)
ScensMid0 == ScensMid(0)
ScensMid1 == ScensMid(1)
ScensMid2 == ScensMid(2)

(* thorough tier: every free order against four re-allocation orders at three sizes, two rounds each *)
ScensThorough ==
    {[name |-> "T" \o ToString(n) \o "-" \o f1 \o "-" \o a,
      rounds |-> <<R(n, IF f1 \in {"asc", "desc"} THEN "asc" ELSE "s7", f1, n \div 3 + 1, a, (n \div 6) + 1, "zig", "mid"),
                   R(n - 7, "s11", a, (n - 7) \div 4, f1, (n - 7) \div 8, "s37", "desc")>>]
     : n \in {96, 300, 530}, f1 \in {"asc", "desc", "zig", "mid", "s7", "s11", "s37", "s101"}, a \in {"asc", "desc", "mid", "s11"}}
=============================================================================
