------------------------------- MODULE SrcPos -------------------------------
(***************************************************************************)
(* Packed source positions and the global line table of srcpos.c  (C15).   *)
(*                                                                         *)
(* A SrcPos is one machine word (ULong):                                   *)
(*     bit 0                 mac   text is macro expanded                  *)
(*     bits 1 .. CNO         cno   column                                  *)
(*     next LNO bits         lno   global (serial) line number             *)
(*     top bit               free  (used by the SrcPosStack encoding)      *)
(* Real constants: CNO = 14, LNO = 64 - 14 - 1 - 1 = 48.                   *)
(*                                                                         *)
(* Every operation of srcpos.c other than the mac bit works on  p >> 1, so *)
(* a position is modelled as [mac, lc] with lc = p >> 1, a number of       *)
(* LNO + CNO + 1 bits (the free bit is the top one).  TLC integers are 32  *)
(* bit; at widths where the word is wider than that no TLC integer can     *)
(* reach the truncation limit (TLC stops with an overflow error instead of *)
(* wrapping), so truncation is the identity there: ModP2.                  *)
(*                                                                         *)
(* The global line table maps a global line number to (file, local line):  *)
(* a sequence of segments [glno, fn, flno]; sposNew appends a segment when *)
(* the file changes or the global number does not increase.                *)
(*                                                                         *)
(* Two packers are defined: PackAsWritten transcribes what include.c +     *)
(* scan.c + srcpos.c do (sposNew(..., 1) for the line, sposOffset(line,    *)
(* column-1) for a token); PackRequired is the packer the property needs   *)
(* (column saturates in its field).  Likewise two table policies.          *)
(***************************************************************************)
EXTENDS Integers, Sequences, Bitwise

CONSTANTS CNO, LNO

ASSUME CNO \in 1..20 /\ LNO \in 1..62

Wide(n)      == n >= 31
ModP2(x, n)  == IF Wide(n) THEN x ELSE x % (2^n)
ColLim       == 2^CNO                 \* first column value that does not fit
MaxCol       == ColLim - 1
EndLine      == IF Wide(LNO) THEN -1 ELSE 2^LNO - 1     \* END_LINE_NO (-1: unreachable)
LcBits       == LNO + CNO + 1
Min2(a, b)   == IF a <= b THEN a ELSE b

NoName == ""                          \* FileName 0

----------------------------------------------------------------------------
(* srcpos.c as written                                                      *)

\* # define sposSet(l, c) (((l) << SPOS_LNO_SHIFT) | ((c) << SPOS_CNO_SHIFT))
\* In the lc domain: (l << CNO) | c.  The low CNO bits of l << CNO are zero.
SposSet(l, c) ==
  [mac |-> 0,
   lc  |-> ModP2(((IF c < ColLim THEN l ELSE (l | (c \div ColLim))) * ColLim) + (c % ColLim), LcBits)]

SposNone == SposSet(0, 0)

\* return (((p >> SPOS_CNO_SHIFT)+c) << SPOS_CNO_SHIFT) | (p & SPOS_MAC_MASK);
SposOffset(p, c) == [mac |-> p.mac, lc |-> ModP2(p.lc + c, LcBits)]

\* return (spos & SPOS_LNO_MASK) >> SPOS_LNO_SHIFT;
SposGlobalLine(p) == ModP2(p.lc \div ColLim, LNO)

\* return (spos & SPOS_CNO_MASK) >> SPOS_CNO_SHIFT;
SposChar(p) == p.lc % ColLim

SposIsSpecial(p) == SposGlobalLine(p) = 0 \/ SposGlobalLine(p) = EndLine

SposMacroExpanded(p)   == [p EXCEPT !.mac = 1]
SposIsMacroExpanded(p) == p.mac = 1

\* sposCmp: compares p >> SPOS_CNO_SHIFT
SposCmp(p, q) == IF p.lc < q.lc THEN -1 ELSE IF p.lc > q.lc THEN 1 ELSE 0
SposMax(p, q) == IF p.lc > q.lc THEN p ELSE q

----------------------------------------------------------------------------
(* The global line table.  State: [t |-> Seq(segment), gp |-> gloPos].      *)
(* C index i corresponds to t[i+1]; gloArgc = Len(t).                        *)

Seg(g, f, l) == [glno |-> g, fn |-> f, flno |-> l]

TblInit == [t |-> << Seg(0, NoName, 0) >>, gp |-> 0]        \* sposInit

\* sposGrowGloLineTbl
TblGrow(T, fn, flno, glno) ==
  IF T.gp > 0 THEN [t |-> Append(T.t, Seg(glno, fn, flno)), gp |-> T.gp + 1]
              ELSE [t |-> [T.t EXCEPT ![1] = Seg(glno, fn, flno)], gp |-> 1]

TblPrev(T) == IF T.gp > 0 THEN T.t[T.gp] ELSE T.t[1]

\* the test in sposNew, as written
GrowAsWritten(T, fn, flno, glno) ==
  LET pv == TblPrev(T) IN glno <= pv.glno \/ pv.fn = NoName \/ fn # pv.fn

\* the test the property needs: grow whenever the last segment does not already
\* describe (fn, flno) for glno
GrowRequired(T, fn, flno, glno) ==
  LET pv == TblPrev(T) IN
  GrowAsWritten(T, fn, flno, glno) \/ flno # pv.flno + (glno - pv.glno)

\* sposNew(fname, flno, glno, cno): returns <<table', position>>
SposNew(T, fn, flno, glno, cno, policy) ==
  IF fn = NoName THEN << T, SposNone >>
  ELSE << IF (IF policy = "required" THEN GrowRequired(T, fn, flno, glno)
                                      ELSE GrowAsWritten(T, fn, flno, glno))
          THEN TblGrow(T, fn, flno, glno) ELSE T,
          SposSet(glno, cno) >>

\* index of the segment sposLine / sposFile pick for global line g (their for-loop)
RECURSIVE SegScan(_, _, _)
SegScan(t, g, i) ==
  IF i >= Len(t) THEN Len(t)
  ELSE IF g >= t[i].glno /\ g < t[i + 1].glno THEN i
  ELSE SegScan(t, g, i + 1)

\* the segment both loops select, or 0 for their else-branch (gloPos = 0 or line 0)
SposSegIx(T, g) == IF T.gp # 0 /\ g # 0 THEN SegScan(T.t, g, 1) ELSE 0

SposLine(T, p) ==
  IF SposIsSpecial(p) THEN 0
  ELSE LET g  == SposGlobalLine(p)
           ix == SposSegIx(T, g)
       IN IF ix # 0 THEN (g - T.t[ix].glno) + T.t[ix].flno
                    ELSE T.t[1].glno + T.t[1].flno

SposFile(T, p) ==
  IF SposIsSpecial(p) THEN T.t[1].fn
  ELSE LET ix == SposSegIx(T, SposGlobalLine(p)) IN
       IF ix # 0 THEN T.t[ix].fn ELSE T.t[1].fn

(* What comsgPrintLead / comsgPrintLine print for a position: nothing for a  *)
(* special one, else file, line, column.  (Same values as SposFile/SposLine/ *)
(* SposChar; the segment is looked up once.)                                 *)
Decode(T, p) ==
  LET g  == SposGlobalLine(p)
      sp == g = 0 \/ g = EndLine
      ix == IF sp THEN 0 ELSE SposSegIx(T, g)
  IN [special |-> sp,
      file    |-> IF ix # 0 THEN T.t[ix].fn ELSE T.t[1].fn,
      line    |-> IF sp THEN 0 ELSE IF ix # 0 THEN (g - T.t[ix].glno) + T.t[ix].flno
                                             ELSE T.t[1].glno + T.t[1].flno,
      col     |-> SposChar(p),
      mac     |-> p.mac]

\* Decode is SposFile / SposLine / SposChar (checked by TLC as DecodeLemma)
DecodeLemma(T, p) ==
  LET d == Decode(T, p) IN
  d.file = SposFile(T, p) /\ d.line = SposLine(T, p) /\ d.special = SposIsSpecial(p)

----------------------------------------------------------------------------
(* Packers: the position of a token in 1-based column c of global line g.   *)

\* include.c: sposNew(fn, flno, glno, 1) for the line;  scan.c: scTokPos() ==
\* sposOffset(scLinePos, scLineChar) with scLineChar the 0-based column.
PackAsWritten(g, c) == SposOffset(SposSet(g, 1), c - 1)

\* required: the column saturates in its own field, the line field is exact
PackRequired(g, c)  == [mac |-> 0, lc |-> ModP2(g, LNO) * ColLim + Min2(c, MaxCol)]

Pack(kind, g, c) == IF kind = "required" THEN PackRequired(g, c) ELSE PackAsWritten(g, c)

\* "the decoded column may be any function of c alone": the function is the
\* packer's own answer for column c on a reference line (global line 1).
ColFun(kind, c) == SposChar(Pack(kind, 1, c))

(***************************************************************************)
(* PosFaithful for one created position.  w = [p, g, rf, rl, c]: packed     *)
(* position, its global line, and the file / local line / column it was    *)
(* created for.  The premise g < EndLine is the representability limit of  *)
(* the line field (2^LNO - 1 is END_LINE_NO); it cannot be reached at the  *)
(* real width.                                                             *)
(***************************************************************************)
Faithful(T, w, kind) ==
  LET d == Decode(T, w.p) IN
  /\ ~d.special
  /\ d.file = w.rf
  /\ d.line = w.rl
  /\ (w.c <= MaxCol => d.col = w.c)
  /\ d.col = ColFun(kind, w.c)

Representable(w) == w.g >= 1 /\ (Wide(LNO) \/ w.g < EndLine)

(* The mac bit never disturbs the decoding. *)
MacNeutral(T, w) ==
  LET d  == Decode(T, w.p)
      dm == Decode(T, SposMacroExpanded(w.p))
  IN dm = [d EXCEPT !.mac = 1] /\ DecodeLemma(T, w.p)

(* Order of positions (sposCmp, used to sort messages) is the order of      *)
(* (global line, column) whenever both columns fit.                         *)
OrderFaithful(kind, g1, c1, g2, c2) ==
  (c1 <= MaxCol /\ c2 <= MaxCol) =>
     (SposCmp(Pack(kind, g1, c1), Pack(kind, g2, c2)) =
        (IF g1 < g2 \/ (g1 = g2 /\ c1 < c2) THEN -1
         ELSE IF g1 = g2 /\ c1 = c2 THEN 0 ELSE 1))
=============================================================================
