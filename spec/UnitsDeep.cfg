\* model only: chains of up to 7 saved forms (the replayed configuration is Units.cfg); PrintT output is ignored
SPECIFICATION Spec
CONSTANTS
  Levels = {"Q0", "Q2", "Q9"}
  MaxLen = 7
  NFuns = 4
  DoPaths = TRUE
  DoSplits = TRUE
INVARIANTS TypeOK Commute SavedDenotes SymesOnlyFromSource SplitWhole SplitDisjoint
PROPERTIES ResaveIdentity ArchiveIdentity
CHECK_DEADLOCK FALSE
