----------------------------- MODULE Containers -----------------------------
(***************************************************************************)
(* Property C20, container part: the hash table of table.c is a finite     *)
(* map, the B-tree of btree.c an ordered multimap, the priority queue of   *)
(* priq.c returns minima in order, the bit vectors of bitv.c are sets over *)
(* 0..n-1 with the usual algebra.                                          *)
(*                                                                         *)
(* The module has three layers.                                            *)
(*  1. Pure definitions: the abstract values and, for every public         *)
(*     operation of the C modules, the state after it (XxxPost) and what   *)
(*     the call must have returned (XxxOk).  These are the statement of    *)
(*     the property at the granularity of one call.                        *)
(*  2. A state machine over those values (one action per operation, with   *)
(*     the values returned by the call as action parameters).              *)
(*     TraceContainers.tla conjoins these actions with "the next recorded  *)
(*     event is this call with these results".                             *)
(*  3. A generator (GenSpec): all histories of at most MaxLen operations   *)
(*     over a small alphabet; TLC checks the model-level invariants in     *)
(*     every reachable state and prints every maximal history, which the   *)
(*     C harness replays into the real code.                               *)
(*                                                                         *)
(* What the code does where the statement is silent has been read off the  *)
(* sources and is modelled as the code has it:                             *)
(*  - tblRemoveIf does not remove entries: it passes every non-null        *)
(*    element satisfying the test to the free function once and stores     *)
(*    NULL in its place; the size is unchanged.                            *)
(*  - btreeInsert keeps duplicate keys; btreeDelete removes exactly one    *)
(*    pair with the key and reports that pair's entry; the key must be     *)
(*    present (deleting an absent key follows a branch pointer of a leaf). *)
(*  - btreeSearchEQ/GE/Min/Max may return any pair with the qualifying     *)
(*    key when keys are duplicated; Min/Max need a non-empty tree.         *)
(*  - priqExtractMin/PeekMin return any pair with the least key; on an     *)
(*    empty queue the module promises bug().                               *)
(*  - bitvResize keeps the bits below min(old,new); bits gained are        *)
(*    undefined; bitvMax of the empty set is -1.                           *)
(***************************************************************************)
EXTENDS Naturals, Integers, Sequences, FiniteSets, Bags, SequencesExt, Json, TLC

CONSTANTS Kind,      \* "T" | "B" | "P" | "V": which container GenSpec explores
          MaxLen,    \* length of the generated histories
          Keys,      \* key alphabet of the generator
          NBits,     \* bit-vector size of the generator
          Regs,      \* number of bit-vector registers of the generator
          BPrefix,   \* B-tree generator: the tree first receives keys 2,4,..,2*BPrefix (deeper trees)
          DelKeys,   \* B-tree generator: keys that may be deleted (when present)
          IntVals    \* bit-vector generator: the values loaded into the registers by bitvFromInt

---------------------------------------------------------------------------
(* helpers *)

SetMin(S) == CHOOSE x \in S : \A y \in S : x <= y
SetMax(S) == CHOOSE x \in S : \A y \in S : x >= y
Pair(p)   == <<p[1], p[2]>>
PairsOf(seq)  == {Pair(seq[i]) : i \in 1..Len(seq)}
BagOfSeq(seq) == FoldLeft(LAMBDA acc, x : acc (+) SetToBag({Pair(x)}), EmptyBag, seq)
BagOfVals(seq) == FoldLeft(LAMBDA acc, x : acc (+) SetToBag({x}), EmptyBag, seq)
Pow2(i) == 2 ^ i

---------------------------------------------------------------------------
(* 1a. Table: a finite map.  m is a function whose domain is the set of    *)
(*     present keys.                                                       *)

EmptyMap      == [x \in {} |-> 0]
MapSet(m,k,v) == [x \in DOMAIN m \cup {k} |-> IF x = k THEN v ELSE m[x]]
MapDrop(m,k)  == [x \in DOMAIN m \ {k} |-> m[x]]
MapPairs(m)   == {<<k, m[k]>> : k \in DOMAIN m}

\* lookup returns the last value stored for an equal key
TGetOk(m,k,f,v) == f = (k \in DOMAIN m) /\ (f => v = m[k])
\* tblSetElt returns the element stored
TSetOk(m,k,v,r) == r = v
\* size is the number of entries
TSizeOk(m,n)    == n = Cardinality(DOMAIN m)
\* iteration visits each entry once: as many visits as entries, and every entry among them
TIterOk(m,it)   == Len(it) = Cardinality(DOMAIN m) /\ PairsOf(it) = MapPairs(m)

RemPred(v)    == v % 2 = 1                      \* the test function the harness passes
MapRemIf(m)   == [k \in DOMAIN m |-> IF m[k] # 0 /\ RemPred(m[k]) THEN 0 ELSE m[k]]
RemFreed(m)   == LET S == {k \in DOMAIN m : m[k] # 0 /\ RemPred(m[k])}
                 IN  FoldLeft(LAMBDA acc, k : acc (+) SetToBag({m[k]}), EmptyBag, SetToSeq(S))
TRemIfOk(m,freed) == BagOfVals(freed) = RemFreed(m)
MapAdd(m,d)   == [k \in DOMAIN m |-> m[k] + d]

NoCopy == [has |-> FALSE, m |-> EmptyMap]

---------------------------------------------------------------------------
(* 1b. B-tree: an ordered multimap = a bag of <<key, entry>> pairs.        *)

BKeys(b)        == {p[1] : p \in BagToSet(b)}
BInsPost(b,k,e) == b (+) SetToBag({<<k,e>>})
BDelOk(b,k,e)   == BagIn(<<k,e>>, b)                      \* the reported entry is one stored under k
BDelPost(b,k,e) == b (-) SetToBag({<<k,e>>})               \* exactly that pair goes
BSkipOk(b,k)    == k \notin BKeys(b)
BEqOk(b,k,f,rk,e) == f = (k \in BKeys(b)) /\ (f => rk = k /\ BagIn(<<k,e>>, b))
BGeOk(b,k,f,rk,e) == LET S == {x \in BKeys(b) : x >= k}
                     IN  f = (S # {}) /\ (f => rk = SetMin(S) /\ BagIn(<<rk,e>>, b))
BMinOk(b,f,rk,e)  == f = (BKeys(b) # {}) /\ (f => rk = SetMin(BKeys(b)) /\ BagIn(<<rk,e>>, b))
BMaxOk(b,f,rk,e)  == f = (BKeys(b) # {}) /\ (f => rk = SetMax(BKeys(b)) /\ BagIn(<<rk,e>>, b))
BCheckOk(rc)      == rc = 0                                \* the structure's own audit never fails
\* an in-order walk lists every pair once, keys never decreasing
BDumpOk(b,it)     == /\ \A i \in 1..(Len(it) - 1) : it[i][1] <= it[i+1][1]
                     /\ BagOfSeq(it) = b

---------------------------------------------------------------------------
(* 1c. Priority queue: a bag of <<key, entry>> pairs.                      *)

PMinKey(q)      == SetMin(BKeys(q))
PInsPost(q,k,e) == q (+) SetToBag({<<k,e>>})
PMinOk(q,k,e)   == q # EmptyBag /\ BagIn(<<k,e>>, q) /\ k = PMinKey(q)   \* a least pair
PExtPost(q,k,e) == q (-) SetToBag({<<k,e>>})
PCountOk(q,n)   == n = BagCardinality(q)
PMapOk(q,it)    == BagOfSeq(it) = q
PHasDupKeys(q)  == \E p \in BagToSet(q) : q[p] > 1 \/ \E p2 \in BagToSet(q) : p2 # p /\ p2[1] = p[1]

---------------------------------------------------------------------------
(* 1d. Bit vectors: sets over 0..n-1; bv maps register -> set.             *)

Univ(n)          == 0..(n - 1)
VMaxOf(S)        == IF S = {} THEN -1 ELSE SetMax(S)
VCountTo(S,n)    == Cardinality({i \in S : i < n})
VOfInt(n,x)      == {i \in Univ(IF n < 31 THEN n ELSE 31) : (x \div Pow2(i)) % 2 = 1}   \* bitvFromInt needs n < 32
VToInt(S)        == FoldLeft(LAMBDA acc, i : acc + Pow2(i), 0, SetToSeq(S))
VUniq(S,org,lim) == LET W == {i \in S : i >= org /\ i < lim}
                    IN  IF Cardinality(W) = 1 THEN CHOOSE i \in W : TRUE ELSE -1
Words(n)         == (n + 63) \div 64
\* bitvResize: bits below min(old,new) are kept, everything reported lies inside the new universe
VResizeOk(v,n,n2,d) == LET m == IF n < n2 THEN n ELSE n2
                       IN  \A r \in DOMAIN v : d[r] \subseteq Univ(n2) /\ d[r] \cap Univ(m) = v[r] \cap Univ(m)

---------------------------------------------------------------------------
(* 2. The state machine.                                                   *)

VARIABLES tbl, cp,      \* the table and its copy ([has, m])
          bt,           \* B-tree bag
          pq,           \* priority-queue bag
          bv, nb,       \* registers and universe size
          hist          \* generator only: the operations so far

vars == <<tbl, cp, bt, pq, bv, nb, hist>>
cvars == <<tbl, cp, bt, pq, bv, nb>>

Init == /\ tbl = EmptyMap /\ cp = NoCopy
        /\ pq = EmptyBag
        /\ bv = [r \in 0..(Regs - 1) |-> {}] /\ nb = NBits
        /\ IF Kind = "B"
           THEN /\ bt = SetToBag({<<2 * i, i>> : i \in 1..BPrefix})
                /\ hist = [i \in 1..BPrefix |-> <<"I", 2 * i, i>>]
           ELSE /\ bt = EmptyBag /\ hist = <<>>

(* table *)
TblSet(k,v,r)  == TSetOk(tbl,k,v,r) /\ tbl' = MapSet(tbl,k,v) /\ UNCHANGED <<cp,bt,pq,bv,nb>>
TblGet(k,f,v)  == TGetOk(tbl,k,f,v) /\ UNCHANGED cvars
TblDrop(k)     == tbl' = MapDrop(tbl,k) /\ UNCHANGED <<cp,bt,pq,bv,nb>>
TblSize(n)     == TSizeOk(tbl,n) /\ UNCHANGED cvars
TblIter(it)    == TIterOk(tbl,it) /\ UNCHANGED cvars
TblCopy        == cp' = [has |-> TRUE, m |-> tbl] /\ UNCHANGED <<tbl,bt,pq,bv,nb>>
TblSwap        == cp.has /\ tbl' = cp.m /\ cp' = [has |-> TRUE, m |-> tbl] /\ UNCHANGED <<bt,pq,bv,nb>>
TblRemIf(fr)   == TRemIfOk(tbl,fr) /\ tbl' = MapRemIf(tbl) /\ UNCHANGED <<cp,bt,pq,bv,nb>>
TblMap(d)      == tbl' = MapAdd(tbl,d) /\ UNCHANGED <<cp,bt,pq,bv,nb>>

(* B-tree *)
BtIns(k,e)       == bt' = BInsPost(bt,k,e) /\ UNCHANGED <<tbl,cp,pq,bv,nb>>
BtDel(k,e)       == BDelOk(bt,k,e) /\ bt' = BDelPost(bt,k,e) /\ UNCHANGED <<tbl,cp,pq,bv,nb>>
BtEq(k,f,rk,e)   == BEqOk(bt,k,f,rk,e) /\ UNCHANGED cvars
BtGe(k,f,rk,e)   == BGeOk(bt,k,f,rk,e) /\ UNCHANGED cvars
BtMin(f,rk,e)    == BMinOk(bt,f,rk,e) /\ UNCHANGED cvars
BtMax(f,rk,e)    == BMaxOk(bt,f,rk,e) /\ UNCHANGED cvars
BtCheck(rc)      == BCheckOk(rc) /\ UNCHANGED cvars
BtDump(it)       == BDumpOk(bt,it) /\ UNCHANGED cvars

(* priority queue *)
PqIns(k,e)   == pq' = PInsPost(pq,k,e) /\ UNCHANGED <<tbl,cp,bt,bv,nb>>
PqExt(k,e)   == PMinOk(pq,k,e) /\ pq' = PExtPost(pq,k,e) /\ UNCHANGED <<tbl,cp,bt,bv,nb>>
PqPeek(k,e)  == PMinOk(pq,k,e) /\ UNCHANGED cvars
PqCount(n)   == PCountOk(pq,n) /\ UNCHANGED cvars
PqCheck(ok)  == ok /\ UNCHANGED cvars

(* bit vectors *)
VUpd(r,S)       == bv' = [bv EXCEPT ![r] = S] /\ UNCHANGED <<tbl,cp,bt,pq,nb>>
BvSet(r,i)      == i \in Univ(nb) /\ VUpd(r, bv[r] \cup {i})
BvClr(r,i)      == i \in Univ(nb) /\ VUpd(r, bv[r] \ {i})
BvTest(r,i,b)   == i \in Univ(nb) /\ b = (IF i \in bv[r] THEN 1 ELSE 0) /\ UNCHANGED cvars
BvSetAll(r)     == VUpd(r, Univ(nb))
BvClrAll(r)     == VUpd(r, {})
BvCopy(r,a)     == VUpd(r, bv[a])
BvNot(r,a)      == VUpd(r, Univ(nb) \ bv[a])
BvAnd(r,a,b)    == VUpd(r, bv[a] \cap bv[b])
BvOr(r,a,b)     == VUpd(r, bv[a] \cup bv[b])
BvMinus(r,a,b)  == VUpd(r, bv[a] \ bv[b])
BvCount(r,c)    == c = Cardinality(bv[r]) /\ UNCHANGED cvars
BvCountTo(r,n,c) == n <= nb /\ c = VCountTo(bv[r],n) /\ UNCHANGED cvars
BvMax(r,m)      == m = VMaxOf(bv[r]) /\ UNCHANGED cvars
BvEq(a,b,q)     == q = (bv[a] = bv[b]) /\ UNCHANGED cvars
BvFromInt(r,x)  == nb < 32 /\ VUpd(r, VOfInt(nb,x))
BvToInt(r,x)    == nb < 32 /\ x = VToInt(bv[r]) /\ UNCHANGED cvars
BvUniq(r,o,lm,u) == lm <= nb /\ u = VUniq(bv[r],o,lm) /\ UNCHANGED cvars
BvResize(n2,d)  == VResizeOk(bv,nb,n2,d) /\ bv' = d /\ nb' = n2 /\ UNCHANGED <<tbl,cp,bt,pq>>

---------------------------------------------------------------------------
(* 3. Generator: every history of MaxLen operations over a small alphabet. *)
(*    Values and entries are the position in the history, so every stored  *)
(*    value is distinguishable ("the last value stored").                  *)

Step  == Len(hist) + 1
Log(op) == hist' = Append(hist, op)
Specials == {"C", "W", "R", "M"}
NSpecial == Cardinality({i \in 1..Len(hist) : hist[i][1] \in Specials})

GenT == \/ \E k \in Keys : TblSet(k, Step, Step) /\ Log(<<"S", k, Step>>)
        \/ \E k \in Keys : TblGet(k, k \in DOMAIN tbl, IF k \in DOMAIN tbl THEN tbl[k] ELSE 0) /\ Log(<<"G", k>>)
        \/ \E k \in Keys : TblDrop(k) /\ Log(<<"D", k>>)
        \/ NSpecial = 0 /\ TblCopy /\ Log(<<"C">>)
        \/ NSpecial <= 1 /\ TblSwap /\ Log(<<"W">>)
        \/ NSpecial = 0 /\ TblRemIf(SetToSeq({tbl[k] : k \in {x \in DOMAIN tbl : tbl[x] # 0 /\ RemPred(tbl[x])}})) /\ Log(<<"R">>)
        \/ NSpecial = 0 /\ TblMap(1) /\ Log(<<"M">>)

\* the generator removes the pair with the least entry; which pair the code removes is its choice
GenB == \/ \E k \in Keys : BtIns(k, Step) /\ Log(<<"I", k, Step>>)
        \/ \E k \in DelKeys : k \in BKeys(bt)
              /\ BtDel(k, SetMin({p[2] : p \in {q \in BagToSet(bt) : q[1] = k}})) /\ Log(<<"D", k>>)

\* Extract on the empty queue is outside the domain: it ends the history
GenP == \/ \E k \in Keys : PqIns(k, Step) /\ Log(<<"I", k, Step>>)
        \/ pq # EmptyBag /\ (LET k == PMinKey(pq)
                                 e == SetMin({p[2] : p \in {q \in BagToSet(pq) : q[1] = k}})
                             IN  PqExt(k, e)) /\ Log(<<"X">>)
        \/ pq = EmptyBag /\ Len(hist) <= 2 /\ UNCHANGED cvars /\ Log(<<"Xempty">>)

RegSet == 0..(Regs - 1)
ResizeTo == {1, NBits + 2, 70}
GenV == \/ Len(hist) < 2 /\ \E x \in IntVals : BvFromInt(Len(hist), x) /\ Log(<<"f", Len(hist), x>>)
        \/ Len(hist) >= 2 /\
           \/ \E r \in RegSet, i \in {0, nb - 1} : i \in Univ(nb) /\ BvSet(r,i) /\ Log(<<"s", r, i>>)
           \/ \E r \in RegSet, i \in {0, nb - 1} : i \in Univ(nb) /\ BvClr(r,i) /\ Log(<<"c", r, i>>)
           \/ \E r \in RegSet : BvSetAll(r) /\ Log(<<"A", r>>)
           \/ \E r \in RegSet : BvClrAll(r) /\ Log(<<"Z", r>>)
           \/ \E r, a \in RegSet : r # a /\ BvCopy(r,a) /\ Log(<<"y", r, a>>)
           \/ \E r, a \in RegSet : BvNot(r,a) /\ Log(<<"n", r, a>>)
           \/ \E r, a, b \in RegSet : BvAnd(r,a,b) /\ Log(<<"&", r, a, b>>)
           \/ \E r, a, b \in RegSet : BvOr(r,a,b) /\ Log(<<"|", r, a, b>>)
           \/ \E r, a, b \in RegSet : BvMinus(r,a,b) /\ Log(<<"-", r, a, b>>)
           \/ \E n2 \in ResizeTo : ~(\E i \in 1..Len(hist) : hist[i][1] = "R")
                 /\ BvResize(n2, [r \in RegSet |-> bv[r] \cap Univ(n2)]) /\ Log(<<"R", n2>>)

Ended == Len(hist) > 0 /\ hist[Len(hist)][1] = "Xempty"

GenNext == /\ Len(hist) < MaxLen /\ ~Ended
           /\ CASE Kind = "T" -> GenT [] Kind = "B" -> GenB [] Kind = "P" -> GenP [] Kind = "V" -> GenV

GenSpec == Init /\ [][GenNext]_vars

---------------------------------------------------------------------------
(* Model-level invariants (checked by TLC in every reachable state of the  *)
(* generator) and the behaviour export.                                    *)

TypeOK == /\ IsABag(bt) /\ IsABag(pq)
          /\ \A r \in DOMAIN bv : bv[r] \subseteq Univ(nb)
          /\ cp.has \in BOOLEAN

\* "returns minima in order": two extractions with no insertion between them never go down.
\* (hist holds only operations; the keys are recovered by replaying the prefix.)
RECURSIVE PReplay(_, _, _)
PReplay(h, i, q) ==      \* sequence of <<op, extracted key or -1>>, q the bag before step i
  IF i > Len(h) THEN <<>>
  ELSE IF h[i][1] = "I" THEN <<-1>> \o PReplay(h, i + 1, PInsPost(q, h[i][2], h[i][3]))
  ELSE IF h[i][1] = "X" THEN
       LET k == PMinKey(q)
           e == SetMin({p[2] : p \in {x \in BagToSet(q) : x[1] = k}})
       IN  <<k>> \o PReplay(h, i + 1, PExtPost(q, k, e))
  ELSE <<-1>>
MinimaInOrder ==
  Kind = "P" =>
    LET ks == PReplay(hist, 1, EmptyBag)
    IN  \A i \in 1..(Len(ks) - 1) : (ks[i] >= 0 /\ ks[i+1] >= 0) => ks[i] <= ks[i+1]

\* a copy is not affected by later operations on the original until it is swapped in
CopyIsSnapshot ==
  Kind = "T" => (cp.has => \E i \in 1..Len(hist) : hist[i][1] \in {"C", "W"})

\* every maximal history is printed once (the harness replays them)
Maximal == Len(hist) = MaxLen \/ Ended
Export == Maximal => PrintT(ToJson([k |-> Kind, h |-> hist]))

=============================================================================
