SPECIFICATION Spec
CONSTANTS SIntW = 8
          WordW = 8
          FullA = TRUE
          FullB = FALSE
INVARIANT AllOk
CHECK_DEADLOCK FALSE
