----------------------------- MODULE BuiltinsGen -----------------------------
(***************************************************************************)
(* Replay generator for C04.  Enumerates, for every builtin of the table,  *)
(* the boundary product of its argument types restricted to the domain,    *)
(* evaluates the definition, and exports one line per case:                *)
(*     CASE {"op":..., "args":[...], "res":[...] | "Unspecified"}          *)
(* The harness renders each case as an Aldor application on literal        *)
(* constants and runs it on the three evaluators.                          *)
(*                                                                         *)
(* Boundary sets (per type): 0, +-1, 2^k, 2^k +- 1 for every k below the   *)
(* word size, word limits, both signs; both booleans; all 128 ASCII        *)
(* characters.  Binary operations take the product of two boundary sets;   *)
(* with Stride > 1 only the pairs (i, j) of the index grid with            *)
(* (i + 3j + Offset) % Stride = 0 are kept (every boundary value still     *)
(* occurs on both sides), plus the full product of the small core sets.    *)
(* Stride = 1 is the full product.                                         *)
(***************************************************************************)
EXTENDS BuiltinsSig      \* Builtins + Json + the SIG line (table export)

CONSTANTS Stride,    \* sampling stride of binary products (1 = full)
          Stride3,   \* sampling stride of ternary/quaternary products
          Offset,    \* chosen by the seed
          OpFilter   \* set of operation names to export ({} = all)

VARIABLES op, args, ph

---------------------------------------------------------------------------
(* boundary sets                                                            *)
PosBnd(W)  == UNION {{Pow2Z(k), Sub(Pow2Z(k), One), Add(Pow2Z(k), One)} : k \in 0..(W - 1)}
SBndSet(W) == {z \in PosBnd(W) \cup {Neg(z) : z \in PosBnd(W)} : InS(z, W)}
UBndSet(W) == {z \in PosBnd(W) \cup {UMax(W), Sub(UMax(W), One)} : InU(z, W)}
Half(W)    == W \div 2
SCoreSet(W) ==
  {z \in {Zero, One, Neg(One), FromInt(2), FromInt(3), FromInt(-3), FromInt(10), FromInt(-7),
          SMax(W), SMin(W), Add(SMin(W), One),
          Pow2Z(Half(W)), Add(Pow2Z(Half(W)), One), Neg(Sub(Pow2Z(Half(W)), One)),
          Neg(Pow2Z(W - 2)), Sub(Pow2Z(Half(W) - 1), One)} : InS(z, W)}
UCoreSet(W) ==
  {z \in {Zero, One, FromInt(2), FromInt(3), FromInt(10), UMax(W), Sub(UMax(W), One),
          Pow2Z(W - 1), Sub(Pow2Z(W - 1), One), Add(Pow2Z(W - 1), One),
          Pow2Z(Half(W)), Sub(Pow2Z(Half(W)), One), Add(Pow2Z(Half(W)), One)} : InU(z, W)}

BKs == {1, 2, 3, 7, 8, 15, 16, 17, 29, 30, 31, 32, 33, 47, 48, 61, 62, 63, 64, 65, 95, 96, 127, 128, 129, 191, 255, 256}
BPos == UNION {{Pow2Z(k), Sub(Pow2Z(k), One), Add(Pow2Z(k), One)} : k \in BKs}
        \cup {Zero, Z(FALSE, MFromDigits(<<1,2,3,4,5,6,7,8,9,0,1,2,3,4,5,6,7,8,9,0,1,2,3,4,5,6,7,8,9,0>>, 10)),
              Z(FALSE, MFromDigits(<<1,0,0,0,0,0,0,0,0,0,0,0,0,0,0,0,0,0,0,0>>, 10))}
BBndSet  == BPos \cup {Neg(z) : z \in BPos}
BCoreSet == {Zero, One, Neg(One), FromInt(2), FromInt(-3), FromInt(10),
             Neg(Pow2Z(31)), Add(Pow2Z(32), One),
             Pow2Z(63), Neg(Pow2Z(63)), Sub(Pow2Z(63), One),
             Pow2Z(64), Neg(Add(Pow2Z(64), One)), Sub(Pow2Z(64), One),
             Pow2Z(128), Neg(Sub(Pow2Z(128), One))}

SFloLits == {"0.0", "1.0", "-1.0", "0.5", "2.0", "3.0", "-3.0", "0.1", "1.5", "16777216.0", "16777217.0",
             "3.4028235e38", "-3.4028235e38", "1.17549435e-38", "1.0e-45", "1.1920929e-7", "1.0e10",
             "123456.789", "-0.75"}
DFloLits == {"0.0", "1.0", "-1.0", "0.5", "2.0", "3.0", "-3.0", "0.1", "1.5", "9007199254740992.0",
             "9007199254740993.0", "1.7976931348623157e308", "-1.7976931348623157e308",
             "2.2250738585072014e-308", "4.9e-324", "2.220446049250313e-16", "1.0e100",
             "123456.789", "-0.75"}
FloCore(t) == IF t = "SFlo" THEN {"0.0", "1.0", "-1.0", "0.5", "3.0", "0.1", "3.4028235e38", "1.0e-45"}
              ELSE {"0.0", "1.0", "-1.0", "0.5", "3.0", "0.1", "1.7976931348623157e308", "4.9e-324"}

TSet(t) ==
  CASE t = "Bool" -> BOOLEAN
    [] t = "Char" -> 0..127
    [] t = "Byte" -> UBndSet(ByteW)
    [] t = "HInt" -> SBndSet(HIntW)
    [] t = "SInt" -> SBndSet(SIntW)
    [] t = "Word" -> UBndSet(WordW)
    [] t = "BInt" -> BBndSet
    [] t = "SFlo" -> SFloLits
    [] t = "DFlo" -> DFloLits
TCore(t) ==
  CASE t = "Bool" -> BOOLEAN
    [] t = "Char" -> {0, 9, 10, 32, 47, 48, 57, 58, 64, 65, 90, 91, 96, 97, 122, 123, 127}
    [] t = "Byte" -> UCoreSet(ByteW)
    [] t = "HInt" -> SCoreSet(HIntW)
    [] t = "SInt" -> SCoreSet(SIntW)
    [] t = "Word" -> UCoreSet(WordW)
    [] t = "BInt" -> BCoreSet
    [] t = "SFlo" -> FloCore(t)
    [] t = "DFlo" -> FloCore(t)

(* sequences (fixed order) so that the stride refers to stable indices      *)
TSeq  == [t \in {"Bool", "Char", "Byte", "HInt", "SInt", "Word", "BInt", "SFlo", "DFlo"} |-> SetToSeq(TSet(t))]
TCSeq == [t \in {"Bool", "Char", "Byte", "HInt", "SInt", "Word", "BInt", "SFlo", "DFlo"} |-> SetToSeq(TCore(t))]
SmallK == {FromInt(k) : k \in 0..(SIntW - 1)}
SmallKSeq == SetToSeq(SmallK)

Keep2(i, j)       == (i + 3 * j + Offset) % Stride = 0
Keep3(i, j, k)    == (i + 3 * j + 7 * k + Offset) % Stride3 = 0
Keep4(i, j, k, l) == (i + 3 * j + 7 * k + 11 * l + Offset) % Stride3 = 0

Pairs(sa, sb, ca, cb) ==
  {<<sa[p[1]], sb[p[2]]>> : p \in {q \in (1..Len(sa)) \X (1..Len(sb)) : Keep2(q[1], q[2])}}
  \cup (ca \X cb)
Triples(sa, sb, sc) ==
  {<<sa[p[1]], sb[p[2]], sc[p[3]]>> :
       p \in {q \in (1..Len(sa)) \X (1..Len(sb)) \X (1..Len(sc)) : Keep3(q[1], q[2], q[3])}}
Quads(sa, sb, sc, sd) ==
  {<<sa[p[1]], sb[p[2]], sc[p[3]], sd[p[4]]>> :
       p \in {q \in (1..Len(sa)) \X (1..Len(sb)) \X (1..Len(sc)) \X (1..Len(sd)) : Keep4(q[1], q[2], q[3], q[4])}}

(* modular operations: n over boundary moduli, residues over 0, 1, n-1, n\div 2, ... *)
ModN == {z \in SCoreSet(SIntW) \cup {FromInt(5), FromInt(11), Add(Pow2Z(Half(SIntW)), FromInt(15))} : Lt(Zero, z)}
ModRes(n) == {z \in {Zero, One, FromInt(2), FromInt(3), Sub(n, One), Sub(n, FromInt(2)),
                     QuoRem(n, FromInt(2)).q, Add(QuoRem(n, FromInt(2)).q, One),
                     Pow2Z(Half(SIntW)), Sub(Pow2Z(Half(SIntW)), One), Sub(Pow2Z(Half(SIntW) - 1), One)} :
                ~z.neg /\ Lt(z, n)}
MStride == IF Stride > 4 THEN 3 ELSE 1
ModCases == UNION { LET rs == SetToSeq(ModRes(n)) IN
                    {<<rs[p[1]], rs[p[2]], n>> :
                        p \in {q \in (1..Len(rs)) \X (1..Len(rs)) : (q[1] + 2 * q[2] + Offset) % MStride = 0}}
                  : n \in ModN}

ShiftKs  == {FromInt(k) : k \in {0, 1, 2, 7, 15, 16, 17, 31, 32, 33, 62, 63, 64, 65, 100, 128, 200}}
PowBases == {Zero, One, Neg(One), FromInt(2), FromInt(-2), FromInt(3), FromInt(-3), FromInt(10),
             Add(Pow2Z(32), One), Neg(Pow2Z(63)), Sub(Pow2Z(64), One)}
PowExps  == {FromInt(k) : k \in {0, 1, 2, 3, 4, 5, 7, 8, 16, 31, 32, 33, 64}}
PMBases  == {Zero, One, Neg(One), FromInt(2), FromInt(-3), FromInt(10), Add(Pow2Z(32), One), Neg(Pow2Z(63))}
PMExps   == {FromInt(k) : k \in {0, 1, 2, 3, 5, 16, 33}}
PowMods  == {One, Neg(One), FromInt(2), FromInt(7), FromInt(-7), FromInt(1000), Add(Pow2Z(32), One),
             Sub(Pow2Z(63), One), Neg(Pow2Z(64)), Add(Pow2Z(64), One)}

Txt(z) == DecText(z)
RadixLits == { <<50, 114, 49, 48, 49>>,                  \* 2r101
               <<49, 54, 114, 102, 102>>,                \* 16rff
               <<49, 54, 114, 70, 70>>,                  \* 16rFF
               <<51, 54, 114, 122, 122>>,                \* 36rzz
               <<56, 114, 55, 55, 55>>,                  \* 8r777
               <<49, 48, 114, 49, 50, 51>>,              \* 10r123
               <<48, 48, 55>>, <<48>> }                  \* 007, 0
ArrSIntLits == {Txt(z) : z \in {x \in SBndSet(SIntW) : ~x.neg}} \cup RadixLits
               \cup {<<49, 54, 114>> \o [i \in 1..15 |-> 102]}                     \* 16rfffffffffffffff
ArrBIntLits == {Txt(z) : z \in {x \in BBndSet : ~x.neg}} \cup RadixLits
               \cup {<<49, 54, 114>> \o [i \in 1..40 |-> 102]}

Blank(n) == [i \in 1..n |-> 32]
FormatXs(t) == LET sq == TSeq[t] IN TCore(t) \cup {sq[i] : i \in {j \in 1..Len(sq) : (j + Offset) % Stride3 = 0}}
FormatCases(t) == {<<x, Blank(IF t = "BInt" THEN 90 ELSE 24), i>> : x \in FormatXs(t), i \in {Zero, FromInt(3)}}
ScanTexts == { <<49, 50, 51>>, <<45, 52, 53, 120>>, <<48>>, <<55, 32, 56>>, <<45, 49>>,
               <<57, 50, 50, 51, 51, 55, 50, 48, 51, 54, 56, 53, 52, 55, 55, 53, 56, 48, 55>>,
               <<45, 57, 50, 50, 51, 51, 55, 50, 48, 51, 54, 56, 53, 52, 55, 55, 53, 56, 48, 56>>,
               <<120, 120, 52, 50, 121>>, <<49, 50, 51, 52, 53, 54, 55, 56, 57, 48, 49, 50, 51, 52, 53, 54, 55, 56, 57, 48, 49, 50>> }
ScanCases == {<<s, i>> : s \in ScanTexts, i \in {Zero, One, FromInt(2)}}

RawCases(o) ==
  LET ts == Sig(o).args  n == Len(ts) IN
  CASE o \in {"SIntShiftUp", "SIntShiftDn", "SIntBit"} ->
           Pairs(TSeq["SInt"], SmallKSeq, TCore("SInt"), SmallK)
    [] o = "CharNum" -> {<<FromInt(c)>> : c \in 0..127}
    [] o \in {"SIntPlusMod", "SIntMinusMod", "SIntTimesMod"} -> ModCases
    [] o = "SIntTimesModInv" -> {<<FromInt(5), FromInt(7), FromInt(11), "0.09090909090909091">>}
    [] o \in {"BIntShiftUp", "BIntShiftDn", "BIntShiftRem", "BIntBit"} ->
           LET zs == TSeq["BInt"]  ks == SetToSeq(ShiftKs)  st == IF Stride > 8 THEN 8 ELSE Stride
           IN {<<zs[p[1]], ks[p[2]]>> : p \in {q \in (1..Len(zs)) \X (1..Len(ks)) : (q[1] + 3 * q[2] + Offset) % st = 0}}
              \cup ({Zero, One, Neg(One), Pow2Z(64), Neg(Add(Pow2Z(64), One))} \X ShiftKs)
    [] o \in {"BIntSIPower", "BIntBIPower"} -> PowBases \X PowExps
    [] o = "BIntPowerMod" -> PMBases \X PMExps \X PowMods
    [] o = "ArrToSInt" -> {<<s>> : s \in ArrSIntLits}
    [] o = "ArrToBInt" -> {<<s>> : s \in ArrBIntLits}
    [] o \in {"ArrToSFlo", "ArrToDFlo"} ->
           {<<s>> : s \in (IF o = "ArrToSFlo" THEN SFloLits ELSE DFloLits)}
    [] o = "FormatSInt" -> FormatCases("SInt")
    [] o = "FormatBInt" -> FormatCases("BInt")
    [] o \in {"ScanSInt", "ScanBInt"} -> ScanCases
    [] o \in {"SFloRPlus", "SFloRMinus", "SFloRTimes", "SFloRDivide",
              "DFloRPlus", "DFloRMinus", "DFloRTimes", "DFloRDivide"} ->
           TCore(ts[1]) \X TCore(ts[1]) \X {FromInt(k) : k \in 0..4}
    [] o \in {"SFloRTimesPlus", "DFloRTimesPlus"} ->
           {<<x, y, x, k>> : x \in TCore(ts[1]), y \in TCore(ts[1]), k \in {FromInt(j) : j \in 0..4}}
    [] o \in {"SFloRound", "DFloRound"} -> TSet(ts[1]) \X {FromInt(k) : k \in 0..4}
    [] o = "SFloAssemble" -> {<<s, e, m>> : s \in BOOLEAN, e \in {FromInt(-3), Zero, FromInt(5)},
                                           m \in {Zero, One, Pow2Z(22), Sub(Pow2Z(23), One)}}
    [] o = "DFloAssemble" -> {<<s, e, m, Zero>> : s \in BOOLEAN, e \in {FromInt(-3), Zero, FromInt(5)},
                                                 m \in {Zero, One, Pow2Z(19), Sub(Pow2Z(20), One)}}
    [] n = 0 -> {<<>>}
    [] n = 1 -> {<<x>> : x \in TSet(ts[1])}
    [] n = 2 -> Pairs(TSeq[ts[1]], TSeq[ts[2]], TCore(ts[1]), TCore(ts[2]))
    [] n = 3 -> Triples(TCSeq[ts[1]], TCSeq[ts[2]], TCSeq[ts[3]])
    [] n = 4 -> Quads(TCSeq[ts[1]], TCSeq[ts[2]], TCSeq[ts[3]], TCSeq[ts[4]])

IntLike(o) == \A i \in 1..Len(Sig(o).args) : ~IsFloType(Sig(o).args[i])
Cases(o) == IF IntLike(o) THEN {a \in RawCases(o) : InDomain(o, a)} ELSE RawCases(o)

---------------------------------------------------------------------------
Ops == IF OpFilter = {} THEN OpNames ELSE OpNames \cap OpFilter

Init == op \in Ops /\ args = <<>> /\ ph = 0
Next == \/ /\ ph = 0 /\ args' \in Cases(op) /\ ph' = 1 /\ op' = op
        \/ /\ ph = 1 /\ ph' = 2 /\ UNCHANGED <<op, args>>
           /\ LET sg == Sig(op) IN
                PrintT("CASE " \o ToJson([op |-> op, args |-> EncSeq(args, sg.args), res |-> EncRes(op, args)]))
Spec == Init /\ [][Next]_<<op, args, ph>>

(* the definition always yields values of the declared result types          *)
Typed == ph = 1 => ResultTyped(op, args)
=============================================================================
