\* Scenario behaviours of the free tree at the constants of store.c: MixedBTreeT = 16, node = 8 + 32*24 = 776 bytes
\* (5 per 4096-byte page, 216 bytes slack), carrier = 16 bytes (256 per page).  Scenario set chosen by the check.
SPECIFICATION GenSpec
CONSTANTS
  T = 16
  PgBytes = 4096
  NodeHead = 8
  PartBytes = 24
  CarBytes = 16
  KeySet = {}
  MaxCount = 1
  FullCheck = FALSE
  Probe = "none"
  Scens <- ScensMid0
  Sparse = TRUE
INVARIANTS GenInv EndOk
CHECK_DEADLOCK FALSE
