SPECIFICATION Spec
CONSTANTS
  Inputs = {i1, i2}
  Cfgs = {c1, c2, c3}
  Values = {o1, o2}
  MaxLen = 4
INVARIANTS Complete Witness Minimal SeenIsFirst
PROPERTY ObsStable
CHECK_DEADLOCK FALSE
