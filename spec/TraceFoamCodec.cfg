SPECIFICATION TraceSpec
CONSTANTS
  Hazard = {"Prog", "TR", "BInt"}
  BigCount = 256
  Export = FALSE
INVARIANT RecordedRoundTrip
CHECK_DEADLOCK FALSE
