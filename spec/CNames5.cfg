SPECIFICATION Spec
CONSTANTS
  Chars = {"a", "b", "!", "_", " "}
  MaxLen = 5
  IdLens = {0, 3, 4, 7, 8, 12}
  HMod = 3
  Indices = {0, 1, 10}
  MinIdLen = 7
INVARIANTS CollisionExact IndexedDistinct Sanity GlobalsDistinctUnlimited
CHECK_DEADLOCK FALSE
