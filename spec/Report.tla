------------------------------- MODULE Report -------------------------------
(***************************************************************************)
(* The REPORT of diagnostics as the user reads it in the default message   *)
(* style (comsg.c: comsgFini, comsgReportFile, comsgReportLine,            *)
(* comsgPrintLine, comsgPrintDots, comsgPrintLead).                 (C15)  *)
(*                                                                         *)
(*     "foo.as", line 10: f(x) == y +-+ 1        heading + echoed source   *)
(*                        ........^..^            carets                   *)
(*     [L10 C9] #2 (Warning) ...                  leads                    *)
(*     [L10 C12] #1 (Error) ...                                            *)
(*                                                                         *)
(* The heading is the only place of the report where the FILE is named; a  *)
(* lead only repeats line and column.  So the report is right only if      *)
(* every message stands under a heading that names its own file and line,  *)
(* the echoed text is that line of THAT file, and a caret stands in its    *)
(* column.                                                                 *)
(*                                                                         *)
(* Two definitions:                                                        *)
(*  Report(Tb, ms, ...)  what comsg.c prints for the messages ms (packed   *)
(*        positions, in the order of generation), transcribed: reverse to  *)
(*        generation order, stable insertion sort by sposCmp unless        *)
(*        -Mno-sort, maximal runs of equal GLOBAL line number, per run a   *)
(*        heading decoded from the run's first position, the dots line,    *)
(*        one lead per message (a message whose text equals the previous   *)
(*        one of the run is not repeated).                                 *)
(*  ReqReport(ws, ...)   what is REQUIRED, stated on the positions the      *)
(*        messages were created for ([g, rf, rl, c]: physical line, file,  *)
(*        line, column), without any reference to the packed word or the   *)
(*        line table: messages on the same physical line share one         *)
(*        heading, which names (rf, rl); a new heading whenever the        *)
(*        physical line -- hence whenever file OR line -- changes.         *)
(* ReportFaithful: the two are equal for every choice of messages.  TLC    *)
(* enumerates all layouts of the includer within the bounds (Include.tla's *)
(* environment) and, in every final state, every ordered choice of up to   *)
(* MaxSel remembered lines with messages in several columns each, sorted   *)
(* and unsorted; this contains every layout in which two messages adjacent *)
(* in report order have the same line number in different files or in      *)
(* differently renumbered stretches of one file.                           *)
(*                                                                         *)
(* Constants selecting code-as-written / required / hypothetical variants: *)
(*   HeadPolicy  "aswritten": when the line of the named file cannot be    *)
(*               read (sposLineText fails: the file that a #line names is  *)
(*               shorter) comsgPrintLine prints NO heading, so the file is *)
(*               not named at all;                                         *)
(*               "required": the heading is printed, without echo.         *)
(*   Grouping    "gline" as written; "lline" = runs of equal LOCAL line    *)
(*               number (a plausible wrong implementation: TLC must find   *)
(*               the counterexample, which shows that the enumeration      *)
(*               reaches the class); "fileline" = runs of equal decoded    *)
(*               (file, line): differs from "gline" only where two         *)
(*               different lines are renumbered to the same (file, line),  *)
(*               e.g. `#line 4' twice; both print headings that name the   *)
(*               right file and line, the requirement is stated on the     *)
(*               physical line.                                            *)
(***************************************************************************)
EXTENDS Include, SequencesExt

CONSTANTS HeadPolicy,   \* "aswritten" | "required"
          Grouping,     \* "gline" | "lline" | "fileline"
          SrcLen,       \* exhaustive environment: every named file has exactly SrcLen readable lines
          ColSeq,       \* exhaustive environment: columns of the messages on one line, in generation order
          MaxSel        \* exhaustive environment: lines chosen per report

\* values for ColSeq (a configuration file cannot spell a sequence)
ColSeqOvf == << 3, 1, 9 >>           \* at CNO = 2: columns 3 and 9 are shown alike (9 saturates)
ColSeqOv4 == << 3, 1, 9, 4 >>
ColSeqFit == << 3, 1, 2 >>
ColSeqTwo == << 3, 1 >>

----------------------------------------------------------------------------
(* comsg.c as written.  A message is [p, tx, id, c]: packed position, text, *)
(* tag, and (for ColOf only) the column it was created for.                 *)

\* lisort(): insertion sort that moves an element left while its predecessor is
\* strictly greater, i.e. a stable sort by sposCmp
InsertMsg(s, m) ==
  LET k == Cardinality({i \in 1..Len(s) : SposCmp(s[i].p, m.p) <= 0}) IN
  SubSeq(s, 1, k) \o << m >> \o SubSeq(s, k + 1, Len(s))

SortMsgs(ms) == FoldLeft(InsertMsg, << >>, ms)

GKey(Tb, m) ==
  CASE Grouping = "gline" -> << SposGlobalLine(m.p) >>
    [] Grouping = "lline" -> << SposLine(Tb, m.p) >>
    [] OTHER              -> << SposFile(Tb, m.p), SposLine(Tb, m.p) >>

\* comsgReportFile: for (n = 1; ...; n++) if (key(comsgv[i0+n]) != key(comsgv[i0])) break;
SplitRuns(Tb, s) ==
  FoldLeft(LAMBDA acc, m :
             IF acc # << >> /\ GKey(Tb, acc[Len(acc)][1]) = GKey(Tb, m)
             THEN [acc EXCEPT ![Len(acc)] = Append(@, m)]
             ELSE Append(acc, << m >>),
           << >>, s)

\* comsgPrintDots: a caret is printed only at or to the right of the previous one + 1
Dots(run, ColOf(_)) ==
  FoldLeft(LAMBDA acc, m :
             IF SposIsSpecial(m.p) THEN acc
             ELSE LET c == ColOf(m) IN
                  [cno |-> c + 1, out |-> IF c - acc.cno >= 0 THEN Append(acc.out, c) ELSE acc.out],
           [cno |-> 1, out |-> << >>], run).out

\* comsgReportLine: if (strcmp(lastText, co->text)) print lead + text
Leads(Tb, run, ColOf(_)) ==
  FoldLeft(LAMBDA acc, m :
             LET d == Decode(Tb, m.p) IN
             [last |-> m.tx,
              out  |-> IF m.tx # acc.last
                       THEN Append(acc.out, [id |-> m.id,
                                             ln |-> IF d.special THEN -1 ELSE d.line,
                                             col |-> IF d.special THEN -1 ELSE ColOf(m)])
                       ELSE acc.out],
           [last |-> 0, out |-> << >>], run).out

(* sposLineText(): the text of line lno of the file named f, read with a     *)
(* one-entry cache (lastfname, lastlno, lastftell) that lets a later lookup  *)
(* in the same file continue where the previous one stopped.  FLen(f) is the *)
(* number of lines the file has on disk; a file offset is modelled as the    *)
(* number of the line that starts there (FLen(f) + 1 = end of file).  The    *)
(* lookup fails (rc = -1) when the end of the file is met while lines are    *)
(* skipped; when no line has to be skipped it succeeds even at the end of    *)
(* the file, with an empty text.                                             *)
CacheInit == [f |-> NoName, lno |-> 1, pos |-> 1]

LineText(cs, f, lno, FLen(_)) ==
  LET cont == cs.f = f /\ cs.lno <= lno
      i0   == IF cont THEN cs.lno ELSE 1
      p0   == IF cont THEN cs.pos ELSE 1
      n    == FLen(f)
      ok   == p0 + (lno - i0) <= n + 1
      p1   == IF ok THEN p0 + (lno - i0) ELSE n + 1
  IN [ok |-> ok,
      at |-> IF ok /\ p1 <= n THEN p1 ELSE 0,        \* the line whose text is returned (0: empty text)
      cs |-> [f |-> f, lno |-> lno + 1, pos |-> IF ok /\ p1 <= n THEN p1 + 1 ELSE n + 1]]

\* comsgPrintLine for the run's first position, then the dots and the leads
Group(Tb, run, FLen(_), ColOf(_), cs) ==
  LET d    == Decode(Tb, run[1].p)
      lt   == IF d.special THEN [ok |-> FALSE, at |-> 0, cs |-> cs] ELSE LineText(cs, d.file, d.line, FLen)
      head == ~d.special /\ (lt.ok \/ HeadPolicy = "required")
  IN [cs  |-> lt.cs,
      grp |-> [head   |-> head,
               file   |-> IF head THEN d.file ELSE "",
               line   |-> IF head THEN d.line ELSE -1,
               echo   |-> IF lt.ok THEN lt.at ELSE 0,     \* the text shown is line `echo' of file `file' (0: none)
               carets |-> Dots(run, ColOf),
               leads  |-> Leads(Tb, run, ColOf)]]

Groups(Tb, runs, FLen(_), ColOf(_), cs0) ==
  FoldLeft(LAMBDA acc, run : LET r == Group(Tb, run, FLen, ColOf, acc.cs) IN
                             [cs |-> r.cs, out |-> Append(acc.out, r.grp)],
           [cs |-> cs0, out |-> << >>], runs)

\* [cs |-> cache afterwards, out |-> the groups printed]
Report(Tb, ms, sort, FLen(_), ColOf(_), cs0) ==
  Groups(Tb, SplitRuns(Tb, IF sort THEN SortMsgs(ms) ELSE ms), FLen, ColOf, cs0)

\* -Mpreview: every message is reported alone when it is generated
Preview(Tb, ms, FLen(_), ColOf(_), cs0) ==
  Groups(Tb, [i \in 1..Len(ms) |-> << ms[i] >>], FLen, ColOf, cs0)

----------------------------------------------------------------------------
(* The requirement.  w = [g, rf, rl, c, tx, id]; ShownCol(w) is the column  *)
(* printed for w (the column itself when it fits its field).                *)

ReqInsert(s, w, ShownCol(_)) ==
  LET k == Cardinality({i \in 1..Len(s) : s[i].g < w.g \/ (s[i].g = w.g /\ ShownCol(s[i]) <= ShownCol(w))}) IN
  SubSeq(s, 1, k) \o << w >> \o SubSeq(s, k + 1, Len(s))

ReqRuns(s) ==
  FoldLeft(LAMBDA acc, w :
             IF acc # << >> /\ acc[Len(acc)][1].g = w.g
             THEN [acc EXCEPT ![Len(acc)] = Append(@, w)]
             ELSE Append(acc, << w >>),
           << >>, s)

ReqGroup(run, FLen(_), ShownCol(_)) ==
  LET w == run[1] IN
  [head   |-> TRUE,
   file   |-> w.rf,
   line   |-> w.rl,
   echo   |-> IF w.rl >= 1 /\ w.rl <= FLen(w.rf) THEN w.rl ELSE 0,
   carets |-> FoldLeft(LAMBDA acc, x :
                         LET c == ShownCol(x) IN
                         [cno |-> c + 1, out |-> IF c >= acc.cno THEN Append(acc.out, c) ELSE acc.out],
                       [cno |-> 1, out |-> << >>], run).out,
   leads  |-> FoldLeft(LAMBDA acc, x :
                         [last |-> x.tx,
                          out  |-> IF x.tx # acc.last
                                   THEN Append(acc.out, [id |-> x.id, ln |-> x.rl, col |-> ShownCol(x)])
                                   ELSE acc.out],
                       [last |-> 0, out |-> << >>], run).out]

ReqReport(ws, sort, FLen(_), ShownCol(_)) ==
  LET runs == ReqRuns(IF sort THEN FoldLeft(LAMBDA s, w : ReqInsert(s, w, ShownCol), << >>, ws) ELSE ws) IN
  [i \in 1..Len(runs) |-> ReqGroup(runs[i], FLen, ShownCol)]

\* consequences worth stating on their own (both follow from equality with ReqReport):
\* every lead stands under a heading naming its own file and line ...
UnderOwnHeading(rep, ws) ==
  \A i \in 1..Len(rep) : \A j \in 1..Len(rep[i].leads) :
     \A k \in 1..Len(ws) : ws[k].id = rep[i].leads[j].id =>
        rep[i].head /\ rep[i].file = ws[k].rf /\ rep[i].line = ws[k].rl
\* ... and in a sorted report the messages of one physical line are under ONE heading
OneHeadingPerLine(rep, ws) ==
  \A k1, k2 \in 1..Len(ws) : ws[k1].g = ws[k2].g =>
     \A i1, i2 \in 1..Len(rep) :
        ((\E j \in 1..Len(rep[i1].leads) : rep[i1].leads[j].id = ws[k1].id) /\
         (\E j \in 1..Len(rep[i2].leads) : rep[i2].leads[j].id = ws[k2].id)) => i1 = i2

----------------------------------------------------------------------------
(* Exhaustive environment (Include.tla's Init/Next): in every final state   *)
(* every ordered choice of up to MaxSel remembered lines, each with one      *)
(* message per column of ColSeq (texts repeat, so the not-repeated rule is  *)
(* exercised), sorted and unsorted.                                         *)

FLenEx(f)  == SrcLen
ShownEx(w) == ColFun(Packer, w.c)
ColEx(m)   == SposChar(m.p)

WMsgs(i) == [k \in 1..Len(ColSeq) |->
               [g |-> wits[i].g, rf |-> wits[i].rf, rl |-> wits[i].rl, c |-> ColSeq[k],
                tx |-> 1 + (ColSeq[k] % 3), id |-> << i, k >>]]
PackMsg(w) == [p |-> Pack(Packer, w.g, w.c), tx |-> w.tx, id |-> w.id, c |-> w.c]

LineChoices(n) ==
  UNION {{s \in [1..k -> 1..n] : \A a, b \in 1..k : a # b => s[a] # s[b]} : k \in 1..Min2(MaxSel, n)}

FaithfulFor(sel, sort) ==
  LET ws  == FoldLeft(LAMBDA acc, i : acc \o WMsgs(i), << >>, sel)
      ms  == [k \in 1..Len(ws) |-> PackMsg(ws[k])]
      rep == Report(T, ms, sort, FLenEx, ColEx, CacheInit).out
  IN /\ rep = ReqReport(ws, sort, FLenEx, ShownEx)
     /\ UnderOwnHeading(rep, ws)
     /\ sort => OneHeadingPerLine(rep, ws)

Usable == \A i \in 1..Len(wits) : Representable(wits[i])

ReportFaithful ==
  (done /\ Usable) =>
     /\ \A sel \in LineChoices(Len(wits)) :
           /\ FaithfulFor(sel, FALSE)
           /\ (\A a \in 1..(Len(sel) - 1) : sel[a] < sel[a + 1]) => FaithfulFor(sel, TRUE)   \* sorting forgets the order of generation
     /\ FaithfulFor([i \in 1..Len(wits) |-> i], TRUE)          \* all lines in one report

\* the same for messages whose columns fit the field only (code as written before the column fix)
\* is obtained by choosing ColSeq within 1..MaxCol.

\* physical line identity: two remembered positions on one physical line are one (file, line)
LineIdentity ==
  \A i, j \in 1..Len(wits) : wits[i].g = wits[j].g => (wits[i].rf = wits[j].rf /\ wits[i].rl = wits[j].rl)

=============================================================================
