SPECIFICATION GenSpec
CONSTANTS
  A = 4
  Depth = 2
  Mode = "F"
  Fixed = FALSE
INVARIANTS ImplOk
CHECK_DEADLOCK FALSE
