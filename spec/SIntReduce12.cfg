\* Eval(Reduce(c)) = c for W = 12, pieces of 5 bits, domain: all
SPECIFICATION Spec
CONSTANTS
  W = 12
  P = 5
  Domain = "all"
INVARIANTS InDomain Theorem Storage
CHECK_DEADLOCK FALSE
