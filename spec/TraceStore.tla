----------------------------- MODULE TraceStore -----------------------------
(***************************************************************************)
(* Trace validation for the storage manager: is the event sequence that    *)
(* harness/store_drv.c (C10) or the H2 hook (C09) recorded from the real   *)
(* allocator a behaviour of StoreAbs?                                      *)
(*                                                                         *)
(* The trace is an ndjson file (IOEnv.TRACE); addresses are logged as      *)
(* (page, offset) relative to the heap base and become pg*PageSize+off     *)
(* here (they stay below 2^31: the driver's heaps are a few megabytes).    *)
(* Each step consumes one event: the event's fields are bound to the       *)
(* parameters of the StoreAbs action of the same name, the action's own    *)
(* precondition (AllocOk, ResizeOk, CollectOk, ...) decides whether the    *)
(* values the allocator returned are allowed, and on top of that every     *)
(* event must report no damaged live block ("bad" = <<>>) and a completed  *)
(* stoAudit ("aud").  Events Fault / Lost / Hang match no action.          *)
(*                                                                         *)
(* Outcome: the Done action prints "ACCEPTED <n>" when all n events were   *)
(* consumed; if the current event is not allowed, Stuck prints             *)
(* "REJECTED <index> <reason>" and the behaviour ends there.               *)
(*                                                                         *)
(* RootsKnown = FALSE (C09, program runs: the mutator's roots are unknown) *)
(* relaxes Collect(S) to S \subseteq live and ignores root/pointer events. *)
(***************************************************************************)
EXTENDS StoreAbs, Json, IOUtils

CONSTANTS PageSize, RootsKnown

VARIABLES l,      \* index of the next event
          auto    \* may stoAlloc/stoResize run a collection by themselves? (Config event)

Trc == ndJsonDeserialize(IOEnv.TRACE)
N   == Len(Trc)

tvars == <<live, roots, last, l, auto>>

Has(e, f)    == f \in DOMAIN e
Get(e, f, d) == IF f \in DOMAIN e THEN e[f] ELSE d

Addr(pg, off) == IF pg < 0 THEN Null ELSE pg * PageSize + off

AddrOk(pg, off) == pg < 0 \/ (pg < 500000 /\ off >= 0 /\ off < PageSize)

(* every event of the driver carries the damaged-block list and the audit flag *)
Clean(e) == /\ Get(e, "bad", <<>>) = <<>>
            /\ Get(e, "aud", TRUE) = TRUE

SurvSet(e) == {Addr(e.surv[i][1], e.surv[i][2]) : i \in 1..Len(e.surv)}
SurvTagsOk(e) == \A i \in 1..Len(e.surv) :
                    LET a == Addr(e.surv[i][1], e.surv[i][2])
                    IN (a \in Live /\ Len(e.surv[i]) >= 3) => e.surv[i][3] = live[a].tag

CollectAllowed(e, S) == IF RootsKnown THEN CollectOk(S) ELSE S \subseteq Live

---------------------------------------------------------------------------
(* Is event e allowed in the current state?                                *)

Ok(e) ==
  CASE e.ev = "Config" -> e.align = Align /\ Get(e, "slotbase", SlotBase) = SlotBase
    [] e.ev = "Reset"  -> TRUE
    [] e.ev = "Alloc"  -> /\ AddrOk(e.pg, e.off)
                          /\ AllocOk(e.code, e.n, Addr(e.pg, e.off), e.size)
                          /\ Get(e, "ocode", e.code) = e.code
                          /\ Clean(e)
    [] e.ev = "Free"   -> FreeOk(Addr(e.pg, e.off)) /\ Clean(e)
    [] e.ev = "Resize" -> /\ AddrOk(e.npg, e.noff)
                          /\ LET a == Addr(e.pg, e.off)
                             IN ResizeOk(a, e.n, Addr(e.npg, e.noff), e.size,
                                         IF a \in Live THEN Get(e, "ocode", live[a].code) ELSE 0,
                                         Get(e, "prefix_ok", TRUE))
                          /\ Clean(e)
    [] e.ev = "Recode" -> /\ RecodeOk(Addr(e.pg, e.off), e.code,
                                      IF Has(e, "rpg") THEN Addr(e.rpg, e.roff) ELSE Addr(e.pg, e.off))
                          /\ Get(e, "ocode", e.code) = e.code
                          /\ Clean(e)
    [] e.ev = "Fill"   -> FillOk(Addr(e.pg, e.off), e.tag) /\ Clean(e)
    [] e.ev = "Write"  -> (RootsKnown => WriteOk(Addr(e.pg, e.off), e.slot, Addr(e.tpg, e.toff))) /\ Clean(e)
    [] e.ev = "SetRoot"-> (RootsKnown => SetRootOk(e.k, Addr(e.tpg, e.toff))) /\ Clean(e)
    [] e.ev = "Collect"-> /\ (Get(e, "implicit", FALSE) => auto)
                          /\ CollectAllowed(e, SurvSet(e))
                          /\ SurvTagsOk(e)
                          /\ Clean(e)
    [] e.ev = "Audit"  -> AuditOk(e.ok)
    [] e.ev = "Note"   -> TRUE      \* the allocator's own report about its housekeeping pages: information only
    [] OTHER           -> FALSE     \* Fault, Lost, Hang, unknown

(* a short reason for the report (evaluated only when Ok(e) is FALSE)      *)
Why(e) ==
  IF Get(e, "aud", TRUE) # TRUE THEN e.ev \o ": stoAudit did not complete" ELSE
  CASE e.ev = "Alloc" ->
         LET a == Addr(e.pg, e.off) IN
         IF ~AddrOk(e.pg, e.off) THEN "Alloc: address out of range"
         ELSE IF a % Align # 0 THEN "Alloc: block not aligned"
         ELSE IF e.size < e.n THEN "Alloc: block smaller than requested"
         ELSE IF a \in Live \/ ~Fits(a, e.size, {}) THEN "Alloc: block overlaps a live block"
         ELSE IF Get(e, "ocode", e.code) # e.code THEN "Alloc: object code not recorded"
         ELSE IF Get(e, "bad", <<>>) # <<>> THEN "Alloc: contents of a live block changed"
         ELSE "Alloc: not allowed"
    [] e.ev = "Free" ->
         IF ~FreeOk(Addr(e.pg, e.off)) THEN "Free: block is not live"
         ELSE "Free: contents of a live block changed"
    [] e.ev = "Resize" ->
         LET a == Addr(e.pg, e.off)  b == Addr(e.npg, e.noff) IN
         IF a \notin Live THEN "Resize: block is not live"
         ELSE IF b % Align # 0 THEN "Resize: block not aligned"
         ELSE IF e.size < e.n THEN "Resize: block smaller than requested"
         ELSE IF (b # a /\ b \in Live) \/ ~Fits(b, e.size, {a}) THEN "Resize: block overlaps a live block"
         ELSE IF ~Get(e, "prefix_ok", TRUE) THEN "Resize: common prefix not preserved"
         ELSE IF Get(e, "ocode", live[a].code) # live[a].code THEN "Resize: object code not preserved"
         ELSE IF Get(e, "bad", <<>>) # <<>> THEN "Resize: contents of a live block changed"
         ELSE "Resize: not allowed"
    [] e.ev = "Collect" ->
         IF Get(e, "implicit", FALSE) /\ ~auto THEN "Collect: blocks vanished although no collection may run"
         ELSE IF ~(SurvSet(e) \subseteq Live) THEN "Collect: survivor that is not live"
         ELSE IF RootsKnown /\ ~(Reach \subseteq SurvSet(e)) THEN "Collect: reachable block reclaimed"
         ELSE IF ~SurvTagsOk(e) THEN "Collect: contents of a surviving block changed"
         ELSE "Collect: contents of a live block changed"
    [] e.ev = "Recode" ->
         IF ~FreeOk(Addr(e.pg, e.off)) THEN "Recode: block is not live"
         ELSE IF Has(e, "rpg") /\ Addr(e.rpg, e.roff) # Addr(e.pg, e.off) THEN "Recode: returned a different address"
         ELSE IF Get(e, "ocode", e.code) # e.code THEN "Recode: object code not recorded"
         ELSE "Recode: contents of a live block changed"
    [] e.ev = "Fault" -> "Fault: the allocator died (failed audit assertion, signal or error exit)"
    [] e.ev = "Lost"  -> "Lost: a live block is no longer allocated although no collection ran"
    [] e.ev = "Hang"  -> "Hang: the allocator did not return"
    [] OTHER -> IF Get(e, "bad", <<>>) # <<>> THEN "contents of a live block changed" ELSE "event not allowed"

---------------------------------------------------------------------------
TInit == Init /\ l = 1 /\ auto = FALSE

Effect(e) ==
  CASE e.ev = "Config" -> auto' = e.auto /\ UNCHANGED vars
    [] e.ev = "Reset"  -> /\ live' = <<>>
                          /\ roots' = [k \in 1..NRoots |-> Null]
                          /\ last' = <<"Init", Null>>
                          /\ auto' = FALSE
    [] e.ev = "Alloc"  -> Alloc(e.code, e.n, Addr(e.pg, e.off), e.size, Get(e, "tag", 0)) /\ UNCHANGED auto
    [] e.ev = "Free"   -> Free(Addr(e.pg, e.off)) /\ UNCHANGED auto
    [] e.ev = "Resize" -> LET a == Addr(e.pg, e.off)
                          IN Resize(a, e.n, Addr(e.npg, e.noff), e.size, live[a].code, TRUE) /\ UNCHANGED auto
    [] e.ev = "Recode" -> Recode(Addr(e.pg, e.off), e.code, Addr(e.pg, e.off)) /\ UNCHANGED auto
    [] e.ev = "Fill"   -> Fill(Addr(e.pg, e.off), e.tag) /\ UNCHANGED auto
    [] e.ev = "Write"  -> IF RootsKnown THEN Write(Addr(e.pg, e.off), e.slot, Addr(e.tpg, e.toff)) /\ UNCHANGED auto
                          ELSE UNCHANGED <<vars, auto>>
    [] e.ev = "SetRoot"-> IF RootsKnown THEN SetRoot(e.k, Addr(e.tpg, e.toff)) /\ UNCHANGED auto
                          ELSE UNCHANGED <<vars, auto>>
    [] e.ev = "Collect"-> /\ live' = [a \in SurvSet(e) |-> live[a]]
                          /\ last' = <<"Collect", Null>>
                          /\ UNCHANGED <<roots, auto>>
    [] e.ev = "Audit"  -> Audit(e.ok) /\ UNCHANGED auto
    [] e.ev = "Note"   -> UNCHANGED <<vars, auto>>

Step == /\ l <= N
        /\ Ok(Trc[l])
        /\ Effect(Trc[l])
        /\ l' = l + 1

Stuck == /\ l <= N
         /\ ~Ok(Trc[l])
         /\ PrintT("REJECTED " \o ToString(l) \o " " \o Why(Trc[l]))
         /\ UNCHANGED tvars

Done == /\ l = N + 1
        /\ PrintT("ACCEPTED " \o ToString(N))
        /\ UNCHANGED tvars

TNext == Step \/ Stuck \/ Done

TraceSpec == TInit /\ [][TNext]_tvars

(* the invariants of the property, evaluated in every state of the trace   *)
TraceInv == Disjoint /\ AlignedAll /\ SizeOk /\ SlotsOk

(* For histories with a thousand live blocks (TraceStoreScale.cfg) the pairwise form of Disjoint is *)
(* quadratic in every state.  It is implied there by what every accepted step has checked: Alloc    *)
(* and Resize require Fits(new block, all other live blocks), and no other step adds or moves one.  *)
TraceInvLinear == AlignedAll /\ SizeOk /\ SlotsOk
=============================================================================
