------------------------------- MODULE BigZ -------------------------------
(***************************************************************************)
(* Unbounded integers for TLC.  TLC's own integers are 32-bit and overflow *)
(* is an error, while the code under test works on 64-bit words, 4000-bit  *)
(* integers and IEEE bit patterns.  An integer is a record                 *)
(*     [neg |-> BOOLEAN, mag |-> Seq(0..B-1)]                              *)
(* little-endian in radix B = 2^11, normalised (no leading zero digit,     *)
(* zero is [neg |-> FALSE, mag |-> <<>>]).  B = 2^11 keeps a whole column  *)
(* sum of a schoolbook product of two 364-digit (4000-bit) numbers below   *)
(* 2^31.                                                                   *)
(* This module is the mathematical reference of C04, C11, C01; it is never *)
(* bound to the code directly, only through the modules that EXTEND it.    *)
(***************************************************************************)
EXTENDS Naturals, Integers, Sequences, SequencesExt

LgB == 11
B   == 2048

Max2(a, b) == IF a >= b THEN a ELSE b
Min2(a, b) == IF a <= b THEN a ELSE b

Pow2[k \in 0..30] == IF k = 0 THEN 1 ELSE 2 * Pow2[k - 1]

---------------------------------------------------------------------------
(* Magnitudes: sequences of digits, little endian, normalised.             *)

Dig(s, i) == IF i >= 1 /\ i <= Len(s) THEN s[i] ELSE 0

RECURSIVE MNormLen(_, _)
MNormLen(s, n) == IF n = 0 THEN 0 ELSE IF s[n] # 0 THEN n ELSE MNormLen(s, n - 1)
MNorm(s) == SubSeq(s, 1, MNormLen(s, Len(s)))

IsMag(s) == /\ \A i \in 1..Len(s) : s[i] \in 0..(B - 1)
            /\ (Len(s) > 0 => s[Len(s)] # 0)

RECURSIVE MCmpFrom(_, _, _)
MCmpFrom(a, b, i) == IF i = 0 THEN 0
                     ELSE IF a[i] < b[i] THEN -1
                     ELSE IF a[i] > b[i] THEN 1
                     ELSE MCmpFrom(a, b, i - 1)
MCmp(a, b) == IF Len(a) < Len(b) THEN -1
              ELSE IF Len(a) > Len(b) THEN 1
              ELSE MCmpFrom(a, b, Len(a))

(* All digit loops are FoldLeft over an index sequence: FoldLeft has a Java   *)
(* implementation in the CommunityModules, which measured about 50 times     *)
(* faster in TLC than a RECURSIVE operator doing the same work.  The          *)
(* accumulator of a carry chain is <<carry, digits so far>>.                  *)
Ix(lo, hi) == [i \in 1..(hi - lo + 1) |-> lo + i - 1]

MAdd(a, b) ==
  LET n == Max2(Len(a), Len(b))
      st == FoldLeft(LAMBDA acc, i : LET s == Dig(a, i) + Dig(b, i) + acc[1]
                                     IN <<s \div B, Append(acc[2], s % B)>>,
                     <<0, <<>> >>, Ix(1, n))
  IN IF st[1] = 0 THEN MNorm(st[2]) ELSE Append(st[2], st[1])

(* a >= b required *)
MSub(a, b) ==
  MNorm(FoldLeft(LAMBDA acc, i : LET d == a[i] - Dig(b, i) - acc[1]
                                 IN IF d < 0 THEN <<1, Append(acc[2], d + B)>>
                                    ELSE <<0, Append(acc[2], d)>>,
                 <<0, <<>> >>, Ix(1, Len(a)))[2])

ColSum(a, b, k) ==
  FoldLeft(LAMBDA acc, i : acc + a[i] * b[k + 1 - i], 0,
           Ix(Max2(1, k + 1 - Len(b)), Min2(k, Len(a))))

MMul(a, b) ==
  IF Len(a) = 0 \/ Len(b) = 0 THEN <<>>
  ELSE MNorm(FoldLeft(LAMBDA acc, k : LET s == ColSum(a, b, k) + acc[1]
                                      IN <<s \div B, Append(acc[2], s % B)>>,
                      <<0, <<>> >>, Ix(1, Len(a) + Len(b)))[2])

(* multiply / divide by a small number d, 0 < d < 2^19                     *)
MMulSmall(a, d) ==
  LET st == FoldLeft(LAMBDA acc, i : LET s == a[i] * d + acc[1]
                                     IN <<s \div B, Append(acc[2], s % B)>>,
                     <<0, <<>> >>, Ix(1, Len(a)))
      c == st[1]
  IN MNorm(IF c = 0 THEN st[2] ELSE IF c < B THEN Append(st[2], c)
           ELSE Append(Append(st[2], c % B), c \div B))

Rev(s) == [i \in 1..Len(s) |-> s[Len(s) + 1 - i]]
MDivSmall(a, d) ==   \* [q |-> magnitude, r |-> 0..d-1]
  LET st == FoldLeft(LAMBDA acc, j : LET t == acc[1] * B + a[Len(a) + 1 - j]
                                     IN <<t % d, Append(acc[2], t \div d)>>,
                     <<0, <<>> >>, Ix(1, Len(a)))      \* quotient most significant first
  IN [q |-> MNorm(Rev(st[2])), r |-> st[1]]

MShl(a, k) ==   \* a * 2^k
  IF Len(a) = 0 THEN <<>> ELSE
  LET w == k \div LgB  s == k % LgB
      sh == IF s = 0 THEN a ELSE MMulSmall(a, Pow2[s])
  IN [i \in 1..w |-> 0] \o sh

MShr(a, k) ==   \* floor(a / 2^k)
  LET w == k \div LgB  s == k % LgB
  IN IF w >= Len(a) THEN <<>> ELSE
     LET t == SubSeq(a, w + 1, Len(a))
     IN IF s = 0 THEN t ELSE MDivSmall(t, Pow2[s]).q

MBit(a, k) == (Dig(a, k \div LgB + 1) \div Pow2[k % LgB]) % 2

RECURSIVE BitLenSmall(_)
BitLenSmall(d) == IF d = 0 THEN 0 ELSE 1 + BitLenSmall(d \div 2)
MBitLen(a) == IF Len(a) = 0 THEN 0 ELSE (Len(a) - 1) * LgB + BitLenSmall(a[Len(a)])

MLowBits(a, k) ==  \* a mod 2^k
  LET w == k \div LgB  s == k % LgB
  IN MNorm([i \in 1..Min2(Len(a), w + 1) |-> IF i <= w THEN a[i] ELSE a[i] % Pow2[s]])

MIsZero(a) == Len(a) = 0
MOne == <<1>>
MFromNat(n) == MNorm(<<n % B, (n \div B) % B, n \div (B * B)>>)   \* n in 0..2^31-1
MToNat(a) == Dig(a, 1) + B * Dig(a, 2) + B * B * Dig(a, 3)           \* only if it fits

(* binary long division, for small operands and for the specification of  *)
(* the certificate-free cases; q, r with a = q*b + r, 0 <= r < b           *)
MDivMod(a, b) ==
  LET n  == MBitLen(a)
      st == FoldLeft(LAMBDA acc, j :
                       LET i  == n - j
                           r2 == MAdd(MShl(acc[2], 1), IF MBit(a, i) = 1 THEN MOne ELSE <<>>)
                       IN IF MCmp(r2, b) >= 0 THEN <<MAdd(MShl(acc[1], 1), MOne), MSub(r2, b)>>
                          ELSE <<MShl(acc[1], 1), r2>>,
                     << <<>>, <<>> >>, Ix(1, n))
  IN [q |-> st[1], r |-> st[2]]

RECURSIVE MGcd(_, _)
MGcd(a, b) == IF MIsZero(b) THEN a ELSE MGcd(b, MDivMod(a, b).r)

---------------------------------------------------------------------------
(* Signed integers                                                         *)

Z(neg, mag) == [neg |-> neg /\ Len(mag) > 0, mag |-> mag]
Zero == [neg |-> FALSE, mag |-> <<>>]
One  == [neg |-> FALSE, mag |-> <<1>>]
IsZ(z) == IsMag(z.mag) /\ z.neg \in BOOLEAN /\ (Len(z.mag) = 0 => ~z.neg)
FromInt(n) == IF n < 0 THEN Z(TRUE, MFromNat(-n)) ELSE Z(FALSE, MFromNat(n))   \* |n| < 2^31
IsZero(z) == Len(z.mag) = 0
Sign(z) == IF IsZero(z) THEN 0 ELSE IF z.neg THEN -1 ELSE 1
Neg(z) == Z(~z.neg, z.mag)
Abs(z) == Z(FALSE, z.mag)
Cmp(x, y) == IF x.neg # y.neg THEN (IF x.neg THEN -1 ELSE 1)
             ELSE IF x.neg THEN MCmp(y.mag, x.mag) ELSE MCmp(x.mag, y.mag)
Eq(x, y) == x.neg = y.neg /\ x.mag = y.mag
Lt(x, y) == Cmp(x, y) < 0
Le(x, y) == Cmp(x, y) <= 0
Add(x, y) == IF x.neg = y.neg THEN Z(x.neg, MAdd(x.mag, y.mag))
             ELSE LET c == MCmp(x.mag, y.mag)
                  IN IF c = 0 THEN Zero
                     ELSE IF c > 0 THEN Z(x.neg, MSub(x.mag, y.mag))
                     ELSE Z(y.neg, MSub(y.mag, x.mag))
Sub(x, y) == Add(x, Neg(y))
Mul(x, y) == Z(x.neg # y.neg, MMul(x.mag, y.mag))
(* truncating division: quotient toward zero, remainder has the dividend's sign *)
QuoRem(x, y) == LET d == MDivMod(x.mag, y.mag)
                IN [q |-> Z(x.neg # y.neg, d.q), r |-> Z(x.neg, d.r)]
(* floor-style modulus with the sign of the divisor's absolute value: 0 <= m < |y| *)
ModPos(x, y) == LET r == QuoRem(x, y).r IN IF r.neg THEN Add(r, Abs(y)) ELSE r
Gcd(x, y) == Z(FALSE, MGcd(x.mag, y.mag))
Shl(x, k) == Z(x.neg, MShl(x.mag, k))
Pow2Z(k) == Z(FALSE, MShl(MOne, k))
(* arithmetic shift right on the magnitude (sign-magnitude semantics)       *)
ShrMag(x, k) == Z(x.neg, MShr(x.mag, k))
(* floor(x / 2^k) *)
ShrFloor(x, k) == IF ~x.neg THEN Z(FALSE, MShr(x.mag, k))
                  ELSE LET q == MShr(x.mag, k)
                       IN IF MLowBits(x.mag, k) = <<>> THEN Z(TRUE, q) ELSE Z(TRUE, MAdd(q, MOne))
BitLen(x) == MBitLen(x.mag)
RECURSIVE PowNat(_, _)
PowNat(x, n) == IF n = 0 THEN One
                ELSE LET h == PowNat(x, n \div 2) hh == Mul(h, h)
                     IN IF n % 2 = 1 THEN Mul(hh, x) ELSE hh

(* x mod 2^k as a non-negative integer (two's complement view of x)         *)
ModPow2(x, k) == IF ~x.neg THEN Z(FALSE, MLowBits(x.mag, k))
                 ELSE LET l == MLowBits(x.mag, k)
                      IN IF l = <<>> THEN Zero ELSE Z(FALSE, MSub(MShl(MOne, k), l))

---------------------------------------------------------------------------
(* Decimal (and other radix) digit sequences, most significant first        *)

MFromDigits(ds, radix) ==
  FoldLeft(LAMBDA acc, d : MAdd(MMulSmall(acc, radix), MFromNat(d)), <<>>, ds)

(* number of radix-r digits is at most BitLen / floor(lg r) + 1; produce that   *)
(* many (least significant first), then drop the leading zeros                  *)
MToDigits(a, radix) ==
  IF Len(a) = 0 THEN <<0>> ELSE
  LET n  == MBitLen(a) \div (BitLenSmall(radix) - 1) + 1
      st == FoldLeft(LAMBDA acc, j : LET d == MDivSmall(acc[1], radix)
                                     IN <<d.q, Append(acc[2], d.r)>>,
                     <<a, <<>> >>, Ix(1, n))
      ls == st[2]                       \* least significant first, st[1] = <<>>
      m  == MNormLen(ls, Len(ls))
  IN [i \in 1..m |-> ls[m + 1 - i]]

(* re-split a little-endian digit vector of radix 2^w (w <= 19) into radix B *)
MFromRadixPow2(ds, w) ==
  FoldLeft(LAMBDA acc, j : MAdd(MShl(acc, w), MFromNat(ds[Len(ds) + 1 - j])), <<>>, Ix(1, Len(ds)))

---------------------------------------------------------------------------
(* Additions for C11 (TraceBigInt).  Existing names above are unchanged.     *)

(* a*d + c in one carry pass, 0 < d < 2^19, 0 <= c < 2^19                     *)
MMulAddSmall(a, d, c) ==
  LET st == FoldLeft(LAMBDA acc, i : LET s == a[i] * d + acc[1]
                                     IN <<s \div B, Append(acc[2], s % B)>>,
                     <<c, <<>> >>, Ix(1, Len(a)))
      k == st[1]
  IN MNorm(IF k = 0 THEN st[2] ELSE IF k < B THEN Append(st[2], k)
           ELSE Append(Append(st[2], k % B), k \div B))

RECURSIVE ChunkLenFrom(_, _, _)
ChunkLenFrom(radix, k, p) == IF p * radix >= 524288 THEN k ELSE ChunkLenFrom(radix, k + 1, p * radix)
ChunkLen(radix) == ChunkLenFrom(radix, 1, radix)          \* largest k with radix^k < 2^19
RECURSIVE PowSmall(_, _)
PowSmall(r, k) == IF k = 0 THEN 1 ELSE r * PowSmall(r, k - 1)

(* Horner in chunks of ChunkLen(radix) digits: the same value as MFromDigits   *)
(* (checked in BigZCheck), about ChunkLen times fewer passes over the number.  *)
MFromDigitsFast(ds, radix) ==
  LET k   == ChunkLen(radix)
      rk  == PowSmall(radix, k)
      n   == Len(ds)
      f   == n % k
      cv(lo, hi) == FoldLeft(LAMBDA acc, i : acc * radix + ds[i], 0, Ix(lo, hi))
  IN FoldLeft(LAMBDA acc, c : MMulAddSmall(acc, rk, cv(f + (c - 1) * k + 1, f + c * k)),
              MFromNat(cv(1, f)), Ix(1, n \div k))

(* x^e mod m with 0 <= result < |m|; e >= 0, m # 0.  Slow (binary long        *)
(* division at every step): reference for small operands only.                *)
PowModPos(x, e, m) ==
  FoldLeft(LAMBDA acc, i : <<IF MBit(e.mag, i) = 1 THEN ModPos(Mul(acc[1], acc[2]), m) ELSE acc[1],
                             ModPos(Mul(acc[2], acc[2]), m)>>,
           <<ModPos(One, m), ModPos(x, m)>>, [i \in 1..BitLen(e) |-> i - 1])[1]

(* coefficient of 2^k in |x|                                                  *)
BitMag(x, k) == MBit(x.mag, k)
(* coefficient of 2^k in the two's complement expansion of x                  *)
BitTwos(x, k) == IF ~x.neg THEN MBit(x.mag, k) ELSE MBit(ModPow2(x, k + 1).mag, k)

=============================================================================
