------------------------------ MODULE StoreAbs ------------------------------
(***************************************************************************)
(* Property-level specification of the storage manager (store.c), C10:     *)
(*                                                                         *)
(*   "For every sequence of allocate, free, resize, recode and collect     *)
(*    requests, each block returned is suitably aligned, at least as large *)
(*    as requested and disjoint from every other live block; the contents  *)
(*    of a live block change only through its owner (resize preserves the  *)
(*    common prefix); blocks reachable from registered roots survive       *)
(*    collection, and the allocator's own consistency audit succeeds after *)
(*    every step."                                                         *)
(*                                                                         *)
(* The module says nothing about *where* a block is placed: any aligned    *)
(* address whose extent is disjoint from the live blocks is allowed, and   *)
(* a collection may keep garbage (the collector is conservative) but may   *)
(* never reclaim a block reachable from the roots.  It is used             *)
(*   (A) by TLC under StoreAbsMC.cfg (tiny heap, every interleaving),      *)
(*   (B) by StoreGen.tla to export operation scripts that the harness      *)
(*       replays into the real allocator,                                  *)
(*   (C) by TraceStore.tla to validate traces of the real allocator, and   *)
(*   (D) as the refinement target of StoreImpl.tla.                        *)
(*                                                                         *)
(* State.  live : address -> [req, size, code, tag, slots]                 *)
(*   req   bytes the client asked for                                      *)
(*   size  bytes the allocator says the block has (stoSize)                *)
(*   code  object code (stoCode); codes in PtrFreeCodes are not scanned    *)
(*   tag   content tag: identifies the byte pattern the owner wrote        *)
(*   slots the pointer fields the owner wrote (addresses or Null); a       *)
(*         block of req n has NSlots(n) of them                            *)
(* roots : 1..NRoots -> address or Null   (static data and stack words)    *)
(* last  : <<action name, address>> of the last step (for the action       *)
(*         property ContentPreserved)                                      *)
(***************************************************************************)
EXTENDS Naturals, Integers, Sequences, FiniteSets, TLC

CONSTANTS Align,         \* alignment every returned address must have
          NRoots,        \* number of root words
          PtrFreeCodes,  \* object codes registered as containing no pointers
          SlotBase,      \* pointer fields start at this byte offset of a block
          SlotBytes,     \* a pointer field occupies this many bytes
          MaxSlots       \* at most this many pointer fields per block

VARIABLES live, roots, last

vars == <<live, roots, last>>

Null == -1

MinN(a, b) == IF a <= b THEN a ELSE b

NSlots(n) == IF n < SlotBase + SlotBytes THEN 0
             ELSE MinN((n - SlotBase) \div SlotBytes, MaxSlots)

Live == DOMAIN live

(* Extents are compared arithmetically: blocks can be 70000 bytes long.    *)
Overlap(a1, s1, a2, s2) == a1 < a2 + s2 /\ a2 < a1 + s1
Inside(x, a)            == a <= x /\ x < a + live[a].size

---------------------------------------------------------------------------
(* The invariants of the property.                                         *)

Disjoint   == \A a, b \in Live : a # b => ~Overlap(a, live[a].size, b, live[b].size)
AlignedAll == \A a \in Live : a % Align = 0
SizeOk     == \A a \in Live : live[a].size >= live[a].req /\ live[a].req >= 1
SlotsOk    == \A a \in Live : Len(live[a].slots) = NSlots(live[a].req)

---------------------------------------------------------------------------
(* Reachability.  A word holding x refers to the live block whose extent   *)
(* contains x (interior pointers count).  Blocks with a pointer-free code  *)
(* are not scanned.                                                        *)

BlocksAt(x)  == IF x = Null THEN {} ELSE {a \in Live : Inside(x, a)}
RootBlocks   == UNION {BlocksAt(roots[k]) : k \in 1..NRoots}
Succ(a)      == IF live[a].code \in PtrFreeCodes THEN {}
                ELSE UNION {BlocksAt(live[a].slots[i]) : i \in 1..Len(live[a].slots)}

RECURSIVE Closure(_)
Closure(S) == LET T == S \cup UNION {Succ(a) : a \in S}
              IN IF T = S THEN S ELSE Closure(T)
Reach == Closure(RootBlocks)

---------------------------------------------------------------------------
(* Each operation is a precondition on the values the allocator returned   *)
(* (…Ok) and an effect.  A trace of the implementation is accepted iff     *)
(* every event satisfies the precondition of its action.                   *)

Fits(a, sz, except) == \A b \in Live \ except : ~Overlap(a, sz, b, live[b].size)

EmptySlots(n) == [i \in 1..NSlots(n) |-> Null]
ResizedSlots(s, n) == [i \in 1..NSlots(n) |-> IF i <= Len(s) THEN s[i] ELSE Null]

Init == /\ live  = <<>>
        /\ roots = [k \in 1..NRoots |-> Null]
        /\ last  = <<"Init", Null>>

(* stoAlloc(c, n) returned a, whose size is sz; the owner fills it with t. *)
AllocOk(c, n, a, sz) == /\ n >= 1
                        /\ a >= 0
                        /\ a \notin Live
                        /\ a % Align = 0
                        /\ sz >= n
                        /\ Fits(a, sz, {})
Alloc(c, n, a, sz, t) ==
    /\ AllocOk(c, n, a, sz)
    /\ live' = (a :> [req |-> n, size |-> sz, code |-> c, tag |-> t, slots |-> EmptySlots(n)]) @@ live
    /\ last' = <<"Alloc", a>>
    /\ UNCHANGED roots

(* stoFree(a) *)
FreeOk(a) == a \in Live
Free(a) ==
    /\ FreeOk(a)
    /\ live' = [x \in Live \ {a} |-> live[x]]
    /\ last' = <<"Free", a>>
    /\ UNCHANGED roots

(* stoResize(a, n) returned b of size sz and object code c; prefixOk says  *)
(* that the first Min(n, old size) bytes of b equal those of the old block.*)
(* The old block is dead unless b = a.  The new block must be disjoint     *)
(* from every *other* live block.                                          *)
ResizeOk(a, n, b, sz, c, prefixOk) ==
    /\ a \in Live
    /\ n >= 1
    /\ b >= 0
    /\ b % Align = 0
    /\ sz >= n
    /\ (b # a => b \notin Live)
    /\ Fits(b, sz, {a})
    /\ c = live[a].code
    /\ prefixOk
Resize(a, n, b, sz, c, prefixOk) ==
    /\ ResizeOk(a, n, b, sz, c, prefixOk)
    /\ live' = [x \in (Live \ {a}) \cup {b} |->
                  IF x = b THEN [req |-> n, size |-> sz, code |-> c, tag |-> live[a].tag,
                                 slots |-> ResizedSlots(live[a].slots, n)]
                  ELSE live[x]]
    /\ last' = <<"Resize", b>>
    /\ UNCHANGED roots

(* stoRecode(a, c) returns a *)
RecodeOk(a, c, r) == a \in Live /\ r = a
Recode(a, c, r) ==
    /\ RecodeOk(a, c, r)
    /\ live' = [live EXCEPT ![a].code = c]
    /\ last' = <<"Recode", a>>
    /\ UNCHANGED roots

(* The owner rewrites the whole block with pattern t (pointer fields kept).*)
FillOk(a, t) == a \in Live
Fill(a, t) ==
    /\ FillOk(a, t)
    /\ live' = [live EXCEPT ![a].tag = t]
    /\ last' = <<"Fill", a>>
    /\ UNCHANGED roots

(* The owner stores x (an address, possibly interior, possibly dangling,   *)
(* or Null) into pointer field i of block a.                               *)
WriteOk(a, i, x) == a \in Live /\ i \in 1..Len(live[a].slots)
Write(a, i, x) ==
    /\ WriteOk(a, i, x)
    /\ live' = [live EXCEPT ![a].slots[i] = x]
    /\ last' = <<"Write", a>>
    /\ UNCHANGED roots

(* A root word is set.                                                     *)
SetRootOk(k, x) == k \in 1..NRoots
SetRoot(k, x) ==
    /\ SetRootOk(k, x)
    /\ roots' = [roots EXCEPT ![k] = x]
    /\ last'  = <<"SetRoot", Null>>
    /\ UNCHANGED live

(* A collection (explicit stoGc, or the one stoAlloc runs when it is out   *)
(* of pages) after which exactly the blocks in S are still allocated.      *)
CollectOk(S) == Reach \subseteq S /\ S \subseteq Live
Collect(S) ==
    /\ CollectOk(S)
    /\ live' = [a \in S |-> live[a]]
    /\ last' = <<"Collect", Null>>
    /\ UNCHANGED roots

(* stoAudit() ran to completion (it asserts; a failed assertion is a Fault *)
(* event, which no action matches).                                        *)
AuditOk(ok) == ok = TRUE
Audit(ok) ==
    /\ AuditOk(ok)
    /\ last' = <<"Audit", Null>>
    /\ UNCHANGED <<live, roots>>

---------------------------------------------------------------------------
(* "The contents of a live block change only through its owner": between   *)
(* two consecutive states a block that stays live at the same address      *)
(* keeps tag and pointer fields unless the step is the owner's Fill /      *)
(* Write / Resize of that very block.  (Checked on the model; on the real  *)
(* allocator the harness compares the bytes of every live block with the   *)
(* pattern of its tag after every step and logs the blocks that differ.)   *)
ContentPreserved ==
    [][\A a \in Live \cap DOMAIN live' :
          (live'[a].tag # live[a].tag \/ live'[a].slots # live[a].slots)
             => (last'[1] \in {"Fill", "Write", "Resize"} /\ last'[2] = a)]_vars

(* Nothing but Free, Resize and Collect removes a block, and a collection  *)
(* removes no reachable block.                                             *)
OnlyGarbageCollected ==
    [][last'[1] = "Collect" => \A a \in Live \ DOMAIN live' : a \notin Reach]_vars
RemovalsExplained ==
    [][(Live \ DOMAIN live') # {} => last'[1] \in {"Free", "Resize", "Collect"}]_vars

=============================================================================
