---------------------------- MODULE IncludeShift ----------------------------
(***************************************************************************)
(* C15 stated literally, as a property of TWO runs of the includer:        *)
(*                                                                         *)
(*   "if k lines that contain no code are inserted before a construct,     *)
(*    every reported line number at or after the insertion grows by        *)
(*    exactly k and all columns (and files) stay the same"                 *)
(*                                                                         *)
(* Run A reads a file set chosen line by line (as in Include.tla); run B   *)
(* reads the same file set except that, at one freely chosen point, k      *)
(* extra non-directive lines without planted tokens are read first.  Both  *)
(* runs remember the same positions (same order), and the invariant        *)
(* compares what the two runs DECODE for them -- it does not refer to the  *)
(* includer's bookkeeping (rf, rl) at all:                                 *)
(*      file_B = file_A,  col_B = col_A,  line_B = line_A + shift          *)
(* where shift = k for positions created after the insertion, in the file  *)
(* activation that received the lines, before any later active #line in    *)
(* it; 0 otherwise (other files, earlier lines, renumbered lines).         *)
(***************************************************************************)
EXTENDS SrcPos, TLC, FiniteSets

CONSTANTS Packer, Policy, EofPolicy,
          FileNames, TopFile, LineNames, LineNums, Cols, RunLens, MaxLines, MaxIf, MaxItems, Feat,
          AvoidEofIf, AvoidCollide,
          InsLens          \* numbers of inserted lines

VARIABLES sA, gA, TA, iA, wA, dA, nA,      \* run A (Include's stack, glno, T, included, wits, done, items)
          sB, gB, TB, iB, wB, dB, nB,      \* run B
          ins,                              \* 0 before the insertion, else the number of inserted lines
          insDepth,                         \* include-stack depth of the file that received them
          live,                             \* that activation is still open and not renumbered since
          shifts                            \* per remembered position: the shift the property demands

A == INSTANCE Include WITH stack <- sA, glno <- gA, T <- TA, included <- iA, wits <- wA, done <- dA, items <- nA
B == INSTANCE Include WITH stack <- sB, glno <- gB, T <- TB, included <- iB, wits <- wB, done <- dB, items <- nB

varsA == << sA, gA, TA, iA, wA, dA, nA >>
varsB == << sB, gB, TB, iB, wB, dB, nB >>
vars  == << varsA, varsB, ins, insDepth, live, shifts >>

Init ==
  /\ A!Init /\ B!Init
  /\ ins = 0 /\ insDepth = 0 /\ live = FALSE /\ shifts = << >>

\* positions remembered by this step get the shift demanded at the time they are created
Tag(sh) == shifts' = shifts \o [i \in 1..(Len(wA') - Len(wA)) |-> sh]
Cur     == IF live /\ Len(sA) = insDepth THEN ins ELSE 0

Both(a, b) == a /\ b /\ nA' = nA + 1 /\ nB' = nB + 1
Keep == UNCHANGED << ins, insDepth >>

CanRead(n) == gB + n <= MaxLines /\ nA < MaxItems

Lines   == \E n \in RunLens : CanRead(n) /\ Both(A!DoLines(n, A!AllToks(n)), B!DoLines(n, B!AllToks(n)))
              /\ Tag(Cur) /\ Keep /\ UNCHANGED live
Incl    == CanRead(1) /\ \E f \in FileNames \ {A!Top.file} : Both(A!DoInclude(f, 1), B!DoInclude(f, 1))
              /\ Tag(Cur) /\ Keep /\ UNCHANGED live
LineDir == "line" \in Feat /\ CanRead(1) /\ \E n \in LineNums, nm \in LineNames \cup {NoName} :
              /\ (AvoidCollide /\ nm # NoName => A!NoCollide(nm))
              /\ Both(A!DoLineDir(n, nm), B!DoLineDir(n, nm))
              /\ Tag(Cur) /\ Keep
              /\ live' = (live /\ ~(Len(sA) = insDepth /\ A!Including(A!Top)))
If      == "if" \in Feat /\ CanRead(1) /\ Len(A!Top.ifs) <= MaxIf /\ \E on \in BOOLEAN :
              Both(A!DoIf(on, 1), B!DoIf(on, 1)) /\ Tag(Cur) /\ Keep /\ UNCHANGED live
Elseif  == "if" \in Feat /\ CanRead(1) /\ \E on \in BOOLEAN :
              Both(A!DoElseif(on, 1), B!DoElseif(on, 1)) /\ Tag(Cur) /\ Keep /\ UNCHANGED live
Else    == "if" \in Feat /\ CanRead(1) /\ Both(A!DoElse(1), B!DoElse(1)) /\ Tag(Cur) /\ Keep /\ UNCHANGED live
Endif   == "if" \in Feat /\ CanRead(1) /\ Both(A!DoEndif(1), B!DoEndif(1)) /\ Tag(Cur) /\ Keep /\ UNCHANGED live
Unknown == "misc" \in Feat /\ CanRead(1) /\ Both(A!DoUnknown(1), B!DoUnknown(1)) /\ Tag(Cur) /\ Keep /\ UNCHANGED live
Eof     == /\ (AvoidEofIf => (A!EofClean /\ B!EofClean))
           /\ Both(A!DoEOF(1), B!DoEOF(1)) /\ Tag(Cur) /\ Keep
           /\ live' = (live /\ Len(sA) > insDepth)          \* the activation that got the lines ends

\* the insertion: k more lines in run B only
Insert  == /\ ins = 0 /\ ~dA
           /\ \E k \in InsLens :
                /\ gB + k <= MaxLines
                /\ B!DoLines(k, << >>) /\ nB' = nB + 1
                /\ ins' = k
           /\ insDepth' = Len(sA) /\ live' = TRUE
           /\ UNCHANGED << varsA, shifts >>

Next == Lines \/ Incl \/ LineDir \/ If \/ Elseif \/ Else \/ Endif \/ Unknown \/ Eof \/ Insert

Spec == Init /\ [][Next]_vars

----------------------------------------------------------------------------
Aligned == Len(wA) = Len(wB) /\ Len(shifts) = Len(wA)

\* only positions whose global line is representable in both runs are compared
ShiftFaithful ==
  Aligned /\
  \A i \in 1..Len(wA) : \A c \in A!ColsOf(wA[i]) :
     (Representable(wA[i]) /\ Representable(wB[i])) =>
        LET da == Decode(TA, Pack(Packer, wA[i].g, c))
            db == Decode(TB, Pack(Packer, wB[i].g, c))
        IN /\ ~da.special /\ ~db.special
           /\ db.file = da.file
           /\ db.col  = da.col
           /\ db.line = da.line + shifts[i]

ShiftFaithfulFit ==
  Aligned /\
  \A i \in 1..Len(wA) : \A c \in A!ColsOf(wA[i]) :
     (Representable(wA[i]) /\ Representable(wB[i]) /\ c <= MaxCol) =>
        LET da == Decode(TA, Pack(Packer, wA[i].g, c))
            db == Decode(TB, Pack(Packer, wB[i].g, c))
        IN /\ ~da.special /\ ~db.special
           /\ db.file = da.file
           /\ db.col  = da.col
           /\ db.line = da.line + shifts[i]
=============================================================================
