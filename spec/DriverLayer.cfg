\* property-level layer (the one real traces are validated against: phases may be skipped), 1-2 files, <= 2 faults; safety
SPECIFICATION Spec
CONSTANTS
  MaxFiles = 2
  MaxFaults = 2
  MaxErrs = 1
  Strict = FALSE
  MultiPart = FALSE
  PostUsed = {}
  ChecksIo = TRUE
  MaxKinds = 3
  CleanupKept = FALSE
  PhasesUsed = {"putao", "putc"}
  KindsUsed = {"ao", "c", "main"}
INVARIANTS TypeOK HonestExit CompleteOnSuccess NoOutputAfterError FailureSurfaces NothingOpenAtSuccess PendingIsReported
CHECK_DEADLOCK TRUE
