SPECIFICATION Spec
CONSTANT Level = 2
CHECK_DEADLOCK FALSE
