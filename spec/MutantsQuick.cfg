\* C07 class (b): mutants of the texts in $PROGS; checks/c07.py rewrites Stride/CStride/Seed per tier and seed
SPECIFICATION Spec
CONSTANTS
  Stride = 23
  CStride = 400
  Seed = 0
  MaxQuotes = 2
INVARIANTS Judged
CHECK_DEADLOCK FALSE
