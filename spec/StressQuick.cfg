\* C07 size stress: lines of 20 000 bytes, nesting depth 2 000, 256 errors; the counting laws are checked for sizes 0..4
SPECIFICATION Spec
CONSTANTS
  Long = 20000
  Deep = 2000
  Many = 256
  Small = 4
  Export = TRUE
INVARIANTS Exported LawHolds
CHECK_DEADLOCK FALSE
