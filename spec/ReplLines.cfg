SPECIFICATION LSpec
INVARIANTS FormsAreSteps CutsSoFar CleanBetweenForms BracesNat
CHECK_DEADLOCK FALSE
