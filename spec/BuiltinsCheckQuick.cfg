SPECIFICATION Spec
CONSTANTS SIntW = 8
          WordW = 8
          FullB = FALSE
INVARIANT AllOk
CHECK_DEADLOCK FALSE
