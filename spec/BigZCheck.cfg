CONSTANT N = 300
INIT Init
NEXT Next
INVARIANT Check
CHECK_DEADLOCK FALSE
