CONSTANTS LGR = 3  LGI = 5  DA = 3  DB = 2  SIGNS = "all"  MUT = ""
INIT PInit
NEXT PNext
VIEW PView
CHECK_DEADLOCK FALSE
