-------------------------------- MODULE Total --------------------------------
(***************************************************************************)
(* C07, input class (a): every string of length <= MaxLen over the          *)
(* thirteen character classes the scanner distinguishes, concretised by one *)
(* representative byte per class and variant.                               *)
(*                                                                          *)
(*  class  what scan.c / include.c do with it          variant 1   2    3   *)
(*   L     letter (word; r = radix, E = exponent)        a         r    E   *)
(*   D     digit (0 and 1 are identifiers)               1         7    2   *)
(*   U     `_', the escape character                     _         _    _   *)
(*   Q     string quote                                  "         "    "   *)
(*   O     operator character                            =         .    ,   *)
(*   B     opening bracket                               {         (    [   *)
(*   C     closing bracket                               }         )    ]   *)
(*   S     blank                                         space     tab  sp  *)
(*   N     newline                                                          *)
(*   H     `#' (system command at the start of a line)                      *)
(*   M     comment / description starter                 -         +    -   *)
(*   X     byte >= 0x80                                  E9        80   FF  *)
(*   Z     NUL / control character                       00        01   7F  *)
(*                                                                          *)
(* The machine grows the class string one class at a time (BFS = all        *)
(* strings up to MaxLen); the state invariant Exported prints, for every    *)
(* string and variant, the bytes and the verdict of SrcText!Judge.  The     *)
(* letters are chosen so that no directive name and no keyword can be       *)
(* spelled, hence Scan's verdict is not disturbed by #if / #include.        *)
(*                                                                          *)
(* Design-level invariants checked on every string:                         *)
(*   NulOnly     the as-read judgement differs from the required one only   *)
(*               when the text has a NUL                                    *)
(*   CertStable  an error token never disappears by appending a newline     *)
(*   BalanceLaw  CheckBalance and the bracket count agree on { } when the   *)
(*               text has neither #pile nor #endpile                        *)
(***************************************************************************)
EXTENDS SrcText, Json

CONSTANTS MaxLen,      \* class strings of length <= MaxLen
          ShardLen,    \* TLC is single-threaded on this machine, so the check splits the enumeration over NShards
          NShards,     \* processes: process ShardNo starts from the strings of length ShardLen whose index is
          ShardNo,     \* ShardNo modulo NShards (process 0 also from all shorter strings) and grows them to MaxLen.
                       \* ShardLen = 0, NShards = 1, ShardNo = 0 is the whole enumeration in one process.
          Variants,    \* subset of 1..3
          Export       \* TRUE: print one SRC line per (string, variant)

Reps == << << 97, 114, 69 >>,     \* L
           << 49, 55, 50 >>,      \* D
           << 95, 95, 95 >>,      \* U
           << 34, 34, 34 >>,      \* Q
           << 61, 46, 44 >>,      \* O
           << 123, 40, 91 >>,     \* B
           << 125, 41, 93 >>,     \* C
           << 32, 9, 32 >>,       \* S
           << 10, 10, 10 >>,      \* N
           << 35, 35, 35 >>,      \* H
           << 45, 43, 45 >>,      \* M
           << 233, 128, 255 >>,   \* X
           << 0, 1, 127 >> >>     \* Z
NClasses == Len(Reps)

VARIABLES cs, v
vars == << cs, v >>

Bytes(s, w) == [i \in 1..Len(s) |-> Reps[s[i]][w]]

Strs(n)  == [1..n -> 1..NClasses]
Idx(s)   == FoldLeft(LAMBDA a, c : a * NClasses + (c - 1), 0, s)
Starts   == {s \in Strs(ShardLen) : Idx(s) % NShards = ShardNo}
            \cup (IF ShardNo = 0 THEN UNION {Strs(n) : n \in 0..(ShardLen - 1)} ELSE {})

Init == cs \in Starts /\ v \in Variants
Next == /\ Len(cs) < MaxLen /\ Len(cs) >= ShardLen
        /\ \E c \in 1..NClasses : cs' = Append(cs, c)
        /\ UNCHANGED v
Spec == Init /\ [][Next]_vars

Exported == Export => PrintT("SRC " \o ToJson(Judge(Bytes(cs, v)) @@ [v |-> v]))

Text == Chars(Bytes(cs, v))
NulOnly    == (\A i \in 1..Len(Text) : Text[i] # NUL) => CertAsRead(Text) = Cert(Text)
CertStable == "errtok" \in Cert(Text) => "errtok" \in Cert(Append(Text, "\n"))
BalanceLaw == LET tl == TokensOf(Text)
              IN  (Faithful(Text) /\ \A i \in 1..Len(tl) : tl[i].k # "sys")
                    => (Unbalanced(tl) \/ ~(CountKw(tl, "{") # CountKw(tl, "}")))
=============================================================================
