\* C07 trace validation: TraceDriver's configuration (property-level layer of Driver) with the verdict on the outcome of each run printed by the Observed step (JUDGED)
\* (set TRACE=<ndjson file>; -workers 1 -continue)
SPECIFICATION TraceSpecT
CONSTANTS
  MaxFiles = 2
  MaxFaults = 64
  MaxErrs = 3
  Strict = FALSE
  MultiPart = TRUE
  PostUsed = {"link", "interp"}
  ChecksIo = TRUE
  MaxKinds = 9
  CleanupKept = TRUE
  PhasesUsed = {"load", "include", "scan", "syscmd", "linear", "parse", "abnorm", "macex", "abcheck", "scobind", "tinfer", "genfoam", "optfoam", "putao", "putlisp", "putjava", "putc", "putobject"}
  KindsUsed = {"ai", "ap", "asy", "ao", "fm", "lsp", "c", "java", "main"}
INVARIANTS MidTypeOK MidHonestExit MidCompleteOnSuccess MidNoOutputAfterError MidFailureSurfaces MidNothingOpen MidPendingIsReported
ALIAS TraceAlias
CHECK_DEADLOCK FALSE
