\* C07 trace validation: TraceDriver's configuration (property-level layer of Driver) plus InvalidDiagnosed
\* (set TRACE=<ndjson file>; -workers 1 -continue)
SPECIFICATION TraceSpecT
CONSTANTS
  MaxFiles = 2
  MaxFaults = 64
  MaxErrs = 3
  Strict = FALSE
  MultiPart = TRUE
  PostUsed = {"link", "interp"}
  ChecksIo = TRUE
  MaxKinds = 9
  CleanupKept = TRUE
  PhasesUsed = {"load", "include", "scan", "syscmd", "linear", "parse", "abnorm", "macex", "abcheck", "scobind", "tinfer", "genfoam", "optfoam", "putao", "putlisp", "putjava", "putc", "putobject"}
  KindsUsed = {"ai", "ap", "asy", "ao", "fm", "lsp", "c", "java", "main"}
INVARIANTS TypeOK HonestExit CompleteOnSuccess NoOutputAfterError FailureSurfaces NothingOpenAtSuccess PendingIsReported InvalidDiagnosed
ALIAS TraceAlias
CHECK_DEADLOCK FALSE
