\* C15 required design, scaled widths (2,3), <= 3 files, <= 12 lines, <= 5 items: PosFaithful must hold
CONSTANTS
  CNO = 2
  LNO = 3
  Packer = "required"
  Policy = "required"
  EofPolicy = "required"
  FileNames = {"a", "b", "c"}
  TopFile = "a"
  LineNames = {"a", "b"}
  LineNums = {1, 4}
  Cols = {1, 3, 4, 9}
  RunLens = {1, 2, 4}
  MaxLines = 12
  MaxIf = 1
  MaxItems = 5
  Feat = {"line", "if", "misc"}
  AvoidEofIf = FALSE
  AvoidCollide = FALSE
INIT Init
NEXT Next
CHECK_DEADLOCK FALSE
INVARIANT TypeOK
INVARIANT PosFaithful
INVARIANT TableShape
INVARIANT OrderOk
