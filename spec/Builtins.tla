------------------------------ MODULE Builtins ------------------------------
(***************************************************************************)
(* The builtin operations of the Aldor abstract machine (FOAM BCall ops,   *)
(* exported to the language through the Machine domain): their signature   *)
(* table and their mathematical definition.                                *)
(*                                                                         *)
(* Values:  Bool  -> BOOLEAN                                               *)
(*          Char  -> 0..255 (character code)                               *)
(*          Byte (8 bit unsigned), HInt (16 bit signed), SInt (SIntW bit   *)
(*          signed), Word (WordW bit unsigned), BInt (unbounded)           *)
(*                -> BigZ integers [neg, mag]                              *)
(*          Str   -> sequence of character codes (numeric literal text)    *)
(*          SFlo, DFlo -> opaque (literal text); no definition is given    *)
(*                for floating point: only agreement of the evaluators is  *)
(*                required (Obs.tla)                                       *)
(*                                                                         *)
(* Def(op, a) is the tuple of results for the argument tuple a, defined     *)
(* where Specified(op, a) holds; elsewhere the specification gives no      *)
(* value (floating point; arguments for which the sources give no meaning  *)
(* but every evaluator is total).  InDomain(op, a) excludes the argument   *)
(* tuples outside the operation's domain (division by zero, shift counts   *)
(* outside 0..W-1, the trapping quotient SMin quo -1, negative exponents,  *)
(* moduli <= 0, residues outside 0..n-1).                                  *)
(*                                                                         *)
(* Conventions fixed here where the user guide is silent; they follow the  *)
(* run-time macros of foam_c.h / foam_i.c, which are the only statement of *)
(* intent in the sources:                                                  *)
(*  - quo truncates toward zero, rem (and mod: SIntMod is C `%`, BIntMod   *)
(*    and BIntRem are the same function) has the sign of the dividend;     *)
(*  - SInt arithmetic wraps modulo 2^SIntW; shiftDown is arithmetic;       *)
(*  - BInt shifts and bit tests act on the magnitude (sign-magnitude);     *)
(*  - length is the bit length of the magnitude, length(0) = 0 for SInt    *)
(*  - single?(b) means |b| < 2^(SIntW-1) ("space for the sign bit").       *)
(***************************************************************************)
EXTENDS Word, FiniteSets, TLC

CONSTANTS SIntW,     \* width of SInt: 64 on the bound platform (8 in BuiltinsCheck)
          WordW      \* width of Word: 64

HIntW == 16
ByteW == 8

---------------------------------------------------------------------------
(* Signature table: <<name, argument types, result types>>.  Same names    *)
(* and order as foamBValInfoTable (foam.c); the check compares the two and *)
(* records any difference as drift.                                        *)
T0(n, r)             == [op |-> n, args |-> <<>>, res |-> <<r>>]
T1(n, a, r)          == [op |-> n, args |-> <<a>>, res |-> <<r>>]
T2(n, a, b, r)       == [op |-> n, args |-> <<a, b>>, res |-> <<r>>]
T3(n, a, b, c, r)    == [op |-> n, args |-> <<a, b, c>>, res |-> <<r>>]
T4(n, a, b, c, d, r) == [op |-> n, args |-> <<a, b, c, d>>, res |-> <<r>>]
TM(n, as, rs)        == [op |-> n, args |-> as, res |-> rs]

FloTable(F) ==     \* the same 27 operations exist for SFlo and DFlo
  << T0(F \o "0", F), T0(F \o "1", F), T0(F \o "Min", F), T0(F \o "Max", F), T0(F \o "Epsilon", F),
     T1(F \o "IsZero", F, "Bool"), T1(F \o "IsNeg", F, "Bool"), T1(F \o "IsPos", F, "Bool"),
     T2(F \o "EQ", F, F, "Bool"), T2(F \o "NE", F, F, "Bool"), T2(F \o "LT", F, F, "Bool"), T2(F \o "LE", F, F, "Bool"),
     T1(F \o "Negate", F, F), T1(F \o "Prev", F, F), T1(F \o "Next", F, F),
     T2(F \o "Plus", F, F, F), T2(F \o "Minus", F, F, F), T2(F \o "Times", F, F, F),
     T3(F \o "TimesPlus", F, F, F, F), T2(F \o "Divide", F, F, F),
     T3(F \o "RPlus", F, F, "SInt", F), T3(F \o "RMinus", F, F, "SInt", F), T3(F \o "RTimes", F, F, "SInt", F),
     T4(F \o "RTimesPlus", F, F, F, "SInt", F), T3(F \o "RDivide", F, F, "SInt", F) >>

Table ==
  << T0("BoolFalse", "Bool"), T0("BoolTrue", "Bool"), T1("BoolNot", "Bool", "Bool"),
     T2("BoolAnd", "Bool", "Bool", "Bool"), T2("BoolOr", "Bool", "Bool", "Bool"),
     T2("BoolEQ", "Bool", "Bool", "Bool"), T2("BoolNE", "Bool", "Bool", "Bool"),
     T0("CharSpace", "Char"), T0("CharNewline", "Char"), T0("CharTab", "Char"),
     T0("CharMin", "Char"), T0("CharMax", "Char"),
     T1("CharIsDigit", "Char", "Bool"), T1("CharIsLetter", "Char", "Bool"),
     T2("CharEQ", "Char", "Char", "Bool"), T2("CharNE", "Char", "Char", "Bool"),
     T2("CharLT", "Char", "Char", "Bool"), T2("CharLE", "Char", "Char", "Bool"),
     T1("CharLower", "Char", "Char"), T1("CharUpper", "Char", "Char"),
     T1("CharOrd", "Char", "SInt"), T1("CharNum", "SInt", "Char") >>
  \o FloTable("SFlo")
  \o << TM("SFloDissemble", <<"SFlo">>, <<"Bool", "SInt", "Word">>),
        T3("SFloAssemble", "Bool", "SInt", "Word", "SFlo") >>
  \o FloTable("DFlo")
  \o << TM("DFloDissemble", <<"DFlo">>, <<"Bool", "SInt", "Word", "Word">>),
        T4("DFloAssemble", "Bool", "SInt", "Word", "Word", "DFlo") >>
  \o
  << T0("Byte0", "Byte"), T0("Byte1", "Byte"), T0("ByteMin", "Byte"), T0("ByteMax", "Byte"),
     T0("HInt0", "HInt"), T0("HInt1", "HInt"), T0("HIntMin", "HInt"), T0("HIntMax", "HInt"),
     T0("SInt0", "SInt"), T0("SInt1", "SInt"), T0("SIntMin", "SInt"), T0("SIntMax", "SInt"),
     T1("SIntIsZero", "SInt", "Bool"), T1("SIntIsNeg", "SInt", "Bool"), T1("SIntIsPos", "SInt", "Bool"),
     T1("SIntIsEven", "SInt", "Bool"), T1("SIntIsOdd", "SInt", "Bool"),
     T2("SIntEQ", "SInt", "SInt", "Bool"), T2("SIntNE", "SInt", "SInt", "Bool"),
     T2("SIntLT", "SInt", "SInt", "Bool"), T2("SIntLE", "SInt", "SInt", "Bool"),
     T1("SIntNegate", "SInt", "SInt"), T1("SIntPrev", "SInt", "SInt"), T1("SIntNext", "SInt", "SInt"),
     T2("SIntPlus", "SInt", "SInt", "SInt"), T2("SIntMinus", "SInt", "SInt", "SInt"),
     T2("SIntTimes", "SInt", "SInt", "SInt"), T3("SIntTimesPlus", "SInt", "SInt", "SInt", "SInt"),
     T2("SIntMod", "SInt", "SInt", "SInt"), T2("SIntQuo", "SInt", "SInt", "SInt"),
     T2("SIntRem", "SInt", "SInt", "SInt"),
     TM("SIntDivide", <<"SInt", "SInt">>, <<"SInt", "SInt">>),
     T2("SIntGcd", "SInt", "SInt", "SInt"),
     T3("SIntPlusMod", "SInt", "SInt", "SInt", "SInt"), T3("SIntMinusMod", "SInt", "SInt", "SInt", "SInt"),
     T3("SIntTimesMod", "SInt", "SInt", "SInt", "SInt"),
     T4("SIntTimesModInv", "SInt", "SInt", "SInt", "DFlo", "SInt"),
     T1("SIntLength", "SInt", "SInt"),
     T2("SIntShiftUp", "SInt", "SInt", "SInt"), T2("SIntShiftDn", "SInt", "SInt", "SInt"),
     T2("SIntBit", "SInt", "SInt", "Bool"), T1("SIntNot", "SInt", "SInt"),
     T2("SIntAnd", "SInt", "SInt", "SInt"), T2("SIntOr", "SInt", "SInt", "SInt"),
     T2("SIntXOr", "SInt", "SInt", "SInt"), T2("SIntHashCombine", "SInt", "SInt", "SInt"),
     TM("WordTimesDouble", <<"Word", "Word">>, <<"Word", "Word">>),
     TM("WordDivideDouble", <<"Word", "Word", "Word">>, <<"Word", "Word", "Word">>),
     TM("WordPlusStep", <<"Word", "Word", "Word">>, <<"Word", "Word">>),
     TM("WordTimesStep", <<"Word", "Word", "Word", "Word">>, <<"Word", "Word">>),
     T0("BInt0", "BInt"), T0("BInt1", "BInt"),
     T1("BIntIsZero", "BInt", "Bool"), T1("BIntIsNeg", "BInt", "Bool"), T1("BIntIsPos", "BInt", "Bool"),
     T1("BIntIsEven", "BInt", "Bool"), T1("BIntIsOdd", "BInt", "Bool"), T1("BIntIsSingle", "BInt", "Bool"),
     T2("BIntEQ", "BInt", "BInt", "Bool"), T2("BIntNE", "BInt", "BInt", "Bool"),
     T2("BIntLT", "BInt", "BInt", "Bool"), T2("BIntLE", "BInt", "BInt", "Bool"),
     T1("BIntNegate", "BInt", "BInt"), T1("BIntPrev", "BInt", "BInt"), T1("BIntNext", "BInt", "BInt"),
     T2("BIntPlus", "BInt", "BInt", "BInt"), T2("BIntMinus", "BInt", "BInt", "BInt"),
     T2("BIntTimes", "BInt", "BInt", "BInt"), T3("BIntTimesPlus", "BInt", "BInt", "BInt", "BInt"),
     T2("BIntMod", "BInt", "BInt", "BInt"), T2("BIntQuo", "BInt", "BInt", "BInt"),
     T2("BIntRem", "BInt", "BInt", "BInt"),
     TM("BIntDivide", <<"BInt", "BInt">>, <<"BInt", "BInt">>),
     T2("BIntGcd", "BInt", "BInt", "BInt"),
     T2("BIntSIPower", "BInt", "SInt", "BInt"), T2("BIntBIPower", "BInt", "BInt", "BInt"),
     T3("BIntPowerMod", "BInt", "BInt", "BInt", "BInt"),
     T1("BIntLength", "BInt", "SInt"),
     T2("BIntShiftUp", "BInt", "SInt", "BInt"), T2("BIntShiftDn", "BInt", "SInt", "BInt"),
     T2("BIntShiftRem", "BInt", "SInt", "BInt"), T2("BIntBit", "BInt", "SInt", "Bool"),
     T3("FormatSInt", "SInt", "Str", "SInt", "SInt"), T3("FormatBInt", "BInt", "Str", "SInt", "SInt"),
     TM("ScanSInt", <<"Str", "SInt">>, <<"SInt", "SInt">>),
     TM("ScanBInt", <<"Str", "SInt">>, <<"BInt", "SInt">>),
     T1("SFloToDFlo", "SFlo", "DFlo"), T1("DFloToSFlo", "DFlo", "SFlo"),
     T1("ByteToSInt", "Byte", "SInt"), T1("SIntToByte", "SInt", "Byte"),
     T1("HIntToSInt", "HInt", "SInt"), T1("SIntToHInt", "SInt", "HInt"),
     T1("SIntToBInt", "SInt", "BInt"), T1("BIntToSInt", "BInt", "SInt"),
     T1("SIntToSFlo", "SInt", "SFlo"), T1("SIntToDFlo", "SInt", "DFlo"),
     T1("BIntToSFlo", "BInt", "SFlo"), T1("BIntToDFlo", "BInt", "DFlo"),
     T1("ArrToSFlo", "Str", "SFlo"), T1("ArrToDFlo", "Str", "DFlo"),
     T1("ArrToSInt", "Str", "SInt"), T1("ArrToBInt", "Str", "BInt"),
     T0("RoundZero", "SInt"), T0("RoundNearest", "SInt"), T0("RoundUp", "SInt"),
     T0("RoundDown", "SInt"), T0("RoundDontCare", "SInt"),
     T1("SFloTruncate", "SFlo", "BInt"), T1("SFloFraction", "SFlo", "SFlo"), T2("SFloRound", "SFlo", "SInt", "BInt"),
     T1("DFloTruncate", "DFlo", "BInt"), T1("DFloFraction", "DFlo", "DFlo"), T2("DFloRound", "DFlo", "SInt", "BInt") >>

OpNames == {Table[i].op : i \in 1..Len(Table)}
Sig(op) == LET i == CHOOSE j \in 1..Len(Table) : Table[j].op = op IN Table[i]

IsIntType(t) == t \in {"Byte", "HInt", "SInt", "Word", "BInt"}
IsFloType(t) == t \in {"SFlo", "DFlo"}

(* Is v a value of type t ?  (type invariant of the trace; domain of Def)   *)
HasType(v, t) ==
  CASE t = "Bool" -> v \in BOOLEAN
    [] t = "Char" -> v \in 0..255
    [] t = "Byte" -> InU(v, ByteW)
    [] t = "HInt" -> InS(v, HIntW)
    [] t = "SInt" -> InS(v, SIntW)
    [] t = "Word" -> InU(v, WordW)
    [] t = "BInt" -> TRUE
    [] OTHER -> TRUE

---------------------------------------------------------------------------
(* Character classes (ASCII / C locale)                                     *)
IsDigitC(c)  == c >= 48 /\ c <= 57
IsUpperC(c)  == c >= 65 /\ c <= 90
IsLowerC(c)  == c >= 97 /\ c <= 122
IsLetterC(c) == IsUpperC(c) \/ IsLowerC(c)
LowerC(c)    == IF IsUpperC(c) THEN c + 32 ELSE c
UpperC(c)    == IF IsLowerC(c) THEN c - 32 ELSE c

(* hashCombinePair (util.c), on the low 32 bits of both arguments:          *)
(*   ((z1*h1 + z2*h2) * zz  mod 2^64) >> 32, low 30 bits                    *)
Hex(ds) == Z(FALSE, MFromDigits(ds, 16))
Z1  == Hex(<<4, 1, 9, 10, 12, 2, 4, 1>>)                                    \* 0x419ac241
Z2  == Hex(<<5, 5, 7, 7, 15, 8, 14, 1>>)                                    \* 0x5577f8e1
ZZ  == Hex(<<4, 4, 0, 11, 10, 13, 15, 12, 0, 5, 0, 7, 2, 3, 6, 7>>)         \* 0x440badfc05072367
HashCombine(x, y) ==
  LET h1 == UWrap(x, 32)  h2 == UWrap(y, 32)
      p  == UWrap(Mul(Add(Mul(Z1, h1), Mul(Z2, h2)), ZZ), 64)
  IN UWrap(ShrFloor(p, 32), 30)

(* decimal text                                                             *)
DecDigits(z)  == MToDigits(z.mag, 10)                        \* most significant first, <<0>> for zero
DecText(z)    == (IF z.neg THEN <<45>> ELSE <<>>) \o [i \in 1..Len(DecDigits(z)) |-> 48 + DecDigits(z)[i]]
DigitVal(c)   == IF IsDigitC(c) THEN c - 48 ELSE IF IsLowerC(c) THEN c - 87 ELSE IF IsUpperC(c) THEN c - 55 ELSE 99
AllDigits(s, r) == Len(s) > 0 /\ \A i \in 1..Len(s) : DigitVal(s[i]) < r
TextVal(s, r) == Z(FALSE, MFromDigits([i \in 1..Len(s) |-> DigitVal(s[i])], r))
(* numeric literal text: WW (decimal) or RRrWW with radix RR in 2..36      *)
RPos(s) == {i \in 1..Len(s) : s[i] = 114}                                  \* 'r'
LitOk(s) == \/ AllDigits(s, 10)
            \/ /\ Cardinality(RPos(s)) = 1
               /\ LET p == CHOOSE i \in RPos(s) : TRUE
                      rt == SubSeq(s, 1, p - 1)
                  IN /\ AllDigits(rt, 10) /\ Len(rt) <= 2
                     /\ ToInt(TextVal(rt, 10)) \in 2..36
                     /\ AllDigits(SubSeq(s, p + 1, Len(s)), ToInt(TextVal(rt, 10)))
LitVal(s) == IF AllDigits(s, 10) THEN TextVal(s, 10)
             ELSE LET p == CHOOSE i \in RPos(s) : TRUE
                  IN TextVal(SubSeq(s, p + 1, Len(s)), ToInt(TextVal(SubSeq(s, 1, p - 1), 10)))

(* longest prefix of s from (1-based) position p that is an optionally signed decimal number *)
RECURSIVE DigitRun(_, _)
DigitRun(s, p) == IF p <= Len(s) /\ IsDigitC(s[p]) THEN 1 + DigitRun(s, p + 1) ELSE 0

ScanNeg(s, i)   == i + 1 <= Len(s) /\ s[i + 1] = 45                        \* '-' at 0-based index i
ScanStart(s, i) == IF ScanNeg(s, i) THEN i + 2 ELSE i + 1                  \* 1-based first digit
ScanLen(s, i)   == DigitRun(s, ScanStart(s, i))
ScanEnd(s, i)   == ScanStart(s, i) + ScanLen(s, i) - 1                     \* 0-based index after the number
ScanVal(s, i)   == Z(ScanNeg(s, i), TextVal(SubSeq(s, ScanStart(s, i), ScanEnd(s, i)), 10).mag)

---------------------------------------------------------------------------
(* Domains                                                                  *)
ModArgs(a) == /\ Lt(Zero, a[3]) /\ ~a[1].neg /\ ~a[2].neg
              /\ Lt(a[1], a[3]) /\ Lt(a[2], a[3])
ShiftCnt(k, W) == ~k.neg /\ Lt(k, FromInt(W))

InDomain(op, a) ==
  CASE op \in {"SIntMod", "SIntQuo", "SIntRem", "SIntDivide"} -> DivDefined(a[1], a[2], SIntW)
    [] op \in {"BIntMod", "BIntQuo", "BIntRem", "BIntDivide"} -> ~IsZero(a[2])
    [] op \in {"SIntPlusMod", "SIntMinusMod", "SIntTimesMod", "SIntTimesModInv"} -> ModArgs(a)
    [] op \in {"SIntShiftUp", "SIntShiftDn", "SIntBit"} -> ShiftCnt(a[2], SIntW)
    [] op \in {"BIntShiftUp", "BIntShiftDn", "BIntBit"} ->
            ~a[2].neg /\ Lt(a[2], FromInt(100000))
    \* ShiftRem (not exported by Machine): the n lowest bits of a non-negative b, 1 <= n <= length b
    [] op = "BIntShiftRem" -> ~a[1].neg /\ Lt(Zero, a[2]) /\ Le(a[2], FromInt(BitLen(a[1])))
    [] op = "BIntSIPower" -> ~a[2].neg /\ Lt(a[2], FromInt(4096))
    [] op = "BIntBIPower" -> ~a[2].neg /\ Lt(a[2], FromInt(4096))
    [] op = "BIntPowerMod" -> ~a[2].neg /\ ~IsZero(a[3])
    [] op = "WordDivideDouble" -> ~IsZero(a[3]) /\ Lt(a[1], a[3])      \* quotient fits two words, high word < d
    [] op = "CharNum" -> ~a[1].neg /\ Lt(a[1], FromInt(256))
    [] op \in {"ArrToSInt", "ArrToBInt"} -> LitOk(a[1])
    [] op \in {"FormatSInt", "FormatBInt"} ->
            ~a[3].neg /\ Lt(a[3], FromInt(Len(a[2]) + 1)) /\ ToInt(a[3]) + Len(DecText(a[1])) <= Len(a[2])
    [] op \in {"ScanSInt", "ScanBInt"} -> ~a[2].neg /\ Lt(a[2], FromInt(Len(a[1]) + 1))
    [] OTHER -> TRUE

---------------------------------------------------------------------------
(* Definitions                                                              *)
SW(z) == SWrap(z, SIntW)
BIntMag(z) == Z(FALSE, z.mag)

PowerMod(b, e, m) ==          \* b^e mod m with the sign convention of BIntMod (sign of the dividend)
  IF IsZero(e) THEN QuoRem(One, m).r          \* 1, and 0 when |m| = 1
  ELSE LET r0 == QuoRem(b, m).r
           n  == BitLen(e)
           st == FoldLeft(LAMBDA acc, i :
                            LET p1 == IF MBit(e.mag, i - 1) = 1 THEN QuoRem(Mul(acc[1], acc[2]), m).r ELSE acc[1]
                            IN <<p1, QuoRem(Mul(acc[2], acc[2]), m).r>>,
                          <<One, r0>>, Ix(1, n))
       IN st[1]

DefBool(op, a) ==
  CASE op = "BoolFalse" -> <<FALSE>>
    [] op = "BoolTrue"  -> <<TRUE>>
    [] op = "BoolNot"   -> <<~a[1]>>
    [] op = "BoolAnd"   -> <<a[1] /\ a[2]>>
    [] op = "BoolOr"    -> <<a[1] \/ a[2]>>
    [] op = "BoolEQ"    -> <<a[1] = a[2]>>
    [] op = "BoolNE"    -> <<a[1] # a[2]>>

DefChar(op, a) ==
  CASE op = "CharSpace"    -> <<32>>
    [] op = "CharNewline"  -> <<10>>
    [] op = "CharTab"      -> <<9>>
    [] op = "CharIsDigit"  -> <<IsDigitC(a[1])>>
    [] op = "CharIsLetter" -> <<IsLetterC(a[1])>>
    [] op = "CharEQ"       -> <<a[1] = a[2]>>
    [] op = "CharNE"       -> <<a[1] # a[2]>>
    [] op = "CharLT"       -> <<a[1] < a[2]>>
    [] op = "CharLE"       -> <<a[1] <= a[2]>>
    [] op = "CharLower"    -> <<LowerC(a[1])>>
    [] op = "CharUpper"    -> <<UpperC(a[1])>>
    [] op = "CharOrd"      -> <<FromInt(a[1])>>
    [] op = "CharNum"      -> <<ToInt(a[1])>>

DefSInt(op, a) ==
  CASE op = "Byte0" -> <<Zero>> [] op = "Byte1" -> <<One>>
    [] op = "ByteMin" -> <<Zero>> [] op = "ByteMax" -> <<UMax(ByteW)>>
    [] op = "HInt0" -> <<Zero>> [] op = "HInt1" -> <<One>>
    [] op = "HIntMin" -> <<SMin(HIntW)>> [] op = "HIntMax" -> <<SMax(HIntW)>>
    [] op = "SInt0" -> <<Zero>> [] op = "SInt1" -> <<One>>
    [] op = "SIntMin" -> <<SMin(SIntW)>> [] op = "SIntMax" -> <<SMax(SIntW)>>
    [] op = "SIntIsZero" -> <<IsZero(a[1])>>
    [] op = "SIntIsNeg"  -> <<a[1].neg>>
    [] op = "SIntIsPos"  -> <<Sign(a[1]) = 1>>
    [] op = "SIntIsEven" -> <<WIsEven(a[1])>>
    [] op = "SIntIsOdd"  -> <<WIsOdd(a[1])>>
    [] op = "SIntEQ" -> <<Eq(a[1], a[2])>> [] op = "SIntNE" -> <<~Eq(a[1], a[2])>>
    [] op = "SIntLT" -> <<Lt(a[1], a[2])>> [] op = "SIntLE" -> <<Le(a[1], a[2])>>
    [] op = "SIntNegate" -> <<WNegate(a[1], SIntW)>>
    [] op = "SIntPrev"   -> <<WMinus(a[1], One, SIntW)>>
    [] op = "SIntNext"   -> <<WPlus(a[1], One, SIntW)>>
    [] op = "SIntPlus"   -> <<WPlus(a[1], a[2], SIntW)>>
    [] op = "SIntMinus"  -> <<WMinus(a[1], a[2], SIntW)>>
    [] op = "SIntTimes"  -> <<WTimes(a[1], a[2], SIntW)>>
    [] op = "SIntTimesPlus" -> <<WTimesPlus(a[1], a[2], a[3], SIntW)>>
    [] op = "SIntMod"    -> <<WRem(a[1], a[2])>>
    [] op = "SIntQuo"    -> <<WQuo(a[1], a[2])>>
    [] op = "SIntRem"    -> <<WRem(a[1], a[2])>>
    [] op = "SIntDivide" -> LET qr == QuoRem(a[1], a[2]) IN <<qr.q, qr.r>>
    [] op = "SIntGcd"    -> <<WGcd(a[1], a[2], SIntW)>>
    [] op = "SIntPlusMod"  -> <<QuoRem(Add(a[1], a[2]), a[3]).r>>
    [] op = "SIntMinusMod" -> <<QuoRem(Sub(a[1], a[2]), a[3]).r>>    \* C remainder of the exact difference
    [] op = "SIntTimesMod" -> <<QuoRem(Mul(a[1], a[2]), a[3]).r>>
    [] op = "SIntLength"   -> <<FromInt(WLength(a[1]))>>
    [] op = "SIntShiftUp"  -> <<WShl(a[1], ToInt(a[2]), SIntW)>>
    [] op = "SIntShiftDn"  -> <<WShr(a[1], ToInt(a[2]))>>
    [] op = "SIntBit"      -> <<WBit(a[1], ToInt(a[2]), SIntW)>>
    [] op = "SIntNot"      -> <<WNot(a[1], SIntW)>>
    [] op = "SIntAnd"      -> <<WAnd(a[1], a[2], SIntW)>>
    [] op = "SIntOr"       -> <<WOr(a[1], a[2], SIntW)>>
    [] op = "SIntXOr"      -> <<WXor(a[1], a[2], SIntW)>>
    [] op = "SIntHashCombine" -> <<HashCombine(a[1], a[2])>>
    [] op = "RoundZero" -> <<Zero>> [] op = "RoundNearest" -> <<One>>          \* foam_c.h fiRoundXxx()
    [] op = "RoundUp" -> <<FromInt(2)>> [] op = "RoundDown" -> <<FromInt(3)>>
    [] op = "RoundDontCare" -> <<FromInt(4)>>
    [] op = "WordTimesDouble"  -> UTimesDouble(a[1], a[2], WordW)
    [] op = "WordDivideDouble" -> UDivideDouble(a[1], a[2], a[3], WordW)
    [] op = "WordPlusStep"     -> UPlusStep(a[1], a[2], a[3], WordW)
    [] op = "WordTimesStep"    -> UTimesStep(a[1], a[2], a[3], a[4], WordW)

DefBInt(op, a) ==
  CASE op = "BInt0" -> <<Zero>> [] op = "BInt1" -> <<One>>
    [] op = "BIntIsZero" -> <<IsZero(a[1])>>
    [] op = "BIntIsNeg"  -> <<a[1].neg>>
    [] op = "BIntIsPos"  -> <<Sign(a[1]) = 1>>
    [] op = "BIntIsEven" -> <<WIsEven(a[1])>>
    [] op = "BIntIsOdd"  -> <<WIsOdd(a[1])>>
    [] op = "BIntIsSingle" -> <<BitLen(a[1]) < SIntW>>
    [] op = "BIntEQ" -> <<Eq(a[1], a[2])>> [] op = "BIntNE" -> <<~Eq(a[1], a[2])>>
    [] op = "BIntLT" -> <<Lt(a[1], a[2])>> [] op = "BIntLE" -> <<Le(a[1], a[2])>>
    [] op = "BIntNegate" -> <<Neg(a[1])>>
    [] op = "BIntPrev"   -> <<Sub(a[1], One)>>
    [] op = "BIntNext"   -> <<Add(a[1], One)>>
    [] op = "BIntPlus"   -> <<Add(a[1], a[2])>>
    [] op = "BIntMinus"  -> <<Sub(a[1], a[2])>>
    [] op = "BIntTimes"  -> <<Mul(a[1], a[2])>>
    [] op = "BIntTimesPlus" -> <<Add(Mul(a[1], a[2]), a[3])>>
    [] op = "BIntMod"    -> <<QuoRem(a[1], a[2]).r>>
    [] op = "BIntQuo"    -> <<QuoRem(a[1], a[2]).q>>
    [] op = "BIntRem"    -> <<QuoRem(a[1], a[2]).r>>
    [] op = "BIntDivide" -> LET qr == QuoRem(a[1], a[2]) IN <<qr.q, qr.r>>
    [] op = "BIntGcd"    -> <<Gcd(a[1], a[2])>>
    [] op = "BIntSIPower" -> <<PowNat(a[1], ToInt(a[2]))>>
    [] op = "BIntBIPower" -> <<PowNat(a[1], ToInt(a[2]))>>
    [] op = "BIntPowerMod" -> <<PowerMod(a[1], a[2], a[3])>>
    [] op = "BIntLength"  -> <<FromInt(BitLen(a[1]))>>
    [] op = "BIntShiftUp" -> <<Shl(a[1], ToInt(a[2]))>>
    [] op = "BIntShiftDn" -> <<ShrMag(a[1], ToInt(a[2]))>>
    [] op = "BIntShiftRem" -> <<Z(FALSE, MLowBits(a[1].mag, ToInt(a[2])))>>
    [] op = "BIntBit"     -> <<MBit(a[1].mag, ToInt(a[2])) = 1>>

DefConv(op, a) ==
  CASE op = "ByteToSInt" -> <<a[1]>>
    [] op = "SIntToByte" -> <<a[1]>>                \* "except OFLOW": see Specified
    [] op = "HIntToSInt" -> <<a[1]>>
    [] op = "SIntToHInt" -> <<a[1]>>
    [] op = "SIntToBInt" -> <<a[1]>>
    [] op = "BIntToSInt" -> <<a[1]>>
    [] op = "ArrToSInt"  -> <<LitVal(a[1])>>
    [] op = "ArrToBInt"  -> <<LitVal(a[1])>>
    \* format(x, buf, i): the decimal text of x is stored at buf[i..] (0-based), result = index after it;
    \* the definition returns <<new index, text>>
    [] op \in {"FormatSInt", "FormatBInt"} ->
         <<FromInt(ToInt(a[3]) + Len(DecText(a[1]))), DecText(a[1])>>
    \* scan(s, i): <<value, index after the number>> for an optionally '-' signed decimal number at s[i..]
    [] op \in {"ScanSInt", "ScanBInt"} ->
         <<ScanVal(a[1], ToInt(a[2])), FromInt(ScanEnd(a[1], ToInt(a[2])))>>

BoolOps == {"BoolFalse", "BoolTrue", "BoolNot", "BoolAnd", "BoolOr", "BoolEQ", "BoolNE"}
\* CharMin/CharMax are platform constants (CHAR_MIN/CHAR_MAX cast to the unsigned FiChar): agreement only
CharOps == {"CharSpace", "CharNewline", "CharTab", "CharIsDigit", "CharIsLetter",
            "CharEQ", "CharNE", "CharLT", "CharLE", "CharLower", "CharUpper", "CharOrd", "CharNum"}
SIntOps == {"Byte0", "Byte1", "ByteMin", "ByteMax", "HInt0", "HInt1", "HIntMin", "HIntMax",
            "SInt0", "SInt1", "SIntMin", "SIntMax", "SIntIsZero", "SIntIsNeg", "SIntIsPos", "SIntIsEven",
            "SIntIsOdd", "SIntEQ", "SIntNE", "SIntLT", "SIntLE", "SIntNegate", "SIntPrev", "SIntNext",
            "SIntPlus", "SIntMinus", "SIntTimes", "SIntTimesPlus", "SIntMod", "SIntQuo", "SIntRem",
            "SIntDivide", "SIntGcd", "SIntPlusMod", "SIntMinusMod", "SIntTimesMod", "SIntLength",
            "SIntShiftUp", "SIntShiftDn", "SIntBit", "SIntNot", "SIntAnd", "SIntOr", "SIntXOr",
            "SIntHashCombine", "WordTimesDouble", "WordDivideDouble", "WordPlusStep", "WordTimesStep",
            "RoundZero", "RoundNearest", "RoundUp", "RoundDown", "RoundDontCare"}
BIntOps == {"BInt0", "BInt1", "BIntIsZero", "BIntIsNeg", "BIntIsPos", "BIntIsEven", "BIntIsOdd",
            "BIntIsSingle", "BIntEQ", "BIntNE", "BIntLT", "BIntLE", "BIntNegate", "BIntPrev", "BIntNext",
            "BIntPlus", "BIntMinus", "BIntTimes", "BIntTimesPlus", "BIntMod", "BIntQuo", "BIntRem",
            "BIntDivide", "BIntGcd", "BIntSIPower", "BIntBIPower", "BIntPowerMod", "BIntLength",
            "BIntShiftUp", "BIntShiftDn", "BIntShiftRem", "BIntBit"}
ConvOps == {"ByteToSInt", "SIntToByte", "HIntToSInt", "SIntToHInt", "SIntToBInt", "BIntToSInt",
            "ArrToSInt", "ArrToBInt", "FormatSInt", "FormatBInt", "ScanSInt", "ScanBInt"}
DefinedOps == BoolOps \cup CharOps \cup SIntOps \cup BIntOps \cup ConvOps
(* everything else in the table (floating point, SIntTimesModInv) has no    *)
(* definition: agreement only                                               *)
UnspecOps == OpNames \ DefinedOps

(* Specified(op, a): the specification gives a value for op on a (a in the  *)
(* domain).  Where it does not -- floating point, and the argument tuples    *)
(* on which the sources give no meaning although every evaluator is total   *)
(* ("except OFLOW" conversions, bits of negative big integers, length of    *)
(* the big integer zero, text that is not a number) -- only agreement of    *)
(* the evaluators is required.                                              *)
Specified(op, a) ==
  /\ op \in DefinedOps
  /\ CASE op = "BIntLength" -> ~IsZero(a[1])
       [] op = "BIntBit" -> ~a[1].neg
       [] op = "SIntToByte" -> InU(a[1], ByteW)
       [] op = "SIntToHInt" -> InS(a[1], HIntW)
       [] op = "BIntToSInt" -> InS(a[1], SIntW)
       [] op = "ArrToSInt"  -> InS(LitVal(a[1]), SIntW)
       [] op = "ArrToBInt"  -> AllDigits(a[1], 10)          \* bintFrString reads decimal text only
       [] op = "BIntShiftRem" -> FALSE                      \* not exported by Machine; no stated meaning
       [] op \in {"ScanSInt", "ScanBInt"} ->
            /\ ScanLen(a[1], ToInt(a[2])) > 0
            /\ (op = "ScanSInt" => InS(ScanVal(a[1], ToInt(a[2])), SIntW))
       [] OTHER -> TRUE

Def(op, a) ==
  CASE op \in BoolOps -> DefBool(op, a)
    [] op \in CharOps -> DefChar(op, a)
    [] op \in SIntOps -> DefSInt(op, a)
    [] op \in BIntOps -> DefBInt(op, a)
    [] op \in ConvOps -> DefConv(op, a)

(* results are values of the declared result types                          *)
ResultTyped(op, a) ==
  Specified(op, a) =>
     LET r == Def(op, a)  s == Sig(op)
     IN \A i \in 1..Len(s.res) : HasType(r[i], s.res[i])

---------------------------------------------------------------------------
(* JSON encoding: integers as <<sign, d1, d2, ...>> (radix 2^11, little     *)
(* endian), booleans and character codes natively, text as code sequences   *)
ZJ(z) == <<IF z.neg THEN 1 ELSE 0>> \o z.mag
Enc(v, t) == IF IsIntType(t) THEN ZJ(v) ELSE v
EncSeq(vs, ts) == [i \in 1..Len(vs) |-> Enc(vs[i], ts[i])]
ResTypes(o) == IF o \in {"FormatSInt", "FormatBInt"} THEN <<"SInt", "Str">> ELSE Sig(o).res
EncRes(o, a) == IF Specified(o, a) THEN EncSeq(Def(o, a), ResTypes(o)) ELSE "Unspecified"
DecInt(v) == Z(v[1] = 1, Tail(v))
DecArg(v, t) == IF IsIntType(t) THEN DecInt(v) ELSE v

=============================================================================
