------------------------------ MODULE TotalFile ------------------------------
(***************************************************************************)
(* C07, input class (c) and re-judging: IOEnv.TEXTS names a JSON file       *)
(* [{id, b: [byte,...]}, ...] (seeded random byte strings, token soups, or   *)
(* the rebuilt texts of token-level mutants); every text is judged by       *)
(* SrcText!Judge and exported (SRC line with its id).                       *)
(***************************************************************************)
EXTENDS SrcText, Json, IOUtils

Texts == JsonDeserialize(IOEnv.TEXTS)

VARIABLE i
Init == i \in 1..Len(Texts)
Next == UNCHANGED i
Spec == Init /\ [][Next]_i

Exported == LET j == Judge(Texts[i].b)
            IN  PrintT("SRC " \o ToJson([id |-> Texts[i].id, c |-> j.c, r |-> j.r, f |-> j.f]))
=============================================================================
