SPECIFICATION Spec
CONSTANTS
  EB = 8
  FB = 23
  XEB = 15
  XFB = 32
  FracMode = "boundary"
  Origins = {"native"}
  MaxTrips = 2
INVARIANTS
  TypeOK
  Survives
  SurvivesBitExact
  PartsIdentity
  PartsMeaning
  FileForm
  FileDenotes
  LoadSane
CHECK_DEADLOCK FALSE
