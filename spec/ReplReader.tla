------------------------------ MODULE ReplReader ------------------------------
(***************************************************************************)
(* The reader of the interactive loop: how input lines are grouped into    *)
(* steps (property C13: `feeding the top-level forms one after another',   *)
(* `a form that is rejected leaves the session able to evaluate the        *)
(* remaining forms').  The loop evaluates one step at a time and rejects a *)
(* step as a whole, so the property needs: ONE FORM = ONE STEP.  If the    *)
(* reader cuts a form in two, the form is not evaluated; if it glues       *)
(* several forms into one step, a rejected form takes its well-typed       *)
(* neighbours with it.                                                     *)
(*                                                                         *)
(* REQUIRED GROUPING.  A line is a sequence of character codes ending in   *)
(* the newline.  Required is a machine over the lexical structure of the   *)
(* language (not over scan.c): outside string literals and comments `"'    *)
(* opens a literal, ( { open and ) } close a bracket, `--' and `++' start  *)
(* a comment that ends with the line, the escape character `_' takes the   *)
(* next character out of play (an escaped quote does not open or close a   *)
(* literal, an escaped bracket is no bracket, an escaped newline joins the *)
(* next line); inside a literal only `_' and `"' matter.  A step is        *)
(* complete at the end of a line iff no bracket and no literal is open,    *)
(* the newline was not escaped and no pile block is open; a line whose     *)
(* code ends in `==' opens a pile block, which lasts as long as the lines  *)
(* are indented and takes the first unindented line with it (family        *)
(* assumption: that line is a closing comment).  A line that starts with   *)
(* `#' between two forms is a command and a step of its own; an empty line *)
(* never ends a step.                                                      *)
(*                                                                         *)
(* FAMILY.  Items are built from the pieces of text in READER.pc (spelled  *)
(* by gen/replsess.py; this module sees character codes only) and from     *)
(* two alphabets that TLC enumerates exhaustively up to a length bound:    *)
(*   literal contents   sequences over READER.ca  ( a ( ) { } ; -- == _"   *)
(*                      __ _( ...)   -- each atom is lexically closed      *)
(*   comment texts      sequences over READER.cm  ( a " ( ) { } _ ; == )   *)
(* in the shapes listed at ItemForms: output statements with such a        *)
(* literal and/or comment, comment lines, ill-typed statements with them,  *)
(* statements continued by an open parenthesis, definitions with a brace   *)
(* block (closing brace on its own line or behind the last statement),     *)
(* piled definitions (comment behind the head, in the body, on the closing *)
(* line), escaped characters in identifiers, escaped newlines inside and   *)
(* outside a literal, lines that end in an operator or have a surplus      *)
(* closer (rejected), `#' commands, empty lines.  Every form of an item    *)
(* has its expectation: prints a line (the literal with the escapes        *)
(* resolved: Unesc), is rejected, is evaluated silently, or is no step.    *)
(*                                                                         *)
(* SESSIONS.  A session is: a plain statement, then for each of its items  *)
(* the item, a follower (an ill-typed statement after a well-typed item, a *)
(* plain statement after an ill-typed item; directly after the item's      *)
(* first form, before the call of a definition) and a separator that       *)
(* rotates through nothing / comment line / command / empty line.  So each *)
(* item is directly followed by a form with the opposite verdict: gluing   *)
(* loses output, cutting loses the form.  Items on which the transcription of    *)
(* scanIsContinued (ReplScan) departs from Required get a session of their *)
(* own (a prediction used for packing only -- the verdict always comes     *)
(* from Required); the others are packed READER.pack to a session.         *)
(*                                                                         *)
(* TLC reads each session line by line with both machines.  Invariants:    *)
(* Required cuts every session exactly at the ends of its forms            *)
(* (ReqCutsAreFormEnds: the family and the requirement agree), is in its   *)
(* initial state between forms, and the packed sessions are those on which *)
(* the transcription agrees.  Every session is exported ("RSESS ...") with *)
(* its required cuts and expectations and replayed into `aldor -Gloop'.    *)
(***************************************************************************)
EXTENDS ReplScan, FiniteSets, TLC, Json, IOUtils

RC == ndJsonDeserialize(IOEnv.READER)[1]
PC == RC.pc          \* named pieces of text (character codes)
CA == RC.ca          \* atoms of literal contents
CM == RC.cm          \* atoms of comment texts

MINUS == 45  PLUS == 43

Cat(ss) == FoldLeft(LAMBDA a, x : a \o x, <<>>, ss)
Dig(n) == IF n < 10 THEN <<48 + n>>
          ELSE IF n < 100 THEN <<48 + (n \div 10), 48 + (n % 10)>>
          ELSE IF n < 1000 THEN <<48 + (n \div 100), 48 + ((n \div 10) % 10), 48 + (n % 10)>>
          ELSE <<48 + (n \div 1000), 48 + ((n \div 100) % 10), 48 + ((n \div 10) % 10), 48 + (n % 10)>>
Ix(n) == [i \in 1..n |-> i]

---------------------------------------------------------------------------
(* the required grouping                                                    *)
Rq0 == [str |-> FALSE, depth |-> 0, pile |-> FALSE]

(* one character; a = [str, esc, depth, deq, cmt, cnl, skip] *)
RChar(a, c, nxt) ==
  IF a.cmt THEN a
  ELSE IF a.skip THEN [a EXCEPT !.skip = FALSE]
  ELSE IF a.esc THEN [a EXCEPT !.esc = FALSE, !.cnl = (c = NL), !.deq = IF c = NL \/ a.str THEN @ ELSE FALSE]
  ELSE IF a.str
       THEN IF c = USCORE THEN [a EXCEPT !.esc = TRUE]
            ELSE IF c = DQ THEN [a EXCEPT !.str = FALSE]
            ELSE a
  ELSE CASE c = USCORE -> [a EXCEPT !.esc = TRUE]
         [] c = DQ     -> [a EXCEPT !.str = TRUE, !.deq = FALSE]
         [] c \in {LPAR, LBRACE} -> [a EXCEPT !.depth = @ + 1, !.deq = FALSE]
         [] c \in {RPAR, RBRACE} -> [a EXCEPT !.depth = @ - 1, !.deq = FALSE]
         [] c = MINUS /\ nxt = MINUS -> [a EXCEPT !.cmt = TRUE]
         [] c = PLUS /\ nxt = PLUS   -> [a EXCEPT !.cmt = TRUE]
         [] c = EQ /\ nxt = EQ       -> [a EXCEPT !.deq = TRUE, !.skip = TRUE]
         [] c \in {SP, NL, TAB}      -> a
         [] OTHER      -> [a EXCEPT !.deq = FALSE]

AtFormStart(s) == ~s.str /\ s.depth = 0 /\ ~s.pile

(* one line: [cont |-> the step goes on, s |-> state afterwards] *)
Required(s, line) ==
  IF line[1] = HASH /\ AtFormStart(s) THEN [cont |-> FALSE, s |-> s]
  ELSE IF line = <<NL>> THEN [cont |-> TRUE, s |-> s]
  ELSE
    LET pile0 == s.pile /\ line[1] \in {SP, TAB}
        n     == Len(line)
        a0    == [str |-> s.str, esc |-> FALSE, depth |-> s.depth, deq |-> FALSE, cmt |-> FALSE, cnl |-> FALSE, skip |-> FALSE]
        a     == FoldLeft(LAMBDA acc, i : RChar(acc, line[i], IF i < n THEN line[i + 1] ELSE 0), a0, Ix(n))
    IN IF a.depth < 0            \* a surplus closer: the (erroneous) form ends here
       THEN [cont |-> FALSE, s |-> [str |-> a.str, depth |-> 0, pile |-> pile0]]
       ELSE LET pile1 == pile0 \/ a.deq IN
            [cont |-> pile1 \/ a.depth > 0 \/ a.str \/ a.cnl, s |-> [str |-> a.str, depth |-> a.depth, pile |-> pile1]]

(* the line numbers after which `machine' ends a step *)
CutsBy(machine(_, _), s0, lines) ==
  FoldLeft(LAMBDA acc, i : LET r == machine(acc.s, lines[i]) IN
             [s |-> r.s, cuts |-> IF r.cont THEN acc.cuts ELSE Append(acc.cuts, i)],
           [s |-> s0, cuts |-> <<>>], Ix(Len(lines)))

(* what a literal with these characters between its quotes prints *)
Unesc(cs) == FoldLeft(LAMBDA a, c : IF a.e THEN [o |-> IF c = NL THEN a.o ELSE Append(a.o, c), e |-> FALSE]
                                    ELSE IF c = USCORE THEN [a EXCEPT !.e = TRUE]
                                    ELSE [a EXCEPT !.o = Append(@, c)],
                      [o |-> <<>>, e |-> FALSE], cs).o

---------------------------------------------------------------------------
(* the family                                                               *)

(* an item: [t |-> shape, x |-> variant, c |-> literal content, h |-> has a comment, m |-> comment text] *)
Sp(t, x, c, h, m) == [t |-> t, x |-> x, c |-> c, h |-> h, m |-> m]

SeqSet(s) == {s[i] : i \in DOMAIN s}
C0 == {<<>>}
C1 == C0 \cup SeqSet(CA)
C2 == C1 \cup {x \o y : x \in SeqSet(CA), y \in SeqSet(CA)}
C3 == C2 \cup {x \o y : x \in C2 \ C1, y \in SeqSet(CA)}
Contents(n) == IF n <= 0 THEN C0 ELSE IF n = 1 THEN C1 ELSE IF n = 2 THEN C2 ELSE C3
M1 == SeqSet(CM)
M2 == M1 \cup {x \o y : x \in M1, y \in M1}
M3 == M2 \cup {x \o y : x \in M2 \ M1, y \in M1}
Comments(n) == IF n <= 0 THEN {} ELSE IF n = 1 THEN M1 ELSE IF n = 2 THEN M2 ELSE M3

SpecSet ==
     {Sp("lit", "", c, FALSE, <<>>) : c \in Contents(RC.nlit)}
  \cup {Sp("lit", "", <<>>, TRUE, m) : m \in Comments(RC.ncmt)}
  \cup {Sp("lit", "", c, TRUE, m) : c \in C1 \ C0, m \in M1}
  \cup {Sp("cmtline", "", <<>>, TRUE, m) : m \in Comments(IF RC.ncmt > 1 THEN RC.ncmt - 1 ELSE 1)}
  \cup {Sp("badlit", "", c, FALSE, <<>>) : c \in C1}
  \cup {Sp("badlit", "", <<>>, TRUE, m) : m \in M1}
  \cup {Sp("par", "", c, FALSE, <<>>) : c \in C1}
  \cup {Sp("par", "", <<>>, TRUE, m) : m \in M1}
  \cup {Sp("defblk", x, c, FALSE, <<>>) : x \in {"own", "ind"}, c \in C1}
  \cup {Sp("defblk", x, <<>>, TRUE, m) : x \in {"own", "ind"}, m \in M1}
  \cup {Sp("pile", "", c, FALSE, <<>>) : c \in C1}
  \cup {Sp("pile", x, <<>>, TRUE, m) : x \in {"head", "body", "closer"}, m \in M1}
  \cup {Sp("escid", "", <<ch>>, FALSE, <<>>) : ch \in SeqSet(RC.escid)}
  \cup {Sp("escnlout", "", <<>>, FALSE, <<>>), Sp("escnlin", "", <<>>, FALSE, <<>>), Sp("blank", "", <<>>, FALSE, <<>>)}
  \cup {Sp("badline", x, <<>>, FALSE, <<>>) : x \in SeqSet(RC.badlines)}
  \cup {Sp("dir", x, <<>>, FALSE, <<>>) : x \in SeqSet(RC.dirs)}

Specs == SetToSeq(SpecSet)

(* a form: its lines, and what the step does: "print" (t = the line), "rej", "quiet" (evaluated, prints nothing), "none" (no step result) *)
Fm(lines, k, t) == [lines |-> lines, k |-> k, t |-> t]
Line(cs) == cs \o <<NL>>
Cmt(sp)  == IF sp.h THEN PC.cmo \o sp.m ELSE <<>>
MarkT(k) == PC.mark \o Dig(k)
Stmt(k, c) == PC.po \o Dig(k) \o <<SP>> \o c \o PC.pcl          \* print << "@@ k <c>" << newline;
Good(k) == Fm(<<Line(PC.po \o Dig(k) \o PC.pcl)>>, "print", MarkT(k))
Bad     == Fm(<<Line(PC.badstmt)>>, "rej", <<>>)

ItemForms(sp, k) ==
  CASE sp.t = "lit"     -> <<Fm(<<Line(Stmt(k, sp.c) \o Cmt(sp))>>, "print", MarkT(k) \o <<SP>> \o Unesc(sp.c))>>
    [] sp.t = "badlit"  -> <<Fm(<<Line(PC.pbo \o sp.c \o PC.pbc \o Cmt(sp))>>, "rej", <<>>)>>
    [] sp.t = "cmtline" -> <<Fm(<<Line(PC.cml \o sp.m)>>, "none", <<>>)>>
    [] sp.t = "par"     -> <<Fm(<<Line(PC.po \o Dig(k) \o <<SP>> \o sp.c \o PC.par1 \o Cmt(sp)), Line(PC.par2)>>,
                                "print", MarkT(k) \o <<SP>> \o Unesc(sp.c) \o PC.three)>>
    [] sp.t = "defblk"  -> <<Fm(<<Line(PC.hid \o Dig(k) \o PC.defb), Line(PC.ind \o Stmt(k, sp.c) \o Cmt(sp))>> \o
                                (IF sp.x = "own" THEN <<Line(PC.ind \o PC.reta), Line(<<RBRACE>>)>>
                                 ELSE <<Line(PC.ind \o PC.reta \o <<SP, RBRACE>>)>>), "quiet", <<>>),
                             Fm(<<Line(PC.hid \o Dig(k) \o PC.call)>>, "print", MarkT(k) \o <<SP>> \o Unesc(sp.c))>>
    [] sp.t = "pile"    -> <<Fm(<<Line(PC.pid \o Dig(k) \o PC.defp \o (IF sp.x = "head" THEN Cmt(sp) ELSE <<>>)),
                                  Line(PC.ind \o PC.po \o Dig(k) \o <<SP>> \o sp.c \o PC.pcp \o (IF sp.x = "body" THEN Cmt(sp) ELSE <<>>)),
                                  Line(PC.ind \o PC.reta),
                                  Line(PC.endc \o (IF sp.x = "closer" THEN sp.m ELSE <<>>))>>, "quiet", <<>>),
                             Fm(<<Line(PC.pid \o Dig(k) \o PC.call)>>, "print", MarkT(k) \o <<SP>> \o Unesc(sp.c))>>
    [] sp.t = "escid"   -> <<Fm(<<Line(PC.kid \o sp.c \o Dig(k) \o PC.kdef)>>, "quiet", <<>>),
                             Fm(<<Line(PC.po \o Dig(k) \o PC.kuse1 \o sp.c \o Dig(k) \o PC.kuse2)>>, "print", MarkT(k) \o <<SP>> \o PC.three)>>
    [] sp.t = "escnlout" -> <<Fm(<<Line(PC.po \o Dig(k) \o PC.nlo1), Line(PC.nlo2)>>, "print", MarkT(k) \o <<SP>> \o PC.three)>>
    [] sp.t = "escnlin" -> <<Fm(<<Line(PC.po \o Dig(k) \o PC.nlia), Line(PC.nlib \o PC.pcl)>>,
                                "print", MarkT(k) \o Unesc(PC.nlia \o <<NL>> \o PC.nlib))>>
    [] sp.t = "blank"   -> <<Fm(<<<<NL>>>> \o Good(k).lines, "print", MarkT(k))>>
    [] sp.t = "badline" -> <<Fm(<<Line(PC[sp.x])>>, "rej", <<>>)>>
    [] sp.t = "dir"     -> <<Fm(<<Line(PC[sp.x])>>, "none", <<>>)>>

IsBadItem(sp) == sp.t \in {"badlit", "badline"}
Follower(sp, k) == IF IsBadItem(sp) THEN Good(k) ELSE Bad
Separator(i, k) ==
  CASE i % 4 = 1 -> <<Fm(<<Line(PC.cml \o PC.note)>>, "none", <<>>)>>
    [] i % 4 = 2 -> <<Fm(<<Line(PC[RC.dirs[1]])>>, "none", <<>>)>>
    [] i % 4 = 3 -> <<Fm(<<<<NL>>>> \o Good(k).lines, "print", MarkT(k))>>
    [] OTHER     -> <<>>

(* lexical features of an item (they name the case in a report; no verdict depends on them) *)
Has(cs, c) == \E i \in DOMAIN cs : cs[i] = c
Tags(sp) ==
     {sp.t \o (IF sp.x = "" THEN "" ELSE ":" \o sp.x)}
  \cup (IF Has(sp.c, USCORE) /\ sp.t # "escid" THEN {"literal-with-escape"} ELSE {})
  \cup (IF sp.t = "escid" THEN {"escape-outside-literal"} ELSE {})
  \cup (IF sp.t # "escid" /\ (Has(sp.c, LPAR) \/ Has(sp.c, LBRACE) \/ Has(sp.c, RPAR) \/ Has(sp.c, RBRACE)) THEN {"literal-with-bracket"} ELSE {})
  \cup (IF sp.h /\ Has(sp.m, DQ) THEN {"comment-with-quote"} ELSE {})
  \cup (IF sp.h /\ (Has(sp.m, LPAR) \/ Has(sp.m, LBRACE)) THEN {"comment-with-open-bracket"} ELSE {})
  \cup (IF sp.h /\ (Has(sp.m, RPAR) \/ Has(sp.m, RBRACE)) THEN {"comment-with-close-bracket"} ELSE {})
  \cup (IF sp.h /\ Has(sp.m, USCORE) THEN {"comment-with-escape"} ELSE {})
  \cup (IF sp.h /\ sp.t = "pile" /\ sp.x = "head" THEN {"comment-after-pile-head"} ELSE {})
  \cup (IF sp.t = "defblk" /\ sp.x = "ind" THEN {"brace-definition-closed-on-indented-line"} ELSE {})
  \cup (IF sp.t = "escnlout" THEN {"escaped-newline-outside-literal"} ELSE {})
  \cup (IF sp.h /\ (\E i \in DOMAIN sp.m : sp.m[i] \in {DQ, LPAR, LBRACE, RPAR, RBRACE} \/ (sp.m[i] = EQ /\ i < Len(sp.m) /\ sp.m[i + 1] = EQ))
        THEN {"comment-with-code-characters"} ELSE {})
  \cup (IF sp.h /\ ((\E i \in DOMAIN sp.m : sp.m[i] \in {DQ, LPAR, LBRACE, RPAR, RBRACE} \/ (sp.m[i] = EQ /\ i < Len(sp.m) /\ sp.m[i + 1] = EQ))
                   \/ (sp.t = "pile" /\ sp.x = "head"))
        THEN {"comment-must-not-be-read-as-code"} ELSE {})

---------------------------------------------------------------------------
(* sessions                                                                 *)

(* forms of a session over the items `sps' (form numbers 3i, 3i+1, 3i+2 belong to slot i) *)
SessionForms(sps) ==
  <<Good(0)>> \o
  Cat([i \in 1..Len(sps) |-> LET fs == ItemForms(sps[i], 3 * i) IN      \* the follower comes directly after the item's first form
                                <<fs[1], Follower(sps[i], 3 * i + 1)>> \o Tail(fs) \o Separator(i, 3 * i + 2)])
  \o <<Good(3 * Len(sps) + 3)>>
LinesOf(fs) == Cat([i \in 1..Len(fs) |-> fs[i].lines])
EndsOf(fs)  == FoldLeft(LAMBDA acc, i : Append(acc, (IF acc = <<>> THEN 0 ELSE acc[Len(acc)]) + Len(fs[i].lines)), <<>>, Ix(Len(fs)))

(* does the transcription of scanIsContinued group the item (in context) as required? *)
Conforms(sp) ==
  LET ls == LinesOf(SessionForms(<<sp>>)) IN
    CutsBy(IsContinued, Sc0, ls).cuts = CutsBy(Required, Rq0, ls).cuts

ConfIdx == SelectSeq(Ix(Len(Specs)), LAMBDA i : Conforms(Specs[i]))
DevIdx  == SelectSeq(Ix(Len(Specs)), LAMBDA i : ~Conforms(Specs[i]))
Rot(s, r) == IF s = <<>> THEN s ELSE LET k == r % Len(s) IN SubSeq(s, k + 1, Len(s)) \o SubSeq(s, 1, k)
Packed  == Rot(ConfIdx, RC.rot)
NPacked == (Len(Packed) + RC.pack - 1) \div RC.pack
NSess   == NPacked + Len(DevIdx)

ItemsOf(sid) ==
  IF sid <= NPacked
  THEN SubSeq(Packed, (sid - 1) * RC.pack + 1, IF sid * RC.pack < Len(Packed) THEN sid * RC.pack ELSE Len(Packed))
  ELSE <<DevIdx[sid - NPacked]>>

Build(sid) ==
  LET idx == ItemsOf(sid)
      sps == [i \in 1..Len(idx) |-> Specs[idx[i]]]
      fs  == SessionForms(sps)
  IN [id |-> sid, packed |-> sid <= NPacked, lines |-> LinesOf(fs), ends |-> EndsOf(fs),
      exps |-> [i \in 1..Len(fs) |-> [k |-> fs[i].k, t |-> fs[i].t]],
      items |-> sps, tags |-> UNION {Tags(sps[i]) : i \in 1..Len(sps)}]

---------------------------------------------------------------------------
VARIABLES S,       \* the session
          ln,      \* lines read
          rq,      \* state of Required
          cuts,    \* where Required ended a step
          sc,      \* state of the transcription of scanIsContinued
          pcuts    \* where it ended a step
dvars == <<S, ln, rq, cuts, sc, pcuts>>

ReadLine ==
  /\ ln < Len(S.lines)
  /\ LET r == Required(rq, S.lines[ln + 1])
         p == IsContinued(sc, S.lines[ln + 1]) IN
       /\ rq' = r.s /\ cuts' = IF r.cont THEN cuts ELSE Append(cuts, ln + 1)
       /\ sc' = p.s /\ pcuts' = IF p.cont THEN pcuts ELSE Append(pcuts, ln + 1)
  /\ ln' = ln + 1
  /\ UNCHANGED S

Finish ==
  /\ ln = Len(S.lines)
  /\ PrintT("RSESS " \o ToJson([id |-> S.id, packed |-> S.packed, lines |-> S.lines, ends |-> S.ends, exps |-> S.exps,
                               items |-> S.items, tags |-> S.tags, pcuts |-> pcuts]))
  /\ ln' = ln + 1
  /\ UNCHANGED <<S, rq, cuts, sc, pcuts>>

DInit == /\ S \in {Build(sid) : sid \in 1..NSess}
         /\ ln = 0 /\ rq = Rq0 /\ cuts = <<>> /\ sc = Sc0 /\ pcuts = <<>>
DNext == ReadLine \/ Finish
DSpec == DInit /\ [][DNext]_dvars

---------------------------------------------------------------------------
(* the requirement groups every session of the family into its forms *)
ReqCutsAreFormEnds == ln >= Len(S.lines) => cuts = S.ends
ReqCutsSoFar == ln <= Len(S.lines) => cuts = SelectSeq(S.ends, LAMBDA e : e <= ln)
(* between two forms the requirement is in its initial state *)
ReqCleanBetweenForms == (ln > 0 /\ ln <= Len(S.lines) /\ cuts # <<>> /\ cuts[Len(cuts)] = ln) => rq = Rq0
(* packing: the packed sessions are those the transcription groups as required; each other session has one item *)
PackedAsPredicted == (ln >= Len(S.lines) /\ S.packed) => pcuts = cuts
IsolatedDeviate   == (ln >= Len(S.lines) /\ ~S.packed) => (pcuts # cuts /\ Len(S.items) = 1)
(* the family is not empty in any of its shapes *)
ASSUME ShapesPresent == \A t \in {"lit", "badlit", "cmtline", "par", "defblk", "pile", "escid", "escnlout", "escnlin", "blank", "badline", "dir"} :
                    \E i \in DOMAIN Specs : Specs[i].t = t
=============================================================================
