SPECIFICATION Spec
CONSTANTS Ks = {30, 31, 32, 53, 61, 62, 63, 64}
          SKs = {7, 8, 15, 16, 29, 30}
          GroupSize = 9
          Rich = FALSE
          Stride = 1
          Offset = 0
INVARIANT Covers
CHECK_DEADLOCK FALSE
