\* Behaviour export for replay (see StoreGen.tla): alloc/free/resize/collect over 3 size classes, depth 4
SPECIFICATION GenSpec
CONSTANTS
  Align = 1
  NRoots = 1
  PtrFreeCodes = {1}
  SlotBase = 0
  SlotBytes = 1
  MaxSlots = 1
  Depth = 4
  NSizes = 3
  GenCodes = {0}
  MaxBlocks = 4
  MaxLiveGen = 3
  Stride = 16
  WithGraph = FALSE
INVARIANT GenInv
CHECK_DEADLOCK FALSE
