----------------------------- MODULE JavaRoute -----------------------------
(***************************************************************************)
(* C12: the Java back end agrees with the other execution routes.          *)
(*                                                                         *)
(*   for every program p of the Java slice and level q \in Levels:         *)
(*       javac accepts the classes generated from p at q, and              *)
(*       Out(java, p, q) = Out(interp, p, q) = AldorSem(p)                 *)
(*                                                                         *)
(* as a monitor over the runs of the real tool chain.  An observation is   *)
(* what the property statement compares: the standard output (as a digest  *)
(* of its bytes, words below 2^31) and the success/failure class of the    *)
(* exit status.  AldorSem(p) is the behaviour TLC derived from             *)
(* AldorSem.tla for the abstract program; it enters through Expect.        *)
(*                                                                         *)
(* The family.  The Java back end represents the FOAM machine integer by   *)
(* the Java type int (32 bits), the interpreter by a 64-bit word.  The     *)
(* width of the machine integer is a platform parameter, so the language   *)
(* assigns a width-independent result only to programs whose behaviour is  *)
(* the same under AldorSem (64-bit wrap) and AldorSemW32 (32-bit wrap).    *)
(* Expect carries both behaviours; a program is a member of the family iff *)
(* they are equal and the program terminates (normally, by halting, or by   *)
(* an exception nobody handles).                                            *)
(* Runs of programs outside the family are not judged.                     *)
(*                                                                         *)
(*   want : Prog -> Observation   the specification's behaviour (members)  *)
(*   out  : set of programs examined and found outside the family          *)
(*   seen : Prog -> Observation   Obs.tla: first observation on any route  *)
(*   ran  : Prog -> SUBSET (Routes \X Levels)                              *)
(*   hist : set of all Run records (ghost, for the invariants)             *)
(*   bad  : set of Run records the monitor rejected, with the reason       *)
(*   closed : the campaign was closed (completeness is then required)      *)
(***************************************************************************)
EXTENDS Obs, Naturals, FiniteSets

CONSTANTS Levels,       \* optimisation levels the property quantifies over, {1, 3, 9}
          Routes        \* {"interp", "java"}

VARIABLES want, out, ran, hist, bad, closed
jvars == <<seen, want, out, ran, hist, bad, closed>>

Terminating == {"done", "halt", "uncaught"}
Cls(status) == IF status = "done" THEN 0 ELSE 1           \* exit class the language assigns

(* b64, b32: [status, digest] under the two machine-integer widths *)
Member(b64, b32) == b64 = b32 /\ b64.status \in Terminating
SpecObs(b) == [digest |-> b.digest, cls |-> Cls(b.status)]

JInit == /\ ObsInit
         /\ want = <<>> /\ out = {} /\ ran = <<>> /\ hist = {} /\ bad = {} /\ closed = FALSE

Expect(p, b64, b32) ==
  /\ ~closed
  /\ p \notin DOMAIN want /\ p \notin out
  /\ IF Member(b64, b32)
     THEN want' = want @@ (p :> SpecObs(b64)) /\ ran' = ran @@ (p :> {}) /\ out' = out
     ELSE out' = out \cup {p} /\ UNCHANGED <<want, ran>>
  /\ UNCHANGED <<seen, hist, bad, closed>>

(* why a run does not conform; {} = it conforms *)
Reasons(p, route, built, o) ==
     (IF built # "ok" THEN {built} ELSE {})                         \* "compile", "javac", "timeout", "fault"
  \cup (IF built = "ok" /\ o.digest # want[p].digest THEN {"output"} ELSE {})
  \cup (IF built = "ok" /\ o.cls # want[p].cls THEN {"status"} ELSE {})
  \cup (IF built = "ok" /\ ~Agrees(p, o) THEN {"routes"} ELSE {})    \* differs from another route's run (Obs)

(* one run of the real tool chain: route at level q, how far the build got, what was observed *)
Run(p, route, q, built, o) ==
  /\ ~closed
  /\ p \in DOMAIN want /\ route \in Routes /\ q \in Levels
  /\ <<route, q>> \notin ran[p]
  /\ ran' = [ran EXCEPT ![p] = @ \cup {<<route, q>>}]
  /\ LET rec == [prog |-> p, route |-> route, level |-> q, built |-> built, obs |-> o]
         why == Reasons(p, route, built, o)
     IN /\ hist' = hist \cup {rec}
        /\ bad' = IF why = {} THEN bad ELSE bad \cup {[run |-> rec, why |-> why]}
  /\ IF built = "ok" THEN Record(p, o) ELSE UNCHANGED seen
  /\ UNCHANGED <<want, out, closed>>

Incomplete == {p \in DOMAIN want : ran[p] # Routes \X Levels}
Close == /\ ~closed /\ closed' = TRUE /\ UNCHANGED <<seen, want, out, ran, hist, bad>>

Accepted == bad = {} /\ (closed => Incomplete = {})

---------------------------------------------------------------------------
(* What the monitor guarantees (checked exhaustively by TLC on            *)
(* JavaRouteMC with small constants): it accepts exactly the campaigns in  *)
(* which every run conforms to the statement, and only those.              *)
Conforms(h) == /\ h.built = "ok"
               /\ h.obs = want[h.prog]
Sound    == bad = {} => \A h \in hist : Conforms(h)
(* a rejection is justified by the run itself (it differs from the         *)
(* specification) or by another completed run of the same program that it  *)
(* differs from (Obs: the observation must be a function of the program)   *)
Justified(b) == \/ ~Conforms(b.run)
                \/ \E h \in hist : h.prog = b.run.prog /\ h.built = "ok" /\ h.obs # b.run.obs
NoFalseAlarm == \A b \in bad : b.run \in hist /\ b.why # {} /\ Justified(b)
(* the statement itself, on accepted closed campaigns *)
Statement == (closed /\ Accepted) =>
   \A p \in DOMAIN want : \A q \in Levels :
      \E hj \in hist : \E hi \in hist :
         /\ hj.prog = p /\ hj.route = "java" /\ hj.level = q /\ hj.built = "ok"
         /\ hi.prog = p /\ hi.route = "interp" /\ hi.level = q /\ hi.built = "ok"
         /\ hj.obs = hi.obs /\ hi.obs = want[p]
(* Obs: routes that ran to the end and were not rejected agree pairwise    *)
RoutesAgree == \A h \in hist : (h.built = "ok" /\ (\A b \in bad : b.run # h)) => h.obs = seen[h.prog]
WantStable == [][\A p \in DOMAIN want : p \in DOMAIN want' /\ want'[p] = want[p]]_jvars
=============================================================================
