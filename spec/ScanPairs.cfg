\* C14, scanner level: every pair of tokens x every separator (see ScanPairs.tla); exported for the drift comparison.
SPECIFICATION PSpec
CONSTANTS
  Ctx = {"x", ":="}
  MaxN = 0
  MaxDepth = 1
  TreeSource = "enum"
  StyleSet = "two"
  Seed = 0
  ScanChars = TRUE
  Export = TRUE
  Use0 = {}
  Use1 = {}
  Use2 = {}
  Use3 = {}
CHECK_DEADLOCK FALSE
