SPECIFICATION Spec
CONSTANTS
  Keys = {0, 1, 2, 3, 4}
  Vals = {1, 2}
  HashOf <- TinyHash
  Sizes <- SmallSizes
  MaxLoad = 1
  PKeys = {1, 2, 3}
  PMax = 0
  SMax = 0
  Part = "T"
INVARIANTS ChainsOk Refines GetOk
CHECK_DEADLOCK FALSE
