SPECIFICATION SpecX
CONSTANTS
  MaxDefs = 4
  MaxBody = 3
  MaxGlo = 1
  MaxN = 18
INVARIANTS LoopAgreesWithMacro SitesAgreeInv Partition HeaderIsTheHeaderFile FileNamesDistinct DeclarationsVisible CrossFileVisible StaticStaysHome InitChain FileCount
CHECK_DEADLOCK FALSE
