SPECIFICATION GenSpec
CONSTANTS
  Kind = "T"
  MaxLen = 5
  Keys = {0, 1, 2, 3}
  NBits = 3
  Regs = 2
  BPrefix = 0
  DelKeys = {}
  IntVals = {}
INVARIANTS TypeOK MinimaInOrder CopyIsSnapshot Export
CHECK_DEADLOCK FALSE
