SPECIFICATION Spec
CONSTANTS
  NCat = 3
  MaxAr = 2
  Rets = {"Integer", "SingleInteger"}
INVARIANT RuleIsContravariance
CHECK_DEADLOCK FALSE
