\* Trace validation of harness/store_drv.c traces (C10) with about a thousand live blocks (housekeeping at scale):
\* as TraceStore.cfg; Disjoint is established step by step by AllocOk / ResizeOk (Fits) instead of pairwise per state.
SPECIFICATION TraceSpec
CONSTANTS
  Align = 8
  NRoots = 4
  PtrFreeCodes = {30, 31}
  SlotBase = 8
  SlotBytes = 8
  MaxSlots = 4
  PageSize = 4096
  RootsKnown = TRUE
INVARIANT TraceInvLinear
CHECK_DEADLOCK FALSE
