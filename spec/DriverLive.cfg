\* property-level layer, one file, link and interpreter steps, clean-up of kept outputs; liveness: every behaviour ends in Exit
SPECIFICATION FairSpec
CONSTANTS
  MaxFiles = 1
  MaxFaults = 2
  MaxErrs = 1
  Strict = FALSE
  MultiPart = FALSE
  PostUsed = {"link", "interp"}
  ChecksIo = TRUE
  MaxKinds = 2
  CleanupKept = TRUE
  PhasesUsed = {"putao", "putc"}
  KindsUsed = {"ao", "main"}
INVARIANTS TypeOK HonestExit CompleteOnSuccess NoOutputAfterError FailureSurfaces NothingOpenAtSuccess PendingIsReported
PROPERTY Total
CHECK_DEADLOCK TRUE
