\* property-level layer, one file, link and interpreter steps, clean-up of kept outputs; liveness: every behaviour ends in Exit
SPECIFICATION FairSpec
CONSTANTS
  MaxFiles = 1
  MaxFaults = 2
  MaxErrs = 1
  Strict = FALSE
  MultiPart = FALSE
  PostUsed = {"link", "interp"}
  ChecksIo = TRUE
  MaxKinds = 3
  CleanupKept = TRUE
  PhasesUsed = {"include", "putao", "putc"}
  KindsUsed = {"ai", "ao", "main"}
INVARIANTS TypeOK HonestExit CompleteOnSuccess NoOutputAfterError FailureSurfaces NothingOpenAtSuccess PendingIsReported
PROPERTY Total
CHECK_DEADLOCK TRUE
