\* C15 report, required design (thorough): 3 files, <= 8 lines, <= 6 items, reports of <= 2 lines x 3 columns
CONSTANTS
  CNO = 2
  LNO = 4
  Packer = "required"
  Policy = "required"
  EofPolicy = "required"
  HeadPolicy = "required"
  Grouping = "gline"
  SrcLen = 3
  ColSeq <- ColSeqOvf
  MaxSel = 2
  FileNames = {"a", "b", "c"}
  TopFile = "a"
  LineNames = {"b", "o"}
  LineNums = {2}
  Cols = {1, 3, 4, 9}
  RunLens = {1, 2}
  MaxLines = 8
  MaxIf = 1
  MaxItems = 6
  Feat = {"line"}
  AvoidEofIf = FALSE
  AvoidCollide = FALSE
INIT Init
NEXT Next
CHECK_DEADLOCK FALSE
INVARIANT TypeOK
INVARIANT PosFaithful
INVARIANT LineIdentity
INVARIANT ReportFaithful
