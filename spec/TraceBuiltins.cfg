SPECIFICATION Spec
CONSTANTS SIntW = 64
          WordW = 64
INVARIANT Progress
CHECK_DEADLOCK FALSE
