\* PROBE (TLC must report SweeperOk violated; known finding): pieceGetMixed flags the remainder of a split piece free BEFORE
\* piecePutMixed links it; a collection started by that page request sees a flagged piece that is not in the index.
SPECIFICATION Spec
CONSTANTS
  PgSize = 8
  HeadUnits = 2
  FixedSizes <- FS12
  MxHead = 1
  PgGroup = 2
  MixedPgGroup = 2
  MaxPages = 9
  ReqSizes = {3, 5, 12}
  Codes = {0}
  PtrFreeCodes = {1}
  Tags = {1}
  NRoots = 1
  MaxLive = 3
  MaxOps = 5
  GraphOps = TRUE
  Probe = "none"
  CarPerPage = 1
  Reentrant = TRUE
  FlagFirst = FALSE
  SplitPoint = TRUE
  CutAtRisk = TRUE
INVARIANT SweeperOk

VIEW View
CHECK_DEADLOCK FALSE
