SPECIFICATION GenSpec
CONSTANTS
  A = 4
  Depth = 2
  Mode = "F"
INVARIANTS Export
CHECK_DEADLOCK FALSE
