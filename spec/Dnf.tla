-------------------------------- MODULE Dnf --------------------------------
(***************************************************************************)
(* Property C20, normal-form part: the disjunctive normal form dnf.c       *)
(* builds (dnfAtom, dnfNotAtom, dnfTrue, dnfFalse, dnfNot, dnfAnd, dnfOr)  *)
(* is logically equivalent to the formula it was built from, and           *)
(* dnfImplies / dnfEqual answer what the truth tables answer.              *)
(*                                                                         *)
(* A formula is its prefix token sequence: i (atom i), -i (negated atom    *)
(* i), TT (true), FF (false), NOT x, AND x y, OR x y.  A DNF value is what *)
(* dnf.c holds: a sequence of clauses, a clause a sequence of signed atom  *)
(* numbers; << >> is false and << << >> >> is true.                        *)
(*                                                                         *)
(* Truth tables come in two forms: Sem(f, v) under a valuation v (the      *)
(* definition), and TF(f) = the set of valuations (as bit masks) under     *)
(* which f holds, computed with set operations (what trace validation      *)
(* uses: 1024 rows for 10 atoms cost a few set operations).  GenSpec       *)
(* enumerates every formula up to Depth and TLC checks TF against Sem on   *)
(* each of them (TruthTableOk), checks the reference normaliser against    *)
(* both (RefOk), and prints the formula for the harness to build with the  *)
(* real dnf.c.                                                             *)
(***************************************************************************)
EXTENDS Naturals, Integers, Sequences, FiniteSets, SequencesExt, Json, TLC

CONSTANTS A,       \* number of atoms
          Depth,   \* generator: nesting depth of operators
          Mode     \* generator: "F" single formulas, "Q" ordered pairs

TT  == 100
FF  == 101
NOT == 102
AND == 103
OR  == 104

Atoms == 1..A
Masks == 0..(2 ^ A - 1)
ValOf(m) == [i \in Atoms |-> (m \div (2 ^ (i - 1))) % 2 = 1]

---------------------------------------------------------------------------
(* Semantics of formulas.  The prefix sequence is evaluated from its last  *)
(* token to its first with a stack (head = top): operands are pushed, an   *)
(* operator pops its operands (left operand on top).                       *)

Rev(s) == [i \in 1..Len(s) |-> s[Len(s) + 1 - i]]

EvalWith(f, leaf(_), neg(_), conj(_, _), disj(_, _)) ==
  Head(FoldLeft(LAMBDA st, t :
                  IF t = NOT THEN <<neg(st[1])>> \o Tail(st)
                  ELSE IF t = AND THEN <<conj(st[1], st[2])>> \o Tail(Tail(st))
                  ELSE IF t = OR THEN <<disj(st[1], st[2])>> \o Tail(Tail(st))
                  ELSE <<leaf(t)>> \o st,
                <<>>, Rev(f)))

\* truth value under a valuation
Sem(f, v) == EvalWith(f, LAMBDA t : IF t = TT THEN TRUE ELSE IF t = FF THEN FALSE
                                    ELSE IF t > 0 THEN v[t] ELSE ~v[-t],
                         LAMBDA x : ~x, LAMBDA x, y : x /\ y, LAMBDA x, y : x \/ y)

\* the set of rows of the truth table on which the formula is true
TAtom == [i \in Atoms |-> {m \in Masks : (m \div (2 ^ (i - 1))) % 2 = 1}]
TLit(t) == IF t > 0 THEN TAtom[t] ELSE Masks \ TAtom[-t]
TF(f) == EvalWith(f, LAMBDA t : IF t = TT THEN Masks ELSE IF t = FF THEN {} ELSE TLit(t),
                     LAMBDA x : Masks \ x, LAMBDA x, y : x \cap y, LAMBDA x, y : x \cup y)

---------------------------------------------------------------------------
(* Semantics of the implementation's DNF values.                           *)

LitTrue(t, v) == IF t > 0 THEN v[t] ELSE ~v[-t]
SemDnf(d, v)  == \E i \in 1..Len(d) : \A j \in 1..Len(d[i]) : LitTrue(d[i][j], v)

TClause(c) == FoldLeft(LAMBDA acc, t : acc \cap TLit(t), Masks, c)
TDnf(d)    == UNION {TClause(d[i]) : i \in 1..Len(d)}

\* the statement, per call
MkOk(f, d)          == TDnf(d) = TF(f)                    \* equivalent to the formula it was built from
NotOk(x, r)         == TDnf(r) = Masks \ TDnf(x)
AndOk(x, y, r)      == TDnf(r) = TDnf(x) \cap TDnf(y)
OrOk(x, y, r)       == TDnf(r) = TDnf(x) \cup TDnf(y)
ImpliesTruth(x, y)  == TDnf(x) \subseteq TDnf(y)          \* truth-table answer
EqualTruth(x, y)    == TDnf(x) = TDnf(y)
\* the same, straight from the definition (used to cross-check the mask form in GenSpec)
MkOkDef(f, d)       == \A m \in Masks : Sem(f, ValOf(m)) = SemDnf(d, ValOf(m))

---------------------------------------------------------------------------
(* Where dnf.c's "cancel negation" rule can fire.  dnfOrMerge rewrites a   *)
(* clause ci that contains the negation of every literal of another clause *)
(* cj (dnfAndImpliesNegation / dnfAndCancelNegation).  CancelReach says    *)
(* whether some pair of clauses the operation puts side by side has that   *)
(* shape; it is an over-approximation computed from the operands alone and *)
(* is only used to label BAD records (classification of a known defect),   *)
(* never to accept anything.                                               *)

ClSet(c)      == {c[j] : j \in 1..Len(c)}
Neg(S)        == {-t : t \in S}
Consistent(S) == \A t \in S : -t \notin S
Shape(C)      == \E cj \in C : cj # {} /\ LET n == Neg(cj) IN \E ci \in C : ci # cj /\ n \subseteq ci
ClausesOf(d)  == {ClSet(d[i]) : i \in 1..Len(d)}

Cap == 200     \* beyond this many clauses the shape test is not attempted and the answer is "reachable"
OrReach(x, y)  == LET C == ClausesOf(x) \cup ClausesOf(y) IN Cardinality(C) > Cap \/ Shape(C)
AndReach(x, y) == IF Len(x) * Len(y) > Cap THEN TRUE
                  ELSE Shape({S \in {a \cup b : a \in ClausesOf(x), b \in ClausesOf(y)} : Consistent(S)})
\* dnfNot multiplies the negated clauses out one clause at a time, merging after each product
NotReach(x) ==
  FoldLeft(LAMBDA acc, c :
             IF acc[2] THEN acc
             ELSE LET P == {S \in {p \cup {-t} : p \in acc[1], t \in ClSet(c)} : Consistent(S)}
                  IN  IF Cardinality(P) > Cap THEN <<{}, TRUE>> ELSE <<P, Shape(P)>>,
           <<{{}}, FALSE>>, x)[2]

---------------------------------------------------------------------------
(* A reference normaliser (the textbook one, no simplification): shows     *)
(* that the two semantics agree on something that is known to be right.    *)

RefAnd(x, y) == LET P == {S \in {ClSet(x[i]) \cup ClSet(y[j]) : i \in 1..Len(x), j \in 1..Len(y)} : Consistent(S)}
                IN  [k \in 1..Cardinality(P) |-> SetToSeq(SetToSeq(P)[k])]
RefOr(x, y)  == x \o y
RefNot(x)    == FoldLeft(LAMBDA acc, c : RefAnd(acc, [j \in 1..Len(c) |-> <<-c[j]>>]), << <<>> >>, x)
Ref(f) == EvalWith(f, LAMBDA t : IF t = TT THEN << <<>> >> ELSE IF t = FF THEN <<>> ELSE << <<t>> >>,
                      RefNot, RefAnd, RefOr)

---------------------------------------------------------------------------
(* Generator: every formula of operator depth <= Depth over A atoms.       *)

Leaves == {<<TT>>, <<FF>>} \cup {<<i>> : i \in Atoms} \cup {<<-i>> : i \in Atoms}
RECURSIVE Forms(_)
Forms(d) == IF d <= 0 THEN Leaves
            ELSE LET P == Forms(d - 1)
                 IN  P \cup {<<NOT>> \o p : p \in P}
                       \cup {<<AND>> \o p \o q : p \in P, q \in P}
                       \cup {<<OR>> \o p \o q : p \in P, q \in P}

\* The formulas of depth <= Depth are enumerated as initial states from the (small) explicit set of
\* depth Depth-1: building the full set first costs TLC 30 s for depth 2, enumerating it this way 3 s.
Sub == SetToSeq(Forms(IF Mode = "Q" THEN Depth ELSE Depth - 1))
Ix  == 1..Len(Sub)

VARIABLES f, g
Init == IF Mode = "Q"
        THEN \E i \in Ix, j \in Ix : f = Sub[i] /\ g = Sub[j]
        ELSE /\ g = <<FF>>
             /\ \/ \E i \in Ix : f = Sub[i] \/ f = <<NOT>> \o Sub[i]
                \/ \E op \in {AND, OR}, i \in Ix, j \in Ix : f = <<op>> \o Sub[i] \o Sub[j]
Next == UNCHANGED <<f, g>>
GenSpec == Init /\ [][Next]_<<f, g>>

TruthTableOk == TF(f) = {m \in Masks : Sem(f, ValOf(m))}
RefOk        == MkOk(f, Ref(f)) /\ MkOkDef(f, Ref(f))
Export       == PrintT(ToJson(IF Mode = "Q" THEN [f |-> f, g |-> g] ELSE [f |-> f]))
=============================================================================
