----------------------------- MODULE XFloatOps -----------------------------
(***************************************************************************)
(* Bit-level model of aldor/aldor/src/xfloat.c (property C19).             *)
(*                                                                         *)
(* A bit pattern is a sequence of 0/1, most significant bit first (the     *)
(* order of SF_UByte(p,0), SF_UByte(p,1), ... and of the bytes of          *)
(* XSFloat/XDFloat in an object file).  No integer wider than an exponent  *)
(* field (15 bits) is ever formed.                                         *)
(*                                                                         *)
(*   native   s | e (EB bits, excess 2^(EB-1)-1) | f (FB bits)             *)
(*            single: 1+8+23, double: 1+11+52     (IEEE, cport.h l.643-662)*)
(*   portable s | e (XEB bits, excess 2^(XEB-1)-2 = 0x3ffe) | f (XFB bits) *)
(*            XSFloat: 1+15+32 (6 bytes), XDFloat: 1+15+64 (10 bytes)      *)
(*            (xfloat.h l.60-87: XSF_FracOff = 16, so the sign/exponent    *)
(*            word holds no fraction bits and XSF_FracMask = 0)            *)
(*                                                                         *)
(* The operators are transcriptions of the C case analysis for the         *)
(* configuration compiled here: SF_HasNANs = SF_HasNorm1 = 1,              *)
(* SF_LgLgBase = 0 (and the same for DF, XSF, XDF).  The branches of       *)
(* xfloat.c that are dead under these constants (hexadecimal base, no      *)
(* hidden bit, no NaNs) are not modelled.                                  *)
(*                                                                         *)
(* A scaled format (EB = 4, FB = 5, XEB = 7, XFB = 8) is checked over      *)
(* every pattern; the real widths over sign x every exponent x boundary    *)
(* fractions (XFloat.tla).                                                 *)
(***************************************************************************)
EXTENDS Naturals, Integers, Sequences, SequencesExt, FiniteSets

CONSTANTS EB, FB, XEB, XFB

ASSUME /\ EB \in 2..14 /\ FB \in 1..64 /\ XEB \in 3..15 /\ XFB \in 1..64
       /\ XFB >= FB            \* the dissembled fraction fits the portable fraction
       /\ XEB > EB

Pow2[k \in 0..30] == IF k = 0 THEN 1 ELSE 2 * Pow2[k - 1]

NBits == 1 + EB + FB        \* native pattern length
XBits == 1 + XEB + XFB      \* portable pattern length
W     == XFB                \* width of the fraction work buffer `pb'
                            \* (pbTot = sizeof(XSFloat) - XSF_FracIx0 bytes)

Excess    == Pow2[EB - 1] - 1            \* SF_Excess 0x7f, DF_Excess 0x3ff
XExcess   == Pow2[XEB - 1] - 2           \* XSF_Excess = XDF_Excess = 0x3ffe
ExponMin  == - Excess                    \* SF_ExponMin
ExponNAN  == (Pow2[EB] - 1) - Excess     \* SF_ExponNAN = 128, DF_ExponNAN = 1024
XExponMin == - XExcess
XExponNAN == (Pow2[XEB] - 1) - XExcess   \* 16385

IsBits(s, n) == /\ Len(s) = n /\ \A i \in 1..n : s[i] \in {0, 1}

---------------------------------------------------------------------------
(* Bit strings <-> small naturals (fields of at most 30 bits)              *)

NatToBits(v, n) == [i \in 1..n |-> (v \div Pow2[n - i]) % 2]
BitsToNat(s)    == FoldLeft(LAMBDA a, b : 2 * a + b, 0, s)
Zeros(n)        == [i \in 1..n |-> 0]
HasOne(s)       == \E i \in 1..Len(s) : s[i] = 1
PadRight(s, n)  == [i \in 1..n |-> IF i <= Len(s) THEN s[i] ELSE 0]

(* Bytes (0..255, in address order of the C arrays) <-> bits               *)
BytesToBits(bs) == [i \in 1..(8 * Len(bs)) |-> (bs[((i - 1) \div 8) + 1] \div Pow2[7 - ((i - 1) % 8)]) % 2]
BitsToBytes(s)  == [k \in 1..(Len(s) \div 8) |-> BitsToNat(SubSeq(s, 8 * (k - 1) + 1, 8 * k))]

---------------------------------------------------------------------------
(* util.c: bfShiftUp (bF = 0), bfShiftDn, bfFirst1 -- what they compute on *)
(* the bit string.  BitField.tla transcribes the byte loops and checks     *)
(* that they compute exactly this.                                         *)

ShiftUp(s, n) == [i \in 1..Len(s) |-> IF i + n <= Len(s) THEN s[i + n] ELSE 0]

(* n positions toward the low end; the first bit shifted in (it ends up at *)
(* position n) is b1, the others b0; n = 0 changes nothing.                *)
ShiftDn(s, n, b0, b1) ==
  [i \in 1..Len(s) |-> IF i > n THEN s[i - n] ELSE IF i = n THEN b1 ELSE b0]

(* 0-based index of the first 1 bit, -1 if there is none                   *)
First1(s) == SelectInSeq(s, LAMBDA b : b = 1) - 1

---------------------------------------------------------------------------
(* Native values: sfClassify / sfDissemble / sfAssemble (and df...)        *)

Sign(x)    == x[1]
ExpBits(x) == SubSeq(x, 2, 1 + EB)
FracBits(x)== SubSeq(x, 2 + EB, NBits)

(* enum floatCase, xfloat.h l.95 *)
NORM == 0  DENORM == 1  ZERO == 2  NAN == 3  INF == 4

Classify(x) ==
  LET e == BitsToNat(ExpBits(x))
      hasFrac == HasOne(FracBits(x))
  IN IF e = 0 THEN (IF hasFrac THEN DENORM ELSE ZERO)
     ELSE IF e = Pow2[EB] - 1 THEN (IF hasFrac THEN NAN ELSE INF)
     ELSE NORM

IsNaN(x) == Classify(x) = NAN

(* sign, unbiased exponent, fraction left-aligned in the W-bit buffer      *)
(* (the C code copies the bytes from SF_FracIx0 on and shifts the          *)
(* exponent's low bits out with bfShiftUp(.., SF_FracSh0, .., 0))          *)
Dissemble(x) ==
  [sign |-> Sign(x),
   exp  |-> BitsToNat(ExpBits(x)) - Excess,
   frac |-> PadRight(FracBits(x), W)]

(* `iszero' output of sfDissemble: *psf == 0.0 *)
IsZeroValue(x) == Classify(x) = ZERO

(* ((exponent + SF_Excess) << SF_FracShift) & SF_ExponMask, then the first *)
(* FB fraction bits (bfShiftDn by SF_FracSh0; the low bits are dropped)    *)
Assemble(sign, exp, frac) ==
  <<sign>> \o NatToBits((exp + Excess) % Pow2[EB], EB) \o SubSeq(frac, 1, FB)

---------------------------------------------------------------------------
(* Portable values: xsfClassify / xsfDissemble / xsfAssemble               *)

XSign(y)    == y[1]
XExpBits(y) == SubSeq(y, 2, 1 + XEB)
XFracBits(y)== SubSeq(y, 2 + XEB, XBits)

XClassify(y) ==
  LET e == BitsToNat(XExpBits(y))
      hasFrac == HasOne(XFracBits(y))
  IN IF e = 0 THEN (IF hasFrac THEN DENORM ELSE ZERO)
     ELSE IF e = Pow2[XEB] - 1 THEN (IF hasFrac THEN NAN ELSE INF)
     ELSE NORM

XDissemble(y) ==
  [sign |-> XSign(y),
   exp  |-> BitsToNat(XExpBits(y)) - XExcess,
   frac |-> XFracBits(y)]

XAssemble(sign, exp, frac) ==
  <<sign>> \o NatToBits((exp + XExcess) % Pow2[XEB], XEB) \o frac

---------------------------------------------------------------------------
(* fracNormalize / fracDenormalize (xfloat.c l.696-725)                    *)

FracNormalize(exp, frac) ==
  LET ix1 == First1(frac)
  IN IF ix1 = -1 THEN [exp |-> exp, frac |-> frac]
     ELSE [exp |-> exp - (ix1 + 1), frac |-> ShiftUp(frac, ix1 + 1)]

(* lglgBase = 0, hasNorm1 = 1: the hidden 1 is shifted back in *)
FracDenormalize(exp, expmin, frac) ==
  IF exp > expmin THEN [exp |-> exp, frac |-> frac]
  ELSE LET ix1 == expmin - exp
       IN [exp |-> exp + ix1, frac |-> ShiftDn(frac, ix1, 0, 1)]

---------------------------------------------------------------------------
(* xsfFrNative / xdfFrNative (l.570-685): native -> portable               *)
(* Path letters are the xfloatDEBUG markers of the C code.                 *)

(* The dissembled record is bound by a quantifier over a singleton set so   *)
(* that TLC evaluates it once (LET definitions may be re-evaluated per use). *)

FrPathD(d) ==
  IF d.exp = ExponNAN THEN "A"                                   \* NaN or Inf
  ELSE IF d.exp = ExponMin THEN (IF HasOne(d.frac) THEN "B"      \* subnormal -> normalised
                                 ELSE "E")                       \* zero
  ELSE "C"                                                       \* normal

XFrNativeD(d, p) ==
  CASE p = "A" -> XAssemble(d.sign, XExponNAN, d.frac)
    [] p = "E" -> XAssemble(d.sign, XExponMin, d.frac)
    [] p = "B" -> LET n == FracNormalize(d.exp, d.frac)
                  IN XAssemble(d.sign, n.exp, n.frac)
    [] OTHER   -> XAssemble(d.sign, d.exp, d.frac)

FrPath(x)   == FrPathD(Dissemble(x))
XFrNative(x) == CHOOSE y \in {XFrNativeD(d, FrPathD(d)) : d \in {Dissemble(x)}} : TRUE

(* xsfToNative / xdfToNative (l.398-561): portable -> native               *)

ToPathD(d) ==
  IF d.exp = XExponNAN THEN "A"                                  \* NaN or Inf
  ELSE IF d.exp >= ExponNAN THEN "B"                             \* too large: becomes Inf
  ELSE IF d.exp = XExponMin /\ ~HasOne(d.frac) THEN "E"          \* zero
  ELSE IF d.exp <= ExponMin THEN "C"                             \* becomes subnormal or zero
  ELSE "D"                                                       \* normal

XToNativeD(d, p) ==
  CASE p = "A" -> Assemble(d.sign, ExponNAN, d.frac)
    [] p = "B" -> Assemble(d.sign, ExponNAN, Zeros(W))
    [] p = "E" -> Assemble(d.sign, ExponMin, d.frac)
    [] p = "C" -> LET n == FracDenormalize(d.exp, ExponMin, d.frac)
                  IN Assemble(d.sign, n.exp, n.frac)   \* `if (hasFrac && !b) expon = ExponMin' is a no-op here
    [] OTHER   -> Assemble(d.sign, d.exp, d.frac)

ToPath(y)    == ToPathD(XDissemble(y))
XToNative(y) == CHOOSE x \in {XToNativeD(d, ToPathD(d)) : d \in {XDissemble(y)}} : TRUE

---------------------------------------------------------------------------
(* Enumerations of fractions: every one (scaled format) or boundary        *)
(* families (real widths).  harness/xfloat_drv.c enumerates the same       *)
(* families; TraceXFloat counts the logged patterns that belong to them.   *)

Ones(n)        == [i \in 1..n |-> 1]
Alt(n, b)      == [i \in 1..n |-> (i + b) % 2]
OneBit(n, k)   == [i \in 1..n |-> IF i = k THEN 1 ELSE 0]
AllBut(n, k)   == [i \in 1..n |-> IF i = k THEN 0 ELSE 1]
Prefix1(n, k)  == [i \in 1..n |-> IF i <= k THEN 1 ELSE 0]
Suffix1(n, k)  == [i \in 1..n |-> IF i > n - k THEN 1 ELSE 0]

AllFracs(n)  == {NatToBits(v, n) : v \in 0..(Pow2[n] - 1)}
MiniFracs(n) == {Zeros(n), Ones(n), Alt(n, 0), OneBit(n, 1), OneBit(n, n)}   \* 0, all ones, alternating, top bit, low bit
LiteFracs(n) == {Zeros(n), Ones(n), Alt(n, 0), Alt(n, 1)} \cup {OneBit(n, k) : k \in 1..n}
BoundaryFracs(n) ==
  LiteFracs(n) \cup {AllBut(n, k) : k \in 1..n}
               \cup {Prefix1(n, k) : k \in 1..n} \cup {Suffix1(n, k) : k \in 1..n}

FamFracs(fam, n) == CASE fam = "all"  -> AllFracs(n)
                      [] fam = "lite" -> LiteFracs(n)
                      [] fam = "mini" -> MiniFracs(n)
                      [] fam = "none" -> {}
                      [] OTHER        -> BoundaryFracs(n)

---------------------------------------------------------------------------
(* The statements of C19 for one pattern (used by XFloat.tla as invariants *)
(* and by TraceXFloat.tla on values logged from the real code).            *)

SameValue(x, z) == IF IsNaN(x) THEN IsNaN(z) ELSE z = x   \* same bits; NaN stays NaN

RoundTripOk(x)  == SameValue(x, XToNative(XFrNative(x)))
PartsOk(x)      == LET d == Dissemble(x) IN Assemble(d.sign, d.exp, d.frac) = x

(* What the encoding does with classes: subnormals are stored normalised   *)
FileClassOk(x) ==
  LET c == Classify(x)  xc == XClassify(XFrNative(x))
  IN CASE c = NAN    -> xc = NAN
       [] c = INF    -> xc = INF
       [] c = ZERO   -> xc = ZERO
       [] OTHER      -> xc = NORM

---------------------------------------------------------------------------
(* What number a pattern denotes, as (negative?, exponent of the leading 1,*)
(* bits after the leading 1 without trailing zeros) -- used to state what  *)
(* the portable form *means*.  Value of a native pattern:                  *)
(*   normal    (-1)^s * 1.f * 2^e                                          *)
(*   subnormal (-1)^s * 0.f * 2^(ExponMin+1)                               *)

RTrim(s) == LET S == {i \in 1..Len(s) : s[i] = 1}
            IN IF S = {} THEN <<>> ELSE SubSeq(s, 1, CHOOSE m \in S : \A j \in S : j <= m)

NativeDenotes(x) ==
  LET d == Dissemble(x)  c == Classify(x)
  IN CASE c = NORM   -> [neg |-> d.sign, lead |-> d.exp, rest |-> RTrim(FracBits(x))]
       [] c = DENORM -> LET k == First1(FracBits(x))      \* 0.f = 2^-(k+1) * 1.f'
                        IN [neg |-> d.sign, lead |-> ExponMin + 1 - (k + 1),
                            rest |-> RTrim(SubSeq(FracBits(x), k + 2, FB))]
       [] OTHER      -> [neg |-> d.sign, lead |-> -100000, rest |-> <<>>]

(* The reading under which the portable form of every native value denotes *)
(* the same number.  Observation (not part of C19, which only demands that *)
(* the bits come back): xsfFrNative stores a subnormal with an exponent    *)
(* that is one less than an IEEE-extended reading 1.f * 2^E would need,    *)
(* i.e. portable exponents <= ExponMin-1 mean 1.f * 2^(E+1), and           *)
(* E = ExponMin is not produced at all.  xsfToNative is the exact inverse  *)
(* of that convention, so nothing is lost on one platform.                 *)
PortableDenotes(y) ==
  LET d == XDissemble(y)  c == XClassify(y)
  IN IF c = NORM THEN [neg |-> d.sign,
                       lead |-> IF d.exp < ExponMin THEN d.exp + 1 ELSE d.exp,
                       rest |-> RTrim(d.frac)]
     ELSE [neg |-> d.sign, lead |-> -100000, rest |-> <<>>]

DenotesOk(x) == Classify(x) \in {NORM, DENORM} => PortableDenotes(XFrNative(x)) = NativeDenotes(x)

=============================================================================
