SPECIFICATION GenSpec
CONSTANTS
  A = 4
  Depth = 2
  Mode = "F"
INVARIANTS TruthTableOk RefOk
CHECK_DEADLOCK FALSE
