\* C15 required design without the representability premise: EXPECTED violation at global line 2^LNO - 1 (END_LINE_NO)
CONSTANTS
  CNO = 2
  LNO = 3
  Packer = "required"
  Policy = "required"
  EofPolicy = "required"
  FileNames = {"a", "b", "c"}
  TopFile = "a"
  LineNames = {"a", "b"}
  LineNums = {1, 4}
  Cols = {1, 3, 4, 9}
  RunLens = {1, 2, 4}
  MaxLines = 12
  MaxIf = 1
  MaxItems = 5
  Feat = {"line", "if", "misc"}
  AvoidEofIf = FALSE
  AvoidCollide = FALSE
INIT Init
NEXT Next
CHECK_DEADLOCK FALSE
INVARIANT PosFaithfulNoLimit
