SPECIFICATION TraceSpec
CONSTANTS
  READER = "Required"
  SUM = TRUE
  PRINT = FALSE
  VALS = {3}
CHECK_DEADLOCK FALSE
