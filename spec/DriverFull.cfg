\* thorough: one file, all 511 subsets, <= 2 faults
SPECIFICATION Spec
CONSTANTS
  MaxFiles = 1
  MaxFaults = 2
  MaxErrs = 1
  Strict = TRUE
  MultiPart = FALSE
  PostUsed = {}
  ChecksIo = TRUE
  MaxKinds = 9
  CleanupKept = FALSE
  PhasesUsed = {"load", "include", "scan", "syscmd", "linear", "parse", "abnorm", "macex", "abcheck", "scobind", "tinfer", "genfoam", "optfoam", "putao", "putlisp", "putjava", "putc", "putobject"}
  KindsUsed = {"ai", "ap", "asy", "ao", "fm", "lsp", "c", "java", "main"}
INVARIANTS TypeOK HonestExit CompleteOnSuccess NoOutputAfterError FailureSurfaces NothingOpenAtSuccess PendingIsReported
CHECK_DEADLOCK TRUE
