\* C14 thorough, part 3: the whole cross product of the pile-relevant style dimensions (4 modes x 4 continuations x
\* indentation width 1..8 x 7 kinds of blank/comment noise x 2) on all trees with <= 2 statements over 5 shapes.
SPECIFICATION Spec
CONSTANTS
  MaxN = 2
  MaxDepth = 2
  TreeSource = "enum"
  StyleSet = "full"
  Seed = 0
  ScanChars = TRUE
  Export = TRUE
  Use0 = {"L3", "L6"}
  Use1 = {"I1", "Q1", "A1"}
  Use2 = {}
  Use3 = {}
INVARIANTS LeadOK StageOK
CHECK_DEADLOCK FALSE
