---------------------------- MODULE XFloatJudge ----------------------------
(***************************************************************************)
(* Judging one event logged by harness/xfloat_drv.c (or one observation    *)
(* printed by a compiled Aldor program) against XFloatOps, for one format. *)
(* TraceXFloat instantiates this module once for singles and once for      *)
(* doubles.                                                                *)
(*                                                                         *)
(* `bad'   : a statement of C19 fails on the logged values (VIOLATION).    *)
(* `drift' : the code computed an intermediate differently from the        *)
(*           transcription in XFloatOps (information only).                *)
(***************************************************************************)
EXTENDS XFloatOps

NB  == NBits \div 8          \* bytes of a native value
XNB == XBits \div 8          \* bytes of a portable value
WB  == W \div 8              \* bytes of the fraction buffer

IsBytes(b, n) == /\ Len(b) = n /\ \A i \in 1..n : b[i] \in 0..255

First(msgs) == IF msgs = <<>> THEN "" ELSE Head(msgs)
Sel(pairs)  == SelectSeq(pairs, LAMBDA p : p[1])          \* <<cond, name>> with cond true
Names(pairs)== [i \in 1..Len(Sel(pairs)) |-> Sel(pairs)[i][2]]

NativeFam(fam) == FamFracs(fam, FB)

(* event "F": a native pattern through every routine                       *)
FWellFormed(e) ==
  /\ IsBytes(e.x, NB) /\ IsBytes(e.asm, NB) /\ IsBytes(e.fasm, NB) /\ IsBytes(e.back, NB)
  /\ IsBytes(e.back2, NB) /\ IsBytes(e.fback, NB)
  /\ IsBytes(e.frac, WB) /\ IsBytes(e.ffrac, WB) /\ IsBytes(e.xs, XNB) /\ IsBytes(e.xs2, XNB)

(* Bound variables of a quantifier over a singleton set are evaluated once  *)
(* by TLC, LET definitions possibly on every use: hence the odd shape.      *)
Same(xb, x, zb) == zb = xb \/ (IsNaN(x) /\ IsNaN(BytesToBits(zb)))

JudgeF2(e, x, d, xsb, backm) ==
  LET bad == Names(<<
        <<~Same(e.x, x, e.back),  "value changed by xfFrNative/xfToNative (portable encoding round trip)">>,
        <<~Same(e.x, x, e.back2), "value changed by the second portable encoding round trip">>,
        <<~Same(e.x, x, e.fback), "value changed by foamToBuffer/foamFrBuffer">>,
        <<e.asm # e.x,  "fAssemble(fDissemble(x)) differs from x">>,
        <<e.fasm # e.x, "fiFloAssemble(fiFloDissemble(x)) differs from x">> >>)
      fracb == BitsToBytes(d.frac)
      drift == Names(<<
        <<e.cls # Classify(x), "cls">>,
        <<e.sign # d.sign, "sign">>, <<e.exp # d.exp, "exp">>,
        <<e.frac # fracb, "frac">>,
        <<e.zero # (IF IsZeroValue(x) THEN 1 ELSE 0), "zero">>,
        <<e.fsign # d.sign, "fsign">>, <<e.fexp # d.exp, "fexp">>,
        <<e.ffrac # fracb, "ffrac">>,
        <<e.xs # xsb, "xs">>,
        <<e.xcls # XClassify(BytesToBits(e.xs)), "xcls">>,
        <<e.back # backm, "back">>,
        <<e.xs2 # (IF e.back = e.x THEN xsb ELSE BitsToBytes(XFrNative(BytesToBits(e.back)))), "xs2">>,
        <<e.back # e.x, "nan-bits">> >>)
  IN [bad |-> First(bad), drift |-> drift,
      inset |-> IF e.src = "enum" /\ FracBits(x) \in NativeFam(e.fam) THEN 1 ELSE 0]

JudgeF1(e, x) ==
  CHOOSE r \in {JudgeF2(e, x, d, xsb, backm) :
                  d \in {Dissemble(x)}, xsb \in {BitsToBytes(XFrNative(x))},
                  backm \in {BitsToBytes(XToNative(BytesToBits(e.xs)))}} : TRUE

JudgeF(e) ==
  IF ~FWellFormed(e) THEN [bad |-> "malformed event", drift |-> <<>>, inset |-> 0]
  ELSE CHOOSE r \in {JudgeF1(e, x) : x \in {BytesToBits(e.x)}} : TRUE

(* event "X": a portable pattern as found in a file written elsewhere      *)
JudgeX(e) ==
  IF ~(IsBytes(e.y, XNB) /\ IsBytes(e.nat, NB) /\ IsBytes(e.y2, XNB) /\ IsBytes(e.nat2, NB))
  THEN [bad |-> "malformed event", drift |-> <<>>, inset |-> 0]
  ELSE
  LET y    == BytesToBits(e.y)
      nat  == BytesToBits(e.nat)
      nat2 == BytesToBits(e.nat2)
      bad == Names(<< <<~SameValue(nat, nat2), "loaded value changed by a further portable encoding round trip">> >>)
      drift == Names(<<
        <<e.ycls # XClassify(y), "ycls">>,
        <<nat # XToNative(y), "nat">>,
        <<BytesToBits(e.y2) # XFrNative(nat), "y2">>,
        <<nat2 # nat, "nan-bits">> >>)
  IN [bad |-> First(bad), drift |-> drift, inset |-> 0]

(* event "Lit": sign, exponent and fraction bytes printed by an Aldor      *)
(* program that applied `dissemble' to a constant                          *)
LitWellFormed(e) == /\ e.sign \in {0, 1} /\ e.exp \in ExponMin..ExponNAN /\ IsBytes(e.frac, WB)
LitPattern(e)    == Assemble(e.sign, e.exp, BytesToBits(e.frac))
Repack(x)        == XToNative(XFrNative(x))       \* what a trip through an object file gives

=============================================================================
