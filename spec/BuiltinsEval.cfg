SPECIFICATION Spec
CONSTANTS SIntW = 64
          WordW = 64
CHECK_DEADLOCK FALSE
