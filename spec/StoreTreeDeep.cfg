\* The free tree of store.c with its pools at small constants, thorough tier: every history over 6 sizes, one piece per size (no bound on length).
\* T = 2 (1..3 keys per node), 2 nodes and 2 carriers per housekeeping page (both with slack at the end of the page).
SPECIFICATION Spec
CONSTANTS
  T = 2
  PgBytes = 11
  NodeHead = 1
  PartBytes = 1
  CarBytes = 4
  KeySet = {1, 2, 3, 4, 5, 6}
  MaxCount = 1
  FullCheck = TRUE
  Probe = "none"
INVARIANT TreeInv
PROPERTY GetRefines
VIEW View
CHECK_DEADLOCK FALSE
