SPECIFICATION GenSpec
CONSTANTS
  Kind = "B"
  MaxLen = 15
  Keys = {1, 8, 11}
  NBits = 3
  Regs = 2
  BPrefix = 9
  DelKeys = {1, 2, 8, 10, 11, 18}
  IntVals = {}
INVARIANTS TypeOK MinimaInOrder CopyIsSnapshot Export
CHECK_DEADLOCK FALSE
