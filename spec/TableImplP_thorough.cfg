SPECIFICATION Spec
CONSTANTS
  Keys = {0, 1, 2, 3, 4}
  Vals = {1, 2}
  HashOf <- TinyHash
  Sizes <- SmallSizes
  MaxLoad = 1
  PKeys = {1, 2, 3}
  PMax = 6
  SMax = 8
  Part = "P"
INVARIANTS HeapOrder HeapRefines MinAtRoot ExtOk
CHECK_DEADLOCK FALSE
