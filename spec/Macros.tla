------------------------------- MODULE Macros -------------------------------
(***************************************************************************)
(* C07, input class (b'), macro programs: a small calculus of the source    *)
(* macros of the language (user guide, chapter "Source macros") and what    *)
(* it CERTIFIES about a text that defines and uses macros.                  *)
(*                                                                          *)
(* Terms.  A term is a head atom applied to a sequence of argument groups,  *)
(*     [hd |-> "f", ar |-> << <<a, b>>, <<c>> >>]     for    f(a, b)(c)     *)
(* (an atom is a term without groups).  Atoms: the macro names m1..m4, the  *)
(* parameter names x, y, the terminals k (a literal) and h (a declared      *)
(* unary function).                                                         *)
(*                                                                          *)
(* A definition [nm, ps, body] is  nm ==> body  (ps = <<>>) or the macro    *)
(* function  nm(ps) ==> body.  A program is a sequence of definitions and   *)
(* ONE use (a closed term) in a scope ("top" level, a `where' clause, an    *)
(* `add' body, a function body); a definition "persists for the remainder   *)
(* of the +->, where, add or with in which it occurs", so the use sees the  *)
(* first `vis' definitions (vis = -1: the use stands after the scope has    *)
(* been closed and sees none).                                              *)
(*                                                                          *)
(* Expansion relation (HStep): replace an identifier that has a macro       *)
(* definition by its right-hand side; reduce (macro ps +-> body)(args) by   *)
(* substituting the arguments for the parameters.  "Once macro expansion is *)
(* complete, the entire program should be free of macro definitions and     *)
(* macro functions; any remaining unreduced macro functions are reported as *)
(* errors."  Hence a text is INVALID when the use has no expansion that is  *)
(* free of macros.  Certificates (Norm follows the leftmost-outermost       *)
(* strategy, which reaches the macro-free form whenever any strategy does): *)
(*   "mac-circular"  expansion does not terminate: the expansion of a term  *)
(*                   t needs the expansion of t itself (t reappears at the  *)
(*                   head, possibly applied to further arguments, or as an  *)
(*                   argument that is kept, while t is being expanded) --   *)
(*                   direct and mutual recursion, recursion                 *)
(*                   through a macro function, a parameter applied to       *)
(*                   itself (f(x) ==> x(x) used as f(f))                    *)
(*   "mac-argc"      a macro function meets an argument group of the wrong  *)
(*                   length, so the application can never be reduced        *)
(*   "mac-improper"  a macro function is left without an argument group     *)
(*   ("fuel": the bounded search ended undecided, or a visible name is      *)
(*   defined twice -- no certificate)                                       *)
(* In a typed context one more (exported separately, field t):              *)
(*   "no-meaning"    the macro-free form still mentions a macro name that   *)
(*                   is not visible at the use (used before its definition  *)
(*                   or after its scope); the rendering declares no other   *)
(*                   meaning for these names                                *)
(* Nothing is certified about a program without certificate: it is judged   *)
(* for totality and an honest exit status only (for instance the compiler   *)
(* expands arguments eagerly and reports a circle that the leftmost-        *)
(* outermost strategy would drop: f(x) ==> k, m ==> f(m)).                  *)
(*                                                                          *)
(* Enumeration.  All programs of n <= 4 definitions whose bodies come from  *)
(* the shape level Ln of that n (0: none, 1: chains, 2: one-argument        *)
(* applications, 3: groups of 0..2 arguments; L4 = 1 is a reduced chain     *)
(* set) and whose use comes from Uses; of these every DStride-th sequence   *)
(* of definitions and every Stride-th program (by hashes, offset Seed) is   *)
(* judged and exported (DStride = Stride = 1: all).  Scope, visibility,     *)
(* spelling (`macro f(x) == b', `f(x) ==> b', `f ==> (macro (x) +-> b)',    *)
(* a `macro { .. }' block) and redefinition of m1 rotate with a second hash *)
(* plus rot \in Rots.                                                       *)
(*                                                                          *)
(* Design-level invariant GraphLaw: on first-order programs (no parameter   *)
(* at a head, every parameter used, no stuck application, decided within    *)
(* the bound) "mac-circular" holds exactly when the definition graph        *)
(* (name -> macro names in its body) has a cycle reachable from the use     *)
(* through visible definitions.                                             *)
(***************************************************************************)
EXTENDS Naturals, Sequences, SequencesExt, FiniteSets, TLC, Json

CONSTANTS L1, L2, L3, L4,     \* shape level of the bodies of programs with 1, 2, 3, 4 definitions (0: none)
          DStride,            \* definition sequences with DHash % DStride = Seed % DStride are kept, and of their
          Stride, Seed,       \* programs those with Hash % Stride = Seed % Stride are judged and exported
          NShards, ShardNo,   \* ... by the process with (DHash \div DStride) % NShards = ShardNo
          Rots,               \* rotations of the rendering dimensions (a set of naturals)
          VisModes,           \* subset of {"all", "hide", "mix"}: the use sees all definitions / the use stands before
                              \* some definition or behind the scope / one of the two, by the hash
          Fuel,               \* bound on the depth of the search of Norm
          Export

MN == << "m1", "m2", "m3", "m4" >>
AllMN == {MN[i] : i \in 1..4}
PNames == {"x", "y"}
LevelOf(n) == CASE n = 1 -> L1 [] n = 2 -> L2 [] n = 3 -> L3 [] n = 4 -> L4

At(s) == [hd |-> s, ar |-> << >>]
Ap1(s, g) == [hd |-> s, ar |-> << g >>]
Names(n) == {MN[i] : i \in 1..n}
Rng(s) == {s[i] : i \in 1..Len(s)}

---------------------------------------------------------------------------
(* the enumerated shapes                                                    *)
PsOpts(lvl) == IF lvl <= 1 THEN { << >>, << "x" >> } ELSE { << >>, << "x" >>, << "x", "y" >> }
Atoms(n, ps) == Names(n) \cup Rng(ps) \cup {"k"}
Heads(n, ps) == Names(n) \cup Rng(ps) \cup {"h"}
G1(S) == { << At(a) >> : a \in S }
G012(S) == { << >> } \cup G1(S) \cup { << At(a), At(b) >> : a, b \in S }

Bodies(lvl, n, ps) ==
  { At(a) : a \in Atoms(n, ps) }
  \cup (CASE lvl = 1 /\ n = 4 ->
               { Ap1(m, << At(p) >>) : m \in Names(n), p \in Rng(ps) }
          [] lvl = 1 /\ n # 4 ->
               { Ap1(m, g) : m \in Names(n), g \in G1(IF ps = << >> THEN {"k"} ELSE Rng(ps)) }
               \cup { Ap1("h", << At(m) >>) : m \in Names(n) }
               \cup { Ap1(p, << At(p) >>) : p \in Rng(ps) }
          [] lvl = 2 -> { Ap1(h, g) : h \in Heads(n, ps), g \in G1(Atoms(n, ps)) }
          [] lvl = 3 -> { Ap1(h, g) : h \in Heads(n, ps), g \in G012(Atoms(n, ps)) })

DefsAt(lvl, n, i) ==
  UNION { { [nm |-> MN[i], ps |-> ps, body |-> b] : b \in Bodies(lvl, n, ps) } : ps \in PsOpts(lvl) }

Uses(lvl, n) ==
  { At(m) : m \in Names(n) }
  \cup { Ap1(m, << At("k") >>) : m \in Names(n) }
  \cup { Ap1(m, << At(m2) >>) : m \in Names(n), m2 \in Names(n) }
  \cup (IF lvl = 1 /\ n = 4 THEN {}
        ELSE { Ap1("h", << At(m) >>) : m \in Names(n) })
  \cup (IF lvl <= 1 THEN {}
        ELSE { Ap1(m, g) : m \in Names(n), g \in { << >>, << At("k"), At("k") >>, << At("h") >> } })
  \cup (IF lvl <= 2 THEN {}
        ELSE { [hd |-> m, ar |-> << << At("k") >>, << At("k") >> >>] : m \in Names(n) })

---------------------------------------------------------------------------
(* hashes (selection and rotation)                                          *)
CodeOf == [m1 |-> 1, m2 |-> 2, m3 |-> 3, m4 |-> 4, x |-> 5, y |-> 6, k |-> 7, h |-> 8]
RECURSIVE TCode(_, _, _)
TCode(t, a, b) ==
  FoldLeft(LAMBDA acc, g : FoldLeft(LAMBDA a2, u : (a2 * a + TCode(u, a, b)) % 10007, (acc * b + 3) % 10007, g),
           CodeOf[t.hd], t.ar)
DCode(d, a, b) == (TCode(d.body, a, b) * 5 + Len(d.ps)) % 10007
PCode(ds, u, a, b) == FoldLeft(LAMBDA acc, d : (acc * 31 + DCode(d, a, b)) % 10007, TCode(u, a, b), ds)

---------------------------------------------------------------------------
(* the state: one program                                                   *)
VARIABLES ds,     \* the definitions (names m1..mn in this order)
          use,    \* the use
          rot, vm
vars == << ds, use, rot, vm >>

NDefs == {n \in 1..4 : LevelOf(n) > 0}
D(n, i) == DefsAt(LevelOf(n), n, i)
DefSeqs(n) == CASE n = 1 -> { << d1 >> : d1 \in D(1, 1) }
                [] n = 2 -> { << d1, d2 >> : d1 \in D(2, 1), d2 \in D(2, 2) }
                [] n = 3 -> { << d1, d2, d3 >> : d1 \in D(3, 1), d2 \in D(3, 2), d3 \in D(3, 3) }
                [] n = 4 -> { << d1, d2, d3, d4 >> : d1 \in D(4, 1), d2 \in D(4, 2), d3 \in D(4, 3), d4 \in D(4, 4) }
DHash(dd) == FoldLeft(LAMBDA acc, d : (acc * 31 + DCode(d, 3, 5)) % 10007, 1, dd)
DsSelected(dd) == /\ DHash(dd) % DStride = Seed % DStride
                  /\ (DHash(dd) \div DStride) % NShards = ShardNo
Init == /\ \E n \in NDefs : ds \in DefSeqs(n) /\ DsSelected(ds) /\ use \in Uses(LevelOf(n), n)
        /\ rot \in Rots /\ vm \in VisModes
Next == UNCHANGED vars
Spec == Init /\ [][Next]_vars

N == Len(ds)
H1 == PCode(ds, use, 7, 11)
H2 == (PCode(ds, use, 13, 17) + rot) % 10007
Selected == H1 % Stride = Seed % Stride

\* the rendering dimensions of this program
Scopes == << "top", "where", "add", "fn" >>
Scope == Scopes[(H2 % 4) + 1]
VisSel == CASE vm = "all" -> 0 [] vm = "hide" -> 3 + ((H2 \div 4) % 3) [] vm = "mix" -> (H2 \div 4) % 6
Vis == IF VisSel <= 2 THEN N
       ELSE IF VisSel = 3 THEN (IF Scope = "top" THEN N - 1 ELSE -1)
       ELSE IF Scope = "where" THEN N
       ELSE IF VisSel = 4 THEN N - 1 ELSE 0
Redef == N >= 2 /\ (H2 \div 24) % 5 = 0
Spell(i) == LET s == ((H2 \div 120) + i) % 3
            IN  IF s = 0 THEN "macro" ELSE IF s = 1 \/ ds[i].ps = << >> THEN "arrow" ELSE "lam"
\* the definitions in front of the use are written as one `macro { a == ..; b == .. }' block (rendering only)
Block == (H2 \div 360) % 4 = 0
Defs == [i \in 1..N |-> [nm |-> IF Redef /\ i = N THEN "m1" ELSE ds[i].nm, ps |-> ds[i].ps, body |-> ds[i].body,
                         sp |-> Spell(i)]]

---------------------------------------------------------------------------
(* expansion                                                                *)
Visible == IF Vis <= 0 THEN << >> ELSE SubSeq(Defs, 1, Vis)
EnvNames == {Visible[i].nm : i \in 1..Len(Visible)}
\* A name defined twice among the visible definitions: the guide does not say what the body of the second
\* definition sees (the compiler expands it when it is defined, i.e. with the first definition still in force, and
\* warns); nothing is certified for such a program (Twice).
Env == [nm \in EnvNames |-> LET I == {i \in 1..Len(Visible) : Visible[i].nm = nm}
                                  j == CHOOSE i \in I : \A i2 \in I : i2 <= i
                              IN  Visible[j]]
Twice == \E i, j \in 1..Len(Visible) : i # j /\ Visible[i].nm = Visible[j].nm

RECURSIVE Subst(_, _, _)
Subst(t, ps, g) ==
  LET ar2 == [j \in 1..Len(t.ar) |-> [q \in 1..Len(t.ar[j]) |-> Subst(t.ar[j][q], ps, g)]]
      I == {i \in 1..Len(ps) : ps[i] = t.hd}
  IN  IF I = {} THEN [hd |-> t.hd, ar |-> ar2]
      ELSE LET v == g[CHOOSE i \in I : TRUE] IN [hd |-> v.hd, ar |-> v.ar \o ar2]

\* one step at the head
HStep(t, env) ==
  IF t.hd \notin DOMAIN env THEN [st |-> "normal", t |-> t]
  ELSE LET d == env[t.hd]
       IN  IF d.ps = << >> THEN [st |-> "step", t |-> [hd |-> d.body.hd, ar |-> d.body.ar \o t.ar]]
           ELSE IF t.ar = << >> THEN [st |-> "mac-improper", t |-> t]
           ELSE IF Len(t.ar[1]) # Len(d.ps) THEN [st |-> "mac-argc", t |-> t]
           ELSE LET b == Subst(d.body, d.ps, t.ar[1])
                IN  [st |-> "step", t |-> [hd |-> b.hd, ar |-> b.ar \o Tail(t.ar)]]

RECURSIVE Size(_)
Size(t) == FoldLeft(LAMBDA acc, g : FoldLeft(LAMBDA a2, u : a2 + Size(u), acc, g), 1, t.ar)

\* The set of verdicts on the expansion of t.  chain = the terms met at the head since the expansion of this
\* (sub)term began: all have the same macro-free form as t; active = the terms whose macro-free form contains that
\* of t as a proper part.  Meeting t again in either set, or meeting at the head a term of the chain with further
\* argument groups appended (a head step does not look at the groups behind the first), shows that there is none.
Extends(t, c) == /\ c.hd = t.hd /\ Len(c.ar) <= Len(t.ar) /\ SubSeq(t.ar, 1, Len(c.ar)) = c.ar
RECURSIVE Norm(_, _, _, _, _)
Norm(t, env, active, chain, fuel) ==
  IF t \in active \/ \E c \in chain : Extends(t, c) THEN {"mac-circular"}
  ELSE IF fuel = 0 \/ Size(t) > 24 THEN {"fuel"}
  ELSE LET r == HStep(t, env)
       IN  IF r.st = "step" THEN Norm(r.t, env, active, chain \cup {t}, fuel - 1)
           ELSE (IF r.st = "normal" THEN {} ELSE {r.st})
                \cup UNION { UNION { Norm(t.ar[j][q], env, active \cup chain \cup {t}, {}, fuel - 1) : q \in 1..Len(t.ar[j]) }
                             : j \in 1..Len(t.ar) }

\* the macro-free form (only asked when Norm is empty)
RECURSIVE NF(_, _, _)
NF(t, env, fuel) ==
  LET r == HStep(t, env)
  IN  IF r.st = "step" /\ fuel > 0 THEN NF(r.t, env, fuel - 1)
      ELSE [hd |-> t.hd, ar |-> [j \in 1..Len(t.ar) |-> [q \in 1..Len(t.ar[j]) |-> NF(t.ar[j][q], env, fuel - 1)]]]
RECURSIVE AtomsOf(_)
AtomsOf(t) == {t.hd} \cup UNION { UNION { AtomsOf(t.ar[j][q]) : q \in 1..Len(t.ar[j]) } : j \in 1..Len(t.ar) }

VerdictsIn(env) == LET v == Norm(use, env, {}, {}, Fuel)
                   IN  IF v = {} /\ AtomsOf(NF(use, env, Fuel)) \cap AllMN # {} THEN {"no-meaning"} ELSE v
Verdicts == IF Twice THEN {"fuel"} ELSE VerdictsIn(Env)
Cert(v) == v \ {"fuel", "no-meaning"}

CertNames == << "mac-circular", "mac-argc", "mac-improper" >>
ToSeq(S) == SelectSeq(CertNames, LAMBDA c : c \in S)

---------------------------------------------------------------------------
(* the definition graph                                                     *)
Refs(d) == AtomsOf(d.body) \cap EnvNames
RECURSIVE Reach(_, _)
Reach(S, n) == IF n = 0 THEN S ELSE Reach(S \cup UNION {Refs(Env[m]) : m \in S}, n - 1)
FromUse == Reach(AtomsOf(use) \cap EnvNames, 4)
GraphCycle == \E m \in FromUse : m \in Reach(Refs(Env[m]), 4)
FirstOrder == \A m \in EnvNames : LET d == Env[m]
                                  IN  /\ d.body.hd \notin PNames
                                      /\ Rng(d.ps) \subseteq AtomsOf(d.body)
GraphLawOn(v) == (FirstOrder /\ ~Twice /\ v \cap {"fuel", "mac-argc", "mac-improper"} = {})
                    => (("mac-circular" \in v) <=> GraphCycle)
\* a certificate is never issued for a use that mentions no visible macro at all
NeedsMacroOn(v) == Cert(v) # {} => AtomsOf(use) \cap EnvNames # {}

\* Feature (implementation-shaped, for the keys of findings only): some macro function applies one of its parameters
\* (f(x) ==> x(x)).  An expansion that goes on for ever through such applications never has the body of an identifier
\* macro "active", which is all that the compiler's circularity check looks at.
RECURSIVE AppliesParam(_, _)
AppliesParam(t, ps) == \/ (t.hd \in Rng(ps) /\ t.ar # << >>)
                       \/ \E j \in 1..Len(t.ar) : \E q \in 1..Len(t.ar[j]) : AppliesParam(t.ar[j][q], ps)
ParamApplied == \E i \in 1..N : AppliesParam(Defs[i].body, Defs[i].ps)

\* one evaluation of the verdicts per selected program: the export and the two laws
Exported ==
  Selected =>
     LET v == Verdicts
     IN  /\ Export => PrintT("MAC " \o ToJson([defs |-> Defs, use |-> use, scope |-> Scope, vis |-> Vis,
                                                blk |-> IF Block THEN 1 ELSE 0,
                                                c |-> ToSeq(Cert(v)),
                                                t |-> IF "no-meaning" \in v THEN << "no-meaning" >> ELSE << >>,
                                                u |-> IF "fuel" \in v THEN 1 ELSE 0,
                                                g |-> IF GraphCycle THEN 1 ELSE 0, h |-> H1,
                                                f |-> IF ParamApplied THEN << "param-applied" >> ELSE << >>]))
         /\ Assert(GraphLawOn(v), << "GraphLaw", ds, use, rot, vm >>)
         /\ Assert(NeedsMacroOn(v), << "CertNeedsMacro", ds, use, rot, vm >>)
=============================================================================
