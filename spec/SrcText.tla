------------------------------ MODULE SrcText -------------------------------
(***************************************************************************)
(* C07 "The compiler is total on arbitrary source text and reports          *)
(* honestly": source texts as byte sequences, and what the specification    *)
(* can CERTIFY about them.                                                  *)
(*                                                                          *)
(* A byte is 0..255.  Chr maps it to the character vocabulary of Scan.tla   *)
(* (one-character strings for printable ASCII, tab and newline; a name      *)
(* "xHH" that belongs to no character set of Scan for every other byte --   *)
(* Scan then treats it exactly as scan.c treats a byte for which isalpha,   *)
(* isdigit, isprint are false: scanError outside strings, comments and      *)
(* escapes, ordinary content inside them).                                  *)
(*                                                                          *)
(* Certificates of invalidity (a text that has one is not a valid program,  *)
(* so the compiler must print at least one error):                          *)
(*   "errtok"      Scan maps the text to a token list with an error token   *)
(*                 (bad character, unterminated string, malformed number)   *)
(*   "unbalanced"  Linear!CheckBalance counts an error ({ } #pile #endpile) *)
(*   "brackets"    for one of the six bracket pairs of token.c the number   *)
(*                 of opener tokens differs from the number of closers      *)
(* No certificate = the specification does not decide validity (there is no *)
(* TLA+ grammar of Aldor); such inputs are judged for totality and honesty  *)
(* of the exit status only.                                                 *)
(*                                                                          *)
(* CertAsRead is the same judgement on the text as include.c/scan.c read it *)
(* when it contains NUL bytes (lines are C strings: a NUL cuts the line,    *)
(* its newline included, and a line that is empty after its indentation     *)
(* ends the scan).  It is implementation-shaped and never decides anything: *)
(* it is exported so that a missing diagnostic can be keyed to this cause.  *)
(***************************************************************************)
EXTENDS Scan, Linear, FiniteSets, TLC

Printable == << " ", "!", "\"", "#", "$", "%", "&", "'", "(", ")", "*", "+", ",", "-", ".", "/",
                "0", "1", "2", "3", "4", "5", "6", "7", "8", "9", ":", ";", "<", "=", ">", "?", "@",
                "A", "B", "C", "D", "E", "F", "G", "H", "I", "J", "K", "L", "M", "N", "O", "P", "Q", "R", "S", "T",
                "U", "V", "W", "X", "Y", "Z", "[", "\\", "]", "^", "_", "`",
                "a", "b", "c", "d", "e", "f", "g", "h", "i", "j", "k", "l", "m", "n", "o", "p", "q", "r", "s", "t",
                "u", "v", "w", "x", "y", "z", "{", "|", "}", "~" >>
HexD == << "0", "1", "2", "3", "4", "5", "6", "7", "8", "9", "A", "B", "C", "D", "E", "F" >>

Chr(b) == IF b >= 32 /\ b <= 126 THEN Printable[b - 31]
          ELSE IF b = 9 THEN "\t" ELSE IF b = 10 THEN "\n"
          ELSE "x" \o HexD[(b \div 16) + 1] \o HexD[(b % 16) + 1]
ChrTable == [b \in 0..255 |-> Chr(b)]
Chars(bytes) == [i \in 1..Len(bytes) |-> ChrTable[bytes[i]]]

NUL == ChrTable[0]
\* isspace() is true for these, Scan!Space does not have them: the only place where scan.c asks isspace of a
\* source character is after an escape (scAdvance1), so a text is read faithfully by Scan unless it has `_` + one of them
OddSpace == {ChrTable[11], ChrTable[12], ChrTable[13]}
\* scanSysCommand advances with escape processing (an escaped line end continues the command on the next line),
\* Scan!ScanSysCommand takes the rest of the line literally: a `#` line with an escape character is outside the
\* part of scan.c that Scan transcribes
EscInSysLine(text) ==
  \E i \in 1..Len(text) : /\ text[i] = "#" /\ (i = 1 \/ text[i - 1] = "\n")
                          /\ \E j \in i..Len(text) : text[j] = "_" /\ \A k \in i..j : text[k] # "\n"
\* #if / #elseif / #else / #endif make the includer drop lines; Scan does not transcribe that (module Directives
\* does, for the directive soups): a text with such a line gets no certificate from the scanner model
IfWords == << <<"i", "f">>, <<"e", "l", "s", "e">>, <<"e", "n", "d", "i", "f">> >>
StartsWith(s, w) == Len(s) >= Len(w) /\ SubSeq(s, 1, Len(w)) = w
RECURSIVE SkipBlanks(_)
SkipBlanks(s) == IF Len(s) > 0 /\ s[1] \in {" ", "\t"} THEN SkipBlanks(Tail(s)) ELSE s
HasConditional(text) ==
  LET rl == RawLines(text)
  IN  \E i \in 1..Len(rl) : /\ rl[i][1] = "#"
                             /\ LET rest == SkipBlanks(Tail(rl[i]))
                                IN  \E k \in 1..Len(IfWords) : StartsWith(rest, IfWords[k])
Faithful(text) == /\ \A i \in 1..(Len(text) - 1) : ~(text[i] = "_" /\ text[i + 1] \in OddSpace)
                  /\ ~EscInSysLine(text)
                  /\ ~HasConditional(text)

---------------------------------------------------------------------------
(* the text as the includer hands it to the scanner when there are NULs     *)
CutAtNul(ln) == LET S == {i \in 1..Len(ln) : ln[i] = NUL}
                IN  IF S = {} THEN ln ELSE SubSeq(ln, 1, (CHOOSE i \in S : \A j \in S : i <= j) - 1)

SrcLineCut(ln) ==      \* Scan!SrcLine on a line that may be empty
  IF ln = <<>> THEN [sys |-> FALSE, ind |-> 0, txt |-> <<>>] ELSE SrcLine(ln)

IncludeAsRead(text) ==
  LET rl == RawLines(text)
      sl == [i \in 1..Len(rl) |-> SrcLineCut(CutAtNul(rl[i]))]
      E  == {i \in 1..Len(sl) : sl[i].txt = <<>>}
      n  == IF E = {} THEN Len(sl) ELSE (CHOOSE i \in E : \A j \in E : i <= j) - 1
  IN  SubSeq(sl, 1, n)

---------------------------------------------------------------------------
(* the certificates                                                         *)
BracketPairs == << <<"(", ")">>, <<"[", "]">>, <<"{", "}">>, <<"(|", "|)">>, <<"[|", "|]">>, <<"{|", "|}">> >>
CountKw(tl, s) == Cardinality({i \in 1..Len(tl) : IsKw(tl[i], s)})
BracketSet == {BracketPairs[j][1] : j \in 1..Len(BracketPairs)} \cup {BracketPairs[j][2] : j \in 1..Len(BracketPairs)}
BracketCounts(tl) ==      \* one pass: spelling -> number of keyword tokens with that spelling
  FoldLeft(LAMBDA acc, tok : IF tok.k = "kw" /\ tok.t \in BracketSet THEN [acc EXCEPT ![tok.t] = @ + 1] ELSE acc,
           [b \in BracketSet |-> 0], tl)
BadBrackets(tl) == LET n == BracketCounts(tl)
                   IN  \E j \in 1..Len(BracketPairs) : n[BracketPairs[j][1]] # n[BracketPairs[j][2]]
HasErrTok(tl)   == \E i \in 1..Len(tl) : tl[i].k = "err"
Unbalanced(tl)  == CheckBalance(XBlankLines(XComments(SysCmd(tl)))).err > 0

CertOfTokens(tl) == (IF HasErrTok(tl) THEN {"errtok"} ELSE {})
                    \cup (IF Unbalanced(tl) THEN {"unbalanced"} ELSE {})
                    \cup (IF BadBrackets(tl) THEN {"brackets"} ELSE {})

TokensOf(text)       == Scan(Include(text))           \* system-command tokens still present
TokensAsRead(text)   == Scan(IncludeAsRead(text))
Cert(text)       == IF Faithful(text) THEN CertOfTokens(TokensOf(text)) ELSE {}
CertAsRead(text) == IF Faithful(text) THEN CertOfTokens(TokensAsRead(text)) ELSE {}

SetToSeq3(S) == SelectSeq(<<"errtok", "unbalanced", "brackets">>, LAMBDA x : x \in S)

---------------------------------------------------------------------------
(* Features of the text as read -- implementation-shaped, exported only so   *)
(* that a finding on the unchanged tree can be keyed to the input shape that *)
(* triggers it; they decide nothing.                                         *)
(*   lone-hash-eof  the last line the scanner gets is exactly `#` without a  *)
(*                  newline                                                  *)
(*   esc-high       an escape character directly followed by a byte >= 0x80  *)
(*                  in the character stream the scanner reads                *)
(*   nul            the text has a NUL byte                                  *)
(*   quit           a system-command line that begins with #quit             *)
HighChars == {ChrTable[b] : b \in 128..255}
Features(text) ==
  LET sl == IncludeAsRead(text)
  IN  (IF Len(sl) > 0 /\ sl[Len(sl)].sys /\ sl[Len(sl)].txt = <<"#">> THEN {"lone-hash-eof"} ELSE {})
      \cup (LET ch == Flat(sl).ch       \* the characters the scanner walks over (a NUL-cut line runs into the next one)
            IN  IF \E i \in 1..(Len(ch) - 1) : ch[i] = "_" /\ ch[i + 1] \in HighChars THEN {"esc-high"} ELSE {})
      \cup (IF \E i \in 1..Len(text) : text[i] = NUL THEN {"nul"} ELSE {})
      \cup (IF \E i \in 1..Len(sl) : sl[i].sys /\ Len(sl[i].txt) >= 5 /\ SubSeq(sl[i].txt, 1, 5) = <<"#", "q", "u", "i", "t">>
            THEN {"quit"} ELSE {})
FeatSeq(S) == SelectSeq(<<"lone-hash-eof", "esc-high", "nul", "quit">>, LAMBDA x : x \in S)

\* what is exported for one text
Judge(bytes) == LET text == Chars(bytes)
                IN  [b |-> bytes, c |-> SetToSeq3(Cert(text)), r |-> SetToSeq3(CertAsRead(text)),
                     f |-> FeatSeq(Features(text))]
=============================================================================
