SPECIFICATION TraceSpec
CONSTANTS
  A = 10
  Depth = 0
  Mode = "F"
POSTCONDITION TraceAccepted
CHECK_DEADLOCK FALSE
