SPECIFICATION TraceSpec
CONSTANTS
  A = 10
  Depth = 0
  Mode = "F"
  Fixed = FALSE
POSTCONDITION TraceAccepted
CHECK_DEADLOCK FALSE
