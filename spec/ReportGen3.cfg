\* C15 report layouts for the replay (thorough): 3 files, 6 lines after the 3-line prelude
CONSTANTS
  CNO = 2
  LNO = 5
  Packer = "required"
  Policy = "required"
  EofPolicy = "required"
  HeadPolicy = "required"
  Grouping = "gline"
  SrcLen = 3
  ColSeq <- ColSeqTwo
  MaxSel = 2
  Pre = 3
  FileNames = {"ra.as", "rb.as", "rc.as"}
  TopFile = "ra.as"
  LineNames = {"rb.as"}
  LineNums = {2}
  Cols = {1}
  RunLens = {1, 2}
  MaxLines = 9
  MaxIf = 1
  MaxItems = 9
  Feat = {"line"}
  AvoidEofIf = TRUE
  AvoidCollide = FALSE
INIT GInit
NEXT GNext
CHECK_DEADLOCK FALSE
INVARIANT TypeOK
INVARIANT PosFaithful
INVARIANT PreludeOk
INVARIANT Export
