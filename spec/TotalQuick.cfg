\* C07 class (a), quick tier: all class strings of length <= 4, variant 1 (30 941 texts), exported with their certificates.
\* checks/c07.py runs it in shards (ShardLen/NShards/ShardNo rewritten per process); as it stands it is the whole enumeration.
SPECIFICATION Spec
CONSTANTS
  MaxLen = 4
  ShardLen = 0
  NShards = 1
  ShardNo = 0
  Variants = {1}
  Export = TRUE
INVARIANTS Exported NulOnly CertStable BalanceLaw
CHECK_DEADLOCK FALSE
