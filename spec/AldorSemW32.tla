---------------------------- MODULE AldorSemW32 ----------------------------
(***************************************************************************)
(* AldorSem with a 32-bit machine integer.  The Java back end represents   *)
(* the FOAM type SInt by the Java type int (foamj/Foam.java, genjava.c),   *)
(* the interpreter and the C back end by a 64-bit word: the width of the   *)
(* machine integer is a parameter of the platform, not of the language.    *)
(* The configuration AldorSemW32.cfg replaces WrapSI of AldorSem by        *)
(* WrapSI32 (TLC definition override); nothing else changes.  C12 evaluates*)
(* every program under both widths and replays only programs whose         *)
(* behaviour is the same under both: for those the language assigns one    *)
(* result whatever the word size, and the Java route must produce it.      *)
(***************************************************************************)
EXTENDS AldorSem

Two31 == Pow2Z(31)
Two32 == Pow2Z(32)
WrapSI32(z) == LET m == ModPow2(z, 32) IN IF Cmp(m, Two31) >= 0 THEN Sub(m, Two32) ELSE m
=============================================================================
