SPECIFICATION Spec
CONSTANTS
  EB = 8
  FB = 23
  XEB = 15
  XFB = 32
  FracMode = "lite"
  Origins = {"native"}
  MaxTrips = 1
INVARIANTS
  TypeOK
  Survives
  SurvivesBitExact
  PartsIdentity
  PartsMeaning
  FileForm
  FileDenotes
  LoadSane
CHECK_DEADLOCK FALSE
