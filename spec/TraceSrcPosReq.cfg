\* C15 trace evaluation at the real widths, design = required
CONSTANTS
  CNO = 14
  LNO = 48
  Packer = "required"
  Policy = "required"
  EofPolicy = "required"
  HeadPolicy = "required"
  Grouping = "gline"
  SrcLen = 0
  ColSeq <- ColSeqTwo
  MaxSel = 0
  FileNames = {}
  TopFile = ""
  LineNames = {}
  LineNums = {}
  Cols = {}
  RunLens = {}
  MaxLines = 0
  MaxIf = 0
  MaxItems = 0
  Feat = {}
  AvoidEofIf = FALSE
  AvoidCollide = FALSE
INIT TInit
NEXT TNext
CHECK_DEADLOCK FALSE
INVARIANT NotDone
INVARIANT PosFaithful
