\* C15 trace evaluation at the real widths, design = required
CONSTANTS
  CNO = 14
  LNO = 48
  Packer = "required"
  Policy = "required"
  EofPolicy = "required"
  FileNames = {}
  TopFile = ""
  LineNames = {}
  LineNums = {}
  Cols = {}
  RunLens = {}
  MaxLines = 0
  MaxIf = 0
  MaxItems = 0
  Feat = {}
  AvoidEofIf = FALSE
  AvoidCollide = FALSE
INIT TInit
NEXT TNext
CHECK_DEADLOCK FALSE
INVARIANT NotDone
INVARIANT PosFaithful
