--------------------------- MODULE SIntReduceEval ---------------------------
(***************************************************************************)
(* Evaluation service of SIntReduce.tla for the C05 binding.  The file      *)
(* named by the environment variable ITEMS holds one JSON object per line:  *)
(*   {"id":n,"k":"expr","t":tree}     an expression found in a file that a  *)
(*        saved form produced; tree = {"o":"lit","v":int} | {"o":"shl","a":t,*)
(*        "k":int} | {"o":"or","a":t,"b":t} | {"o":"neg","a":t}              *)
(*   {"id":n,"k":"const","neg":b,"ds":[decimal digits]}   a machine integer *)
(*        constant of the directly generated FOAM                           *)
(* For an expr TLC prints its value (Eval in 64-bit arithmetic) as decimal  *)
(* digits; for a const it prints Reduce(c) (the expression the transcribed  *)
(* algorithm produces) and whether Eval(Reduce(c)) = c.                     *)
(***************************************************************************)
EXTENDS SIntReduce, Json, IOUtils

Items == ndJsonDeserialize(IOEnv.ITEMS)

RECURSIVE InTree(_)
InTree(j) == CASE j.o = "lit" -> Lit(FromInt(j.v))
               [] j.o = "shl" -> ShlE(InTree(j.a), j.k)
               [] j.o = "or"  -> OrE(InTree(j.a), InTree(j.b))
               [] j.o = "neg" -> NegE(InTree(j.a))
RECURSIVE OutTree(_)
OutTree(t) == CASE t.o = "lit" -> [o |-> "lit", v |-> ToInt(t.v)]
                [] t.o = "shl" -> [o |-> "shl", a |-> OutTree(t.a), k |-> t.k]
                [] t.o = "or"  -> [o |-> "or", a |-> OutTree(t.a), b |-> OutTree(t.b)]
                [] t.o = "neg" -> [o |-> "neg", a |-> OutTree(t.a)]

Dec(z) == [neg |-> z.neg, ds |-> MToDigits(z.mag, 10)]

Answer(it) ==
  IF it.k = "expr"
  THEN LET v == Eval(InTree(it.t)) IN [id |-> it.id, k |-> "expr", val |-> Dec(v), ins |-> InS(v, W)]
  ELSE LET z == Z(it.neg, MFromDigits(it.ds, 10))
       IN IF ~InS(z, W) THEN [id |-> it.id, k |-> "const", ok |-> FALSE, why |-> "not a machine integer"]
          ELSE [id |-> it.id, k |-> "const", ok |-> Correct(z) /\ Portable(z), wide |-> ~FitsStored(z),
                red |-> IF FitsStored(z) THEN [o |-> "lit", v |-> 0] ELSE OutTree(Reduce(z))]

VARIABLE i
EInit == i = 1 /\ c = Zero                 \* c (the variable of the checked statement) is not used here
ENext == /\ i <= Len(Items) /\ PrintT("ANS " \o ToJson(Answer(Items[i]))) /\ i' = i + 1 /\ UNCHANGED c
ESpec == EInit /\ [][ENext]_<<i, c>>
=============================================================================
