\* C07 macro programs, quick tier: 1 definition at level 3 (all), 2 definitions at level 2 and 3 at level 1 (strided by checks/c07.py)
SPECIFICATION Spec
CONSTANTS
  L1 = 3
  L2 = 0
  L3 = 0
  L4 = 0
  DStride = 1
  Stride = 1
  Seed = 0
  NShards = 1
  ShardNo = 0
  Rots = {0}
  VisModes = {"all", "hide"}
  Fuel = 10
  Export = TRUE
INVARIANTS Exported
CHECK_DEADLOCK FALSE
