---------------------------- MODULE TraceBigInt ----------------------------
(***************************************************************************)
(* C11 "Big-integer arithmetic is exact": validation of a trace of         *)
(* big-integer operations recorded from the repository's bigint.c and      *)
(* foam_i.c (harness/bigint_drv.c) against the mathematical integers of    *)
(* BigZ.tla.                                                               *)
(*                                                                         *)
(* Every event is one operation: operands and results as sign + little     *)
(* endian digits in radix 2^11, read from the raw representation.  Each    *)
(* action below is one public operation; it computes a verdict:            *)
(*   "ok"        the logged result is the exact one,                       *)
(*   otherwise   a short reason, appended to `fails`.                      *)
(* + - * neg abs cmp shift bit length, conversions, powers: recomputed     *)
(*   directly with BigZ.                                                   *)
(* divide/quo/rem/mod/gcd/powermod: CERTIFIED.  The identities             *)
(*     a = q*b + r,  |r| < |b|,  r = 0 or sign r = sign a                  *)
(*     a = g*x, b = g*y, u*x + v*y = 1, g >= 0                             *)
(*   determine q, r, g uniquely, so a logged value that satisfies them IS  *)
(*   the exact result.  Fields whose names start with "h" are hints        *)
(*   (cofactors); when a hint does not verify, TLC falls back to its own   *)
(*   binary long division, so a wrong hint can never cause a verdict.      *)
(* The property is  Exact == nf = 0  at the end of the trace; the    *)
(* list is printed (not used as an invariant) so that all failing events   *)
(* of a chunk are reported and matched against known_findings.jsonl.       *)
(***************************************************************************)
EXTENDS BigZ, Json, IOUtils, TLC

Trc == ndJsonDeserialize(IOEnv.TRACE)

VARIABLES l, fails, nf
vars == <<l, fails, nf>>

(* at most MaxPerClass failing events are listed per (operation, reason); all are counted in nf *)
MaxPerClass == 40

---------------------------------------------------------------------------
(* decoding                                                                 *)
ZOf(j) == [neg |-> j.n, mag |-> j.d]
WfZ(j) == IsZ(ZOf(j))
(* a result must also be a sane representation: every place below the      *)
(* radix, no negative zero, and the library's own comparison must find it   *)
(* equal to a fresh copy of the same value (comparison is exact on it)      *)
RepOk(j) == j.bad = 0 /\ ~j.nz /\ j.e

FirstFail(cs) == LET bad == SelectSeq(cs, LAMBDA c : ~c[1])
                 IN IF bad = <<>> THEN "ok" ELSE bad[1][2]

Two63 == Pow2Z(63)
FitsSInt(z) == IF z.neg THEN Le(Abs(z), Two63) ELSE Lt(z, Two63)     \* -2^63 <= z <= 2^63 - 1
Len0(z) == IF IsZero(z) THEN 1 ELSE BitLen(z)      \* bigint.c: "Define the bit length of zero to be one bit."
NatOf(z) == MToNat(z.mag)                           \* only for z < 2^31

---------------------------------------------------------------------------
(* certificates (DESIGN.md Appendix A)                                      *)
DivOk(a, b, q, r) == /\ Eq(a, Add(Mul(q, b), r))
                     /\ Lt(Abs(r), Abs(b))
                     /\ (IsZero(r) \/ r.neg = a.neg)           \* remainder has the dividend's sign
                     /\ (IsZero(q) \/ q.neg = (a.neg # b.neg))  \* hence truncation toward zero
GcdOk(a, b, g, x, y, u, v) == /\ ~g.neg /\ Eq(a, Mul(g, x)) /\ Eq(b, Mul(g, y))
                              /\ Eq(Add(Mul(u, x), Mul(v, y)), One)

(* truncated remainder with a quotient hint *)
IsRem(a, b, r, hq) == IF DivOk(a, b, hq, r) THEN TRUE ELSE Eq(r, QuoRem(a, b).r)
(* non-negative residue with a quotient hint *)
IsModPos(a, b, m, hq) == IF Eq(a, Add(Mul(hq, b), m)) /\ ~m.neg /\ Lt(m, Abs(b)) THEN TRUE
                         ELSE Eq(m, ModPos(a, b))
(* t mod c (c > 0) given the quotient hint q *)
ModH(t, c, q) == LET m == Sub(t, Mul(q, c))
                 IN IF ~m.neg /\ Lt(m, c) THEN m ELSE ModPos(t, c)

(* x^e mod |c|, square-and-multiply over the bits of e, every reduction     *)
(* through ModH; hs = <<h0, p_0, s_0, p_1, s_1, ...>>                         *)
PowModH(x, e, c, hs) ==
  LET C == Abs(c)
      H(i) == IF i <= Len(hs) THEN ZOf(hs[i]) ELSE Zero
  IN FoldLeft(LAMBDA acc, i : <<IF MBit(e.mag, i) = 1 THEN ModH(Mul(acc[1], acc[2]), C, H(2 * i + 2)) ELSE acc[1],
                                ModH(Mul(acc[2], acc[2]), C, H(2 * i + 3))>>,
              <<ModH(One, C, Zero), ModH(x, C, H(1))>>, [i \in 1..BitLen(e) |-> i - 1])[1]

---------------------------------------------------------------------------
(* text                                                                     *)
IsDigit(c) == c >= 48 /\ c <= 57
IsUpper(c) == c >= 65 /\ c <= 90
DigVal(c) == IF c <= 57 THEN c - 48 ELSE c - 55
SmallDec(cs) == FoldLeft(LAMBDA acc, c : acc * 10 + (c - 48), 0, cs)
FirstIx(s, Test(_)) == LET hit == SelectSeq([i \in 1..Len(s) |-> i], LAMBDA i : Test(s[i]))
                       IN IF hit = <<>> THEN 0 ELSE hit[1]

(* decimal text produced by bintToString: ["-"] digits, canonical           *)
ToStringOk(a, s) ==
  LET body == IF a.neg THEN Tail(s) ELSE s
  IN /\ Len(s) > 0
     /\ (a.neg => s[1] = 45)
     /\ Len(body) > 0
     /\ \A i \in 1..Len(body) : IsDigit(body[i])
     /\ (Len(body) > 1 => body[1] # 48)
     /\ MFromDigitsFast([i \in 1..Len(body) |-> body[i] - 48], 10) = a.mag

(* Aldor integer text as accepted by bintFrString: [+-] [RR "r"] WW         *)
(* record [ok, z]                                                           *)
ParseAldor(s) ==
  LET sg   == Len(s) > 0 /\ s[1] \in {43, 45}
      neg  == sg /\ s[1] = 45
      body == IF sg THEN Tail(s) ELSE s
      rp   == FirstIx(body, LAMBDA c : c = 114)
      radix == IF rp = 0 THEN 10 ELSE SmallDec(SubSeq(body, 1, rp - 1))
      ws   == IF rp = 0 THEN body ELSE SubSeq(body, rp + 1, Len(body))
      ok   == /\ Len(ws) > 0
              /\ (rp # 0 => rp > 1 /\ rp <= 3 /\ \A i \in 1..(rp - 1) : IsDigit(body[i]))
              /\ radix >= 2 /\ radix <= 36
              /\ \A i \in 1..Len(ws) : (IsDigit(ws[i]) \/ IsUpper(ws[i])) /\ DigVal(ws[i]) < radix
  IN [ok |-> ok,
      z  |-> IF ok THEN Z(neg, MFromDigitsFast([i \in 1..Len(ws) |-> DigVal(ws[i])], radix)) ELSE Zero]

(* decimal prefix as read by bintScanFrString: ["-"] digits, then anything; *)
(* record [z, end] with end the 0-based offset of the first unread char     *)
ScanDec(s) ==
  LET neg  == Len(s) > 0 /\ s[1] = 45
      off  == IF neg THEN 1 ELSE 0
      body == IF neg THEN Tail(s) ELSE s
      nx   == FirstIx(body, LAMBDA c : ~IsDigit(c))
      nd   == IF nx = 0 THEN Len(body) ELSE nx - 1
  IN [z |-> Z(neg, MFromDigitsFast([i \in 1..nd |-> body[i] - 48], 10)), end |-> off + nd]

---------------------------------------------------------------------------
(* verdicts, one per operation                                              *)

VArith(e, F(_, _)) ==
  LET a == ZOf(e.a)  b == ZOf(e.b)  r == ZOf(e.r)
  IN FirstFail(<< <<WfZ(e.a) /\ WfZ(e.b), "malformed operand">>,
                  <<WfZ(e.r) /\ e.r.bad = 0, "result is not a valid digit vector">>,
                  <<Eq(r, F(a, b)), "wrong value">>,
                  <<RepOk(e.r), "result does not compare equal to its own value">>,
                  <<e.ua, "operand modified">> >>)

VTimesPlus(e) ==
  LET a == ZOf(e.a)  b == ZOf(e.b)  c == ZOf(e.c)  r == ZOf(e.r)
  IN FirstFail(<< <<WfZ(e.a) /\ WfZ(e.b) /\ WfZ(e.c), "malformed operand">>,
                  <<WfZ(e.r) /\ e.r.bad = 0, "result is not a valid digit vector">>,
                  <<Eq(r, Add(Mul(a, b), c)), "wrong value">>,
                  <<RepOk(e.r), "result does not compare equal to its own value">>,
                  <<e.ua, "operand modified">> >>)

VUnary(e, F(_)) ==
  LET a == ZOf(e.a)  r == ZOf(e.r)
  IN FirstFail(<< <<WfZ(e.a), "malformed operand">>,
                  <<WfZ(e.r) /\ e.r.bad = 0, "result is not a valid digit vector">>,
                  <<Eq(r, F(a)), "wrong value">>,
                  <<RepOk(e.r), "result does not compare equal to its own value">>,
                  <<e.ua, "operand modified">> >>)

VCmp(e) ==
  LET a == ZOf(e.a)  b == ZOf(e.b)  c == Cmp(a, b)
  IN FirstFail(<< <<WfZ(e.a) /\ WfZ(e.b), "malformed operand">>,
                  <<e.lt = (c < 0), "LT wrong">>, <<e.gt = (c > 0), "GT wrong">>, <<e.eq = (c = 0), "EQ wrong">>,
                  <<e.le = (c <= 0), "LE wrong">>, <<e.ne = (c # 0), "NE wrong">>,
                  <<e.an = a.neg, "IsNeg wrong">>, <<e.az = IsZero(a), "IsZero wrong">>, <<e.ap = (Sign(a) = 1), "IsPos wrong">>,
                  <<e.ua, "operand modified">> >>)

VDivide(e) ==
  LET a == ZOf(e.a)  b == ZOf(e.b)  q == ZOf(e.q)  r == ZOf(e.r)
  IN FirstFail(<< <<WfZ(e.a) /\ WfZ(e.b) /\ ~IsZero(b), "malformed operand">>,
                  <<WfZ(e.q) /\ e.q.bad = 0 /\ WfZ(e.r) /\ e.r.bad = 0, "result is not a valid digit vector">>,
                  <<Eq(a, Add(Mul(q, b), r)), "a # q*b + r">>,
                  <<Lt(Abs(r), Abs(b)), "|r| >= |b|">>,
                  <<IsZero(r) \/ r.neg = a.neg, "remainder does not have the sign of the dividend">>,
                  <<IsZero(q) \/ q.neg = (a.neg # b.neg), "quotient not truncated toward zero">>,
                  <<RepOk(e.q) /\ RepOk(e.r), "result does not compare equal to its own value">>,
                  <<e.ua, "operand modified">> >>)

VQuo(e) ==
  LET a == ZOf(e.a)  b == ZOf(e.b)  q == ZOf(e.q)  r == Sub(a, Mul(q, b))
  IN FirstFail(<< <<WfZ(e.a) /\ WfZ(e.b) /\ ~IsZero(b), "malformed operand">>,
                  <<WfZ(e.q) /\ e.q.bad = 0, "result is not a valid digit vector">>,
                  <<DivOk(a, b, q, r), "wrong quotient">>,
                  <<RepOk(e.q), "result does not compare equal to its own value">>,
                  <<e.ua, "operand modified">> >>)

VRem(e) ==
  LET a == ZOf(e.a)  b == ZOf(e.b)  r == ZOf(e.r)
  IN FirstFail(<< <<WfZ(e.a) /\ WfZ(e.b) /\ ~IsZero(b), "malformed operand">>,
                  <<WfZ(e.r) /\ e.r.bad = 0, "result is not a valid digit vector">>,
                  <<IsRem(a, b, r, ZOf(e.hq)), "wrong remainder">>,
                  <<RepOk(e.r), "result does not compare equal to its own value">>,
                  <<e.ua, "operand modified">> >>)

(* modulus: for a positive modulus the residue in 0..b-1 (the value the Java *)
(* and GMP run-times of the same builtin return); for a negative modulus      *)
(* conventions differ, any residue class representative with |m| < |b| is     *)
(* accepted.                                                                  *)
VMod(e) ==
  LET a == ZOf(e.a)  b == ZOf(e.b)  m == ZOf(e.r)  hq == ZOf(e.hq)
      congr == Eq(a, Add(Mul(hq, b), m)) \/ IsZero(QuoRem(Sub(a, m), b).r)
  IN FirstFail(<< <<WfZ(e.a) /\ WfZ(e.b) /\ ~IsZero(b), "malformed operand">>,
                  <<WfZ(e.r) /\ e.r.bad = 0, "result is not a valid digit vector">>,
                  <<congr /\ Lt(Abs(m), Abs(b)), "wrong residue">>,
                  <<b.neg \/ ~m.neg, "negative result for a positive modulus (remainder with the dividend's sign)">>,
                  <<RepOk(e.r), "result does not compare equal to its own value">>,
                  <<e.ua, "operand modified">> >>)

VGcd(e) ==
  LET a == ZOf(e.a)  b == ZOf(e.b)  g == ZOf(e.g)
      small == BitLen(a) <= 300 /\ BitLen(b) <= 300
      cert == IF IsZero(a) /\ IsZero(b) THEN IsZero(g)
              ELSE GcdOk(a, b, g, ZOf(e.hx), ZOf(e.hy), ZOf(e.hu), ZOf(e.hv))
  IN FirstFail(<< <<WfZ(e.a) /\ WfZ(e.b), "malformed operand">>,
                  <<WfZ(e.g) /\ e.g.bad = 0, "result is not a valid digit vector">>,
                  <<cert \/ (small /\ Eq(g, Gcd(a, b))), IF small THEN "wrong gcd" ELSE "gcd certificate does not verify">>,
                  <<RepOk(e.g), "result does not compare equal to its own value">>,
                  <<e.ua, "operand modified">> >>)

VSIPower(e) ==
  LET a == ZOf(e.a)  r == ZOf(e.r)
  IN FirstFail(<< <<WfZ(e.a) /\ e.e >= 0, "malformed operand">>,
                  <<WfZ(e.r) /\ e.r.bad = 0, "result is not a valid digit vector">>,
                  <<Eq(r, PowNat(a, e.e)), "wrong value">>,
                  <<RepOk(e.r), "result does not compare equal to its own value">>,
                  <<e.ua, "operand modified">> >>)

VBIPower(e) ==
  LET a == ZOf(e.a)  x == ZOf(e.e)  r == ZOf(e.r)
  IN FirstFail(<< <<WfZ(e.a) /\ WfZ(e.e) /\ ~x.neg /\ Len(x.mag) <= 2, "malformed operand">>,
                  <<WfZ(e.r) /\ e.r.bad = 0, "result is not a valid digit vector">>,
                  <<Eq(r, PowNat(a, NatOf(x))), "wrong value">>,
                  <<RepOk(e.r), "result does not compare equal to its own value">>,
                  <<e.ua, "operand modified">> >>)

VPowerMod(e) ==
  LET a == ZOf(e.a)  x == ZOf(e.e)  c == ZOf(e.c)  r == ZOf(e.r)
      want == PowModH(a, x, c, e.h)
      wantRem == IF a.neg /\ MBit(x.mag, 0) = 1 /\ ~IsZero(want) THEN Sub(want, Abs(c)) ELSE want
  IN FirstFail(<< <<WfZ(e.a) /\ WfZ(e.e) /\ WfZ(e.c) /\ ~x.neg /\ ~IsZero(c), "malformed operand">>,
                  <<WfZ(e.r) /\ e.r.bad = 0, "result is not a valid digit vector">>,
                  <<Eq(r, want) \/ (c.neg /\ Eq(Abs(r), want)) \/ Eq(r, wantRem),
                    IF Eq(Abs(c), One) THEN "x^e mod 1 is not 0" ELSE "wrong value">>,
                  <<c.neg \/ Eq(r, want), "negative result for a positive modulus (remainder with the dividend's sign)">>,
                  <<RepOk(e.r), "result does not compare equal to its own value">>,
                  <<e.ua, "operand modified">> >>)

VLength(e) ==
  LET a == ZOf(e.a)
  IN FirstFail(<< <<WfZ(e.a), "malformed operand">>,
                  <<e.len = Len0(a), "wrong length">>, <<e.flen = Len0(a), "wrong length (fiBIntLength)">>,
                  <<e.single => FitsSInt(a), "IsSingle true for a value outside the machine integer range">>,
                  <<e.ua, "operand modified">> >>)

(* bit test: exact on non-negative values; for a negative value either the    *)
(* bit of |a| (what the comment in bigint.c describes) or the two's           *)
(* complement bit is accepted.                                                *)
VBit(e) ==
  LET a == ZOf(e.a)
      okb(v) == IF ~a.neg THEN v = (BitMag(a, e.ix) = 1)
                ELSE v = (BitMag(a, e.ix) = 1) \/ v = (BitTwos(a, e.ix) = 1)
  IN FirstFail(<< <<WfZ(e.a) /\ e.ix >= 0, "malformed operand">>,
                  <<okb(e.bit), "wrong bit">>, <<e.fbit = e.bit, "fiBIntBit differs from bintBit">>,
                  <<e.ua, "operand modified">> >>)

(* shift by k: a * 2^k; for k < 0 the quotient by 2^-k, exact on non-negative *)
(* values; for negative values truncation toward zero or floor is accepted.   *)
VShift(e) ==
  LET a == ZOf(e.a)  r == ZOf(e.r)  r2 == ZOf(e.r2)
      okv(v) == IF e.k >= 0 THEN Eq(v, Shl(a, e.k))
                ELSE Eq(v, ShrMag(a, -e.k)) \/ Eq(v, ShrFloor(a, -e.k))
  IN FirstFail(<< <<WfZ(e.a), "malformed operand">>,
                  <<WfZ(e.r) /\ e.r.bad = 0 /\ WfZ(e.r2) /\ e.r2.bad = 0, "result is not a valid digit vector">>,
                  <<okv(r), "wrong value">>, <<Eq(r2, r), "fiBIntShiftUp/Dn differs from bintShift">>,
                  <<RepOk(e.r) /\ RepOk(e.r2), "result does not compare equal to its own value">>,
                  <<e.ua, "operand modified">> >>)

(* low k bits (builtin BIntShiftRem): a mod 2^k on non-negative values; for    *)
(* a negative value the two's complement residue (Java, GMP) or the low bits   *)
(* of |a| are accepted.  The reason names the circumstances of a wrong value.  *)
VShiftRem(e) ==
  LET a == ZOf(e.a)  r == ZOf(e.r)
      good == IF ~a.neg THEN Eq(r, ModPow2(a, e.k))
              ELSE Eq(r, ModPow2(a, e.k)) \/ Eq(Abs(r), ModPow2(Abs(a), e.k))
      circ == IF e.a.i = 1 /\ e.k >= 32 THEN "immediate operand and count >= 32"
              ELSE IF e.k > Len0(a) THEN "count beyond the operand's length"
              ELSE IF e.a.i = 0 /\ e.k % e.rx = 0 THEN "stored operand and count a multiple of the digit width"
              ELSE "other"
  IN FirstFail(<< <<WfZ(e.a) /\ e.k >= 0, "malformed operand">>,
                  <<WfZ(e.r) /\ e.r.bad = 0, "result is not a valid digit vector">>,
                  <<good, "wrong low bits: " \o circ>>,
                  <<RepOk(e.r), "result does not compare equal to its own value">>,
                  <<e.ua, "operand modified">> >>)

VFrInt(e) ==
  LET v == ZOf(e.v)  r == ZOf(e.r)  r2 == ZOf(e.r2)
  IN FirstFail(<< <<WfZ(e.v), "malformed operand">>,
                  <<WfZ(e.r) /\ e.r.bad = 0 /\ WfZ(e.r2) /\ e.r2.bad = 0, "result is not a valid digit vector">>,
                  <<Eq(r, v), "wrong value">>, <<Eq(r2, v), "wrong value (fiSIntToBInt)">>,
                  <<RepOk(e.r) /\ RepOk(e.r2), "result does not compare equal to its own value">> >>)

VToInt(e) ==
  LET a == ZOf(e.a)  v == ZOf(e.v)
  IN FirstFail(<< <<WfZ(e.a) /\ WfZ(e.v) /\ WfZ(e.sv), "malformed operand">>,
                  <<FitsSInt(a) => Eq(v, a), "wrong machine integer">>,
                  <<e.small => Eq(ZOf(e.sv), a), "bintSmall wrong">>,
                  <<e.single => FitsSInt(a), "IsSingle true for a value outside the machine integer range">>,
                  <<e.ua, "operand modified">> >>)

VToString(e) ==
  LET a == ZOf(e.a)
  IN FirstFail(<< <<WfZ(e.a), "malformed operand">>,
                  <<ToStringOk(a, e.s), "wrong decimal text">>,
                  <<e.same2, "fiBIntToString differs from bintToString">>,
                  <<e.size >= Len(e.s) + 1, "bintStringSize smaller than the text">>,
                  <<e.ua, "operand modified">> >>)

VFrString(e) ==
  LET p == ParseAldor(e.s)  r == ZOf(e.r)  r2 == ZOf(e.r2)
  IN FirstFail(<< <<p.ok, "malformed operand">>,
                  <<WfZ(e.r) /\ e.r.bad = 0 /\ WfZ(e.r2) /\ e.r2.bad = 0, "result is not a valid digit vector">>,
                  <<Eq(r, p.z), "wrong value">>, <<Eq(r2, p.z), "wrong value (fiArrToBInt)">>,
                  <<RepOk(e.r) /\ RepOk(e.r2), "result does not compare equal to its own value">> >>)

VScan(e) ==
  LET p == ScanDec(e.s)  r == ZOf(e.r)
  IN FirstFail(<< <<WfZ(e.r) /\ e.r.bad = 0, "result is not a valid digit vector">>,
                  <<Eq(r, p.z), "wrong value">>, <<e.end = p.end, "wrong end position">>,
                  <<RepOk(e.r), "result does not compare equal to its own value">> >>)

VPlacev(e) ==
  LET a == ZOf(e.a)  r == ZOf(e.r)
      ds == [i \in 1..Len(e.p16) |-> e.p16[i][1] + 2048 * e.p16[i][2]]
  IN FirstFail(<< <<WfZ(e.a), "malformed operand">>,
                  <<WfZ(e.r) /\ e.r.bad = 0, "result is not a valid digit vector">>,
                  <<MFromRadixPow2(ds, 16) = a.mag, "16-bit places do not spell the value">>,
                  <<Eq(r, a), "value rebuilt from 16-bit places differs">>,
                  <<RepOk(e.r), "result does not compare equal to its own value">>,
                  <<e.ua, "operand modified">> >>)

---------------------------------------------------------------------------
(* the trace machine                                                        *)

Init == l = 1 /\ fails = <<>> /\ nf = 0

IsOp(n) == l <= Len(Trc) /\ Trc[l].ev = "Op" /\ Trc[l].op = n

Judge(v) ==
  /\ l' = l + 1
  /\ nf' = IF v = "ok" THEN nf ELSE nf + 1
  /\ fails' = IF v = "ok" THEN fails
              ELSE IF Len(SelectSeq(fails, LAMBDA f : f.op = Trc[l].op /\ f.why = v)) >= MaxPerClass THEN fails
              ELSE Append(fails, [ln |-> Trc[l].ln, op |-> Trc[l].op, rx |-> Trc[l].rx, why |-> v])

Plus      == IsOp("plus")      /\ Judge(VArith(Trc[l], Add))
Minus     == IsOp("minus")     /\ Judge(VArith(Trc[l], Sub))
Times     == IsOp("times")     /\ Judge(VArith(Trc[l], Mul))
TimesPlus == IsOp("timesplus") /\ Judge(VTimesPlus(Trc[l]))
Negate    == IsOp("neg")       /\ Judge(VUnary(Trc[l], Neg))
AbsVal    == IsOp("abs")       /\ Judge(VUnary(Trc[l], Abs))
Compare   == IsOp("cmp")       /\ Judge(VCmp(Trc[l]))
Divide    == IsOp("divide")    /\ Judge(VDivide(Trc[l]))
Quo       == IsOp("quo")       /\ Judge(VQuo(Trc[l]))
Rem       == IsOp("rem")       /\ Judge(VRem(Trc[l]))
Mod       == IsOp("mod")       /\ Judge(VMod(Trc[l]))
GcdOp     == IsOp("gcd")       /\ Judge(VGcd(Trc[l]))
SIPower   == IsOp("sipower")   /\ Judge(VSIPower(Trc[l]))
BIPower   == IsOp("bipower")   /\ Judge(VBIPower(Trc[l]))
PowerMod  == IsOp("powermod")  /\ Judge(VPowerMod(Trc[l]))
Length    == IsOp("length")    /\ Judge(VLength(Trc[l]))
Bit       == IsOp("bit")       /\ Judge(VBit(Trc[l]))
Shift     == IsOp("shift")     /\ Judge(VShift(Trc[l]))
ShiftRem  == IsOp("shiftrem")  /\ Judge(VShiftRem(Trc[l]))
FrInt     == IsOp("frint")     /\ Judge(VFrInt(Trc[l]))
ToInt     == IsOp("toint")     /\ Judge(VToInt(Trc[l]))
ToStr     == IsOp("tostring")  /\ Judge(VToString(Trc[l]))
FrString  == IsOp("frstring")  /\ Judge(VFrString(Trc[l]))
Scan      == IsOp("scan")      /\ Judge(VScan(Trc[l]))
Placev    == IsOp("placev")    /\ Judge(VPlacev(Trc[l]))

(* the process died or hung inside an operation: no operation has that      *)
(* behaviour                                                                *)
Fault == /\ l <= Len(Trc) /\ Trc[l].ev \in {"Fault", "Hang"}
         /\ Judge(IF Trc[l].ev = "Fault" THEN "fault (signal) inside the operation" ELSE "operation did not return")

Finish == /\ l = Len(Trc) + 1
          /\ PrintT(ToJson([n |-> Len(Trc), nfail |-> nf, fails |-> fails]))
          /\ l' = l + 1 /\ UNCHANGED <<fails, nf>>

Next == \/ Plus \/ Minus \/ Times \/ TimesPlus \/ Negate \/ AbsVal \/ Compare
        \/ Divide \/ Quo \/ Rem \/ Mod \/ GcdOp \/ SIPower \/ BIPower \/ PowerMod
        \/ Length \/ Bit \/ Shift \/ ShiftRem \/ FrInt \/ ToInt
        \/ ToStr \/ FrString \/ Scan \/ Placev \/ Fault \/ Finish

TraceSpec == Init /\ [][Next]_vars

(* every event was consumed: an event that no action matches (unknown       *)
(* operation, missing field) leaves the machine stuck before the end        *)
TraceAccepted == TLCGet("stats").diameter = Len(Trc) + 2

Exact == nf = 0
=============================================================================
