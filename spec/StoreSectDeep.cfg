\* Fresh sections of large requests at the constants of store.c on x86-64 (SectionHeadSize = 32, sizeof(QmInfo) = 1,
\* MixedSizeQuantum = 256, MxMemHeadSize = 32, PgSize = 4096, MixedSizePgGroup = 2, FixedSizeMax = 256).
SPECIFICATION Spec
CONSTANTS
  PgSize = 4096
  SectHead = 32
  InfoBytes = 1
  Q = 256
  MxHead = 32
  MixedPgGroup = 2
  FixedMax = 256
  KMax = 40
  Win = 3
INVARIANTS SizesOk ClassesSeen
CHECK_DEADLOCK FALSE
