------------------------------ MODULE AldorSem ------------------------------
(***************************************************************************)
(* The language definition (layer L1 of DESIGN.md) as a CEK-style abstract *)
(* machine.  One TLC behaviour = the run of one abstract program; the      *)
(* observable is `o` (the sequence of output atoms) and `status`.          *)
(*                                                                         *)
(* Programs are read from the ndjson file named by the environment         *)
(* variable PROGS (one program per line, produced by gen/progen.py or by   *)
(* SmallProgs.tla); the same abstract program is rendered to Aldor text by *)
(* gen/render.py and run through the real compiler, which never sees this  *)
(* module.  Integers are BigZ values, machine integers wrap at 64 bits.    *)
(*                                                                         *)
(* State:  c   control: [k |-> "ev", x |-> expr] evaluate x in env e       *)
(*                      [k |-> "val", v |-> value] return v to the stack   *)
(*                      [k |-> "brk"|"iter"|"ret"|"thr"|"yield", ...]      *)
(*                        non-local control, unwinding the stack           *)
(*         e   environment of c (name -> location)                         *)
(*         k   continuation, a sequence of frames, top = last element      *)
(*         s   store: sequence of cells (variables and heap objects)       *)
(*         g   global (file-level) environment                             *)
(*         o   output so far                                               *)
(*         status  "run" | "done" | "uncaught" | "halt" | "stuck"          *)
(***************************************************************************)
EXTENDS BigZ, TLC, Json, IOUtils, FiniteSets

Progs == ndJsonDeserialize(IOEnv.PROGS)

CONSTANTS Modes,    \* subset of {"any", "ltr", "rtl"}: how operand order is resolved (see StartArgs)
          Fuel      \* step bound: a run that needs more is abandoned with status "fuel" and never replayed

VARIABLES pid, mode, st
vars == <<pid, mode, st>>

P == Progs[pid]

---------------------------------------------------------------------------
(* values                                                                  *)
VSI(z)   == [t |-> "si", z |-> z]
VBI(z)   == [t |-> "bi", z |-> z]
VBool(b) == [t |-> "bool", b |-> b]
VStr(s)  == [t |-> "str", s |-> s]
VUnit    == [t |-> "unit"]
VNil     == [t |-> "nil"]
VRef(l)  == [t |-> "ref", l |-> l]

Two63 == Pow2Z(63)
Two64 == Pow2Z(64)
WrapSI(z) == LET m == ModPow2(z, 64) IN IF Cmp(m, Two63) >= 0 THEN Sub(m, Two64) ELSE m
InSI(z) == Cmp(z, Two63) < 0 /\ Cmp(z, Neg(Two63)) >= 0

LitZ(x) == Z(x.neg, MFromDigits(x.ds, 10))     \* decimal digits, most significant first

---------------------------------------------------------------------------
(* pure primitive operations of the library types (SingleInteger, Integer, *)
(* Boolean).  A result of "stuck" marks an application outside the domain  *)
(* (division by zero); generated programs never do that.                   *)
Stuck == [t |-> "stuck"]
TooBig == [t |-> "toobig"]

(* bitwise operations on 64-bit machine integers: digit by digit (radix 2^LgB) on the two's complement image, each digit  *)
(* through the Bitwise community module (evaluated natively by TLC)                                                       *)
BW == INSTANCE Bitwise
DigAt(m, i) == IF i <= Len(m) THEN m[i] ELSE 0
BitOp64(f(_, _), x, y) ==
  LET mx == ModPow2(x, 64).mag  my == ModPow2(y, 64).mag
      nd == (64 + LgB - 1) \div LgB
      raw == [i \in 1..nd |-> f(DigAt(mx, i), DigAt(my, i))]
  IN WrapSI(Z(FALSE, MNorm(raw)))
BAnd(p, q) == BW!&(p, q)
BOr(p, q)  == BW!|(p, q)
BXor(p, q) == BW!^^(p, q)
PrimApply(op, a) ==
  CASE op = "si.add" -> VSI(WrapSI(Add(a[1].z, a[2].z)))
    [] op = "si.sub" -> VSI(WrapSI(Sub(a[1].z, a[2].z)))
    [] op = "si.mul" -> VSI(WrapSI(Mul(a[1].z, a[2].z)))
    [] op = "si.neg" -> VSI(WrapSI(Neg(a[1].z)))
    [] op = "si.quo" -> IF IsZero(a[2].z) THEN Stuck ELSE VSI(WrapSI(QuoRem(a[1].z, a[2].z).q))
    [] op = "si.rem" -> IF IsZero(a[2].z) THEN Stuck ELSE VSI(QuoRem(a[1].z, a[2].z).r)
    [] op = "si.mod" -> IF IsZero(a[2].z) THEN Stuck ELSE VSI(ModPos(a[1].z, a[2].z))
    [] op = "si.lt"  -> VBool(Cmp(a[1].z, a[2].z) < 0)
    [] op = "si.le"  -> VBool(Cmp(a[1].z, a[2].z) <= 0)
    [] op = "si.gt"  -> VBool(Cmp(a[1].z, a[2].z) > 0)
    [] op = "si.ge"  -> VBool(Cmp(a[1].z, a[2].z) >= 0)
    [] op = "si.eq"  -> VBool(Eq(a[1].z, a[2].z))
    [] op = "si.ne"  -> VBool(~Eq(a[1].z, a[2].z))
    [] op = "si.odd"  -> VBool(MBit(a[1].z.mag, 0) = 1)          \* odd?(x): parity of the magnitude
    [] op = "si.even" -> VBool(MBit(a[1].z.mag, 0) = 0)
    [] op = "si.zero" -> VBool(IsZero(a[1].z))
    [] op = "bi.odd"  -> VBool(MBit(a[1].z.mag, 0) = 1)
    [] op = "bi.even" -> VBool(MBit(a[1].z.mag, 0) = 0)
    [] op = "bi.zero" -> VBool(IsZero(a[1].z))
    [] op = "si.and" -> VSI(BitOp64(BAnd, a[1].z, a[2].z))       \* /\, \/, xor on SingleInteger
    [] op = "si.or"  -> VSI(BitOp64(BOr, a[1].z, a[2].z))
    [] op = "si.xor" -> VSI(BitOp64(BXor, a[1].z, a[2].z))
    [] op = "si.tobi" -> VBI(a[1].z)
    [] op = "bi.add" -> VBI(Add(a[1].z, a[2].z))
    [] op = "bi.sub" -> VBI(Sub(a[1].z, a[2].z))
    \* BigZ keeps column sums below 2^31 only up to about 500 digits per operand: larger products leave the family
    [] op = "bi.mul" -> IF Len(a[1].z.mag) + Len(a[2].z.mag) > 400 THEN TooBig ELSE VBI(Mul(a[1].z, a[2].z))
    [] op = "bi.neg" -> VBI(Neg(a[1].z))
    [] op = "bi.quo" -> IF IsZero(a[2].z) THEN Stuck ELSE VBI(QuoRem(a[1].z, a[2].z).q)
    [] op = "bi.rem" -> IF IsZero(a[2].z) THEN Stuck ELSE VBI(QuoRem(a[1].z, a[2].z).r)
    [] op = "bi.mod" -> IF IsZero(a[2].z) THEN Stuck ELSE VBI(ModPos(a[1].z, a[2].z))
    [] op = "bi.lt"  -> VBool(Cmp(a[1].z, a[2].z) < 0)
    [] op = "bi.le"  -> VBool(Cmp(a[1].z, a[2].z) <= 0)
    [] op = "bi.gt"  -> VBool(Cmp(a[1].z, a[2].z) > 0)
    [] op = "bi.ge"  -> VBool(Cmp(a[1].z, a[2].z) >= 0)
    [] op = "bi.eq"  -> VBool(Eq(a[1].z, a[2].z))
    [] op = "bi.ne"  -> VBool(~Eq(a[1].z, a[2].z))
    [] op = "bi.pow" -> IF Len(a[1].z.mag) * MToNat(a[2].z.mag) > 400 THEN TooBig
                        ELSE VBI(PowNat(a[1].z, MToNat(a[2].z.mag)))     \* exponent: small non-negative SI
    \* strings: concat, # (length), = and ~=
    [] op = "str.cat" -> VStr(a[1].s \o a[2].s)
    [] op = "str.len" -> VSI(FromInt(Len(a[1].s)))
    [] op = "str.eq"  -> VBool(a[1].s = a[2].s)
    [] op = "str.ne"  -> VBool(a[1].s # a[2].s)
    [] op = "bool.not" -> VBool(~a[1].b)
    [] op = "bool.eq"  -> VBool(a[1].b = a[2].b)
    [] op = "bool.ne"  -> VBool(a[1].b # a[2].b)
    [] OTHER -> Stuck

(* the printed form: integers in decimal, strings as they are.  An output  *)
(* atom is a string, or a record [neg, ds] of decimal digits.              *)
ShowAtom(v) ==
  CASE v.t \in {"si", "bi"} -> [neg |-> v.z.neg, ds |-> MToDigits(v.z.mag, 10)]
    [] v.t = "str" -> v.s
    [] OTHER -> "<unprintable>"

---------------------------------------------------------------------------
(* machine plumbing                                                        *)
Ev(x)  == [k |-> "ev", x |-> x]
Val(v) == [k |-> "val", v |-> v]

Top(k) == k[Len(k)]
Pop(k) == SubSeq(k, 1, Len(k) - 1)
Push(k, f) == Append(k, f)

Bind(env, x, l) == (x :> l) @@ env
Alloc(s, cell) == Append(s, cell)          \* new location is Len(s) + 1

(* bind a list of names to fresh locations holding the given values        *)
BindAll(env, s, names, vals) ==
  LET n == Len(names)
  IN [env |-> [x \in DOMAIN env \cup {names[i] : i \in 1..n} |->
                 IF \E i \in 1..n : names[i] = x
                 THEN Len(s) + (CHOOSE i \in 1..n : names[i] = x /\ \A j \in (i + 1)..n : names[j] # x)
                 ELSE env[x]],
      s   |-> s \o vals]

Running == st.status = "run"
IsEv  == Running /\ st.c.k = "ev"
IsVal == Running /\ st.c.k = "val"
X == st.c.x
F == Top(st.k)
HasF == Len(st.k) > 0

\* every rule is: guard /\ Go(new state record); the step counter enforces the fuel bound
Tick(u) == IF st.n >= Fuel THEN [st EXCEPT !.status = "fuel"] ELSE [u EXCEPT !.n = st.n + 1]
Go(upd) == st' = Tick(upd)

---------------------------------------------------------------------------
(* application once all operands are values                                *)

(* Domains.  P.cats[c] = [name, ops: <<[name, ..]>>, defaults: <<[name, ps, body]>>];            *)
(* P.doms[d] = [name, cat, pcat (0 = not parametrised), ops: <<[name, ps, body]>>].           *)
(* A domain value is [t |-> "dom", i, arg]; an exported operation is looked up in the domain's *)
(* own definitions first and in the defaults of its category otherwise; its body runs with     *)
(* %self = the final domain (so a default that calls an export reaches the domain's own         *)
(* definition) and %T = the actual parameter.                                                  *)
RECURSIVE DomVal(_, _, _)
DomVal(dx, env, s) ==
  CASE dx.d = "base"  -> [t |-> "dom", i |-> dx.i, arg |-> VNil]
    [] dx.d = "app"   -> [t |-> "dom", i |-> dx.i, arg |-> DomVal(dx.arg, env, s)]
    [] dx.d = "self"  -> s[env["%self"]]
    [] dx.d = "param" -> s[env["%T"]]
FindByName(seq, name) == LET m == {i \in 1..Len(seq) : seq[i].name = name} IN IF m = {} THEN 0 ELSE CHOOSE i \in m : TRUE

CallClosure(s0, k0, clo, vals, callerEnv) ==
  LET b == BindAll(clo.env, s0, clo.ps, vals)
  IN [st EXCEPT !.s = b.s, !.e = b.env, !.c = Ev(clo.body), !.k = Push(k0, [f |-> "call", env |-> callerEnv])]

RECURSIVE ListToSeq(_, _)
ListToSeq(s, v) == IF v.t = "nil" THEN <<>> ELSE <<s[v.l].h>> \o ListToSeq(s, s[v.l].tl)

(* build a list from values: cells allocated back to front                 *)
MkList(s, vals) ==
  LET n == Len(vals)
      cells == [i \in 1..n |-> [o |-> "cons", h |-> vals[n + 1 - i],
                                tl |-> IF i = 1 THEN VNil ELSE VRef(Len(s) + i - 1)]]
  IN [s |-> s \o cells, v |-> IF n = 0 THEN VNil ELSE VRef(Len(s) + n)]

ApplyWhat(w, vs, env, k0) ==
  LET s0 == st.s IN
  CASE w.w = "prim" ->
         LET r == PrimApply(w.op, vs)
         IN IF r.t = "stuck" THEN [st EXCEPT !.status = "stuck", !.k = k0]
            ELSE IF r.t = "toobig" THEN [st EXCEPT !.status = "fuel", !.k = k0]
            ELSE [st EXCEPT !.c = Val(r), !.k = k0]
    [] w.w = "call" ->
         LET fn == P.funs[w.fi]
         IN CallClosure(s0, k0, [ps |-> fn.ps, body |-> fn.body, env |-> st.g], vs, env)
    [] w.w = "callv" -> CallClosure(s0, k0, s0[vs[1].l], Tail(vs), env)
    [] w.w = "print" ->
         [st EXCEPT !.o = Append(st.o, ShowAtom(vs[2])), !.c = Val(VUnit), !.k = k0]
    [] w.w = "list" -> LET m == MkList(s0, vs) IN [st EXCEPT !.s = m.s, !.c = Val(m.v), !.k = k0]
    [] w.w = "cons" ->
         [st EXCEPT !.s = Alloc(s0, [o |-> "cons", h |-> vs[1], tl |-> vs[2]]), !.c = Val(VRef(Len(s0) + 1)), !.k = k0]
    [] w.w = "first" -> IF vs[1].t = "nil" THEN [st EXCEPT !.status = "stuck"] ELSE [st EXCEPT !.c = Val(s0[vs[1].l].h), !.k = k0]
    [] w.w = "rest"  -> IF vs[1].t = "nil" THEN [st EXCEPT !.status = "stuck"] ELSE [st EXCEPT !.c = Val(s0[vs[1].l].tl), !.k = k0]
    [] w.w = "empty" -> [st EXCEPT !.c = Val(VBool(vs[1].t = "nil")), !.k = k0]
    [] w.w = "len"   -> [st EXCEPT !.c = Val(VSI(FromInt(Len(ListToSeq(s0, vs[1]))))), !.k = k0]
    [] w.w = "newarr" ->
         LET n == MToNat(vs[1].z.mag)
         IN [st EXCEPT !.s = Alloc(s0, [o |-> "arr", xs |-> [i \in 1..n |-> vs[2]]]), !.c = Val(VRef(Len(s0) + 1)), !.k = k0]
    [] w.w = "aref" ->
         LET i == MToNat(vs[2].z.mag) xs == s0[vs[1].l].xs
         IN IF vs[2].z.neg \/ i < 1 \/ i > Len(xs) THEN [st EXCEPT !.status = "stuck"]
            ELSE [st EXCEPT !.c = Val(xs[i]), !.k = k0]
    [] w.w = "aset" ->
         LET i == MToNat(vs[2].z.mag) xs == s0[vs[1].l].xs
         IN IF vs[2].z.neg \/ i < 1 \/ i > Len(xs) THEN [st EXCEPT !.status = "stuck"]
            ELSE [st EXCEPT !.s = [s0 EXCEPT ![vs[1].l].xs[i] = vs[3]], !.c = Val(vs[3]), !.k = k0]
    [] w.w = "alen" -> [st EXCEPT !.c = Val(VSI(FromInt(Len(s0[vs[1].l].xs)))), !.k = k0]
    [] w.w = "mkrec" -> [st EXCEPT !.s = Alloc(s0, [o |-> "rec", fs |-> vs]), !.c = Val(VRef(Len(s0) + 1)), !.k = k0]
    [] w.w = "rget" -> [st EXCEPT !.c = Val(s0[vs[1].l].fs[w.i]), !.k = k0]
    [] w.w = "rset" -> [st EXCEPT !.s = [s0 EXCEPT ![vs[1].l].fs[w.i] = vs[2]], !.c = Val(vs[2]), !.k = k0]
    [] w.w = "mkun" -> [st EXCEPT !.s = Alloc(s0, [o |-> "un", tag |-> w.tag, v |-> vs[1]]), !.c = Val(VRef(Len(s0) + 1)), !.k = k0]
    [] w.w = "uis"  -> [st EXCEPT !.c = Val(VBool(s0[vs[1].l].tag = w.tag)), !.k = k0]
    [] w.w = "uget" -> IF s0[vs[1].l].tag # w.tag THEN [st EXCEPT !.status = "stuck"]
                       ELSE [st EXCEPT !.c = Val(s0[vs[1].l].v), !.k = k0]
    [] w.w = "dcall" ->
         LET D == P.doms[w.dom.i]
             own == FindByName(D.ops, w.op)
             dflt == FindByName(P.cats[D.cat].defaults, w.op)
         IN IF own = 0 /\ dflt = 0 THEN [st EXCEPT !.status = "stuck"]
            ELSE LET d == IF own # 0 THEN D.ops[own] ELSE P.cats[D.cat].defaults[dflt]
                     s1 == s0 \o <<w.dom, w.dom.arg>>
                     e0 == ("%self" :> Len(s0) + 1) @@ ("%T" :> Len(s0) + 2)
                     b == BindAll(e0, s1, d.ps, vs)
                 IN [st EXCEPT !.s = b.s, !.e = b.env, !.c = Ev(d.body), !.k = Push(k0, [f |-> "call", env |-> env])]
    \* [body for x in src | cond]: the frame walks the elements in order; cond and body are pure expressions
    [] w.w = "collect" ->
         [st EXCEPT !.c = Val(VUnit),
                    !.k = Push(k0, [f |-> "coll", x |-> w.x, cond |-> w.cond, body |-> w.body, env |-> env, phase |-> "next",
                                    cur |-> env, range |-> w.range, acc |-> <<>>,
                                    src |-> IF w.range THEN VNil ELSE vs[1],
                                    rcur |-> IF w.range THEN vs[1].z ELSE Zero, hi |-> IF w.range THEN vs[2].z ELSE Zero])]
    \* op(args)$AD: an operation of a domain with a private representation (P.adts); per/rep do not change the value
    [] w.w = "acall" ->
         LET A == P.adts[w.adt + 1] i == FindByName(A.ops, w.op)
         IN IF i = 0 THEN [st EXCEPT !.status = "stuck"]
            ELSE CallClosure(s0, k0, [ps |-> A.ops[i].ps, body |-> A.ops[i].body, env |-> st.g], vs, env)
    [] w.w = "tuple" -> [st EXCEPT !.c = Val([t |-> "tup", vs |-> vs]), !.k = k0]     \* several values at once: (e1, .., en)
    [] w.w = "throw" -> [st EXCEPT !.c = [k |-> "thr", exn |-> w.exn, vs |-> vs], !.k = k0]
    [] w.w = "for" ->
         [st EXCEPT !.c = Val(VUnit),
                    !.k = Push(k0, [f |-> "for", x |-> w.x, cur |-> vs[1].z, hi |-> vs[2].z, body |-> w.body, env |-> env, inbody |-> FALSE])]
    \* for x1 in s1 for x2 in s2 .. repeat body: the iterators advance together, the loop ends with the first that is exhausted
    [] w.w = "pfor" ->
         LET n == Len(w.its)
             ofs == [j \in 1..n |-> Len(SelectSeq(SubSeq(w.its, 1, j - 1), LAMBDA it : it.k = "range")) + (j - 1)]
             sts == [j \in 1..n |-> IF w.its[j].k = "range"
                                     THEN [k |-> "range", cur |-> vs[ofs[j] + 1].z, hi |-> vs[ofs[j] + 2].z, src |-> VNil]
                                     ELSE [k |-> "list", cur |-> Zero, hi |-> Zero, src |-> vs[ofs[j] + 1]]]
         IN [st EXCEPT !.c = Val(VUnit),
                       !.k = Push(k0, [f |-> "pfor", xs |-> [j \in 1..n |-> w.its[j].x], sts |-> sts, body |-> w.body, env |-> env,
                                       inbody |-> FALSE])]
    [] w.w = "forin" ->
         [st EXCEPT !.c = Val(VUnit),
                    !.k = Push(k0, [f |-> "forin", x |-> w.x, src |-> vs[1], body |-> w.body, env |-> env, inbody |-> FALSE])]
    [] OTHER -> [st EXCEPT !.status = "stuck"]

---------------------------------------------------------------------------
(* evaluation of expressions: one action per syntactic form                *)

EvLit == IsEv /\ X.e = "lit" /\
  Go([st EXCEPT !.c = Val(IF X.t = "si" THEN VSI(WrapSI(LitZ(X))) ELSE VBI(LitZ(X)))])
EvBool == IsEv /\ X.e = "bool" /\ Go([st EXCEPT !.c = Val(VBool(X.b))])
EvStr  == IsEv /\ X.e = "str"  /\ Go([st EXCEPT !.c = Val(VStr(X.s))])
EvUnit == IsEv /\ X.e = "unit" /\ Go([st EXCEPT !.c = Val(VUnit)])
(* a macro parameter is bound to its unevaluated argument (a thunk): every use evaluates the   *)
(* argument text again in the environment of the use site, which is what substitution means   *)
IsThunk(cell) == "o" \in DOMAIN cell /\ cell.o = "thunk"
EvVar  == IsEv /\ X.e = "var"  /\
  Go(IF X.x \in DOMAIN st.e
     THEN LET cell == st.s[st.e[X.x]] IN
          IF IsThunk(cell) THEN [st EXCEPT !.c = Ev(cell.x), !.e = cell.env] ELSE [st EXCEPT !.c = Val(cell)]
     ELSE [st EXCEPT !.status = "stuck"])
(* m(a1, .., an) where m(p1, .., pn) ==> body: the body with the arguments substituted.       *)
(* Macro bodies mention only their parameters (capture-free by construction of the family).   *)
(* Macro definitions are lexically scoped: `{ macro m(p1, .., pn) == body2; e }` (node "lmac") gives m the new   *)
(* body inside e only -- uses of m after the block, and in functions called from e, keep the outer meaning.      *)
(* The local meaning lives in the environment under the key "%mac<i>" (a name no program variable can have).     *)
MacKey(mi) == "%mac" \o ToString(mi)
EvMac == IsEv /\ X.e = "mac" /\
  Go(LET m == P.macs[X.mi]
         body == IF MacKey(X.mi) \in DOMAIN st.e THEN st.s[st.e[MacKey(X.mi)]].body ELSE m.body
         b == BindAll(<<>>, st.s, m.ps, [i \in 1..Len(X.args) |-> [o |-> "thunk", x |-> X.args[i], env |-> st.e]])
     IN [st EXCEPT !.s = b.s, !.e = b.env, !.c = Ev(body)])
EvLMac == IsEv /\ X.e = "lmac" /\
  Go([st EXCEPT !.s = Alloc(st.s, [o |-> "macbody", body |-> X.mbody]), !.e = Bind(st.e, MacKey(X.mi), Len(st.s) + 1),
                !.c = Ev(X.body)])

(* every form that first evaluates a list of operands left to right        *)
(* what: [w |-> "prim", op] | [w |-> "call", fi] | [w |-> "callv"] |        *)
(*       [w |-> "print"] | [w |-> "cons"] | ... (see ApplyWhat)             *)
(* The order of evaluation of the operands of an application is NOT defined by the        *)
(* language (User Guide, "the order of evaluation of the actual arguments in an             *)
(* application is not defined").  The machine therefore picks the next operand              *)
(* nondeterministically; a program belongs to the replayed family only if all its           *)
(* behaviours end with the same output and status (checked by the harness on the exported   *)
(* behaviours).  Frame: vals[i] is the value of operand i or Unset, todo the indices left.  *)
(* mode "any": every order; "ltr"/"rtl": the two extreme orders, which reverse every pair *)
(* of operands (used for bulk evaluation, where "any" is too expensive).                  *)
Unset == [t |-> "unset"]
Pick(S) == IF mode = "any" THEN S
           ELSE IF mode = "ltr" THEN {CHOOSE i \in S : \A j \in S : i <= j}
           ELSE {CHOOSE i \in S : \A j \in S : i >= j}
StartArgs(what, args) ==
  IF Len(args) = 0 THEN {ApplyWhat(what, <<>>, st.e, st.k)}
  ELSE {[st EXCEPT !.c = Ev(args[i]),
                   !.k = Push(st.k, [f |-> "args", what |-> what, args |-> args, cur |-> i,
                                     vals |-> [j \in 1..Len(args) |-> Unset],
                                     todo |-> (1..Len(args)) \ {i}, env |-> st.e])] : i \in Pick(1..Len(args))}
GoAny(S) == \E u \in S : st' = Tick(u)

EvPrim  == IsEv /\ X.e = "prim"  /\ GoAny(StartArgs([w |-> "prim", op |-> X.op], X.args))
(* f(a1, .., ak, p == v, ..): the first k parameters take the positional arguments, a named one takes its  *)
(* keyword argument, every other one the default value of its declaration (fn.defs[i], a constant)   *)
CallArgs(x) ==
  LET fn == P.funs[x.fi] n == Len(fn.ps) IN
  IF Len(x.args) = n /\ "kw" \notin DOMAIN x THEN x.args
  ELSE [i \in 1..n |->
          IF i <= Len(x.args) THEN x.args[i]
          ELSE LET m == IF "kw" \in DOMAIN x THEN {j \in 1..Len(x.kw) : x.kw[j].p = fn.ps[i]} ELSE {} IN
               IF m # {} THEN x.kw[CHOOSE j \in m : TRUE].v ELSE fn.defs[i]]
EvCall  == IsEv /\ X.e = "call"  /\ GoAny(StartArgs([w |-> "call", fi |-> X.fi], CallArgs(X)))
EvCallV == IsEv /\ X.e = "callv" /\ GoAny(StartArgs([w |-> "callv"], <<X.f>> \o X.args))
(* print << a << b is the application <<(<<(print, a), b).  Like every application its    *)
(* two operands -- the shorter chain and the last item -- may be evaluated in either order; *)
(* a chain writes its item when it is applied.                                              *)
EvPrint == IsEv /\ X.e = "print" /\
  GoAny(IF Len(X.args) = 0 THEN {[st EXCEPT !.c = Val(VUnit)]}
        ELSE StartArgs([w |-> "print"], <<[e |-> "print", args |-> SubSeq(X.args, 1, Len(X.args) - 1)], X.args[Len(X.args)]>>))
EvList  == IsEv /\ X.e = "list"  /\ GoAny(StartArgs([w |-> "list"], X.args))
EvCons  == IsEv /\ X.e = "cons"  /\ GoAny(StartArgs([w |-> "cons"], <<X.h, X.tl>>))
EvListOp == IsEv /\ X.e \in {"first", "rest", "empty", "len"} /\ GoAny(StartArgs([w |-> X.e], <<X.l>>))
EvNewArr == IsEv /\ X.e = "newarr" /\ GoAny(StartArgs([w |-> "newarr"], <<X.n, X.init>>))
EvARef  == IsEv /\ X.e = "aref" /\ GoAny(StartArgs([w |-> "aref"], <<X.a, X.i>>))
EvASet  == IsEv /\ X.e = "aset" /\ GoAny(StartArgs([w |-> "aset"], <<X.a, X.i, X.v>>))
EvALen  == IsEv /\ X.e = "alen" /\ GoAny(StartArgs([w |-> "alen"], <<X.a>>))
EvMkRec == IsEv /\ X.e = "mkrec" /\ GoAny(StartArgs([w |-> "mkrec"], X.args))
EvRGet  == IsEv /\ X.e = "rget" /\ GoAny(StartArgs([w |-> "rget", i |-> X.i], <<X.r>>))
EvRSet  == IsEv /\ X.e = "rset" /\ GoAny(StartArgs([w |-> "rset", i |-> X.i], <<X.r, X.v>>))
EvMkUn  == IsEv /\ X.e = "mkun" /\ GoAny(StartArgs([w |-> "mkun", tag |-> X.tag], <<X.v>>))
EvUIs   == IsEv /\ X.e = "uis"  /\ GoAny(StartArgs([w |-> "uis", tag |-> X.tag], <<X.u>>))
EvUGet  == IsEv /\ X.e = "uget" /\ GoAny(StartArgs([w |-> "uget", tag |-> X.tag], <<X.u>>))
EvDCall == IsEv /\ X.e = "dcall" /\
  GoAny(StartArgs([w |-> "dcall", dom |-> DomVal(X.dom, st.e, st.s), op |-> X.op], X.args))
EvThrow == IsEv /\ X.e = "throw" /\ GoAny(StartArgs([w |-> "throw", exn |-> X.exn], X.args))

EvIf == IsEv /\ X.e = "if" /\
  Go([st EXCEPT !.c = Ev(X.c), !.k = Push(st.k, [f |-> "if", a |-> X.a, b |-> X.b, env |-> st.e])])
EvAnd == IsEv /\ X.e = "and" /\
  Go([st EXCEPT !.c = Ev(X.a), !.k = Push(st.k, [f |-> "and", b |-> X.b, env |-> st.e])])
EvOr == IsEv /\ X.e = "or" /\
  Go([st EXCEPT !.c = Ev(X.a), !.k = Push(st.k, [f |-> "or", b |-> X.b, env |-> st.e])])

(* { e1; e2; ...; en }: value of the last; an element [e |-> "exit", c, v] is `c => v` *)
SeqStart(es, env) ==
  IF Len(es) = 0 THEN [st EXCEPT !.c = Val(VUnit)]
  ELSE LET h == es[1] IN
       IF h.e = "exit"
       THEN [st EXCEPT !.c = Ev(h.c), !.e = env, !.k = Push(st.k, [f |-> "exit", v |-> h.v, rest |-> Tail(es), env |-> env])]
       ELSE IF Len(es) = 1 THEN [st EXCEPT !.c = Ev(h), !.e = env]
       ELSE [st EXCEPT !.c = Ev(h), !.e = env, !.k = Push(st.k, [f |-> "seq", rest |-> Tail(es), env |-> env])]
EvSeq == IsEv /\ X.e = "seq" /\ Go(SeqStart(X.es, st.e))

EvAsg == IsEv /\ X.e = "asg" /\
  Go([st EXCEPT !.c = Ev(X.v), !.k = Push(st.k, [f |-> "asg", x |-> X.x, env |-> st.e])])
(* (x1, .., xn) := v where v delivers n values (a tuple expression or a call of a function that  *)
(* returns several values): all values exist before the first variable changes, so             *)
(* (a, b) := (b, a) exchanges a and b                                                          *)
(* A generator as the source ([body for x in g | cond], srck = "gen"): the form is the loop               *)
(* `for x in g | cond repeat <add body to the result>` below a frame that gathers the elements, so the   *)
(* generator advances one step at a time, interleaved with cond and body, exactly as in a for loop.       *)
CollFromGen == "srck" \in DOMAIN X /\ X.srck = "gen"
EvCollectGen == IsEv /\ X.e = "collect" /\ CollFromGen /\
  Go([st EXCEPT !.c = Ev([e |-> "forin", x |-> X.x, src |-> X.src, filt |-> X.cond,
                          body |-> [e |-> "collitem", v |-> X.body]]),
                !.k = Push(st.k, [f |-> "collg", acc |-> <<>>, env |-> st.e])])
EvCollItem == IsEv /\ X.e = "collitem" /\
  Go([st EXCEPT !.c = Ev(X.v), !.k = Push(st.k, [f |-> "collitemk"])])
RetCollItemK == IsVal /\ HasF /\ F.f = "collitemk" /\
  Go(LET k1 == Pop(st.k)
         js == {j \in 1..Len(k1) : k1[j].f = "collg"}
         j  == CHOOSE i \in js : \A i2 \in js : i2 <= i       \* the innermost gathering frame
     IN [st EXCEPT !.c = Val(VUnit), !.k = [k1 EXCEPT ![j].acc = Append(@, st.c.v)]])
RetCollG == IsVal /\ HasF /\ F.f = "collg" /\
  Go(LET m == MkList(st.s, F.acc) IN [st EXCEPT !.s = m.s, !.c = Val(m.v), !.e = F.env, !.k = Pop(st.k)])
EvCollect == IsEv /\ X.e = "collect" /\ ~CollFromGen /\
  GoAny(StartArgs([w |-> "collect", x |-> X.x, cond |-> X.cond, body |-> X.body, range |-> X.src.e = "range"],
                  IF X.src.e = "range" THEN <<X.src.lo, X.src.hi>> ELSE <<X.src>>))
RetCollNext == IsVal /\ HasF /\ F.f = "coll" /\ F.phase = "next" /\
  Go(LET done == IF F.range THEN Cmp(F.rcur, F.hi) > 0 ELSE F.src.t = "nil" IN
     IF done
     THEN LET m == MkList(st.s, F.acc) IN [st EXCEPT !.s = m.s, !.c = Val(m.v), !.e = F.env, !.k = Pop(st.k)]
     ELSE LET item == IF F.range THEN VSI(F.rcur) ELSE st.s[F.src.l].h
              s1 == Alloc(st.s, item)
              e1 == Bind(F.env, F.x, Len(st.s) + 1)
              F1 == IF F.range THEN [F EXCEPT !.rcur = Add(F.rcur, One)] ELSE [F EXCEPT !.src = st.s[F.src.l].tl]
          IN [st EXCEPT !.s = s1, !.e = e1, !.c = Ev(IF F.cond.e = "none" THEN F.body ELSE F.cond),
                        !.k = Push(Pop(st.k), [F1 EXCEPT !.cur = e1, !.phase = IF F.cond.e = "none" THEN "body" ELSE "cond"])])
RetCollCond == IsVal /\ HasF /\ F.f = "coll" /\ F.phase = "cond" /\
  Go(IF st.c.v.b THEN [st EXCEPT !.c = Ev(F.body), !.e = F.cur, !.k = Push(Pop(st.k), [F EXCEPT !.phase = "body"])]
     ELSE [st EXCEPT !.c = Val(VUnit), !.k = Push(Pop(st.k), [F EXCEPT !.phase = "next"])])
RetCollBody == IsVal /\ HasF /\ F.f = "coll" /\ F.phase = "body" /\
  Go([st EXCEPT !.c = Val(VUnit), !.k = Push(Pop(st.k), [F EXCEPT !.phase = "next", !.acc = Append(F.acc, st.c.v)])])
EvACall == IsEv /\ X.e = "acall" /\ GoAny(StartArgs([w |-> "acall", adt |-> X.adt, op |-> X.op], X.args))
EvPerRep == IsEv /\ X.e \in {"per", "rep"} /\ Go([st EXCEPT !.c = Ev(X.v)])
EvTuple == IsEv /\ X.e = "tuple" /\ GoAny(StartArgs([w |-> "tuple"], X.args))
EvMAsg == IsEv /\ X.e = "masg" /\
  Go([st EXCEPT !.c = Ev(X.v), !.k = Push(st.k, [f |-> "masg", xs |-> X.xs, env |-> st.e])])
EvLet == IsEv /\ X.e = "let" /\
  Go([st EXCEPT !.c = Ev(X.v), !.k = Push(st.k, [f |-> "let", x |-> X.x, body |-> X.body, env |-> st.e])])

(* body where { x1: T1 == v1; ..; xn: Tn == vn }: the body sees the constants; the definitions see the outer names only *)
(* (names are unique in a program, so the chain of lets below captures nothing)                                          *)
RECURSIVE LetChain(_, _)
LetChain(defs, body) ==
  IF defs = <<>> THEN body ELSE [e |-> "let", x |-> defs[1].x, v |-> defs[1].v, body |-> LetChain(Tail(defs), body)]
EvWhere == IsEv /\ X.e = "where" /\ Go([st EXCEPT !.c = Ev(LetChain(X.defs, X.body))])
EvLam == IsEv /\ X.e = "lam" /\
  Go([st EXCEPT !.s = Alloc(st.s, [o |-> "clos", ps |-> X.ps, body |-> X.body, env |-> st.e]),
                !.c = Val(VRef(Len(st.s) + 1))])
EvGen == IsEv /\ X.e = "gen" /\
  Go([st EXCEPT !.s = Alloc(st.s, [o |-> "gen", state |-> "new", body |-> X.body, env |-> st.e, fr |-> <<>>]),
                !.c = Val(VRef(Len(st.s) + 1))])

EvWhile == IsEv /\ X.e = "while" /\
  Go([st EXCEPT !.c = Ev(X.c), !.k = Push(st.k, [f |-> "while", c |-> X.c, body |-> X.body, env |-> st.e, inbody |-> FALSE])])
(* for x in s | c repeat body: the body runs for the elements that satisfy c, i.e. each round is `if c then body` *)
LoopBody(x) == IF "filt" \in DOMAIN x /\ x.filt.e # "none"
               THEN [e |-> "if", c |-> x.filt, a |-> x.body, b |-> [e |-> "unit"]] ELSE x.body
EvFor == IsEv /\ X.e = "for" /\      \* for x in lo..hi repeat body
  GoAny(StartArgs([w |-> "for", x |-> X.x, body |-> LoopBody(X)], <<X.lo, X.hi>>))
EvForIn == IsEv /\ X.e = "forin" /\  \* for x in <list or generator> repeat body
  GoAny(StartArgs([w |-> "forin", x |-> X.x, body |-> LoopBody(X)], <<X.src>>))

PForOperands(its) == FlattenSeq([j \in 1..Len(its) |-> IF its[j].k = "range" THEN <<its[j].lo, its[j].hi>> ELSE <<its[j].src>>])
EvPFor == IsEv /\ X.e = "pfor" /\
  GoAny(StartArgs([w |-> "pfor", its |-> X.its, body |-> LoopBody(X)], PForOperands(X.its)))
RetPForStep == IsVal /\ HasF /\ F.f = "pfor" /\
  Go(LET n == Len(F.sts)
         done == \E j \in 1..n : IF F.sts[j].k = "range" THEN Cmp(F.sts[j].cur, F.sts[j].hi) > 0 ELSE F.sts[j].src.t = "nil"
     IN IF done THEN [st EXCEPT !.c = Val(VUnit), !.k = Pop(st.k)]
        ELSE LET items == [j \in 1..n |-> IF F.sts[j].k = "range" THEN VSI(F.sts[j].cur) ELSE st.s[F.sts[j].src.l].h]
                 nxt == [j \in 1..n |-> IF F.sts[j].k = "range" THEN [F.sts[j] EXCEPT !.cur = Add(F.sts[j].cur, One)]
                                        ELSE [F.sts[j] EXCEPT !.src = st.s[F.sts[j].src.l].tl]]
                 b == BindAll(F.env, st.s, F.xs, items)
             IN [st EXCEPT !.s = b.s, !.e = b.env, !.c = Ev(F.body),
                           !.k = Push(Pop(st.k), [F EXCEPT !.sts = nxt, !.inbody = TRUE])])
EvBreak == IsEv /\ X.e = "break"   /\ Go([st EXCEPT !.c = [k |-> "brk"]])
EvIter  == IsEv /\ X.e = "iterate" /\ Go([st EXCEPT !.c = [k |-> "iter"]])
EvRet   == IsEv /\ X.e = "ret" /\
  Go([st EXCEPT !.c = Ev(X.v), !.k = Push(st.k, [f |-> "retk"])])
EvYield == IsEv /\ X.e = "yield" /\
  Go([st EXCEPT !.c = Ev(X.v), !.k = Push(st.k, [f |-> "yieldk", env |-> st.e])])
EvTry == IsEv /\ X.e = "try" /\      \* try body catch E in { E has X => h } always fin
  Go([st EXCEPT !.c = Ev(X.body), !.k = Push(st.k, [f |-> "try", hs |-> X.hs, fin |-> X.fin, env |-> st.e])])
(* error "msg": the message goes to the output, then the run-time system reports the       *)
(* unhandled RuntimeError and the program ends with a failure status (observed identically *)
(* on both routes and documented in the User Guide; the interpreter's additional stack     *)
(* listing is a diagnostic and not part of the output)                                     *)
HaltText == "Unhandled Exception: RuntimeError(??)\n(Aldor error) Halt\n"
(* The run-time system raises the halt as the exception RuntimeError: enclosing `finally` parts run while it unwinds  *)
(* (observed: `try f() catch E in { E has Ex0 => ..; true => throw E; never } finally { print << "fin" }` prints the      *)
(* message of the error, then "fin", then the report).  No handler of the family names RuntimeError, so it reaches the *)
(* top, where the report is printed and the program fails.                                                              *)
EvError == IsEv /\ X.e = "error" /\
  Go([st EXCEPT !.o = st.o \o <<X.msg, "\n">>, !.c = [k |-> "thr", exn |-> "RuntimeError/Halt", vs |-> <<>>]])
(* assert(c): c is evaluated; when it is false the run-time system prints where the        *)
(* assertion stands (unit, line and source text: replaced by "@@" on both sides of the     *)
(* comparison, the specification does not know the layout of the rendered file), reports   *)
(* the RuntimeError and the program ends with a failure status.  The optimiser's           *)
(* documented switch -Qdel-assert (on from -Q2) deletes assertions, test included: the     *)
(* harness sets DELASSERT=1 when it evaluates a program for those levels.                  *)
DelAssert == "DELASSERT" \in DOMAIN IOEnv /\ IOEnv.DELASSERT = "1"
AssertText == "Unhandled Exception: RuntimeError(??)\n(Aldor error) Assertion failed.\n"
EvAssert == IsEv /\ X.e = "assert" /\
  Go(IF DelAssert THEN [st EXCEPT !.c = Val(VUnit)]
     ELSE [st EXCEPT !.c = Ev(X.c), !.k = Push(st.k, [f |-> "assert", env |-> st.e])])
RetAssert == IsVal /\ HasF /\ F.f = "assert" /\
  Go(IF st.c.v.b THEN [st EXCEPT !.c = Val(VUnit), !.e = F.env, !.k = Pop(st.k)]
     ELSE [st EXCEPT !.o = st.o \o <<"Assertion failed at @@\n">>, !.c = [k |-> "thr", exn |-> "RuntimeError/Assert", vs |-> <<>>]])

(* a value arrives at an operand frame: next operand, or apply              *)
RetArgsNext == IsVal /\ HasF /\ F.f = "args" /\ F.todo # {} /\
  \E i \in Pick(F.todo) :
    Go([st EXCEPT !.c = Ev(F.args[i]), !.e = F.env,
                  !.k = Push(Pop(st.k), [F EXCEPT !.vals[F.cur] = st.c.v, !.cur = i, !.todo = F.todo \ {i}])])
RetArgsApply == IsVal /\ HasF /\ F.f = "args" /\ F.todo = {} /\
  Go(ApplyWhat(F.what, [F.vals EXCEPT ![F.cur] = st.c.v], F.env, Pop(st.k)))

RetIf == IsVal /\ HasF /\ F.f = "if" /\
  Go([st EXCEPT !.c = Ev(IF st.c.v.b THEN F.a ELSE F.b), !.e = F.env, !.k = Pop(st.k)])
RetAnd == IsVal /\ HasF /\ F.f = "and" /\
  Go(IF st.c.v.b THEN [st EXCEPT !.c = Ev(F.b), !.e = F.env, !.k = Pop(st.k)] ELSE [st EXCEPT !.k = Pop(st.k)])
RetOr == IsVal /\ HasF /\ F.f = "or" /\
  Go(IF st.c.v.b THEN [st EXCEPT !.k = Pop(st.k)] ELSE [st EXCEPT !.c = Ev(F.b), !.e = F.env, !.k = Pop(st.k)])

RetSeq == IsVal /\ HasF /\ F.f = "seq" /\
  Go(LET s1 == [st EXCEPT !.k = Pop(st.k)] IN
     LET es == F.rest env == F.env h == es[1] IN
       IF h.e = "exit"
       THEN [s1 EXCEPT !.c = Ev(h.c), !.e = env, !.k = Push(s1.k, [f |-> "exit", v |-> h.v, rest |-> Tail(es), env |-> env])]
       ELSE IF Len(es) = 1 THEN [s1 EXCEPT !.c = Ev(h), !.e = env]
       ELSE [s1 EXCEPT !.c = Ev(h), !.e = env, !.k = Push(s1.k, [f |-> "seq", rest |-> Tail(es), env |-> env])])
(* c => v : true leaves the sequence with the value of v, false continues   *)
RetExitTaken == IsVal /\ HasF /\ F.f = "exit" /\ st.c.v.b /\
  Go([st EXCEPT !.c = Ev(F.v), !.e = F.env, !.k = Pop(st.k)])
RetExitNot == IsVal /\ HasF /\ F.f = "exit" /\ ~st.c.v.b /\
  Go(LET s1 == [st EXCEPT !.k = Pop(st.k)] es == F.rest env == F.env IN
     IF Len(es) = 0 THEN [s1 EXCEPT !.c = Val(VUnit)]
     ELSE LET h == es[1] IN
       IF h.e = "exit"
       THEN [s1 EXCEPT !.c = Ev(h.c), !.e = env, !.k = Push(s1.k, [f |-> "exit", v |-> h.v, rest |-> Tail(es), env |-> env])]
       ELSE IF Len(es) = 1 THEN [s1 EXCEPT !.c = Ev(h), !.e = env]
       ELSE [s1 EXCEPT !.c = Ev(h), !.e = env, !.k = Push(s1.k, [f |-> "seq", rest |-> Tail(es), env |-> env])])

RetAsg == IsVal /\ HasF /\ F.f = "asg" /\
  Go(IF F.x \in DOMAIN F.env
     THEN [st EXCEPT !.s = [st.s EXCEPT ![F.env[F.x]] = st.c.v], !.k = Pop(st.k)]
     ELSE [st EXCEPT !.status = "stuck"])
RetMAsg == IsVal /\ HasF /\ F.f = "masg" /\
  Go(IF st.c.v.t = "tup" /\ Len(st.c.v.vs) = Len(F.xs) /\ (\A i \in 1..Len(F.xs) : F.xs[i] \in DOMAIN F.env)
     THEN [st EXCEPT !.s = [l \in DOMAIN st.s |->
                             LET m == {i \in 1..Len(F.xs) : F.env[F.xs[i]] = l}
                             IN IF m = {} THEN st.s[l] ELSE st.c.v.vs[CHOOSE i \in m : \A j \in m : j <= i]],
                   !.c = Val(VUnit), !.k = Pop(st.k)]
     ELSE [st EXCEPT !.status = "stuck"])
RetLet == IsVal /\ HasF /\ F.f = "let" /\
  Go([st EXCEPT !.s = Alloc(st.s, st.c.v), !.e = Bind(F.env, F.x, Len(st.s) + 1), !.c = Ev(F.body), !.k = Pop(st.k)])

(* while: the frame alternates between waiting for the condition and for the body *)
RetWhileCond == IsVal /\ HasF /\ F.f = "while" /\ ~F.inbody /\
  Go(IF st.c.v.b THEN [st EXCEPT !.c = Ev(F.body), !.e = F.env, !.k = Push(Pop(st.k), [F EXCEPT !.inbody = TRUE])]
     ELSE [st EXCEPT !.c = Val(VUnit), !.k = Pop(st.k)])
RetWhileBody == IsVal /\ HasF /\ F.f = "while" /\ F.inbody /\
  Go([st EXCEPT !.c = Ev(F.c), !.e = F.env, !.k = Push(Pop(st.k), [F EXCEPT !.inbody = FALSE])])

(* for x in lo..hi: x is a fresh variable in every iteration                 *)
RetForStep == IsVal /\ HasF /\ F.f = "for" /\
  Go(IF Cmp(F.cur, F.hi) > 0 THEN [st EXCEPT !.c = Val(VUnit), !.k = Pop(st.k)]
     ELSE [st EXCEPT !.s = Alloc(st.s, VSI(F.cur)), !.e = Bind(F.env, F.x, Len(st.s) + 1), !.c = Ev(F.body),
                     !.k = Push(Pop(st.k), [F EXCEPT !.cur = Add(F.cur, One), !.inbody = TRUE])])

(* for x in list *)
RetForInList == IsVal /\ HasF /\ F.f = "forin" /\ F.src.t \in {"nil", "ref"} /\
                (IF F.src.t = "nil" THEN TRUE ELSE st.s[F.src.l].o = "cons") /\
  Go(IF F.src.t = "nil" THEN [st EXCEPT !.c = Val(VUnit), !.k = Pop(st.k)]
     ELSE LET cell == st.s[F.src.l] IN
          [st EXCEPT !.s = Alloc(st.s, cell.h), !.e = Bind(F.env, F.x, Len(st.s) + 1), !.c = Ev(F.body),
                     !.k = Push(Pop(st.k), [F EXCEPT !.src = cell.tl, !.inbody = TRUE])])

(* for x in generator: resume the generator below a boundary frame           *)
RetForInGen == IsVal /\ HasF /\ F.f = "forin" /\ (IF F.src.t = "ref" THEN st.s[F.src.l].o = "gen" ELSE FALSE) /\
  Go(LET gl == F.src.l gn == st.s[gl] IN
     IF gn.state = "done" THEN [st EXCEPT !.c = Val(VUnit), !.k = Pop(st.k)]
     ELSE IF gn.state = "new"
     THEN [st EXCEPT !.c = Ev(gn.body), !.e = gn.env, !.k = Push(st.k, [f |-> "genb", gl |-> gl]),
                     !.s = [st.s EXCEPT ![gl].state = "running"]]
     ELSE [st EXCEPT !.c = Val(VUnit), !.k = Push(st.k, [f |-> "genb", gl |-> gl]) \o gn.fr,
                     !.s = [st.s EXCEPT ![gl].state = "running", ![gl].fr = <<>>]])
(* the generator body ran to its end *)
RetGenEnd == IsVal /\ HasF /\ F.f = "genb" /\
  Go([st EXCEPT !.s = [st.s EXCEPT ![F.gl].state = "done"], !.c = Val(VUnit), !.k = Pop(st.k)])
(* yield v: the value is computed, now suspend: capture the frames above the boundary *)
RetYieldK == IsVal /\ HasF /\ F.f = "yieldk" /\
  Go([st EXCEPT !.c = [k |-> "yield", v |-> st.c.v, fr |-> <<>>], !.k = Pop(st.k)])
YieldUnwind == Running /\ st.c.k = "yield" /\ HasF /\ F.f # "genb" /\
  Go([st EXCEPT !.c = [st.c EXCEPT !.fr = <<F>> \o st.c.fr], !.k = Pop(st.k)])
YieldDeliver == Running /\ st.c.k = "yield" /\ HasF /\ F.f = "genb" /\
  Go(LET k1 == Pop(st.k) lf == Top(k1) IN      \* lf is the "forin" frame that resumed the generator
     [st EXCEPT !.s = Append([st.s EXCEPT ![F.gl].state = "susp", ![F.gl].fr = st.c.fr], st.c.v),
                !.e = Bind(lf.env, lf.x, Len(st.s) + 1), !.c = Ev(lf.body),
                !.k = Push(Pop(k1), [lf EXCEPT !.inbody = TRUE])])

(* function return: a value reaches the call boundary, or `return v`          *)
RetCall == IsVal /\ HasF /\ F.f = "call" /\ Go([st EXCEPT !.e = F.env, !.k = Pop(st.k)])
RetRetK == IsVal /\ HasF /\ F.f = "retk" /\ Go([st EXCEPT !.c = [k |-> "ret", v |-> st.c.v], !.k = Pop(st.k)])
RetUnwind == Running /\ st.c.k = "ret" /\ HasF /\ F.f \notin {"call", "try"} /\ Go([st EXCEPT !.k = Pop(st.k)])
RetArrive == Running /\ st.c.k = "ret" /\ HasF /\ F.f = "call" /\
  Go([st EXCEPT !.c = Val(st.c.v), !.e = F.env, !.k = Pop(st.k)])

(* break / iterate unwind to the innermost loop frame                          *)
IsLoopF(f) == f.f \in {"while", "for", "forin", "pfor"}
BrkUnwind == Running /\ st.c.k \in {"brk", "iter"} /\ HasF /\ ~IsLoopF(F) /\ F.f # "try" /\ Go([st EXCEPT !.k = Pop(st.k)])
BrkArrive == Running /\ st.c.k = "brk" /\ HasF /\ IsLoopF(F) /\ Go([st EXCEPT !.c = Val(VUnit), !.k = Pop(st.k)])
IterArrive == Running /\ st.c.k = "iter" /\ HasF /\ IsLoopF(F) /\
  Go(IF F.f = "while" THEN [st EXCEPT !.c = Ev(F.c), !.e = F.env, !.k = Push(Pop(st.k), [F EXCEPT !.inbody = FALSE])]
     ELSE [st EXCEPT !.c = Val(VUnit)])      \* for / forin: the frame steps on a value

(* try / catch / always.  hs: sequence of [exn, ps, body]; fin: expression or [e |-> "none"]  *)
(* A normal value, or any unwinding control, passing a try frame first runs `fin`.            *)
RunFin(pending, fr) ==
  IF fr.fin.e = "none" THEN [st EXCEPT !.c = pending, !.k = Pop(st.k)]
  ELSE [st EXCEPT !.c = Ev(fr.fin), !.e = fr.env, !.k = Push(Pop(st.k), [f |-> "fin", pending |-> pending, env |-> st.e])]
RetTry == IsVal /\ HasF /\ F.f = "try" /\ Go(RunFin(st.c, F))
CtlThroughTry == Running /\ st.c.k \in {"brk", "iter", "ret"} /\ HasF /\ F.f = "try" /\ Go(RunFin(st.c, F))
RetFin == IsVal /\ HasF /\ F.f = "fin" /\ Go([st EXCEPT !.c = F.pending, !.e = F.env, !.k = Pop(st.k)])
ThrUnwind == Running /\ st.c.k = "thr" /\ HasF /\ F.f # "try" /\ Go([st EXCEPT !.k = Pop(st.k)])
ThrCatch == Running /\ st.c.k = "thr" /\ HasF /\ F.f = "try" /\
  \* a handler named "*" is the catch-all clause `true => body` (it also takes the RuntimeError of a halt)
  Go(LET m == {i \in 1..Len(F.hs) : F.hs[i].exn = st.c.exn \/ F.hs[i].exn = "*"} IN
     IF m = {} THEN RunFin(st.c, F)
     ELSE LET h == F.hs[CHOOSE i \in m : \A j \in m : i <= j]
              b == BindAll(F.env, st.s, h.ps, st.c.vs)
          IN \* the handler runs inside the protection of `fin` only
             [st EXCEPT !.s = b.s, !.e = b.env, !.c = Ev(h.body),
                        !.k = Push(Pop(st.k), [f |-> "try", hs |-> <<>>, fin |-> F.fin, env |-> F.env])])
(* an exception that nobody handles: the run-time system names it and the program fails *)
ThrTop == Running /\ st.c.k = "thr" /\ ~HasF /\
  \* an exception that carries values is reported with "(??)" after its name (the run-time system does not print them)
  Go(IF st.c.exn = "RuntimeError/Halt" THEN [st EXCEPT !.o = st.o \o <<HaltText>>, !.status = "halt"]
     ELSE IF st.c.exn = "RuntimeError/Assert" THEN [st EXCEPT !.o = st.o \o <<AssertText>>, !.status = "halt"]
     ELSE [st EXCEPT !.o = st.o \o <<"Unhandled Exception: ", st.c.exn, IF Len(st.c.vs) > 0 THEN "(??)" ELSE "", "\n">>,
                     !.status = "uncaught"])

---------------------------------------------------------------------------
(* file level: forms are executed in order                                     *)
(* [d |-> "var", x, init] | [d |-> "stmt", x] ; functions live in P.funs         *)
TopNext(s1, i) ==
  IF i > Len(P.top) THEN [s1 EXCEPT !.status = "done", !.k = <<>>]
  ELSE LET d == P.top[i] IN
       IF d.d = "var"
       THEN [s1 EXCEPT !.c = Ev(d.init), !.e = s1.g, !.k = <<[f |-> "top", i |-> i + 1], [f |-> "gdef", x |-> d.x]>>]
       ELSE [s1 EXCEPT !.c = Ev(d.x), !.e = s1.g, !.k = <<[f |-> "top", i |-> i + 1]>>]
RetGDef == IsVal /\ HasF /\ F.f = "gdef" /\
  Go([st EXCEPT !.s = Alloc(st.s, st.c.v), !.g = Bind(st.g, F.x, Len(st.s) + 1), !.k = Pop(st.k)])
RetTop == IsVal /\ HasF /\ F.f = "top" /\ Go(TopNext(st, F.i))

---------------------------------------------------------------------------
Init == /\ pid \in 1..Len(Progs)
        /\ mode \in Modes
        /\ st = [c |-> Val(VUnit), e |-> <<>>, k |-> <<[f |-> "top", i |-> 1]>>, s |-> <<>>, g |-> <<>>,
                 o |-> <<>>, status |-> "run", n |-> 0]

Step == \/ EvLit \/ EvBool \/ EvStr \/ EvUnit \/ EvVar \/ EvMac \/ EvLMac \/ EvPrim \/ EvCall \/ EvCallV \/ EvPrint
        \/ EvList \/ EvCons \/ EvListOp \/ EvNewArr \/ EvARef \/ EvASet \/ EvALen \/ EvMkRec \/ EvRGet \/ EvRSet
        \/ EvMkUn \/ EvUIs \/ EvUGet \/ EvDCall \/ EvThrow \/ EvIf \/ EvAnd \/ EvOr \/ EvSeq \/ EvAsg \/ EvLet \/ EvLam \/ EvGen
        \/ EvWhile \/ EvFor \/ EvForIn \/ EvBreak \/ EvIter \/ EvRet \/ EvYield \/ EvTry \/ EvError \/ EvAssert \/ RetAssert \/ EvTuple \/ EvMAsg \/ RetMAsg \/ EvCollect \/ EvCollectGen \/ EvCollItem \/ RetCollItemK \/ RetCollG \/ RetCollNext \/ RetCollCond \/ RetCollBody \/ EvACall \/ EvPerRep \/ EvWhere \/ EvPFor \/ RetPForStep
        \/ RetArgsNext \/ RetArgsApply \/ RetIf \/ RetAnd \/ RetOr \/ RetSeq \/ RetExitTaken \/ RetExitNot
        \/ RetAsg \/ RetLet \/ RetWhileCond \/ RetWhileBody \/ RetForStep \/ RetForInList \/ RetForInGen
        \/ RetGenEnd \/ RetYieldK \/ YieldUnwind \/ YieldDeliver \/ RetCall \/ RetRetK \/ RetUnwind \/ RetArrive
        \/ BrkUnwind \/ BrkArrive \/ IterArrive \/ RetTry \/ CtlThroughTry \/ RetFin \/ ThrUnwind \/ ThrCatch \/ ThrTop
        \/ RetGDef \/ RetTop

Next == Step /\ UNCHANGED <<pid, mode>>

(* terminal states export the behaviour: the harness replays it into the compiler *)
Behav == [id |-> P.id, mode |-> mode, out |-> st.o, status |-> st.status, steps |-> st.n]
Export == ~Running /\ PrintT("BEHAV " \o ToJson(Behav)) /\ UNCHANGED vars

Spec == Init /\ [][Next]_vars
ExportSpec == Init /\ [][Next \/ Export]_vars

(* type soundness of the definition on the programs it is given: guards the   *)
(* oracle against its own bugs (a stuck program is never replayed)            *)
NoStuck == st.status # "stuck"
(* the machine is deterministic and never blocks while running                *)
Progress == Running => ENABLED Step
=============================================================================
