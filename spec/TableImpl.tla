------------------------------ MODULE TableImpl ------------------------------
(***************************************************************************)
(* Implementation-shaped model of table.c (open hashing with chains,       *)
(* move-to-front on every successful search, enlargement when the load     *)
(* exceeds MaxLoad entries per bucket) and of priq.c's binary heap, each   *)
(* with the abstract value of Containers.tla carried along as a history    *)
(* variable.  TLC explores EVERY reachable state for small constants       *)
(* (unbounded histories) and checks                                        *)
(*   - Refines: the chains, read as a set of key/element pairs, are        *)
(*     exactly the finite map the abstract operations produce; `count` is  *)
(*     its size; a walk over buckets and chains visits each entry once;    *)
(*   - ChainsOk: every slot sits in the bucket of its hash and no key      *)
(*     occurs twice (what tblDrop's "unlink the head after move-to-front"  *)
(*     and tblEnlarge's re-threading have to preserve);                    *)
(*   - HeapRefines / MinAtRoot: the array is a heap whose elements are the *)
(*     abstract bag and whose root is a minimum.                           *)
(* This is the design-level argument for the part of C20 that the          *)
(* bounded replay can only sample: collision chains after deletion, and    *)
(* growth across thresholds, for all histories over the alphabet.          *)
(* It is implementation-shaped: it is checked on its own and never used    *)
(* to judge the code (the code is judged against Containers.tla).          *)
(***************************************************************************)
EXTENDS Naturals, Integers, Sequences, FiniteSets, SequencesExt, Bags, TLC

CONSTANTS Keys,       \* key alphabet
          Vals,       \* element alphabet
          HashOf,     \* function Keys -> Nat (the client's hash function)
          Sizes,      \* sequence of bucket counts: Sizes[1] initial, next on each enlargement
          MaxLoad,    \* TBL_MaxLoad
          PKeys,      \* priority-queue keys
          PMax,       \* bound on the queue length explored
          SMax,       \* bound on the number of insertions into the queue
          Part        \* "T": explore the table, "P": explore the heap

VARIABLES buckv,      \* sequence (index 1..buckc, bucket x is buckv[x+1]) of chains; a slot is [key, elt, hash]
          szix,       \* index into Sizes
          count,
          amap,       \* history: the abstract finite map
          heap,       \* priq.c: the array argv[0..argc-1] as a sequence of <<key, entry>>
          abag,       \* history: the abstract bag
          serial,     \* entries of the queue are numbered
          lastop      \* the last operation and its result, for the action-level checks

vars == <<buckv, szix, count, amap, heap, abag, serial, lastop>>

buckc == Sizes[szix]
EmptyMap == [x \in {} |-> 0]
MapSet(m,k,v) == [x \in DOMAIN m \cup {k} |-> IF x = k THEN v ELSE m[x]]
MapDrop(m,k)  == [x \in DOMAIN m \ {k} |-> m[x]]

Bucket(h, n) == (h % n) + 1
\* position of the first slot of chain c that BUCKET_SEARCH accepts: same hash, equal key
Find(c, k) == LET S == {i \in 1..Len(c) : c[i].hash = HashOf[k] /\ c[i].key = k}
              IN  IF S = {} THEN 0 ELSE CHOOSE i \in S : \A j \in S : i <= j
CutAt(c, i) == SubSeq(c, 1, i - 1) \o SubSeq(c, i + 1, Len(c))
\* "Move to front": p->next = b->next; b->next = head; head = b   (only when b is not the head)
MoveToFront(c, i) == IF i <= 1 THEN c ELSE <<c[i]>> \o CutAt(c, i)

\* tblEnlarge: walk old buckets in order, each chain head first, push every slot on the front of its new chain
Enlarged(bv, n2) ==
  LET all == FoldLeft(LAMBDA acc, c : acc \o c, <<>>, bv)
  IN  FoldLeft(LAMBDA acc, s : [acc EXCEPT ![Bucket(s.hash, n2)] = <<s>> \o @],
               [i \in 1..n2 |-> <<>>], all)

Init == /\ szix = 1 /\ buckv = [i \in 1..Sizes[1] |-> <<>>] /\ count = 0 /\ amap = EmptyMap
        /\ heap = <<>> /\ abag = EmptyBag /\ serial = 0 /\ lastop = <<"init">>

TUnch == UNCHANGED <<heap, abag, serial>>
HUnch == UNCHANGED <<buckv, szix, count, amap>>

\* tblElt
Get(k) == LET x == Bucket(HashOf[k], buckc) c == buckv[x] i == Find(c, k) IN
          /\ buckv' = [buckv EXCEPT ![x] = MoveToFront(c, i)]
          /\ lastop' = <<"get", k, i # 0, IF i # 0 THEN c[i].elt ELSE 0>>
          /\ UNCHANGED <<szix, count, amap>> /\ TUnch

\* tblSetElt
Set(k, v) == LET x == Bucket(HashOf[k], buckc) c == buckv[x] i == Find(c, k) IN
             /\ amap' = MapSet(amap, k, v)
             /\ lastop' = <<"set", k, v>>
             /\ IF i # 0
                THEN /\ buckv' = [buckv EXCEPT ![x] = [MoveToFront(c, i) EXCEPT ![1].elt = v]]
                     /\ UNCHANGED <<szix, count>>
                ELSE LET bv2 == [buckv EXCEPT ![x] = <<[key |-> k, elt |-> v, hash |-> HashOf[k]]>> \o c] IN
                     /\ count' = count + 1
                     /\ IF count + 1 > MaxLoad * buckc /\ szix < Len(Sizes)
                        THEN szix' = szix + 1 /\ buckv' = Enlarged(bv2, Sizes[szix + 1])
                        ELSE szix' = szix /\ buckv' = bv2
             /\ TUnch

\* tblDrop: after the search has moved the slot to the front, "t->buckv[x] = b->next"
Drop(k) == LET x == Bucket(HashOf[k], buckc) c == buckv[x] i == Find(c, k) IN
           /\ amap' = MapDrop(amap, k)
           /\ lastop' = <<"drop", k>>
           /\ IF i # 0 THEN buckv' = [buckv EXCEPT ![x] = Tail(MoveToFront(c, i))] /\ count' = count - 1
                       ELSE UNCHANGED <<buckv, count>>
           /\ UNCHANGED szix /\ TUnch

---------------------------------------------------------------------------
(* priq.c's heap: h[i] has children h[2i+1], h[2i+2] (0-based); here 1-based sequences. *)
Swap(h, i, j) == [h EXCEPT ![i] = h[j], ![j] = h[i]]
Par(i) == ((i - 2) \div 2) + 1                 \* 1-based parent of i >= 2

RECURSIVE SiftIn(_, _)
SiftIn(h, i) == IF i <= 1 THEN h
                ELSE IF h[Par(i)][1] < h[i][1] THEN h           \* heapSiftInward: stop when parent < child
                ELSE SiftIn(Swap(h, i, Par(i)), Par(i))

RECURSIVE SiftOut(_, _, _)
SiftOut(h, n, i) ==                                             \* heapSiftOutward over h[1..n]
  LET l == 2 * i  r == 2 * i + 1
      m1 == IF l <= n /\ h[l][1] <= h[i][1] THEN l ELSE i
      m2 == IF r <= n /\ h[r][1] <= h[m1][1] THEN r ELSE m1
  IN  IF m2 = i THEN h ELSE SiftOut(Swap(h, i, m2), n, m2)

PIns(k) == /\ Len(heap) < PMax /\ serial < SMax
           /\ serial' = serial + 1
           /\ heap' = SiftIn(Append(heap, <<k, serial + 1>>), Len(heap) + 1)
           /\ abag' = abag (+) SetToBag({<<k, serial + 1>>})
           /\ lastop' = <<"pins", k>>
           /\ HUnch

PExt == /\ Len(heap) > 0
        /\ LET n == Len(heap)
               h2 == SiftOut(Swap(heap, 1, n), n - 1, 1)       \* result is kept in slot n
           IN /\ heap' = SubSeq(h2, 1, n - 1)
              /\ abag' = abag (-) SetToBag({h2[n]})
              /\ lastop' = <<"pext", h2[n][1], h2[n][2], abag>>
        /\ UNCHANGED serial /\ HUnch

Next == IF Part = "T" THEN \E k \in Keys : Get(k) \/ Drop(k) \/ \E v \in Vals : Set(k, v)
        ELSE (\E k \in PKeys : PIns(k)) \/ PExt

\* the constants of the exhaustive configurations (a .cfg file cannot spell functions and sequences)
TinyHash == (0 :> 0 @@ 1 :> 0 @@ 2 :> 7 @@ 3 :> 1 @@ 4 :> 14)    \* 0,1 same hash; 2 and 4 share their bucket only
SmallSizes == <<2, 3, 7>>

Spec == Init /\ [][Next]_vars

---------------------------------------------------------------------------
AllSlots == FoldLeft(LAMBDA acc, c : acc \o c, <<>>, buckv)       \* the order tblITER walks

ChainsOk == /\ Len(buckv) = buckc
            /\ \A x \in 1..buckc : \A i \in 1..Len(buckv[x]) :
                 /\ Bucket(buckv[x][i].hash, buckc) = x
                 /\ buckv[x][i].hash = HashOf[buckv[x][i].key]
            /\ \A i, j \in 1..Len(AllSlots) : i # j => AllSlots[i].key # AllSlots[j].key

Refines == /\ {<<AllSlots[i].key, AllSlots[i].elt>> : i \in 1..Len(AllSlots)} = {<<k, amap[k]>> : k \in DOMAIN amap}
           /\ Len(AllSlots) = Cardinality(DOMAIN amap)       \* iteration visits each entry once
           /\ count = Cardinality(DOMAIN amap)               \* tblSize

\* what the last lookup returned is what the abstract map holds
GetOk == lastop[1] = "get" => /\ lastop[3] = (lastop[2] \in DOMAIN amap)
                              /\ (lastop[3] => lastop[4] = amap[lastop[2]])

HeapOrder   == \A i \in 2..Len(heap) : heap[Par(i)][1] <= heap[i][1]
HeapRefines == FoldLeft(LAMBDA acc, p : acc (+) SetToBag({p}), EmptyBag, heap) = abag
MinAtRoot   == Len(heap) > 0 => \A i \in 1..Len(heap) : heap[1][1] <= heap[i][1]
\* the pair priqExtractMin returned was in the queue and no key in the queue was smaller
ExtOk == lastop[1] = "pext" => /\ BagIn(<<lastop[2], lastop[3]>>, lastop[4])
                               /\ \A p \in BagToSet(lastop[4]) : lastop[2] <= p[1]
=============================================================================
