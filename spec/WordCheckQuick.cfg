SPECIFICATION Spec
CONSTANTS W = 8
          FullA = TRUE
          FullB = FALSE
INVARIANT AllOk
CHECK_DEADLOCK FALSE
