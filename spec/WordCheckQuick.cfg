SPECIFICATION Spec
CONSTANTS W = 8
          FullB = FALSE
INVARIANT AllOk
CHECK_DEADLOCK FALSE
