SPECIFICATION Spec
CONSTANTS MaxToggles = 1
INVARIANTS TypeOK AllOffIsEmpty Q0IsAllOff OIsQ2
CHECK_DEADLOCK FALSE
