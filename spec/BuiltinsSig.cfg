CONSTANTS SIntW = 64
          WordW = 64
