SPECIFICATION Spec
INVARIANTS PlanCoversBoundaries
CHECK_DEADLOCK FALSE
