CONSTANTS LGR = 3  LGI = 5  DA = 3  DB = 3  SIGNS = "nonneg"  MUT = ""
INIT Init
NEXT Next
INVARIANT Check
CHECK_DEADLOCK FALSE
