------------------------------ MODULE ReplUndo ------------------------------
(***************************************************************************)
(* The roll-back of a rejected step of the interactive loop, at the        *)
(* granularity of compGLoopEval / compFileFront / scopeBind (axlcomp.c,    *)
(* scobind.c); implementation-shaped companion of Repl.tla (C13).          *)
(*                                                                         *)
(* Every step increments intStepNo.  A step that gets as far as scope      *)
(* binding first *restores*: if the undo flag is set, the meanings created *)
(* by the step to be undone are removed from the file-level symbol table.  *)
(* Then it adds the meanings of its own declarations, tagged with the      *)
(* current step number.  A step rejected in scope binding or type          *)
(* inference sets the undo flag (scoSetUndoState); a step rejected by the  *)
(* parser or the macro expander never reaches scope binding.               *)
(*                                                                         *)
(*   Variant = "aswritten": `the step to be undone' is intStepNo - 1       *)
(*             (isNewSyme, isNewTForm, idInfoIsNew, declInfoIsNew)         *)
(*   Variant = "fixed":     it is the step that set the flag               *)
(*             (hooks/fix-C13-undo-step.diff)                              *)
(*                                                                         *)
(* Required (the second sentence of C13): when a form is entered, the      *)
(* table holds exactly the meanings of the accepted steps, so a form that  *)
(* declares a fresh name is never refused because of a rejected form.      *)
(* TLC: holds for "fixed"; for "aswritten" the counterexample is           *)
(*   Typed-rejected(x) ; Parse-rejected ; Good(x)  -- Good(x) is refused,   *)
(* which is the history shape `declaring-error-then-parse-error' that the  *)
(* replay of Repl.tla's histories reproduces on the real loop.             *)
(***************************************************************************)
EXTENDS Naturals, FiniteSets, Sequences

CONSTANTS Names,      \* names a form may declare
          MaxSteps,
          Variant     \* "aswritten" | "fixed"

VARIABLES step,       \* intStepNo
          table,      \* file-level symbol table: set of [n |-> name, s |-> step that created the meaning]
          accepted,   \* steps that were accepted
          undo,       \* scoUndoState
          undoStep,   \* the step that set it
          refused,    \* a well-typed form declaring a fresh name was refused
          log
uvars == <<step, table, accepted, undo, undoStep, refused, log>>

Stale(t, now) == IF Variant = "aswritten" THEN {m \in t : m.s = now - 1} ELSE {m \in t : m.s = undoStep}
Restore(now)  == IF undo THEN table \ Stale(table, now) ELSE table
Meanings(t, n) == {m \in t : m.n = n}
AcceptedNames == {m.n : m \in {x \in table : x.s \in accepted}}

(* a well-typed form that declares n (a name no accepted step has declared) *)
Good(n) ==
  /\ step < MaxSteps /\ n \notin AcceptedNames
  /\ LET now == step + 1  t == Restore(now) IN
       /\ step' = now /\ undo' = FALSE /\ undoStep' = undoStep
       /\ IF Meanings(t, n) = {}
          THEN table' = t \cup {[n |-> n, s |-> now]} /\ accepted' = accepted \cup {now} /\ refused' = refused
          ELSE \* a left-over meaning of a rejected step collides: the form is refused in scope binding
               table' = t \cup {[n |-> n, s |-> now]} /\ accepted' = accepted /\ refused' = TRUE
       /\ log' = Append(log, <<"good", n>>)
(* an ill-typed form that declares n: rejected in scope binding / type inference *)
TypedRejected(n) ==
  /\ step < MaxSteps
  /\ LET now == step + 1  t == Restore(now) IN
       /\ step' = now /\ table' = t \cup {[n |-> n, s |-> now]}
       /\ undo' = TRUE /\ undoStep' = now
       /\ UNCHANGED <<accepted, refused>>
       /\ log' = Append(log, <<"typed", n>>)
(* a form rejected by the parser or the macro expander: scope binding is not reached *)
ParseRejected ==
  /\ step < MaxSteps
  /\ step' = step + 1
  /\ UNCHANGED <<table, accepted, undo, undoStep, refused>>
  /\ log' = Append(log, <<"parse">>)
(* an empty step (comment, system command): scope binding runs on nothing *)
Empty ==
  /\ step < MaxSteps
  /\ LET now == step + 1 IN step' = now /\ table' = Restore(now) /\ undo' = FALSE
  /\ UNCHANGED <<accepted, undoStep, refused>>
  /\ log' = Append(log, <<"empty">>)

UInit == step = 0 /\ table = {} /\ accepted = {} /\ undo = FALSE /\ undoStep = 0 /\ refused = FALSE /\ log = <<>>
UNext == Empty \/ ParseRejected \/ \E n \in Names : Good(n) \/ TypedRejected(n)
USpec == UInit /\ [][UNext]_uvars

(* the session is usable: no well-typed form is refused because of a rejected one *)
NeverRefused == ~refused
(* whenever no roll-back is pending the table holds exactly the accepted meanings *)
CleanTable == ~undo => \A m \in table : m.s \in accepted
=============================================================================
