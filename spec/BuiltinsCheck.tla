---------------------------- MODULE BuiltinsCheck ----------------------------
(***************************************************************************)
(* Algebraic sanity of the definitions in Builtins.tla, exhaustively at    *)
(* SIntW = WordW = 8 against TLC's native integers: every pair (a, b) of   *)
(* 8-bit values is visited and every integer, boolean, character and       *)
(* conversion definition is compared with its meaning written with native  *)
(* arithmetic, or with an algebraic law (division identity, shift = times  *)
(* a power of two, de Morgan, scan o format = identity, ...).              *)
(***************************************************************************)
EXTENDS Builtins

CONSTANTS FullA, FullB     \* TRUE: all W-bit values; FALSE: a boundary set
VARIABLES a, b, ph, za, zb     \* za, zb: the BigZ forms of a, b (state variables: evaluated once)

W  == SIntW
Lo == -Pow2[W - 1]
Hi == Pow2[W - 1] - 1
BndA == {0, 1, -1, 2, -3, 7, 10, -10, 48, 57, 65, 97, -31, Hi, Lo, Lo + 1, 64, -64, 100, -100, 127 - 32}
RangeA == IF FullA THEN Lo..Hi ELSE {x \in BndA : x >= Lo /\ x <= Hi}
BndB == {0, 1, -1, 2, -2, 3, -3, 7, -7, 10, Hi, Hi - 1, Lo, Lo + 1, 15, 16, 17, -15, -16, -17, 31, 32, 33,
         63, 64, 65, -63, -64, -65, 100, -100}
RangeB == IF FullB THEN Lo..Hi ELSE {x \in BndB : x >= Lo /\ x <= Hi}

NWrap(n) == ((n + Pow2[W - 1]) % Pow2[W]) - Pow2[W - 1]
NU(n)    == n % Pow2[W]
NAbs(n)  == IF n < 0 THEN -n ELSE n
NSgn(n)  == IF n < 0 THEN -1 ELSE IF n > 0 THEN 1 ELSE 0
NQuo(x, y) == NSgn(x) * NSgn(y) * (NAbs(x) \div NAbs(y))
NRem(x, y) == x - y * NQuo(x, y)
RECURSIVE NGcd(_, _)
NGcd(x, y) == IF y = 0 THEN x ELSE NGcd(y, x % y)
RECURSIVE NLen(_)
NLen(n) == IF n = 0 THEN 0 ELSE 1 + NLen(n \div 2)

A == za
Bz == zb
D1(op, x) == Def(op, <<x>>)[1]
D2(op, x, y) == Def(op, <<x, y>>)[1]
D3(op, x, y, z) == Def(op, <<x, y, z>>)[1]
I1(op, x) == ToInt(D1(op, x))
I2(op, x, y) == ToInt(D2(op, x, y))

Init == a = 0 /\ b = 0 /\ ph = 0 /\ za = Zero /\ zb = Zero
Next == \/ /\ ph = 0 /\ a' \in RangeA /\ b' = 0 /\ ph' = 1 /\ za' = FromInt(a') /\ zb' = Zero
        \/ /\ ph = 1 /\ b' \in RangeB /\ a' = a /\ ph' = 2 /\ za' = za /\ zb' = FromInt(b')
Spec == Init /\ [][Next]_<<a, b, ph, za, zb>>

Consts ==
  /\ ToInt(Def("SIntMin", <<>>)[1]) = Lo /\ ToInt(Def("SIntMax", <<>>)[1]) = Hi
  /\ ToInt(Def("SInt0", <<>>)[1]) = 0 /\ ToInt(Def("SInt1", <<>>)[1]) = 1
  /\ ToInt(Def("ByteMax", <<>>)[1]) = 255 /\ ToInt(Def("HIntMin", <<>>)[1]) = -32768
  /\ ToInt(Def("HIntMax", <<>>)[1]) = 32767

Predicates ==
  /\ D1("SIntIsZero", A) = (a = 0) /\ D1("SIntIsNeg", A) = (a < 0) /\ D1("SIntIsPos", A) = (a > 0)
  /\ D1("SIntIsEven", A) = (a % 2 = 0) /\ D1("SIntIsOdd", A) = (a % 2 = 1)
  /\ D1("SIntIsOdd", A) = ~D1("SIntIsEven", A)
  /\ D2("SIntEQ", A, Bz) = (a = b) /\ D2("SIntNE", A, Bz) = (a # b)
  /\ D2("SIntLT", A, Bz) = (a < b) /\ D2("SIntLE", A, Bz) = (a <= b)
  /\ D1("BIntIsZero", A) = (a = 0) /\ D1("BIntIsNeg", A) = (a < 0) /\ D1("BIntIsPos", A) = (a > 0)
  /\ D1("BIntIsEven", A) = (a % 2 = 0) /\ D1("BIntIsOdd", A) = (a % 2 = 1)
  /\ D2("BIntEQ", A, Bz) = (a = b) /\ D2("BIntNE", A, Bz) = (a # b)
  /\ D2("BIntLT", A, Bz) = (a < b) /\ D2("BIntLE", A, Bz) = (a <= b)
  /\ D1("BIntIsSingle", A) = (NAbs(a) < Pow2[W - 1])

Arith ==
  /\ I2("SIntPlus", A, Bz) = NWrap(a + b) /\ I2("SIntMinus", A, Bz) = NWrap(a - b)
  /\ I2("SIntTimes", A, Bz) = NWrap(a * b) /\ I1("SIntNegate", A) = NWrap(-a)
  /\ I1("SIntPrev", A) = NWrap(a - 1) /\ I1("SIntNext", A) = NWrap(a + 1)
  /\ ToInt(D3("SIntTimesPlus", A, Bz, A)) = NWrap(a * b + a)
  /\ I2("SIntGcd", A, Bz) = NWrap(NGcd(NAbs(a), NAbs(b)))
  /\ I1("SIntLength", A) = NLen(NAbs(a))
  \* unbounded integers: no wrap
  /\ I2("BIntPlus", A, Bz) = a + b /\ I2("BIntMinus", A, Bz) = a - b /\ I2("BIntTimes", A, Bz) = a * b
  /\ I1("BIntNegate", A) = -a /\ I1("BIntPrev", A) = a - 1 /\ I1("BIntNext", A) = a + 1
  /\ ToInt(D3("BIntTimesPlus", A, Bz, A)) = a * b + a
  /\ I2("BIntGcd", A, Bz) = NGcd(NAbs(a), NAbs(b))
  /\ (a # 0 => I1("BIntLength", A) = NLen(NAbs(a)))

Division ==
  /\ InDomain("SIntQuo", <<A, Bz>>) = (b # 0 /\ ~(a = Lo /\ b = -1))
  /\ InDomain("SIntQuo", <<A, Bz>>) =>
       LET dv == Def("SIntDivide", <<A, Bz>>)
           q  == ToInt(dv[1])
           r  == ToInt(dv[2])
       IN /\ q = NQuo(a, b) /\ r = NRem(a, b)
          /\ D2("SIntQuo", A, Bz) = dv[1] /\ D2("SIntRem", A, Bz) = dv[2] /\ D2("SIntMod", A, Bz) = dv[2]
          /\ a = b * q + r /\ NAbs(r) < NAbs(b) /\ (r = 0 \/ NSgn(r) = NSgn(a))
          /\ ResultTyped("SIntDivide", <<A, Bz>>)
  /\ b # 0 =>
       LET dv == Def("BIntDivide", <<A, Bz>>)
       IN /\ ToInt(dv[1]) = NQuo(a, b) /\ ToInt(dv[2]) = NRem(a, b)
          /\ D2("BIntQuo", A, Bz) = dv[1] /\ D2("BIntRem", A, Bz) = dv[2] /\ D2("BIntMod", A, Bz) = dv[2]

Modular ==
  \A n \in {1, 2, 3, 7, 100, Hi} :
    LET x == NAbs(a) % n  y == NAbs(b) % n
        X == FromInt(x)  Y == FromInt(y)  N == FromInt(n)
    IN /\ InDomain("SIntPlusMod", <<X, Y, N>>)
       /\ ToInt(D3("SIntPlusMod", X, Y, N)) = (x + y) % n
       /\ ToInt(D3("SIntTimesMod", X, Y, N)) = (x * y) % n
       /\ ToInt(D3("SIntMinusMod", X, Y, N)) = NRem(x - y, n)
       /\ (ToInt(D3("SIntMinusMod", X, Y, N)) - (x - y)) % n = 0          \* congruent to the difference
       /\ ~InDomain("SIntPlusMod", <<N, Y, N>>) /\ ~InDomain("SIntPlusMod", <<X, Y, Zero>>)

Bits ==
  /\ I1("SIntNot", A) = -a - 1
  /\ Eq(D1("SIntNot", D2("SIntAnd", A, Bz)), D2("SIntOr", D1("SIntNot", A), D1("SIntNot", Bz)))   \* de Morgan
  /\ Eq(D2("SIntXOr", A, Bz), D2("SIntAnd", D2("SIntOr", A, Bz), D1("SIntNot", D2("SIntAnd", A, Bz))))
  /\ Eq(D2("SIntPlus", A, Bz),
        D2("SIntPlus", D2("SIntXOr", A, Bz), D2("SIntShiftUp", D2("SIntAnd", A, Bz), One)))       \* carry law
  /\ Eq(D2("SIntAnd", A, A), A) /\ Eq(D2("SIntOr", A, A), A) /\ IsZero(D2("SIntXOr", A, A))
  /\ Eq(D2("SIntAnd", A, Bz), D2("SIntAnd", Bz, A))
  /\ \A k \in 0..(W - 1) :
       LET K == FromInt(k) IN
       /\ InDomain("SIntShiftUp", <<A, K>>)
       /\ I2("SIntShiftUp", A, K) = NWrap(a * Pow2[k])
       /\ I2("SIntShiftDn", A, K) = a \div Pow2[k]
       /\ D2("SIntBit", A, K) = ((NU(a) \div Pow2[k]) % 2 = 1)
       /\ I2("BIntShiftUp", A, K) = a * Pow2[k]
       /\ I2("BIntShiftDn", A, K) = NSgn(a) * (NAbs(a) \div Pow2[k])      \* sign-magnitude
       /\ (a >= 0 => D2("BIntBit", A, K) = ((a \div Pow2[k]) % 2 = 1))
  /\ ~InDomain("SIntShiftUp", <<A, FromInt(W)>>) /\ ~InDomain("SIntShiftUp", <<A, FromInt(-1)>>)

Hash ==
  LET h == D2("SIntHashCombine", A, Bz)
  IN ~h.neg /\ BitLen(h) <= 30

BoolsChars ==
  LET p == a < 0  q == b < 0
      c == NU(a)  d == NU(b)             \* 0..255
  IN /\ D1("BoolNot", p) = ~p
     /\ D2("BoolAnd", p, q) = (p /\ q) /\ D2("BoolOr", p, q) = (p \/ q)
     /\ D2("BoolEQ", p, q) = (p <=> q) /\ D2("BoolNE", p, q) = ~(p <=> q)
     /\ D2("BoolNE", p, q) = D1("BoolNot", D2("BoolEQ", p, q))
     /\ D2("CharEQ", c, d) = (c = d) /\ D2("CharNE", c, d) = (c # d)
     /\ D2("CharLT", c, d) = (c < d) /\ D2("CharLE", c, d) = (c <= d)
     /\ D2("CharLE", c, d) = (D2("CharLT", c, d) \/ D2("CharEQ", c, d))
     /\ D1("CharIsDigit", c) = (c \in 48..57)
     /\ D1("CharIsLetter", c) = (c \in 65..90 \/ c \in 97..122)
     /\ D1("CharUpper", D1("CharLower", c)) = D1("CharUpper", c)
     /\ D1("CharLower", D1("CharUpper", c)) = D1("CharLower", c)
     /\ (D1("CharIsLetter", c) <=> D1("CharLower", c) # D1("CharUpper", c))
     /\ (~D1("CharIsLetter", c) => D1("CharLower", c) = c /\ D1("CharUpper", c) = c)
     /\ D1("CharNum", D1("CharOrd", c)) = c
     /\ ToInt(D1("CharOrd", c)) = c

Conversions ==
  /\ Eq(D1("SIntToBInt", A), A) /\ Eq(D1("BIntToSInt", A), A) /\ Specified("BIntToSInt", <<A>>)
  /\ ~Specified("BIntToSInt", <<FromInt(Hi + 1)>>) /\ ~Specified("BIntToSInt", <<FromInt(Lo - 1)>>)
  /\ Specified("SIntToByte", <<A>>) = (a >= 0)                        \* W = 8: SInt is -128..127, Byte 0..255
  /\ LET t == DecText(A) IN
       /\ (a >= 0 => InDomain("ArrToSInt", <<t>>) /\ Specified("ArrToSInt", <<t>>) /\ Eq(D1("ArrToSInt", t), A))
       /\ (a >= 0 => Eq(D1("ArrToBInt", t), A))
       /\ (a < 0 => ~InDomain("ArrToSInt", <<t>>))                    \* a sign is not part of a literal
       \* scan o format = identity, and the index arithmetic
       /\ Def("ScanSInt", <<t, Zero>>) = <<A, FromInt(Len(t))>>
       /\ Def("ScanBInt", <<t \o <<120>>, Zero>>) = <<A, FromInt(Len(t))>>
       /\ Def("FormatSInt", <<A, [i \in 1..8 |-> 32], FromInt(2)>>) = <<FromInt(2 + Len(t)), t>>
       /\ Len(t) = (IF a < 0 THEN 1 ELSE 0) + (IF NAbs(a) >= 100 THEN 3 ELSE IF NAbs(a) >= 10 THEN 2 ELSE 1)
  /\ D1("ArrToSInt", <<49, 54, 114, 55, 102>>) = FromInt(127)          \* 16r7f
  /\ D1("ArrToSInt", <<50, 114, 49, 48, 49>>) = FromInt(5)             \* 2r101
  /\ ~InDomain("ArrToSInt", <<<<50, 114, 49, 50>>>>)                   \* 2r12: digit out of range
  /\ ~InDomain("ArrToSInt", <<<<>>>>)

Words ==
  LET ua == FromInt(NU(a))  ub == FromInt(NU(b))
      td == Def("WordTimesDouble", <<ua, ub>>)
      ps == Def("WordPlusStep", <<ua, ub, One>>)
  IN /\ ToInt(td[1]) * Pow2[W] + ToInt(td[2]) = NU(a) * NU(b)
     /\ ToInt(ps[1]) * Pow2[W] + ToInt(ps[2]) = NU(a) + NU(b) + 1
     /\ (NU(a) < NU(b) =>
           LET dd == Def("WordDivideDouble", <<ua, ub, ub>>)
           IN /\ InDomain("WordDivideDouble", <<ua, ub, ub>>)
              /\ (ToInt(dd[1]) * Pow2[W] + ToInt(dd[2])) * NU(b) + ToInt(dd[3]) = NU(a) * Pow2[W] + NU(b)
              /\ ToInt(dd[3]) < NU(b) /\ ToInt(dd[1]) = 0)

NPow(x, e) == IF e = 0 THEN 1 ELSE x ^ e            \* 0^0 = 1 (TLC leaves it undefined)
Powers ==
  \A e \in {0, 1, 2, 3, 4} :
    LET E == FromInt(e) IN
    /\ (NAbs(a) <= 30 => I2("BIntSIPower", A, E) = NPow(a, e) /\ I2("BIntBIPower", A, E) = NPow(a, e))
    /\ (NAbs(a) <= 12 /\ b # 0 /\ NAbs(b) <= 20 =>
          ToInt(D3("BIntPowerMod", A, E, Bz)) = NRem(NPow(a, e), b))

Typing ==
  /\ \A o \in {"SIntPlus", "SIntMinus", "SIntTimes", "SIntAnd", "SIntOr", "SIntXOr", "SIntGcd",
               "SIntEQ", "SIntLT", "BIntPlus", "BIntTimes", "BIntGcd"} : ResultTyped(o, <<A, Bz>>)
  /\ \A o \in {"SIntNegate", "SIntNot", "SIntPrev", "SIntNext", "SIntLength", "SIntIsOdd", "SIntToBInt"} :
        ResultTyped(o, <<A>>)
  /\ Len(Table) = Cardinality(OpNames)                       \* names are unique
  /\ DefinedOps \subseteq OpNames

AllOk == ph = 2 => (Consts /\ Predicates /\ Arith /\ Division /\ Modular /\ Bits /\ Hash /\ BoolsChars
                    /\ Conversions /\ Words /\ Powers /\ Typing)
=============================================================================
