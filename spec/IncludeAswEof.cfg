\* C15 EOF-in-#if error position as written: EXPECTED violation (shares the serial number of the included file's last line)
CONSTANTS
  CNO = 2
  LNO = 3
  Packer = "required"
  Policy = "required"
  EofPolicy = "aswritten"
  FileNames = {"a", "b"}
  TopFile = "a"
  LineNames = {"a", "b"}
  LineNums = {1, 4}
  Cols = {1, 3, 4, 9}
  RunLens = {1, 2}
  MaxLines = 12
  MaxIf = 1
  MaxItems = 5
  Feat = {"if"}
  AvoidEofIf = FALSE
  AvoidCollide = FALSE
INIT Init
NEXT Next
CHECK_DEADLOCK FALSE
INVARIANT PosFaithful
