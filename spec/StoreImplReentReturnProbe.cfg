\* PROBE (TLC must report NoRisk violated; known finding): the order the code uses.  A collection that starts inside stoFree /
\* stoAlloc (page request of mxmemLink) can give back the section of the half-done piece, or leave free neighbours unmerged
\* so that a later collection gives back a section that still has entries in the free index.
SPECIFICATION Spec
CONSTANTS
  PgSize = 8
  HeadUnits = 2
  FixedSizes <- FS12
  MxHead = 1
  PgGroup = 2
  MixedPgGroup = 2
  MaxPages = 9
  ReqSizes = {3, 5, 12}
  Codes = {0}
  PtrFreeCodes = {1}
  Tags = {1}
  NRoots = 1
  MaxLive = 3
  MaxOps = 5
  GraphOps = TRUE
  Probe = "none"
  CarPerPage = 1
  Reentrant = TRUE
  FlagFirst = FALSE
  SplitPoint = FALSE
  CutAtRisk = FALSE
INVARIANT NoRisk

VIEW View
CHECK_DEADLOCK FALSE
