-------------------------- MODULE TraceContainers --------------------------
(***************************************************************************)
(* Trace validation for the container part of C20.  The trace (ndjson,     *)
(* IOEnv.TRACE) was written by harness/containers_drv.c: one event per     *)
(* call of a public operation of table.c / btree.c / priq.c / bitv.c with  *)
(* the arguments and everything the call returned; histories are           *)
(* separated by Reset events.                                              *)
(*                                                                         *)
(* Each disjunct of TraceNext is "the next event is this call" conjoined   *)
(* with the action of Containers.tla for that call.  When the recorded     *)
(* results do not satisfy the action (or the call did not return, or the   *)
(* store guard saw a write outside a block / a free of a non-block), TLC   *)
(* prints a BAD record and the step is still taken with the state the      *)
(* model requires, so that one run classifies every history in the file.   *)
(* A trace is accepted iff TLC reaches its end without printing BAD.       *)
(* The classification fields of a BAD record (why, info, taint) are        *)
(* computed here; the Python side only forwards them.                      *)
(***************************************************************************)
EXTENDS Containers, IOUtils

Trc == ndJsonDeserialize(IOEnv.TRACE)

VARIABLES l,        \* index of the next event
          cs,       \* case number of the current history (from Reset)
          taint     \* reasons why the rest of this history is outside the model
tvars == <<l, cs, taint>>

Has(e, f)      == f \in DOMAIN e
Fld(e, f, d)   == IF f \in DOMAIN e THEN e[f] ELSE d
Outcome(e)     == Fld(e, "o", "ok")
Mem(e)         == Fld(e, "mem", "ok")

Bad(e, why, info) ==
  PrintT("BAD " \o ToJson([l |-> l, case |-> cs, ev |-> e.ev, why |-> why, info |-> info,
                           taint |-> SetToSeq(taint), o |-> Outcome(e), mem |-> Mem(e), event |-> e]))

(* Act: if the call returned, memory was respected and the results satisfy the    *)
(* action's condition, the step is the spec action itself; otherwise BAD is       *)
(* printed and `forced` moves the model to the state the specification requires.  *)
Act(e, ok, action, forced, info) ==
  IF Outcome(e) # "ok" THEN Bad(e, "outcome", info) /\ forced
  ELSE IF Mem(e) # "ok" THEN Bad(e, "memory", info) /\ forced
  ELSE IF ~ok THEN Bad(e, "result", info) /\ forced
  ELSE action

IsEvent(n) == l <= Len(Trc) /\ Trc[l].ev = n /\ l' = l + 1
Keep       == UNCHANGED <<cs, taint, hist>>

(* observations piggybacked on an event (the harness dumps the whole container after
   every call of a short history) *)
TObsOk(m, c, e) == /\ Has(e, "it")  => TIterOk(m, e.it) /\ TSizeOk(m, e.n)
                   /\ Has(e, "cit") => c.has /\ TIterOk(c.m, e.cit) /\ TSizeOk(c.m, e.cn)
BObsOk(b, e)    == /\ Has(e, "rc") => BCheckOk(e.rc)
                   /\ Has(e, "it") => BDumpOk(b, e.it)
                   /\ Has(e, "mm") => /\ BMinOk(b, e.mm[1][1] = 1, e.mm[1][2], e.mm[1][3])
                                      /\ BMaxOk(b, e.mm[2][1] = 1, e.mm[2][2], e.mm[2][3])
                   /\ Has(e, "srch") => \A i \in 1..Len(e.srch) :
                                           LET s == e.srch[i] IN /\ BEqOk(b, s[1], s[2] = 1, s[3], s[4])
                                                                 /\ BGeOk(b, s[1], s[5] = 1, s[6], s[7])
PObsOk(q, e)    == /\ Has(e, "n")  => PCountOk(q, e.n)
                   /\ Has(e, "it") => PMapOk(q, e.it)
                   /\ Has(e, "peek") => PMinOk(q, e.peek[1], e.peek[2])
VObsOk(v, n, e) == /\ Has(e, "d") => \A r \in DOMAIN v : ToSet(e.d[r + 1]) = v[r]
                   /\ Has(e, "cnt")  => \A r \in DOMAIN v : e.cnt[r + 1] = Cardinality(v[r])
                   /\ Has(e, "max")  => \A r \in DOMAIN v : e.max[r + 1] = VMaxOf(v[r])
                   /\ Has(e, "uniq") => \A r \in DOMAIN v : e.uniq[r + 1] = VUniq(v[r], 0, n)
                   /\ Has(e, "int")  => \A r \in DOMAIN v : e.int[r + 1] = VToInt(v[r])
                   /\ Has(e, "eq")   => e.eq = (v[0] = v[1])
                   /\ Has(e, "cto")  => \A r \in DOMAIN v : \A k \in 0..n : e.cto[r + 1][k + 1] = VCountTo(v[r], k)

---------------------------------------------------------------------------
EvReset == /\ IsEvent("Reset")
           /\ tbl' = EmptyMap /\ cp' = NoCopy /\ bt' = EmptyBag /\ pq' = EmptyBag
           /\ bv' = [r \in {} |-> {}] /\ nb' = 0
           /\ cs' = Fld(Trc[l], "case", -1) /\ taint' = {} /\ UNCHANGED hist

EvNew == /\ (IsEvent("TNew") \/ IsEvent("BNew") \/ IsEvent("PNew"))
         /\ LET e == Trc[l] IN Act(e, TRUE, UNCHANGED cvars, UNCHANGED cvars, "")
         /\ Keep

(* ---- table ---- *)
EvTSet == /\ IsEvent("TSet") /\ Keep
          /\ LET e == Trc[l] m2 == MapSet(tbl, e.k, e.v) IN
             Act(e, TSetOk(tbl, e.k, e.v, e.r) /\ TObsOk(m2, cp, e),
                 TblSet(e.k, e.v, e.r),
                 tbl' = m2 /\ UNCHANGED <<cp,bt,pq,bv,nb>>, "")
EvTGet == /\ IsEvent("TGet") /\ Keep
          /\ LET e == Trc[l] IN
             Act(e, TGetOk(tbl, e.k, e.f, Fld(e, "v", 0)) /\ TObsOk(tbl, cp, e),
                 TblGet(e.k, e.f, Fld(e, "v", 0)), UNCHANGED cvars, "")
EvTDrop == /\ IsEvent("TDrop") /\ Keep
           /\ LET e == Trc[l] m2 == MapDrop(tbl, e.k) IN
              Act(e, TObsOk(m2, cp, e), TblDrop(e.k), tbl' = m2 /\ UNCHANGED <<cp,bt,pq,bv,nb>>, "")
EvTSize == /\ IsEvent("TSize") /\ Keep
           /\ LET e == Trc[l] IN Act(e, TSizeOk(tbl, e.n), TblSize(e.n), UNCHANGED cvars, "")
EvTIter == /\ IsEvent("TIter") /\ Keep
           /\ LET e == Trc[l] IN
              Act(e, TIterOk(tbl, e.it) /\ TObsOk(tbl, cp, e), TblIter(e.it), UNCHANGED cvars, "")
EvTCopy == /\ IsEvent("TCopy") /\ Keep
           /\ LET e == Trc[l] c2 == [has |-> TRUE, m |-> tbl] IN
              Act(e, TObsOk(tbl, c2, e), TblCopy, cp' = c2 /\ UNCHANGED <<tbl,bt,pq,bv,nb>>, "")
EvTSwap == /\ IsEvent("TSwap") /\ Keep
           /\ LET e == Trc[l] c2 == [has |-> TRUE, m |-> tbl] IN
              Act(e, cp.has /\ TObsOk(cp.m, c2, e), TblSwap,
                  tbl' = cp.m /\ cp' = c2 /\ UNCHANGED <<bt,pq,bv,nb>>, "")
EvTRemIf == /\ IsEvent("TRemIf") /\ Keep
            /\ LET e == Trc[l] m2 == MapRemIf(tbl) IN
               Act(e, TRemIfOk(tbl, e.freed) /\ TObsOk(m2, cp, e), TblRemIf(e.freed),
                   tbl' = m2 /\ UNCHANGED <<cp,bt,pq,bv,nb>>, "")
EvTMap == /\ IsEvent("TMap") /\ Keep
          /\ LET e == Trc[l] m2 == MapAdd(tbl, e.add) IN
             Act(e, TObsOk(m2, cp, e), TblMap(e.add), tbl' = m2 /\ UNCHANGED <<cp,bt,pq,bv,nb>>, "")

(* ---- B-tree ---- *)
EvBIns == /\ IsEvent("BIns") /\ Keep
          /\ LET e == Trc[l] b2 == BInsPost(bt, e.k, e.e) IN
             Act(e, BObsOk(b2, e), BtIns(e.k, e.e), bt' = b2 /\ UNCHANGED <<tbl,cp,pq,bv,nb>>, "")
EvBDel == /\ IsEvent("BDel") /\ Keep
          /\ LET e == Trc[l] IN
             IF Has(e, "skip")
             THEN Act(e, BSkipOk(bt, e.k), UNCHANGED cvars, UNCHANGED cvars, "skipped-but-present")
             ELSE LET b2 == BDelPost(bt, e.k, Fld(e, "e", -1)) IN
                  Act(e, BDelOk(bt, e.k, e.e) /\ BObsOk(b2, e), BtDel(e.k, e.e),
                      bt' = b2 /\ UNCHANGED <<tbl,cp,pq,bv,nb>>, "")
EvBEq == /\ IsEvent("BEq") /\ Keep
         /\ LET e == Trc[l] IN
            Act(e, BEqOk(bt, e.k, e.f, Fld(e,"rk",0), Fld(e,"e",0)),
                BtEq(e.k, e.f, Fld(e,"rk",0), Fld(e,"e",0)), UNCHANGED cvars, "")
EvBGe == /\ IsEvent("BGe") /\ Keep
         /\ LET e == Trc[l] IN
            Act(e, BGeOk(bt, e.k, e.f, Fld(e,"rk",0), Fld(e,"e",0)),
                BtGe(e.k, e.f, Fld(e,"rk",0), Fld(e,"e",0)), UNCHANGED cvars, "")
EvBMin == /\ IsEvent("BMin") /\ Keep
          /\ LET e == Trc[l] IN
             Act(e, BMinOk(bt, e.f, Fld(e,"rk",0), Fld(e,"e",0)),
                 BtMin(e.f, Fld(e,"rk",0), Fld(e,"e",0)), UNCHANGED cvars, "")
EvBMax == /\ IsEvent("BMax") /\ Keep
          /\ LET e == Trc[l] IN
             Act(e, BMaxOk(bt, e.f, Fld(e,"rk",0), Fld(e,"e",0)),
                 BtMax(e.f, Fld(e,"rk",0), Fld(e,"e",0)), UNCHANGED cvars, "")
EvBCheck == /\ (IsEvent("BCheck") \/ IsEvent("BDump")) /\ Keep
            /\ LET e == Trc[l] IN
               Act(e, BObsOk(bt, e), BtCheck(e.rc) /\ (Has(e, "it") => BDumpOk(bt, e.it)), UNCHANGED cvars, "")

(* ---- priority queue ---- *)
EvPIns == /\ IsEvent("PIns") /\ Keep
          /\ LET e == Trc[l] q2 == PInsPost(pq, e.k, e.e) IN
             Act(e, PObsOk(q2, e), PqIns(e.k, e.e), pq' = q2 /\ UNCHANGED <<tbl,cp,bt,bv,nb>>, "")
\* on the empty queue the only acceptable outcome is that the call is refused (bug())
EvPExt == /\ IsEvent("PExt") /\ Keep
          /\ LET e == Trc[l] IN
             IF Has(e, "empty")
             THEN /\ UNCHANGED cvars
                  /\ IF pq # EmptyBag THEN Bad(e, "result", "count-says-empty")
                     ELSE IF Outcome(e) = "ok" THEN Bad(e, "empty-not-refused", "") ELSE TRUE
             ELSE LET q2 == PExtPost(pq, Fld(e,"k",-1), Fld(e,"e",-1)) IN
                  Act(e, PMinOk(pq, e.k, e.e) /\ PObsOk(q2, e), PqExt(e.k, e.e),
                      pq' = q2 /\ UNCHANGED <<tbl,cp,bt,bv,nb>>, "")
EvPPeek == /\ IsEvent("PPeek") /\ Keep
           /\ LET e == Trc[l] IN
              IF Has(e, "empty")
              THEN /\ UNCHANGED cvars
                   /\ IF pq # EmptyBag THEN Bad(e, "result", "count-says-empty")
                      ELSE IF Outcome(e) = "ok" THEN Bad(e, "empty-not-refused", "") ELSE TRUE
              ELSE Act(e, PMinOk(pq, e.k, e.e) /\ PObsOk(pq, e), PqPeek(e.k, e.e), UNCHANGED cvars, "")
EvPCheck == /\ IsEvent("PCheck") /\ Keep
            /\ LET e == Trc[l] IN
               Act(e, e.ok, PqCheck(e.ok), UNCHANGED cvars,
                   IF PHasDupKeys(pq) THEN "equal-keys-present" ELSE "keys-distinct")
EvPCount == /\ IsEvent("PCount") /\ Keep
            /\ LET e == Trc[l] IN Act(e, PObsOk(pq, e), PqCount(e.n), UNCHANGED cvars, "")

(* ---- bit vectors ---- *)
EvVNew == /\ IsEvent("VNew") /\ UNCHANGED <<cs, taint, hist>>
          /\ LET e == Trc[l] IN
             /\ Act(e, TRUE, TRUE, TRUE, "")
             /\ bv' = [r \in 0..(e.R - 1) |-> {}] /\ nb' = e.n /\ UNCHANGED <<tbl,cp,bt,pq>>

VForced(r, S) == bv' = [bv EXCEPT ![r] = S] /\ UNCHANGED <<tbl,cp,bt,pq,nb>>
VMut(name, action(_), post(_)) ==
  /\ IsEvent(name) /\ Keep
  /\ LET e == Trc[l] IN
     Act(e, VObsOk([bv EXCEPT ![e.r] = post(e)], nb, e), action(e), VForced(e.r, post(e)),
         IF taint = {} THEN "" ELSE "tainted")

EvVSet    == VMut("VSet",    LAMBDA e : BvSet(e.r, e.i),        LAMBDA e : bv[e.r] \cup {e.i})
EvVClr    == VMut("VClr",    LAMBDA e : BvClr(e.r, e.i),        LAMBDA e : bv[e.r] \ {e.i})
EvVSetAll == VMut("VSetAll", LAMBDA e : BvSetAll(e.r),          LAMBDA e : Univ(nb))
EvVClrAll == VMut("VClrAll", LAMBDA e : BvClrAll(e.r),          LAMBDA e : {})
EvVCopy   == VMut("VCopy",   LAMBDA e : BvCopy(e.r, e.a),       LAMBDA e : bv[e.a])
EvVNot    == VMut("VNot",    LAMBDA e : BvNot(e.r, e.a),        LAMBDA e : Univ(nb) \ bv[e.a])
EvVAnd    == VMut("VAnd",    LAMBDA e : BvAnd(e.r, e.a, e.b),   LAMBDA e : bv[e.a] \cap bv[e.b])
EvVOr     == VMut("VOr",     LAMBDA e : BvOr(e.r, e.a, e.b),    LAMBDA e : bv[e.a] \cup bv[e.b])
EvVMinus  == VMut("VMinus",  LAMBDA e : BvMinus(e.r, e.a, e.b), LAMBDA e : bv[e.a] \ bv[e.b])
EvVFromInt == VMut("VFromInt", LAMBDA e : BvFromInt(e.r, e.x),  LAMBDA e : VOfInt(nb, e.x))

VObsEv(name, ok(_), action(_)) ==
  /\ IsEvent(name) /\ Keep
  /\ LET e == Trc[l] IN Act(e, ok(e), action(e), UNCHANGED cvars, IF taint = {} THEN "" ELSE "tainted")

EvVTest    == VObsEv("VTest",    LAMBDA e : e.b = (IF e.i \in bv[e.r] THEN 1 ELSE 0), LAMBDA e : BvTest(e.r, e.i, e.b))
EvVCount   == VObsEv("VCount",   LAMBDA e : e.c = Cardinality(bv[e.r]),               LAMBDA e : BvCount(e.r, e.c))
EvVCountTo == VObsEv("VCountTo", LAMBDA e : e.c = VCountTo(bv[e.r], e.n),             LAMBDA e : BvCountTo(e.r, e.n, e.c))
EvVMax     == VObsEv("VMax",     LAMBDA e : e.m = VMaxOf(bv[e.r]),                    LAMBDA e : BvMax(e.r, e.m))
EvVEq      == VObsEv("VEq",      LAMBDA e : e.q = (bv[e.a] = bv[e.b]),                LAMBDA e : BvEq(e.a, e.b, e.q))
EvVToInt   == VObsEv("VToInt",   LAMBDA e : e.x = VToInt(bv[e.r]),                    LAMBDA e : BvToInt(e.r, e.x))
EvVUniq    == VObsEv("VUniq",    LAMBDA e : e.u = VUniq(bv[e.r], e.org, e.lim),       LAMBDA e : BvUniq(e.r, e.org, e.lim, e.u))
EvVDump    == VObsEv("VDump",    LAMBDA e : VObsOk(bv, nb, e),                           LAMBDA e : UNCHANGED cvars)

\* A resize that needs more words is where bitv.c frees a pointer it has advanced; the rest of
\* such a history runs on whatever the allocator made of that, which the BAD records say.
EvVResize ==
  /\ IsEvent("VResize") /\ UNCHANGED <<cs, hist>>
  /\ LET e == Trc[l]
         grows == Words(e.n) > Words(nb) /\ Words(nb) > 0
         d == IF Has(e, "d") THEN [r \in DOMAIN bv |-> ToSet(e.d[r + 1])]
                             ELSE [r \in DOMAIN bv |-> bv[r] \cap Univ(e.n)]
     IN /\ taint' = IF grows THEN taint \cup {"bitvResize-more-words"} ELSE taint
        /\ Act(e, VResizeOk(bv, nb, e.n, d) /\ VObsOk(d, e.n, e), BvResize(e.n, d),
               bv' = [r \in DOMAIN bv |-> d[r] \cap Univ(e.n)] /\ nb' = e.n /\ UNCHANGED <<tbl,cp,bt,pq>>,
               IF grows THEN "more-words" ELSE "same-or-fewer-words")

(* a failed free at the end of a history, a fault outside a call, or an event the
   specification has no action for *)
Known == {"Reset","TNew","BNew","PNew","TSet","TGet","TDrop","TSize","TIter","TCopy","TSwap","TRemIf","TMap",
          "BIns","BDel","BEq","BGe","BMin","BMax","BCheck","BDump","PIns","PExt","PPeek","PCheck","PCount",
          "VNew","VSet","VClr","VSetAll","VClrAll","VCopy","VNot","VAnd","VOr","VMinus","VFromInt",
          "VTest","VCount","VCountTo","VMax","VEq","VToInt","VUniq","VDump","VResize"}
EvOther == /\ l <= Len(Trc) /\ Trc[l].ev \notin Known /\ l' = l + 1
           /\ Bad(Trc[l], "no-spec-action", IF taint = {} THEN "" ELSE "tainted")
           /\ UNCHANGED cvars /\ Keep

TraceInit == /\ Init /\ l = 1 /\ cs = -1 /\ taint = {}

TraceNext ==
  \/ EvReset \/ EvNew
  \/ EvTSet \/ EvTGet \/ EvTDrop \/ EvTSize \/ EvTIter \/ EvTCopy \/ EvTSwap \/ EvTRemIf \/ EvTMap
  \/ EvBIns \/ EvBDel \/ EvBEq \/ EvBGe \/ EvBMin \/ EvBMax \/ EvBCheck
  \/ EvPIns \/ EvPExt \/ EvPPeek \/ EvPCheck \/ EvPCount
  \/ EvVNew \/ EvVSet \/ EvVClr \/ EvVSetAll \/ EvVClrAll \/ EvVCopy \/ EvVNot \/ EvVAnd \/ EvVOr \/ EvVMinus
  \/ EvVFromInt \/ EvVTest \/ EvVCount \/ EvVCountTo \/ EvVMax \/ EvVEq \/ EvVToInt \/ EvVUniq \/ EvVDump
  \/ EvVResize \/ EvOther

TraceSpec == TraceInit /\ [][TraceNext]_<<vars, tvars>>

TraceTypeOK == TypeOK /\ l \in 1..(Len(Trc) + 1)

\* the whole file was consumed (every event matched a disjunct of TraceNext)
TraceAccepted == TLCGet("stats").diameter = Len(Trc) + 1
=============================================================================
