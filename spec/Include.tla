------------------------------ MODULE Include ------------------------------
(***************************************************************************)
(* The source includer of include.c as a state machine over abstract       *)
(* lines, together with the global line table it drives (SrcPos).  (C15)   *)
(*                                                                         *)
(* One action per abstract item the includer reads from the current file:  *)
(*   DoLines(n, toks)   n physical non-directive lines (code, blank,        *)
(*                      comment); toks = the tokens on them whose positions *)
(*                      are remembered: [j |-> line in run, c |-> 1-based   *)
(*                      column (0 = every column of Cols), id |-> tag]      *)
(*   DoInclude(f, k)    #include "f"                                        *)
(*   DoLineDir(n, nm)   #line n ["nm"]                                      *)
(*   DoIf/DoElseif/DoElse/DoEndif, DoAssert (#assert/#unassert/#includeDir),*)
(*   DoUnknown (any other #xxx line, e.g. #library, #error, #pile)          *)
(*   DoEOF(k)           end of the current file                             *)
(* The `k' parameters tag the position of the directive line itself (the   *)
(* one SysCmdLine() creates; includer errors and #error are reported       *)
(* there); 0 = do not remember it.                                         *)
(*                                                                         *)
(* State: the include stack (fileState saved in the C recursion; each      *)
(* frame has the real file, the current name curFname -- #line can rename  *)
(* it --, lineNumber and the stack of IfStates of the nested #if           *)
(* recursion), the serial line number inclSerialLineNo, the line table,    *)
(* the set of files already included (includedFileCodes), the remembered   *)
(* positions.                                                              *)
(*                                                                         *)
(* What a position was created FOR (file rf, local line rl, column c) is   *)
(* the includer's per-frame bookkeeping: a frame's name and line number    *)
(* start at (file, 0), every physical line adds 1, an active `#line n [f]' *)
(* makes the next line n (of f), #include pushes a frame and end of file   *)
(* pops it.  PosFaithful says that packing + table + decoding give exactly *)
(* that back, in every later state.                                        *)
(*                                                                         *)
(* Three places where the code as written and the property part are both   *)
(* modelled, selected by constants:                                        *)
(*   Packer     column handling of the packed word       (SrcPos)          *)
(*   Policy     when sposNew starts a new table segment  (SrcPos)          *)
(*   EofPolicy  global line used for the "end of file in #if" error        *)
(***************************************************************************)
EXTENDS SrcPos, TLC, FiniteSets

CONSTANTS Packer,       \* "aswritten" | "required"
          Policy,       \* "aswritten" | "required"
          EofPolicy     \* "aswritten" | "required"

VARIABLES stack, glno, T, included, wits, done

ivars == << stack, glno, T, included, wits, done >>

\* lastg: serial number of the last physical line read in this frame
Frame(f) == [file |-> f, fname |-> f, lno |-> 0, ifs |-> << "NoIf" >>, lastg |-> 0]

InitFor(topName) ==
  /\ stack = << Frame(topName) >>
  /\ glno = 0
  /\ T = TblInit
  /\ included = {topName}
  /\ wits = << >>
  /\ done = FALSE

\* the same as a step (start of the next compilation: sposInit, includeFile)
ResetFor(topName) ==
  /\ stack' = << Frame(topName) >>
  /\ glno' = 0
  /\ T' = TblInit
  /\ included' = {topName}
  /\ wits' = << >>
  /\ done' = FALSE

Top            == stack[Len(stack)]
IfTop(fr)      == fr.ifs[Len(fr.ifs)]
Including(fr)  == IfTop(fr) \in {"NoIf", "ActiveIf"}        \* INCLUDING(ifState)
SetTop(fr)     == [stack EXCEPT ![Len(stack)] = fr]
SetIf(fr, s)   == [fr EXCEPT !.ifs[Len(fr.ifs)] = s]
PushIf(fr, s)  == [fr EXCEPT !.ifs = Append(fr.ifs, s)]
PopIf(fr)      == [fr EXCEPT !.ifs = SubSeq(fr.ifs, 1, Len(fr.ifs) - 1)]
Active         == {stack[i].file : i \in 1..Len(stack)}
Adv(fr, n)     == [fr EXCEPT !.lno = fr.lno + n, !.lastg = glno + n]   \* lineNumber += n

\* k successive calls sposNew(fn, flno, g, 1) (same arguments)
RECURSIVE NewTimes(_, _, _, _, _)
NewTimes(Tb, fn, flno, g, k) ==
  IF k = 0 THEN Tb ELSE NewTimes(SposNew(Tb, fn, flno, g, 1, Policy)[1], fn, flno, g, k - 1)

\* calls of sposNew for n consecutive lines starting at (flno, g)
RECURSIVE NewRun(_, _, _, _, _)
NewRun(Tb, fn, flno, g, n) ==
  IF n = 0 THEN Tb ELSE NewRun(SposNew(Tb, fn, flno, g, 1, Policy)[1], fn, flno + 1, g + 1, n - 1)

\* a remembered position: token in column c of global line g, created for (rf, rl).
\* The packed word itself is Pack(Packer, g, c) (for a directive line, c = 1:
\* sposSet(g, 1) = sposOffset(sposSet(g, 1), 0)).
Wit(g, fr, rl, c, id) == [g |-> g, rf |-> fr.fname, rl |-> rl, c |-> c, id |-> id]

DirWit(fr1, g, k) == IF k = 0 THEN << >> ELSE << Wit(g, fr1, fr1.lno, 1, k) >>

----------------------------------------------------------------------------
(* inclLine, non-directive branch, n times.  Only the first of n            *)
(* consecutive calls of sposNew can grow the table (RunLemma below).         *)
DoLines(n, toks) ==
  /\ ~done /\ n >= 1
  /\ LET fr == Top IN
     /\ stack' = SetTop(Adv(fr, n))
     /\ glno' = glno + n
     /\ IF Including(fr)
        THEN /\ T' = SposNew(T, fr.fname, fr.lno + 1, glno + 1, 1, Policy)[1]
             /\ wits' = wits \o [i \in 1..Len(toks) |->
                                   Wit(glno + toks[i].j, fr, fr.lno + toks[i].j, toks[i].c, toks[i].id)]
        ELSE /\ T' = T
             /\ wits' = wits
  /\ UNCHANGED << included, done >>

RunLemma(n) ==
  LET fr == Top IN
  Including(fr) => NewRun(T, fr.fname, fr.lno + 1, glno + 1, n) = T'

\* inclHandleInclude: SysCmdLine first, then inclFile
DoInclude(f, k) ==
  /\ ~done
  /\ LET fr  == Top
         fr1 == Adv(fr, 1)
         g   == glno + 1
     IN
     /\ glno' = g
     /\ IF Including(fr)
        THEN /\ T' = NewTimes(T, fr1.fname, fr1.lno, g, 1)
             /\ wits' = wits \o DirWit(fr1, g, k)
             /\ IF f \in included            \* already included once: nothing
                THEN stack' = SetTop(fr1) /\ included' = included
                ELSE stack' = Append(SetTop(fr1), Frame(f)) /\ included' = included \cup {f}
        ELSE /\ stack' = SetTop(fr1)
             /\ UNCHANGED << T, wits, included >>
  /\ UNCHANGED done

\* inclHandleLine: no position is created, the table is grown directly
DoLineDir(n, nm) ==
  /\ ~done
  /\ LET fr == Top
         g  == glno + 1
     IN
     /\ glno' = g
     /\ IF Including(fr)
        THEN LET fr1 == [fr EXCEPT !.lno = n - 1, !.lastg = g,
                                   !.fname = IF nm = NoName THEN fr.fname ELSE nm] IN
             /\ stack' = SetTop(fr1)
             /\ T' = TblGrow(T, fr1.fname, fr1.lno, g)
        ELSE /\ stack' = SetTop(Adv(fr, 1))
             /\ T' = T
  /\ UNCHANGED << included, wits, done >>

\* inclHandleIf
DoIf(on, k) ==
  /\ ~done
  /\ LET fr  == Top
         fr1 == Adv(fr, 1)
         g   == glno + 1
     IN
     /\ glno' = g
     /\ IF Including(fr)
        THEN /\ T' = NewTimes(T, fr1.fname, fr1.lno, g, 1)
             /\ wits' = wits \o DirWit(fr1, g, k)
             /\ stack' = SetTop(PushIf(fr1, IF on THEN "ActiveIf" ELSE "InactiveIf"))
        ELSE /\ stack' = SetTop(PushIf(fr1, "FormerlyActiveIf"))
             /\ UNCHANGED << T, wits >>
  /\ UNCHANGED << included, done >>

\* inclHandleElseif / inclHandleElse / inclHandleEndif: SysCmdLine is evaluated
\* unconditionally; an unbalanced directive is an error reported at the line
\* (inclError calls sposNew a second time).
DirAlways(next(_), k) ==
  /\ ~done
  /\ LET fr  == Top
         fr1 == Adv(fr, 1)
         g   == glno + 1
         bad == IfTop(fr) = "NoIf"
     IN
     /\ glno' = g
     /\ T' = NewTimes(T, fr1.fname, fr1.lno, g, IF bad THEN 2 ELSE 1)
     /\ wits' = wits \o DirWit(fr1, g, k)
     /\ stack' = SetTop(IF bad THEN fr1 ELSE next(fr1))
  /\ UNCHANGED << included, done >>

DoElseif(on, k) ==
  DirAlways(LAMBDA fr : CASE IfTop(fr) = "InactiveIf" -> IF on THEN SetIf(fr, "ActiveIf") ELSE fr
                          [] IfTop(fr) = "ActiveIf"   -> SetIf(fr, "FormerlyActiveIf")
                          [] OTHER                    -> SetIf(fr, "FormerlyActiveIf"), k)

DoElse(k) ==
  DirAlways(LAMBDA fr : CASE IfTop(fr) = "ActiveIf"   -> SetIf(fr, "InactiveIf")
                          [] IfTop(fr) = "InactiveIf" -> SetIf(fr, "ActiveIf")
                          [] OTHER                    -> fr, k)

DoEndif(k) == DirAlways(LAMBDA fr : PopIf(fr), k)

\* #assert / #unassert / #includeDir: a handled system command when including
DoAssert(k) ==
  /\ ~done
  /\ LET fr  == Top
         fr1 == Adv(fr, 1)
         g   == glno + 1
     IN
     /\ glno' = g
     /\ stack' = SetTop(fr1)
     /\ IF Including(fr)
        THEN /\ T' = NewTimes(T, fr1.fname, fr1.lno, g, 1)
             /\ wits' = wits \o DirWit(fr1, g, k)
        ELSE UNCHANGED << T, wits >>
  /\ UNCHANGED << included, done >>

\* inclHandleUnknown: sposNew in both branches; the line reaches the later
\* phases (and can carry a message, e.g. #error) only when including
DoUnknown(k) ==
  /\ ~done
  /\ LET fr  == Top
         fr1 == Adv(fr, 1)
         g   == glno + 1
     IN
     /\ glno' = g
     /\ stack' = SetTop(fr1)
     /\ T' = NewTimes(T, fr1.fname, fr1.lno, g, 1)
     /\ wits' = IF Including(fr) THEN wits \o DirWit(fr1, g, k) ELSE wits
  /\ UNCHANGED << included, done >>

(* End of file: one "end of file in #if" error per open #if, reported at    *)
(* the last line read in this file; then inclFile restores the saved        *)
(* fileState.  As written the error position is made by                     *)
(* sposNew(curFname, lineNumber, inclSerialLineNo, 1): the serial number is *)
(* that of the last line read in ANY file.  Required: the serial number of  *)
(* the last line read in this file, which the table already describes.      *)
DoEOF(k) ==
  /\ ~done
  /\ LET fr   == Top
         open == Len(fr.ifs) - 1
         g    == IF EofPolicy = "required" THEN fr.lastg ELSE glno
     IN
     /\ T' = IF EofPolicy = "required" THEN T ELSE NewTimes(T, fr.fname, fr.lno, glno, open)
     /\ wits' = IF open > 0 /\ k # 0 /\ g > 0 THEN wits \o << Wit(g, fr, fr.lno, 1, k) >> ELSE wits
     /\ IF Len(stack) = 1
        THEN done' = TRUE /\ stack' = SetTop([fr EXCEPT !.ifs = << "NoIf" >>])
        ELSE done' = FALSE /\ stack' = SubSeq(stack, 1, Len(stack) - 1)
  /\ UNCHANGED << glno, included >>

\* the EOF error is harmless as written when no other file's line shares its serial number
EofClean == LET fr == Top IN Len(fr.ifs) > 1 => fr.lastg = glno

----------------------------------------------------------------------------
(* Exhaustive environment: the next item of the current file is chosen      *)
(* freely, which generates every file set within the bounds (a file is read *)
(* at most once, so choosing its lines while reading them is the same as    *)
(* choosing them beforehand).  Every line remembers every column of Cols.   *)

CONSTANTS FileNames,    \* real files
          TopFile,
          LineNames,    \* names a #line may give (may overlap FileNames)
          LineNums,     \* numbers a #line may give
          Cols,         \* token columns (1-based), crossing 2^CNO
          RunLens,      \* lengths of runs of non-directive lines
          MaxLines,     \* bound on the serial line number
          MaxIf,        \* bound on #if nesting per file
          MaxItems,     \* bound on the number of items read
          Feat,         \* subset of {"line", "if", "misc"}: directive kinds generated
          AvoidEofIf,   \* BOOLEAN: do not generate an EOF inside #if after another file's line
          AvoidCollide  \* BOOLEAN: do not generate a #line name equal to another file's name or to
                        \* the current name of an enclosing file

VARIABLE items          \* items read so far (bounds the exploration only)

Init == InitFor(TopFile) /\ items = 0

AllToks(n) == [j \in 1..n |-> [j |-> j, c |-> 0, id |-> 1]]
CanRead(n) == glno + n <= MaxLines /\ items < MaxItems
NoCollide(nm) == /\ nm \notin (FileNames \ {Top.file})
                 /\ \A i \in 1..(Len(stack) - 1) : stack[i].fname # nm

Count == items' = items + 1

ALines   == \E n \in RunLens : CanRead(n) /\ DoLines(n, AllToks(n)) /\ Assert(RunLemma(n), "RunLemma") /\ Count
AInclude == CanRead(1) /\ \E f \in FileNames \ {Top.file} : DoInclude(f, 1) /\ Count
ALineDir == "line" \in Feat /\ CanRead(1) /\ \E n \in LineNums, nm \in LineNames \cup {NoName} :
              (AvoidCollide /\ nm # NoName => NoCollide(nm)) /\ DoLineDir(n, nm) /\ Count
AIf      == "if" \in Feat /\ CanRead(1) /\ Len(Top.ifs) <= MaxIf /\ \E on \in BOOLEAN : DoIf(on, 1) /\ Count
AElseif  == "if" \in Feat /\ CanRead(1) /\ \E on \in BOOLEAN : DoElseif(on, 1) /\ Count
AElse    == "if" \in Feat /\ CanRead(1) /\ DoElse(1) /\ Count
AEndif   == "if" \in Feat /\ CanRead(1) /\ DoEndif(1) /\ Count
AAssert  == "misc" \in Feat /\ CanRead(1) /\ DoAssert(1) /\ Count
AUnknown == "misc" \in Feat /\ CanRead(1) /\ DoUnknown(1) /\ Count
AEOF     == (AvoidEofIf => EofClean) /\ DoEOF(1) /\ Count

Next == ALines \/ AInclude \/ ALineDir \/ AIf \/ AElseif \/ AElse \/ AEndif \/ AAssert \/ AUnknown \/ AEOF

Spec == Init /\ [][Next]_<< ivars, items >>

----------------------------------------------------------------------------
(* Properties                                                               *)

ColsOf(w) == IF w.c = 0 THEN Cols ELSE {w.c}
At(w, c)  == [p |-> Pack(Packer, w.g, c), g |-> w.g, rf |-> w.rf, rl |-> w.rl, c |-> c]

PosFaithful ==
  \A i \in 1..Len(wits) : \A c \in ColsOf(wits[i]) :
     Representable(wits[i]) => Faithful(T, At(wits[i], c), Packer)

\* the same restricted to columns that fit the column field
PosFaithfulFit ==
  \A i \in 1..Len(wits) : \A c \in ColsOf(wits[i]) :
     (Representable(wits[i]) /\ c <= MaxCol) => Faithful(T, At(wits[i], c), Packer)

\* without the representability premise (expected to fail at global line 2^LNO - 1)
PosFaithfulNoLimit ==
  \A i \in 1..Len(wits) : \A c \in ColsOf(wits[i]) : Faithful(T, At(wits[i], c), Packer)

MacOk == \A i \in 1..Len(wits) : \A c \in ColsOf(wits[i]) : MacNeutral(T, At(wits[i], c))

TableShape ==
  /\ T.gp = (IF T.t[1].fn = NoName THEN 0 ELSE Len(T.t))
  /\ \A i \in 1..(Len(T.t) - 1) : T.t[i].glno <= T.t[i + 1].glno
  /\ \A i \in 1..Len(T.t) : T.t[i].glno <= glno

OrderOk ==
  items = 0 =>
  \A g1, g2 \in 1..3, c1, c2 \in Cols :
     (g1 < EndLine /\ g2 < EndLine) => OrderFaithful(Packer, g1, c1, g2, c2)

TypeOK ==
  /\ Len(stack) >= 1
  /\ \A i \in 1..Len(stack) : Len(stack[i].ifs) >= 1 /\ stack[i].ifs[1] = "NoIf"
  /\ Active \subseteq included
=============================================================================
