SPECIFICATION GenSpec
CONSTANTS
  Kind = "V"
  MaxLen = 4
  Keys = {0, 1, 2, 3}
  NBits = 3
  Regs = 2
  BPrefix = 0
  DelKeys = {}
  IntVals = {5, 6}
INVARIANTS TypeOK MinimaInOrder CopyIsSnapshot Export
CHECK_DEADLOCK FALSE
