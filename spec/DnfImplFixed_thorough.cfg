SPECIFICATION GenSpec
CONSTANTS
  A = 4
  Depth = 2
  Mode = "F"
  Fixed = TRUE
INVARIANTS ImplOk
CHECK_DEADLOCK FALSE
