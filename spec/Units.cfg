\* all derivation paths (chains of <= 4 saved forms x 3 levels x final kinds) and all splits of 3 movable definitions
SPECIFICATION Spec
CONSTANTS
  Levels = {"Q0", "Q2", "Q9"}
  MaxLen = 4
  NFuns = 3
  DoPaths = TRUE
  DoSplits = TRUE
INVARIANTS TypeOK Commute SavedDenotes SymesOnlyFromSource SplitWhole SplitDisjoint
PROPERTIES ResaveIdentity ArchiveIdentity
CHECK_DEADLOCK FALSE
