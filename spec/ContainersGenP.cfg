SPECIFICATION GenSpec
CONSTANTS
  Kind = "P"
  MaxLen = 7
  Keys = {1, 2, 3}
  NBits = 3
  Regs = 2
  BPrefix = 0
  DelKeys = {}
  IntVals = {}
INVARIANTS TypeOK MinimaInOrder CopyIsSnapshot Export
CHECK_DEADLOCK FALSE
