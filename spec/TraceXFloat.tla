---------------------------- MODULE TraceXFloat ----------------------------
(***************************************************************************)
(* Trace validation for C19.  The trace (ndjson, environment variable      *)
(* TRACE) holds                                                            *)
(*   "F"     a native single/double pattern put through the real routines  *)
(*           of xfloat.c, foam_c.c, foam.c/buffer.c (harness/xfloat_drv.c) *)
(*   "X"     a portable (object-file) pattern loaded, saved, loaded again  *)
(*   "Sweep" the counts of one chunk of the exhaustive/random sweep, whose *)
(*           individual comparisons were made in C against the identity    *)
(*           that XFloat.tla establishes                                   *)
(*   "Lit"   sign/exponent/fraction that a compiled Aldor program printed  *)
(*           for a floating-point literal, under one configuration (folded *)
(*           or not, interpreted or C, straight or through a .ao file)     *)
(*   "NoObs" a configuration under which a program gave no observations    *)
(*   "Reset" forget the observations                                       *)
(* Any other event ("Fault": the harness died in the code under test) is   *)
(* matched by no action, so the end of the trace is not reached.           *)
(* The invariant NoViolation fails exactly when a statement of C19 fails   *)
(* on the logged values: the value does not survive the portable encoding  *)
(* (same bits; NaN stays NaN), taking apart and reassembling is not the    *)
(* identity, a literal denotes different values under two configurations   *)
(* (Obs), a value reloaded from an object file is not the repacking the    *)
(* specification computes, or a sweep chunk reports failures.              *)
(* Differences between logged intermediates and the transcription are      *)
(* counted as drift and never fail the trace.                              *)
(***************************************************************************)
EXTENDS Json, IOUtils, Sequences, SequencesExt, Naturals, Integers, FiniteSets, TLC

VARIABLES l, seen, nbad, drift, inset, counts

S == INSTANCE XFloatJudge WITH EB <- 8,  FB <- 23, XEB <- 15, XFB <- 32
D == INSTANCE XFloatJudge WITH EB <- 11, FB <- 52, XEB <- 15, XFB <- 64
O == INSTANCE Obs

Trc == ndJsonDeserialize(IOEnv.TRACE)

(* TLC register 1 = number of violations so far, register 2 = 1 once the end  *)
(* of the trace has been reached; the POSTCONDITION Accepted reads them (no    *)
(* invariant is used for rejection, so that TLC does not print a behaviour of *)
(* tens of thousands of states).                                              *)
Init == /\ l = 1 /\ O!ObsInit /\ nbad = 0 /\ drift = 0
        /\ TLCSet(1, 0) /\ TLCSet(2, 0)
        /\ inset = [S |-> 0, D |-> 0]
        /\ counts = [F |-> 0, X |-> 0, Sweep |-> 0, Lit |-> 0, swept |-> 0]

Ev(n) == l <= Len(Trc) /\ Trc[l].ev = n

Report(j) ==
  /\ IF j.bad = "" THEN TRUE
     ELSE PrintT("VIOL " \o ToString(l) \o " " \o j.bad) /\ TLCSet(1, nbad + 1)
  /\ IF j.drift = <<>> \/ drift >= 5 THEN TRUE ELSE PrintT("DRIFT " \o ToString(l) \o " " \o ToString(j.drift))
  /\ nbad' = nbad + (IF j.bad = "" THEN 0 ELSE 1)
  /\ drift' = drift + Len(j.drift)

StepF ==
  /\ Ev("F")
  /\ \E e \in {Trc[l]} : \E j \in {IF e.k = "S" THEN S!JudgeF(e) ELSE D!JudgeF(e)} :
        /\ Report(j)
        /\ inset' = [inset EXCEPT ![e.k] = @ + j.inset]
  /\ counts' = [counts EXCEPT !.F = @ + 1]
  /\ l' = l + 1 /\ UNCHANGED seen

StepX ==
  /\ Ev("X")
  /\ \E e \in {Trc[l]} : \E j \in {IF e.k = "S" THEN S!JudgeX(e) ELSE D!JudgeX(e)} : Report(j)
  /\ counts' = [counts EXCEPT !.X = @ + 1]
  /\ l' = l + 1 /\ UNCHANGED <<seen, inset>>

(* `checked' patterns of one chunk were compared in C with the identity; the *)
(* chunk is accepted only without failures (the failing patterns themselves  *)
(* precede it as "F" events).  swept counts in units of 2^16 patterns.       *)
StepSweep ==
  /\ Ev("Sweep")
  /\ LET e == Trc[l]
     IN /\ Report([bad |-> IF e.fail = 0 /\ e.checked > 0 THEN "" ELSE "sweep chunk reports patterns that do not survive",
                   drift |-> <<>>])
        /\ counts' = [counts EXCEPT !.Sweep = @ + 1, !.swept = @ + (e.checked \div 65536)]
  /\ l' = l + 1 /\ UNCHANGED <<seen, inset>>

(* A literal observed under a configuration.  e.reload = 1 means that the    *)
(* constant went through an object file after the reference configuration    *)
(* (which comes first in the trace) observed it: then the specification      *)
(* says which bits must come back.                                           *)
StepLit ==
  /\ Ev("Lit")
  /\ LET e  == Trc[l]
         ok == IF e.k = "S" THEN S!LitWellFormed(e) ELSE D!LitWellFormed(e)
         p  == IF e.k = "S" THEN S!LitPattern(e) ELSE D!LitPattern(e)
         i  == <<e.k, e.input>>
         rp == IF e.k = "S" THEN S!Repack(seen[i]) ELSE D!Repack(seen[i])
         msg == IF ~ok THEN "malformed observation"
                ELSE IF e.idok # 1 THEN "assemble(dissemble(x)) differs from x in the running program"
                ELSE IF ~O!Agrees(i, p) THEN "the literal denotes different values under two configurations"
                ELSE IF O!Known(i) /\ e.reload = 1 /\ p # rp
                     THEN "the constant reloaded from the object file is not the repacking the specification gives"
                ELSE ""
     IN /\ Report([bad |-> IF msg = "" THEN "" ELSE msg \o " (literal " \o ToString(e.input) \o ", cfg " \o e.cfg \o ")",
                   drift |-> <<>>])
        /\ IF ok THEN O!Record(i, p) ELSE UNCHANGED seen
  /\ counts' = [counts EXCEPT !.Lit = @ + 1]
  /\ l' = l + 1 /\ UNCHANGED inset

(* A program that was accepted and ran under the reference configuration could *)
(* not be built or run under another one: the constant has no value there.      *)
StepNoObs ==
  /\ Ev("NoObs")
  /\ LET e == Trc[l]
     IN Report([bad |-> "no observation of the literals of program " \o e.program \o " under cfg " \o e.cfg
                        \o " (stage " \o e.stage \o ")", drift |-> <<>>])
  /\ l' = l + 1 /\ UNCHANGED <<seen, inset, counts>>

StepReset ==
  /\ Ev("Reset")
  /\ seen' = <<>> /\ l' = l + 1 /\ UNCHANGED <<nbad, drift, inset, counts>>

(* cardinalities of the enumeration families, for the coverage comparison   *)
FamCard(fam) == [S |-> 2 * 256 * Cardinality(S!NativeFam(fam)), D |-> 2 * 2048 * Cardinality(D!NativeFam(fam))]
Cards == [f \in {"boundary", "lite", "mini", "none"} |-> FamCard(f)]

Finish ==
  /\ l = Len(Trc) + 1
  /\ TLCSet(2, 1)
  /\ PrintT("SUMMARY " \o ToJson([events |-> Len(Trc), nbad |-> nbad, drift |-> drift, inset |-> inset, counts |-> counts,
                                    inputs |-> Cardinality(DOMAIN seen), cards |-> Cards]))
  /\ l' = l + 1 /\ UNCHANGED <<seen, nbad, drift, inset, counts>>

Next == StepF \/ StepX \/ StepSweep \/ StepLit \/ StepNoObs \/ StepReset \/ Finish
Spec == Init /\ [][Next]_<<l, seen, nbad, drift, inset, counts>>

(* every event matched an action, the end was reached, nothing violated C19 *)
Accepted == TLCGet(1) = 0 /\ TLCGet(2) = 1

=============================================================================
