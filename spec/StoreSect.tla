------------------------------ MODULE StoreSect ------------------------------
(***************************************************************************)
(* Fresh sections for large requests (C10), at the constants of store.c.   *)
(*                                                                         *)
(* When neither the free tree nor the frontier piece can serve a mixed     *)
(* request, pieceGetMixed obtains a new section just large enough:         *)
(*     nbytes = RoundUp(n + MxMemHeadSize, MixedSizeQuantum)               *)
(*     nq     = nbytes / MixedSizeQuantum                                  *)
(*     nb     = SectionHeadSize + nq * (sizeof(QmInfo) + MixedSizeQuantum) *)
(*     npages = Max(RoundUp(nb, PgSize) / PgSize, MixedSizePgGroup)        *)
(* and sectPrepare lays it out:                                            *)
(*     qmCount = (npages * PgSize - SectionHeadSize)                       *)
(*                  / (MixedSizeQuantum + sizeof(QmInfo))                  *)
(*     data    = section + npages * PgSize - qmCount * MixedSizeQuantum    *)
(* The whole section is one piece of qmCount quanta (the new frontier);    *)
(* the request takes nbytes of it when more than a quantum would be left   *)
(* over, else the whole piece.                                             *)
(*                                                                         *)
(* What the property needs of this arithmetic (FreshOk): the piece handed  *)
(* out holds the request, lies inside the pages of the section, and the    *)
(* section header with its per-quantum information bytes ends before the   *)
(* data begin.  The page count changes where nq crosses the capacity of k  *)
(* pages, Cap(k); an error of one in any of the four formulas shows only   *)
(* for the few sizes next to such a crossing.  TLC checks FreshOk for      *)
(* every request size up to KMax pages and exports, for every k, the       *)
(* request sizes within Win quanta of Cap(k) (both ends of each quantum's  *)
(* range of request sizes) with the sub-case each falls into; the harness  *)
(* replays every one of them as a request served from a fresh section.     *)
(***************************************************************************)
EXTENDS Naturals, Integers, Sequences, TLC, Json

CONSTANTS PgSize, SectHead, InfoBytes, Q, MxHead, MixedPgGroup, FixedMax,
          KMax,     \* sections of up to this many pages
          Win       \* quanta on either side of a capacity boundary

VARIABLE k

CeilDiv(a, b) == (a + b - 1) \div b
RoundUp(a, b) == CeilDiv(a, b) * b
MaxOf(a, b)   == IF a >= b THEN a ELSE b

NBytes(n)  == RoundUp(n + MxHead, Q)
NQ(n)      == NBytes(n) \div Q
NB(n)      == SectHead + NQ(n) * (InfoBytes + Q)
NPages(n)  == MaxOf(CeilDiv(NB(n), PgSize), MixedPgGroup)
Cap(np)    == (np * PgSize - SectHead) \div (Q + InfoBytes)          \* sectQmCount
DataOff(np) == np * PgSize - Cap(np) * Q
Piece(n)   == LET mn == Cap(NPages(n)) * Q IN IF mn > NBytes(n) + Q THEN NBytes(n) ELSE mn
Usable(n)  == Piece(n) - MxHead

FreshOk(n) ==
    LET np == NPages(n) IN
    /\ Cap(np) * Q >= NBytes(n)                         \* the section's piece holds the request
    /\ Usable(n) >= n                                   \* stoSize >= requested
    /\ DataOff(np) >= SectHead + Cap(np) * InfoBytes    \* header and information bytes end before the data
    /\ DataOff(np) + Piece(n) <= np * PgSize            \* the piece ends inside the section
    /\ (np > MixedPgGroup => Cap(np - 1) < NQ(n))       \* and no page more than needed

Class(n) == LET d == Cap(NPages(n)) - NQ(n) IN
            IF d = 0 THEN "fresh:exact" ELSE IF d = 1 THEN "fresh:whole-with-slack" ELSE "fresh:split"

(* request sizes whose piece has q quanta: the smallest and the largest *)
ReqLo(q) == MaxOf(FixedMax + 1, (q - 1) * Q - MxHead + 1)
ReqHi(q) == q * Q - MxHead

Window(kk) ==
    LET qs == {q \in (Cap(kk) - Win)..(Cap(kk) + Win) : q >= 2} IN
    {[k |-> kk, q |-> q, n |-> n, pages |-> NPages(n), class |-> Class(n), usable |-> Usable(n)]
        : <<q, n>> \in UNION {{<<q, ReqLo(q)>>, <<q, ReqHi(q)>>} : q \in qs}}

Init == k = MixedPgGroup
Next == /\ k <= KMax
        /\ PrintT(ToJson(Window(k)))
        /\ k' = k + 1
Spec == Init /\ [][Next]_k

(* every request size that leads to a section of k pages (and the sizes around) *)
SizesOk == k <= KMax =>
    \A n \in MaxOf(FixedMax + 1, (k - 2) * PgSize)..(k * PgSize) : FreshOk(n)

(* the sub-cases all occur at every boundary from 3 pages on (non-vacuity) *)
ClassesSeen == (k > MixedPgGroup /\ k <= KMax) =>
    {w.class : w \in Window(k)} = {"fresh:exact", "fresh:whole-with-slack", "fresh:split"}
=============================================================================
