---------------------------- MODULE JavaRouteMC ----------------------------
(***************************************************************************)
(* Exhaustive check of the monitor JavaRoute on small constants: the       *)
(* environment produces arbitrary expectations and arbitrary runs (any     *)
(* build outcome, any observation); TLC visits every campaign and checks   *)
(* that the monitor accepts exactly the campaigns that satisfy the         *)
(* statement of C12.                                                       *)
(***************************************************************************)
EXTENDS JavaRoute

CONSTANTS Progs, Digests,
          Builds        \* build outcomes the environment may produce, subset of {"ok","compile","javac","timeout","fault"}

Statuses == {"done", "halt", "fuel"}
Behaviours == [status : Statuses, digest : Digests]
Observations == [digest : Digests, cls : {0, 1}]

MCNext == \/ \E p \in Progs, b64 \in Behaviours, b32 \in Behaviours : Expect(p, b64, b32)
          \/ \E p \in Progs, r \in Routes, q \in Levels, b \in Builds, o \in Observations : Run(p, r, q, b, o)
          \/ Close
MCSpec == JInit /\ [][MCNext]_jvars

TypeOK == /\ DOMAIN want \subseteq Progs /\ out \subseteq Progs /\ DOMAIN want \cap out = {}
          /\ DOMAIN ran = DOMAIN want
          /\ \A p \in DOMAIN ran : ran[p] \subseteq Routes \X Levels
          /\ DOMAIN seen \subseteq DOMAIN want
(* non-vacuity witnesses (expected to be violated = reachable); see JavaRouteWitness.cfg *)
NeverAcceptedClosed == ~(closed /\ Accepted /\ DOMAIN want = Progs)
NeverRoutesOnly == \A b \in bad : b.why # {"routes"}
=============================================================================
