\* C15 report layouts for the replay (quick): 2 files + 1 #line-only name, 5 lines after the 3-line prelude
CONSTANTS
  CNO = 2
  LNO = 5
  Packer = "required"
  Policy = "required"
  EofPolicy = "required"
  HeadPolicy = "required"
  Grouping = "gline"
  SrcLen = 3
  ColSeq <- ColSeqTwo
  MaxSel = 2
  Pre = 3
  FileNames = {"ra.as", "rb.as"}
  TopFile = "ra.as"
  LineNames = {"rb.as", "ro.src"}
  LineNums = {2, 5}
  Cols = {1}
  RunLens = {1, 2}
  MaxLines = 8
  MaxIf = 1
  MaxItems = 7
  Feat = {"line"}
  AvoidEofIf = TRUE
  AvoidCollide = FALSE
INIT GInit
NEXT GNext
CHECK_DEADLOCK FALSE
INVARIANT TypeOK
INVARIANT PosFaithful
INVARIANT PreludeOk
INVARIANT Export
