SPECIFICATION Spec
CONSTANTS Stride = 61
          Stride3 = 7
          Core = "sign"
          Offset = 0
          PerPair = 1
          NCand = 24
          Parts = {"flat", "nest"}
INVARIANT PrinterSound
CHECK_DEADLOCK FALSE
