------------------------------- MODULE CNames -------------------------------
(***************************************************************************)
(* How the C generator (genc.c) spells the C identifier of a program        *)
(* entity, transcribed operation by operation:                              *)
(*   gc0InitSpecialChars / ccSpecCharIdTable  -> Img, Width                 *)
(*   gc0ValidIdInBuf (with gc0UnderIdLen)     -> Valid                      *)
(*   bufPuti                                  -> PutI                       *)
(*   gc0IdHashInBuf  (VAR_HASH, base 36)      -> HashDigits                 *)
(*   strHash (strops.c)                       -> StrHash                    *)
(*   gc0VarId / gc0MultVarId                  -> VarId / Mangle             *)
(* A name and the identifier buffer are sequences of one-character strings  *)
(* (the code uses only the buffer's length and appending; TLC interns every *)
(* string under a global lock, so whole strings are built for export only).   The string hash   *)
(* is a parameter H (a function on names): the small model uses a tiny H so *)
(* that hash collisions are plentiful; the binding uses H := strHash.       *)
(*                                                                         *)
(* Property level (what C16 states): distinct entities of one C scope never *)
(* get the same C name -- Distinct below.  Implementation-shaped: the       *)
(* spelling Mangle itself (compared with the emitted C as drift only).      *)
(* The machine at the end picks one (idlen, idhash, group) at a time so     *)
(* that TLC's workers share the exhaustive evaluation.                      *)
(***************************************************************************)
EXTENDS Naturals, Integers, Sequences, SequencesExt, FiniteSets, FiniteSetsExt, TLC, Bitwise, Json

---------------------------------------------------------------------------
(* characters *)
Upper == <<"A","B","C","D","E","F","G","H","I","J","K","L","M","N","O","P","Q","R","S","T","U","V","W","X","Y","Z">>
Lower == <<"a","b","c","d","e","f","g","h","i","j","k","l","m","n","o","p","q","r","s","t","u","v","w","x","y","z">>
Digits == <<"0","1","2","3","4","5","6","7","8","9">>
Dig36 == Digits \o Upper
Rng(s) == {s[i] : i \in 1..Len(s)}
AlphaSet == Rng(Upper) \cup Rng(Lower)
DigitSet == Rng(Digits)
AlnumSet == AlphaSet \cup DigitSet

(* ccSpecCharIdTable, in the order of genc.c *)
SpecTable == <<
  <<"!", <<"_", "B", "A", "N", "G", "_">> >>, <<"\"", <<"_", "Q", "U", "O", "T", "E", "_">> >>, <<"#", <<"_", "S", "H", "A", "R", "P", "_">> >>,
  <<"$", <<"_", "D", "O", "L", "L", "R", "_">> >>, <<"%", <<"_", "P", "C", "E", "N", "T", "_">> >>, <<"&", <<"_", "A", "M", "P", "E", "R", "_">> >>,
  <<"'", <<"_", "A", "P", "O", "S", "_">> >>, <<"(", <<"_", "O", "P", "A", "R", "E", "N", "_">> >>, <<")", <<"_", "C", "P", "A", "R", "E", "N", "_">> >>,
  <<"*", <<"_", "S", "T", "A", "R", "_">> >>, <<"+", <<"_", "P", "L", "U", "S", "_">> >>, <<",", <<"_", "C", "O", "M", "M", "A", "_">> >>,
  <<"-", <<"_", "M", "I", "N", "U", "S", "_">> >>, <<".", <<"_", "D", "O", "T", "_">> >>, <<"/", <<"_", "S", "L", "A", "S", "H", "_">> >>,
  <<":", <<"_", "C", "O", "L", "O", "N", "_">> >>, <<";", <<"_", "S", "E", "M", "I", "_">> >>, <<"<", <<"_", "L", "T", "_">> >>,
  <<"=", <<"_", "E", "Q", "_">> >>, <<">", <<"_", "G", "T", "_">> >>, <<"?", <<"_", "Q", "M", "A", "R", "K", "_">> >>,
  <<"@", <<"_", "A", "T", "_">> >>, <<"[", <<"_", "O", "B", "R", "A", "C", "K", "_">> >>, <<"\\", <<"_", "B", "S", "L", "S", "H", "_">> >>,
  <<"]", <<"_", "C", "B", "R", "A", "C", "K", "_">> >>, <<"^", <<"_", "H", "A", "T", "_">> >>, <<"_", <<"_", "_">> >>,
  <<"`", <<"_", "G", "R", "A", "V", "E", "_">> >>, <<"{", <<"_", "O", "B", "R", "A", "C", "E", "_">> >>, <<"|", <<"_", "B", "A", "R", "_">> >>,
  <<"}", <<"_", "C", "B", "R", "A", "C", "E", "_">> >>, <<"~", <<"_", "T", "I", "L", "D", "E", "_">> >> >>
SpecChars == {SpecTable[i][1] : i \in 1..Len(SpecTable)}
SpecImg == [c \in SpecChars |-> (CHOOSE i \in 1..Len(SpecTable) : SpecTable[i][1] = c)]
SpecStr == [c \in SpecChars |-> SpecTable[SpecImg[c]][2]]

(* gcvIdChars / gcvIdCharc: alphanumerics unchanged (width 1), table characters replaced   *)
(* by their string, every other character NOT_PRINTABLE: dropped, width 0                  *)
ImgOf(c) == IF c \in AlnumSet THEN <<c>> ELSE IF c \in SpecChars THEN SpecStr[c] ELSE <<>>

(* printable ASCII in code order 32..126, for strHash *)
Ascii == <<" ","!","\"","#","$","%","&","'","(",")","*","+",",","-",".","/">> \o Digits \o
         <<":",";","<","=",">","?","@">> \o Upper \o <<"[","\\","]","^","_","`">> \o Lower \o <<"{","|","}","~">>
CodeOf == [c \in Rng(Ascii) |-> 31 + (CHOOSE i \in 1..Len(Ascii) : Ascii[i] = c)]
(* the two tables gc0InitSpecialChars fills, over the printable characters *)
ImgTab   == [c \in Rng(Ascii) |-> ImgOf(c)]
WidthTab == [c \in Rng(Ascii) |-> Len(ImgOf(c))]
Img(c)   == ImgTab[c]
Width(c) == WidthTab[c]

---------------------------------------------------------------------------
(* strops.c:strHash.  h ^= h << 8; h += c + 200041; h &= 0x3FFFFFFF.  The shifted word is   *)
(* reduced to 30 bits before the xor (same result, and it stays inside TLC's integers).     *)
Mask30 == 1073741824
HashStep(h, code) == ((h ^^ ((h % 4194304) * 256)) + code + 200041) % Mask30
StrHash(name) == FoldLeft(LAMBDA h, c : HashStep(h, CodeOf[c]), 0, name)

(* gc0IdHashInBuf: (hash % VAR_HASH) in base 36, most significant digit first, nothing for 0 *)
VarHash == 60466169          \* 0x39AA3F9
HashDigitsOf(v) ==
  LET d1 == v % 36  d2 == (v \div 36) % 36  d3 == (v \div 1296) % 36  d4 == (v \div 46656) % 36
      d5 == (v \div 1679616) % 36
  IN IF v = 0 THEN <<>>
     ELSE IF v < 36 THEN <<Dig36[d1 + 1]>>
     ELSE IF v < 1296 THEN <<Dig36[d2 + 1], Dig36[d1 + 1]>>
     ELSE IF v < 46656 THEN <<Dig36[d3 + 1], Dig36[d2 + 1], Dig36[d1 + 1]>>
     ELSE IF v < 1679616 THEN <<Dig36[d4 + 1], Dig36[d3 + 1], Dig36[d2 + 1], Dig36[d1 + 1]>>
     ELSE <<Dig36[d5 + 1], Dig36[d4 + 1], Dig36[d3 + 1], Dig36[d2 + 1], Dig36[d1 + 1]>>
HashDigits(h) == HashDigitsOf(h % VarHash)

---------------------------------------------------------------------------
(* gc0ValidIdInBuf: append the images of the characters of s while the identifier stays     *)
(* within idlen (0 = no limit); the loop ENDS at the first character that does not fit.      *)
Valid(buf, s, idlen) ==
  FoldLeft(LAMBDA acc, c : IF acc[2] THEN acc
                           ELSE IF idlen = 0 \/ Len(acc[1]) + Width(c) <= idlen
                                THEN <<acc[1] \o Img(c), FALSE>>
                                ELSE <<acc[1], TRUE>>,
           <<buf, FALSE>>, s)[1]

RECURSIVE DecDigits(_)
DecDigits(n) == IF n < 10 THEN <<Digits[n + 1]>> ELSE Append(DecDigits(n \div 10), Digits[(n % 10) + 1])
PutI(n) == IF n < 0 THEN <<"-">> \o DecDigits(-n) ELSE DecDigits(n)      \* bufPuti

IsGlobalKind(kind) == kind = <<"G">> \/ kind = <<"p", "G">>
Str(cs) == FoldLeft(LAMBDA a, c : a \o c, "", cs)      \* a character sequence as a string (exports only)

(* gc0VarId(str, id) *)
VarId(kind, id, idlen) == Valid(<<>>, kind, idlen) \o PutI(id)

(* gc0MultVarId(strA, id, strB); hv = strHash(strB) *)
MangleH(kind, index, name, idlen, idhash, hv) ==
  IF IsGlobalKind(kind)
  THEN LET b0 == Append(kind, "_")
           b1 == IF idhash THEN Append(b0 \o HashDigits(hv), "_") ELSE b0
       IN Valid(b1, name, idlen)
  ELSE LET b0 == IF Len(kind) = 1 /\ kind[1] \in AlphaSet THEN kind
                 ELSE Valid(IF kind[1] \in DigitSet THEN <<"_">> ELSE <<>>, kind, idlen)
           b1 == b0 \o PutI(index)
       IN IF name = <<>> THEN b1 ELSE Valid(Append(b1, "_"), name, idlen)

Mangle(kind, index, name, idlen, idhash, H) == MangleH(kind, index, name, idlen, idhash, H[name])

---------------------------------------------------------------------------
(* The small model *)
CONSTANTS Chars,        \* model alphabet (one-character strings)
          MaxLen,       \* longest name
          IdLens,       \* identifier limits explored
          HMod,         \* tiny hash: a polynomial of the character codes modulo HMod (collisions are plentiful)
          Indices,      \* indices of indexed entities
          MaxIdxLen,    \* longest name given to indexed entities (their names follow kind, index and '_')
          MinIdLen      \* the least limit (other than 0) for which indexed entities are claimed distinct

NamesUpTo(n) == UNION {[1..k -> Chars] : k \in 0..n}
Names == NamesUpTo(MaxLen)
TinyH == [n \in Names |-> FoldLeft(LAMBDA h, c : (h * 3 + CodeOf[c]) % HMod, 0, n)]

GlobalKinds  == {<<"G">>, <<"p", "G">>}
(* multi-variable kinds used by genc.c with an index (C/CF/P/R/T/X/F/J, tmp, tmpClos, GA, GB, GRRFmt, INIT_) *)
IndexedKinds == {<<"C">>, <<"C", "F">>, <<"T">>, <<"X">>, <<"G", "A">>, <<"t", "m", "p">>,
                 <<"t", "m", "p", "C", "l", "o", "s">>, <<"G", "R", "R", "F", "m", "t">>, <<"I", "N", "I", "T", "_">>}
(* gc0VarId kinds: labels, environment and level variables, format structs and types *)
VarIdKinds   == {<<"L">>, <<"l">>, <<"e">>, <<"F", "m", "t">>, <<"P", "F", "m", "t">>, <<"T", "F", "m", "t">>}

(* what Valid appends when `room' characters are left (room <= 0: nothing fits) *)
TruncImg(name, room, unlimited) ==
  FoldLeft(LAMBDA acc, c : IF acc[2] THEN acc
                           ELSE IF unlimited \/ Len(acc[1]) + Width(c) <= room
                                THEN <<acc[1] \o Img(c), FALSE>>
                                ELSE <<acc[1], TRUE>>,
           <<<<>>, FALSE>>, name)[1]

(* the claimed normal form of a global's identifier: kind, hash digits, truncated image.     *)
(* room = idlen - (kind, '_', digits, '_'), i.e. 22 characters for G and five digits at 30   *)
GlobalKey(kind, name, il, ih) ==
  LET dg == IF ih THEN HashDigits(TinyH[name]) ELSE <<"-">>
      pre == Len(kind) + 1 + (IF ih THEN Len(dg) + 1 ELSE 0)
  IN <<kind, dg, TruncImg(name, il - pre, il = 0)>>

VARIABLES idlen, idhash, group, verdict
vars == <<idlen, idhash, group, verdict>>

Groups == {"globals", "indexed", "namekeyed", "hashfun"}

Printable(n) == \A i \in 1..Len(n) : Width(n[i]) > 0
(* 1. globals: two (kind, name) collide exactly when their keys are equal                    *)
GlobalSet == {<<k, n>> : k \in GlobalKinds, n \in Names}
GM(e, il, ih) == Mangle(e[1], 0, e[2], il, ih, TinyH)
GlobalsExact(il, ih) ==
  LET pairs == {<<GM(e, il, ih), GlobalKey(e[1], e[2], il, ih)>> : e \in GlobalSet}
      ims == {p[1] : p \in pairs}
      keys == {p[2] : p \in pairs}
  IN Cardinality(pairs) = Cardinality(ims) /\ Cardinality(pairs) = Cardinality(keys)
(* how many global entities lose their own identifier: entities minus distinct identifiers *)
GlobalCollisions(il, ih) ==
  Cardinality(GlobalSet) - Cardinality({GM(e, il, ih) : e \in GlobalSet})

(* the same over printable names only (a character outside the table and the alphanumerics  *)
(* is dropped by the code, so "a b" and "ab" have one image: recorded, not part of C16)      *)
GlobalSetP == {e \in GlobalSet : Printable(e[2])}
GlobalCollisionsP(il, ih) ==
  Cardinality(GlobalSetP) - Cardinality({GM(e, il, ih) : e \in GlobalSetP})

(* a witness pair of colliding globals, for the report *)
GlobalWitness(il, ih) ==
  LET small == {e \in GlobalSetP : Len(e[2]) <= 3}       \* a witness among the short names is enough
      ims == {<<GM(e, il, ih), e>> : e \in small}
      byim == {p[1] : p \in ims}
  IN IF Cardinality(byim) = Cardinality(small) THEN <<>>
     ELSE LET im == CHOOSE x \in byim : Cardinality({p \in ims : p[1] = x}) > 1
              es == {p[2] : p \in {q \in ims : q[1] = im}}
              e1 == CHOOSE e \in es : TRUE
              e2 == CHOOSE e \in es : e # e1
          IN <<Str(im), Str(e1[1]), Str(e1[2]), Str(e2[1]), Str(e2[2])>>

(* 2. indexed entities: the entity is (kind, index), the name is only an attribute.  The     *)
(* image sets of distinct (kind, index) must be pairwise disjoint, whatever the names.       *)
IdxSet == {<<k, i>> : k \in IndexedKinds, i \in Indices} \cup {<<k, i>> : k \in VarIdKinds, i \in Indices}
IdxImages(e, il) == IF e[1] \in VarIdKinds THEN {VarId(e[1], e[2], il)}
                    ELSE {MangleH(e[1], e[2], n, il, TRUE, 0) : n \in NamesUpTo(MaxIdxLen)}
IndexedDisjoint(il) ==
  LET sets == [e \in IdxSet |-> IdxImages(e, il)]
  IN MapThenSumSet(LAMBDA e : Cardinality(sets[e]), IdxSet) = Cardinality(UNION {sets[e] : e \in IdxSet})
(* indexed names never coincide with a global's *)
IndexedVsGlobals(il, ih) ==
  (UNION {IdxImages(e, il) : e \in IdxSet}) \cap {GM(e, il, ih) : e \in GlobalSet} = {}

(* 2b. name-keyed entities.  gc0ClosInit spells the static closure of a global that is initialised  *)
(* with a closure `tmpClos' 0 '_' <name>: the index is the constant 0, so the NAME is what tells two  *)
(* such entities apart; likewise the initialisation function of a unit is INIT_ <part> '_' <unit>.   *)
(* There is no hash in these names: two of them collide exactly when index and truncated image agree *)
NameKeyedKinds == {<<"t", "m", "p", "C", "l", "o", "s">>, <<"I", "N", "I", "T", "_">>}
NKSet == {<<k, i, n>> : k \in NameKeyedKinds, i \in {0, 1}, n \in NamesUpTo(MaxIdxLen + 1)}
NKM(e, il) == MangleH(e[1], e[2], e[3], il, TRUE, 0)
NKKey(e, il) ==
  LET pre == Len(Valid(<<>>, e[1], il)) + Len(PutI(e[2])) + 1
  IN <<e[1], e[2], e[3] = <<>>, TruncImg(e[3], il - pre, il = 0)>>
NKExact(il) ==
  LET pairs == {<<NKM(e, il), NKKey(e, il)>> : e \in NKSet}
  IN Cardinality(pairs) = Cardinality({p[1] : p \in pairs}) /\ Cardinality(pairs) = Cardinality({p[2] : p \in pairs})
NKSetP == {e \in NKSet : Printable(e[3])}
NKCollisionsP(il) == Cardinality(NKSetP) - Cardinality({NKM(e, il) : e \in NKSetP})

(* 3. the mangling of a whole name is injective on printable names when nothing is cut *)
ImgInjective == LET P == {n \in Names : Printable(n)}
                IN Cardinality({Valid(<<>>, n, 0) : n \in P}) = Cardinality(P)
(* and a limit is respected: no identifier part appended by Valid passes idlen *)
LimitRespected(il) == il = 0 \/ \A n \in Names : Len(Valid(<<>>, n, il)) <= il
(* strHash transcription: fixed vectors computed with the C function (harness/strhash_drv.c) *)
HashVectors ==
  /\ StrHash(<<>>) = 0
  /\ Str(HashDigits(StrHash(<<"p">>))) = "4AFT"
  /\ Str(HashDigits(StrHash(<<"p","_","f","9","_","3","5","3","9","7","8","8","4","5">>))) = "EOK2O"
(* every step of strHash is a bijection of the 30-bit state: equal-length names that differ  *)
(* only in their last character never have the same strHash                                  *)
HashStepInjective == \A h \in {0, 1, 255, 4194303, 4194304, 1073741823} :
                        \A c1, c2 \in 32..126 : c1 # c2 => HashStep(h, c1) # HashStep(h, c2)

Init == idlen = -1 /\ idhash = TRUE /\ group = "none" /\ verdict = <<>>
(* two steps, so that TLC's workers share the evaluation: Pick is cheap and fans out, Eval   *)
(* does the exhaustive evaluation for one (idlen, idhash, group).                             *)
Pick == /\ group = "none"
        /\ \E il \in IdLens, ih \in BOOLEAN, g \in Groups :
              /\ (g # "globals" => ih) /\ (g = "hashfun" => il = 0)
              /\ idlen' = il /\ idhash' = ih /\ group' = g /\ verdict' = <<"todo">>
Eval == /\ group # "none" /\ verdict = <<"todo">>
        /\ verdict' =
             CASE group = "globals" -> <<GlobalCollisions(idlen, idhash), GlobalWitness(idlen, idhash),
                                         GlobalCollisionsP(idlen, idhash), GlobalsExact(idlen, idhash)>>
               [] group = "indexed" -> <<IndexedDisjoint(idlen), IndexedVsGlobals(idlen, TRUE)>>
               [] group = "namekeyed" -> <<NKExact(idlen), NKCollisionsP(idlen)>>
               [] OTHER -> <<ImgInjective, HashVectors, HashStepInjective, \A il \in IdLens : LimitRespected(il)>>
        /\ UNCHANGED <<idlen, idhash, group>>
Done == group # "none" /\ verdict # <<"todo">>
Export == /\ group = "globals" /\ Done
          /\ PrintT("CNAMES " \o ToJson([idlen |-> idlen, idhash |-> idhash, collisions |-> verdict[1], witness |-> verdict[2],
                                          collisions_printable |-> verdict[3], names |-> Cardinality(GlobalSet)]))
          /\ UNCHANGED vars
Next == Pick \/ Eval \/ Export
Spec == Init /\ [][Next]_vars

(* ---- invariants ---- *)
(* the exact collision condition of globals: same kind, same hash digits, same truncated image *)
CollisionExact == (group = "globals" /\ Done) => verdict[4]
(* indexed entities (constants, locals, lexicals, parameters, labels, formats ...) are distinct *)
(* for every admissible limit: the index is written in full before the name                   *)
IndexedDistinct == (group = "indexed" /\ Done /\ (idlen = 0 \/ idlen >= MinIdLen)) => verdict[1] /\ verdict[2]
(* below MinIdLen the kind string itself is cut ("tmp" / "tmpClos"): TLC shows it with       *)
(* CNamesShort.cfg (IndexedDistinctAll); such limits are outside C16 (below the default)      *)
IndexedDistinctAll == (group = "indexed" /\ Done) => verdict[1] /\ verdict[2]
(* name-keyed entities: exact condition; and the statement of C16 for them, which does NOT hold of    *)
(* the code as written once the limit cuts the name (CNamesDistinctNK.cfg shows the counterexample)   *)
NameKeyedExact == (group = "namekeyed" /\ Done /\ (idlen = 0 \/ idlen >= MinIdLen)) => verdict[1]
NameKeyedDistinct == (group = "namekeyed" /\ Done /\ (idlen = 0 \/ idlen >= 12)) => verdict[2] = 0
NameKeyedDistinctUnlimited == (group = "namekeyed" /\ Done /\ idlen = 0) => verdict[2] = 0
Sanity == (group = "hashfun" /\ Done) => verdict[1] /\ verdict[2] /\ verdict[3] /\ verdict[4]
(* the statement of C16 for globals.  It does NOT hold of the code as written (the hash of  *)
(* the full name is the only thing that separates two names with one truncated image):       *)
(* configuration CNamesDistinct.cfg checks it and TLC reports the counterexample.            *)
GlobalsDistinct == (group = "globals" /\ Done /\ idhash /\ idlen >= 8) => verdict[3] = 0
(* what does hold: with no limit, printable names are distinct *)
GlobalsDistinctUnlimited == (group = "globals" /\ Done /\ idlen = 0) => verdict[3] = 0
=============================================================================
