------------------------------ MODULE TraceDnf ------------------------------
(***************************************************************************)
(* Trace validation for the normal-form part of C20.  The trace was        *)
(* written by harness/containers_drv.c while it built formulas with the    *)
(* real dnf.c: one event per constructor call with the operand values and  *)
(* the value returned (DNot/DAnd/DOr), one per finished formula (DMk: the  *)
(* formula as prefix tokens and the final DNF), and one per                *)
(* dnfImplies/dnfEqual call (DImp/DEq).  Every event is judged against the *)
(* truth tables of Dnf.tla; a BAD record is printed for each event that    *)
(* fails, with the classification computed here.                           *)
(***************************************************************************)
EXTENDS DnfImpl, IOUtils

Trc == ndJsonDeserialize(IOEnv.TRACE)

VARIABLES l, cs, reach,    \* next event, current case, "the cancel rule was reachable in this case"
          drifted          \* a finished formula of this case got a DNF other than the one dnf.c AS PINNED builds (DnfImpl.tla)
tvars == <<l, cs, reach, drifted>>

Fld(e, fl, d) == IF fl \in DOMAIN e THEN e[fl] ELSE d
Outcome(e)    == Fld(e, "o", "ok")
Mem(e)        == Fld(e, "mem", "ok")

WfDnf(d) == \A i \in 1..Len(d) : \A j \in 1..Len(d[i]) : d[i][j] # 0 /\ d[i][j] <= A /\ -d[i][j] <= A

Bad(e, kind, why, cancel) ==
  PrintT("BAD " \o ToJson([l |-> l, case |-> cs, ev |-> e.ev, kind |-> kind, why |-> why,
                           cancel_rule |-> cancel, o |-> Outcome(e), mem |-> Mem(e), event |-> e]))

Judge(e, kind, wf, ok, cancel) ==
  IF Outcome(e) # "ok" THEN Bad(e, kind, "outcome", cancel)
  ELSE IF ~wf THEN Bad(e, kind, "malformed", cancel)
  ELSE IF ~ok THEN Bad(e, kind, "result", cancel)
  ELSE IF Mem(e) # "ok" THEN Bad(e, kind, "memory", cancel)
  ELSE TRUE

(* dnfImplies is a syntactic test and therefore incomplete: on the pinned tree it answers "no" for some        *)
(* implications that hold (recorded finding).  That finding is about the pinned algorithm on the DNFs the       *)
(* pinned constructors build: a "no" is attributed to it only when (as_pinned) the operands of this case are    *)
(* the DNFs DnfImpl.tla predicts and the answer is the one the modelled dnfImplies gives for them.  A "no" on  *)
(* other DNFs, or where the modelled test says "yes", is a different failure and is reported as such.           *)
BadTest(e, kind, why, pinned) ==
  PrintT("BAD " \o ToJson([l |-> l, case |-> cs, ev |-> e.ev, kind |-> kind, why |-> why, as_pinned |-> pinned,
                           cancel_rule |-> FALSE, o |-> Outcome(e), mem |-> Mem(e), event |-> e]))

IsEvent(n) == l <= Len(Trc) /\ Trc[l].ev = n /\ l' = l + 1

EvReset == IsEvent("Reset") /\ cs' = Fld(Trc[l], "case", -1) /\ reach' = FALSE /\ drifted' = FALSE

EvLeaf == /\ (IsEvent("DAtom") \/ IsEvent("DNAtom") \/ IsEvent("DTrue") \/ IsEvent("DFalse"))
          /\ LET e == Trc[l]
                 want == IF e.ev = "DAtom" THEN <<e.i>> ELSE IF e.ev = "DNAtom" THEN <<-e.i>>
                         ELSE IF e.ev = "DTrue" THEN <<TT>> ELSE <<FF>>
             IN Judge(e, "leaf", WfDnf(e.r), MkOk(want, e.r), FALSE)
          /\ UNCHANGED <<cs, reach, drifted>>

EvNot == /\ IsEvent("DNot")
         /\ LET e == Trc[l] c == NotReach(e.x) IN
            /\ Judge(e, "construct", WfDnf(e.x) /\ WfDnf(e.r), NotOk(e.x, e.r), c)
            /\ reach' = (reach \/ c)
         /\ UNCHANGED <<cs, drifted>>
EvAnd == /\ IsEvent("DAnd")
         /\ LET e == Trc[l] c == AndReach(e.x, e.y) IN
            /\ Judge(e, "construct", WfDnf(e.x) /\ WfDnf(e.y) /\ WfDnf(e.r), AndOk(e.x, e.y, e.r), c)
            /\ reach' = (reach \/ c)
         /\ UNCHANGED <<cs, drifted>>
EvOr == /\ IsEvent("DOr")
        /\ LET e == Trc[l] c == OrReach(e.x, e.y) IN
           /\ Judge(e, "construct", WfDnf(e.x) /\ WfDnf(e.y) /\ WfDnf(e.r), OrOk(e.x, e.y, e.r), c)
           /\ reach' = (reach \/ c)
        /\ UNCHANGED <<cs, drifted>>

\* the finished formula: equivalent to the formula it was built from; dnfIsTrue/dnfIsFalse never lie
EvMk == /\ IsEvent("DMk")
        /\ LET e == Trc[l] IN
           /\ Judge(e, "construct", WfDnf(e.r),
                    /\ MkOk(e.f, e.r)
                    /\ (e.isT => TDnf(e.r) = Masks)
                    /\ (e.isF => TDnf(e.r) = {}), reach)
           /\ (Outcome(e) = "ok" /\ WfDnf(e.r) /\ ((TDnf(e.r) = Masks) # e.isT \/ (TDnf(e.r) = {}) # e.isF))
                 => PrintT("DRIFT " \o ToJson([l |-> l, what |-> "dnfIsTrue/dnfIsFalse do not recognise a constant", r |-> e.r]))
           \* implementation-shaped prediction (DnfImpl.tla, the algorithms as written): drift only
           /\ (Outcome(e) = "ok" /\ WfDnf(e.r) /\ Impl(e.f) # e.r)
                 => PrintT("DRIFT-IMPL " \o ToJson([l |-> l, f |-> e.f, code |-> e.r, model |-> Impl(e.f)]))
           /\ drifted' = (drifted \/ (Outcome(e) = "ok" /\ WfDnf(e.r) /\ Impl(e.f) # e.r))
        /\ UNCHANGED <<cs, reach>>
\* an operand of a pair case (formula and DNF, construction steps not logged): no verdict, only "as pinned or not"
EvMkQ == /\ IsEvent("DMkQ")
         /\ LET e == Trc[l] d == Outcome(e) = "ok" /\ WfDnf(e.r) /\ Impl(e.f) # e.r IN
            /\ d => PrintT("DRIFT-IMPL " \o ToJson([l |-> l, f |-> e.f, code |-> e.r, model |-> Impl(e.f)]))
            /\ drifted' = (drifted \/ d)
         /\ UNCHANGED <<cs, reach>>
EvCopy == /\ IsEvent("DCopy")
          /\ LET e == Trc[l] IN Judge(e, "copy", WfDnf(e.x) /\ WfDnf(e.r), TDnf(e.r) = TDnf(e.x), FALSE)
          /\ UNCHANGED <<cs, reach, drifted>>

\* implication and equality tests agree with the truth tables; the BAD record says on which side they err
EvImp == /\ IsEvent("DImp")
         /\ LET e == Trc[l] IN
            IF Outcome(e) # "ok" \/ ~(WfDnf(e.x) /\ WfDnf(e.y)) THEN Judge(e, "implies", WfDnf(e.x) /\ WfDnf(e.y), FALSE, FALSE)
            ELSE LET t == ImpliesTruth(e.x, e.y) IN
                 IF e.r = t THEN Judge(e, "implies", TRUE, TRUE, FALSE)
                 ELSE IF e.r THEN Bad(e, "implies", "says-yes-truth-table-says-no", FALSE)
                 ELSE BadTest(e, "implies", "says-no-truth-table-says-yes", ~drifted /\ ~ImplImplies(e.x, e.y))
         /\ UNCHANGED <<cs, reach, drifted>>
EvEq == /\ IsEvent("DEq")
        /\ LET e == Trc[l] IN
           IF Outcome(e) # "ok" \/ ~(WfDnf(e.x) /\ WfDnf(e.y)) THEN Judge(e, "equal", WfDnf(e.x) /\ WfDnf(e.y), FALSE, FALSE)
           ELSE LET t == EqualTruth(e.x, e.y) IN
                IF e.r = t THEN Judge(e, "equal", TRUE, TRUE, FALSE)
                ELSE IF e.r THEN Bad(e, "equal", "says-yes-truth-table-says-no", FALSE)
                ELSE BadTest(e, "equal", "says-no-truth-table-says-yes",
                             ~drifted /\ ~(ImplImplies(e.x, e.y) /\ ImplImplies(e.y, e.x)))
        /\ UNCHANGED <<cs, reach, drifted>>

Known == {"Reset","DAtom","DNAtom","DTrue","DFalse","DNot","DAnd","DOr","DMk","DMkQ","DCopy","DImp","DEq"}
\* DFree / DLeafFault / Fault: something went wrong outside a judged call
EvOther == /\ l <= Len(Trc) /\ Trc[l].ev \notin Known /\ l' = l + 1
           /\ Bad(Trc[l], "other", "no-spec-action", reach)
           /\ UNCHANGED <<cs, reach, drifted>>

TraceInit == l = 1 /\ cs = -1 /\ reach = FALSE /\ drifted = FALSE /\ f = <<FF>> /\ g = <<FF>>
TraceNext == /\ (EvReset \/ EvLeaf \/ EvNot \/ EvAnd \/ EvOr \/ EvMk \/ EvMkQ \/ EvCopy \/ EvImp \/ EvEq \/ EvOther)
             /\ UNCHANGED <<f, g>>
TraceSpec == TraceInit /\ [][TraceNext]_<<f, g, tvars>>

TraceAccepted == TLCGet("stats").diameter = Len(Trc) + 1
=============================================================================
