SPECIFICATION DetSpec
CONSTANTS
  Ks = {1, 2, 3, 7, 50, 1000}
  MaxRep = 3
INVARIANTS ValidCfgs NearestFirst Functional
PROPERTIES ObsStable FirstStays
CHECK_DEADLOCK FALSE
