\* trace validation against Units.tla (set TRACE=<ndjson file>; -workers 1)
SPECIFICATION TraceSpec
CONSTANTS
  Levels = {"Q0", "Q2", "Q9"}
  MaxLen = 4
  NFuns = 3
  DoPaths = TRUE
  DoSplits = TRUE
INVARIANTS TypeOK Commute SavedDenotes SymesOnlyFromSource SplitWhole SplitDisjoint
CHECK_DEADLOCK FALSE
