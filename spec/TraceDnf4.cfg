SPECIFICATION TraceSpec
CONSTANTS
  A = 4
  Depth = 0
  Mode = "F"
POSTCONDITION TraceAccepted
CHECK_DEADLOCK FALSE
