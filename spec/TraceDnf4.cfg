SPECIFICATION TraceSpec
CONSTANTS
  A = 4
  Depth = 0
  Mode = "F"
  Fixed = FALSE
POSTCONDITION TraceAccepted
CHECK_DEADLOCK FALSE
