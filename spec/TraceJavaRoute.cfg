SPECIFICATION TSpec
CONSTANTS
  Levels = {1, 3, 9}
  Routes = {"interp", "java"}
INVARIANTS NotStuck Sound NoFalseAlarm Statement
CHECK_DEADLOCK FALSE
