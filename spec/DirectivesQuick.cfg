\* C07 directive soups, quick tier: all sequences of <= 3 lines over the 14-line alphabet (2 955 soups)
SPECIFICATION Spec
CONSTANTS
  MaxLen = 3
  ShardLen = 0
  NShards = 1
  ShardNo = 0
  Export = TRUE
INVARIANTS Exported QuitOnly Monotone StackOK
CHECK_DEADLOCK FALSE
