------------------------------ MODULE BitField ------------------------------
(***************************************************************************)
(* util.c: bfShiftUp, bfShiftDn, bfFirst1 -- the byte loops as written,    *)
(* and the statement that on the bit string they compute what XFloatOps    *)
(* assumes (ShiftUp, ShiftDn, First1).  CB is the number of bits per byte: *)
(* 8 in the code; 3 lets TLC try every byte string of 3 bytes with every   *)
(* shift count.  xfloat.c calls bfShiftUp only with bF = 0 (with bF = 1    *)
(* the C code ORs a whole byte of ones into the last byte whatever the     *)
(* count -- not modelled, not used).  All calls shift in place (bv = br),  *)
(* except sfAssemble/dfAssemble where the count is below one byte, for     *)
(* which the loops behave the same.                                        *)
(***************************************************************************)
EXTENDS Naturals, Integers, Sequences, SequencesExt, FiniteSets, TLC

CONSTANTS CB,        \* bits per byte
          NBs,       \* set of byte-string lengths tried
          Mode       \* "all": every byte string;  "boundary": families of bit strings

VARIABLES bv, nsh, b0, b1

Pow2[k \in 0..30] == IF k = 0 THEN 1 ELSE 2 * Pow2[k - 1]
Mask == Pow2[CB] - 1
Ix(lo, hi) == [i \in 1..(hi - lo + 1) |-> lo + i - 1]

BytesToBits(bs) == [i \in 1..(CB * Len(bs)) |-> (bs[((i - 1) \div CB) + 1] \div Pow2[CB - 1 - ((i - 1) % CB)]) % 2]
BitsToNat(s)    == FoldLeft(LAMBDA a, b : 2 * a + b, 0, s)
BitsToBytes(s)  == [k \in 1..(Len(s) \div CB) |-> BitsToNat(SubSeq(s, CB * (k - 1) + 1, CB * k))]

(* the abstract operations, as in XFloatOps *)
ShiftUp(s, n) == [i \in 1..Len(s) |-> IF i + n <= Len(s) THEN s[i + n] ELSE 0]
ShiftDn(s, n, c0, c1) == [i \in 1..Len(s) |-> IF i > n THEN s[i - n] ELSE IF i = n THEN c1 ELSE c0]
First1(s) == SelectInSeq(s, LAMBDA b : b = 1) - 1

---------------------------------------------------------------------------
(* bfShiftUp(nb, br, nsh, bv, 0), in place.  C indices are 0-based; here    *)
(* byte i of the C array is element i+1.                                    *)
BfShiftUp(bs, n) ==
  LET nb == Len(bs)  xbyte == n \div CB  xbit == n % CB
      \* for (i = 0; i < nb - xbyte; i++) br[i] = bv[i + xbyte];  for ( ; i < nb; i++) br[i] = BF;
      p1 == [i \in 1..nb |-> IF i <= nb - xbyte THEN bs[i + xbyte] ELSE 0]
      \* ov = BF; for (i = nb - 1; i >= 0; i--) { b = bv[i]; br[i] = (b << xbit) | ov; ov = b >> (CHAR_BIT - xbit); }
      st == FoldLeft(LAMBDA acc, j :
                       LET i == nb + 1 - j
                           b == p1[i]
                           v == ((b * Pow2[xbit]) % Pow2[CB]) + acc[1]     \* disjoint bits: | is +; UByte truncation
                       IN <<b \div Pow2[CB - xbit], [acc[2] EXCEPT ![i] = v]>>,
                     <<0, p1>>, Ix(1, nb))
  IN st[2]

(* bfShiftDn(nb, br, nsh, bv, b0, b1), in place *)
BfShiftDn(bs, n, c0, c1) ==
  LET nb == Len(bs)  xbyte == n \div CB  xbit == n % CB
      B0 == IF c0 = 1 THEN Mask ELSE 0
      B1 == IF c1 = 1 THEN (IF c0 = 1 THEN Mask ELSE 1) ELSE (IF c0 = 1 THEN Mask - 1 ELSE 0)   \* b1 ? B0|1 : B0&~1
      \* for (i = nb-1; i >= xbyte; i--) br[i] = bv[i - xbyte];
      \* for (i = 0; i < xbyte && i < nb; i++) br[i] = (i == xbyte-1) ? B1 : B0;
      p1 == [i \in 1..nb |-> IF i - 1 >= xbyte THEN bs[i - xbyte] ELSE IF i - 1 = xbyte - 1 THEN B1 ELSE B0]
      \* ov = (!xbyte ? B1 : B0) << (CHAR_BIT - xbit);
      \* for (i = 0; i < nb; i++) { b = bv[i]; br[i] = (b >> xbit) | (ov & 0xff); ov = b << (CHAR_BIT - xbit); }
      ov0 == (IF xbyte = 0 THEN B1 ELSE B0) * Pow2[CB - xbit]
      st == FoldLeft(LAMBDA acc, i :
                       LET b == p1[i]
                           v == (b \div Pow2[xbit]) + (acc[1] % Pow2[CB])      \* disjoint bits: | is +
                       IN <<b * Pow2[CB - xbit], [acc[2] EXCEPT ![i] = v]>>,
                     <<ov0, p1>>, Ix(1, nb))
  IN st[2]

(* bfFirst1(nb, bv) *)
BfFirst1(bs) ==
  LET nb == Len(bs)
      nz == {i \in 1..nb : bs[i] # 0}
  IN IF nz = {} THEN -1
     ELSE LET xbyte == (CHOOSE i \in nz : \A j \in nz : i <= j) - 1
              xbit  == CHOOSE k \in 0..(CB - 1) :
                          /\ (bs[xbyte + 1] \div Pow2[CB - k - 1]) % 2 = 1
                          /\ \A m \in 0..(k - 1) : (bs[xbyte + 1] \div Pow2[CB - m - 1]) % 2 = 0
          IN xbyte * CB + xbit

---------------------------------------------------------------------------
NatToBytes(v, nb) == [i \in 1..nb |-> (v \div Pow2[CB * (nb - i)]) % Pow2[CB]]

Fam(n) == LET ones == [i \in 1..n |-> 1]
          IN {[i \in 1..n |-> 0], ones, [i \in 1..n |-> i % 2], [i \in 1..n |-> (i + 1) % 2]}
               \cup {[i \in 1..n |-> IF i = k THEN 1 ELSE 0] : k \in 1..n}
               \cup {[i \in 1..n |-> IF i = k THEN 0 ELSE 1] : k \in 1..n}
               \cup {[i \in 1..n |-> IF i <= k THEN 1 ELSE 0] : k \in 1..n}
               \cup {[i \in 1..n |-> IF i > k THEN 1 ELSE 0] : k \in 1..n}

Strings(nb) == IF Mode = "all" THEN {NatToBytes(v, nb) : v \in 0..(Pow2[CB * nb] - 1)}
               ELSE {BitsToBytes(s) : s \in Fam(CB * nb)}

Init == \E nb \in NBs : /\ bv \in Strings(nb)
                        /\ nsh \in 0..(CB * nb + 2)
                        /\ b0 \in 0..1 /\ b1 \in 0..1
Next == UNCHANGED <<bv, nsh, b0, b1>>
Spec == Init /\ [][Next]_<<bv, nsh, b0, b1>>

UpOk    == BytesToBits(BfShiftUp(bv, nsh)) = ShiftUp(BytesToBits(bv), nsh)
DnOk    == BytesToBits(BfShiftDn(bv, nsh, b0, b1)) = ShiftDn(BytesToBits(bv), nsh, b0, b1)
FirstOk == BfFirst1(bv) = First1(BytesToBits(bv))
=============================================================================
