SPECIFICATION Spec
CONSTANTS
  MaxN = 2
  MaxDepth = 2
  TreeSource = "enum"
  StyleSet = "base"
  Seed = 0
  ScanChars = TRUE
  Export = FALSE
  Use0 = {"L1", "L2", "L3", "L5", "L6"}
  Use1 = {"D1", "I1", "F1", "M1", "Q1", "A1", "C1"}
  Use2 = {"I2", "Q2"}
  Use3 = {"I3"}
INVARIANTS LayoutIndependent ScanIndependent LeadOK StageOK WordsKept
CHECK_DEADLOCK FALSE
