------------------------------ MODULE CSplitFn ------------------------------
(***************************************************************************)
(* -Csmax=<N>: the split decision of the C generator as a FUNCTION of the   *)
(* unit's statement estimate S and the limit N, with the facts every site   *)
(* of genc.c / emit.c derives from it.  (No variables: COpts.tla, CSplit.tla *)
(* and CSplitPlan.tla extend this module.)                                  *)
(*                                                                          *)
(* S = the estimate genc.c:gc0ExternDecls computes before it generates       *)
(*     anything: the sum of the top-level statement counts of the bodies of  *)
(*     all programs of the unit plus one per definition that is no program.  *)
(* Sites that ask "is this unit split?" (all must give ONE answer for one    *)
(* unit, otherwise the pieces do not fit together):                          *)
(*   loop    gc0ExternDecls: while (nStmts > gcvSMax && gcvSMax > 0) peels   *)
(*           one "brother" part off the definitions and subtracts N          *)
(*   class   gc0ConstDecl / gccProg: storage class static vs extern of the   *)
(*           Cn / CFn objects; gc0OverSMax()                                 *)
(*   name    gccProgId / gccGetVar / gc0ConstDecl: Cn_<unit>_<name> instead  *)
(*           of Cn_<name> (an extern name must be unique in the executable)  *)
(*   defs    gccProg: `FiProg Cn;' definitions next to the function          *)
(*   header  gc0ExternDecls: the declarations are a list element of their    *)
(*           own (written to <unit>.h by emit.c) or the head of the one part *)
(*   globals gc0BIntGlobal / RRFmt / Fortran closures: extern + definition   *)
(*   emit    emit.c:emitTheC: a list of more than one element has the header *)
(*           as FIRST element; element 2 is <unit>.c, element k > 2 is       *)
(*           <first five characters>NNN.c with NNN = k-2                     *)
(***************************************************************************)
EXTENDS Naturals, Integers, Sequences, FiniteSets

(* genc.c: #define gc0OverSMax() (gcvSMax > 0 && gcvNStmts > gcvSMax) *)
OverSMax(S, N) == N > 0 /\ S > N

CeilDiv(a, b) == (a + b - 1) \div b

(* C files the unit becomes (brother parts + the part that holds constant 0): the loop subtracts N per brother while *)
(* more than N statements are left                                                                                    *)
NParts(S, N)   == IF OverSMax(S, N) THEN CeilDiv(S, N) ELSE 1
Brothers(S, N) == NParts(S, N) - 1
HasHeader(S, N) == OverSMax(S, N)
StorageClass(S, N) == IF OverSMax(S, N) THEN "extern" ELSE "static"
QualifiedNames(S, N) == OverSMax(S, N)

(* what every site needs of the others (the requirement; CSplit.tla checks that the code as written meets it) *)
SitesAgree(loopSplits, classExtern, headerSeparate, qualified) ==
  /\ loopSplits => classExtern          \* a definition in a brother part is referenced from the part of constant 0
  /\ loopSplits => headerSeparate       \* every part must see the declarations
  /\ classExtern => qualified           \* an extern C name must not depend on the unit alone being linked
  /\ headerSeparate = classExtern       \* the header declares them `extern'; a unit of one file keeps them `static'

(* the limits at which a unit of estimate S has to be exercised: around S (split / not split), around S/2 and S/3     *)
(* (exactly k parts / one statement over), the largest divisors (S = k*N exactly), and the smallest limits             *)
Divisors(S) == {d \in 2..(S \div 2) : S % d = 0}
MaxOf(T) == CHOOSE x \in T : \A y \in T : y <= x
TopDivisors(S) == LET D == Divisors(S) IN
                  IF D = {} THEN {} ELSE LET d1 == MaxOf(D) IN IF D \ {d1} = {} THEN {d1} ELSE {d1, MaxOf(D \ {d1})}
BoundaryN(S, small) ==
  {n \in ((S - 2)..(S + 2)) \cup ((S \div 2 - 1)..(S \div 2 + 1)) \cup ((S \div 3)..(S \div 3 + 1)) \cup TopDivisors(S)
         \cup (IF small THEN {1, 2} ELSE {}) : n >= 1}
=============================================================================
