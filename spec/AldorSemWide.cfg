SPECIFICATION ExportSpec
CONSTANTS
  Modes = {"ltr", "rtl"}
  Fuel = 60000
INVARIANT NoStuck
CHECK_DEADLOCK FALSE
