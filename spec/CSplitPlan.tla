----------------------------- MODULE CSplitPlan -----------------------------
(***************************************************************************)
(* For units whose statement estimate S the harness MEASURED on the real    *)
(* compiler, the limits -Csmax=<N> at which the unit has to be exercised     *)
(* (CSplitFn!BoundaryN: around S, S/2, S/3, the largest divisors, 1 and 2    *)
(* for small units) and, for each, what the specification derives: split or  *)
(* not, number of C files, header or not.  Input: C16_SPLIT = ndjson         *)
(* records [id, S, small].                                                   *)
(***************************************************************************)
EXTENDS CSplitFn, TLC, Json, IOUtils, SequencesExt

Req == ndJsonDeserialize(IOEnv.C16_SPLIT)

VARIABLE k
Row(S, n) == [N |-> n, split |-> OverSMax(S, n), cfiles |-> NParts(S, n), header |-> HasHeader(S, n),
              class |-> StorageClass(S, n), boundary |-> (n = S \/ n + 1 = S \/ n = S + 1 \/ (S % n = 0) \/ (S % n = 1) \/ n <= 2)]
Plan(r) == LET Ns == SetToSortSeq(BoundaryN(r.S, r.small), LAMBDA a, b : a < b)
           IN [id |-> r.id, S |-> r.S, rows |-> [i \in 1..Len(Ns) |-> Row(r.S, Ns[i])]]
Init == k = 0
Next == /\ k < Len(Req) /\ k' = k + 1
        /\ PrintT("PLAN " \o ToJson(Plan(Req[k + 1])))
Spec == Init /\ [][Next]_k
(* the plan of every unit holds both sides of the split boundary, the exact-multiple case and the limit S itself *)
PlanCoversBoundaries == \A i \in 1..Len(Req) : LET S == Req[i].S  B == BoundaryN(S, Req[i].small) IN
    S >= 4 => /\ S \in B /\ (S - 1) \in B /\ (S + 1) \in B
              /\ (Divisors(S) # {} \/ Req[i].small) => \E n \in B : n < S /\ S % n = 0
              /\ \E n \in B : OverSMax(S, n) /\ NParts(S, n) = 2
              /\ \E n \in B : OverSMax(S, n) /\ NParts(S, n) >= 3
=============================================================================
