--------------------------- MODULE TraceJavaRoute ---------------------------
(***************************************************************************)
(* Trace validation against JavaRoute.tla.  The trace (ndjson, file named  *)
(* by the environment variable TRACE) consists of                          *)
(*   {"ev":"Expect","prog":id,"s64":status,"d64":[..],"s32":..,"d32":[..]} *)
(*        the behaviours TLC derived from AldorSem / AldorSemW32           *)
(*   {"ev":"Run","prog":id,"route":"interp"|"java","level":q,              *)
(*    "built":"ok"|"compile"|"javac"|"timeout"|"fault","digest":[..],      *)
(*    "cls":0|1}                                                           *)
(*        one run of the real tool chain                                   *)
(*   {"ev":"Close"}                                                        *)
(* Every event must be a step of JavaRoute (an event that is not enabled   *)
(* -- a run of a program outside the family, a repeated run, an unknown    *)
(* level -- stops the trace: NotStuck is violated).  Runs the monitor      *)
(* rejects are printed as NONCONF lines, programs with missing runs as     *)
(* INCOMPLETE; acceptance = the SUMMARY line reports accepted = TRUE.      *)
(* Run with -workers 1.                                                    *)
(***************************************************************************)
EXTENDS JavaRoute, Json, IOUtils, Sequences, TLC

VARIABLES l, stuck

Trc == ndJsonDeserialize(IOEnv.TRACE)
tvars == <<seen, want, out, ran, hist, bad, closed, l, stuck>>

TInit == JInit /\ l = 1 /\ stuck = FALSE

E == Trc[l]
More == l <= Len(Trc) /\ ~stuck

TExpect == /\ More /\ E.ev = "Expect"
           /\ Expect(E.prog, [status |-> E.s64, digest |-> E.d64], [status |-> E.s32, digest |-> E.d32])
           /\ l' = l + 1 /\ UNCHANGED stuck

TRun == /\ More /\ E.ev = "Run"
        /\ LET o == [digest |-> E.digest, cls |-> E.cls] IN
           /\ Run(E.prog, E.route, E.level, E.built, o)
           /\ LET why == Reasons(E.prog, E.route, E.built, o) IN
              IF why = {} THEN TRUE
              ELSE PrintT("NONCONF " \o ToJson([event |-> l, prog |-> E.prog, route |-> E.route, level |-> E.level,
                                                 why |-> why]))
        /\ l' = l + 1 /\ UNCHANGED stuck

TClose == /\ More /\ E.ev = "Close" /\ Close
          /\ (\A p \in Incomplete : PrintT("INCOMPLETE " \o ToJson([prog |-> p, missing |-> (Routes \X Levels) \ ran[p]])))
          /\ l' = l + 1 /\ UNCHANGED stuck

(* an event that is no step of the specification *)
TStuck == /\ More
          /\ ~ENABLED (TExpect \/ TRun \/ TClose)
          /\ PrintT("STUCK " \o ToJson([event |-> l, ev |-> E]))
          /\ stuck' = TRUE /\ UNCHANGED <<seen, want, out, ran, hist, bad, closed, l>>

Finish == /\ l = Len(Trc) + 1 /\ ~stuck
          /\ PrintT("SUMMARY " \o ToJson([events |-> Len(Trc), members |-> Cardinality(DOMAIN want),
                                          outside |-> Cardinality(out), runs |-> Cardinality(hist),
                                          rejected |-> Cardinality(bad), incomplete |-> Cardinality(Incomplete),
                                          closed |-> closed, accepted |-> (closed /\ Accepted)]))
          /\ l' = l + 1 /\ UNCHANGED <<seen, want, out, ran, hist, bad, closed, stuck>>

TNext == TExpect \/ TRun \/ TClose \/ TStuck \/ Finish
TSpec == TInit /\ [][TNext]_tvars

NotStuck == ~stuck
=============================================================================
