SPECIFICATION TSpec
CONSTANTS
  Variant = "bytag"
  Export = TRUE
INVARIANTS TableAsWithout OutputAsWithout VerdictsAsIntended Bounded OnePerSig
PROPERTIES UndoRestores RejectSilent Monotone
CHECK_DEADLOCK FALSE
