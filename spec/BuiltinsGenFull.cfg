SPECIFICATION Spec
CONSTANTS SIntW = 64
          WordW = 64
          Stride = 1
          Stride3 = 1
          Offset = 0
          OpFilter = {}
CHECK_DEADLOCK FALSE
