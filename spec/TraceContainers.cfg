SPECIFICATION TraceSpec
CONSTANTS
  Kind = "T"
  MaxLen = 0
  Keys = {}
  NBits = 0
  Regs = 0
  BPrefix = 0
  DelKeys = {}
  IntVals = {}
INVARIANT TraceTypeOK
POSTCONDITION TraceAccepted
CHECK_DEADLOCK FALSE
