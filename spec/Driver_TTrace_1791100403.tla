---- MODULE Driver_TTrace_1791100403 ----
EXTENDS Sequences, TLCExt, Toolbox, Driver_TEConstants, Driver, Naturals, TLC

_expression ==
    LET Driver_TEExpression == INSTANCE Driver_TEExpression
    IN Driver_TEExpression!expression
----

_trace ==
    LET Driver_TETrace == INSTANCE Driver_TETrace
    IN Driver_TETrace!trace
----

_prop ==
    ~(([]<>(
            phase = ("putc")
            /\
            errs = (<<1, 0, 0>>)
            /\
            io = ((<<1, "ai">> :> "ok" @@ <<1, "ao">> :> "ok" @@ <<1, "c">> :> "ok" @@ <<1, "main">> :> "ok" @@ <<1, "ap">> :> "ok" @@ <<1, "asy">> :> "ok" @@ <<1, "fm">> :> "ok" @@ <<1, "lsp">> :> "ok" @@ <<1, "java">> :> "ok" @@ <<2, "ai">> :> "ok" @@ <<2, "ao">> :> "ok" @@ <<2, "c">> :> "ok" @@ <<2, "main">> :> "ok" @@ <<2, "ap">> :> "ok" @@ <<2, "asy">> :> "ok" @@ <<2, "fm">> :> "ok" @@ <<2, "lsp">> :> "ok" @@ <<2, "java">> :> "ok" @@ <<3, "ai">> :> "ok" @@ <<3, "ao">> :> "ok" @@ <<3, "c">> :> "ok" @@ <<3, "main">> :> "ok" @@ <<3, "ap">> :> "ok" @@ <<3, "asy">> :> "ok" @@ <<3, "fm">> :> "ok" @@ <<3, "lsp">> :> "ok" @@ <<3, "java">> :> "ok"))
            /\
            printedError = (TRUE)
            /\
            pendingIo = (<<0, "none">>)
            /\
            wfail = ({})
            /\
            nfiles = (1)
            /\
            out = ((<<1, "ai">> :> "open" @@ <<1, "ao">> :> "absent" @@ <<1, "c">> :> "absent" @@ <<1, "main">> :> "absent" @@ <<1, "ap">> :> "absent" @@ <<1, "asy">> :> "absent" @@ <<1, "fm">> :> "absent" @@ <<1, "lsp">> :> "absent" @@ <<1, "java">> :> "absent" @@ <<2, "ai">> :> "absent" @@ <<2, "ao">> :> "absent" @@ <<2, "c">> :> "absent" @@ <<2, "main">> :> "absent" @@ <<2, "ap">> :> "absent" @@ <<2, "asy">> :> "absent" @@ <<2, "fm">> :> "absent" @@ <<2, "lsp">> :> "absent" @@ <<2, "java">> :> "absent" @@ <<3, "ai">> :> "absent" @@ <<3, "ao">> :> "absent" @@ <<3, "c">> :> "absent" @@ <<3, "main">> :> "absent" @@ <<3, "ap">> :> "absent" @@ <<3, "asy">> :> "absent" @@ <<3, "fm">> :> "absent" @@ <<3, "lsp">> :> "absent" @@ <<3, "java">> :> "absent"))
            /\
            exit = (-1)
            /\
            fstate = ("running")
            /\
            requested = ({"ai"})
            /\
            file = (1)
            /\
            dying = (FALSE)
            /\
            postDone = ({})
            /\
            nfaults = (0)
            /\
            rank = (18)
            /\
            written = ({<<1, "ai">>})
    ))/\([]<>(
            phase = ("putc")
            /\
            errs = (<<1, 0, 0>>)
            /\
            io = ((<<1, "ai">> :> "ok" @@ <<1, "ao">> :> "ok" @@ <<1, "c">> :> "ok" @@ <<1, "main">> :> "ok" @@ <<1, "ap">> :> "ok" @@ <<1, "asy">> :> "ok" @@ <<1, "fm">> :> "ok" @@ <<1, "lsp">> :> "ok" @@ <<1, "java">> :> "ok" @@ <<2, "ai">> :> "ok" @@ <<2, "ao">> :> "ok" @@ <<2, "c">> :> "ok" @@ <<2, "main">> :> "ok" @@ <<2, "ap">> :> "ok" @@ <<2, "asy">> :> "ok" @@ <<2, "fm">> :> "ok" @@ <<2, "lsp">> :> "ok" @@ <<2, "java">> :> "ok" @@ <<3, "ai">> :> "ok" @@ <<3, "ao">> :> "ok" @@ <<3, "c">> :> "ok" @@ <<3, "main">> :> "ok" @@ <<3, "ap">> :> "ok" @@ <<3, "asy">> :> "ok" @@ <<3, "fm">> :> "ok" @@ <<3, "lsp">> :> "ok" @@ <<3, "java">> :> "ok"))
            /\
            printedError = (TRUE)
            /\
            pendingIo = (<<0, "none">>)
            /\
            wfail = ({})
            /\
            nfiles = (1)
            /\
            out = ((<<1, "ai">> :> "complete" @@ <<1, "ao">> :> "absent" @@ <<1, "c">> :> "absent" @@ <<1, "main">> :> "absent" @@ <<1, "ap">> :> "absent" @@ <<1, "asy">> :> "absent" @@ <<1, "fm">> :> "absent" @@ <<1, "lsp">> :> "absent" @@ <<1, "java">> :> "absent" @@ <<2, "ai">> :> "absent" @@ <<2, "ao">> :> "absent" @@ <<2, "c">> :> "absent" @@ <<2, "main">> :> "absent" @@ <<2, "ap">> :> "absent" @@ <<2, "asy">> :> "absent" @@ <<2, "fm">> :> "absent" @@ <<2, "lsp">> :> "absent" @@ <<2, "java">> :> "absent" @@ <<3, "ai">> :> "absent" @@ <<3, "ao">> :> "absent" @@ <<3, "c">> :> "absent" @@ <<3, "main">> :> "absent" @@ <<3, "ap">> :> "absent" @@ <<3, "asy">> :> "absent" @@ <<3, "fm">> :> "absent" @@ <<3, "lsp">> :> "absent" @@ <<3, "java">> :> "absent"))
            /\
            exit = (-1)
            /\
            fstate = ("running")
            /\
            requested = ({"ai"})
            /\
            file = (1)
            /\
            dying = (FALSE)
            /\
            postDone = ({})
            /\
            nfaults = (0)
            /\
            rank = (18)
            /\
            written = ({})
    )))
----

_init ==
    /\ phase = _TETrace[1].phase
    /\ exit = _TETrace[1].exit
    /\ fstate = _TETrace[1].fstate
    /\ nfiles = _TETrace[1].nfiles
    /\ printedError = _TETrace[1].printedError
    /\ pendingIo = _TETrace[1].pendingIo
    /\ written = _TETrace[1].written
    /\ out = _TETrace[1].out
    /\ file = _TETrace[1].file
    /\ dying = _TETrace[1].dying
    /\ wfail = _TETrace[1].wfail
    /\ errs = _TETrace[1].errs
    /\ io = _TETrace[1].io
    /\ nfaults = _TETrace[1].nfaults
    /\ postDone = _TETrace[1].postDone
    /\ rank = _TETrace[1].rank
    /\ requested = _TETrace[1].requested
----

_next ==
    /\ \E i,j \in DOMAIN _TETrace:
        /\ \/ /\ j = i + 1
              /\ i = TLCGet("level")
           \/ /\ i = _TTraceLassoEnd
              /\ j = _TTraceLassoStart
        /\ phase  = _TETrace[i].phase
        /\ phase' = _TETrace[j].phase
        /\ exit  = _TETrace[i].exit
        /\ exit' = _TETrace[j].exit
        /\ fstate  = _TETrace[i].fstate
        /\ fstate' = _TETrace[j].fstate
        /\ nfiles  = _TETrace[i].nfiles
        /\ nfiles' = _TETrace[j].nfiles
        /\ printedError  = _TETrace[i].printedError
        /\ printedError' = _TETrace[j].printedError
        /\ pendingIo  = _TETrace[i].pendingIo
        /\ pendingIo' = _TETrace[j].pendingIo
        /\ written  = _TETrace[i].written
        /\ written' = _TETrace[j].written
        /\ out  = _TETrace[i].out
        /\ out' = _TETrace[j].out
        /\ file  = _TETrace[i].file
        /\ file' = _TETrace[j].file
        /\ dying  = _TETrace[i].dying
        /\ dying' = _TETrace[j].dying
        /\ wfail  = _TETrace[i].wfail
        /\ wfail' = _TETrace[j].wfail
        /\ errs  = _TETrace[i].errs
        /\ errs' = _TETrace[j].errs
        /\ io  = _TETrace[i].io
        /\ io' = _TETrace[j].io
        /\ nfaults  = _TETrace[i].nfaults
        /\ nfaults' = _TETrace[j].nfaults
        /\ postDone  = _TETrace[i].postDone
        /\ postDone' = _TETrace[j].postDone
        /\ rank  = _TETrace[i].rank
        /\ rank' = _TETrace[j].rank
        /\ requested  = _TETrace[i].requested
        /\ requested' = _TETrace[j].requested

\* Uncomment the ASSUME below to write the states of the error trace
\* to the given file in Json format. Note that you can pass any tuple
\* to `JsonSerialize`. For example, a sub-sequence of _TETrace.
    \* ASSUME
    \*     LET J == INSTANCE Json
    \*         IN J!JsonSerialize("Driver_TTrace_1791100403.json", _TETrace)


_view ==
    <<phase, exit, fstate, nfiles, printedError, pendingIo, written, out, file, dying, wfail, errs, io, nfaults, postDone, rank, requested, IF TLCGet("level") = _TTraceLassoEnd + 1 THEN _TTraceLassoStart ELSE TLCGet("level")>>
=============================================================================

 Note that you can extract this module `Driver_TEExpression`
  to a dedicated file to reuse `expression` (the module in the 
  dedicated `Driver_TEExpression.tla` file takes precedence 
  over the module `Driver_TEExpression` below).

---- MODULE Driver_TEExpression ----
EXTENDS Sequences, TLCExt, Toolbox, Driver_TEConstants, Driver, Naturals, TLC

expression == 
    [
        \* To hide variables of the `Driver` spec from the error trace,
        \* remove the variables below.  The trace will be written in the order
        \* of the fields of this record.
        phase |-> phase
        ,exit |-> exit
        ,fstate |-> fstate
        ,nfiles |-> nfiles
        ,printedError |-> printedError
        ,pendingIo |-> pendingIo
        ,written |-> written
        ,out |-> out
        ,file |-> file
        ,dying |-> dying
        ,wfail |-> wfail
        ,errs |-> errs
        ,io |-> io
        ,nfaults |-> nfaults
        ,postDone |-> postDone
        ,rank |-> rank
        ,requested |-> requested
        
        \* Put additional constant-, state-, and action-level expressions here:
        \* ,_stateNumber |-> _TEPosition
        \* ,_phaseUnchanged |-> phase = phase'
        
        \* Format the `phase` variable as Json value.
        \* ,_phaseJson |->
        \*     LET J == INSTANCE Json
        \*     IN J!ToJson(phase)
        
        \* Lastly, you may build expressions over arbitrary sets of states by
        \* leveraging the _TETrace operator.  For example, this is how to
        \* count the number of times a spec variable changed up to the current
        \* state in the trace.
        \* ,_phaseModCount |->
        \*     LET F[s \in DOMAIN _TETrace] ==
        \*         IF s = 1 THEN 0
        \*         ELSE IF _TETrace[s].phase # _TETrace[s-1].phase
        \*             THEN 1 + F[s-1] ELSE F[s-1]
        \*     IN F[_TEPosition - 1]
    ]

=============================================================================



Parsing and semantic processing can take forever if the trace below is long.
 In this case, it is advised to uncomment the module below to deserialize the
 trace from a generated binary file.

\*
\*---- MODULE Driver_TETrace ----
\*EXTENDS IOUtils, Driver_TEConstants, Driver, TLC
\*
\*trace == IODeserialize("Driver_TTrace_1791100403.bin", TRUE)
\*
\*=============================================================================
\*

---- MODULE Driver_TETrace ----
EXTENDS Driver_TEConstants, Driver, TLC

trace == 
    <<
    ([phase |-> "none",errs |-> <<0, 0, 0>>,io |-> (<<1, "ai">> :> "ok" @@ <<1, "ao">> :> "ok" @@ <<1, "c">> :> "ok" @@ <<1, "main">> :> "ok" @@ <<1, "ap">> :> "ok" @@ <<1, "asy">> :> "ok" @@ <<1, "fm">> :> "ok" @@ <<1, "lsp">> :> "ok" @@ <<1, "java">> :> "ok" @@ <<2, "ai">> :> "ok" @@ <<2, "ao">> :> "ok" @@ <<2, "c">> :> "ok" @@ <<2, "main">> :> "ok" @@ <<2, "ap">> :> "ok" @@ <<2, "asy">> :> "ok" @@ <<2, "fm">> :> "ok" @@ <<2, "lsp">> :> "ok" @@ <<2, "java">> :> "ok" @@ <<3, "ai">> :> "ok" @@ <<3, "ao">> :> "ok" @@ <<3, "c">> :> "ok" @@ <<3, "main">> :> "ok" @@ <<3, "ap">> :> "ok" @@ <<3, "asy">> :> "ok" @@ <<3, "fm">> :> "ok" @@ <<3, "lsp">> :> "ok" @@ <<3, "java">> :> "ok"),printedError |-> FALSE,pendingIo |-> <<0, "none">>,wfail |-> {},nfiles |-> 1,out |-> (<<1, "ai">> :> "absent" @@ <<1, "ao">> :> "absent" @@ <<1, "c">> :> "absent" @@ <<1, "main">> :> "absent" @@ <<1, "ap">> :> "absent" @@ <<1, "asy">> :> "absent" @@ <<1, "fm">> :> "absent" @@ <<1, "lsp">> :> "absent" @@ <<1, "java">> :> "absent" @@ <<2, "ai">> :> "absent" @@ <<2, "ao">> :> "absent" @@ <<2, "c">> :> "absent" @@ <<2, "main">> :> "absent" @@ <<2, "ap">> :> "absent" @@ <<2, "asy">> :> "absent" @@ <<2, "fm">> :> "absent" @@ <<2, "lsp">> :> "absent" @@ <<2, "java">> :> "absent" @@ <<3, "ai">> :> "absent" @@ <<3, "ao">> :> "absent" @@ <<3, "c">> :> "absent" @@ <<3, "main">> :> "absent" @@ <<3, "ap">> :> "absent" @@ <<3, "asy">> :> "absent" @@ <<3, "fm">> :> "absent" @@ <<3, "lsp">> :> "absent" @@ <<3, "java">> :> "absent"),exit |-> -1,fstate |-> "idle",requested |-> {"ai"},file |-> 0,dying |-> FALSE,postDone |-> {},nfaults |-> 0,rank |-> 0,written |-> {}]),
    ([phase |-> "none",errs |-> <<0, 0, 0>>,io |-> (<<1, "ai">> :> "ok" @@ <<1, "ao">> :> "ok" @@ <<1, "c">> :> "ok" @@ <<1, "main">> :> "ok" @@ <<1, "ap">> :> "ok" @@ <<1, "asy">> :> "ok" @@ <<1, "fm">> :> "ok" @@ <<1, "lsp">> :> "ok" @@ <<1, "java">> :> "ok" @@ <<2, "ai">> :> "ok" @@ <<2, "ao">> :> "ok" @@ <<2, "c">> :> "ok" @@ <<2, "main">> :> "ok" @@ <<2, "ap">> :> "ok" @@ <<2, "asy">> :> "ok" @@ <<2, "fm">> :> "ok" @@ <<2, "lsp">> :> "ok" @@ <<2, "java">> :> "ok" @@ <<3, "ai">> :> "ok" @@ <<3, "ao">> :> "ok" @@ <<3, "c">> :> "ok" @@ <<3, "main">> :> "ok" @@ <<3, "ap">> :> "ok" @@ <<3, "asy">> :> "ok" @@ <<3, "fm">> :> "ok" @@ <<3, "lsp">> :> "ok" @@ <<3, "java">> :> "ok"),printedError |-> FALSE,pendingIo |-> <<0, "none">>,wfail |-> {},nfiles |-> 1,out |-> (<<1, "ai">> :> "absent" @@ <<1, "ao">> :> "absent" @@ <<1, "c">> :> "absent" @@ <<1, "main">> :> "absent" @@ <<1, "ap">> :> "absent" @@ <<1, "asy">> :> "absent" @@ <<1, "fm">> :> "absent" @@ <<1, "lsp">> :> "absent" @@ <<1, "java">> :> "absent" @@ <<2, "ai">> :> "absent" @@ <<2, "ao">> :> "absent" @@ <<2, "c">> :> "absent" @@ <<2, "main">> :> "absent" @@ <<2, "ap">> :> "absent" @@ <<2, "asy">> :> "absent" @@ <<2, "fm">> :> "absent" @@ <<2, "lsp">> :> "absent" @@ <<2, "java">> :> "absent" @@ <<3, "ai">> :> "absent" @@ <<3, "ao">> :> "absent" @@ <<3, "c">> :> "absent" @@ <<3, "main">> :> "absent" @@ <<3, "ap">> :> "absent" @@ <<3, "asy">> :> "absent" @@ <<3, "fm">> :> "absent" @@ <<3, "lsp">> :> "absent" @@ <<3, "java">> :> "absent"),exit |-> -1,fstate |-> "running",requested |-> {"ai"},file |-> 1,dying |-> FALSE,postDone |-> {},nfaults |-> 0,rank |-> 0,written |-> {}]),
    ([phase |-> "none",errs |-> <<1, 0, 0>>,io |-> (<<1, "ai">> :> "ok" @@ <<1, "ao">> :> "ok" @@ <<1, "c">> :> "ok" @@ <<1, "main">> :> "ok" @@ <<1, "ap">> :> "ok" @@ <<1, "asy">> :> "ok" @@ <<1, "fm">> :> "ok" @@ <<1, "lsp">> :> "ok" @@ <<1, "java">> :> "ok" @@ <<2, "ai">> :> "ok" @@ <<2, "ao">> :> "ok" @@ <<2, "c">> :> "ok" @@ <<2, "main">> :> "ok" @@ <<2, "ap">> :> "ok" @@ <<2, "asy">> :> "ok" @@ <<2, "fm">> :> "ok" @@ <<2, "lsp">> :> "ok" @@ <<2, "java">> :> "ok" @@ <<3, "ai">> :> "ok" @@ <<3, "ao">> :> "ok" @@ <<3, "c">> :> "ok" @@ <<3, "main">> :> "ok" @@ <<3, "ap">> :> "ok" @@ <<3, "asy">> :> "ok" @@ <<3, "fm">> :> "ok" @@ <<3, "lsp">> :> "ok" @@ <<3, "java">> :> "ok"),printedError |-> TRUE,pendingIo |-> <<0, "none">>,wfail |-> {},nfiles |-> 1,out |-> (<<1, "ai">> :> "absent" @@ <<1, "ao">> :> "absent" @@ <<1, "c">> :> "absent" @@ <<1, "main">> :> "absent" @@ <<1, "ap">> :> "absent" @@ <<1, "asy">> :> "absent" @@ <<1, "fm">> :> "absent" @@ <<1, "lsp">> :> "absent" @@ <<1, "java">> :> "absent" @@ <<2, "ai">> :> "absent" @@ <<2, "ao">> :> "absent" @@ <<2, "c">> :> "absent" @@ <<2, "main">> :> "absent" @@ <<2, "ap">> :> "absent" @@ <<2, "asy">> :> "absent" @@ <<2, "fm">> :> "absent" @@ <<2, "lsp">> :> "absent" @@ <<2, "java">> :> "absent" @@ <<3, "ai">> :> "absent" @@ <<3, "ao">> :> "absent" @@ <<3, "c">> :> "absent" @@ <<3, "main">> :> "absent" @@ <<3, "ap">> :> "absent" @@ <<3, "asy">> :> "absent" @@ <<3, "fm">> :> "absent" @@ <<3, "lsp">> :> "absent" @@ <<3, "java">> :> "absent"),exit |-> -1,fstate |-> "running",requested |-> {"ai"},file |-> 1,dying |-> FALSE,postDone |-> {},nfaults |-> 0,rank |-> 0,written |-> {}]),
    ([phase |-> "putc",errs |-> <<1, 0, 0>>,io |-> (<<1, "ai">> :> "ok" @@ <<1, "ao">> :> "ok" @@ <<1, "c">> :> "ok" @@ <<1, "main">> :> "ok" @@ <<1, "ap">> :> "ok" @@ <<1, "asy">> :> "ok" @@ <<1, "fm">> :> "ok" @@ <<1, "lsp">> :> "ok" @@ <<1, "java">> :> "ok" @@ <<2, "ai">> :> "ok" @@ <<2, "ao">> :> "ok" @@ <<2, "c">> :> "ok" @@ <<2, "main">> :> "ok" @@ <<2, "ap">> :> "ok" @@ <<2, "asy">> :> "ok" @@ <<2, "fm">> :> "ok" @@ <<2, "lsp">> :> "ok" @@ <<2, "java">> :> "ok" @@ <<3, "ai">> :> "ok" @@ <<3, "ao">> :> "ok" @@ <<3, "c">> :> "ok" @@ <<3, "main">> :> "ok" @@ <<3, "ap">> :> "ok" @@ <<3, "asy">> :> "ok" @@ <<3, "fm">> :> "ok" @@ <<3, "lsp">> :> "ok" @@ <<3, "java">> :> "ok"),printedError |-> TRUE,pendingIo |-> <<0, "none">>,wfail |-> {},nfiles |-> 1,out |-> (<<1, "ai">> :> "absent" @@ <<1, "ao">> :> "absent" @@ <<1, "c">> :> "absent" @@ <<1, "main">> :> "absent" @@ <<1, "ap">> :> "absent" @@ <<1, "asy">> :> "absent" @@ <<1, "fm">> :> "absent" @@ <<1, "lsp">> :> "absent" @@ <<1, "java">> :> "absent" @@ <<2, "ai">> :> "absent" @@ <<2, "ao">> :> "absent" @@ <<2, "c">> :> "absent" @@ <<2, "main">> :> "absent" @@ <<2, "ap">> :> "absent" @@ <<2, "asy">> :> "absent" @@ <<2, "fm">> :> "absent" @@ <<2, "lsp">> :> "absent" @@ <<2, "java">> :> "absent" @@ <<3, "ai">> :> "absent" @@ <<3, "ao">> :> "absent" @@ <<3, "c">> :> "absent" @@ <<3, "main">> :> "absent" @@ <<3, "ap">> :> "absent" @@ <<3, "asy">> :> "absent" @@ <<3, "fm">> :> "absent" @@ <<3, "lsp">> :> "absent" @@ <<3, "java">> :> "absent"),exit |-> -1,fstate |-> "running",requested |-> {"ai"},file |-> 1,dying |-> FALSE,postDone |-> {},nfaults |-> 0,rank |-> 18,written |-> {}]),
    ([phase |-> "putc",errs |-> <<1, 0, 0>>,io |-> (<<1, "ai">> :> "ok" @@ <<1, "ao">> :> "ok" @@ <<1, "c">> :> "ok" @@ <<1, "main">> :> "ok" @@ <<1, "ap">> :> "ok" @@ <<1, "asy">> :> "ok" @@ <<1, "fm">> :> "ok" @@ <<1, "lsp">> :> "ok" @@ <<1, "java">> :> "ok" @@ <<2, "ai">> :> "ok" @@ <<2, "ao">> :> "ok" @@ <<2, "c">> :> "ok" @@ <<2, "main">> :> "ok" @@ <<2, "ap">> :> "ok" @@ <<2, "asy">> :> "ok" @@ <<2, "fm">> :> "ok" @@ <<2, "lsp">> :> "ok" @@ <<2, "java">> :> "ok" @@ <<3, "ai">> :> "ok" @@ <<3, "ao">> :> "ok" @@ <<3, "c">> :> "ok" @@ <<3, "main">> :> "ok" @@ <<3, "ap">> :> "ok" @@ <<3, "asy">> :> "ok" @@ <<3, "fm">> :> "ok" @@ <<3, "lsp">> :> "ok" @@ <<3, "java">> :> "ok"),printedError |-> TRUE,pendingIo |-> <<0, "none">>,wfail |-> {},nfiles |-> 1,out |-> (<<1, "ai">> :> "open" @@ <<1, "ao">> :> "absent" @@ <<1, "c">> :> "absent" @@ <<1, "main">> :> "absent" @@ <<1, "ap">> :> "absent" @@ <<1, "asy">> :> "absent" @@ <<1, "fm">> :> "absent" @@ <<1, "lsp">> :> "absent" @@ <<1, "java">> :> "absent" @@ <<2, "ai">> :> "absent" @@ <<2, "ao">> :> "absent" @@ <<2, "c">> :> "absent" @@ <<2, "main">> :> "absent" @@ <<2, "ap">> :> "absent" @@ <<2, "asy">> :> "absent" @@ <<2, "fm">> :> "absent" @@ <<2, "lsp">> :> "absent" @@ <<2, "java">> :> "absent" @@ <<3, "ai">> :> "absent" @@ <<3, "ao">> :> "absent" @@ <<3, "c">> :> "absent" @@ <<3, "main">> :> "absent" @@ <<3, "ap">> :> "absent" @@ <<3, "asy">> :> "absent" @@ <<3, "fm">> :> "absent" @@ <<3, "lsp">> :> "absent" @@ <<3, "java">> :> "absent"),exit |-> -1,fstate |-> "running",requested |-> {"ai"},file |-> 1,dying |-> FALSE,postDone |-> {},nfaults |-> 0,rank |-> 18,written |-> {}]),
    ([phase |-> "putc",errs |-> <<1, 0, 0>>,io |-> (<<1, "ai">> :> "ok" @@ <<1, "ao">> :> "ok" @@ <<1, "c">> :> "ok" @@ <<1, "main">> :> "ok" @@ <<1, "ap">> :> "ok" @@ <<1, "asy">> :> "ok" @@ <<1, "fm">> :> "ok" @@ <<1, "lsp">> :> "ok" @@ <<1, "java">> :> "ok" @@ <<2, "ai">> :> "ok" @@ <<2, "ao">> :> "ok" @@ <<2, "c">> :> "ok" @@ <<2, "main">> :> "ok" @@ <<2, "ap">> :> "ok" @@ <<2, "asy">> :> "ok" @@ <<2, "fm">> :> "ok" @@ <<2, "lsp">> :> "ok" @@ <<2, "java">> :> "ok" @@ <<3, "ai">> :> "ok" @@ <<3, "ao">> :> "ok" @@ <<3, "c">> :> "ok" @@ <<3, "main">> :> "ok" @@ <<3, "ap">> :> "ok" @@ <<3, "asy">> :> "ok" @@ <<3, "fm">> :> "ok" @@ <<3, "lsp">> :> "ok" @@ <<3, "java">> :> "ok"),printedError |-> TRUE,pendingIo |-> <<0, "none">>,wfail |-> {},nfiles |-> 1,out |-> (<<1, "ai">> :> "open" @@ <<1, "ao">> :> "absent" @@ <<1, "c">> :> "absent" @@ <<1, "main">> :> "absent" @@ <<1, "ap">> :> "absent" @@ <<1, "asy">> :> "absent" @@ <<1, "fm">> :> "absent" @@ <<1, "lsp">> :> "absent" @@ <<1, "java">> :> "absent" @@ <<2, "ai">> :> "absent" @@ <<2, "ao">> :> "absent" @@ <<2, "c">> :> "absent" @@ <<2, "main">> :> "absent" @@ <<2, "ap">> :> "absent" @@ <<2, "asy">> :> "absent" @@ <<2, "fm">> :> "absent" @@ <<2, "lsp">> :> "absent" @@ <<2, "java">> :> "absent" @@ <<3, "ai">> :> "absent" @@ <<3, "ao">> :> "absent" @@ <<3, "c">> :> "absent" @@ <<3, "main">> :> "absent" @@ <<3, "ap">> :> "absent" @@ <<3, "asy">> :> "absent" @@ <<3, "fm">> :> "absent" @@ <<3, "lsp">> :> "absent" @@ <<3, "java">> :> "absent"),exit |-> -1,fstate |-> "running",requested |-> {"ai"},file |-> 1,dying |-> FALSE,postDone |-> {},nfaults |-> 0,rank |-> 18,written |-> {<<1, "ai">>}]),
    ([phase |-> "putc",errs |-> <<1, 0, 0>>,io |-> (<<1, "ai">> :> "ok" @@ <<1, "ao">> :> "ok" @@ <<1, "c">> :> "ok" @@ <<1, "main">> :> "ok" @@ <<1, "ap">> :> "ok" @@ <<1, "asy">> :> "ok" @@ <<1, "fm">> :> "ok" @@ <<1, "lsp">> :> "ok" @@ <<1, "java">> :> "ok" @@ <<2, "ai">> :> "ok" @@ <<2, "ao">> :> "ok" @@ <<2, "c">> :> "ok" @@ <<2, "main">> :> "ok" @@ <<2, "ap">> :> "ok" @@ <<2, "asy">> :> "ok" @@ <<2, "fm">> :> "ok" @@ <<2, "lsp">> :> "ok" @@ <<2, "java">> :> "ok" @@ <<3, "ai">> :> "ok" @@ <<3, "ao">> :> "ok" @@ <<3, "c">> :> "ok" @@ <<3, "main">> :> "ok" @@ <<3, "ap">> :> "ok" @@ <<3, "asy">> :> "ok" @@ <<3, "fm">> :> "ok" @@ <<3, "lsp">> :> "ok" @@ <<3, "java">> :> "ok"),printedError |-> TRUE,pendingIo |-> <<0, "none">>,wfail |-> {},nfiles |-> 1,out |-> (<<1, "ai">> :> "complete" @@ <<1, "ao">> :> "absent" @@ <<1, "c">> :> "absent" @@ <<1, "main">> :> "absent" @@ <<1, "ap">> :> "absent" @@ <<1, "asy">> :> "absent" @@ <<1, "fm">> :> "absent" @@ <<1, "lsp">> :> "absent" @@ <<1, "java">> :> "absent" @@ <<2, "ai">> :> "absent" @@ <<2, "ao">> :> "absent" @@ <<2, "c">> :> "absent" @@ <<2, "main">> :> "absent" @@ <<2, "ap">> :> "absent" @@ <<2, "asy">> :> "absent" @@ <<2, "fm">> :> "absent" @@ <<2, "lsp">> :> "absent" @@ <<2, "java">> :> "absent" @@ <<3, "ai">> :> "absent" @@ <<3, "ao">> :> "absent" @@ <<3, "c">> :> "absent" @@ <<3, "main">> :> "absent" @@ <<3, "ap">> :> "absent" @@ <<3, "asy">> :> "absent" @@ <<3, "fm">> :> "absent" @@ <<3, "lsp">> :> "absent" @@ <<3, "java">> :> "absent"),exit |-> -1,fstate |-> "running",requested |-> {"ai"},file |-> 1,dying |-> FALSE,postDone |-> {},nfaults |-> 0,rank |-> 18,written |-> {}]),
    ([phase |-> "putc",errs |-> <<1, 0, 0>>,io |-> (<<1, "ai">> :> "ok" @@ <<1, "ao">> :> "ok" @@ <<1, "c">> :> "ok" @@ <<1, "main">> :> "ok" @@ <<1, "ap">> :> "ok" @@ <<1, "asy">> :> "ok" @@ <<1, "fm">> :> "ok" @@ <<1, "lsp">> :> "ok" @@ <<1, "java">> :> "ok" @@ <<2, "ai">> :> "ok" @@ <<2, "ao">> :> "ok" @@ <<2, "c">> :> "ok" @@ <<2, "main">> :> "ok" @@ <<2, "ap">> :> "ok" @@ <<2, "asy">> :> "ok" @@ <<2, "fm">> :> "ok" @@ <<2, "lsp">> :> "ok" @@ <<2, "java">> :> "ok" @@ <<3, "ai">> :> "ok" @@ <<3, "ao">> :> "ok" @@ <<3, "c">> :> "ok" @@ <<3, "main">> :> "ok" @@ <<3, "ap">> :> "ok" @@ <<3, "asy">> :> "ok" @@ <<3, "fm">> :> "ok" @@ <<3, "lsp">> :> "ok" @@ <<3, "java">> :> "ok"),printedError |-> TRUE,pendingIo |-> <<0, "none">>,wfail |-> {},nfiles |-> 1,out |-> (<<1, "ai">> :> "open" @@ <<1, "ao">> :> "absent" @@ <<1, "c">> :> "absent" @@ <<1, "main">> :> "absent" @@ <<1, "ap">> :> "absent" @@ <<1, "asy">> :> "absent" @@ <<1, "fm">> :> "absent" @@ <<1, "lsp">> :> "absent" @@ <<1, "java">> :> "absent" @@ <<2, "ai">> :> "absent" @@ <<2, "ao">> :> "absent" @@ <<2, "c">> :> "absent" @@ <<2, "main">> :> "absent" @@ <<2, "ap">> :> "absent" @@ <<2, "asy">> :> "absent" @@ <<2, "fm">> :> "absent" @@ <<2, "lsp">> :> "absent" @@ <<2, "java">> :> "absent" @@ <<3, "ai">> :> "absent" @@ <<3, "ao">> :> "absent" @@ <<3, "c">> :> "absent" @@ <<3, "main">> :> "absent" @@ <<3, "ap">> :> "absent" @@ <<3, "asy">> :> "absent" @@ <<3, "fm">> :> "absent" @@ <<3, "lsp">> :> "absent" @@ <<3, "java">> :> "absent"),exit |-> -1,fstate |-> "running",requested |-> {"ai"},file |-> 1,dying |-> FALSE,postDone |-> {},nfaults |-> 0,rank |-> 18,written |-> {}]),
    ([phase |-> "putc",errs |-> <<1, 0, 0>>,io |-> (<<1, "ai">> :> "ok" @@ <<1, "ao">> :> "ok" @@ <<1, "c">> :> "ok" @@ <<1, "main">> :> "ok" @@ <<1, "ap">> :> "ok" @@ <<1, "asy">> :> "ok" @@ <<1, "fm">> :> "ok" @@ <<1, "lsp">> :> "ok" @@ <<1, "java">> :> "ok" @@ <<2, "ai">> :> "ok" @@ <<2, "ao">> :> "ok" @@ <<2, "c">> :> "ok" @@ <<2, "main">> :> "ok" @@ <<2, "ap">> :> "ok" @@ <<2, "asy">> :> "ok" @@ <<2, "fm">> :> "ok" @@ <<2, "lsp">> :> "ok" @@ <<2, "java">> :> "ok" @@ <<3, "ai">> :> "ok" @@ <<3, "ao">> :> "ok" @@ <<3, "c">> :> "ok" @@ <<3, "main">> :> "ok" @@ <<3, "ap">> :> "ok" @@ <<3, "asy">> :> "ok" @@ <<3, "fm">> :> "ok" @@ <<3, "lsp">> :> "ok" @@ <<3, "java">> :> "ok"),printedError |-> TRUE,pendingIo |-> <<0, "none">>,wfail |-> {},nfiles |-> 1,out |-> (<<1, "ai">> :> "open" @@ <<1, "ao">> :> "absent" @@ <<1, "c">> :> "absent" @@ <<1, "main">> :> "absent" @@ <<1, "ap">> :> "absent" @@ <<1, "asy">> :> "absent" @@ <<1, "fm">> :> "absent" @@ <<1, "lsp">> :> "absent" @@ <<1, "java">> :> "absent" @@ <<2, "ai">> :> "absent" @@ <<2, "ao">> :> "absent" @@ <<2, "c">> :> "absent" @@ <<2, "main">> :> "absent" @@ <<2, "ap">> :> "absent" @@ <<2, "asy">> :> "absent" @@ <<2, "fm">> :> "absent" @@ <<2, "lsp">> :> "absent" @@ <<2, "java">> :> "absent" @@ <<3, "ai">> :> "absent" @@ <<3, "ao">> :> "absent" @@ <<3, "c">> :> "absent" @@ <<3, "main">> :> "absent" @@ <<3, "ap">> :> "absent" @@ <<3, "asy">> :> "absent" @@ <<3, "fm">> :> "absent" @@ <<3, "lsp">> :> "absent" @@ <<3, "java">> :> "absent"),exit |-> -1,fstate |-> "running",requested |-> {"ai"},file |-> 1,dying |-> FALSE,postDone |-> {},nfaults |-> 0,rank |-> 18,written |-> {<<1, "ai">>}])
    >>
----


=============================================================================

---- MODULE Driver_TEConstants ----
EXTENDS Driver

CONSTANTS _TTraceLassoStart, _TTraceLassoEnd

=============================================================================

---- CONFIG Driver_TTrace_1791100403 ----
CONSTANTS
    MaxFiles = 2
    MaxFaults = 2
    MaxErrs = 1
    Strict = FALSE
    MultiPart = TRUE
    Post = { "link" , "interp" }
    ChecksIo = TRUE
    MaxKinds = 4
    CleanupKept = TRUE
    PhasesUsed = { "include" , "abcheck" , "putao" , "putc" }
    KindsUsed = { "ai" , "ao" , "c" , "main" }
_TTraceLassoStart = 7
_TTraceLassoEnd = 9

PROPERTY
    _prop

CHECK_DEADLOCK
    \* CHECK_DEADLOCK off because of PROPERTY or INVARIANT above.
    FALSE

INIT
    _init

NEXT
    _next

VIEW
    _view

CONSTANT
    _TETrace <- _trace

ALIAS
    _expression
=============================================================================
\* Generated on Sun Oct 04 07:54:29 UTC 2026