\* C15 as IncludeAswFit, 3 files, <= 4 items (quick)
CONSTANTS
  CNO = 2
  LNO = 3
  Packer = "aswritten"
  Policy = "aswritten"
  EofPolicy = "aswritten"
  FileNames = {"a", "b", "c"}
  TopFile = "a"
  LineNames = {"a", "x"}
  LineNums = {1, 4}
  Cols = {1, 3, 4, 9}
  RunLens = {1, 2, 4}
  MaxLines = 12
  MaxIf = 1
  MaxItems = 4
  Feat = {"line", "if", "misc"}
  AvoidEofIf = TRUE
  AvoidCollide = TRUE
INIT Init
NEXT Next
CHECK_DEADLOCK FALSE
INVARIANT TypeOK
INVARIANT PosFaithfulFit
INVARIANT TableShape
