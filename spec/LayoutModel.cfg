\* The design-level statement with TLC's own verdict: LayoutIndependent and ScanIndependent as invariants over all
\* trees with <= 2 statements (shapes without the `. 1` statement L7, whose layouts the transcribed scan.c reads
\* differently -- known finding) and all 16 mode x continuation styles.  Also WordsKept.
SPECIFICATION Spec
CONSTANTS
  MaxN = 2
  MaxDepth = 2
  TreeSource = "enum+extra"
  StyleSet = "base"
  Seed = 0
  ScanChars = TRUE
  Export = FALSE
  Use0 = {"L1", "L2", "L3", "L4", "L5", "L6"}
  Use1 = {"D1", "I1", "W1", "F1", "M1", "Q1", "A1", "C1"}
  Use2 = {"I2", "Q2"}
  Use3 = {"I3"}
INVARIANTS LayoutIndependent ScanIndependent LeadOK StageOK WordsKept
CHECK_DEADLOCK FALSE
