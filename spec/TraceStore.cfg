\* Trace validation of harness/store_drv.c traces (C10): roots and pointer fields are known.
SPECIFICATION TraceSpec
CONSTANTS
  Align = 8
  NRoots = 4
  PtrFreeCodes = {30, 31}
  SlotBase = 8
  SlotBytes = 8
  MaxSlots = 4
  PageSize = 4096
  RootsKnown = TRUE
INVARIANT TraceInv
CHECK_DEADLOCK FALSE
