----------------------------- MODULE BuiltinsEval -----------------------------
(***************************************************************************)
(* Evaluates the definition on argument tuples supplied by the harness     *)
(* (seeded random tuples beyond the boundary product).  Input: ndjson file *)
(* named by the environment variable CASES, one {"op":name,"args":[...]}   *)
(* per line in the encoding of BuiltinsGen's CASE lines.  Output: the same *)
(* CASE lines (with the defined result or "Unspecified"), or               *)
(* SKIP {"line":n} for tuples outside the domain / not of the declared     *)
(* types.  The harness never computes an expected value itself.            *)
(***************************************************************************)
EXTENDS Builtins, Json, IOUtils

VARIABLES l, ph

In == ndJsonDeserialize(IOEnv.CASES)

Init == l \in 1..Len(In) /\ ph = 0
Next == /\ ph = 0 /\ ph' = 1 /\ l' = l
        /\ LET e  == In[l]
               sg == Sig(e.op)
               a  == [i \in 1..Len(sg.args) |-> DecArg(e.args[i], sg.args[i])]
               ok == /\ e.op \in OpNames /\ Len(e.args) = Len(sg.args)
                     /\ \A i \in 1..Len(sg.args) : HasType(a[i], sg.args[i])
                     /\ InDomain(e.op, a)
           IN IF ok THEN PrintT("CASE " \o ToJson([op |-> e.op, args |-> EncSeq(a, sg.args), res |-> EncRes(e.op, a)]))
              ELSE PrintT("SKIP " \o ToJson([line |-> l]))
Spec == Init /\ [][Next]_<<l, ph>>
=============================================================================
