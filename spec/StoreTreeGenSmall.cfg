\* Scenario behaviours of the free tree at small constants (T = 2; 2 nodes, 2 carriers per page): heights 3 and 4.
SPECIFICATION GenSpec
CONSTANTS
  T = 2
  PgBytes = 11
  NodeHead = 1
  PartBytes = 1
  CarBytes = 4
  KeySet = {}
  MaxCount = 1
  FullCheck = FALSE
  Probe = "none"
  Scens <- ScensSmall
  Sparse = FALSE
INVARIANTS GenInv EndOk
CHECK_DEADLOCK FALSE
