------------------------------ MODULE StoreTree ------------------------------
(***************************************************************************)
(* The storage manager's own housekeeping structures (C10): the free tree  *)
(* of store.c at the granularity the code has it.                          *)
(*                                                                         *)
(* store.c keeps the free mixed pieces in a B-tree (btree.c, minimum       *)
(* degree MixedBTreeT) keyed by piece size; the entry of a key is a        *)
(* carrier (MxMemDLL) heading the doubly linked list of the free pieces of *)
(* that size.  B-tree nodes and carriers are themselves carved out of      *)
(* housekeeping pages by stoAllocInner: a page is cut into                 *)
(* PgBytes \div NodeBytes nodes (PgBytes \div CarBytes carriers), chained  *)
(* in address order into a LIFO free list (btreeNodes / mxmemDLLs); a      *)
(* further page is taken when the list is empty; pages are never returned. *)
(*                                                                         *)
(* StoreImpl.tla treats this structure as the function                     *)
(*        mfl : size -> sequence of free pieces                            *)
(* and lets it live in one page.  This module is the refinement of that    *)
(* function's *domain and lengths* (the variable `keys': size -> number of *)
(* free pieces of that size) by the real data structure:                   *)
(*   Link(z)        mxmemLink: btreeSearchEQ; a second piece of a size     *)
(*                  goes onto the existing carrier, a new size takes a     *)
(*                  carrier and is inserted (btreeInsertX: root split      *)
(*                  first, full children split on the way down)            *)
(*   Unlink(z)      mxmemUnlinkFromBTree: the last piece of a size removes *)
(*                  the key (btreeDeleteX/btreeDelete0: replace by         *)
(*                  predecessor / successor, rotate down / up, unsplit,    *)
(*                  root shrink) and frees the carrier                     *)
(*   Get(nb)        the tree branch of pieceGetMixed: best fit by          *)
(*                  btreeSearchGE, split when the piece exceeds the        *)
(*                  request by more than a quantum, with the "reuse the    *)
(*                  btree entry" short cut when the remainder belongs in   *)
(*                  the slot the piece came from                           *)
(* Sizes are in quanta.  The invariants say what the audit of store.c      *)
(* (stoAuditBTree / btreeCheck) and the users of the tree rely on:         *)
(*   BTreeOk   B-tree shape (key counts, order, equal leaf depth)          *)
(*   Corr      the keys of the tree are exactly the sizes that have free   *)
(*             pieces, each carrier records its size and count             *)
(*   SearchOk  btreeSearchEQ / btreeSearchGE answer as the map would       *)
(*   PoolOk    every node / carrier of every housekeeping page is either   *)
(*             in use exactly once or on its free list exactly once, and   *)
(*             each lies inside its page                                   *)
(* Every step carries the labels of the sub-cases it went through (node    *)
(* full / split, last node of a page handed out, further page, root grows, *)
(* node merge, rotation, ...) for reachability probes and for the          *)
(* behaviour export at the real constants (StoreTreeGen.tla).              *)
(***************************************************************************)
EXTENDS Naturals, Integers, Sequences, FiniteSets, TLC

CONSTANTS T,          \* MixedBTreeT: minimum number of branches of an interior node
          PgBytes,    \* bytes of a housekeeping page
          NodeHead,   \* bytes of a B-tree node before its parts
          PartBytes,  \* bytes of one (branch, key, entry) part; a node has 2T parts
          CarBytes,   \* bytes of a carrier (MxMemDLL)
          KeySet,     \* sizes the exhaustive configuration ranges over
          MaxCount,   \* at most this many free pieces per size (exhaustive configuration)
          FullCheck,  \* TRUE: SearchOk asks about every size of KeySet; FALSE: about the neighbourhood of the last operation
          Probe       \* a label whose reachability ProbeInv tests ("none" otherwise)

VARIABLES t,      \* the tree, its node pool and its carrier pool (record, see TInit)
          keys,   \* specification variable: size -> number of free pieces of that size
          wit     \* the last operation and the labels of the sub-cases it took

tvars == <<t, keys, wit>>

Null == -1
NodeBytes == NodeHead + 2 * T * PartBytes
NPP == PgBytes \div NodeBytes          \* nodes carved from a page (stoAllocInner: npcs)
CPP == PgBytes \div CarBytes           \* carriers carved from a page
MaxKeys == 2 * T - 1

ASSUME T >= 2 /\ NPP >= 1 /\ CPP >= 1

Upd(f, k, v) == (k :> v) @@ f          \* (TLC evaluates @@ natively: the maps here have hundreds of entries)
Del(f, K)    == [x \in DOMAIN f \ K |-> f[x]]
InsAt(q, i, x) == SubSeq(q, 1, i - 1) \o <<x>> \o SubSeq(q, i, Len(q))     \* x becomes element i
DelAt(q, i)    == SubSeq(q, 1, i - 1) \o SubSeq(q, i + 1, Len(q))
Last(q)  == q[Len(q)]
Front(q) == SubSeq(q, 1, Len(q) - 1)
SetMin(S) == CHOOSE x \in S : \A y \in S : x <= y

Tag(tr, g) == [tr EXCEPT !.tg = @ \cup {g}]

(* index of the first key >= z, Len + 1 if there is none (the linear scans of btree.c) *)
Pos(ks, z) == Cardinality({i \in 1..Len(ks) : ks[i] < z}) + 1

---------------------------------------------------------------------------
(* The pools (stoAllocInner, mxmemAllocBTree / mxmemFreeBTree,             *)
(* mxmemAllocDLL / mxmemFreeDLL)                                           *)

AllocNode(tr) ==
    LET fresh == tr.nfree = <<>>
        lst   == IF fresh THEN [i \in 1..NPP |-> tr.npg * NPP + i - 1] ELSE tr.nfree
        id    == Head(lst)
        g     == (IF fresh THEN {"node:new-page"} ELSE {})
                 \cup (IF fresh /\ tr.npg >= 1 THEN {"node:further-page"} ELSE {})
                 \cup (IF id % NPP = NPP - 1 THEN {"node:last-of-page"} ELSE {})
                 \cup (IF id \in tr.nold THEN {"node:recycled"} ELSE {})
    IN [tr |-> [tr EXCEPT !.nfree = Tail(lst), !.npg = IF fresh THEN @ + 1 ELSE @, !.tg = @ \cup g], id |-> id]

FreeNode(tr, id) == [tr EXCEPT !.nfree = <<id>> \o @, !.nd = Del(@, {id}), !.nold = @ \cup {id}]

AllocCar(tr) ==
    LET fresh == tr.cfree = <<>>
        lst   == IF fresh THEN [i \in 1..CPP |-> tr.cpg * CPP + i - 1] ELSE tr.cfree
        id    == Head(lst)
        g     == (IF fresh THEN {"car:new-page"} ELSE {})
                 \cup (IF fresh /\ tr.cpg >= 1 THEN {"car:further-page"} ELSE {})
                 \cup (IF id % CPP = CPP - 1 THEN {"car:last-of-page"} ELSE {})
                 \cup (IF id \in tr.cold THEN {"car:recycled"} ELSE {})
    IN [tr |-> [tr EXCEPT !.cfree = Tail(lst), !.cpg = IF fresh THEN @ + 1 ELSE @, !.tg = @ \cup g], id |-> id]

FreeCar(tr, id) == [tr EXCEPT !.cfree = <<id>> \o @, !.car = Del(@, {id}), !.cold = @ \cup {id}]

---------------------------------------------------------------------------
(* btree.c                                                                 *)

(* btreeSearchEQ: <<node, index>> or <<Null, 0>> *)
RECURSIVE SearchEQ(_, _, _)
SearchEQ(tr, x, z) ==
    LET X == tr.nd[x]
        i == Pos(X.k, z)
    IN IF i <= Len(X.k) /\ X.k[i] = z THEN <<x, i>>
       ELSE IF X.leaf THEN <<Null, 0>>
       ELSE SearchEQ(tr, X.b[i], z)

(* btreeSearchGE: position of the least key >= z *)
RECURSIVE SearchGE(_, _, _, _)
SearchGE(tr, x, z, lastp) ==
    LET X == tr.nd[x]
        i == Pos(X.k, z)
    IN IF i <= Len(X.k) /\ X.k[i] = z THEN <<x, i>>
       ELSE IF X.leaf THEN (IF i <= Len(X.k) THEN <<x, i>> ELSE lastp)
       ELSE SearchGE(tr, X.b[i], z, IF i <= Len(X.k) THEN <<x, i>> ELSE lastp)

KeyAt(tr, p) == tr.nd[p[1]].k[p[2]]
EntAt(tr, p) == tr.nd[p[1]].e[p[2]]

(* btreeSearchMax / btreeSearchMin: <<key, entry>> *)
RECURSIVE MaxIn(_, _)
MaxIn(tr, x) == LET X == tr.nd[x] IN IF X.leaf THEN <<Last(X.k), Last(X.e)>> ELSE MaxIn(tr, Last(X.b))
RECURSIVE MinIn(_, _)
MinIn(tr, x) == LET X == tr.nd[x] IN IF X.leaf THEN <<X.k[1], X.e[1]>> ELSE MinIn(tr, X.b[1])

(* btreeSplitChild(x, i): child i of x is full *)
SplitChild(tr, x, i) ==
    LET a  == AllocNode(tr)
        t1 == a.tr
        X  == t1.nd[x]
        y  == X.b[i]
        Y  == t1.nd[y]
        Z  == [leaf |-> Y.leaf, k |-> SubSeq(Y.k, T + 1, 2 * T - 1), e |-> SubSeq(Y.e, T + 1, 2 * T - 1),
               b |-> IF Y.leaf THEN <<>> ELSE SubSeq(Y.b, T + 1, 2 * T)]
        Y1 == [leaf |-> Y.leaf, k |-> SubSeq(Y.k, 1, T - 1), e |-> SubSeq(Y.e, 1, T - 1),
               b |-> IF Y.leaf THEN <<>> ELSE SubSeq(Y.b, 1, T)]
        X1 == [leaf |-> FALSE, k |-> InsAt(X.k, i, Y.k[T]), e |-> InsAt(X.e, i, Y.e[T]), b |-> InsAt(X.b, i + 1, a.id)]
    IN Tag([t1 EXCEPT !.nd = Upd(Upd(Upd(t1.nd, x, X1), y, Y1), a.id, Z)],
           IF Y.leaf THEN "ins:split-leaf" ELSE "ins:split-interior")

RECURSIVE InsDown(_, _, _, _)
InsDown(tr, x, z, e) ==
    LET X == tr.nd[x] IN
    IF X.leaf
    THEN LET p == Pos(X.k, z) IN [tr EXCEPT !.nd[x].k = InsAt(X.k, p, z), !.nd[x].e = InsAt(X.e, p, e)]
    ELSE LET i  == Pos(X.k, z)
             cf == Len(tr.nd[X.b[i]].k) = MaxKeys
             t1 == IF cf THEN SplitChild(tr, x, i) ELSE tr
             i1 == IF cf /\ z > t1.nd[x].k[i] THEN i + 1 ELSE i
         IN InsDown(t1, t1.nd[x].b[i1], z, e)

(* btreeInsertX *)
Insert(tr, z, e) ==
    LET r    == tr.root
        full == Len(tr.nd[r].k) = MaxKeys
        t1   == IF full
                THEN LET a  == AllocNode(tr)
                         t0 == [a.tr EXCEPT !.nd = Upd(a.tr.nd, a.id, [leaf |-> FALSE, k |-> <<>>, e |-> <<>>, b |-> <<r>>]),
                                            !.root = a.id]
                     IN SplitChild(Tag(t0, IF tr.nd[r].leaf THEN "ins:root-grows" ELSE "ins:root-grows-again"), a.id, 1)
                ELSE tr
    IN InsDown(t1, t1.root, z, e)

(* btreeUnsplitChild(x, j): child j, key j and child j+1 become child j *)
Unsplit(tr, x, j) ==
    LET X  == tr.nd[x]
        y  == X.b[j]
        zz == X.b[j + 1]
        Y  == tr.nd[y]
        Z  == tr.nd[zz]
        Y1 == [leaf |-> Y.leaf, k |-> Y.k \o <<X.k[j]>> \o Z.k, e |-> Y.e \o <<X.e[j]>> \o Z.e,
               b |-> IF Y.leaf THEN <<>> ELSE Y.b \o Z.b]
        X1 == [leaf |-> FALSE, k |-> DelAt(X.k, j), e |-> DelAt(X.e, j), b |-> DelAt(X.b, j + 1)]
        t1 == [tr EXCEPT !.nd = Upd(Upd(tr.nd, x, X1), y, Y1)]
        t2 == Tag(FreeNode(t1, zz), IF Y.leaf THEN "del:unsplit-leaf" ELSE "del:unsplit-interior")
    IN IF Len(Y.k) # T - 1 \/ Len(Z.k) # T - 1 THEN Tag(t2, "BUG:unsplit of children that do not have t-1 keys") ELSE t2

(* btreeRotateDown(x, j): the first key of child j+1 goes up, key j of x goes down to the end of child j *)
RotDown(tr, x, j) ==
    LET X == tr.nd[x]  y == X.b[j]  zz == X.b[j + 1]  Y == tr.nd[y]  Z == tr.nd[zz]
        Y1 == [leaf |-> Y.leaf, k |-> Append(Y.k, X.k[j]), e |-> Append(Y.e, X.e[j]),
               b |-> IF Y.leaf THEN <<>> ELSE Append(Y.b, Z.b[1])]
        Z1 == [leaf |-> Z.leaf, k |-> Tail(Z.k), e |-> Tail(Z.e), b |-> IF Z.leaf THEN <<>> ELSE Tail(Z.b)]
        X1 == [X EXCEPT !.k[j] = Z.k[1], !.e[j] = Z.e[1]]
    IN Tag([tr EXCEPT !.nd = Upd(Upd(Upd(tr.nd, x, X1), y, Y1), zz, Z1)], "del:rotate-down")

(* btreeRotateUp(x, j): the last key of child j goes up, key j of x goes down to the front of child j+1 *)
RotUp(tr, x, j) ==
    LET X == tr.nd[x]  zz == X.b[j]  y == X.b[j + 1]  Y == tr.nd[y]  Z == tr.nd[zz]
        Y1 == [leaf |-> Y.leaf, k |-> <<X.k[j]>> \o Y.k, e |-> <<X.e[j]>> \o Y.e,
               b |-> IF Y.leaf THEN <<>> ELSE <<Last(Z.b)>> \o Y.b]
        Z1 == [leaf |-> Z.leaf, k |-> Front(Z.k), e |-> Front(Z.e), b |-> IF Z.leaf THEN <<>> ELSE Front(Z.b)]
        X1 == [X EXCEPT !.k[j] = Last(Z.k), !.e[j] = Last(Z.e)]
    IN Tag([tr EXCEPT !.nd = Upd(Upd(Upd(tr.nd, x, X1), y, Y1), zz, Z1)], "del:rotate-up")

(* btreeDelete0 *)
RECURSIVE Del0(_, _, _)
Del0(tr, x, z) ==
    LET X == tr.nd[x]
        n == Len(X.k)
        i == Pos(X.k, z)
    IN
    IF i <= n /\ X.k[i] = z THEN
        IF X.leaf THEN Tag([tr EXCEPT !.nd[x].k = DelAt(X.k, i), !.nd[x].e = DelAt(X.e, i)], "del:from-leaf")
        ELSE IF Len(tr.nd[X.b[i]].k) > T - 1 THEN
            LET m  == MaxIn(tr, X.b[i])
                t1 == Del0(tr, X.b[i], m[1])
            IN Tag([t1 EXCEPT !.nd[x].k[i] = m[1], !.nd[x].e[i] = m[2]], "del:interior-by-predecessor")
        ELSE IF Len(tr.nd[X.b[i + 1]].k) > T - 1 THEN
            LET m  == MinIn(tr, X.b[i + 1])
                t1 == Del0(tr, X.b[i + 1], m[1])
            IN Tag([t1 EXCEPT !.nd[x].k[i] = m[1], !.nd[x].e[i] = m[2]], "del:interior-by-successor")
        ELSE LET t1 == Tag(Unsplit(tr, x, i), "del:interior-unsplit") IN Del0(t1, t1.nd[x].b[i], z)
    ELSE IF X.leaf THEN Tag(tr, "BUG:key to delete is not in the tree")
    ELSE
        LET c == X.b[i] IN
        IF Len(tr.nd[c].k) # T - 1 THEN Del0(tr, c, z)
        ELSE IF i <= n /\ Len(tr.nd[X.b[i + 1]].k) > T - 1 THEN Del0(RotDown(tr, x, i), c, z)
        ELSE IF i > 1 /\ Len(tr.nd[X.b[i - 1]].k) > T - 1 THEN Del0(RotUp(tr, x, i - 1), c, z)
        ELSE LET j  == IF i = n + 1 THEN i - 1 ELSE i
                 t1 == Unsplit(IF i = n + 1 THEN Tag(tr, "del:unsplit-with-left") ELSE tr, x, j)
             IN Del0(t1, t1.nd[x].b[j], z)

(* btreeDeleteX *)
Delete(tr, z) ==
    LET t1 == Del0(tr, tr.root, z)
        R  == t1.nd[t1.root]
    IN IF Len(R.k) = 0 /\ ~R.leaf
       THEN Tag([FreeNode(t1, t1.root) EXCEPT !.root = R.b[1]], "del:root-shrinks")
       ELSE t1

---------------------------------------------------------------------------
(* store.c on top of it                                                    *)

(* mxmemLink *)
Link(tr, z) ==
    LET f == SearchEQ(tr, tr.root, z) IN
    IF f[1] # Null
    THEN Tag([tr EXCEPT !.car[EntAt(tr, f)].n = @ + 1], "link:size-present")
    ELSE LET a == AllocCar(tr)
         IN Insert(Tag([a.tr EXCEPT !.car = Upd(a.tr.car, a.id, [z |-> z, n |-> 1])], "link:new-size"), z, a.id)

(* mxmemUnlinkFromBTree *)
Unlink(tr, z) ==
    LET f == SearchEQ(tr, tr.root, z)
        c == EntAt(tr, f)
    IN IF tr.car[c].n > 1 THEN Tag([tr EXCEPT !.car[c].n = @ - 1], "unlink:size-stays")
       ELSE Tag(FreeCar(Delete(tr, z), c), "unlink:size-goes")

(* pieceGetMixed, the branch served from the tree; [tr, z]: z = size of the piece taken (0: none) *)
Get(tr, nb) ==
    LET f == SearchGE(tr, tr.root, nb, <<Null, 0>>) IN
    IF f[1] = Null THEN [tr |-> Tag(tr, "get:nothing-fits"), z |-> 0]
    ELSE
    LET z     == KeyAt(tr, f)
        c     == EntAt(tr, f)
        is1   == tr.car[c].n = 1
        split == z > nb + 1
        r     == z - nb
    IN [z |-> z, tr |->
        IF split /\ ~is1 THEN Link(Tag([tr EXCEPT !.car[c].n = @ - 1], "get:split-size-stays"), r)
        ELSE IF split THEN
            (IF SearchGE(tr, tr.root, r, <<Null, 0>>) = f
             THEN Tag([tr EXCEPT !.nd[f[1]].k[f[2]] = r, !.car[c].z = r], "get:split-entry-reused")
             ELSE Link(Tag(FreeCar(Delete(tr, z), c), "get:split-delete-insert"), r))
        ELSE IF is1 THEN Tag(FreeCar(Delete(tr, z), c), "get:whole-size-goes")
        ELSE Tag([tr EXCEPT !.car[c].n = @ - 1], "get:whole-size-stays")]

---------------------------------------------------------------------------
(* The same operations on the specification variable                       *)

AbsLink(ks, z)   == IF z \in DOMAIN ks THEN [ks EXCEPT ![z] = @ + 1] ELSE Upd(ks, z, 1)
AbsUnlink(ks, z) == IF ks[z] > 1 THEN [ks EXCEPT ![z] = @ - 1] ELSE Del(ks, {z})
AbsFit(ks, nb)   == LET ge == {z \in DOMAIN ks : z >= nb} IN IF ge = {} THEN 0 ELSE SetMin(ge)
AbsGet(ks, nb)   == LET z == AbsFit(ks, nb) IN
                    IF z = 0 THEN ks
                    ELSE IF z > nb + 1 THEN AbsLink(AbsUnlink(ks, z), z - nb) ELSE AbsUnlink(ks, z)

TInit == [nd |-> (0 :> [leaf |-> TRUE, k |-> <<>>, e |-> <<>>, b |-> <<>>]), root |-> 0,
          nfree |-> [i \in 1..(NPP - 1) |-> i], npg |-> 1, nold |-> {},
          car |-> <<>>, cfree |-> <<>>, cpg |-> 0, cold |-> {}, tg |-> {}]
          \* btreeNewX has taken the first node of the first page

Done(tr) == [tr EXCEPT !.tg = {}]

Init == /\ t = TInit
        /\ keys = <<>>
        /\ wit = [op |-> "Init", z |-> 0, got |-> 0, tags |-> {}]

DoLink(z) ==
    LET t1 == Link(t, z) IN
    /\ (z \in DOMAIN keys => keys[z] < MaxCount)
    /\ t' = Done(t1)
    /\ keys' = AbsLink(keys, z)
    /\ wit' = [op |-> "Link", z |-> z, got |-> 0, tags |-> t1.tg]

DoUnlink(z) ==
    /\ z \in DOMAIN keys
    /\ LET t1 == Unlink(t, z) IN
       /\ t' = Done(t1)
       /\ keys' = AbsUnlink(keys, z)
       /\ wit' = [op |-> "Unlink", z |-> z, got |-> 0, tags |-> t1.tg]

DoGet(nb) ==
    LET r == Get(t, nb) IN
    /\ (LET z == AbsFit(keys, nb) IN z > nb + 1 /\ (z - nb) \in DOMAIN keys => keys[z - nb] < MaxCount)
    /\ t' = Done(r.tr)
    /\ keys' = AbsGet(keys, nb)
    /\ wit' = [op |-> "Get", z |-> nb, got |-> r.z, tags |-> r.tr.tg]

Next == \E z \in KeySet : DoLink(z) \/ DoUnlink(z) \/ DoGet(z)

Spec == Init /\ [][Next]_tvars

View == <<[t EXCEPT !.nold = {}, !.cold = {}], keys>>     \* the histories of the pools are kept for labels only

---------------------------------------------------------------------------
(* Invariants                                                              *)

RECURSIVE Reachable(_, _)
Reachable(tr, x) == {x} \cup (IF tr.nd[x].leaf THEN {} ELSE UNION {Reachable(tr, tr.nd[x].b[i]) : i \in 1..Len(tr.nd[x].b)})

RECURSIVE InOrder(_, _)
InOrder(tr, x) ==
    LET X == tr.nd[x] IN
    IF X.leaf THEN [i \in 1..Len(X.k) |-> <<X.k[i], X.e[i]>>]
    ELSE LET RECURSIVE Walk(_)
             Walk(i) == IF i > Len(X.k) THEN InOrder(tr, X.b[i])
                        ELSE InOrder(tr, X.b[i]) \o << <<X.k[i], X.e[i]>> >> \o Walk(i + 1)
         IN Walk(1)

RECURSIVE LeafDepths(_, _, _)
LeafDepths(tr, x, d) == IF tr.nd[x].leaf THEN {d}
                        ELSE UNION {LeafDepths(tr, tr.nd[x].b[i], d + 1) : i \in 1..Len(tr.nd[x].b)}

BTreeOk ==
    LET R  == Reachable(t, t.root)
        io == InOrder(t, t.root)
    IN /\ R \subseteq DOMAIN t.nd
       /\ \A x \in R : LET X == t.nd[x] IN
             /\ Len(X.e) = Len(X.k)
             /\ Len(X.k) <= MaxKeys
             /\ (x # t.root => Len(X.k) >= T - 1)
             /\ (X.leaf => X.b = <<>>)
             /\ (~X.leaf => Len(X.b) = Len(X.k) + 1)
       /\ \A i \in 1..(Len(io) - 1) : io[i][1] < io[i + 1][1]
       /\ Cardinality(LeafDepths(t, t.root, 0)) = 1
       /\ DOMAIN t.nd = R                     \* no node is left in the tree's node map unreachable

Corr ==
    LET io == InOrder(t, t.root) IN
    /\ {io[i][1] : i \in 1..Len(io)} = DOMAIN keys
    /\ Len(io) = Cardinality(DOMAIN keys)
    /\ \A i \in 1..Len(io) : io[i][2] \in DOMAIN t.car /\ t.car[io[i][2]] = [z |-> io[i][1], n |-> keys[io[i][1]]]
    /\ DOMAIN t.car = {io[i][2] : i \in 1..Len(io)}
    /\ \A z \in DOMAIN keys : keys[z] >= 1

SeqSet(q) == {q[i] : i \in 1..Len(q)}

PoolOk ==
    /\ NPP * NodeBytes <= PgBytes /\ CPP * CarBytes <= PgBytes
    /\ \A id \in DOMAIN t.nd \cup SeqSet(t.nfree) : ((id % NPP) + 1) * NodeBytes <= PgBytes /\ id \div NPP < t.npg
    /\ \A id \in DOMAIN t.car \cup SeqSet(t.cfree) : ((id % CPP) + 1) * CarBytes <= PgBytes /\ id \div CPP < t.cpg
    /\ DOMAIN t.nd \cap SeqSet(t.nfree) = {}
    /\ Cardinality(SeqSet(t.nfree)) = Len(t.nfree)
    /\ DOMAIN t.nd \cup SeqSet(t.nfree) = 0..(t.npg * NPP - 1)
    /\ DOMAIN t.car \cap SeqSet(t.cfree) = {}
    /\ Cardinality(SeqSet(t.cfree)) = Len(t.cfree)
    /\ DOMAIN t.car \cup SeqSet(t.cfree) = 0..(t.cpg * CPP - 1)

Asked == IF FullCheck THEN KeySet \cup {SetMin(KeySet) - 1} \cup {z + 1 : z \in KeySet}
         ELSE {z \in {wit.z - 1, wit.z, wit.z + 1, wit.got - 1, wit.got, wit.got + 1, wit.got - wit.z, wit.got - wit.z + 1} : z >= 1}

SearchOk ==
    \A z \in Asked :
       /\ LET f == SearchEQ(t, t.root, z) IN IF z \in DOMAIN keys THEN f[1] # Null /\ KeyAt(t, f) = z ELSE f[1] = Null
       /\ LET f == SearchGE(t, t.root, z, <<Null, 0>>) IN
          IF AbsFit(keys, z) = 0 THEN f[1] = Null ELSE f[1] # Null /\ KeyAt(t, f) = AbsFit(keys, z)

BugTags == {"BUG:unsplit of children that do not have t-1 keys", "BUG:key to delete is not in the tree"}
NoBug == wit.tags \cap BugTags = {}

TreeInv == BTreeOk /\ Corr /\ PoolOk /\ SearchOk /\ NoBug

ProbeInv == Probe \notin wit.tags

(* the values Get returned are those of the map: checked as an action property *)
GetRefines == [][wit'.op = "Get" => wit'.got = AbsFit(keys, wit'.z)]_tvars
=============================================================================
