\* C15 two-run form of C15 (insert k code-free lines), required design, 2 files, <= 4 items + the insertion (thorough): ShiftFaithful must hold
CONSTANTS
  CNO = 2
  LNO = 3
  Packer = "required"
  Policy = "required"
  EofPolicy = "required"
  FileNames = {"a", "b"}
  TopFile = "a"
  LineNames = {"a", "b"}
  LineNums = {1, 4}
  Cols = {1, 3, 4, 9}
  RunLens = {1, 4}
  MaxLines = 12
  MaxIf = 1
  MaxItems = 4
  Feat = {"line", "if", "misc"}
  AvoidEofIf = FALSE
  AvoidCollide = FALSE
  InsLens = {1, 3}
INIT Init
NEXT Next
CHECK_DEADLOCK FALSE
INVARIANT ShiftFaithful
