------------------------------- MODULE Stress --------------------------------
(***************************************************************************)
(* C07, input class (b), size stress: very long lines, deep nesting, many   *)
(* errors.  A descriptor [pre, unit, n, mid, unit2, m, post] stands for the *)
(* text  pre . unit^n . mid . unit2^m . post  (byte sequences).  The family *)
(* is Family(Long, Deep, Many): lines of Long bytes, nesting depth Deep,    *)
(* Many errors.  The certificates of the real sizes are given by the        *)
(* counting laws below (CertLaw); TLC checks them against SrcText!Cert on   *)
(* the same descriptors with small sizes (the machine runs over             *)
(* Family(s, s, s) for s in 0..Small and compares), and exports             *)
(* Family(Long, Deep, Many) for the harness to expand.                      *)
(***************************************************************************)
EXTENDS SrcText, Json

CONSTANTS Long, Deep, Many, Small, Export

B(str) == str      \* byte sequences are written as tuples of codes
NLc == 10

D(name, pre, unit, n, mid, unit2, m, post, law) ==
  [name |-> name, pre |-> pre, unit |-> unit, n |-> n, mid |-> mid, unit2 |-> unit2, m |-> m, post |-> post, law |-> law]

\* law: "none" | "open-string" (errtok if n > 0 ...) | "pair" (brackets unless n = m) | "brace" | "errors" | "hashif"
Family(L, Dp, Mn) ==
  { D("long-id",        <<>>, <<97>>, L, <<>>, <<>>, 0, <<NLc>>, "none"),
    D("long-digits",    <<>>, <<55>>, L, <<>>, <<>>, 0, <<NLc>>, "none"),
    D("long-string",    <<34>>, <<97>>, L, <<34, NLc>>, <<>>, 0, <<>>, "none"),
    D("long-open-string", <<34>>, <<97>>, L, <<NLc>>, <<>>, 0, <<>>, "open-string"),
    D("long-comment",   <<45, 45>>, <<97>>, L, <<NLc>>, <<>>, 0, <<>>, "none"),
    D("long-blanks",    <<>>, <<32>>, L, <<97, NLc>>, <<>>, 0, <<>>, "none"),
    D("long-tabs",      <<>>, <<9>>, L, <<97, NLc>>, <<>>, 0, <<>>, "none"),
    D("long-escapes",   <<97>>, <<95>>, L, <<NLc>>, <<>>, 0, <<>>, "none"),
    D("long-sum",       <<97>>, <<43, 97>>, L \div 2, <<NLc>>, <<>>, 0, <<>>, "none"),
    D("long-juxta",     <<>>, <<97, 32>>, L \div 2, <<NLc>>, <<>>, 0, <<>>, "none"),
    D("long-commas",    <<40, 97>>, <<44, 97>>, L \div 2, <<41, NLc>>, <<>>, 0, <<>>, "none"),
    D("long-high",      <<>>, <<233>>, L, <<NLc>>, <<>>, 0, <<>>, "bad-char"),
    D("long-hash",      <<35>>, <<97>>, L, <<NLc>>, <<>>, 0, <<>>, "none"),
    D("many-lines",     <<>>, <<97, 59, NLc>>, L \div 3, <<>>, <<>>, 0, <<>>, "none"),
    D("nest-paren",     <<>>, <<40>>, Dp, <<97>>, <<41>>, Dp, <<NLc>>, "pair"),
    D("nest-paren-open", <<>>, <<40>>, Dp, <<97>>, <<41>>, Dp - 1, <<NLc>>, "pair"),
    D("nest-paren-close", <<>>, <<40>>, Dp - 1, <<97>>, <<41>>, Dp, <<NLc>>, "pair"),
    D("nest-bracket",   <<>>, <<91>>, Dp, <<97>>, <<93>>, Dp, <<NLc>>, "pair"),
    D("nest-brace",     <<>>, <<123>>, Dp, <<97>>, <<125>>, Dp, <<NLc>>, "pair"),
    D("nest-brace-open", <<>>, <<123>>, Dp, <<97>>, <<125>>, 0, <<NLc>>, "pair"),
    D("nest-brace-close", <<>>, <<123>>, 0, <<97>>, <<125>>, Dp, <<NLc>>, "pair"),
    D("nest-brace-lines", <<>>, <<123, NLc>>, Dp, <<97, NLc>>, <<125, NLc>>, Dp, <<>>, "pair"),
    D("nest-if",        <<>>, <<105, 102, 32, 97, 32, 116, 104, 101, 110, 32>>, Dp, <<97, NLc>>, <<>>, 0, <<>>, "none"),
    D("nest-lambda",    <<>>, <<40, 97, 58, 97, 41, 58, 97, 43, 45, 62>>, Dp, <<97, NLc>>, <<>>, 0, <<>>, "none"),
    D("nest-minus",     <<>>, <<45, 32>>, Dp, <<97, NLc>>, <<>>, 0, <<>>, "none"),
    D("nest-apply",     <<>>, <<97, 32>>, Dp, <<97, NLc>>, <<>>, 0, <<>>, "none"),
    D("nest-where",     <<97>>, <<32, 119, 104, 101, 114, 101, 32, 97>>, Dp, <<NLc>>, <<>>, 0, <<>>, "none"),
    D("nest-assign",    <<>>, <<97, 58, 61>>, Dp, <<97, NLc>>, <<>>, 0, <<>>, "none"),
    D("nest-hashif",    <<35, 97, 115, 115, 101, 114, 116, 32, 116, NLc>>, <<35, 105, 102, 32, 116, NLc>>, Dp,
                        <<97, NLc>>, <<35, 101, 110, 100, 105, 102, NLc>>, Dp, <<>>, "hashif"),
    D("nest-hashif-open", <<35, 97, 115, 115, 101, 114, 116, 32, 116, NLc>>, <<35, 105, 102, 32, 116, NLc>>, Dp,
                        <<97, NLc>>, <<35, 101, 110, 100, 105, 102, NLc>>, Dp - 1, <<>>, "hashif"),
    D("many-errors",    <<>>, <<49, 114, 59, NLc>>, Mn, <<>>, <<>>, 0, <<>>, "errors"),
    D("many-errors-2",  <<>>, <<125, NLc>>, Mn, <<>>, <<>>, 0, <<>>, "errors-brace") }

Rep(u, k) == FoldLeft(LAMBDA a, i : a \o u, <<>>, [i \in 1..k |-> i])
Expand(d) == d.pre \o Rep(d.unit, d.n) \o d.mid \o Rep(d.unit2, d.m) \o d.post

\* the counting laws
CertLaw(d) ==
  CASE d.law = "none"         -> {}
    [] d.law = "open-string"  -> {"errtok"}
    [] d.law = "bad-char"     -> IF d.n > 0 THEN {"errtok"} ELSE {}
    [] d.law = "pair"         -> IF d.n = d.m THEN {}
                                 ELSE IF d.unit[1] = 123 THEN {"unbalanced", "brackets"} ELSE {"brackets"}
    [] d.law = "errors"       -> IF d.n > 0 THEN {"errtok"} ELSE {}
    [] d.law = "errors-brace" -> IF d.n > 0 THEN {"unbalanced", "brackets"} ELSE {}
    [] d.law = "hashif"       -> {}     \* #if balance is the includer's: certified by Directives, not by Scan

VARIABLES s, d
Init == s = -1 /\ d \in Family(Long, Deep, Many)
Next == s = -1 /\ s' \in 0..Small /\ d' \in Family(s', s', s')
Spec == Init /\ [][Next]_<<s, d>>

\* the laws agree with the scanner model wherever TLC can afford to scan
LawHolds == s >= 0 => (d.n >= 0 /\ d.m >= 0 => CertLaw(d) = Cert(Chars(Expand(d))))
Exported == (Export /\ s = -1) => PrintT("STRESS " \o ToJson([d EXCEPT !.law = SetToSeq3(CertLaw(d))]))
=============================================================================
