---------------------------- MODULE TraceDriver ----------------------------
(***************************************************************************)
(* Trace validation for Driver.tla (properties C18, C07, C06).              *)
(*                                                                         *)
(* IOEnv.TRACE names an ndjson file with the events of one or more         *)
(* compiler runs, separated by Reset events.  Per run:                     *)
(*   Reset     {nfiles, requested[], post[], hooks}       written by the harness *)
(*   FileStart FileEnd PhStart PhEnd Msg OutOpen OutClose Cleanup Link     *)
(*   InterpEnd Exit                                       hook H3 (ALDOR_VERIF)  *)
(*   Observed  {exit, signal, timeout, errl, obs[]}       written by the harness *)
(* Each event must be a step of Driver (property-level layer, Strict =     *)
(* FALSE); steps of the environment that leave no event of their own       *)
(* (IoFault, WriteOut) are inferred from the evidence in the next event    *)
(* and taken without consuming it.  The final Observed step replaces the   *)
(* model's idea of the outcome (exit status, error lines printed, state    *)
(* of every requested output file) by what the harness saw, so that the    *)
(* Driver invariants are evaluated by TLC on the real outcome.             *)
(*                                                                         *)
(* When the build has no hooks (Reset.hooks = FALSE) a run consists of     *)
(* Reset, Observed only and the invariants are evaluated on the observed   *)
(* outcome alone.                                                          *)
(*                                                                         *)
(* Verdicts: an invariant violation (TLC names it; run with -continue), or  *)
(* no Driver action matches the next event of a run (TrRejected prints the  *)
(* index and resumes at the next run).                                     *)
(***************************************************************************)
EXTENDS Driver, Json, IOUtils

Trc == ndJsonDeserialize(IOEnv.TRACE)

VARIABLES l,       \* index of the next event
          blind    \* this run has no hook events

tvars == << vars, l, blind >>

ToSet(s)   == {s[i] : i \in DOMAIN s}
Ev         == Trc[l]
IsEvent(n) == l <= Len(Trc) /\ Trc[l].ev = n
Consume    == l' = l + 1 /\ UNCHANGED blind
Stay       == UNCHANGED << l, blind >>
Status(n)  == IF n = 0 THEN 0 ELSE 1

ResetTo(n, req, pst) ==
    /\ nfiles' = n /\ requested' = req /\ post' = pst
    /\ file' = 0 /\ fstate' = "idle" /\ rank' = 0 /\ phase' = NoPhase
    /\ errs' = [f \in 1..(MaxFiles + 1) |-> 0]
    /\ printedError' = FALSE /\ dying' = FALSE
    /\ out' = [o \in AllOuts |-> "absent"] /\ io' = [o \in AllOuts |-> "ok"]
    /\ nfaults' = 0 /\ written' = {} /\ wfail' = {}
    /\ pendingIo' = NoPending /\ postDone' = {} /\ exit' = NoExit

TraceInit ==
    /\ l = 1 /\ blind = FALSE
    /\ nfiles = 1 /\ requested = {"ao"} /\ post = {}
    /\ file = 0 /\ fstate = "idle" /\ rank = 0 /\ phase = NoPhase
    /\ errs = [f \in 1..(MaxFiles + 1) |-> 0]
    /\ printedError = FALSE /\ dying = FALSE
    /\ out = [o \in AllOuts |-> "absent"] /\ io = [o \in AllOuts |-> "ok"]
    /\ nfaults = 0 /\ written = {} /\ wfail = {}
    /\ pendingIo = NoPending /\ postDone = {} /\ exit = NoExit

\* a new run may begin only where the previous one was observed to its end (or at the start)
TrReset ==
    /\ IsEvent("Reset")
    /\ IF l = 1 THEN TRUE ELSE Trc[l - 1].ev = "Observed"
    /\ Ev.nfiles \in 1..MaxFiles /\ ToSet(Ev.requested) \subseteq Kinds /\ ToSet(Ev.requested) # {}
    /\ ResetTo(Ev.nfiles, ToSet(Ev.requested), ToSet(Ev.post))
    /\ l' = l + 1 /\ blind' = ~Ev.hooks

TrFileStart == IsEvent("FileStart") /\ ~blind /\ StartFile /\ file' = Ev.file /\ Consume
TrFileEnd   == IsEvent("FileEnd")   /\ ~blind /\ EndFile /\ Consume
TrPhStart   == IsEvent("PhStart")   /\ ~blind /\ Ev.ph \in Phases /\ Phase(Ev.ph) /\ Consume
TrPhEnd     == IsEvent("PhEnd")     /\ ~blind /\ phase = Ev.ph /\ PhEnd /\ Consume
TrMsg       == IsEvent("Msg")       /\ ~blind /\ Ev.kind \in MsgKinds /\ Msg(Ev.kind) /\ Consume

EvOut == << Ev.file, Ev.kind >>

TrOpen ==
    /\ IsEvent("OutOpen") /\ ~blind /\ EvOut \in AllOuts
    /\ \/ Ev.ok /\ io[EvOut] = "ok" /\ OpenOut(Ev.file, Ev.kind) /\ Consume
       \* a failed open: first the environment's step, then the operation itself
       \/ ~Ev.ok /\ io[EvOut] = "ok" /\ IoFault(Ev.file, Ev.kind, "failOpen") /\ Stay
       \/ ~Ev.ok /\ io[EvOut] = "failOpen" /\ OpenOut(Ev.file, Ev.kind) /\ Consume

\* OutClose carries rc (what fclose returned) and werr (the stream's error flag just before)
TrClose ==
    /\ IsEvent("OutClose") /\ ~blind /\ EvOut \in AllOuts
    /\ \/ /\ EvOut \notin written /\ Ev.werr # 0 /\ io[EvOut] = "ok"
          /\ IoFault(Ev.file, Ev.kind, "failWrite") /\ Stay
       \/ /\ EvOut \notin written /\ (Ev.werr = 0 \/ io[EvOut] = "failWrite")
          /\ WriteOut(Ev.file, Ev.kind) /\ Stay
       \/ /\ EvOut \in written /\ Ev.rc # 0 /\ io[EvOut] = "ok"
          /\ IoFault(Ev.file, Ev.kind, "failClose") /\ Stay
       \/ /\ EvOut \in written /\ (Ev.rc = 0 \/ io[EvOut] # "ok")
          /\ CloseOut(Ev.file, Ev.kind, IF Ev.rc = 0 THEN 0 ELSE -1) /\ Consume

\* emitCleanup also "removes" targets that this run never created (a directory in the
\* way, a stale file): for the model that is no change
TrCleanup ==
    /\ IsEvent("Cleanup") /\ ~blind /\ EvOut \in AllOuts
    /\ IF out[EvOut] \in {"absent", "removed"}
       THEN exit = NoExit /\ dying /\ UNCHANGED vars
       ELSE Cleanup(Ev.file, Ev.kind)
    /\ Consume

TrLink   == IsEvent("Link")      /\ ~blind /\ Link(TRUE) /\ Consume
TrInterp == IsEvent("InterpEnd") /\ ~blind /\ Interp(Ev.ok) /\ Consume
TrExit   == IsEvent("Exit")      /\ ~blind /\ Exit(Status(Ev.status)) /\ Consume

\* what the harness saw of output o: "complete" (byte-equal to the fault-free run),
\* "partial" (a regular file with other content) or "absent"
ObsOf(o) == LET S == {i \in DOMAIN Ev.obs : Ev.obs[i].file = o[1] /\ Ev.obs[i].kind = o[2]}
            IN  IF S = {} THEN out[o]
                ELSE LET st == Ev.obs[CHOOSE i \in S : TRUE].st
                     IN  IF st = "absent" /\ out[o] = "removed" THEN "removed" ELSE st

\* No step matches a run that died from a signal or ran into the time limit (Fault / Hang),
\* nor a hooked run that never reached Exit.
TrObserved ==
    /\ IsEvent("Observed")
    /\ Ev.signal = 0 /\ ~Ev.timeout
    /\ IF blind THEN exit = NoExit ELSE exit # NoExit
    /\ exit' = Status(Ev.exit)
    /\ printedError' = (Ev.errl > 0)
    /\ out' = [o \in AllOuts |-> ObsOf(o)]
    /\ pendingIo' = NoPending
    \* without hooks the only evidence of a failed operation is what the harness injected
    \* itself (strace reports every injection that was really hit)
    /\ wfail' = IF blind THEN {<<Ev.failed[i][1], Ev.failed[i][2]>> : i \in DOMAIN Ev.failed} ELSE wfail
    /\ UNCHANGED << nfiles, post, requested, file, fstate, rank, phase, errs, io, nfaults, written,
                    dying, postDone >>
    /\ Consume

TraceCore == \/ TrReset \/ TrFileStart \/ TrFileEnd \/ TrPhStart \/ TrPhEnd \/ TrMsg \/ TrOpen
             \/ TrClose \/ TrCleanup \/ TrLink \/ TrInterp \/ TrExit \/ TrObserved

\* The run is not a behaviour of Driver: no action matches event l.  The verdict is printed
\* and validation resumes at the next run, so that one TLC process judges a whole batch.
NextRun(i) == LET S == {j \in (i + 1)..Len(Trc) : Trc[j].ev \in {"Reset", "End"}}
              IN  IF S = {} THEN Len(Trc) + 1 ELSE CHOOSE j \in S : \A k \in S : j <= k

TrRejected ==
    /\ l <= Len(Trc) /\ Trc[l].ev # "End" /\ ~ENABLED TraceCore
    /\ PrintT(<<"STUCK", l>>)
    /\ l' = NextRun(l)
    /\ UNCHANGED << vars, blind >>

\* the harness ends every file with an End event; reaching it shows that the whole file was judged
TrEnd == IsEvent("End") /\ PrintT(<<"END", l>>) /\ l' = l + 1 /\ UNCHANGED << vars, blind >>

TraceNext == TraceCore \/ TrRejected \/ TrEnd

TraceSpec == TraceInit /\ [][TraceNext]_tvars

\* error traces show only where we are
TraceAlias == [l |-> l, exit |-> exit, printedError |-> printedError]
=============================================================================
