SPECIFICATION Spec
CONSTANTS
  Hazard = {"Prog", "TR", "BInt"}
  BigCount = 256
  Export = TRUE
INVARIANTS TypeOK RoundTrip PositionsOK ChoiceOK Sharp
CHECK_DEADLOCK FALSE
