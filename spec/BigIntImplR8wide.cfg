CONSTANTS LGR = 3  LGI = 7  DA = 3  DB = 2  SIGNS = "nonneg"  MUT = ""
INIT Init
NEXT Next
INVARIANT Check
CHECK_DEADLOCK FALSE
