SPECIFICATION Spec
CONSTANTS SIntW = 64
          WordW = 64
          Stride = 401
          Stride3 = 61
          Offset = 0
          OpFilter = {}
CHECK_DEADLOCK FALSE
