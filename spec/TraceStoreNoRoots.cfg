\* Trace validation of harness/store_drv.c traces (C09 program runs): roots unknown.
SPECIFICATION TraceSpec
CONSTANTS
  Align = 8
  NRoots = 4
  PtrFreeCodes = {30, 31}
  SlotBase = 8
  SlotBytes = 8
  MaxSlots = 4
  PageSize = 4096
  RootsKnown = FALSE
INVARIANT TraceInv
CHECK_DEADLOCK FALSE
