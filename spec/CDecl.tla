------------------------------- MODULE CDecl -------------------------------
(***************************************************************************)
(* Every function signature of up to MaxParams parameters over the kinds    *)
(* (value / raw array / multiple-return slot of every scalar C type of       *)
(* foam_c.h), printed in both dialects and called from both dialects.        *)
(*   PrinterFaithful   a C compiler reads every parameter back with the type *)
(*                     the generator intended, in old C from the declaration *)
(*                     list that follows the name list (one declaration per  *)
(*                     name; a missing one would silently be `int')          *)
(*   SameDialectAgrees caller and callee printed in ONE dialect pass and      *)
(*                     take every argument in the same machine class          *)
(*   MixedDialectsAgree (CDeclMixed.cfg) the same for a caller in one and a   *)
(*                     callee in the other dialect -- the statement of C16    *)
(*                     needs it, because the shipped libraries are standard C *)
(***************************************************************************)
EXTENDS CDeclFn, TLC, Json

CONSTANTS MaxParams, Types

Kinds == {Kind(s, t) : s \in Shapes, t \in Types}
Sigs == UNION {[1..m -> Kinds] : m \in 1..MaxParams}

VARIABLES kinds, caller, callee, phase
vars == <<kinds, caller, callee, phase>>

Ids(ks) == [i \in 1..Len(ks) |-> IF ks[i].shape = "ret" THEN "R" \o ToString(i) ELSE "P" \o ToString(i)]

Init == kinds \in Sigs /\ caller \in {"old", "std"} /\ callee \in {"old", "std"} /\ phase = "printed"
Call == phase = "printed" /\ phase' = "called" /\ UNCHANGED <<kinds, caller, callee>>
Next == Call
Spec == Init /\ [][Next]_vars

PrinterFaithful == HeadFaithful(callee, kinds, Ids(kinds))
SameDialectAgrees == (phase = "called" /\ caller = callee) => CallAgrees(caller, callee, kinds)
MixedDialectsAgree == phase = "called" => CallAgrees(caller, callee, kinds)
(* the only parameters for which the dialects differ are the narrow ones *)
MixedOnlyNarrow == (phase = "called" /\ ~CallAgrees(caller, callee, kinds)) =>
                      \E i \in 1..Len(kinds) : kinds[i] = Kind("val", "FiSFlo")
(* old C never prints a star in the name list, standard C never prints a declaration list *)
ListsShape == /\ \A i \in 1..Len(kinds) : Len(HeadList("old", [j \in 1..Len(kinds) |-> Node(kinds[j], Ids(kinds)[j])])[i]) = 1
              /\ DeclList("std", [j \in 1..Len(kinds) |-> Node(kinds[j], Ids(kinds)[j])]) = <<>>
=============================================================================
