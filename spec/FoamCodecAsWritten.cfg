SPECIFICATION Spec
CONSTANTS
  Hazard = {}
  BigCount = 256
  Export = FALSE
INVARIANTS ChoiceOK
CHECK_DEADLOCK FALSE
