---- MODULE LibFile_TTrace_1791100415 ----
EXTENDS Sequences, TLCExt, Toolbox, Naturals, TLC, LibFile

_expression ==
    LET LibFile_TEExpression == INSTANCE LibFile_TEExpression
    IN LibFile_TEExpression!expression
----

_trace ==
    LET LibFile_TETrace == INSTANCE LibFile_TETrace
    IN LibFile_TETrace!trace
----

_inv ==
    ~(
        TLCGet("level") = Len(_TETrace)
        /\
        phase = ("done")
        /\
        diag = (FALSE)
        /\
        want = ({})
        /\
        fill = (0)
        /\
        got = (<<>>)
        /\
        wtbl = ((0 :> [name |-> 2, off |-> 16, len |-> 2] @@ 1 :> [name |-> 0, off |-> 18, len |-> 2] @@ 2 :> [name |-> 3, off |-> 20, len |-> 3] @@ 3 :> [name |-> 4, off |-> 0, len |-> 0]))
        /\
        rhdr = ([ns |-> 3, tbl |-> (0 :> [name |-> 0, off |-> 0, len |-> 0] @@ 1 :> [name |-> 0, off |-> 0, len |-> 0] @@ 2 :> [name |-> 0, off |-> 0, len |-> 0] @@ 3 :> [name |-> 0, off |-> 0, len |-> 0]), magic |-> 7, vmaj |-> 2, vmin |-> 1, sum |-> 1, short |-> TRUE])
        /\
        taint = (FALSE)
        /\
        disk = (<<7, 2, 1, 3>>)
        /\
        orig = ((0 :> <<4>> @@ 2 :> <<4>> @@ 3 :> <<4, 5>>))
        /\
        wns = (3)
        /\
        outcome = ("Fault")
        /\
        dmg = ([kind |-> "trunc", pos |-> 4, cls |-> "tbl.name"])
    )
----

_init ==
    /\ phase = _TETrace[1].phase
    /\ dmg = _TETrace[1].dmg
    /\ outcome = _TETrace[1].outcome
    /\ taint = _TETrace[1].taint
    /\ disk = _TETrace[1].disk
    /\ fill = _TETrace[1].fill
    /\ wtbl = _TETrace[1].wtbl
    /\ rhdr = _TETrace[1].rhdr
    /\ got = _TETrace[1].got
    /\ orig = _TETrace[1].orig
    /\ wns = _TETrace[1].wns
    /\ want = _TETrace[1].want
    /\ diag = _TETrace[1].diag
----

_next ==
    /\ \E i,j \in DOMAIN _TETrace:
        /\ \/ /\ j = i + 1
              /\ i = TLCGet("level")
        /\ phase  = _TETrace[i].phase
        /\ phase' = _TETrace[j].phase
        /\ dmg  = _TETrace[i].dmg
        /\ dmg' = _TETrace[j].dmg
        /\ outcome  = _TETrace[i].outcome
        /\ outcome' = _TETrace[j].outcome
        /\ taint  = _TETrace[i].taint
        /\ taint' = _TETrace[j].taint
        /\ disk  = _TETrace[i].disk
        /\ disk' = _TETrace[j].disk
        /\ fill  = _TETrace[i].fill
        /\ fill' = _TETrace[j].fill
        /\ wtbl  = _TETrace[i].wtbl
        /\ wtbl' = _TETrace[j].wtbl
        /\ rhdr  = _TETrace[i].rhdr
        /\ rhdr' = _TETrace[j].rhdr
        /\ got  = _TETrace[i].got
        /\ got' = _TETrace[j].got
        /\ orig  = _TETrace[i].orig
        /\ orig' = _TETrace[j].orig
        /\ wns  = _TETrace[i].wns
        /\ wns' = _TETrace[j].wns
        /\ want  = _TETrace[i].want
        /\ want' = _TETrace[j].want
        /\ diag  = _TETrace[i].diag
        /\ diag' = _TETrace[j].diag

\* Uncomment the ASSUME below to write the states of the error trace
\* to the given file in Json format. Note that you can pass any tuple
\* to `JsonSerialize`. For example, a sub-sequence of _TETrace.
    \* ASSUME
    \*     LET J == INSTANCE Json
    \*         IN J!JsonSerialize("LibFile_TTrace_1791100415.json", _TETrace)

=============================================================================

 Note that you can extract this module `LibFile_TEExpression`
  to a dedicated file to reuse `expression` (the module in the 
  dedicated `LibFile_TEExpression.tla` file takes precedence 
  over the module `LibFile_TEExpression` below).

---- MODULE LibFile_TEExpression ----
EXTENDS Sequences, TLCExt, Toolbox, Naturals, TLC, LibFile

expression == 
    [
        \* To hide variables of the `LibFile` spec from the error trace,
        \* remove the variables below.  The trace will be written in the order
        \* of the fields of this record.
        phase |-> phase
        ,dmg |-> dmg
        ,outcome |-> outcome
        ,taint |-> taint
        ,disk |-> disk
        ,fill |-> fill
        ,wtbl |-> wtbl
        ,rhdr |-> rhdr
        ,got |-> got
        ,orig |-> orig
        ,wns |-> wns
        ,want |-> want
        ,diag |-> diag
        
        \* Put additional constant-, state-, and action-level expressions here:
        \* ,_stateNumber |-> _TEPosition
        \* ,_phaseUnchanged |-> phase = phase'
        
        \* Format the `phase` variable as Json value.
        \* ,_phaseJson |->
        \*     LET J == INSTANCE Json
        \*     IN J!ToJson(phase)
        
        \* Lastly, you may build expressions over arbitrary sets of states by
        \* leveraging the _TETrace operator.  For example, this is how to
        \* count the number of times a spec variable changed up to the current
        \* state in the trace.
        \* ,_phaseModCount |->
        \*     LET F[s \in DOMAIN _TETrace] ==
        \*         IF s = 1 THEN 0
        \*         ELSE IF _TETrace[s].phase # _TETrace[s-1].phase
        \*             THEN 1 + F[s-1] ELSE F[s-1]
        \*     IN F[_TEPosition - 1]
    ]

=============================================================================



Parsing and semantic processing can take forever if the trace below is long.
 In this case, it is advised to uncomment the module below to deserialize the
 trace from a generated binary file.

\*
\*---- MODULE LibFile_TETrace ----
\*EXTENDS IOUtils, TLC, LibFile
\*
\*trace == IODeserialize("LibFile_TTrace_1791100415.bin", TRUE)
\*
\*=============================================================================
\*

---- MODULE LibFile_TETrace ----
EXTENDS TLC, LibFile

trace == 
    <<
    ([phase |-> "writing",diag |-> FALSE,want |-> {},fill |-> 0,got |-> <<>>,wtbl |-> (0 :> [name |-> 4, off |-> 0, len |-> 0] @@ 1 :> [name |-> 4, off |-> 0, len |-> 0] @@ 2 :> [name |-> 4, off |-> 0, len |-> 0] @@ 3 :> [name |-> 4, off |-> 0, len |-> 0]),rhdr |-> [ns |-> 0, tbl |-> (0 :> [name |-> 4, off |-> 0, len |-> 0] @@ 1 :> [name |-> 4, off |-> 0, len |-> 0] @@ 2 :> [name |-> 4, off |-> 0, len |-> 0] @@ 3 :> [name |-> 4, off |-> 0, len |-> 0]), magic |-> 0, vmaj |-> 0, vmin |-> 0, sum |-> 0, short |-> FALSE],taint |-> FALSE,disk |-> <<>>,orig |-> <<>>,wns |-> 0,outcome |-> "",dmg |-> [kind |-> "none", pos |-> 0, cls |-> "none"]]),
    ([phase |-> "writing",diag |-> FALSE,want |-> {},fill |-> 0,got |-> <<>>,wtbl |-> (0 :> [name |-> 2, off |-> 16, len |-> 2] @@ 1 :> [name |-> 4, off |-> 0, len |-> 0] @@ 2 :> [name |-> 4, off |-> 0, len |-> 0] @@ 3 :> [name |-> 4, off |-> 0, len |-> 0]),rhdr |-> [ns |-> 0, tbl |-> (0 :> [name |-> 4, off |-> 0, len |-> 0] @@ 1 :> [name |-> 4, off |-> 0, len |-> 0] @@ 2 :> [name |-> 4, off |-> 0, len |-> 0] @@ 3 :> [name |-> 4, off |-> 0, len |-> 0]), magic |-> 0, vmaj |-> 0, vmin |-> 0, sum |-> 0, short |-> FALSE],taint |-> FALSE,disk |-> <<0, 0, 0, 0, 0, 0, 0, 0, 0, 0, 0, 0, 0, 0, 0, 0, 1, 4>>,orig |-> (2 :> <<4>>),wns |-> 1,outcome |-> "",dmg |-> [kind |-> "none", pos |-> 0, cls |-> "none"]]),
    ([phase |-> "writing",diag |-> FALSE,want |-> {},fill |-> 0,got |-> <<>>,wtbl |-> (0 :> [name |-> 2, off |-> 16, len |-> 2] @@ 1 :> [name |-> 0, off |-> 18, len |-> 2] @@ 2 :> [name |-> 4, off |-> 0, len |-> 0] @@ 3 :> [name |-> 4, off |-> 0, len |-> 0]),rhdr |-> [ns |-> 0, tbl |-> (0 :> [name |-> 4, off |-> 0, len |-> 0] @@ 1 :> [name |-> 4, off |-> 0, len |-> 0] @@ 2 :> [name |-> 4, off |-> 0, len |-> 0] @@ 3 :> [name |-> 4, off |-> 0, len |-> 0]), magic |-> 0, vmaj |-> 0, vmin |-> 0, sum |-> 0, short |-> FALSE],taint |-> FALSE,disk |-> <<0, 0, 0, 0, 0, 0, 0, 0, 0, 0, 0, 0, 0, 0, 0, 0, 1, 4, 1, 4>>,orig |-> (0 :> <<4>> @@ 2 :> <<4>>),wns |-> 2,outcome |-> "",dmg |-> [kind |-> "none", pos |-> 0, cls |-> "none"]]),
    ([phase |-> "writing",diag |-> FALSE,want |-> {},fill |-> 0,got |-> <<>>,wtbl |-> (0 :> [name |-> 2, off |-> 16, len |-> 2] @@ 1 :> [name |-> 0, off |-> 18, len |-> 2] @@ 2 :> [name |-> 3, off |-> 20, len |-> 3] @@ 3 :> [name |-> 4, off |-> 0, len |-> 0]),rhdr |-> [ns |-> 0, tbl |-> (0 :> [name |-> 4, off |-> 0, len |-> 0] @@ 1 :> [name |-> 4, off |-> 0, len |-> 0] @@ 2 :> [name |-> 4, off |-> 0, len |-> 0] @@ 3 :> [name |-> 4, off |-> 0, len |-> 0]), magic |-> 0, vmaj |-> 0, vmin |-> 0, sum |-> 0, short |-> FALSE],taint |-> FALSE,disk |-> <<0, 0, 0, 0, 0, 0, 0, 0, 0, 0, 0, 0, 0, 0, 0, 0, 1, 4, 1, 4, 2, 4, 5>>,orig |-> (0 :> <<4>> @@ 2 :> <<4>> @@ 3 :> <<4, 5>>),wns |-> 3,outcome |-> "",dmg |-> [kind |-> "none", pos |-> 0, cls |-> "none"]]),
    ([phase |-> "closed",diag |-> FALSE,want |-> {},fill |-> 0,got |-> <<>>,wtbl |-> (0 :> [name |-> 2, off |-> 16, len |-> 2] @@ 1 :> [name |-> 0, off |-> 18, len |-> 2] @@ 2 :> [name |-> 3, off |-> 20, len |-> 3] @@ 3 :> [name |-> 4, off |-> 0, len |-> 0]),rhdr |-> [ns |-> 0, tbl |-> (0 :> [name |-> 4, off |-> 0, len |-> 0] @@ 1 :> [name |-> 4, off |-> 0, len |-> 0] @@ 2 :> [name |-> 4, off |-> 0, len |-> 0] @@ 3 :> [name |-> 4, off |-> 0, len |-> 0]), magic |-> 0, vmaj |-> 0, vmin |-> 0, sum |-> 0, short |-> FALSE],taint |-> FALSE,disk |-> <<7, 2, 1, 3, 2, 16, 2, 0, 18, 2, 3, 20, 3, 4, 0, 0, 1, 4, 1, 4, 2, 4, 5>>,orig |-> (0 :> <<4>> @@ 2 :> <<4>> @@ 3 :> <<4, 5>>),wns |-> 3,outcome |-> "",dmg |-> [kind |-> "none", pos |-> 0, cls |-> "none"]]),
    ([phase |-> "ready",diag |-> FALSE,want |-> {},fill |-> 0,got |-> <<>>,wtbl |-> (0 :> [name |-> 2, off |-> 16, len |-> 2] @@ 1 :> [name |-> 0, off |-> 18, len |-> 2] @@ 2 :> [name |-> 3, off |-> 20, len |-> 3] @@ 3 :> [name |-> 4, off |-> 0, len |-> 0]),rhdr |-> [ns |-> 0, tbl |-> (0 :> [name |-> 4, off |-> 0, len |-> 0] @@ 1 :> [name |-> 4, off |-> 0, len |-> 0] @@ 2 :> [name |-> 4, off |-> 0, len |-> 0] @@ 3 :> [name |-> 4, off |-> 0, len |-> 0]), magic |-> 0, vmaj |-> 0, vmin |-> 0, sum |-> 0, short |-> FALSE],taint |-> FALSE,disk |-> <<7, 2, 1, 3>>,orig |-> (0 :> <<4>> @@ 2 :> <<4>> @@ 3 :> <<4, 5>>),wns |-> 3,outcome |-> "",dmg |-> [kind |-> "trunc", pos |-> 4, cls |-> "tbl.name"]]),
    ([phase |-> "hdr",diag |-> FALSE,want |-> {},fill |-> 0,got |-> <<>>,wtbl |-> (0 :> [name |-> 2, off |-> 16, len |-> 2] @@ 1 :> [name |-> 0, off |-> 18, len |-> 2] @@ 2 :> [name |-> 3, off |-> 20, len |-> 3] @@ 3 :> [name |-> 4, off |-> 0, len |-> 0]),rhdr |-> [ns |-> 0, tbl |-> (0 :> [name |-> 4, off |-> 0, len |-> 0] @@ 1 :> [name |-> 4, off |-> 0, len |-> 0] @@ 2 :> [name |-> 4, off |-> 0, len |-> 0] @@ 3 :> [name |-> 4, off |-> 0, len |-> 0]), magic |-> 0, vmaj |-> 0, vmin |-> 0, sum |-> 0, short |-> FALSE],taint |-> FALSE,disk |-> <<7, 2, 1, 3>>,orig |-> (0 :> <<4>> @@ 2 :> <<4>> @@ 3 :> <<4, 5>>),wns |-> 3,outcome |-> "",dmg |-> [kind |-> "trunc", pos |-> 4, cls |-> "tbl.name"]]),
    ([phase |-> "chk",diag |-> FALSE,want |-> {},fill |-> 0,got |-> <<>>,wtbl |-> (0 :> [name |-> 2, off |-> 16, len |-> 2] @@ 1 :> [name |-> 0, off |-> 18, len |-> 2] @@ 2 :> [name |-> 3, off |-> 20, len |-> 3] @@ 3 :> [name |-> 4, off |-> 0, len |-> 0]),rhdr |-> [ns |-> 3, tbl |-> (0 :> [name |-> 0, off |-> 0, len |-> 0] @@ 1 :> [name |-> 0, off |-> 0, len |-> 0] @@ 2 :> [name |-> 0, off |-> 0, len |-> 0] @@ 3 :> [name |-> 0, off |-> 0, len |-> 0]), magic |-> 7, vmaj |-> 2, vmin |-> 1, sum |-> 1, short |-> TRUE],taint |-> FALSE,disk |-> <<7, 2, 1, 3>>,orig |-> (0 :> <<4>> @@ 2 :> <<4>> @@ 3 :> <<4, 5>>),wns |-> 3,outcome |-> "",dmg |-> [kind |-> "trunc", pos |-> 4, cls |-> "tbl.name"]]),
    ([phase |-> "done",diag |-> FALSE,want |-> {},fill |-> 0,got |-> <<>>,wtbl |-> (0 :> [name |-> 2, off |-> 16, len |-> 2] @@ 1 :> [name |-> 0, off |-> 18, len |-> 2] @@ 2 :> [name |-> 3, off |-> 20, len |-> 3] @@ 3 :> [name |-> 4, off |-> 0, len |-> 0]),rhdr |-> [ns |-> 3, tbl |-> (0 :> [name |-> 0, off |-> 0, len |-> 0] @@ 1 :> [name |-> 0, off |-> 0, len |-> 0] @@ 2 :> [name |-> 0, off |-> 0, len |-> 0] @@ 3 :> [name |-> 0, off |-> 0, len |-> 0]), magic |-> 7, vmaj |-> 2, vmin |-> 1, sum |-> 1, short |-> TRUE],taint |-> FALSE,disk |-> <<7, 2, 1, 3>>,orig |-> (0 :> <<4>> @@ 2 :> <<4>> @@ 3 :> <<4, 5>>),wns |-> 3,outcome |-> "Fault",dmg |-> [kind |-> "trunc", pos |-> 4, cls |-> "tbl.name"]])
    >>
----


=============================================================================

---- CONFIG LibFile_TTrace_1791100415 ----
CONSTANTS
    READER = "AsWritten"
    SUM = FALSE
    PRINT = FALSE
    VALS = { 3 , 11 }

INVARIANT
    _inv

CHECK_DEADLOCK
    \* CHECK_DEADLOCK off because of PROPERTY or INVARIANT above.
    FALSE

INIT
    _init

NEXT
    _next

CONSTANT
    _TETrace <- _trace

ALIAS
    _expression
=============================================================================
\* Generated on Sun Oct 04 07:53:48 UTC 2026