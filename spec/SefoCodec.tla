----------------------------- MODULE SefoCodec -----------------------------
(***************************************************************************)
(* The type section of an object file (property C05; sefo.c: tformToBuffer,*)
(* sefoToBuffer and friends write it, tformFrBuffer / sefoFrBuffer read one *)
(* type at a time, and the skipping twins tformFrBuffer0 / sefoFrBuffer0    *)
(* run over the whole section once to record where each type starts:       *)
(* tformTypepFrBuffer).  A CLIENT of a library sees the library's types     *)
(* only through this section, so writer, reader and skipper have to agree   *)
(* on the length of every node kind -- for every kind of leaf a type        *)
(* expression can contain: identifier, integer / float / string literal,    *)
(* applications, declarations, nested parametrised types.                   *)
(*                                                                         *)
(* Layout (all numbers little-endian):                                      *)
(*   section   = count:4  tform*                                            *)
(*   tform     = tag:1 (| 0x80 hasSelf | 0x40 hasCascades)                  *)
(*               [ sefo            when the tag is Syntax / General         *)
(*               | argc:2 type:4*  when the tag is a node tag ]             *)
(*               symes(self) symes(selfSelf) types(queries) tquals(cascades)*)
(*               [symes            when the tag has symes]                  *)
(*               [symes(exports) n:2 sefolist*n     when the tag is With]   *)
(*               [symes            when the tag is Third]                   *)
(*               symes(free variables)                                      *)
(*   sefo      = tag:1 then  Nothing Blank: -   Id: syme:2                  *)
(*               LitInteger LitFloat LitString: syme:2 len:4 chars (len     *)
(*               counts the closing NUL)                                    *)
(*               Lambda: sefo sefo     With: sefo sefo symes                *)
(*               any other tag: argc:2 sefo*                                *)
(*   symes = n:2 syme:2*n   types = n:2 type:4*n                            *)
(*   tquals = n:2 (type:4 types)*n          sefolist = n:2 sefo*n           *)
(*                                                                         *)
(* The machine: pick a section (a sequence of type forms), Write it, Index  *)
(* it with the skipper, Fetch every type at its indexed position with the   *)
(* reader.  Invariants                                                      *)
(*   IndexOK   the skipper finds every type where the writer put it and     *)
(*             ends at the end of the section;                              *)
(*   FetchOK   the reader returns the type that was written and consumes    *)
(*             what the skipper skipped.                                    *)
(* SkipLits is the set of literal kinds the SKIPPER knows: {"int", "flt",   *)
(* "str"} is what is required; a smaller set (SefoCodecSharp.cfg) makes     *)
(* IndexOK fail, i.e. the invariant is sharp.                               *)
(* TLC also exports TYPE lines: the type-expression shapes (constructor     *)
(* applications over every leaf kind, nested, with one and two arguments)   *)
(* from which gen/typeprogs.py builds library + client programs; and        *)
(* TraceSefoCodec.tla reads the type section of every library so built      *)
(* with this module's reader and skipper.                                   *)
(***************************************************************************)
EXTENDS Naturals, Sequences, FiniteSets, TLC, Json, SequencesExt

CONSTANTS SkipLits, Export

AbOrder == << "Id", "IdSy", "Blank", "DocText", "LitInteger", "LitFloat", "LitString", "Add", "And", "Apply", "Assert", "Assign",
              "Break", "Builtin", "CoerceTo", "Collect", "Comma", "Declare", "Default", "Define", "DDefine", "Delay", "Do",
              "Documented", "Except", "Exit", "Export", "Extend", "Fix", "Fluid", "For", "ForeignImport", "ForeignExport", "Free",
              "Generate", "Goto", "Has", "Hide", "If", "Import", "Inline", "Iterate", "Label", "Lambda", "Let", "Local", "Macro",
              "MDefine", "MLambda", "Never", "Not", "Nothing", "Or", "Paren", "PLambda", "PretendTo", "Qualify", "Quote", "Raise",
              "Reference", "Repeat", "RestrictTo", "Return", "Select", "Sequence", "Test", "Try", "Unit", "Where", "While", "With",
              "Yield" >>
TfOrder == << "Unknown", "Exit", "Literal", "Test", "Type", "Category", "Syntax", "General", "Add", "Assign", "Cross", "Declare",
              "Default", "Define", "Enumeration", "Forward", "Generator", "If", "Instance", "Join", "Map", "Meet", "Multiple",
              "PackedMap", "Raw", "RawRecord", "Record", "Reference", "Subst", "Third", "Trigger", "TrailingArray", "Tuple", "Union",
              "Variable", "With", "Except" >>
NoOf(order, name) == (CHOOSE i \in 1..Len(order) : order[i] = name) - 1
AbNo == [t \in {AbOrder[i] : i \in 1..Len(AbOrder)} |-> NoOf(AbOrder, t)]
TfNo == [t \in {TfOrder[i] : i \in 1..Len(TfOrder)} |-> NoOf(TfOrder, t)]
TfSym   == {"Unknown", "Exit", "Literal", "Test", "Type", "Category"}
TfAbSyn == {"Syntax", "General"}
TfHasSymes == {"Declare", "Cross", "Map", "PackedMap", "Multiple", "Enumeration", "RawRecord", "Record", "TrailingArray", "Union", "Add", "Third"}

LitKind == [LitInteger |-> "int", LitFloat |-> "flt", LitString |-> "str"]
LitTag  == [int |-> "LitInteger", flt |-> "LitFloat", str |-> "LitString"]

(* sefo: every record has the same fields (TLC compares records of one shape only) *)
Sefo(t, sy, s, a, self) == [t |-> t, sy |-> sy, s |-> s, a |-> a, self |-> self]
Leaf(t, sy, s) == Sefo(t, sy, s, <<>>, <<>>)
Id(sy)         == Leaf("Id", sy, 0)
Lit(k, sy, s)  == Leaf(LitTag[k], sy, s)
Op(t, a)       == Sefo(t, 0, 0, a, <<>>)
NothingS       == Leaf("Nothing", 0, 0)

(* type form *)
TForm(tag, flags, x, args, lists) ==
  [tag |-> tag, flags |-> flags, x |-> x, args |-> args,
   self |-> lists.self, selfself |-> lists.selfself, queries |-> lists.queries, cascades |-> lists.cascades,
   symes |-> lists.symes, exports |-> lists.exports, conds |-> lists.conds, third |-> lists.third, fv |-> lists.fv]
NoLists == [self |-> <<>>, selfself |-> <<>>, queries |-> <<>>, cascades |-> <<>>, symes |-> <<>>, exports |-> <<>>,
            conds |-> <<>>, third |-> <<>>, fv |-> <<>>]

---------------------------------------------------------------------------
LE2(v) == <<v % 256, (v \div 256) % 256>>
LE4(v) == <<v % 256, (v \div 256) % 256, (v \div 65536) % 256, (v \div 16777216) % 256>>
Rep(n, x) == [i \in 1..n |-> x]
Cat(f(_), s) == FoldLeft(LAMBDA acc, x : acc \o f(x), <<>>, s)

WSymes(s) == LE2(Len(s)) \o Cat(LE2, s)
WTypes(s) == LE2(Len(s)) \o Cat(LE4, s)
WTQual(q) == LE4(q.base) \o WTypes(q.qual)

RECURSIVE WSefo(_)
WSefo(x) ==
  <<AbNo[x.t]>> \o
  CASE x.t \in {"Nothing", "Blank"} -> <<>>
    [] x.t = "Id"                   -> LE2(x.sy)
    [] x.t \in DOMAIN LitKind       -> LE2(x.sy) \o LE4(x.s + 1) \o Rep(x.s, 48) \o <<0>>
    [] x.t = "Lambda"               -> WSefo(x.a[1]) \o WSefo(x.a[2])
    [] x.t = "With"                 -> WSefo(x.a[1]) \o WSefo(x.a[2]) \o WSymes(x.self)
    [] OTHER                        -> LE2(Len(x.a)) \o Cat(WSefo, x.a)
WSefoList(s) == LE2(Len(s)) \o Cat(WSefo, s)

WTForm(tf) ==
  <<TfNo[tf.tag] + 64 * tf.flags>> \o
  (IF tf.tag \in TfSym THEN <<>> ELSE IF tf.tag \in TfAbSyn THEN WSefo(tf.x) ELSE WTypes(tf.args)) \o
  WSymes(tf.self) \o WSymes(tf.selfself) \o WTypes(tf.queries) \o (LE2(Len(tf.cascades)) \o Cat(WTQual, tf.cascades)) \o
  (IF tf.tag \in TfHasSymes THEN WSymes(tf.symes) ELSE <<>>) \o
  (IF tf.tag = "With" THEN WSymes(tf.exports) \o LE2(Len(tf.conds)) \o Cat(WSefoList, tf.conds) ELSE <<>>) \o
  (IF tf.tag = "Third" THEN WSymes(tf.third) ELSE <<>>) \o
  WSymes(tf.fv)
WSection(sec) == LE4(Len(sec)) \o Cat(WTForm, sec)

---------------------------------------------------------------------------
(* reading positions are 1-based; a byte beyond the end reads as 0 (a confused reader must not stop the model checker) *)
At(b, p)  == IF p \in DOMAIN b THEN b[p] ELSE 0
G2(b, p)  == At(b, p) + 256 * At(b, p + 1)
G4(b, p)  == At(b, p) + 256 * At(b, p + 1) + 65536 * At(b, p + 2) + 16777216 * (At(b, p + 3) % 128)
AbAt(b, p) == LET y == At(b, p) IN IF y < Len(AbOrder) THEN AbOrder[y + 1] ELSE "?"
TfAt(b, p) == LET y == At(b, p) % 64 IN IF y < Len(TfOrder) THEN TfOrder[y + 1] ELSE "?"
Ix(n) == [k \in 1..n |-> k]

(* the skipper: next position.  fuel bounds the recursion of a confused skipper *)
SkSymes(b, p) == p + 2 + 2 * G2(b, p)
SkTypes(b, p) == p + 2 + 4 * G2(b, p)
RECURSIVE SkSefo(_, _, _)
SkSefo(b, p, fuel) ==
  LET t == AbAt(b, p) IN
  IF fuel = 0 \/ p > Len(b) THEN Len(b) + 2
  ELSE CASE t \in {"Nothing", "Blank", "IdSy"} -> p + 1
         [] t = "Id" -> p + 3
         [] t \in DOMAIN LitKind /\ LitKind[t] \in SkipLits -> p + 3 + 4 + G4(b, p + 3)
         [] t = "Lambda" -> SkSefo(b, SkSefo(b, p + 1, fuel - 1), fuel - 1)
         [] t = "With"   -> SkSymes(b, SkSefo(b, SkSefo(b, p + 1, fuel - 1), fuel - 1))
         [] OTHER -> FoldLeft(LAMBDA q, k : SkSefo(b, q, fuel - 1), p + 3, Ix(IF G2(b, p + 1) > Len(b) THEN Len(b) ELSE G2(b, p + 1)))
SkSefoList(b, p) == FoldLeft(LAMBDA q, k : SkSefo(b, q, 40), p + 2, Ix(G2(b, p)))
SkTQuals(b, p)   == FoldLeft(LAMBDA q, k : SkTypes(b, q + 4), p + 2, Ix(G2(b, p)))
SkTForm(b, p) ==
  LET t  == TfAt(b, p)
      p1 == IF t \in TfSym THEN p + 1 ELSE IF t \in TfAbSyn THEN SkSefo(b, p + 1, 40) ELSE SkTypes(b, p + 1)
      p2 == SkTQuals(b, SkTypes(b, SkSymes(b, SkSymes(b, p1))))
      p3 == IF t \in TfHasSymes THEN SkSymes(b, p2) ELSE p2
      p4 == IF t = "With" THEN LET q == SkSymes(b, p3) IN FoldLeft(LAMBDA r, k : SkSefoList(b, r), q + 2, Ix(G2(b, q))) ELSE p3
      p5 == IF t = "Third" THEN SkSymes(b, p4) ELSE p4
  IN SkSymes(b, p5)
(* tformTypepFrBuffer: <<positions of the types, position after the last>> *)
Index(b) == FoldLeft(LAMBDA acc, k : <<Append(acc[1], acc[2]), SkTForm(b, acc[2])>>, <<<<>>, 5>>, Ix(G4(b, 1)))

(* the reader: <<value, next position>> *)
RdSeq(g(_, _), b, p, n) == FoldLeft(LAMBDA acc, k : LET r == g(b, acc[2]) IN <<Append(acc[1], r[1]), r[2]>>, <<<<>>, p>>, Ix(n))
Rd2(b, p) == <<G2(b, p), p + 2>>
Rd4(b, p) == <<G4(b, p), p + 4>>
RdSymes(b, p) == RdSeq(Rd2, b, p + 2, G2(b, p))
RdTypes(b, p) == RdSeq(Rd4, b, p + 2, G2(b, p))
RdTQual(b, p) == LET r == RdTypes(b, p + 4) IN <<[base |-> G4(b, p), qual |-> r[1]], r[2]>>
RECURSIVE RdSefo(_, _)
RdSefo(b, p) ==
  LET t == AbAt(b, p) IN
  CASE t \in {"Nothing", "Blank"} -> <<Leaf(t, 0, 0), p + 1>>
    [] t = "Id" -> <<Id(G2(b, p + 1)), p + 3>>
    [] t \in DOMAIN LitKind -> LET cc == G4(b, p + 3) IN <<Leaf(t, G2(b, p + 1), cc - 1), p + 7 + cc>>
    [] t = "Lambda" -> LET r1 == RdSefo(b, p + 1) r2 == RdSefo(b, r1[2]) IN <<Op(t, <<r1[1], r2[1]>>), r2[2]>>
    [] t = "With" -> LET r1 == RdSefo(b, p + 1) r2 == RdSefo(b, r1[2]) r3 == RdSymes(b, r2[2])
                     IN <<Sefo(t, 0, 0, <<r1[1], r2[1]>>, r3[1]), r3[2]>>
    [] OTHER -> LET r == RdSeq(RdSefo, b, p + 3, G2(b, p + 1)) IN <<Op(t, r[1]), r[2]>>
RdSefoList(b, p) == RdSeq(RdSefo, b, p + 2, G2(b, p))
RdTForm(b, p) ==
  LET t  == TfAt(b, p)
      fl == At(b, p) \div 64
      r1 == IF t \in TfSym THEN <<NothingS, p + 1>> ELSE IF t \in TfAbSyn THEN RdSefo(b, p + 1) ELSE <<NothingS, RdTypes(b, p + 1)[2]>>
      ar == IF t \in TfSym \cup TfAbSyn THEN <<>> ELSE RdTypes(b, p + 1)[1]
      s1 == RdSymes(b, r1[2])  s2 == RdSymes(b, s1[2])  q == RdTypes(b, s2[2])
      c  == RdSeq(RdTQual, b, q[2] + 2, G2(b, q[2]))
      sy == IF t \in TfHasSymes THEN RdSymes(b, c[2]) ELSE <<<<>>, c[2]>>
      ex == IF t = "With" THEN RdSymes(b, sy[2]) ELSE <<<<>>, sy[2]>>
      cd == IF t = "With" THEN RdSeq(RdSefoList, b, ex[2] + 2, G2(b, ex[2])) ELSE <<<<>>, ex[2]>>
      th == IF t = "Third" THEN RdSymes(b, cd[2]) ELSE <<<<>>, cd[2]>>
      fv == RdSymes(b, th[2])
  IN <<[tag |-> t, flags |-> fl, x |-> r1[1], args |-> ar, self |-> s1[1], selfself |-> s2[1], queries |-> q[1], cascades |-> c[1],
        symes |-> sy[1], exports |-> ex[1], conds |-> cd[1], third |-> th[1], fv |-> fv[1]], fv[2]>>

---------------------------------------------------------------------------
(* the family: type expressions over every leaf kind *)
Strs == {0, 1, 3}                                   \* literal lengths (the empty string too)
Leaves == {Id(7)} \cup {Lit(k, 9, s) : k \in {"int", "flt", "str"}, s \in Strs}
App(f, a) == Op("Apply", <<Id(f)>> \o a)
Neg(x) == Op("Apply", <<Id(3), x>>)                 \* DI(-2): the argument is an application of `-'
D1 == {App(20, <<x>>) : x \in Leaves} \cup {App(20, <<Neg(Lit("int", 9, 1))>>)}
D1s == {App(20, <<Lit(k, 9, 1)>>) : k \in {"int", "flt", "str"}} \cup {App(20, <<Id(7)>>)}
D2 == {App(21, <<x, y>>) : x \in {Lit("int", 9, 1), Lit("flt", 9, 3)}, y \in {Lit("str", 9, 0), Lit("int", 9, 3)}}
Nested == {App(22, <<x>>) : x \in D1s \cup D2} \cup {App(23, <<x, y>>) : x \in D1s, y \in D1s}
Decls == {Op("Declare", <<Id(5), x>>) : x \in D1s} \cup {Op("Comma", <<x, y>>) : x \in D1s, y \in {Id(7), Lit("flt", 9, 1)}}
Others == {NothingS, Leaf("Blank", 0, 0), Op("Lambda", <<Op("Declare", <<Id(5), Id(6)>>), App(20, <<Lit("flt", 9, 1)>>)>>),
           Sefo("With", 0, 0, <<NothingS, Op("Sequence", <<Op("Declare", <<Id(5), App(20, <<Lit("str", 9, 3)>>)>>)>>)>>, <<4, 5>>)}
Sefos == D1 \cup D2 \cup Nested \cup Decls \cup Others

General(x) == TForm("General", 0, x, <<>>, [NoLists EXCEPT !.self = <<1>>, !.fv = <<2, 3>>])
MapT == TForm("Map", 2, NothingS, <<1, 2>>, [NoLists EXCEPT !.symes = <<8>>, !.queries = <<3>>, !.cascades = <<[base |-> 1, qual |-> <<2, 3>>]>>])
TypeT == TForm("Type", 0, NothingS, <<>>, NoLists)
WithT(x) == TForm("With", 1, NothingS, <<1, 2>>, [NoLists EXCEPT !.exports = <<4, 5>>, !.conds = << <<>>, <<x>> >>, !.selfself = <<6>>])
ThirdT == TForm("Third", 0, NothingS, <<1>>, [NoLists EXCEPT !.symes = <<1>>, !.third = <<2, 3>>])
(* the type in question stands in the middle: what follows it is found only if it was skipped correctly *)
Sections == {<<MapT, General(x), TypeT, ThirdT>> : x \in Sefos} \cup {<<WithT(x), MapT>> : x \in D1s \cup Decls}
            \cup {<<General(x), General(y)>> : x \in D1s, y \in D1s}

(* type-expression shapes for the program-level binding: the same applications, as constructor trees *)
ShapeLeaves == {[leaf |-> k, v |-> v] : k \in {"int", "flt", "str"}, v \in 0..2} \cup {[leaf |-> "id", v |-> 0], [leaf |-> "neg", v |-> 0]}
Sh(args) == [args |-> args]
S1  == {Sh(<<x>>) : x \in ShapeLeaves}
S1s == {Sh(<<[leaf |-> k, v |-> 1]>>) : k \in {"int", "flt", "str"}} \cup {Sh(<<[leaf |-> "id", v |-> 0]>>)}
S2  == {Sh(<<[leaf |-> "int", v |-> a], [leaf |-> "str", v |-> b]>>) : a \in {0, 2}, b \in {0, 1}}
       \cup {Sh(<<[leaf |-> "flt", v |-> a], [leaf |-> "int", v |-> 1]>>) : a \in {0, 2}}
SN  == {Sh(<<x>>) : x \in S1s \cup S2} \cup {Sh(<<x, y>>) : x \in S1s, y \in S1s}
Shapes == S1 \cup S2 \cup SN

---------------------------------------------------------------------------
VARIABLES sec, phase, buf, idx, got
vars == <<sec, phase, buf, idx, got>>

Init  == sec \in Sections /\ phase = "pick" /\ buf = <<>> /\ idx = <<>> /\ got = <<>>
Write == phase = "pick" /\ buf' = WSection(sec) /\ phase' = "written" /\ UNCHANGED <<sec, idx, got>>
IndexA == phase = "written" /\ idx' = Index(buf) /\ phase' = "indexed" /\ UNCHANGED <<sec, buf, got>>
Fetch == /\ phase = "indexed" /\ got' = [k \in 1..Len(idx[1]) |-> RdTForm(buf, idx[1][k])] /\ phase' = "fetched"
         /\ UNCHANGED <<sec, buf, idx>>
Next == Write \/ IndexA \/ Fetch
Spec == Init /\ [][Next]_vars

ExportShapes == Export => \A s \in Shapes : PrintT("TYPE " \o ToJson(s))
ASSUME ExportShapes

(* where the writer put the types *)
TruePos(s) == FoldLeft(LAMBDA acc, tf : <<Append(acc[1], acc[2]), acc[2] + Len(WTForm(tf))>>, <<<<>>, 5>>, s)

TypeOK  == phase \in {"pick", "written", "indexed", "fetched"}
IndexOK == phase \in {"indexed", "fetched"} => idx = TruePos(sec) /\ idx[2] = Len(buf) + 1
FetchOK == phase = "fetched" => \A k \in 1..Len(sec) : got[k][1] = sec[k] /\ got[k][2] = (Append(idx[1], idx[2]))[k + 1]
=============================================================================
