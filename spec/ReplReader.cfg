SPECIFICATION DSpec
INVARIANTS ReqCutsAreFormEnds ReqCutsSoFar ReqCleanBetweenForms PackedAsPredicted IsolatedDeviate
CHECK_DEADLOCK FALSE
