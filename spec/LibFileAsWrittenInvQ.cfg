\* lib.c as written against the property itself: DamagedRefused is EXPECTED to be violated
\* (the counterexample is kept in the evidence).
SPECIFICATION Spec
CONSTANTS
  READER = "AsWritten"
  SUM = FALSE
  PRINT = FALSE
  VALS = {3}
INVARIANTS TypeOK DamagedRefused
CHECK_DEADLOCK FALSE
