SPECIFICATION USpec
CONSTANTS
  Names = {"x", "y"}
  MaxSteps = 6
  Variant = "aswritten"
INVARIANTS NeverRefused
CHECK_DEADLOCK FALSE
