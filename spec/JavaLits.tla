------------------------------ MODULE JavaLits ------------------------------
(***************************************************************************)
(* C12, literal alphabet of the Java slice.                                *)
(*                                                                         *)
(* A back end has to materialise an integer constant of the program in the *)
(* target language.  Java has three ways to write one -- an int literal,   *)
(* a long literal, a BigInteger built from decimal text -- so the classes  *)
(* of constants on which an emitter can go wrong are the magnitudes around *)
(* the limits of these representations (and of the compiler's own          *)
(* immediate big integers, 30 resp. 62 bits):                              *)
(*       2^k - 1, 2^k, 2^k + 1, 2^k + 5   for k in Ks,   both signs.       *)
(* The language assigns every one of them its exact value (AldorSem: an    *)
(* Integer is unbounded), whatever the optimisation level at which the     *)
(* constant is met (library conversion of the literal text at run time at  *)
(* -Q1, a folded constant in the generated code at -Q2 and above).         *)
(*                                                                         *)
(* This module enumerates the alphabet and, for every group of GroupSize   *)
(* constants, one abstract program (the JSON form AldorSem.tla evaluates)  *)
(* that prints arithmetic on them: the constant itself, its neighbours,    *)
(* a product and a truncating quotient with a variable operand, and        *)
(* constants inside a function.  The programs are ordinary *)
(* members of C12's family: their expected behaviour is derived by TLC     *)
(* from AldorSem / AldorSemW32 and every run is judged by JavaRoute.tla.   *)
(*                                                                         *)
(* Machine integers: the family holds programs that do not depend on the   *)
(* word size, so the SI alphabet stops at 2^31 - 1 and the arithmetic on   *)
(* it moves towards zero.                                                  *)
(***************************************************************************)
EXTENDS BigZ, FiniteSets, TLC, Json

CONSTANTS Ks,          \* exponents of the Integer boundaries
          SKs,         \* exponents of the machine-integer boundaries (< 31)
          GroupSize,   \* constants per program
          Rich,        \* TRUE: five printed values per constant, FALSE: three
          Stride,      \* keep the groups g with (g + Offset) % Stride = 0  (1 = all)
          Offset

VARIABLES g, ph

Around(k) == {Sub(Pow2Z(k), One), Pow2Z(k), Add(Pow2Z(k), One), Add(Pow2Z(k), FromInt(5))}
Dec(ds)   == Z(FALSE, MFromDigits(ds, 10))
BIPos == UNION {Around(k) : k \in Ks}
         \cup {Dec(<<3,0,0,0,0,0,0,0,0,0>>),                                     \* 3000000000
               Dec(<<1,2,3,4,5,6,7,8,9,0,1,2,3,4>>),                             \* 12345678901234
               Dec(<<1,0,0,0,0,0,0,0,0,0,0,0,0,0,0,0,0,0,0,0>>)}                 \* 10^19
BIAlphabet == BIPos \cup {Neg(z) : z \in BIPos}

SIPos == {z \in UNION {Around(k) : k \in SKs} : BitLen(z) <= 31}
         \cup {Sub(Pow2Z(31), One), Sub(Pow2Z(31), FromInt(2)), FromInt(1234567890)}
SIAlphabet == SIPos \cup {Neg(z) : z \in SIPos}

(* fixed order: ascending by value *)
SortZ(S) == SortSeq(SetToSeq(S), LAMBDA a, b : Lt(a, b))
BISeq == SortZ(BIAlphabet)
SISeq == SortZ(SIAlphabet)

NGroups(sq) == (Len(sq) + GroupSize - 1) \div GroupSize
GroupOf(sq, n) == SubSeq(sq, (n - 1) * GroupSize + 1, Min2(n * GroupSize, Len(sq)))

---------------------------------------------------------------------------
(* abstract syntax (gen/progen.py, gen/fixedprogs.py)                       *)
Lit(t, z)   == [e |-> "lit", t |-> t, neg |-> z.neg, ds |-> MToDigits(z.mag, 10)]
Var(x)      == [e |-> "var", x |-> x]
Prim(o, as) == [e |-> "prim", op |-> o, args |-> as]
Str(s)      == [e |-> "str", s |-> s]
PrintLn(as)   == [d |-> "stmt", x |-> [e |-> "print", args |-> as \o <<Str("\n")>>]]
GVar(x, t, v) == [d |-> "var", x |-> x, t |-> t, init |-> v]
If(c, a, b, t) == [e |-> "if", c |-> c, a |-> a, b |-> b, t |-> t]
Call(i, as) == [e |-> "call", fi |-> i, args |-> as]
Sp == Str(" ")

(* f(x: Integer): Integer == (x - c) + c'   with both constants inside the function body *)
BIFun(name, c) ==
  [name |-> name, ps |-> <<"x">>, pts |-> <<"bi">>, rt |-> "bi", pure |-> TRUE,
   body |-> Prim("bi.add", <<Prim("bi.sub", <<Var("x"), Lit("bi", c)>>), Lit("bi", Add(c, One))>>)]

(* (a Java method holds at most 64 KB of code and at -Q5 and above all output statements of a program are inlined  *)
(*  into one method -- a recorded finding --, so a program carries about 25 printed values)                        *)
BILines(c, fi) ==
  IF Rich
  THEN << PrintLn(<<Lit("bi", c), Sp, Prim("bi.sub", <<Lit("bi", c), Var("one")>>), Sp, Prim("bi.mul", <<Var("m3"), Lit("bi", c)>>), Sp,
                    Prim("bi.quo", <<Lit("bi", c), Var("q7")>>), Sp, Call(fi, <<Var("q7")>>)>>) >>
  ELSE << PrintLn(<<Lit("bi", c), Sp, Prim("bi.mul", <<Var("m3"), Lit("bi", c)>>), Sp, Call(fi, <<Var("q7")>>)>>) >>

BIProg(n) ==
  LET cs == GroupOf(BISeq, n) IN
  [id |-> "L_bi" \o ToString(n), seed |-> 0, feat |-> <<"lits">>, recs |-> <<>>, uns |-> <<>>,
   funs |-> [i \in 1..Len(cs) |-> BIFun("f" \o ToString(i), cs[i])],
   top  |-> << GVar("one", "bi", Lit("bi", One)), GVar("m3", "bi", Lit("bi", FromInt(-3))), GVar("q7", "bi", Lit("bi", FromInt(7))) >>
            \o FoldLeft(LAMBDA acc, i : acc \o BILines(cs[i], i), <<>>, Ix(1, Len(cs)))]

(* machine integers: every operation moves towards zero (no dependence on the word size) *)
Inward(c) == IF c.neg THEN "si.add" ELSE "si.sub"
SIFun(name, c) ==
  [name |-> name, ps |-> <<"x">>, pts |-> <<"si">>, rt |-> "si", pure |-> TRUE,
   body |-> Prim(Inward(c), <<Lit("si", c), Var("x")>>)]
SILines(c, fi) ==
  IF Rich
  THEN << PrintLn(<<Lit("si", c), Sp, Prim(Inward(c), <<Lit("si", c), Var("one")>>), Sp,
                    Prim("si.quo", <<Lit("si", c), Var("q7")>>), Sp,
                    Prim("bi.mul", <<Prim("si.tobi", <<Lit("si", c)>>), Var("big")>>), Sp, Call(fi, <<Var("q7")>>)>>) >>
  ELSE << PrintLn(<<Lit("si", c), Sp, Prim("bi.mul", <<Prim("si.tobi", <<Lit("si", c)>>), Var("big")>>), Sp, Call(fi, <<Var("q7")>>)>>) >>
SIProg(n) ==
  LET cs == GroupOf(SISeq, n) IN
  [id |-> "L_si" \o ToString(n), seed |-> 0, feat |-> <<"lits">>, recs |-> <<>>, uns |-> <<>>,
   funs |-> [i \in 1..Len(cs) |-> SIFun("f" \o ToString(i), cs[i])],
   top  |-> << GVar("one", "si", Lit("si", One)), GVar("q7", "si", Lit("si", FromInt(7))),
               GVar("big", "bi", Lit("bi", Add(Pow2Z(32), FromInt(5)))) >>
            \o FoldLeft(LAMBDA acc, i : acc \o SILines(cs[i], i), <<>>, Ix(1, Len(cs)))]

---------------------------------------------------------------------------
Keep(n) == (n + Offset) % Stride = 0
Groups == {<<"bi", n>> : n \in {m \in 1..NGroups(BISeq) : Keep(m)}}
          \cup {<<"si", n>> : n \in {m \in 1..NGroups(SISeq) : Keep(m)}}

Init == g \in Groups /\ ph = 0
Next == /\ ph = 0 /\ ph' = 1 /\ g' = g
        /\ PrintT("PROG " \o ToJson(IF g[1] = "bi" THEN BIProg(g[2]) ELSE SIProg(g[2])))
Spec == Init /\ [][Next]_<<g, ph>>

(* the alphabet reaches every representation class on both sides of every limit, with both signs *)
Covers == /\ \A k \in Ks : \A z \in Around(k) : z \in BIAlphabet /\ Neg(z) \in BIAlphabet
          /\ \A z \in SIAlphabet : BitLen(z) <= 31 /\ Neg(z) \in SIAlphabet
          /\ \A z \in BIAlphabet \cup SIAlphabet : IsZ(z)
=============================================================================
