\* Eval(Reduce(c)) = c for W = 16, pieces of 7 bits, domain: all
SPECIFICATION Spec
CONSTANTS
  W = 16
  P = 7
  Domain = "all"
INVARIANTS InDomain Theorem Storage
CHECK_DEADLOCK FALSE
