SPECIFICATION TSpec
CONSTANTS
  Variant = "byname"
  Export = FALSE
INVARIANTS TableAsWithout
CHECK_DEADLOCK FALSE
