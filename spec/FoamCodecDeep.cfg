SPECIFICATION Spec
CONSTANTS
  Hazard = {"Prog", "TR", "BInt"}
  BigCount = 1000
  Export = FALSE
INVARIANTS TypeOK RoundTrip PositionsOK ChoiceOK Sharp
CHECK_DEADLOCK FALSE
