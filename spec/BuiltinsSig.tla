----------------------------- MODULE BuiltinsSig -----------------------------
(***************************************************************************)
(* Export of the signature table of Builtins.tla as one line               *)
(*     SIG [{"op":..,"args":[..],"res":[..],"defined":bool}, ...]          *)
(* Run on its own (BuiltinsSig.cfg has no behaviour specification: TLC     *)
(* only evaluates the assumption) it gives the harness the table in about  *)
(* two seconds; BuiltinsGen extends it, so every generator run prints the  *)
(* same line.                                                              *)
(***************************************************************************)
EXTENDS Builtins, Json

SigLine == PrintT("SIG " \o ToJson([i \in 1..Len(Table) |->
                     [op |-> Table[i].op, args |-> Table[i].args, res |-> ResTypes(Table[i].op),
                      defined |-> Table[i].op \in DefinedOps]]))
ASSUME SigLine
=============================================================================
